#!/usr/bin/env python3
"""Engine E9 (mapseed): patch a symlink copy of the Go 1.25.9 GOROOT so that Go map iteration order is a
deterministic function of the environment variable VERIF_MAPSEED (decimal, non-zero) of the running process.

usage: patch_goroot.py <pristine GOROOT> <symlink-copy GOROOT>

Patched files (each symlink is replaced by a regular file; everything else stays a symlink to the pristine tree):
  src/internal/runtime/maps/table.go  Iter.Init: it.entryOffset / it.dirOffset come from VerifMapSeed when it is != 0
                                      (low 3 bits of entryOffset = seed&7: a <=8-entry map lives in ONE group and is
                                      iterated as a rotation of its slot order, so seeds 1..8 give all 8 rotations;
                                      the upper bits and dirOffset are splitmix64(seed)), else the original rand()
  src/internal/runtime/maps/map.go    m.seed (per-map hash seed) = splitmix64(seed) when VerifMapSeed != 0, else rand()
  src/runtime/alg.go                  alginit renamed alginitOrig
  src/runtime/rand.go                 rand32 (hash seed of maps the compiler allocates on the stack) renamed rand32Orig
  src/cmd/compile/internal/walk/builtin.go  stack-allocated maps take their hash seed from runtime.rand32 instead of
                                      runtime.rand (setup.sh rebuilds pkg/tool/linux_amd64/compile from the patched source)
  src/runtime/zz_verif_mapseed.go     NEW: rand32 = seed-derived or rand32Orig; alginit = alginitOrig + (if VERIF_MAPSEED is set in the process environment,
                                      read straight from the aux env block because goenvs() has not run yet) fixed
                                      per-process hash keys derived from the seed and maps.VerifMapSeed = seed.
Without VERIF_MAPSEED (or =0) the runtime behaves exactly like the pristine one (all rand() calls kept).
The script is idempotent and fails loudly if the toolchain sources do not look as expected."""
import os, re, sys

src, dst = sys.argv[1], sys.argv[2]

def rd(rel):
    with open(os.path.join(src, rel)) as f:
        return f.read()

def put(rel, text):
    p = os.path.join(dst, rel)
    old = None
    if os.path.exists(p) and not os.path.islink(p):
        with open(p) as f:
            old = f.read()
    if old == text:
        return False
    if os.path.lexists(p):
        os.remove(p)
    with open(p, "w") as f:
        f.write(text)
    return True

def sub_exact(text, old, new, count, what):
    n = text.count(old)
    if n != count:
        sys.exit("patch_goroot: expected %d x %r in %s, found %d (toolchain layout changed?)" % (count, old, what, n))
    return text.replace(old, new)

MIX = '''
// VerifMapSeed (verif engine E9): when non-zero, map iteration start offsets and per-map hash seeds are a
// deterministic function of it instead of rand(). Set once by runtime.alginit from the VERIF_MAPSEED environment variable.
var VerifMapSeed uint64

func verifMix(x uint64) uint64 { // splitmix64 finaliser
	x += 0x9e3779b97f4a7c15
	x = (x ^ (x >> 30)) * 0xbf58476d1ce4e5b9
	x = (x ^ (x >> 27)) * 0x94d049bb133111eb
	return x ^ (x >> 31)
}

func verifEntryOffset() uint64 {
	if s := VerifMapSeed; s != 0 {
		return (verifMix(s) &^ 7) | (s & 7)
	}
	return rand()
}

func verifDirOffset() uint64 {
	if s := VerifMapSeed; s != 0 {
		return verifMix(s ^ 0x5851f42d4c957f2d)
	}
	return rand()
}

func verifHashSeed() uint64 {
	if s := VerifMapSeed; s != 0 {
		return verifMix(s ^ 0x14057b7ef767814f)
	}
	return rand()
}
'''

changed = False
# --- table.go
t = rd("src/internal/runtime/maps/table.go")
t = sub_exact(t, "it.entryOffset = rand()", "it.entryOffset = verifEntryOffset()", 1, "table.go")
t = sub_exact(t, "it.dirOffset = rand()", "it.dirOffset = verifDirOffset()", 1, "table.go")
if "rand()" in t:
    sys.exit("patch_goroot: unexpected further rand() use in table.go")
t += MIX
changed |= put("src/internal/runtime/maps/table.go", t)
# --- map.go
m = rd("src/internal/runtime/maps/map.go")
m = sub_exact(m, "m.seed = uintptr(rand())", "m.seed = uintptr(verifHashSeed())", 4, "map.go")
if "rand()" in m:
    sys.exit("patch_goroot: unexpected further rand() use in map.go")
changed |= put("src/internal/runtime/maps/map.go", m)
# any other rand() user in the package?
for fn in sorted(os.listdir(os.path.join(src, "src/internal/runtime/maps"))):
    if fn.endswith(".go") and not fn.endswith("_test.go") and fn not in ("table.go", "map.go", "runtime.go"):
        if re.search(r"\brand\(\)", rd("src/internal/runtime/maps/" + fn)):
            sys.exit("patch_goroot: unexpected rand() use in " + fn)
# --- alg.go
a = rd("src/runtime/alg.go")
a = sub_exact(a, "func alginit() {", "func alginitOrig() {", 1, "alg.go")
for need in ("var aeskeysched [hashRandomBytes]byte", "var hashkey [4]uintptr"):
    if need not in a:
        sys.exit("patch_goroot: alg.go lacks %r" % need)
changed |= put("src/runtime/alg.go", a)
# --- rand.go: rand32 is the per-map hash seed of compiler-allocated (non-escaping) maps
rg = rd("src/runtime/rand.go")
rg = sub_exact(rg, "func rand32() uint32 {\n\treturn uint32(rand())\n}", "func rand32Orig() uint32 {\n\treturn uint32(rand())\n}", 1, "rand.go")
changed |= put("src/runtime/rand.go", rg)
# --- cmd/compile: a non-escaping make(map) with hint <= 8 is allocated on the stack and its hash seed initialised by an
# inline call to runtime.rand(); route it through runtime.rand32 (patched above). Needs a rebuilt compile tool (setup.sh).
w = rd("src/cmd/compile/internal/walk/builtin.go")
w = sub_exact(w, 'rand := mkcall("rand", types.Types[types.TUINT64], init)', 'rand := mkcall("rand32", types.Types[types.TUINT32], init)', 1, "walk/builtin.go")
changed |= put("src/cmd/compile/internal/walk/builtin.go", w)
p = rd("src/runtime/proc.go")
if "argv_index(argv, argc+1+n)" not in p or "alginit()" not in p:
    sys.exit("patch_goroot: proc.go does not look as expected (argv_index / alginit)")
Z = '''// Code added by /verif/mapseed/patch_goroot.py (verif engine E9). Not part of Go.

package runtime

import (
	"internal/runtime/maps"
	"internal/stringslite"
	"unsafe"
)

// verifMapSeedEnv reads VERIF_MAPSEED=<decimal> straight from the process environment block
// (goenvs has not run yet when alginit is called; same technique as getGodebugEarly). Linux/unix only.
func verifMapSeedEnv() uint64 {
	const prefix = "VERIF_MAPSEED="
	if GOOS != "linux" {
		return 0
	}
	for i := int32(0); ; i++ {
		p := argv_index(argv, argc+1+i)
		if p == nil {
			return 0
		}
		s := unsafe.String(p, findnull(p))
		if stringslite.HasPrefix(s, prefix) {
			var v uint64
			for j := len(prefix); j < len(s); j++ {
				c := s[j]
				if c < '0' || c > '9' {
					return 0
				}
				v = v*10 + uint64(c-'0')
			}
			return v
		}
	}
}

func verifMix(x uint64) uint64 {
	x += 0x9e3779b97f4a7c15
	x = (x ^ (x >> 30)) * 0xbf58476d1ce4e5b9
	x = (x ^ (x >> 27)) * 0x94d049bb133111eb
	return x ^ (x >> 31)
}

func alginit() {
	alginitOrig()
	seed := verifMapSeedEnv()
	if seed == 0 {
		return
	}
	// per-process hash keys: a function of the seed instead of bootstrapRand()
	key := (*[hashRandomBytes / 8]uint64)(unsafe.Pointer(&aeskeysched))
	x := seed
	for i := range key {
		x = verifMix(x)
		key[i] = x
	}
	for i := range hashkey {
		x = verifMix(x)
		hashkey[i] = uintptr(x) | 1
	}
	maps.VerifMapSeed = seed
}

// rand32 is called from compiler-generated code: hash seed of a map the compiler allocated on the stack.
//
//go:nosplit
func rand32() uint32 {
	if s := maps.VerifMapSeed; s != 0 {
		return uint32(verifMix(s ^ 0x14057b7ef767814f))
	}
	return rand32Orig()
}

// VerifMapSeed reports the active map seed (0 = pristine behaviour).
func VerifMapSeed() uint64 { return maps.VerifMapSeed }
'''
changed |= put("src/runtime/zz_verif_mapseed.go", Z)
print("patch_goroot: %s" % ("patched" if changed else "already up to date"))
