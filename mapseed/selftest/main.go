// Self-test of verif engine E9 (mapseed): built with GOROOT=/verif/goroot-mapseed by /verif/mapseed/setup.sh.
// Runs itself once per seed (two processes per seed) with VERIF_MAPSEED=<seed> and checks that
//   - a <=8-entry map (one group) iterates as the rotation of its insertion order by seed&7 (so seeds 1..8 reach all
//     8 orders the runtime can produce for it; a 4-entry map has 4 distinct orders, reached by seeds 1,2,3 and 4..8),
//   - large maps (string and int keys, 1000 entries, grown and partly deleted) iterate in an order that is identical
//     on repeat in the process AND in a second process for the same seed, and differs between all seeds,
//   - without VERIF_MAPSEED the pristine randomisation is still in place (several orders in 64 iterations).
//
// Prints "mapseed selftest: OK" and exits 0, or explains and exits 1.
package main

import (
	"crypto/sha256"
	"fmt"
	"os"
	"os/exec"
	"strings"
)

func small(n int) string {
	m := map[string]int64{}
	for i := 0; i < n; i++ {
		m[fmt.Sprintf("gno.land/r/verif/twin_%c%c", 'a'+i, 'a'+i)] = 1127
	}
	var ks []string
	for k := range m {
		ks = append(ks, k[len(k)-1:])
	}
	return strings.Join(ks, "")
}

func big() string {
	ms := map[string]int{}
	mi := map[int]int{}
	for i := 0; i < 1400; i++ {
		ms[fmt.Sprintf("key-%d", i*7919)] = i
		mi[i*104729] = i
	}
	for i := 0; i < 1400; i += 3 {
		delete(ms, fmt.Sprintf("key-%d", i*7919))
		delete(mi, i*104729)
	}
	h := sha256.New()
	for k, v := range ms {
		fmt.Fprintf(h, "%s=%d;", k, v)
	}
	for k, v := range mi {
		fmt.Fprintf(h, "%d=%d;", k, v)
	}
	return fmt.Sprintf("%x", h.Sum(nil)[:8])
}

func rot(s string, r int) string {
	if r >= len(s) {
		r = 0
	}
	return s[r:] + s[:r]
}

func main() {
	if len(os.Args) > 1 && os.Args[1] == "-child" {
		a, b, c := small(4), small(8), big()
		for i := 0; i < 5; i++ {
			if small(4) != a || small(8) != b || big() != c {
				fmt.Println("UNSTABLE-IN-PROCESS")
				return
			}
		}
		fmt.Printf("ORDER %s %s %s\n", a, b, c)
		return
	}
	fail := false
	bad := func(f string, a ...any) { fail = true; fmt.Printf("mapseed selftest: FAIL: "+f+"\n", a...) }
	child := func(seed int) string {
		cmd := exec.Command(os.Args[0], "-child")
		cmd.Env = append(os.Environ(), fmt.Sprintf("VERIF_MAPSEED=%d", seed))
		out, err := cmd.CombinedOutput()
		if err != nil {
			return "ERR " + err.Error() + " " + string(out)
		}
		return strings.TrimSpace(string(out))
	}
	seen4, seen8, seenBig := map[string]bool{}, map[string]bool{}, map[string]bool{}
	for seed := 1; seed <= 8; seed++ {
		o1, o2 := child(seed), child(seed)
		if o1 != o2 {
			bad("seed %d: two processes disagree: %q vs %q", seed, o1, o2)
		}
		f := strings.Fields(o1)
		if len(f) != 4 || f[0] != "ORDER" {
			bad("seed %d: child says %q", seed, o1)
			continue
		}
		if want := rot("abcd", seed&7); f[1] != want {
			bad("seed %d: 4-entry map iterated %s, want rotation %s", seed, f[1], want)
		}
		if want := rot("abcdefgh", seed&7); f[2] != want {
			bad("seed %d: 8-entry map iterated %s, want rotation %s", seed, f[2], want)
		}
		seen4[f[1]], seen8[f[2]], seenBig[f[3]] = true, true, true
		fmt.Printf("mapseed selftest: seed %d: %s %s big=%s\n", seed, f[1], f[2], f[3])
	}
	if len(seen4) != 4 || len(seen8) != 8 || len(seenBig) != 8 {
		bad("distinct orders over seeds 1..8: 4-entry %d (want 4), 8-entry %d (want 8), large %d (want 8)", len(seen4), len(seen8), len(seenBig))
	}
	// pristine behaviour without the variable (this process): still randomised
	orders := map[string]bool{}
	for i := 0; i < 64; i++ {
		orders[small(8)] = true
	}
	if os.Getenv("VERIF_MAPSEED") == "" && len(orders) < 2 {
		bad("without VERIF_MAPSEED the 8-entry map iterated in one order 64 times (pristine randomisation lost)")
	}
	if fail {
		os.Exit(1)
	}
	fmt.Println("mapseed selftest: OK")
}
