#!/bin/bash
# Engine E9 (mapseed): create /verif/goroot-mapseed = symlink copy of the cached Go 1.25.9 GOROOT with a runtime in which
# map iteration order is a deterministic function of the VERIF_MAPSEED environment variable (see patch_goroot.py),
# then build and run the self-test.  Idempotent; offline; separate build cache /verif/.cache/go-build-mapseed.
#   mapseed/setup.sh            create/refresh + self-test
#   mapseed/setup.sh -notest    create/refresh only
set -eu
V=/verif
SRC="${VERIF_GOROOT_SRC:-/root/go/pkg/mod/golang.org/toolchain@v0.0.1-go1.25.9.linux-amd64}"
DST=$V/goroot-mapseed
[ -x "$SRC/bin/go" ] || { echo "mapseed/setup.sh: toolchain not found at $SRC"; exit 2; }
if [ ! -x "$DST/bin/go" ] || [ "$(readlink -f "$DST/VERSION")" != "$SRC/VERSION" ]; then
  rm -rf "$DST" "$DST.tmp"
  cp -as "$SRC" "$DST.tmp"
  mv "$DST.tmp" "$DST"
fi
python3 $V/mapseed/patch_goroot.py "$SRC" "$DST"
[ "${1:-}" = "-notest" ] && exit 0
mkdir -p $V/.cache/go-build-mapseed $V/.work/mapseed
cd $V
env -u GOFLAGS GOROOT=$DST GOTOOLCHAIN=local GOPROXY=off GOFLAGS=-mod=mod GOCACHE=$V/.cache/go-build-mapseed \
  $DST/bin/go build -o $V/.work/mapseed/selftest ./mapseed/selftest
$V/.work/mapseed/selftest
