#!/bin/bash
# Engine E9 (mapseed): create /verif/goroot-mapseed = symlink copy of the cached Go 1.25.9 GOROOT with a runtime in which
# map iteration order is a deterministic function of the VERIF_MAPSEED environment variable (see patch_goroot.py),
# then build and run the self-test.  Idempotent; offline; separate build cache /verif/.cache/go-build-mapseed.
#   mapseed/setup.sh            create/refresh + self-test
#   mapseed/setup.sh -notest    create/refresh only
set -eu
V=/verif
SRC="${VERIF_GOROOT_SRC:-/root/go/pkg/mod/golang.org/toolchain@v0.0.1-go1.25.9.linux-amd64}"
DST=$V/goroot-mapseed
[ -x "$SRC/bin/go" ] || { echo "mapseed/setup.sh: toolchain not found at $SRC"; exit 2; }
if [ ! -x "$DST/bin/go" ] || [ "$(readlink -f "$DST/VERSION")" != "$SRC/VERSION" ]; then
  rm -rf "$DST" "$DST.tmp"
  cp -as "$SRC" "$DST.tmp"
  mv "$DST.tmp" "$DST"
fi
python3 $V/mapseed/patch_goroot.py "$SRC" "$DST"
mkdir -p $V/.cache/go-build-mapseed $V/.work/mapseed
cd $V
GOENV=(env -u GOFLAGS GOROOT=$DST GOTOOLCHAIN=local GOPROXY=off GOFLAGS=-mod=mod GOCACHE=$V/.cache/go-build-mapseed)
# the compiler itself is patched (stack-allocated maps): rebuild pkg/tool/linux_amd64/compile when its source stamp changed
TOOL=$DST/pkg/tool/linux_amd64/compile
STAMP=$(sha256sum $DST/src/cmd/compile/internal/walk/builtin.go | cut -d' ' -f1)
if [ -L "$TOOL" ] || [ "$(cat $DST/pkg/tool/linux_amd64/compile.stamp 2>/dev/null)" != "$STAMP" ]; then
  # build with the pristine compiler into a scratch file, then swap it in
  if [ ! -L "$TOOL" ]; then rm -f "$TOOL"; ln -s "$SRC/pkg/tool/linux_amd64/compile" "$TOOL"; fi
  (cd $DST/src && "${GOENV[@]}" $DST/bin/go build -o $V/.work/mapseed/compile.new cmd/compile) || { echo "mapseed/setup.sh: compiler rebuild failed"; exit 2; }
  rm -f "$TOOL"; mv $V/.work/mapseed/compile.new "$TOOL"; echo "$STAMP" > $DST/pkg/tool/linux_amd64/compile.stamp
  echo "mapseed/setup.sh: rebuilt compile tool"
fi
[ "${1:-}" = "-notest" ] && exit 0
"${GOENV[@]}" $DST/bin/go build -o $V/.work/mapseed/selftest ./mapseed/selftest
$V/.work/mapseed/selftest
