// C17: the block gas price follows its adjustment rule.
//
// Part A (pure function, reached through the overlay-added export hooks/c17/zz_verif_export.go):
// the full product of boundary lattices for (maxGas, TargetGasRatio, compressor, initial price, last price,
// gas used) plus exhaustive small cubes, evaluated on the real calcBlockGasPrice and compared with the rule
// as stated, computed with math/big.  Only points whose parameters pass the repository's own validators
// (auth.Params.Validate and bft/types.ValidateConsensusParams) are judged.
//
// Part B (keeper path): every history of block-gas levels up to a depth through the real
// GasPriceKeeper.UpdateGasPrice on a real store, reading LastGasPrice after each block.
package main

import (
	"fmt"
	"math"
	"math/big"
	"sort"
	"sync"
	"time"

	abci "github.com/gnolang/gno/tm2/pkg/bft/abci/types"
	bft "github.com/gnolang/gno/tm2/pkg/bft/types"
	"github.com/gnolang/gno/tm2/pkg/db/memdb"
	"github.com/gnolang/gno/tm2/pkg/log"
	"github.com/gnolang/gno/tm2/pkg/sdk"
	"github.com/gnolang/gno/tm2/pkg/sdk/auth"
	"github.com/gnolang/gno/tm2/pkg/std"
	"github.com/gnolang/gno/tm2/pkg/store"
	"github.com/gnolang/gno/tm2/pkg/store/iavl"
	"verif/engine/vk"
)

var r *vk.Run

const maxI = math.MaxInt64

// pt is one input point. Order of the fields = order used to pick the minimal failing input of a class.
type pt struct{ MaxGas, Ratio, C, Init, Last, Used int64 }

func (p pt) String() string {
	return fmt.Sprintf("last=%d,used=%d,maxGas=%d,ratio=%d,c=%d,init=%d", p.Last, p.Used, p.MaxGas, p.Ratio, p.C, p.Init)
}

func less(a, b pt) bool {
	x := [6]int64{a.MaxGas, a.Ratio, a.C, a.Init, a.Last, a.Used}
	y := [6]int64{b.MaxGas, b.Ratio, b.C, b.Init, b.Last, b.Used}
	for i := range x {
		if x[i] != y[i] {
			return x[i] < y[i]
		}
	}
	return false
}

// failure classes -> minimal input, count
type classRec struct {
	min    pt
	n      int64
	detail string
}

var (
	fmu     sync.Mutex
	classes = map[string]*classRec{}
)

func fail(class string, p pt, detail string) {
	fmu.Lock()
	c := classes[class]
	if c == nil {
		classes[class] = &classRec{min: p, n: 1, detail: detail}
	} else {
		c.n++
		if less(p, c.min) {
			c.min, c.detail = p, detail
		}
	}
	fmu.Unlock()
}

func mkParams(p pt) auth.Params {
	ap := auth.DefaultParams()
	ap.GasPricesChangeCompressor = p.C
	ap.TargetGasRatio = p.Ratio
	ap.InitialGasPrice = std.GasPrice{Gas: 1000, Price: std.Coin{Denom: "ugnot", Amount: p.Init}}
	return ap
}

// validity caches (the repository's own validators decide what is in scope)
var (
	vmu       sync.Mutex
	validGasC = map[int64]bool{}
)

func validMaxGas(maxGas int64) bool {
	vmu.Lock()
	defer vmu.Unlock()
	if v, ok := validGasC[maxGas]; ok {
		return v
	}
	cp := bft.DefaultConsensusParams()
	cp.Block.MaxGas = maxGas
	v := bft.ValidateConsensusParams(cp) == nil
	validGasC[maxGas] = v
	return v
}

func panicClass(rec any) string {
	s := fmt.Sprint(rec)
	switch {
	case contains(s, "division by zero"):
		return "division by zero"
	case contains(s, "out of int64 range"):
		return "price out of int64 range"
	}
	if len(s) > 60 {
		s = s[:60]
	}
	return s
}

func contains(s, sub string) bool {
	for i := 0; i+len(sub) <= len(s); i++ {
		if s[i:i+len(sub)] == sub {
			return true
		}
	}
	return false
}

// floorTarget = floor(maxGas*ratio/100) as big.Int (mathematical floor).
func floorTarget(maxGas, ratio int64) *big.Int {
	n := new(big.Int).Mul(big.NewInt(maxGas), big.NewInt(ratio))
	q, m := new(big.Int).QuoRem(n, big.NewInt(100), new(big.Int))
	if m.Sign() < 0 {
		q.Sub(q, big.NewInt(1))
	}
	return q
}

type tally struct{ inc, dec, decToFloor, raisedToInit, same, disabled, invalid, panicked int64 }

// check evaluates one point; params validity is pre-decided by caller for speed (pv = auth params valid).
func check(p pt, ap auth.Params, t *tally) {
	last := std.GasPrice{Gas: 1000, Price: std.Coin{Denom: "ugnot", Amount: p.Last}}
	var got std.GasPrice
	rec := vk.Catch(func() { got = auth.VerifCalcBlockGasPrice(last, p.Used, p.MaxGas, ap) })
	if rec != nil {
		t.panicked++
		fail("panic:"+panicClass(rec), p, fmt.Sprint(rec))
		return
	}
	// fields other than the amount must be those of the last price (or of the initial price when it is returned wholesale)
	if got.Gas != 1000 || got.Price.Denom != "ugnot" {
		fail("rule:price-unit-changed", p, fmt.Sprintf("got %+v", got))
		return
	}
	n := got.Price.Amount
	if p.Last == 0 || p.Ratio == 0 {
		t.disabled++
		if n != p.Last {
			fail("rule:disabled-but-changed", p, fmt.Sprintf("new=%d", n))
		}
		return
	}
	tg := floorTarget(p.MaxGas, p.Ratio)
	switch big.NewInt(p.Used).Cmp(tg) {
	case 0:
		t.same++
		if n != p.Last {
			fail("rule:on-target-but-changed", p, fmt.Sprintf("new=%d target=%s", n, tg))
		}
	case 1:
		t.inc++
		// new >= old+1 (old+1 cannot wrap here: a wrapped/too large result would have panicked or be < old)
		if !(n > p.Last) {
			fail("rule:over-target-not-increased", p, fmt.Sprintf("new=%d target=%s", n, tg))
		}
	case -1:
		hi := p.Last - 1
		if p.Init > hi {
			hi = p.Init
		}
		switch {
		case n < p.Init:
			fail("rule:below-initial-price", p, fmt.Sprintf("new=%d target=%s", n, tg))
		case n > hi:
			fail("rule:under-target-not-decreased", p, fmt.Sprintf("new=%d want<=%d target=%s", n, hi, tg))
		}
		switch {
		case p.Last < p.Init:
			t.raisedToInit++
		case n == p.Init:
			t.decToFloor++
		default:
			t.dec++
		}
	}
}

func uniq(v []int64) []int64 {
	sort.Slice(v, func(i, j int) bool { return v[i] < v[j] })
	o := v[:0]
	for i, x := range v {
		if i == 0 || x != v[i-1] {
			o = append(o, x)
		}
	}
	return o
}

func addSafe(a, d int64) (int64, bool) {
	s := new(big.Int).Add(big.NewInt(a), big.NewInt(d))
	if !s.IsInt64() {
		return 0, false
	}
	return s.Int64(), true
}

func flush(t *tally) {
	r.OutcomeN("increase", t.inc)
	r.OutcomeN("decrease", t.dec)
	r.OutcomeN("decrease_clamped_to_initial", t.decToFloor)
	r.OutcomeN("raised_to_initial", t.raisedToInit)
	r.OutcomeN("on_target_unchanged", t.same)
	r.OutcomeN("pricing_disabled_unchanged", t.disabled)
	r.OutcomeN("skipped_params_rejected_by_repo_validators", t.invalid)
	r.OutcomeN("panicked", t.panicked)
}

func lattice() (points int64) {
	maxGasL := []int64{-2, -1, 0, 1, 2, 99, 100, 101, 142, 143, 1000, 10_000_000, 3_000_000_000, maxI / 100, maxI/100 + 1, maxI - 1, maxI}
	ratioL := []int64{-1, 0, 1, 50, 70, 99, 100, 101}
	cL := []int64{0, 1, 2, 3, 10, 1_000_000, maxI}
	initL := []int64{-1, 0, 1, 1000, 1_000_000}
	type cfg struct{ mg, ra, c, in int64 }
	var cfgs []cfg
	for _, mg := range maxGasL {
		for _, ra := range ratioL {
			for _, c := range cL {
				for _, in := range initL {
					cfgs = append(cfgs, cfg{mg, ra, c, in})
				}
			}
		}
	}
	var mu sync.Mutex
	r.ParFor(len(cfgs), func(i int) {
		k := cfgs[i]
		var t tally
		base := pt{MaxGas: k.mg, Ratio: k.ra, C: k.c, Init: k.in}
		ap := mkParams(base)
		lasts := []int64{0, 1, 2, 1_000_000, 1 << 31, 1 << 62, maxI - 1, maxI}
		for _, b := range []int64{k.c, k.in} {
			for _, d := range []int64{-1, 0, 1} {
				if v, ok := addSafe(b, d); ok && v >= 0 {
					lasts = append(lasts, v)
				}
			}
		}
		lasts = uniq(lasts)
		useds := []int64{0, 1, maxI}
		tg := floorTarget(k.mg, k.ra)
		for _, b := range []*big.Int{tg, big.NewInt(k.mg), new(big.Int).Mul(tg, big.NewInt(2))} {
			if b.IsInt64() {
				for _, d := range []int64{-1, 0, 1} {
					if v, ok := addSafe(b.Int64(), d); ok && v >= 0 {
						useds = append(useds, v)
					}
				}
			}
		}
		useds = uniq(useds)
		n := int64(len(lasts) * len(useds))
		if ap.Validate() != nil || !validMaxGas(k.mg) {
			t.invalid += n
		} else {
			for _, l := range lasts {
				for _, u := range useds {
					p := base
					p.Last, p.Used = l, u
					check(p, ap, &t)
				}
			}
			r.Distinct(fmt.Sprintf("cfg:%d,%d,%d,%d", k.mg, k.ra, k.c, k.in))
		}
		r.EvalN(n)
		mu.Lock()
		points += n
		flush(&t)
		mu.Unlock()
	})
	return
}

func cube(N int64) (points int64) {
	cL := []int64{1, 2, 3, 10}
	ratioL := []int64{0, 1, 50, 70, 100}
	initL := []int64{0, 1, 5, 20}
	type cfg struct{ mg, ra, c, in int64 }
	var cfgs []cfg
	for mg := int64(-1); mg <= N; mg++ {
		for _, ra := range ratioL {
			for _, c := range cL {
				for _, in := range initL {
					cfgs = append(cfgs, cfg{mg, ra, c, in})
				}
			}
		}
	}
	// larger block limits so that targets are > 0 and spread: maxGas in {100..100+N} scaled
	for mg := int64(100); mg <= 100+2*N; mg += 7 {
		for _, ra := range ratioL {
			for _, c := range cL {
				for _, in := range initL {
					cfgs = append(cfgs, cfg{mg, ra, c, in})
				}
			}
		}
	}
	var mu sync.Mutex
	r.ParFor(len(cfgs), func(i int) {
		k := cfgs[i]
		var t tally
		base := pt{MaxGas: k.mg, Ratio: k.ra, C: k.c, Init: k.in}
		ap := mkParams(base)
		if ap.Validate() != nil || !validMaxGas(k.mg) {
			return
		}
		umax := N
		if k.mg > N {
			umax = k.mg + 2
		}
		var n int64
		for l := int64(0); l <= N; l++ {
			for u := int64(0); u <= umax; u++ {
				p := base
				p.Last, p.Used = l, u
				check(p, ap, &t)
				n++
			}
		}
		r.Distinct(fmt.Sprintf("cube:%d,%d,%d,%d", k.mg, k.ra, k.c, k.in))
		r.EvalN(n)
		mu.Lock()
		points += n
		flush(&t)
		mu.Unlock()
	})
	return
}

// ---- Part B: keeper path -------------------------------------------------------------------------------

type env struct {
	ctx sdk.Context
	gk  auth.GasPriceKeeper
}

func newEnv() env {
	db := memdb.NewMemDB()
	key := store.NewStoreKey("authCapKey")
	ms := store.NewCommitMultiStore(db)
	ms.MountStoreWithDB(key, iavl.StoreConstructor, db)
	if err := ms.LoadLatestVersion(); err != nil {
		r.HarnessError("LoadLatestVersion: %v", err)
	}
	ctx := sdk.NewContext(sdk.RunTxModeDeliver, ms, &bft.Header{Height: 1, ChainID: "c17"}, log.NewNoopLogger())
	return env{ctx: ctx, gk: auth.NewGasPriceKeeper(key)}
}

// histories: every sequence over `levels` (block gas used) of length depth, from the initial price.
func keeperPath(depth int) (states, transitions int64) {
	type cfg struct{ mg, ra, c, in int64 }
	cfgs := []cfg{{1000, 70, 1, 5}, {1000, 70, 10, 5}, {1000, 50, 3, 1}, {100, 100, 2, 50}, {1000, 70, 10, 0}, {1000, 0, 10, 5}, {-1, 70, 10, 5}}
	var mu sync.Mutex
	seen := map[string]bool{}
	samples := make([]any, len(cfgs))
	r.ParFor(len(cfgs), func(ci int) {
		k := cfgs[ci]
		e := newEnv()
		base := pt{MaxGas: k.mg, Ratio: k.ra, C: k.c, Init: k.in}
		ap := mkParams(base)
		cp := bft.DefaultConsensusParams()
		cp.Block.MaxGas = k.mg
		if ap.Validate() != nil || bft.ValidateConsensusParams(cp) != nil {
			r.HarnessError("keeper config invalid: %+v", k)
		}
		tgB := floorTarget(k.mg, k.ra)
		tg := tgB.Int64()
		var levels []int64
		for _, v := range []int64{0, tg - 1, tg, tg + 1, k.mg} {
			if v >= 0 {
				levels = append(levels, v)
			}
		}
		if k.mg <= 0 { // unlimited block gas: infinite meter, any usage possible
			levels = append(levels, 1, 1000)
		}
		levels = uniq(levels)
		ctx := e.ctx.WithValue(auth.AuthParamsContextKey{}, ap).WithConsensusParams(&abci.ConsensusParams{Block: cp.Block, Validator: cp.Validator})
		nl := len(levels)
		total := 1
		for i := 0; i < depth; i++ {
			total *= nl
		}
		var tr int64
		local := map[string]bool{}
		for h := 0; h < total && !r.Expired(); h++ {
			// reset to the genesis state exactly like InitChainer does
			initGP := ap.InitialGasPrice
			if initGP.Price.Amount == 0 {
				// a zero initial price is "not set" for SetGasPrice; start from a stored price of 7 instead
				initGP.Price.Amount = 7
			}
			auth.InitChainer(ctx, e.gk, initGP)
			prev := e.gk.LastGasPrice(ctx)
			x := h
			var hist []int64
			for s := 0; s < depth; s++ {
				used := levels[x%nl]
				x /= nl
				hist = append(hist, used)
				var meter store.GasMeter
				if k.mg > 0 {
					meter = store.NewGasMeter(k.mg)
				} else {
					meter = store.NewInfiniteGasMeter()
				}
				bctx := ctx.WithBlockGasMeter(meter)
				if used > 0 {
					vk.Catch(func() { meter.ConsumeGas(used, "block") })
				}
				rec := vk.Catch(func() { auth.EndBlocker(bctx, e.gk) })
				p := base
				p.Last, p.Used = prev.Price.Amount, used
				if rec != nil {
					fail("keeper-panic:"+panicClass(rec), p, fmt.Sprintf("history=%v: %v", hist, rec))
					break
				}
				cur := e.gk.LastGasPrice(ctx)
				tr++
				// the rule, on the stored observable
				var want std.GasPrice
				rec = vk.Catch(func() { want = auth.VerifCalcBlockGasPrice(prev, used, k.mg, ap) })
				if rec == nil && want != cur && want.Price.Amount == 0 && cur.Price.Amount == 0 && want.Gas == cur.Gas {
					// a zero amount is amino-encoded as "" and loses its denom in the store: not part of the rule
					r.Outcome("observation_stored_zero_price_loses_denom(not judged)")
				} else if rec == nil && want != cur {
					fail("keeper:stored-price-differs-from-rule-function", p, fmt.Sprintf("history=%v stored=%+v calc=%+v", hist, cur, want))
				}
				n := cur.Price.Amount
				o := prev.Price.Amount
				switch {
				case k.ra == 0 || o == 0 || big.NewInt(used).Cmp(tgB) == 0:
					if n != o {
						fail("keeper:unchanged-expected", p, fmt.Sprintf("history=%v new=%d", hist, n))
					}
				case big.NewInt(used).Cmp(tgB) > 0:
					if n <= o {
						fail("keeper:over-target-not-increased", p, fmt.Sprintf("history=%v new=%d", hist, n))
					}
				default:
					hi := o - 1
					if k.in > hi {
						hi = k.in
					}
					if n > hi || n < k.in {
						fail("keeper:under-target-not-decreased", p, fmt.Sprintf("history=%v new=%d want in [%d,%d]", hist, n, k.in, hi))
					}
				}
				local[fmt.Sprintf("%d:%d", ci, n)] = true
				prev = cur
			}
		}
		r.EvalN(tr)
		mu.Lock()
		transitions += tr
		for s := range local {
			if !seen[s] {
				seen[s] = true
				r.Distinct("keeper-state:" + s)
			}
		}
		mu.Unlock()
		mu.Lock()
		samples[ci] = map[string]any{"keeper_config": fmt.Sprintf("maxGas=%d ratio=%d c=%d init=%d", k.mg, k.ra, k.c, k.in), "gas_levels": levels, "depth": depth, "histories": total}
		mu.Unlock()
	})
	for _, s := range samples[:3] {
		r.Sample(s)
	}
	return int64(len(seen)), transitions
}

func main() {
	r = vk.New("exploration")
	r.SetBudget(80*time.Second, 12*time.Minute)
	N := int64(40)
	depth := 5
	if r.Thorough() {
		N = 96
		depth = 7
	}
	lp := lattice()
	cp := cube(N)
	ks, kt := keeperPath(depth)

	// report: one violation per failure class, keyed by its minimal input (deterministic: min over a fixed order)
	var names []string
	for c := range classes {
		names = append(names, c)
	}
	sort.Strings(names)
	for _, c := range names {
		rec := classes[c]
		if len(c) >= 6 && c[:6] == "panic:" {
			r.Violation(fmt.Sprintf("panic:calcBlockGasPrice(%s)", rec.min), map[string]any{"class": c, "minimal_input": rec.min, "panic_or_detail": rec.detail, "failing_points_in_class": rec.n,
				"note": "parameters pass auth.Params.Validate and bft/types.ValidateConsensusParams"})
			continue
		}
		r.Violation(fmt.Sprintf("%s:calcBlockGasPrice(%s)", c, rec.min), map[string]any{"class": c, "minimal_input": rec.min, "detail": rec.detail, "failing_points_in_class": rec.n})
	}
	r.Sample(map[string]any{"point": "last=11,used=0,maxGas=1000,ratio=70,c=10,init=5", "expect": "decrease by >=1, not below 5"})
	r.Assumptions = []string{
		"in-scope inputs = points whose parameters pass the repository's own validators (auth.Params.Validate, bft/types.ValidateConsensusParams), last price >= 0, gas used >= 0 (UpdateGasPrice ignores negative readings)",
		"target = floor(maxGas*ratio/100) computed with math/big; the oracle checks the inequalities of the rule, not the exact formula",
		"wide int64 ranges are covered on a boundary lattice (full product) plus exhaustive small cubes, not all 2^64 values",
	}
	r.Finish("full product of boundary lattices (17 maxGas x 8 ratio x 7 compressor x 5 init x ~14 last x ~12 used) + exhaustive cubes last,used in 0..N for maxGas -1..N and a spread of larger limits + all gas-level histories through the real keeper/store; distinct = parameter configurations evaluated + distinct stored prices reached",
		true, map[string]any{"lattice_points": lp, "cube_points": cp, "cube_N": N, "keeper_history_depth": depth, "keeper_distinct_prices": ks, "keeper_transitions": kt})
}
