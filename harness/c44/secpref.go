// Independent secp256k1 reference (math/big, affine coordinates): point arithmetic, compressed-key (de)serialisation,
// ECDSA signing with a CHOSEN nonce and ECDSA verification with the low-S rule. Nothing here imports btcec/dcrd.
package main

import (
	"crypto/sha256"
	"math/big"
)

var (
	secP, _  = new(big.Int).SetString("FFFFFFFFFFFFFFFFFFFFFFFFFFFFFFFFFFFFFFFFFFFFFFFFFFFFFFFEFFFFFC2F", 16)
	secN, _  = new(big.Int).SetString("FFFFFFFFFFFFFFFFFFFFFFFFFFFFFFFEBAAEDCE6AF48A03BBFD25E8CD0364141", 16)
	secGx, _ = new(big.Int).SetString("79BE667EF9DCBBAC55A06295CE870B07029BFCDB2DCE28D959F2815B16F81798", 16)
	secGy, _ = new(big.Int).SetString("483ADA7726A3C4655DA4FBFC0E1108A8FD17B448A68554199C47D08FFB10D4B8", 16)
	secHalf  = new(big.Int).Rsh(secN, 1)
)

type pt struct{ x, y *big.Int } // nil x = infinity

func ptAdd(a, b pt) pt {
	if a.x == nil {
		return b
	}
	if b.x == nil {
		return a
	}
	var l *big.Int
	if a.x.Cmp(b.x) == 0 {
		if new(big.Int).Mod(new(big.Int).Add(a.y, b.y), secP).Sign() == 0 {
			return pt{}
		}
		// doubling: l = 3x^2 / 2y
		num := new(big.Int).Mul(a.x, a.x)
		num.Mul(num, big.NewInt(3))
		den := new(big.Int).Lsh(a.y, 1)
		den.ModInverse(den, secP)
		l = num.Mul(num, den)
	} else {
		num := new(big.Int).Sub(b.y, a.y)
		den := new(big.Int).Sub(b.x, a.x)
		den.Mod(den, secP)
		den.ModInverse(den, secP)
		l = num.Mul(num, den)
	}
	l.Mod(l, secP)
	x := new(big.Int).Mul(l, l)
	x.Sub(x, a.x)
	x.Sub(x, b.x)
	x.Mod(x, secP)
	y := new(big.Int).Sub(a.x, x)
	y.Mul(y, l)
	y.Sub(y, a.y)
	y.Mod(y, secP)
	return pt{x, y}
}

func ptMul(k *big.Int, p pt) pt {
	r := pt{}
	k = new(big.Int).Mod(k, secN)
	for i := k.BitLen() - 1; i >= 0; i-- {
		r = ptAdd(r, r)
		if k.Bit(i) == 1 {
			r = ptAdd(r, p)
		}
	}
	return r
}

func ptCompress(p pt) []byte {
	out := make([]byte, 33)
	out[0] = 2 + byte(p.y.Bit(0))
	p.x.FillBytes(out[1:])
	return out
}

func ptDecompress(b []byte) (pt, bool) {
	if len(b) != 33 || (b[0] != 2 && b[0] != 3) {
		return pt{}, false
	}
	x := new(big.Int).SetBytes(b[1:])
	if x.Cmp(secP) >= 0 {
		return pt{}, false
	}
	y2 := new(big.Int).Mul(x, x)
	y2.Mul(y2, x)
	y2.Add(y2, big.NewInt(7))
	y2.Mod(y2, secP)
	e := new(big.Int).Add(secP, big.NewInt(1))
	e.Rsh(e, 2)
	y := new(big.Int).Exp(y2, e, secP)
	if new(big.Int).Mod(new(big.Int).Mul(y, y), secP).Cmp(y2) != 0 {
		return pt{}, false
	}
	if y.Bit(0) != uint(b[0]&1) {
		y.Sub(secP, y)
	}
	return pt{x, y}, true
}

func refPubFromPriv(d []byte) []byte {
	return ptCompress(ptMul(new(big.Int).SetBytes(d), pt{secGx, secGy}))
}

// refSign signs sha256(msg) with nonce k; returns r||s (64 bytes) low-S normalised, and the high-S twin.
func refSign(d []byte, msg []byte, k *big.Int) (low, high []byte, ok bool) {
	h := sha256.Sum256(msg)
	z := new(big.Int).SetBytes(h[:])
	R := ptMul(k, pt{secGx, secGy})
	if R.x == nil {
		return nil, nil, false
	}
	r := new(big.Int).Mod(R.x, secN)
	if r.Sign() == 0 {
		return nil, nil, false
	}
	s := new(big.Int).Mul(r, new(big.Int).SetBytes(d))
	s.Add(s, z)
	s.Mul(s, new(big.Int).ModInverse(new(big.Int).Mod(k, secN), secN))
	s.Mod(s, secN)
	if s.Sign() == 0 {
		return nil, nil, false
	}
	if s.Cmp(secHalf) > 0 {
		s.Sub(secN, s)
	}
	hs := new(big.Int).Sub(secN, s)
	low = make([]byte, 64)
	high = make([]byte, 64)
	r.FillBytes(low[:32])
	s.FillBytes(low[32:])
	r.FillBytes(high[:32])
	hs.FillBytes(high[32:])
	return low, high, true
}

// refVerify: ECDSA over sha256(msg) with 0<r<n, 0<s<=n/2 (low-S rule as documented by the code under test).
func refVerify(pub []byte, msg []byte, sig []byte) bool {
	if len(sig) != 64 {
		return false
	}
	P, ok := ptDecompress(pub)
	if !ok {
		return false
	}
	r := new(big.Int).SetBytes(sig[:32])
	s := new(big.Int).SetBytes(sig[32:])
	if r.Sign() == 0 || s.Sign() == 0 || r.Cmp(secN) >= 0 || s.Cmp(secN) >= 0 || s.Cmp(secHalf) > 0 {
		return false
	}
	h := sha256.Sum256(msg)
	z := new(big.Int).SetBytes(h[:])
	w := new(big.Int).ModInverse(s, secN)
	u1 := new(big.Int).Mul(z, w)
	u1.Mod(u1, secN)
	u2 := new(big.Int).Mul(r, w)
	u2.Mod(u2, secN)
	R := ptAdd(ptMul(u1, pt{secGx, secGy}), ptMul(u2, P))
	if R.x == nil {
		return false
	}
	return new(big.Int).Mod(R.x, secN).Cmp(r) == 0
}
