package main

import (
	"bytes"
	"fmt"
	"sync/atomic"

	"github.com/gnolang/gno/tm2/pkg/amino"
	"github.com/gnolang/gno/tm2/pkg/crypto"
	"github.com/gnolang/gno/tm2/pkg/crypto/ed25519"
	"github.com/gnolang/gno/tm2/pkg/crypto/mock"
	"github.com/gnolang/gno/tm2/pkg/crypto/multisig"
	"github.com/gnolang/gno/tm2/pkg/crypto/multisig/bitarray"
	"github.com/gnolang/gno/tm2/pkg/crypto/secp256k1"
	"github.com/gnolang/gno/tm2/pkg/sdk/auth"
	"github.com/gnolang/gno/tm2/pkg/store"
	"verif/engine/vk"
)

var (
	msCases    atomic.Int64
	msVerifies atomic.Int64
	anteCalls  atomic.Int64
	msMsg      = []byte("c44 multisig sign bytes")
)

// ---------------------------------------------------------------------------------------------------------
// model

// signer registry: who produced which signature bytes over msMsg (validity by construction)
type signerTab map[string]crypto.PubKey

type verdict struct {
	lo, hi bool   // lo: must accept (well-formed and valid) ; hi: may accept (statement-literal validity)
	shape  string // classification of the input by the model
}

func baWellFormed(ba *bitarray.CompactBitArray) bool {
	if ba == nil {
		return true
	}
	if ba.ExtraBitsStored >= 8 {
		return false
	}
	if ba.ExtraBitsStored != 0 && len(ba.Elems) == 0 {
		return false
	}
	return true
}

func baSize(ba *bitarray.CompactBitArray) int {
	if ba == nil {
		return 0
	}
	if ba.ExtraBitsStored == 0 {
		return 8 * len(ba.Elems)
	}
	return 8*(len(ba.Elems)-1) + int(ba.ExtraBitsStored)
}

func baBit(ba *bitarray.CompactBitArray, i int) bool { return ba.Elems[i/8]&(0x80>>(i%8)) != 0 }

// decoded multisignature (amino decoding is shared with the implementation and trusted)
type decoded struct {
	err bool
	ms  multisig.Multisignature
}

func decode(bz []byte) *decoded {
	d := &decoded{}
	if err := amino.Unmarshal(bz, &d.ms); err != nil {
		d.err = true
	}
	return d
}

// keyValid: lo/hi validity of sig for key; why is non-empty when a nested multisignature is structurally broken
func keyValid(tab signerTab, key crypto.PubKey, sig []byte) (lo, hi bool, why string) {
	if mk, ok := key.(multisig.PubKeyMultisigThreshold); ok {
		v := model(tab, mk, decode(sig))
		if !v.hi {
			why = "nested " + v.shape
		}
		return v.lo, v.hi, why
	}
	s, ok := tab[string(sig)]
	v := ok && s.Equals(key)
	return v, v, ""
}

func model(tab signerTab, pk multisig.PubKeyMultisigThreshold, d *decoded) verdict {
	if d.err {
		return verdict{false, false, "undecodable"}
	}
	ms := &d.ms
	if !baWellFormed(ms.BitArray) {
		return verdict{false, false, "malformed-bitarray"}
	}
	n := len(pk.PubKeys)
	if baSize(ms.BitArray) != n {
		return verdict{false, false, "size-mismatch"}
	}
	var marked [8]int
	nm := 0
	for i := 0; i < n; i++ {
		if baBit(ms.BitArray, i) {
			marked[nm%8] = i
			nm++
		}
	}
	if nm > len(ms.Sigs) {
		// some marked position carries no signature at all (checked before the threshold so that the class is about shape)
		return verdict{false, false, "marked>sigs"}
	}
	if nm < int(pk.K) {
		return verdict{false, false, "fewer-than-k-marked"}
	}
	lo, hi := true, true
	why := ""
	for j := 0; j < nm; j++ {
		l, h, w := keyValid(tab, pk.PubKeys[marked[j]], ms.Sigs[j])
		lo, hi = lo && l, hi && h
		if w != "" && why == "" {
			why = w
		}
	}
	if !hi {
		if why != "" {
			return verdict{false, false, why}
		}
		return verdict{false, false, "invalid-sig-at-marked-position"}
	}
	if len(ms.Sigs) != nm {
		return verdict{false, true, "gap_extra_sigs"}
	}
	if !lo {
		return verdict{false, true, "gap_nested_extra_sigs"}
	}
	return verdict{true, true, "valid"}
}

// anteShape classifies the input for the gas consumer, which has no validity semantics (it must only not panic)
func anteShape(pk multisig.PubKeyMultisigThreshold, d *decoded) string {
	if d.err {
		return "undecodable"
	}
	if !baWellFormed(d.ms.BitArray) {
		return "malformed-bitarray"
	}
	size, nm, beyond := baSize(d.ms.BitArray), 0, false
	for i := 0; i < size; i++ {
		if baBit(d.ms.BitArray, i) {
			nm++
			if i >= len(pk.PubKeys) {
				beyond = true
			}
		}
	}
	switch {
	case nm > len(d.ms.Sigs):
		return "marked>sigs"
	case beyond:
		return "marked-index>=n"
	case size != len(pk.PubKeys):
		return "size-mismatch"
	}
	return "well-shaped"
}

// ---------------------------------------------------------------------------------------------------------
// checking one marshalled multisignature against one key

func checkVerify(tab signerTab, ord int64, pkName string, pk multisig.PubKeyMultisigThreshold, bz []byte, d *decoded, desc func() string) {
	v := model(tab, pk, d)
	var got bool
	rec := vk.Catch(func() { got = pk.VerifyBytes(msMsg, bz) })
	r.Eval()
	msVerifies.Add(1)
	key := func() string { return fmt.Sprintf("%s %s", pkName, desc()) }
	switch {
	case rec != nil:
		report("multisig VerifyBytes panics (input shape: "+v.shape+")", ord, key(), map[string]any{"panic": fmt.Sprint(rec), "marshalled": fmt.Sprintf("%x", bz)})
	case got && !v.hi:
		report("multisig VerifyBytes accepts an invalid multisignature ("+v.shape+")", ord, key(), map[string]any{"marshalled": fmt.Sprintf("%x", bz)})
	case !got && v.lo:
		report("multisig VerifyBytes rejects a valid multisignature", ord, key(), map[string]any{"marshalled": fmt.Sprintf("%x", bz)})
	case v.lo:
		outcome("multisig:accepted_valid")
	case v.hi:
		if got {
			outcome("multisig:" + v.shape + "_accepted")
		} else {
			outcome("multisig:" + v.shape + "_rejected")
		}
	default:
		outcome("multisig:rejected:" + v.shape)
	}
}

// anteShape classifies the input for the gas consumer (which has no validity semantics: it only must not panic).
func checkAnte(ord int64, pkName string, pk multisig.PubKeyMultisigThreshold, bz []byte, shape string, desc func() string) {
	rec := vk.Catch(func() {
		auth.DefaultSigVerificationGasConsumer(store.NewInfiniteGasMeter(), bz, pk, auth.DefaultParams())
	})
	r.Eval()
	anteCalls.Add(1)
	if rec != nil {
		report("ante DefaultSigVerificationGasConsumer panics on multisig signature bytes (input shape: "+shape+")", ord,
			fmt.Sprintf("%s %s", pkName, desc()), map[string]any{"panic": fmt.Sprint(rec), "marshalled": fmt.Sprintf("%x", bz),
				"note": "runs before VerifyBytes in the ante handler; the panic is re-raised by the ante handler and recovered by baseapp.runTx (tx rejected with an internal error + stack trace)"})
	} else {
		outcome("ante:no_panic:" + shape)
	}
}

// ---------------------------------------------------------------------------------------------------------
// enumeration

type baRep struct {
	ba   *bitarray.CompactBitArray
	name string
}

func bitArrays(n int) (sizeN, other []baRep) {
	add := func(b baRep) {
		if baWellFormed(b.ba) && baSize(b.ba) == n || !baWellFormed(b.ba) && b.ba.Size() == n {
			sizeN = append(sizeN, b)
		} else {
			other = append(other, b)
		}
	}
	add(baRep{nil, "nil"})
	add(baRep{&bitarray.CompactBitArray{ExtraBitsStored: 0, Elems: []byte{}}, "{extra:0,elems:[]}"})
	for size := 1; size <= n+2; size++ {
		for v := 0; v < 256; v++ {
			add(baRep{&bitarray.CompactBitArray{ExtraBitsStored: byte(size), Elems: []byte{byte(v)}}, fmt.Sprintf("{extra:%d,elems:[%08b]}", size, v)})
		}
	}
	for _, v := range []byte{0x00, 0x80, 0xf0, 0xff} { // size 8 and 9..
		add(baRep{&bitarray.CompactBitArray{ExtraBitsStored: 0, Elems: []byte{v}}, fmt.Sprintf("{extra:0,elems:[%08b]}", v)})
		add(baRep{&bitarray.CompactBitArray{ExtraBitsStored: 1, Elems: []byte{v, v}}, fmt.Sprintf("{extra:1,elems:[%08b,%08b]}", v, v)})
	}
	// malformed representations (reachable from wire bytes: amino does not validate the struct)
	for e := 1; e <= 13; e++ {
		add(baRep{&bitarray.CompactBitArray{ExtraBitsStored: byte(e), Elems: nil}, fmt.Sprintf("{extra:%d,elems:[]}", e)})
	}
	for _, e := range []int{8, 9, 12, 255} {
		add(baRep{&bitarray.CompactBitArray{ExtraBitsStored: byte(e), Elems: []byte{0xff}}, fmt.Sprintf("{extra:%d,elems:[11111111]}", e)})
	}
	return
}

// sigLists: every list of length 0..maxLen over the alphabet (indices)
func sigLists(alpha, maxLen int, f func(idx []int)) {
	var rec func(cur []int)
	rec = func(cur []int) {
		f(cur)
		if len(cur) == maxLen {
			return
		}
		for a := 0; a < alpha; a++ {
			rec(append(cur, a))
		}
	}
	rec(nil)
}

type keyset struct {
	name  string
	privs []crypto.PrivKey
}

func (ks keyset) pubs(n int) []crypto.PubKey {
	p := make([]crypto.PubKey, n)
	for i := 0; i < n; i++ {
		p[i] = ks.privs[i].PubKey()
	}
	return p
}

func marshalMS(ba *bitarray.CompactBitArray, sigs [][]byte) []byte {
	return amino.MustMarshal(&multisig.Multisignature{BitArray: ba, Sigs: sigs})
}

// productFor enumerates (bit array) x (signature list) for one keyset and n, all k.
func productFor(base int64, ks keyset, n int, fullLists bool, reps []baRep, ante bool) {
	pubs := ks.pubs(n)
	tab := signerTab{}
	alpha := make([][]byte, 0, n+2)
	alphaName := make([]string, 0, n+2)
	for i := 0; i < n; i++ {
		s, _ := ks.privs[i].Sign(msMsg)
		tab[string(s)] = pubs[i]
		alpha = append(alpha, s)
		alphaName = append(alphaName, fmt.Sprintf("v%d", i))
	}
	garbage := bytes.Repeat([]byte{0x5a}, 64)
	alpha = append(alpha, garbage, []byte{})
	alphaName = append(alphaName, "garbage", "empty")
	var pks []multisig.PubKeyMultisigThreshold
	for k := 1; k <= n; k++ {
		pks = append(pks, multisig.NewPubKeyMultisigThreshold(k, pubs).(multisig.PubKeyMultisigThreshold))
	}
	// materialise the signature lists once
	var lists [][]int
	if fullLists {
		sigLists(len(alpha), n+1, func(idx []int) { lists = append(lists, append([]int{}, idx...)) })
	} else {
		// reduced set for bit arrays whose size differs from n (rejected before signatures are looked at by a correct
		// implementation): every list of length <= 2, plus the all-valid prefixes v0..v(j)
		sigLists(len(alpha), 2, func(idx []int) { lists = append(lists, append([]int{}, idx...)) })
		for j := 3; j <= n+1; j++ {
			l := make([]int, j)
			for i := range l {
				l[i] = i % n
			}
			lists = append(lists, l)
		}
	}
	const chunk = 64
	nchunks := (len(lists) + chunk - 1) / chunk
	r.ParFor(len(reps)*nchunks, func(ci int) {
		bi := ci / nchunks
		rep := reps[bi]
		for li := (ci % nchunks) * chunk; li < len(lists) && li < (ci%nchunks+1)*chunk; li++ {
			l := lists[li]
			sigs := make([][]byte, len(l))
			for i, a := range l {
				sigs[i] = alpha[a]
			}
			bz := marshalMS(rep.ba, sigs)
			d := decode(bz)
			msCases.Add(1)
			if n <= 3 || len(l) <= 3 { // keep the distinct-set small: n=4 lists longer than 3 are not counted (conservative)
				r.Distinct(string(bz))
			}
			ord := base + int64(bi)*100_000 + int64(li)*10
			desc := func() string {
				names := make([]string, len(l))
				for i, a := range l {
					names[i] = alphaName[a]
				}
				return fmt.Sprintf("bits=%s sigs=%v", rep.name, names)
			}
			for ki, pk := range pks {
				name := fmt.Sprintf("%d-of-%d[%s]", ki+1, n, ks.name)
				checkVerify(tab, ord+int64(ki), name, pk, bz, d, desc)
				if ante {
					checkAnte(ord+int64(ki), name, pk, bz, anteShape(pk, d), desc)
				}
			}
		}
	})
}

// reducePadding keeps, among the well-formed 1-byte arrays, only those whose padding bits (beyond n) are one of pats
func reducePadding(reps []baRep, n int, pats ...byte) []baRep {
	var out []baRep
	for _, b := range reps {
		if b.ba != nil && len(b.ba.Elems) == 1 && baWellFormed(b.ba) {
			pad := b.ba.Elems[0] & (0xff >> uint(n))
			keep := false
			for _, p := range pats {
				if pad == p&(0xff>>uint(n)) {
					keep = true
				}
			}
			if !keep {
				continue
			}
		}
		out = append(out, b)
	}
	return out
}

func mockPriv(s string) crypto.PrivKey { return mock.PrivKeyMock([]byte(s)) }

func multisigAll() {
	mockSet := keyset{"mock", []crypto.PrivKey{mockPriv("A"), mockPriv("B"), mockPriv("C"), mockPriv("D")}}
	dupSet := keyset{"mock,dup(0==last)", nil}
	e0 := ed25519.GenPrivKeyFromSecret([]byte("c44-ms-ed0"))
	e1 := ed25519.GenPrivKeyFromSecret([]byte("c44-ms-ed1"))
	s0 := secp256k1.GenPrivKeySecp256k1([]byte("c44-ms-secp0"))
	s1 := secp256k1.GenPrivKeySecp256k1([]byte("c44-ms-secp1"))
	realSet := keyset{"ed,secp,ed,secp", []crypto.PrivKey{e0, s0, e1, s1}}

	base := int64(0)
	step := int64(1) << 40
	for n := 1; n <= 4; n++ {
		sizeN, other := bitArrays(n)
		// full product where the bit array has the right size (all padding patterns + malformed reps of that size);
		// quick, n=4: padding patterns {0000,1111,0001,1000} (all 16 in thorough; all 2^(8-n) for n<=3 in both tiers)
		mockReps, dupReps := sizeN, sizeN
		if r.Quick() && n == 4 {
			mockReps = reducePadding(sizeN, n, 0x00, 0xff, 0x01, 0x08)
			dupReps = reducePadding(sizeN, n, 0x00, 0xff)
		}
		productFor(base, mockSet, n, true, mockReps, false)
		base += step
		productFor(base, mockSet, n, false, other, false)
		base += step
		if n >= 2 {
			dupSet.privs = append(append([]crypto.PrivKey{}, mockSet.privs[:n-1]...), mockSet.privs[0])
			productFor(base, dupSet, n, true, dupReps, false)
			base += step
		}
		// real key types (ed25519 / secp256k1 leaves) and the ante gas consumer (which type-switches on real key types);
		// padding patterns reduced to {all-zero, all-one} for the expensive real-key leaves (all in thorough for n<=3)
		realReps := sizeN
		if r.Quick() || n == 4 {
			realReps = reducePadding(sizeN, n, 0x00, 0xff)
		}
		if n <= 3 || r.Thorough() {
			productFor(base, realSet, n, true, realReps, true)
		} else {
			// quick, n=4: real leaves on lists of length <= 2 + valid prefixes; ante on the same
			productFor(base, realSet, n, false, realReps, true)
		}
		base += step
		productFor(base, realSet, n, false, other, true)
		base += step
	}
	nested(base)
	base += step
	rawBytes(base, mockSet)
	r.Sample(map[string]any{"key": "2-of-3[mock]", "bits": "{extra:3,elems:[11100000]}", "sigs": []string{"v0", "v1"}, "model": "marked>sigs -> must be rejected without panicking"})
	r.Sample(map[string]any{"key": "1-of-2[mock]", "bits": "{extra:2,elems:[10111111]}", "sigs": []string{"v0"}, "model": "valid (padding bits ignored)"})
	r.Sample(map[string]any{"key": "2-of-2[mock]", "bits": "{extra:2,elems:[11000000]}", "sigs": []string{"v1", "v0"}, "model": "invalid-sig-at-marked-position"})
}

// nested: outer multisig over [leaf A, inner multisig(B,C)], inner 1-of-2 and 2-of-2, outer k in {1,2}
func nested(base int64) {
	A, B, C := mockPriv("A"), mockPriv("B"), mockPriv("C")
	tab := signerTab{}
	sg := func(p crypto.PrivKey) []byte { s, _ := p.Sign(msMsg); tab[string(s)] = p.PubKey(); return s }
	vA, vB, vC := sg(A), sg(B), sg(C)
	ba2 := func(v byte) *bitarray.CompactBitArray {
		return &bitarray.CompactBitArray{ExtraBitsStored: 2, Elems: []byte{v}}
	}
	alpha := [][]byte{vA, marshalMS(ba2(0x80), [][]byte{vB}), marshalMS(ba2(0x40), [][]byte{vC}), marshalMS(ba2(0xc0), [][]byte{vB}),
		marshalMS(ba2(0xc0), [][]byte{vB, vC}), marshalMS(ba2(0x80), [][]byte{vB, vC}), bytes.Repeat([]byte{0x5a}, 64), {}}
	alphaName := []string{"vA", "inner{10,[vB]}", "inner{01,[vC]}", "inner{11,[vB]}", "inner{11,[vB,vC]}", "inner{10,[vB,vC]}", "garbage", "empty"}
	var lists [][]int
	sigLists(len(alpha), 3, func(idx []int) { lists = append(lists, append([]int{}, idx...)) })
	for ik := 1; ik <= 2; ik++ {
		inner := multisig.NewPubKeyMultisigThreshold(ik, []crypto.PubKey{B.PubKey(), C.PubKey()})
		for ok := 1; ok <= 2; ok++ {
			outer := multisig.NewPubKeyMultisigThreshold(ok, []crypto.PubKey{A.PubKey(), inner}).(multisig.PubKeyMultisigThreshold)
			name := fmt.Sprintf("%d-of-2[A, %d-of-2[B,C]]", ok, ik)
			for bv := 0; bv < 4; bv++ {
				rep := ba2(byte(bv) << 6)
				for li, l := range lists {
					sigs := make([][]byte, len(l))
					names := make([]string, len(l))
					for i, a := range l {
						sigs[i], names[i] = alpha[a], alphaName[a]
					}
					bz := marshalMS(rep, sigs)
					msCases.Add(1)
					r.Distinct(string(bz))
					ord := base + int64(((ik*2+ok)*4+bv)*10000+li)
					checkVerify(tab, ord, name, outer, bz, decode(bz), func() string { return fmt.Sprintf("bits=%02b sigs=%v", bv, names) })
				}
			}
		}
	}
}

// rawBytes: arbitrary signature bytes: every string of length <= 2, every truncation and every single-bit flip of
// valid marshalled multisignatures.
func rawBytes(base int64, ks keyset) {
	pubs := ks.pubs(3)
	tab := signerTab{}
	var v [][]byte
	for i := 0; i < 3; i++ {
		s, _ := ks.privs[i].Sign(msMsg)
		tab[string(s)] = pubs[i]
		v = append(v, s)
	}
	pk11 := multisig.NewPubKeyMultisigThreshold(1, pubs[:1]).(multisig.PubKeyMultisigThreshold)
	pk23 := multisig.NewPubKeyMultisigThreshold(2, pubs).(multisig.PubKeyMultisigThreshold)
	e0 := ed25519.GenPrivKeyFromSecret([]byte("c44-ms-ed0"))
	s0 := secp256k1.GenPrivKeySecp256k1([]byte("c44-ms-secp0"))
	pkReal := multisig.NewPubKeyMultisigThreshold(1, []crypto.PubKey{e0.PubKey(), s0.PubKey()}).(multisig.PubKeyMultisigThreshold)
	type tgt struct {
		name string
		pk   multisig.PubKeyMultisigThreshold
	}
	tg := []tgt{{"1-of-1[mock]", pk11}, {"2-of-3[mock]", pk23}}
	run := func(ord int64, bz []byte, what string) {
		msCases.Add(1)
		r.Distinct(string(bz))
		d := decode(bz)
		for ti, t := range tg {
			checkVerify(tab, ord*4+int64(ti), t.name, t.pk, bz, d, func() string { return fmt.Sprintf("raw=%x (%s)", bz, what) })
		}
		checkAnte(ord*4+3, "1-of-2[ed,secp]", pkReal, bz, anteShape(pkReal, d), func() string { return fmt.Sprintf("raw=%x (%s)", bz, what) })
	}
	var all [][]byte
	all = append(all, []byte{})
	for a := 0; a < 256; a++ {
		all = append(all, []byte{byte(a)})
	}
	for a := 0; a < 256; a++ {
		for b := 0; b < 256; b++ {
			all = append(all, []byte{byte(a), byte(b)})
		}
	}
	r.ParFor(len(all), func(i int) { run(base+int64(i), all[i], "all strings of length<=2") })
	base += int64(len(all))
	valids := [][]byte{
		marshalMS(&bitarray.CompactBitArray{ExtraBitsStored: 1, Elems: []byte{0x80}}, [][]byte{v[0]}),
		marshalMS(&bitarray.CompactBitArray{ExtraBitsStored: 3, Elems: []byte{0xa0}}, [][]byte{v[0], v[2]}),
		marshalMS(&bitarray.CompactBitArray{ExtraBitsStored: 3, Elems: []byte{0xe0}}, [][]byte{v[0], v[1], v[2]}),
	}
	for vi, val := range valids {
		for l := 0; l <= len(val); l++ {
			run(base, val[:l], fmt.Sprintf("valid#%d truncated to %d", vi, l))
			base++
		}
		for bit := 0; bit < len(val)*8; bit++ {
			m := append([]byte{}, val...)
			m[bit/8] ^= 1 << (bit % 8)
			run(base, m, fmt.Sprintf("valid#%d bit %d flipped", vi, bit))
			base++
		}
		for _, x := range []byte{0x00, 0x01, 0x0a, 0x12, 0xff} {
			run(base, append(append([]byte{}, val...), x), fmt.Sprintf("valid#%d + byte %02x", vi, x))
			base++
		}
	}
}
