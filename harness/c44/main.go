// C44: signature verification, including k-of-n multisig, is exact and never panics.
//
// Real code under test: tm2/pkg/crypto/{ed25519,secp256k1,mock,multisig} VerifyBytes and the ante gas consumer
// tm2/pkg/sdk/auth.DefaultSigVerificationGasConsumer (-> consumeMultisignatureVerificationGas).
//
// Part A (single keys): for every (key, message) of the menu: the produced signature verifies; EVERY single-bit flip of
// the signature, of the message and of the public key is rejected; signatures of every length 0..70; high-S /
// out-of-range (r,s) menus for secp256k1 decided by an independent math/big ECDSA; signatures produced by that
// independent signer with chosen nonces must be accepted.
// Part B (multisig): all k-of-n, 1<=k<=n<=4; EVERY compact bit array of size 0..n+2 (all 256 values of the byte, i.e.
// every padding pattern) plus nil / malformed representations, x EVERY signature list of length 0..n+1 over
// {valid for position j (all j), garbage, empty}; nested multisig; every byte string of length <= 2, every truncation
// and every single-bit flip of valid marshalled multisignatures. Oracle: a model evaluated on the amino-decoded value.
package main

import (
	"bytes"
	"fmt"
	"math/big"
	"os"
	"runtime/pprof"
	"sort"
	"sync"
	"sync/atomic"
	"time"

	"github.com/gnolang/gno/tm2/pkg/crypto"
	"github.com/gnolang/gno/tm2/pkg/crypto/ed25519"
	"github.com/gnolang/gno/tm2/pkg/crypto/mock"
	"github.com/gnolang/gno/tm2/pkg/crypto/secp256k1"
	"verif/engine/vk"
)

var r *vk.Run

// ---- per-class minimal violation reporting (stable keys) ----

type classMin struct {
	ord    int64
	key    string
	detail any
	n      int64
}

var (
	classes   = map[string]*classMin{}
	classesMu sync.Mutex
)

func report(class string, ord int64, key string, detail any) {
	classesMu.Lock()
	c := classes[class]
	if c == nil {
		c = &classMin{ord: ord, key: key, detail: detail}
		classes[class] = c
	} else if ord < c.ord {
		c.ord, c.key, c.detail = ord, key, detail
	}
	c.n++
	classesMu.Unlock()
}

func flushReports() {
	names := make([]string, 0, len(classes))
	for k := range classes {
		names = append(names, k)
	}
	sort.Strings(names)
	for _, n := range names {
		c := classes[n]
		r.Violation(n+": "+c.key, map[string]any{"class": n, "minimal_case": c.detail, "failing_cases_in_class": c.n})
	}
}

var hist sync.Map // class -> *atomic.Int64

func outcome(c string) {
	v, ok := hist.Load(c)
	if !ok {
		v, _ = hist.LoadOrStore(c, new(atomic.Int64))
	}
	v.(*atomic.Int64).Add(1)
}

func flushHist() {
	hist.Range(func(k, v any) bool { r.OutcomeN(k.(string), v.(*atomic.Int64).Load()); return true })
}

// ---------------------------------------------------------------------------------------------------------

type skey struct {
	typ  string
	name string
	priv crypto.PrivKey
	pub  crypto.PubKey
}

func ctr(n int, start byte) []byte {
	b := make([]byte, n)
	for i := range b {
		b[i] = start + byte(i)
	}
	return b
}

func fill(n int, v byte) []byte { return bytes.Repeat([]byte{v}, n) }

func verify(pub crypto.PubKey, msg, sig []byte) (ok bool, rec any) {
	rec = vk.Catch(func() { ok = pub.VerifyBytes(msg, sig) })
	r.Eval()
	return
}

// expect checks one verification against the expected verdict.
func expect(what string, ord int64, id string, pub crypto.PubKey, msg, sig []byte, want bool) {
	got, rec := verify(pub, msg, sig)
	switch {
	case rec != nil:
		report("single-key VerifyBytes panics ("+what+")", ord, id, fmt.Sprint(rec))
	case got && !want:
		report("single-key VerifyBytes accepts an invalid signature ("+what+")", ord, id, map[string]any{"sig": fmt.Sprintf("%x", sig), "msglen": len(msg)})
	case !got && want:
		report("single-key VerifyBytes rejects a valid signature ("+what+")", ord, id, map[string]any{"sig": fmt.Sprintf("%x", sig), "msglen": len(msg)})
	case want:
		outcome("single:accepted_valid")
	default:
		outcome("single:rejected_invalid:" + what)
	}
}

func withPubBytes(k skey, b []byte) crypto.PubKey {
	switch k.typ {
	case "ed25519":
		var p ed25519.PubKeyEd25519
		copy(p[:], b)
		return p
	case "secp256k1":
		var p secp256k1.PubKeySecp256k1
		copy(p[:], b)
		return p
	default:
		return mock.PubKeyMock(append([]byte{}, b...))
	}
}

func pubBytes(k skey) []byte {
	switch p := k.pub.(type) {
	case ed25519.PubKeyEd25519:
		return append([]byte{}, p[:]...)
	case secp256k1.PubKeySecp256k1:
		return append([]byte{}, p[:]...)
	case mock.PubKeyMock:
		return append([]byte{}, p...)
	}
	return nil
}

var edL, _ = new(big.Int).SetString("7237005577332262213973186563042994240857116359379907606001950938285454250989", 10)

func singleCase(ord int64, k skey, other skey, mi int, msgs [][]byte) {
	msg := msgs[mi]
	id := fmt.Sprintf("%s msg#%d(len %d)", k.name, mi, len(msg))
	sig, err := k.priv.Sign(msg)
	if err != nil {
		report("Sign fails", ord, id, err.Error())
		return
	}
	r.Distinct("single:" + id)
	o := ord * 10_000_000
	expect("valid", o, id, k.pub, msg, sig, true)
	// independent anchor for secp256k1: the reference verifier must agree that the library's signature is valid
	if k.typ == "secp256k1" && !refVerify(pubBytes(k), msg, sig) {
		report("secp256k1 Sign output is not a valid low-S ECDSA signature per the reference", o, id, fmt.Sprintf("%x", sig))
	}
	// wrong key, wrong message
	expect("other-key", o+1, id+" other-key", other.pub, msg, sig, false)
	for mj := range msgs {
		if mj != mi {
			expect("other-msg", o+2+int64(mj), fmt.Sprintf("%s vs msg#%d", id, mj), k.pub, msgs[mj], sig, false)
		}
	}
	// every single-bit flip of the signature
	buf := make([]byte, len(sig))
	for bit := 0; bit < len(sig)*8; bit++ {
		copy(buf, sig)
		buf[bit/8] ^= 1 << (bit % 8)
		expect("sig-bitflip", o+100+int64(bit), fmt.Sprintf("%s sigbit#%d", id, bit), k.pub, msg, buf, false)
	}
	// single-bit flips of the message: all bits (thorough or short messages); for the 10 kB message in quick: all bits
	// of the first and last 4 bytes and bit (i mod 8) of every 61st byte (deterministic stride, stated in evidence)
	mb := make([]byte, len(msg))
	for bit := 0; bit < len(msg)*8; bit++ {
		by := bit / 8
		if len(msg) > 64 && r.Quick() && !(by < 4 || by >= len(msg)-4 || (by%61 == 0 && bit%8 == by%8)) {
			continue
		}
		copy(mb, msg)
		mb[by] ^= 1 << (bit % 8)
		expect("msg-bitflip", o+10_000+int64(bit), fmt.Sprintf("%s msgbit#%d", id, bit), k.pub, mb, sig, false)
	}
	expect("msg-extended", o+9_000, id+" msg+00", k.pub, append(append([]byte{}, msg...), 0), sig, false)
	if len(msg) > 0 {
		expect("msg-truncated", o+9_001, id+" msg-1", k.pub, msg[:len(msg)-1], sig, false)
		expect("msg-prefix-dropped", o+9_002, id+" msg[1:]", k.pub, msg[1:], sig, false)
	}
	// every single-bit flip of the public key
	pb := pubBytes(k)
	for bit := 0; bit < len(pb)*8; bit++ {
		p2 := append([]byte{}, pb...)
		p2[bit/8] ^= 1 << (bit % 8)
		expect("pubkey-bitflip", o+1_000_000+int64(bit), fmt.Sprintf("%s pubbit#%d", id, bit), withPubBytes(k, p2), msg, sig, false)
	}
	// every length 0..70 (+ a few longer) from a byte menu
	for _, l := range append(seq(0, 70), 96, 128, 129) {
		cands := [][]byte{fill(l, 0), fill(l, 0xff), ctr(l, 1), fill(l, 0x01)}
		if l <= len(sig) {
			cands = append(cands, sig[:l], sig[len(sig)-l:])
		} else {
			cands = append(cands, append(append([]byte{}, sig...), fill(l-len(sig), 0)...), append(fill(l-len(sig), 0), sig...))
		}
		for ci, c := range cands {
			want := bytes.Equal(c, sig)
			expect("length-menu", o+2_000_000+int64(l*10+ci), fmt.Sprintf("%s len=%d cand#%d", id, l, ci), k.pub, msg, c, want)
		}
	}
	switch k.typ {
	case "ed25519":
		// non-canonical S: S+L encodes the same scalar mod L; must be rejected (malleability)
		s := new(big.Int).SetBytes(rev(sig[32:]))
		s.Add(s, edL)
		if s.BitLen() <= 256 {
			nc := append([]byte{}, sig...)
			copy(nc[32:], rev(s.FillBytes(make([]byte, 32))))
			expect("ed25519-noncanonical-S", o+3_000_000, id+" S+L", k.pub, msg, nc, false)
		}
		// R or S replaced wholesale
		for i, v := range []byte{0x00, 0x01, 0xff} {
			x := append([]byte{}, sig...)
			copy(x[:32], fill(32, v))
			expect("ed25519-R-replaced", o+3_000_010+int64(i), fmt.Sprintf("%s R=%02x..", id, v), k.pub, msg, x, false)
			x = append([]byte{}, sig...)
			copy(x[32:], fill(32, v))
			expect("ed25519-S-replaced", o+3_000_020+int64(i), fmt.Sprintf("%s S=%02x..", id, v), k.pub, msg, x, false)
		}
	case "secp256k1":
		d := k.priv.(secp256k1.PrivKeySecp256k1)
		if !bytes.Equal(refPubFromPriv(d[:]), pb) {
			report("secp256k1 PubKey differs from reference d*G", o, k.name, fmt.Sprintf("%x", pb))
		}
		// signatures by the independent signer with chosen nonces: low-S must verify, the high-S twin must not
		nonces := []*big.Int{big.NewInt(1), big.NewInt(2), big.NewInt(3), new(big.Int).Sub(secN, big.NewInt(1)), new(big.Int).Sub(secN, big.NewInt(2)),
			new(big.Int).SetBytes(ctr(32, 7)), new(big.Int).Rsh(secN, 1)}
		for ni, kk := range nonces {
			low, high, ok := refSign(d[:], msg, kk)
			if !ok {
				continue
			}
			expect("refsigned-lowS", o+4_000_000+int64(ni), fmt.Sprintf("%s refsig nonce#%d", id, ni), k.pub, msg, low, true)
			expect("refsigned-highS", o+4_000_100+int64(ni), fmt.Sprintf("%s refsig nonce#%d highS", id, ni), k.pub, msg, high, false)
		}
		// the library's own signature, high-S twin
		s := new(big.Int).SetBytes(sig[32:])
		hs := append([]byte{}, sig...)
		new(big.Int).Sub(secN, s).FillBytes(hs[32:])
		expect("highS-twin", o+4_000_200, id+" (r,n-s)", k.pub, msg, hs, false)
		// (r,s) menu decided by the reference verifier
		rv := new(big.Int).SetBytes(sig[:32])
		menu := []*big.Int{big.NewInt(0), big.NewInt(1), new(big.Int).Sub(secN, big.NewInt(1)), secN, new(big.Int).Add(secN, big.NewInt(1)),
			secHalf, new(big.Int).Add(secHalf, big.NewInt(1)), new(big.Int).Sub(new(big.Int).Lsh(big.NewInt(1), 256), big.NewInt(1)), secP, rv, s,
			new(big.Int).Add(rv, secN), new(big.Int).Add(s, secN)}
		for ri, rr := range menu {
			for si, ss := range menu {
				if rr.BitLen() > 256 || ss.BitLen() > 256 {
					continue
				}
				c := make([]byte, 64)
				rr.FillBytes(c[:32])
				ss.FillBytes(c[32:])
				expect("rs-menu", o+5_000_000+int64(ri*100+si), fmt.Sprintf("%s r#%d s#%d", id, ri, si), k.pub, msg, c, refVerify(pb, msg, c))
			}
		}
	}
}

func rev(b []byte) []byte {
	o := make([]byte, len(b))
	for i := range b {
		o[len(b)-1-i] = b[i]
	}
	return o
}

func seq(a, b int) []int {
	var s []int
	for i := a; i <= b; i++ {
		s = append(s, i)
	}
	return s
}

func singleKeys() []skey {
	var ks []skey
	for i := 0; i < 2; i++ {
		e := ed25519.GenPrivKeyFromSecret([]byte(fmt.Sprintf("c44-ed25519-%d", i)))
		ks = append(ks, skey{"ed25519", fmt.Sprintf("ed25519#%d", i), e, e.PubKey()})
	}
	for i := 0; i < 2; i++ {
		s := secp256k1.GenPrivKeySecp256k1([]byte(fmt.Sprintf("c44-secp256k1-%d", i)))
		ks = append(ks, skey{"secp256k1", fmt.Sprintf("secp256k1#%d", i), s, s.PubKey()})
	}
	for i := 0; i < 2; i++ {
		m := mock.PrivKeyMock([]byte(fmt.Sprintf("mock%d", i)))
		ks = append(ks, skey{"mock", fmt.Sprintf("mock#%d", i), m, m.PubKey()})
	}
	return ks
}

func main() {
	r = vk.New("exploration")
	r.SetBudget(150*time.Second, 15*time.Minute)
	if pf := os.Getenv("C44_CPUPROFILE"); pf != "" {
		f, _ := os.Create(pf)
		pprof.StartCPUProfile(f)
		defer pprof.StopCPUProfile()
	}

	// ---- Part A
	ks := singleKeys()
	msgs := [][]byte{{}, {0x00}, ctr(32, 1), ctr(33, 1), ctr(10*1024, 3)}
	type job struct {
		ord  int64
		k, o skey
		mi   int
	}
	var jobs []job
	for ki, k := range ks {
		for mi := range msgs {
			if k.typ == "mock" && len(msgs[mi]) > 64 {
				continue // the mock key's signature embeds the hex of the message: 20 kB signatures add nothing
			}
			jobs = append(jobs, job{int64(len(jobs)), k, ks[ki^1], mi})
		}
	}
	r.ParFor(len(jobs), func(i int) { singleCase(jobs[i].ord, jobs[i].k, jobs[i].o, jobs[i].mi, msgs) })

	// ---- Part B
	multisigAll()

	pprof.StopCPUProfile()
	flushReports()
	flushHist()
	r.Assumptions = []string{
		"leaf-signature validity inside the multisig model is known by construction (who signed what); amino decoding of the multisignature is shared with the implementation (trusted)",
		"single-key exactness: every single-bit flip / length / (r,s) menu entry; multi-bit forgeries are a cryptographic claim outside enumeration",
		"10 kB message: quick flips all bits of the first/last 4 bytes and one bit of every 61st byte; thorough flips every bit",
		"extra trailing signatures beyond the marked positions are outside the property statement: either verdict is accepted and counted (outcome multisig:gap_extra_sigs_*)",
	}
	r.Finish("Part A: (4 real keys x 5 messages + 2 mock keys x 4 messages) x every single-bit flip of sig/msg/pubkey, every sig length 0..70, (r,s) menus vs math/big ECDSA; Part B: all k-of-n (n<=4) x every 1-byte compact bit array (sizes 0..n+2, all padding patterns) + nil/malformed x every signature list of length 0..n+1 over {valid_j, garbage, empty}; nested; raw byte strings; through VerifyBytes and the ante gas consumer. distinct = distinct (key,message) pairs + distinct marshalled multisignatures",
		true, map[string]any{"multisig_marshalled_cases": msCases.Load(), "multisig_verify_calls": msVerifies.Load(), "ante_calls": anteCalls.Load()})
}
