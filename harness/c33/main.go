// C33: a node recovers from a crash at any point of block processing (fault_enumeration).
//
// A single-validator node is assembled in-process from the REAL tm2 parts (ConsensusState running its real
// receiveRoutine, real file WAL, real privval with its state file, real block store / state store / Handshaker,
// the persistent kvstore ABCI application) on crashdb DBs and run to height 4 with transactions in every block.
// Every persistence unit of the run gets one global number: every physical DB write of the three DBs, every
// WAL operation (Write / WriteSync / WriteMetaSync / FlushAndSync, with the resulting on-disk length of the
// WAL file), every privval state-file save. For EVERY k the state a killed process leaves behind after unit k
// is rebuilt (DB prefixes through crashdb.Rebuild, WAL file truncated to its on-disk length at that point,
// privval file as it was), a fresh node is booted on it exactly like node.NewNode does (LoadState,
// Handshaker.Handshake, ConsensusState.Start with WAL catch-up replay) and must get back onto the uncrashed
// run's chain. See node.go for the assembly, checks.d/C33.json for the summary.
package main

import (
	"bytes"
	"encoding/hex"
	"flag"
	"fmt"
	"log/slog"
	"os"
	"os/signal"
	"path/filepath"
	"runtime/debug"
	"runtime/pprof"
	"sort"
	"strings"
	"sync/atomic"
	"syscall"
	"time"

	"github.com/gnolang/gno/tm2/pkg/bft/abci/example/kvstore"
	abci "github.com/gnolang/gno/tm2/pkg/bft/abci/types"
	tmtime "github.com/gnolang/gno/tm2/pkg/bft/types/time"
	"verif/engine/crashdb"
	"verif/engine/vk"
)

var (
	r        *vk.Run
	workRoot = "/verif/.work/c33/run"
	verbose  = flag.Bool("v", false, "print the node logs of the reference run")
	onlyK    = flag.Int("k", -1, "debug: run only this crash point (verbose)")
	onlyK2   = flag.Int("k2", -1, "debug: with -k, run only this second crash point (verbose)")
	dumpLog  = flag.Bool("units", false, "print the persistence-unit log of the reference run")
	onlySc   = flag.String("scenario", "", "debug: run only the scenarios with this name prefix")
	cpuprof  = flag.String("cpuprofile", "", "debug: write a CPU profile")
	sigterms atomic.Int64
)

var abciInfo = abci.RequestInfo{}
var stopProf = func() {}

var kvKind = &appKind{
	name:        "kvstore",
	chainID:     "c33-chain",
	reopenCheap: true,
	plan: func() ([][]string, error) {
		return [][]string{{"k1=v1"}, {"k2=v2", "k3=v3"}, {"k4=v4"}, {"k5=v5"}}, nil
	},
	newApp: func(db *crashdb.DB, lg *slog.Logger) (*appInst, error) {
		a := kvstore.NewVerifPersistentKVStore(db)
		a.SetLogger(lg)
		return &appInst{app: a, height: func() (int64, []byte) {
			i := a.Info(abciInfo)
			return i.LastBlockHeight, i.LastBlockAppHash
		}}, nil
	},
}

// clock: frozen (mode 0) or frozen per epoch (mode 1: the restarted node lives one hour later)
var clockEpoch atomic.Int64

func installClock() {
	f := func() time.Time { return genesisTime.Add(time.Duration(clockEpoch.Load()) * time.Hour) }
	tmtime.VerifClock.Store(&f)
}

// pair = two lives booted from the same persistent state: a flushes the WAL lazily (only where the code asks
// for it), b additionally flushes after every single Write (the wall-clock flush ticker firing as often as it can).
// Their unit sequences must be identical; only the on-disk WAL lengths differ.
type pair struct{ a, b *life }

func runPair(from snap, dir string, sc scenario, epoch int, verb bool) pair {
	return pair{
		a: runLife(from, nodeOpts{dir: dir + "-a", kind: sc.kind, epoch: epoch, verbose: verb, keepKV: *onlyK >= 0}),
		b: runLife(from, nodeOpts{dir: dir + "-b", kind: sc.kind, epoch: epoch, flushEvery: true, keepKV: *onlyK >= 0}),
	}
}

func (p pair) consistent() (bool, string) {
	if p.a.outcome != p.b.outcome {
		return false, "outcome " + p.a.outcome + " vs " + p.b.outcome
	}
	if ok, why := sameUnits(p.a.rec.units, p.b.rec.units); !ok {
		return false, why
	}
	if p.a.final == nil || p.b.final == nil || !bytes.Equal(p.a.final.wal, p.b.final.wal) {
		return false, "final WAL bytes differ"
	}
	if fmt.Sprint(*p.a.obs) != fmt.Sprint(*p.b.obs) {
		return false, "final observations differ"
	}
	return true, ""
}

// snapAt returns the persistent state after `k` units of the pair's life completed, with the WAL file at length walLen.
func (p pair) snapAt(k int, walLen int64) snap {
	rec := p.a.rec
	if k == 0 {
		return rec.base
	}
	u := rec.units[k-1]
	s := snap{
		bs:  append(append([]crashdb.Unit{}, rec.base.bs...), rec.bs.Units[:u.Bs]...),
		st:  append(append([]crashdb.Unit{}, rec.base.st...), rec.st.Units[:u.St]...),
		app: append(append([]crashdb.Unit{}, rec.base.app...), rec.app.Units[:u.App]...),
		pv:  rec.pvStates[u.Pv],
		wal: append([]byte{}, p.a.final.wal[:walLen]...),
	}
	s.walIdx = append(s.walIdx, rec.base.walIdx...)
	for _, bu := range p.b.rec.units {
		if bu.Comp == "wal" && bu.MsgH > 0 && bu.WalDisk <= walLen {
			s.walIdx = append(s.walIdx, walMsg{End: bu.WalDisk, H: bu.MsgH})
		}
	}
	s.sigs = append(s.sigs, rec.base.sigs...)
	for _, sg := range rec.sigs {
		if sg.Unit <= k {
			s.sigs = append(s.sigs, sg)
		}
	}
	return s
}

type crashCase struct {
	k       int
	walLen  int64
	variant string // disk | flushed | mid
	ph      string // description of the last completed unit
	ctx     []string
	from    snap
}

// crashCases enumerates every crash point of the pair's life: (k, on-disk WAL length) for every k, de-duplicated
// on the resulting persistent state.
func crashCases(p pair, allBoundaries bool) (todo []crashCase, total int) {
	ua, ub := p.a.rec.units, p.b.rec.units
	bset := map[int64]bool{}
	for _, u := range ub {
		bset[u.WalDisk] = true
	}
	var bounds []int64
	for b := range bset {
		bounds = append(bounds, b)
	}
	sort.Slice(bounds, func(i, j int) bool { return bounds[i] < bounds[j] })
	seen := map[string]bool{}
	add := func(k int, l int64, v string) {
		total++
		s := p.snapAt(k, l)
		if key := s.key(); !seen[key] {
			seen[key] = true
			c := crashCase{k: k, walLen: l, variant: v, from: s, ph: "start"}
			if k > 0 {
				c.ph = ua[k-1].Comp + ":" + ua[k-1].Desc
				for i := max(0, k-6); i < k; i++ {
					c.ctx = append(c.ctx, unitLine(i, ua[i]))
				}
			}
			todo = append(todo, c)
		}
	}
	for k := 0; k <= len(ua); k++ {
		lo, hi := int64(len(p.a.rec.base.wal)), int64(len(p.a.rec.base.wal))
		if k > 0 {
			lo, hi = ua[k-1].WalDisk, ub[k-1].WalDisk
		}
		add(k, lo, "disk")
		if hi != lo {
			add(k, hi, "flushed")
			if allBoundaries {
				for _, b := range bounds {
					if b > lo && b < hi {
						add(k, b, "mid")
					}
				}
			}
		}
	}
	return
}

func unitLine(i int, u unitRec) string {
	return fmt.Sprintf("%3d %-3s %-40s bs=%d st=%d app=%d wal=%d pv=%d storeH=%d", i+1, u.Comp, u.Desc, u.Bs, u.St, u.App, u.WalDisk, u.Pv, u.CsH)
}

func sameUnits(a, b []unitRec) (bool, string) {
	if len(a) != len(b) {
		return false, fmt.Sprintf("length %d vs %d", len(a), len(b))
	}
	for i := range a {
		x, y := a[i], b[i]
		if x.Comp != y.Comp || x.Desc != y.Desc || x.Bs != y.Bs || x.St != y.St || x.App != y.App || x.Pv != y.Pv {
			return false, fmt.Sprintf("unit %d: %q vs %q", i+1, unitLine(i, x), unitLine(i, y))
		}
	}
	return true, ""
}

// ---------------------------------------------------------------------------------------------

type scenario struct {
	name      string
	kind      *appKind
	clockJump bool // restarted node's clock is one hour later
	depth2    int  // 0: single crashes only; 1: second crash for first crashes up to height 2; 2: for all
}

func main() {
	r = vk.New("fault_enumeration")
	r.SetBudget(100*time.Second, 18*time.Minute)
	sigc := make(chan os.Signal, 16)
	signal.Notify(sigc, syscall.SIGTERM) // consensus calls osm.Kill() (SIGTERM to self) when ApplyBlock fails
	go func() {
		for range sigc {
			sigterms.Add(1)
		}
	}()
	debug.SetGCPercent(400)
	installClock()
	if *cpuprof != "" {
		f, _ := os.Create(*cpuprof)
		pprof.StartCPUProfile(f)
		defer pprof.StopCPUProfile()
		stopProf = pprof.StopCPUProfile
	}
	workRoot = filepath.Join("/verif/.work/c33", "run-"+r.Tier+fmt.Sprint(os.Getpid()))
	os.RemoveAll(workRoot)

	scs := []scenario{{name: "kvstore/frozen-clock", kind: kvKind, depth2: 1}}
	if r.Thorough() {
		scs[0].depth2 = 2
		scs = append(scs, scenario{name: "kvstore/clock+1h-after-restart", kind: kvKind, clockJump: true},
			scenario{name: "gnoland/frozen-clock", kind: gnoKind})
	}
	if *onlySc != "" {
		var f []scenario
		for _, sc := range append(scs, scenario{name: "gnoland/frozen-clock", kind: gnoKind}) {
			if strings.HasPrefix(sc.name, *onlySc) && (len(f) == 0 || f[len(f)-1].name != sc.name) {
				f = append(f, sc)
			}
		}
		scs = f
	}
	cov := map[string]any{}
	var layouts []any
	exhaustive := true
	for _, sc := range scs {
		l, ex := runScenario(sc)
		layouts = append(layouts, l)
		exhaustive = exhaustive && ex
	}
	cov["scenarios"] = layouts
	if n := sigterms.Load(); n > 0 {
		cov["sigterm_from_osm_kill"] = n
	}
	r.Assumptions = []string{
		"process-kill model: every completed persistence unit survives, nothing partial; a DB batch is atomic; the WAL file holds exactly the bytes the process had written to the OS (bufio content is lost)",
		"the WAL's wall-clock flush ticker is modelled explicitly: for every crash point both 'never fired' and 'fired right before the kill' (thorough: every message boundary in between)",
		"logical clock (tmtime.Now redirected): timeouts expire only when the receive loop is quiescent — the order a single-validator node sees in practice",
		"transactions not yet committed are offered again after the restart (clients/peers resubmit)",
		"privval save is one atomic unit (its inner crash points are C34's)",
	}
	os.RemoveAll(workRoot)
	stopProf()
	r.Finish("crash point = (number k of completed persistence units of the run, on-disk WAL length), for the uncrashed run and (second crash) for every recovery run; distinct = distinct persistent states (DB prefix lengths, WAL length, privval file) per crash history; non-trivial = every state except the empty one", exhaustive, cov)
}

func runScenario(sc scenario) (layout map[string]any, exhaustive bool) {
	clockEpoch.Store(0)
	ref := runPair(snap{}, filepath.Join(workRoot, sc.name, "ref"), sc, 0, *verbose)
	refC := runLife(snap{}, nodeOpts{dir: filepath.Join(workRoot, sc.name, "refC"), kind: sc.kind})
	for _, l := range []*life{ref.a, ref.b, refC} {
		if l.outcome != "done" || l.obs == nil || l.obs.StoreH != lastHeight {
			r.HarnessError("reference run did not reach height %d: outcome=%s errs=%v obs=%+v", lastHeight, l.outcome, l.errLogs, l.obs)
		}
	}
	if *dumpLog {
		for i, u := range ref.a.rec.units {
			fmt.Println(unitLine(i, u), " flushedWal=", ref.b.rec.units[i].WalDisk)
		}
	}
	if ok, why := ref.consistent(); !ok {
		fmt.Println(*ref.a.obs)
		fmt.Println(*ref.b.obs)
		if ref.a.appKV != nil && ref.b.appKV != nil {
			n := 0
			for k, v := range ref.a.appKV {
				if w, ok := ref.b.appKV[k]; (!ok || w != v) && n < 12 {
					n++
					fmt.Printf("  app-db diff key=%q\n    a=%q\n    b=%q (present=%v)\n", k, trunc(v), trunc(w), ok)
				}
			}
		}
		r.HarnessError("reference runs A/B differ (nondeterminism): %s", why)
	}
	if ok, why := (pair{ref.a, refC}).consistent(); !ok {
		r.HarnessError("reference runs A/C differ (nondeterminism): %s", why)
	}
	refA := ref.a
	N := len(refA.rec.units)
	todo, total := crashCases(ref, r.Thorough())
	if *onlyK >= 0 {
		var cc []crashCase
		for _, c := range todo {
			if c.k == *onlyK {
				cc = append(cc, c)
			}
		}
		todo = cc
	}
	if sc.clockJump {
		clockEpoch.Store(1)
	}
	comp := map[string]int{}
	for _, u := range refA.rec.units {
		comp[u.Comp]++
	}
	var ran atomic.Int64
	lives := make([]*life, len(todo))
	// execution order (matters only if the budget runs out): crash points inside the block commit window
	// (SaveBlock .. WAL marker .. ApplyBlock .. app Commit .. SaveState) first, then the rest
	var perm, rest []int
	for i, c := range todo {
		if c.k > 0 && c.k < N && (refA.rec.units[c.k-1].Comp != "wal" && refA.rec.units[c.k-1].Comp != "pv" || refA.rec.units[c.k].Comp != "wal" && refA.rec.units[c.k].Comp != "pv") {
			perm = append(perm, i)
		} else {
			rest = append(rest, i)
		}
	}
	perm = append(perm, rest...)
	r.ParFor(len(todo), func(j int) {
		i := perm[j]
		c := todo[i]
		dir := filepath.Join(workRoot, sc.name, fmt.Sprintf("k%04d-%s-%d", c.k, c.variant, c.walLen))
		lives[i] = runLife(c.from, nodeOpts{dir: dir, kind: sc.kind, epoch: 1, verbose: *onlyK >= 0 && *onlyK2 < 0, keepKV: *onlyK >= 0})
		os.RemoveAll(dir)
		ran.Add(1)
	})
	// oracle, sequentially in crash-point order: the first report of a class is its minimal crash point
	okLife := make([]bool, len(todo))
	for i, c := range todo {
		if lives[i] != nil {
			okLife[i] = checkCrash(sc, refA, []crashCase{c}, lives[i])
		}
	}
	exhaustive = int(ran.Load()) == len(todo) && *onlyK < 0
	layout = map[string]any{
		"scenario": sc.name, "units": N, "units_by_component": comp, "crash_points": total,
		"distinct_persistent_states": len(todo), "recoveries_run": ran.Load(),
		"wal_bytes": len(refA.final.wal),
		"reference": map[string]any{"blocks": refA.obs.BlockIDs, "app_hashes": refA.obs.AppHashes, "txs": printable(refA.obs.Txs), "final_app_hash": refA.obs.StateAppHash, "signatures": len(refA.rec.sigs)},
	}
	if len(refA.errLogs) > 0 {
		layout["reference_error_logs"] = dedupStrings(refA.errLogs)
	}

	// second crash: every crash point of every (healthy) recovery run
	if sc.depth2 > 0 && !sc.clockJump {
		var firsts, total2, states2, ran2, nondet int64
		for i, c := range todo {
			if lives[i] == nil || !okLife[i] {
				continue
			}
			if l := lives[i]; sc.depth2 == 1 && !(l.pre[0] == 1 && (l.pre[0] != l.pre[1] || l.pre[1] != l.pre[2])) {
				// quick: a second crash only after the first crashes inside the commit of block 1 (block saved,
				// state and/or application not yet): the recoveries that go through the handshake's replay paths
				continue
			}
			if r.Expired() {
				exhaustive = false
				break
			}
			dir := filepath.Join(workRoot, sc.name, fmt.Sprintf("k%04d-%s-%d", c.k, c.variant, c.walLen))
			b := runLife(c.from, nodeOpts{dir: dir + "-b", kind: sc.kind, epoch: 1, flushEvery: true})
			os.RemoveAll(dir + "-b")
			p := pair{lives[i], b}
			if ok, why := p.consistent(); !ok {
				nondet++
				r.HarnessError("recovery run after crash %d (%s) is not deterministic: %s", c.k, c.ph, why)
			}
			firsts++
			todo2, t2 := crashCases(p, false)
			if *onlyK2 >= 0 {
				var cc []crashCase
				for _, c2 := range todo2 {
					if c2.k == *onlyK2 {
						cc = append(cc, c2)
					}
				}
				todo2 = cc
			}
			total2 += int64(t2)
			states2 += int64(len(todo2))
			lives2 := make([]*life, len(todo2))
			r.ParFor(len(todo2), func(j int) {
				c2 := todo2[j]
				d2 := fmt.Sprintf("%s-x-k%04d-%s-%d", dir, c2.k, c2.variant, c2.walLen)
				lives2[j] = runLife(c2.from, nodeOpts{dir: d2, kind: sc.kind, epoch: 2, verbose: *onlyK2 >= 0})
				os.RemoveAll(d2)
				atomic.AddInt64(&ran2, 1)
			})
			for j, c2 := range todo2 {
				if lives2[j] != nil {
					checkCrash(sc, refA, []crashCase{c, c2}, lives2[j])
				} else {
					exhaustive = false
				}
			}
		}
		layout["second_crash"] = map[string]any{"first_crashes_expanded": firsts, "crash_points": total2, "distinct_persistent_states": states2}
	}
	clockEpoch.Store(0)
	return layout, exhaustive
}

func dedupStrings(in []string) []string {
	m := map[string]bool{}
	var out []string
	for _, s := range in {
		if !m[s] {
			m[s] = true
			out = append(out, s)
		}
	}
	return out
}

// checkCrash applies the oracle to the life lf that was booted after the crash history `hist` (1 or 2 crashes).
// It returns true when the recovery was flawless.
func checkCrash(sc scenario, ref *life, hist []crashCase, lf *life) (ok bool) {
	c := hist[len(hist)-1]
	from := c.from
	r.Eval()
	var hk []string
	var hd []any
	for _, h := range hist {
		hk = append(hk, fmt.Sprintf("%d/%d", h.k, h.walLen))
		hd = append(hd, map[string]any{"crash_after_unit": h.k, "last_unit": h.ph, "wal_variant": h.variant, "wal_len": h.walLen, "units_before_crash": h.ctx})
	}
	if c.k > 0 || len(hist) > 1 {
		r.Distinct(sc.name + strings.Join(hk, ">") + from.key())
	}
	depth := fmt.Sprintf("crash%d", len(hist))
	detail := map[string]any{
		"scenario": sc.name, "crashes": hd,
		"outcome": lf.outcome, "heights_at_boot(store,state,app)": lf.pre, "after_handshake": lf.post,
		"error_logs": dedupStrings(lf.errLogs), "obs": lf.obs, "ref": ref.obs,
	}
	ok = true
	bad := func(class string) {
		ok = false
		if len(hist) > 1 {
			class = "second-crash: " + class
		}
		r.Violation(class, detail)
	}
	skew := fmt.Sprintf("%s boot-skew store-state=%+d state-app=%+d", depth, lf.pre[0]-lf.pre[1], lf.pre[1]-lf.pre[2])
	r.Outcome(skew)
	if (c.k+len(hist))%37 == 3 {
		r.Sample(map[string]any{"crashes": hd, "boot_heights": lf.pre, "outcome": lf.outcome})
	}
	ph := c.ph
	_ = ph

	// 1. restart succeeds: boot + handshake + WAL catch-up replay, and the node goes on to height 4
	catchup, signErr := "", false
	for _, e := range lf.errLogs {
		if strings.Contains(e, "Error on catchup replay") {
			// the WAL-replay half of the recovery did not happen: the node goes on WITHOUT its pre-crash messages
			msg := e
			if i := strings.Index(msg, "err="); i >= 0 {
				msg = msg[i+4:]
			}
			catchup = strings.Map(func(c rune) rune {
				if c >= '0' && c <= '9' {
					return 'N'
				}
				return c
			}, msg)
		}
		if strings.Contains(e, "Error signing") {
			signErr = true
		}
	}
	atInitial := lf.post[1] == 0 // the restarted consensus is at the chain's first height
	lost := 0                    // consensus messages of the restarted height that are on disk in the WAL
	for _, m := range from.walIdx {
		if m.H == lf.post[1]+1 {
			lost++
		}
	}
	if catchup != "" {
		r.Outcome(depth + " catchup replay error: " + catchup)
		switch {
		case !strings.Contains(catchup, "cannot replay height"):
			bad("wal-catchup-replay-failed: " + catchup)
		case lost == 0:
			// documented window (crash between SaveBlock and the WAL height marker; the handshake applied the
			// block): the marker is missing, but there is nothing to replay for the new height yet.
			r.Outcome(depth + " catchup replay skipped, nothing to replay (benign)")
		case atInitial:
			bad("wal-catchup-replay-impossible-at-initial-height: " + catchup)
		default:
			bad("wal-messages-of-current-height-not-replayed: " + catchup)
		}
	}
	if lf.outcome == "timeout" {
		r.MarkCapped()
		r.Outcome(depth + " harness timeout (not judged)")
		return false
	}
	if lf.outcome != "done" {
		cl := lf.outcome
		if i := strings.Index(cl, "Block:"); i > 0 {
			cl = cl[:i]
		}
		if len(cl) > 90 {
			cl = cl[:90]
		}
		for _, e := range lf.errLogs {
			if strings.Contains(e, "CONSENSUS FAILURE") {
				cl += " (CONSENSUS FAILURE)"
				break
			}
		}
		if lf.outcome == "stuck" && catchup != "" && lost > 0 && signErr {
			// no WAL replay => the node re-enters round 0 from scratch, the privval (correctly) refuses to sign
			// again below its last signed step => a single validator can never move: the chain is halted for good
			where := ""
			if atInitial {
				where = " at the initial height"
			}
			bad(fmt.Sprintf("node-halted-after-restart: WAL replay failed (%s)%s; privval refuses to re-sign", catchup, where))
		} else {
			bad("restart-failed: " + cl)
		}
		r.Outcome(depth + " restart failed: " + lf.outcome)
		return
	}
	for _, e := range lf.errLogs {
		switch {
		case strings.Contains(e, "CONSENSUS FAILURE"):
			bad("consensus-failure-after-restart")
		case strings.Contains(e, "Error on ApplyBlock"):
			bad("applyblock-error-after-restart")
		}
	}
	// 2. the handshake reconciled the three heights
	if lf.post[0] != lf.post[1] || lf.post[1] != lf.post[2] || lf.postHash[0] != lf.postHash[1] {
		bad(fmt.Sprintf("handshake-left-skew store=%d state=%d app=%d", lf.post[0], lf.post[1], lf.post[2]))
	}
	// 3. same chain as the uncrashed run
	o, ro := lf.obs, ref.obs
	if o.StoreH != lastHeight || o.StateH != lastHeight || o.AppH != lastHeight {
		bad(fmt.Sprintf("final-heights store=%d state=%d app=%d", o.StoreH, o.StateH, o.AppH))
		return
	}
	if o.StateAppHash != ro.StateAppHash || o.AppAppHash != ro.AppAppHash || o.StateAppHash != o.AppAppHash {
		bad("final-app-hash-differs")
	}
	if strings.Join(o.AppHashes, ",") != strings.Join(ro.AppHashes, ",") {
		bad("app-hash-sequence-differs")
	}
	if strings.Join(o.Txs, ";") != strings.Join(ro.Txs, ";") {
		bad("tx-sets-differ")
	}
	// blocks committed before the crash are byte-identical afterwards
	preStore := lf.pre[0]
	for h := int64(0); h < preStore && h < int64(len(o.Blocks)); h++ {
		if o.Blocks[h] != ro.Blocks[h] || o.BlockIDs[h] != ro.BlockIDs[h] {
			bad(fmt.Sprintf("committed-block-changed h=%d", h+1))
		}
	}
	if !sc.clockJump {
		// logical clock frozen: the recovered node must converge to exactly the uncrashed node's persistent state
		if strings.Join(o.Blocks, ",") != strings.Join(ro.Blocks, ",") || strings.Join(o.BlockIDs, ",") != strings.Join(ro.BlockIDs, ",") {
			bad("blocks-differ-from-uncrashed-run")
		}
		if o.AppDump != ro.AppDump {
			if lf.appKV != nil && ref.appKV != nil {
				n := 0
				for k, v := range ref.appKV {
					if w, ok := lf.appKV[k]; (!ok || w != v) && n < 12 {
						n++
						fmt.Printf("  app-db diff key=%q\n    ref=%q\n    got=%q (present=%v)\n", k, trunc(v), trunc(w), ok)
					}
				}
				for k := range lf.appKV {
					if _, ok := ref.appKV[k]; !ok && n < 16 {
						n++
						fmt.Printf("  app-db extra key=%q\n", k)
					}
				}
			}
			bad("app-db-differs-from-uncrashed-run")
		}
		if o.StDump != ro.StDump {
			bad("state-db-differs-from-uncrashed-run")
		}
		if o.BsDump != ro.BsDump {
			bad("blockstore-db-differs-from-uncrashed-run")
		}
	}
	maxRound := 0
	for _, x := range o.Rounds {
		if x > maxRound {
			maxRound = x
		}
	}
	if maxRound > 0 {
		r.Outcome(fmt.Sprintf("%s recovered chain needed round %d", depth, maxRound))
	}
	// 4. the signer never signs two different things for the same height/round/step across the crash
	byHRS := map[string]sigRec{}
	pre := 0
	for _, s := range from.sigs {
		if p, dup := byHRS[s.hrs()]; dup && (!bytes.Equal(p.SignBytes, s.SignBytes) || !bytes.Equal(p.Sig, s.Sig)) {
			bad("double-sign " + s.Kind)
		}
		byHRS[s.hrs()] = s
		pre++
	}
	resigned := 0
	for _, s := range lf.rec.sigs {
		if !valKey.PubKey().VerifyBytes(s.SignBytes, s.Sig) {
			bad("invalid-signature-released " + s.hrs())
		}
		if p, ok := byHRS[s.hrs()]; ok {
			if !bytes.Equal(p.SignBytes, s.SignBytes) || !bytes.Equal(p.Sig, s.Sig) {
				detail["conflict"] = map[string]string{"hrs": s.hrs(), "before": hex.EncodeToString(p.SignBytes), "after": hex.EncodeToString(s.SignBytes)}
				bad("double-sign " + s.Kind)
			} else if p.Epoch < s.Epoch {
				resigned++
			}
		} else {
			byHRS[s.hrs()] = s
		}
	}
	if resigned > 0 {
		r.Outcome(depth + " same-HRS signature re-released identically")
	}
	if ok {
		r.Outcome(depth + " recovered to the uncrashed chain")
	}
	return ok
}

func trunc(s string) string {
	if len(s) > 300 {
		return s[:300] + "…"
	}
	return s
}

// printable replaces binary tx sets (gno.land) by their hashes.
func printable(txs []string) []string {
	out := make([]string, len(txs))
	for i, t := range txs {
		out[i] = t
		for _, c := range []byte(t) {
			if c < 32 || c > 126 {
				out[i] = fmt.Sprintf("%d bytes sha256:%s", len(t), sha([]byte(t)))
				break
			}
		}
	}
	return out
}
