// C33: a node recovers from a crash at any point of block processing (fault_enumeration).
//
// A single-validator node is assembled in-process from the REAL tm2 parts (ConsensusState running its real
// receiveRoutine, real file WAL, real privval with its state file, real block store / state store / Handshaker,
// the persistent kvstore ABCI application) on crashdb DBs and run to height 4 with transactions in every block.
// Every persistence unit of the run gets one global number: every physical DB write of the three DBs, every
// WAL operation (Write / WriteSync / WriteMetaSync / FlushAndSync, with the resulting on-disk length of the
// WAL file), every privval state-file save. For EVERY k the state a killed process leaves behind after unit k
// is rebuilt (DB prefixes through crashdb.Rebuild, WAL file truncated to its on-disk length at that point,
// privval file as it was), a fresh node is booted on it exactly like node.NewNode does (LoadState,
// Handshaker.Handshake, ConsensusState.Start with WAL catch-up replay) and must get back onto the uncrashed
// run's chain. See node.go for the assembly, checks.d/C33.json for the summary.
package main

import (
	"bytes"
	"encoding/hex"
	"flag"
	"fmt"
	"log/slog"
	"os"
	"os/signal"
	"path/filepath"
	"sort"
	"strings"
	"sync/atomic"
	"syscall"
	"time"

	"github.com/gnolang/gno/tm2/pkg/bft/abci/example/kvstore"
	abci "github.com/gnolang/gno/tm2/pkg/bft/abci/types"
	tmtime "github.com/gnolang/gno/tm2/pkg/bft/types/time"
	"verif/engine/crashdb"
	"verif/engine/vk"
)

var (
	r        *vk.Run
	workRoot = "/verif/.work/c33/run"
	verbose  = flag.Bool("v", false, "print the node logs of the reference run")
	onlyK    = flag.Int("k", -1, "debug: run only this crash point (verbose)")
	dumpLog  = flag.Bool("units", false, "print the persistence-unit log of the reference run")
	sigterms atomic.Int64
)

var abciInfo = abci.RequestInfo{}

var kvKind = &appKind{
	name: "kvstore",
	newApp: func(db *crashdb.DB, lg *slog.Logger) (*appInst, error) {
		a := kvstore.NewVerifPersistentKVStore(db)
		a.SetLogger(lg)
		return &appInst{app: a, height: func() (int64, []byte) {
			// a fresh instance sees what is on "disk"
			i := kvstore.NewVerifPersistentKVStore(db).Info(abciInfo)
			return i.LastBlockHeight, i.LastBlockAppHash
		}}, nil
	},
}

// clock: frozen (mode 0) or frozen per epoch (mode 1: the restarted node lives one hour later)
var clockEpoch atomic.Int64

func installClock() {
	f := func() time.Time { return genesisTime.Add(time.Duration(clockEpoch.Load()) * time.Hour) }
	tmtime.VerifClock.Store(&f)
}

// snapAt returns the persistent state after `k` units of life lf completed, with the WAL file at length walLen.
func snapAt(lf *life, k int, walLen int64) snap {
	rec := lf.rec
	if k == 0 {
		return rec.base
	}
	u := rec.units[k-1]
	s := snap{
		bs:  append(append([]crashdb.Unit{}, rec.base.bs...), rec.bs.Units[:u.Bs]...),
		st:  append(append([]crashdb.Unit{}, rec.base.st...), rec.st.Units[:u.St]...),
		app: append(append([]crashdb.Unit{}, rec.base.app...), rec.app.Units[:u.App]...),
		pv:  rec.pvStates[u.Pv],
	}
	if walLen >= 0 && lf.final.wal != nil && (walLen > 0 || u.WalDisk > 0 || walSeen(rec.units[:k])) {
		s.wal = append([]byte{}, lf.final.wal[:walLen]...)
	}
	return s
}

func walSeen(us []unitRec) bool {
	for _, u := range us {
		if u.Comp == "wal" {
			return true
		}
	}
	return false
}

type crashCase struct {
	k      int
	walLen int64
	variant string // disk | flushed | mid
}

func unitLine(i int, u unitRec) string {
	return fmt.Sprintf("%3d %-3s %-40s bs=%d st=%d app=%d wal=%d pv=%d storeH=%d", i+1, u.Comp, u.Desc, u.Bs, u.St, u.App, u.WalDisk, u.Pv, u.CsH)
}

func sameUnits(a, b []unitRec) (bool, string) {
	if len(a) != len(b) {
		return false, fmt.Sprintf("length %d vs %d", len(a), len(b))
	}
	for i := range a {
		x, y := a[i], b[i]
		if x.Comp != y.Comp || x.Desc != y.Desc || x.Bs != y.Bs || x.St != y.St || x.App != y.App || x.Pv != y.Pv {
			return false, fmt.Sprintf("unit %d: %q vs %q", i+1, unitLine(i, x), unitLine(i, y))
		}
	}
	return true, ""
}

// ---------------------------------------------------------------------------------------------

type scenario struct {
	name      string
	kind      *appKind
	clockJump bool // restarted node's clock is one hour later
}

func main() {
	r = vk.New("fault_enumeration")
	r.SetBudget(100*time.Second, 18*time.Minute)
	sigc := make(chan os.Signal, 16)
	signal.Notify(sigc, syscall.SIGTERM) // consensus calls osm.Kill() (SIGTERM to self) when ApplyBlock fails
	go func() {
		for range sigc {
			sigterms.Add(1)
		}
	}()
	installClock()
	workRoot = filepath.Join("/verif/.work/c33", "run-"+r.Tier+fmt.Sprint(os.Getpid()))
	os.RemoveAll(workRoot)
	defer os.RemoveAll(workRoot)

	scs := []scenario{{name: "kvstore/frozen-clock", kind: kvKind}}
	if r.Thorough() {
		scs = append(scs, scenario{name: "kvstore/clock+1h-after-restart", kind: kvKind, clockJump: true})
	}
	cov := map[string]any{}
	var layouts []any
	exhaustive := true
	for _, sc := range scs {
		l, ex := runScenario(sc)
		layouts = append(layouts, l)
		exhaustive = exhaustive && ex
	}
	cov["scenarios"] = layouts
	if n := sigterms.Load(); n > 0 {
		cov["sigterm_from_osm_kill"] = n
	}
	r.Assumptions = []string{
		"process-kill model: every completed persistence unit survives, nothing partial; a DB batch is atomic; the WAL file holds exactly the bytes the process had written to the OS (bufio content is lost)",
		"the WAL's wall-clock flush ticker is modelled explicitly: for every crash point both 'never fired' and 'fired right before the kill' (thorough: every message boundary in between)",
		"logical clock (tmtime.Now redirected): timeouts expire only when the receive loop is quiescent — the order a single-validator node sees in practice",
		"transactions not yet committed are offered again after the restart (clients/peers resubmit)",
		"privval save is one atomic unit (its inner crash points are C34's)",
	}
	os.RemoveAll(workRoot)
	r.Finish("crash point = (number k of completed persistence units of the uncrashed run, on-disk WAL length); distinct = distinct persistent states (DB prefix lengths, WAL length, privval file); non-trivial = every state except the empty one", exhaustive, cov)
}

func runScenario(sc scenario) (layout map[string]any, exhaustive bool) {
	clockEpoch.Store(0)
	// reference run A (lazy WAL flushing) and B (flush after every write); same unit sequence required
	refA := runLife(snap{}, nodeOpts{dir: filepath.Join(workRoot, sc.name, "refA"), kind: sc.kind, verbose: *verbose})
	refB := runLife(snap{}, nodeOpts{dir: filepath.Join(workRoot, sc.name, "refB"), kind: sc.kind, flushEvery: true})
	refC := runLife(snap{}, nodeOpts{dir: filepath.Join(workRoot, sc.name, "refC"), kind: sc.kind})
	for _, ref := range []*life{refA, refB, refC} {
		if ref.outcome != "done" || ref.obs == nil || ref.obs.StoreH != lastHeight {
			r.HarnessError("reference run did not reach height %d: outcome=%s errs=%v obs=%+v", lastHeight, ref.outcome, ref.errLogs, ref.obs)
		}
	}
	if *dumpLog {
		for i, u := range refA.rec.units {
			fmt.Println(unitLine(i, u), " flushedWal=", refB.rec.units[i].WalDisk)
		}
	}
	if ok, why := sameUnits(refA.rec.units, refB.rec.units); !ok {
		r.HarnessError("reference runs A/B differ (nondeterminism): %s", why)
	}
	if ok, why := sameUnits(refA.rec.units, refC.rec.units); !ok {
		r.HarnessError("reference runs A/C differ (nondeterminism): %s", why)
	}
	if !bytes.Equal(refA.final.wal, refB.final.wal) || !bytes.Equal(refA.final.wal, refC.final.wal) || fmt.Sprint(*refA.obs) != fmt.Sprint(*refC.obs) {
		r.HarnessError("reference runs differ in WAL bytes / final observation (nondeterminism)")
	}
	N := len(refA.rec.units)
	// WAL message boundaries = on-disk lengths of run B
	bset := map[int64]bool{0: true}
	for _, u := range refB.rec.units {
		bset[u.WalDisk] = true
	}
	var bounds []int64
	for b := range bset {
		bounds = append(bounds, b)
	}
	sort.Slice(bounds, func(i, j int) bool { return bounds[i] < bounds[j] })

	// crash cases
	var cases []crashCase
	for k := 0; k <= N; k++ {
		var lo, hi int64
		if k > 0 {
			lo, hi = refA.rec.units[k-1].WalDisk, refB.rec.units[k-1].WalDisk
		}
		cases = append(cases, crashCase{k, lo, "disk"})
		if hi != lo {
			cases = append(cases, crashCase{k, hi, "flushed"})
			if r.Thorough() {
				for _, b := range bounds {
					if b > lo && b < hi {
						cases = append(cases, crashCase{k, b, "mid"})
					}
				}
			}
		}
	}
	if *onlyK >= 0 {
		var cc []crashCase
		for _, c := range cases {
			if c.k == *onlyK {
				cc = append(cc, c)
			}
		}
		cases = cc
	}
	// dedup on the persistent state
	seen := map[string]bool{}
	var todo []crashCase
	for _, c := range cases {
		s := snapAt(refA, c.k, c.walLen)
		if key := s.key(); !seen[key] {
			seen[key] = true
			todo = append(todo, c)
		}
	}
	if sc.clockJump {
		clockEpoch.Store(1)
	}
	var ran atomic.Int64
	comp := map[string]int{}
	for _, u := range refA.rec.units {
		comp[u.Comp]++
	}
	r.ParFor(len(todo), func(i int) {
		c := todo[i]
		checkCrash(sc, refA, c)
		ran.Add(1)
	})
	clockEpoch.Store(0)
	exhaustive = int(ran.Load()) == len(todo) && *onlyK < 0
	layout = map[string]any{
		"scenario": sc.name, "units": N, "units_by_component": comp, "crash_points": len(cases),
		"distinct_persistent_states": len(todo), "recoveries_run": ran.Load(),
		"wal_bytes": len(refA.final.wal), "wal_message_boundaries": len(bounds),
		"reference": map[string]any{"blocks": refA.obs.BlockIDs, "app_hashes": refA.obs.AppHashes, "txs": refA.obs.Txs, "final_app_hash": refA.obs.StateAppHash, "signatures": len(refA.rec.sigs)},
	}
	if len(refA.errLogs) > 0 {
		layout["reference_error_logs"] = dedupStrings(refA.errLogs)
	}
	return layout, exhaustive
}

func dedupStrings(in []string) []string {
	m := map[string]bool{}
	var out []string
	for _, s := range in {
		if !m[s] {
			m[s] = true
			out = append(out, s)
		}
	}
	return out
}

// phase names a unit position for stable violation keys: the description of the last completed unit.
func phase(ref *life, k int) string {
	if k == 0 {
		return "start"
	}
	u := ref.rec.units[k-1]
	return u.Comp + ":" + u.Desc
}

func checkCrash(sc scenario, ref *life, c crashCase) {
	from := snapAt(ref, c.k, c.walLen)
	dir := filepath.Join(workRoot, sc.name, fmt.Sprintf("k%04d-%s-%d", c.k, c.variant, c.walLen))
	lf := runLife(from, nodeOpts{dir: dir, kind: sc.kind, epoch: 1, verbose: *onlyK >= 0})
	r.Eval()
	if c.k > 0 {
		r.Distinct(sc.name + from.key())
	}
	ph := phase(ref, c.k)
	detail := map[string]any{
		"scenario": sc.name, "crash_after_unit": c.k, "last_unit": ph, "wal_variant": c.variant, "wal_len": c.walLen,
		"outcome": lf.outcome, "heights_at_boot(store,state,app)": lf.pre, "after_handshake": lf.post,
		"error_logs": dedupStrings(lf.errLogs), "obs": lf.obs, "ref": ref.obs,
	}
	if c.k > 0 && c.k <= len(ref.rec.units) {
		lo := c.k - 6
		if lo < 0 {
			lo = 0
		}
		var ctx []string
		for i := lo; i < c.k; i++ {
			ctx = append(ctx, unitLine(i, ref.rec.units[i]))
		}
		detail["units_before_crash"] = ctx
	}
	bad := func(class string) {
		r.Violation(fmt.Sprintf("%s|%s|after=%s|wal=%s", sc.name, class, ph, c.variant), detail)
	}
	skew := fmt.Sprintf("boot-skew store-state=%+d state-app=%+d", lf.pre[0]-lf.pre[1], lf.pre[1]-lf.pre[2])
	r.Outcome(skew)
	if c.k%17 == 3 {
		r.Sample(map[string]any{"crash_after_unit": c.k, "last_unit": ph, "wal": c.variant, "boot_heights": lf.pre, "outcome": lf.outcome})
	}

	// 1. restart succeeds
	if lf.outcome != "done" {
		cl := lf.outcome
		if i := strings.Index(cl, "Block:"); i > 0 {
			cl = cl[:i]
		}
		if len(cl) > 90 {
			cl = cl[:90]
		}
		for _, e := range lf.errLogs {
			if strings.Contains(e, "CONSENSUS FAILURE") {
				cl += " (CONSENSUS FAILURE)"
				break
			}
		}
		bad("restart-failed:" + cl)
		r.Outcome("restart failed")
		return
	}
	for _, e := range lf.errLogs {
		switch {
		case strings.Contains(e, "CONSENSUS FAILURE"):
			bad("consensus-failure-after-restart")
		case strings.Contains(e, "Error on ApplyBlock"):
			bad("applyblock-error-after-restart")
		case strings.Contains(e, "Error on catchup replay"):
			// the WAL replay half of the recovery did not happen: the node went on WITHOUT its pre-crash messages
			msg := e
			if i := strings.Index(msg, "err="); i >= 0 {
				msg = msg[i+4:]
			}
			msg = strings.Map(func(c rune) rune {
				if c >= '0' && c <= '9' {
					return 'N'
				}
				return c
			}, msg)
			r.Outcome("catchup replay error: " + msg)
			if lf.post[1] == 0 {
				bad("wal-catchup-replay-failed-at-initial-height:" + msg)
			} else {
				bad("wal-catchup-replay-failed:" + msg)
			}
		}
	}
	// 2. the handshake reconciled the three heights
	if lf.post[0] != lf.post[1] || lf.post[1] != lf.post[2] || lf.postHash[0] != lf.postHash[1] {
		bad(fmt.Sprintf("handshake-left-skew store=%d state=%d app=%d", lf.post[0], lf.post[1], lf.post[2]))
	}
	// 3. same chain as the uncrashed run
	o, ro := lf.obs, ref.obs
	if o.StoreH != lastHeight || o.StateH != lastHeight || o.AppH != lastHeight {
		bad(fmt.Sprintf("final-heights store=%d state=%d app=%d", o.StoreH, o.StateH, o.AppH))
		return
	}
	if o.StateAppHash != ro.StateAppHash || o.AppAppHash != ro.AppAppHash || o.StateAppHash != o.AppAppHash {
		bad("final-app-hash-differs")
	}
	if strings.Join(o.AppHashes, ",") != strings.Join(ro.AppHashes, ",") {
		bad("app-hash-sequence-differs")
	}
	if strings.Join(o.Txs, ";") != strings.Join(ro.Txs, ";") {
		bad("tx-sets-differ")
	}
	// blocks committed before the crash are byte-identical afterwards
	preStore := lf.pre[0]
	for h := int64(0); h < preStore && h < int64(len(o.Blocks)); h++ {
		if o.Blocks[h] != ro.Blocks[h] || o.BlockIDs[h] != ro.BlockIDs[h] {
			bad(fmt.Sprintf("committed-block-changed h=%d", h+1))
		}
	}
	if !sc.clockJump {
		// logical clock frozen: the recovered node must converge to exactly the uncrashed node's persistent state
		if strings.Join(o.Blocks, ",") != strings.Join(ro.Blocks, ",") || strings.Join(o.BlockIDs, ",") != strings.Join(ro.BlockIDs, ",") {
			bad("blocks-differ-from-uncrashed-run")
		}
		if o.AppDump != ro.AppDump {
			bad("app-db-differs-from-uncrashed-run")
		}
		if o.StDump != ro.StDump {
			bad("state-db-differs-from-uncrashed-run")
		}
		if o.BsDump != ro.BsDump {
			bad("blockstore-db-differs-from-uncrashed-run")
		}
	}
	maxRound := 0
	for _, x := range o.Rounds {
		if x > maxRound {
			maxRound = x
		}
	}
	if maxRound > 0 {
		r.Outcome(fmt.Sprintf("recovered chain needed round %d", maxRound))
	}
	// 4. the signer never signs two different things for the same height/round/step across the crash
	byHRS := map[string]sigRec{}
	pre := 0
	for _, s := range ref.rec.sigs {
		if s.Unit <= c.k {
			byHRS[s.hrs()] = s
			pre++
		}
	}
	resigned := 0
	for _, s := range lf.rec.sigs {
		if !valKey.PubKey().VerifyBytes(s.SignBytes, s.Sig) {
			bad("invalid-signature-released " + s.hrs())
		}
		if p, ok := byHRS[s.hrs()]; ok {
			if !bytes.Equal(p.SignBytes, s.SignBytes) || !bytes.Equal(p.Sig, s.Sig) {
				detail["conflict"] = map[string]string{"hrs": s.hrs(), "before": hex.EncodeToString(p.SignBytes), "after": hex.EncodeToString(s.SignBytes)}
				bad("double-sign " + s.Kind)
			} else if p.Epoch == 0 {
				resigned++
			}
		} else {
			byHRS[s.hrs()] = s
		}
	}
	if resigned > 0 {
		r.Outcome("same-HRS signature re-released identically")
	}
	r.Outcome("recovered to the uncrashed chain")
	if r.Violations() == 0 {
		os.RemoveAll(dir)
	}
}
