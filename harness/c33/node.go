package main

// Assembly of a single-validator node from the REAL tm2 parts, its instrumentation (persistence-unit recorder)
// and the restart path (the same boot sequence as tm2/pkg/bft/node.NewNode + OnStart, minus p2p/rpc).

import (
	"bytes"
	"context"
	"crypto/sha256"
	"encoding/hex"
	"fmt"
	"io"
	"log/slog"
	"os"
	"path/filepath"
	"strings"
	"sync"
	"time"

	"github.com/gnolang/gno/tm2/pkg/amino"
	abci "github.com/gnolang/gno/tm2/pkg/bft/abci/types"
	"github.com/gnolang/gno/tm2/pkg/bft/appconn"
	cns "github.com/gnolang/gno/tm2/pkg/bft/consensus"
	cnscfg "github.com/gnolang/gno/tm2/pkg/bft/consensus/config"
	mempl "github.com/gnolang/gno/tm2/pkg/bft/mempool"
	"github.com/gnolang/gno/tm2/pkg/bft/mempool/mock"
	bftnode "github.com/gnolang/gno/tm2/pkg/bft/node"
	"github.com/gnolang/gno/tm2/pkg/bft/privval"
	"github.com/gnolang/gno/tm2/pkg/bft/privval/signer/local"
	"github.com/gnolang/gno/tm2/pkg/bft/proxy"
	sm "github.com/gnolang/gno/tm2/pkg/bft/state"
	"github.com/gnolang/gno/tm2/pkg/bft/store"
	"github.com/gnolang/gno/tm2/pkg/bft/types"
	walm "github.com/gnolang/gno/tm2/pkg/bft/wal"
	"github.com/gnolang/gno/tm2/pkg/crypto"
	"github.com/gnolang/gno/tm2/pkg/crypto/ed25519"
	"github.com/gnolang/gno/tm2/pkg/events"
	"verif/engine/crashdb"
)

const lastHeight = 4

var (
	genesisTime = time.Date(2024, 1, 2, 3, 4, 5, 0, time.UTC)
	valKey      = ed25519.GenPrivKeyFromSecret([]byte("verif-c33-validator"))
)

// ---------------------------------------------------------------------------------------------
// persistent state of a node = what a killed process leaves behind

type snap struct {
	bs, st, app []crashdb.Unit // physical write logs of the three DBs (the DB content is their replay)
	wal         []byte         // bytes of the WAL head file on disk (nil: file absent)
	pv          []byte         // privval sign-state file (nil: absent)

	// not persistent state, but history the oracle needs:
	walIdx []walMsg // consensus messages contained in wal (end offset, height)
	sigs   []sigRec // every signature that left the signer in the lives before
}

type walMsg struct {
	End int64
	H   int64
}

func (s snap) key() string {
	h := sha256.New()
	fmt.Fprintf(h, "%d/%d/%d/%d/", len(s.bs), len(s.st), len(s.app), len(s.wal))
	h.Write(s.pv)
	return hex.EncodeToString(h.Sum(nil)[:8])
}

// ---------------------------------------------------------------------------------------------
// recorder: one global numbering of persistence units over all components

type unitRec struct {
	Comp string // bs | st | app | wal | pv
	Desc string
	// component positions AFTER this unit completed
	Bs, St, App int
	WalDisk     int64 // length of the WAL head file on disk
	Pv          int   // index into pvStates
	CsH         int64 // block-store height when the unit completed (orientation only)
	MsgH        int64 // wal units: height of the consensus message written (0: none)
}

type sigRec struct {
	Kind      string // proposal | prevote | precommit
	H         int64
	R         int
	SignBytes []byte
	Sig       []byte
	Unit      int // number of units completed when the signature left the signer
	Epoch     int // 0 = before the crash, 1 = after the restart
}

func (s sigRec) hrs() string { return fmt.Sprintf("%d/%d/%s", s.H, s.R, s.Kind) }

type recorder struct {
	mu       sync.Mutex
	units    []unitRec
	base     snap // state the node booted from
	bs, st   *crashdb.DB
	app      *crashdb.DB
	walPath  string
	walDisk  int64
	pvPath   string
	pvStates [][]byte
	sigs     []sigRec
	storeH   func() int64
}

func (r *recorder) n() int { r.mu.Lock(); defer r.mu.Unlock(); return len(r.units) }

func (r *recorder) add(comp, desc string, dbs, dst, dapp int) {
	r.mu.Lock()
	defer r.mu.Unlock()
	u := unitRec{Comp: comp, Desc: desc, WalDisk: r.walDisk, Pv: len(r.pvStates) - 1}
	if r.bs != nil {
		u.Bs, u.St, u.App = r.bs.NumUnits()+dbs, r.st.NumUnits()+dst, r.app.NumUnits()+dapp
	}
	if r.storeH != nil {
		u.CsH = r.storeH()
	}
	r.units = append(r.units, u)
}

func keyDesc(u *crashdb.Unit) string {
	if u.Kind == "batch" {
		return fmt.Sprintf("batch[%d]", len(u.Ops))
	}
	k := u.Ops[0].K
	var b strings.Builder
	for i, c := range k {
		if i >= 28 {
			b.WriteString("..")
			break
		}
		if c >= 32 && c < 127 {
			b.WriteByte(c)
		} else {
			fmt.Fprintf(&b, "\\x%02x", c)
		}
	}
	if len(k) == 0 {
		b.WriteString("<nil-key flush>")
	}
	return u.Kind + " " + b.String()
}

func (r *recorder) hook(comp string) func(u *crashdb.Unit) {
	return func(u *crashdb.Unit) {
		switch comp {
		case "bs":
			r.add(comp, keyDesc(u), 1, 0, 0)
		case "st":
			r.add(comp, keyDesc(u), 0, 1, 0)
		default:
			r.add(comp, keyDesc(u), 0, 0, 1)
		}
	}
}

func (r *recorder) walUnit(desc string, msgH int64) {
	if fi, err := os.Stat(r.walPath); err == nil {
		r.mu.Lock()
		r.walDisk = fi.Size()
		r.mu.Unlock()
	}
	r.add("wal", desc, 0, 0, 0)
	r.mu.Lock()
	r.units[len(r.units)-1].MsgH = msgH
	r.mu.Unlock()
}

// pvAfter registers a unit if the sign-state file changed.
func (r *recorder) pvAfter(desc string) {
	b, err := os.ReadFile(r.pvPath)
	if err != nil {
		return
	}
	r.mu.Lock()
	changed := len(r.pvStates) == 0 || !bytes.Equal(r.pvStates[len(r.pvStates)-1], b)
	if changed {
		r.pvStates = append(r.pvStates, b)
	}
	r.mu.Unlock()
	if changed {
		r.add("pv", desc, 0, 0, 0)
	}
}

// ---------------------------------------------------------------------------------------------
// wrappers (thin: they forward to the real object, then number the unit)

type recWAL struct {
	next       walm.WAL
	rec        *recorder
	flushEvery bool // model "the periodic flush ticker fired right after every write"
}

func (w *recWAL) SetLogger(l *slog.Logger) { w.next.SetLogger(l) }
func (w *recWAL) Write(m walm.WALMessage) error {
	err := w.next.Write(m)
	if w.flushEvery {
		w.next.FlushAndSync()
	}
	w.rec.walUnit("write "+cns.VerifDescribe(m), cns.VerifMsgHeight(m))
	return err
}

func (w *recWAL) WriteSync(m walm.WALMessage) error {
	err := w.next.WriteSync(m)
	w.rec.walUnit("writesync "+cns.VerifDescribe(m), cns.VerifMsgHeight(m))
	return err
}

func (w *recWAL) WriteMetaSync(m walm.MetaMessage) error {
	err := w.next.WriteMetaSync(m)
	w.rec.walUnit(fmt.Sprintf("metasync #%d", m.Height), 0)
	return err
}

func (w *recWAL) FlushAndSync() error {
	err := w.next.FlushAndSync()
	w.rec.walUnit("flushsync", 0)
	return err
}

func (w *recWAL) SearchForHeight(h int64, o *walm.WALSearchOptions) (io.ReadCloser, bool, error) {
	return w.next.SearchForHeight(h, o)
}
func (w *recWAL) Start() error { return w.next.Start() }
func (w *recWAL) Stop() error  { return w.next.Stop() }
func (w *recWAL) Wait()        { w.next.Wait() }

// sigPV logs every signature that leaves the real privval (nil error) and numbers its state-file saves.
type sigPV struct {
	next  types.PrivValidator
	rec   *recorder
	epoch int
}

func (p *sigPV) PubKey() crypto.PubKey { return p.next.PubKey() }
func (p *sigPV) Close() error          { return p.next.Close() }

func (p *sigPV) SignVote(chainID string, v *types.Vote) error {
	kind := "prevote"
	if v.Type == types.PrecommitType {
		kind = "precommit"
	}
	err := p.next.SignVote(chainID, v)
	p.rec.pvAfter(fmt.Sprintf("pv save %d/%d/%s", v.Height, v.Round, kind))
	if err == nil {
		p.rec.sig(sigRec{Kind: kind, H: v.Height, R: v.Round, SignBytes: v.SignBytes(chainID), Sig: v.Signature, Epoch: p.epoch})
	}
	return err
}

func (p *sigPV) SignProposal(chainID string, pr *types.Proposal) error {
	err := p.next.SignProposal(chainID, pr)
	p.rec.pvAfter(fmt.Sprintf("pv save %d/%d/proposal", pr.Height, pr.Round))
	if err == nil {
		p.rec.sig(sigRec{Kind: "proposal", H: pr.Height, R: pr.Round, SignBytes: pr.SignBytes(chainID), Sig: pr.Signature, Epoch: p.epoch})
	}
	return err
}

func (r *recorder) sig(s sigRec) {
	r.mu.Lock()
	s.Unit = len(r.units)
	r.sigs = append(r.sigs, s)
	r.mu.Unlock()
}

// ---------------------------------------------------------------------------------------------
// harness mempool: the clients' transactions. A tx stays available until a committed block contains it
// (a restarted node gets the not-yet-committed ones again, as from clients/peers).

type hmempool struct {
	mock.Mempool
	mu        sync.Mutex
	plan      [][]string
	committed map[string]bool
}

func newMempool(bs *store.BlockStore, plan [][]string) *hmempool {
	m := &hmempool{committed: map[string]bool{}, plan: plan}
	for h := int64(1); h <= bs.Height(); h++ {
		if b := bs.LoadBlock(h); b != nil {
			for _, tx := range b.Txs {
				m.committed[string(tx)] = true
			}
		}
	}
	return m
}

func (m *hmempool) ReapMaxBytesMaxGas(_, _ int64) types.Txs {
	m.mu.Lock()
	defer m.mu.Unlock()
	for _, g := range m.plan {
		var out types.Txs
		for _, t := range g {
			if !m.committed[t] {
				out = append(out, types.Tx(t))
			}
		}
		if len(out) > 0 {
			return out
		}
	}
	return types.Txs{}
}

func (m *hmempool) Update(_ int64, txs types.Txs, _ []abci.ResponseDeliverTx, _ mempl.PreCheckFunc, _ int64) error {
	m.mu.Lock()
	defer m.mu.Unlock()
	for _, t := range txs {
		m.committed[string(t)] = true
	}
	return nil
}

// ---------------------------------------------------------------------------------------------
// logger capturing error-level records

type capHandler struct {
	mu      *sync.Mutex
	errs    *[]string
	verbose bool
	attrs   string
}

func (h capHandler) Enabled(_ context.Context, l slog.Level) bool {
	return h.verbose || l >= slog.LevelError
}

func (h capHandler) Handle(_ context.Context, r slog.Record) error {
	var b strings.Builder
	b.WriteString(r.Message)
	r.Attrs(func(a slog.Attr) bool {
		if a.Key == "stack" {
			return true
		}
		v := a.Value.String()
		if len(v) > 200 {
			v = v[:200] + "…"
		}
		fmt.Fprintf(&b, " %s=%s", a.Key, v)
		return true
	})
	if r.Level >= slog.LevelError {
		h.mu.Lock()
		*h.errs = append(*h.errs, b.String())
		h.mu.Unlock()
	}
	if h.verbose {
		fmt.Printf("  [%s]%s %s\n", r.Level, h.attrs, b.String())
	}
	return nil
}
func (h capHandler) WithAttrs(a []slog.Attr) slog.Handler { return h }
func (h capHandler) WithGroup(string) slog.Handler        { return h }

// ---------------------------------------------------------------------------------------------
// application factory (kvstore or gno.land)

type appInst struct {
	app    abci.Application
	height func() (int64, []byte) // Info(): last height + app hash
	close  func()
}

type appKind struct {
	name     string
	chainID  string
	newApp   func(db *crashdb.DB, lg *slog.Logger) (*appInst, error)
	appState func() any // genesis app state
	params   func() abci.ConsensusParams
	plan     func() ([][]string, error) // the clients' transactions, grouped per intended block
	dumpSkip func(k []byte) bool        // application DB keys left out of the content comparison
	// reopenCheap: after the node is gone, open a fresh application instance on the DB to read height/hash
	// from "disk" (otherwise the running instance's Info() is used; re-opening gno.land costs seconds)
	reopenCheap bool
}

// ---------------------------------------------------------------------------------------------
// one node life: boot from a snap, run until height lastHeight is committed (or failure), stop.

type nodeOpts struct {
	dir        string
	flushEvery bool
	epoch      int
	verbose    bool
	kind       *appKind
	keepKV     bool
}

type life struct {
	rec      *recorder
	outcome  string // done | stuck | exit | timeout | boot-panic:… | boot-error:…
	errLogs  []string
	pre      [3]int64 // store / state / app heights found at boot, before the handshake
	post     [3]int64 // after the handshake
	postHash [2]string
	final    *snap
	obs      *finalObs
	appKV    map[string]string // debug (-k): full content of the application DB
	liveApp  *[2]any           // height / hash reported by the running application instance at the end
}

type finalObs struct {
	StoreH, StateH, AppH int64
	StateAppHash         string
	AppAppHash           string
	Blocks               []string // hex(sha256(amino(block))) per height
	BlockIDs             []string
	AppHashes            []string // block.AppHash per height
	Txs                  []string
	SeenCommits          []string
	BsDump, StDump       string
	AppDump              string
	Rounds               []int
}

func writeKeyFile(path string) error {
	fk := &local.FileKey{PrivKey: valKey, PubKey: valKey.PubKey(), Address: valKey.PubKey().Address()}
	b, err := amino.MarshalJSONIndent(fk, "", "  ")
	if err != nil {
		return err
	}
	return os.WriteFile(path, b, 0o600)
}

func genesisDoc(kind *appKind) *types.GenesisDoc {
	g := &types.GenesisDoc{
		GenesisTime:     genesisTime,
		ChainID:         kind.chainID,
		ConsensusParams: types.DefaultConsensusParams(),
		Validators: []types.GenesisValidator{{
			Address: valKey.PubKey().Address(), PubKey: valKey.PubKey(), Power: 10, Name: "v0",
		}},
	}
	if kind.appState != nil {
		g.AppState = kind.appState()
	}
	if kind.params != nil {
		g.ConsensusParams = kind.params()
	}
	return g
}

func dumpDB(d *crashdb.DB, skip func(k []byte) bool) string {
	h := sha256.New()
	it, err := d.MemDB.Iterator(nil, nil)
	if err != nil {
		return "iter-error"
	}
	defer it.Close()
	n := 0
	for ; it.Valid(); it.Next() {
		k, v := it.Key(), it.Value()
		if skip != nil && skip(k) {
			continue
		}
		fmt.Fprintf(h, "%d:%d:", len(k), len(v))
		h.Write(k)
		h.Write(v)
		n++
	}
	return fmt.Sprintf("%d:%s", n, hex.EncodeToString(h.Sum(nil)[:10]))
}

func sha(b []byte) string { s := sha256.Sum256(b); return hex.EncodeToString(s[:10]) }

// runLife boots a node on the persistent state `from` and runs it. It never lets a panic escape.
func runLife(from snap, o nodeOpts) (lf *life) {
	lf = &life{}
	rec := &recorder{base: from}
	lf.rec = rec
	var (
		logMu   sync.Mutex
		cs      *cns.ConsensusState
		started bool
		wal     walm.WAL
		proxy_  appconn.AppConns
		inst    *appInst
	)
	lg := slog.New(capHandler{mu: &logMu, errs: &lf.errLogs, verbose: o.verbose})
	defer func() {
		if p := recover(); p != nil {
			s := fmt.Sprint(p)
			if i := strings.IndexByte(s, '\n'); i > 0 {
				s = s[:i]
			}
			lf.outcome = "boot-panic: " + s
		}
		// tear everything down (a killed process has no in-memory objects left)
		if cs != nil && started {
			cs.Stop()
			cs.Wait()
		} else if wal != nil {
			wal.Stop()
			wal.Wait()
		}
		if proxy_ != nil {
			proxy_.Stop()
		}
		if inst != nil && !o.kind.reopenCheap {
			func() {
				defer func() { recover() }()
				h, hash := inst.height()
				lf.liveApp = &[2]any{h, hex.EncodeToString(hash)}
			}()
		}
		if inst != nil && inst.close != nil {
			inst.close()
		}
		lf.collect(o)
	}()

	// files
	os.RemoveAll(o.dir)
	if err := os.MkdirAll(filepath.Join(o.dir, "wal"), 0o700); err != nil {
		panic(err)
	}
	keyPath := filepath.Join(o.dir, "priv_validator_key.json")
	rec.pvPath = filepath.Join(o.dir, "priv_validator_state.json")
	rec.walPath = filepath.Join(o.dir, "wal", "wal")
	if err := writeKeyFile(keyPath); err != nil {
		panic(err)
	}
	if from.pv != nil {
		os.WriteFile(rec.pvPath, from.pv, 0o600)
		rec.pvStates = [][]byte{from.pv}
	} else {
		rec.pvStates = [][]byte{nil}
	}
	if from.wal != nil {
		os.WriteFile(rec.walPath, from.wal, 0o600)
		rec.walDisk = int64(len(from.wal))
	}
	// DBs
	rec.bs = crashdb.Rebuild(from.bs, len(from.bs))
	rec.st = crashdb.Rebuild(from.st, len(from.st))
	rec.app = crashdb.Rebuild(from.app, len(from.app))
	rec.bs.Hook, rec.st.Hook, rec.app.Hook = rec.hook("bs"), rec.hook("st"), rec.hook("app")

	// --- boot sequence (cmd start → privval, then node.NewNode) ---
	signer, err := local.LoadOrMakeLocalSigner(keyPath)
	if err != nil {
		lf.outcome = "boot-error: signer: " + err.Error()
		return
	}
	pv, err := privval.NewPrivValidator(signer, rec.pvPath)
	if err != nil {
		lf.outcome = "boot-error: privval: " + err.Error()
		return
	}
	rec.pvAfter("pv state file created")

	blockStore := store.NewBlockStore(rec.bs)
	rec.storeH = blockStore.Height
	gdoc := genesisDoc(o.kind)
	state, genDoc, err := bftnode.LoadStateFromDBOrGenesisDocProvider(rec.st, func() (*types.GenesisDoc, error) { return gdoc, nil })
	if err != nil {
		lf.outcome = "boot-error: state: " + err.Error()
		return
	}
	inst, err = o.kind.newApp(rec.app, lg)
	if err != nil {
		lf.outcome = "boot-error: app: " + err.Error()
		return
	}
	proxy_ = appconn.NewAppConns(proxy.NewLocalClientCreator(inst.app))
	proxy_.SetLogger(lg)
	if err := proxy_.Start(); err != nil {
		lf.outcome = "boot-error: proxy: " + err.Error()
		return
	}
	ah, _ := inst.height()
	lf.pre = [3]int64{blockStore.Height(), state.LastBlockHeight, ah}

	evsw := events.NewEventSwitch()
	hs := cns.NewHandshaker(rec.st, state, blockStore, genDoc)
	hs.SetLogger(lg)
	hs.SetEventSwitch(evsw)
	if err := hs.Handshake(proxy_); err != nil {
		lf.outcome = "boot-error: handshake: " + err.Error()
		return
	}
	state = sm.LoadState(rec.st)
	ah, ahash := inst.height()
	lf.post = [3]int64{blockStore.Height(), state.LastBlockHeight, ah}
	lf.postHash = [2]string{hex.EncodeToString(state.AppHash), hex.EncodeToString(ahash)}

	plan, err := o.kind.plan()
	if err != nil {
		lf.outcome = "boot-error: tx plan: " + err.Error()
		return
	}
	mp := newMempool(blockStore, plan)
	blockExec := sm.NewBlockExecutor(rec.st, lg, proxy_.Consensus(), mp)
	cfg := cnscfg.DefaultConsensusConfig()
	cfg.RootDir = o.dir
	cs = cns.NewConsensusState(cfg, state.Copy(), blockExec, blockStore, mp, cns.NoOpEvidencePool{})
	cs.SetLogger(lg)
	cs.SetPrivValidator(&sigPV{next: pv, rec: rec, epoch: o.epoch})
	cs.SetEventSwitch(evsw)
	tk := cns.NewVerifTicker(cs, lastHeight)
	cs.SetTimeoutTicker(tk)

	bw, err := walm.NewWAL(rec.walPath, cns.VerifMaxMsgSize)
	if err != nil {
		lf.outcome = "boot-error: wal: " + err.Error()
		return
	}
	bw.SetFlushInterval(240 * time.Hour) // the periodic flush is modelled explicitly (flushEvery), never by wall time
	bw.SetLogger(lg)
	if err := bw.Start(); err != nil {
		lf.outcome = "boot-error: wal start: " + err.Error()
		return
	}
	wal = bw
	rw := &recWAL{next: bw, rec: rec, flushEvery: o.flushEvery}
	rec.walUnit("wal opened", 0)
	cs.VerifSetWAL(rw)

	if err := cs.Start(); err != nil {
		lf.outcome = "boot-error: cs.Start: " + err.Error()
		return
	}
	started = true
	exited := make(chan struct{})
	go func() { cs.Wait(); close(exited) }()
	tk.Release()
	select {
	case <-tk.Done:
		lf.outcome = "done"
	case <-tk.Stuck:
		lf.outcome = "stuck"
	case <-exited:
		lf.outcome = "exit"
	case <-time.After(45 * time.Minute): // hang protection only; never decides anything
		lf.outcome = "timeout"
	}
	return
}

// collect reads the persistent state and the observations after the node object graph has been dropped.
func (lf *life) collect(o nodeOpts) {
	rec := lf.rec
	if rec.bs == nil {
		return
	}
	rec.bs.Hook, rec.st.Hook, rec.app.Hook = nil, nil, nil
	f := &snap{
		bs:  append(append([]crashdb.Unit{}, rec.base.bs...), rec.bs.Units...),
		st:  append(append([]crashdb.Unit{}, rec.base.st...), rec.st.Units...),
		app: append(append([]crashdb.Unit{}, rec.base.app...), rec.app.Units...),
	}
	f.wal, _ = os.ReadFile(rec.walPath)
	f.pv, _ = os.ReadFile(rec.pvPath)
	lf.final = f

	ob := &finalObs{}
	func() {
		defer func() {
			if p := recover(); p != nil {
				ob.BsDump = fmt.Sprint("collect-panic: ", p)
			}
		}()
		bs := store.NewBlockStore(rec.bs)
		ob.StoreH = bs.Height()
		st := sm.LoadState(rec.st)
		ob.StateH = st.LastBlockHeight
		ob.StateAppHash = hex.EncodeToString(st.AppHash)
		if lf.liveApp != nil {
			ob.AppH, ob.AppAppHash = lf.liveApp[0].(int64), lf.liveApp[1].(string)
		} else if !o.kind.reopenCheap {
			ob.AppH = -1
		} else if inst, err := o.kind.newApp(rec.app, slog.New(slog.NewTextHandler(io.Discard, nil))); err == nil {
			h, hash := inst.height()
			ob.AppH, ob.AppAppHash = h, hex.EncodeToString(hash)
			if inst.close != nil {
				inst.close()
			}
		}
		for h := int64(1); h <= ob.StoreH; h++ {
			b := bs.LoadBlock(h)
			m := bs.LoadBlockMeta(h)
			if b == nil || m == nil {
				ob.Blocks = append(ob.Blocks, "missing")
				continue
			}
			ob.Blocks = append(ob.Blocks, sha(amino.MustMarshal(b)))
			ob.BlockIDs = append(ob.BlockIDs, hex.EncodeToString(m.BlockID.Hash))
			ob.AppHashes = append(ob.AppHashes, hex.EncodeToString(b.AppHash))
			var txs []string
			for _, t := range b.Txs {
				txs = append(txs, string(t))
			}
			ob.Txs = append(ob.Txs, strings.Join(txs, ","))
			if sc := bs.LoadSeenCommit(h); sc != nil {
				ob.SeenCommits = append(ob.SeenCommits, sha(amino.MustMarshal(sc)))
				r := -1
				for _, pc := range sc.Precommits {
					if pc != nil {
						r = pc.Round
					}
				}
				ob.Rounds = append(ob.Rounds, r)
			} else {
				ob.SeenCommits = append(ob.SeenCommits, "missing")
			}
		}
		ob.BsDump, ob.StDump, ob.AppDump = dumpDB(rec.bs, nil), dumpDB(rec.st, nil), dumpDB(rec.app, o.kind.dumpSkip)
		if o.keepKV {
			lf.appKV = map[string]string{}
			it, _ := rec.app.MemDB.Iterator(nil, nil)
			for ; it.Valid(); it.Next() {
				lf.appKV[string(it.Key())] = string(it.Value())
			}
			it.Close()
		}
	}()
	lf.obs = ob
}
