package main

// The real gno.land application as the node's ABCI app (thorough tier): same options as engine/chainx, but
// InitChain runs through the real Handshaker from the genesis document, and all blocks come from consensus.

import (
	"log/slog"
	"sync"

	"github.com/gnolang/gno/gno.land/pkg/gnoland"
	"github.com/gnolang/gno/tm2/pkg/amino"
	abci "github.com/gnolang/gno/tm2/pkg/bft/abci/types"
	"github.com/gnolang/gno/tm2/pkg/db/memdb"
	"github.com/gnolang/gno/tm2/pkg/sdk/bank"
	"github.com/gnolang/gno/tm2/pkg/std"
	"verif/engine/chainx"
	"verif/engine/crashdb"
)

const cntPath = "gno.land/r/verif/cnt"

const realmCnt = `package cnt

var (
	n     int
	items []*item
)

type item struct{ s string }

func Inc(cur realm) int {
	n++
	items = append(items, &item{s: "xxxxxxxxxxxxxxxx"})
	return n
}
`

var (
	gA, gB = chainx.NewKey("A"), chainx.NewKey("B")
	gKeys  = []chainx.Key{gA, gB}
)

func gnoSpec() chainx.Spec {
	s := chainx.Spec{Keys: gKeys, Fund: 1_000_000_000_000, GenesisTime: genesisTime}
	s.GenesisTxs = []std.Tx{{
		Msgs:       []std.Msg{chainx.AddPkg(gA.Addr, cntPath, map[string]string{"cnt.gno": realmCnt})},
		Fee:        std.NewFee(100_000_000, std.NewCoin("ugnot", 1_000_000)),
		Signatures: []std.Signature{{}},
	}}
	return s
}

var (
	gnoPlanOnce sync.Once
	gnoPlanTxs  [][]string
	gnoPlanErr  error
)

// gnoPlan signs the transactions of the four blocks on a throwaway chain (same genesis, so the account
// numbers and sequences are the ones the node will see).
func gnoPlan() ([][]string, error) {
	gnoPlanOnce.Do(func() {
		c, err := chainx.New(memdb.NewMemDB(), gnoSpec())
		if err != nil {
			gnoPlanErr = err
			return
		}
		call := func(k chainx.Key) std.Tx {
			return c.MakeTx(gKeys, []std.Msg{chainx.Call(k.Addr, nil, cntPath, "Inc")}, chainx.TxOpt{})
		}
		send := func() std.Tx {
			return c.MakeTx(gKeys, []std.Msg{bank.MsgSend{FromAddress: gA.Addr, ToAddress: gB.Addr, Amount: std.Coins{std.NewCoin("ugnot", 777)}}}, chainx.TxOpt{})
		}
		deploy := func() std.Tx {
			return c.MakeTx(gKeys, []std.Msg{chainx.AddPkg(gB.Addr, "gno.land/r/verif/late", map[string]string{"a.gno": "package late\n\nvar N int\n\nfunc Inc(cur realm) int { N++; return N }\n"})}, chainx.TxOpt{})
		}
		blocks := [][]func() std.Tx{
			{func() std.Tx { return call(gA) }},
			{send, func() std.Tx { return call(gB) }},
			{func() std.Tx { return call(gA) }},
			{deploy},
		}
		for _, blk := range blocks {
			c.BeginBlock()
			var g []string
			for _, mk := range blk {
				bz := amino.MustMarshal(mk())
				if res := c.DeliverRaw(bz); res.Error != nil {
					gnoPlanErr = res.Error
					return
				}
				g = append(g, string(bz))
			}
			c.EndBlockCommit()
			gnoPlanTxs = append(gnoPlanTxs, g)
		}
	})
	return gnoPlanTxs, gnoPlanErr
}

var gnoKind = &appKind{
	name:    "gnoland",
	chainID: chainx.ChainID,
	newApp: func(db *crashdb.DB, lg *slog.Logger) (*appInst, error) {
		app, err := gnoland.NewAppWithOptions(gnoSpec().AppOptions(db))
		if err != nil {
			return nil, err
		}
		return &appInst{app: app, height: func() (int64, []byte) {
			i := app.Info(abci.RequestInfo{})
			return i.LastBlockHeight, i.LastBlockAppHash
		}}, nil
	},
	appState: func() any { return gnoSpec().GenesisState() },
	params:   func() abci.ConsensusParams { return gnoSpec().ConsensusParams() },
	plan:     gnoPlan,
	// rootmulti's commitInfo records ("s/<version>") list the stores in map-iteration order: the bytes differ
	// from run to run although the commit hash (order-independent) is the same. Everything else is compared.
	dumpSkip: func(k []byte) bool { return len(k) > 2 && k[0] == 's' && k[1] == '/' && k[2] >= '0' && k[2] <= '9' },
}
