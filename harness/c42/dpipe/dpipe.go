// Package dpipe is a deterministic in-memory duplex pipe with a byte-exact recorder, shared by the C42 and
// C43 harnesses.
//
// A Wire is ONE direction. Writes never block (unbounded buffer) and are recorded byte-exactly, one record
// per Write call. What the reader sees is decided by the harness (the "man in the middle"), not by timing:
//
//   - PassLimit: only the first PassLimit written bytes are forwarded to the reader, everything after is
//     captured (recorded) but held back; with CloseAtLimit the reader sees EOF right after the limit.
//   - Xor: a byte mask applied in flight at an absolute stream offset (bit flips).
//   - ReadPat: the maximum number of bytes successive Read calls may return (cyclic; 0 = no limit), i.e.
//     the transport chunking is an enumerated input, not an accident of scheduling.
//   - Inject / CloseWrite: the harness forwards an arbitrary (tampered) byte string and then EOF.
//   - WriteFaults: selected Write calls accept only a prefix of their data and return an error (transport
//     fault after some bytes already left), an enumerated input as well.
//
// No clocks, no randomness. Blocking is only "reader waits for bytes or EOF".
package dpipe

import (
	"errors"
	"io"
	"net"
	"sync"
	"sync/atomic"
	"time"
)

type Wire struct {
	mu   sync.Mutex
	cond *sync.Cond

	buf     []byte // forwarded, not yet read
	wclosed bool   // EOF after buf is drained
	rclosed bool   // reader end closed: Read fails

	rec      [][]byte // one entry per Write call (copies)
	nWritten int      // bytes written by the writer so far
	nRead    int      // bytes handed to the reader so far
	nReads   int      // Read calls that returned data

	passLimit    int // -1 = forward everything
	closeAtLimit bool
	xor          map[int]byte
	readPat      []int
	patIdx       int
	cuts         map[int]bool // absolute read offsets no single Read may cross
	faults       map[int]int  // Write call number -> bytes accepted before the injected error
}

// ErrInjected is what a Write call selected by SetWriteFaults returns (think: write deadline exceeded).
var ErrInjected = errors.New("dpipe: injected transport write fault (i/o timeout)")

// SetWriteFaults makes selected Write calls fail: call number idx (0-based, counting every Write call on this
// wire, the recorder has one - possibly empty - record per call) accepts only the first f[idx] bytes (clamped to
// the length of the write), which are recorded and forwarded like any other bytes, and returns
// (accepted, ErrInjected): a transport error after part of the data already left. Later calls work normally.
func (w *Wire) SetWriteFaults(f map[int]int) {
	w.mu.Lock()
	w.faults = f
	w.mu.Unlock()
}

func NewWire() *Wire {
	w := &Wire{passLimit: -1}
	w.cond = sync.NewCond(&w.mu)
	return w
}

// SetPassLimit forwards only the first n written bytes (n<0: everything). Must be set before traffic.
func (w *Wire) SetPassLimit(n int, closeAtLimit bool) {
	w.mu.Lock()
	w.passLimit, w.closeAtLimit = n, closeAtLimit
	if closeAtLimit && n >= 0 && w.nWritten >= n {
		w.wclosed = true
	}
	w.cond.Broadcast()
	w.mu.Unlock()
}

// SetXor applies mask to the byte at absolute written offset off while forwarding it.
func (w *Wire) SetXor(off int, mask byte) {
	w.mu.Lock()
	if w.xor == nil {
		w.xor = map[int]byte{}
	}
	w.xor[off] = mask
	w.mu.Unlock()
}

// SetCuts sets absolute stream offsets (as seen by the reader) that no single Read crosses: the byte stream is
// handed over in segments that end exactly at every cut, whatever buffer sizes the reader uses.
func (w *Wire) SetCuts(offs []int) {
	w.mu.Lock()
	w.cuts = map[int]bool{}
	for _, o := range offs {
		w.cuts[o] = true
	}
	w.mu.Unlock()
}

// SetReadPattern sets the cyclic list of per-Read maxima (0 = unlimited).
func (w *Wire) SetReadPattern(p []int) {
	w.mu.Lock()
	w.readPat, w.patIdx = p, 0
	w.mu.Unlock()
}

func (w *Wire) Write(p []byte) (int, error) {
	w.mu.Lock()
	defer w.mu.Unlock()
	// A write into a wire whose reader has gone still "succeeds" (it is recorded, nobody will read it): whether
	// a peer's close is noticed by a writer is a matter of network timing in reality; here it must not be.
	var fault error
	if n, ok := w.faults[len(w.rec)]; ok {
		if n > len(p) {
			n = len(p)
		}
		if n < 0 {
			n = 0
		}
		p, fault = p[:n], ErrInjected
	}
	cp := append([]byte(nil), p...)
	w.rec = append(w.rec, cp)
	fwd := p
	if w.passLimit >= 0 {
		room := w.passLimit - w.nWritten
		if room < 0 {
			room = 0
		}
		if room < len(fwd) {
			fwd = fwd[:room]
		}
	}
	start := len(w.buf)
	w.buf = append(w.buf, fwd...)
	for off, m := range w.xor {
		if i := off - w.nWritten; i >= 0 && i < len(fwd) {
			w.buf[start+i] ^= m
		}
	}
	w.nWritten += len(p)
	if w.closeAtLimit && w.passLimit >= 0 && w.nWritten >= w.passLimit {
		w.wclosed = true
	}
	w.cond.Broadcast()
	return len(p), fault
}

func (w *Wire) Read(p []byte) (int, error) {
	w.mu.Lock()
	defer w.mu.Unlock()
	if len(p) == 0 {
		return 0, nil
	}
	for len(w.buf) == 0 && !w.wclosed && !w.rclosed {
		w.cond.Wait()
	}
	if w.rclosed {
		return 0, io.ErrClosedPipe
	}
	if len(w.buf) == 0 {
		return 0, io.EOF
	}
	n := len(p)
	if n > len(w.buf) {
		n = len(w.buf)
	}
	if len(w.readPat) > 0 {
		if m := w.readPat[w.patIdx%len(w.readPat)]; m > 0 && n > m {
			n = m
		}
		w.patIdx++
	}
	if len(w.cuts) > 0 {
		for k := 1; k < n; k++ {
			if w.cuts[w.nRead+k] {
				n = k
				break
			}
		}
	}
	copy(p, w.buf[:n])
	w.buf = w.buf[n:]
	w.nRead += n
	w.nReads++
	return n, nil
}

// Inject forwards b to the reader (harness acting as the network).
func (w *Wire) Inject(b []byte) {
	w.mu.Lock()
	w.buf = append(w.buf, b...)
	w.cond.Broadcast()
	w.mu.Unlock()
}

// CloseWrite makes the reader see EOF after the forwarded bytes.
func (w *Wire) CloseWrite() {
	w.mu.Lock()
	w.wclosed = true
	w.cond.Broadcast()
	w.mu.Unlock()
}

// CloseRead makes pending and future reads fail.
func (w *Wire) CloseRead() {
	w.mu.Lock()
	w.rclosed = true
	w.cond.Broadcast()
	w.mu.Unlock()
}

// WaitWritten blocks until at least n bytes have been written by the writer (or the reader end is closed, after
// which writes fail). It is a logical condition, not a timeout.
func (w *Wire) WaitWritten(n int) bool {
	w.mu.Lock()
	defer w.mu.Unlock()
	for w.nWritten < n && !w.rclosed {
		w.cond.Wait()
	}
	return w.nWritten >= n
}

// Recorded returns everything the writer wrote, concatenated (byte exact, before tampering).
func (w *Wire) Recorded() []byte {
	w.mu.Lock()
	defer w.mu.Unlock()
	var out []byte
	for _, r := range w.rec {
		out = append(out, r...)
	}
	return out
}

// Records returns the individual Write calls.
func (w *Wire) Records() [][]byte {
	w.mu.Lock()
	defer w.mu.Unlock()
	return append([][]byte(nil), w.rec...)
}

func (w *Wire) Written() int   { w.mu.Lock(); defer w.mu.Unlock(); return w.nWritten }
func (w *Wire) ReadCalls() int { w.mu.Lock(); defer w.mu.Unlock(); return w.nReads }

// End is one endpoint of a duplex pipe; it implements net.Conn.
type End struct {
	R, W   *Wire
	name   string
	closed atomic.Bool
}

// Closed reports whether Close was called on this end.
func (e *End) Closed() bool { return e.closed.Load() }

type addr string

func (a addr) Network() string { return "dpipe" }
func (a addr) String() string  { return string(a) }

func (e *End) Read(p []byte) (int, error)       { return e.R.Read(p) }
func (e *End) Write(p []byte) (int, error)      { return e.W.Write(p) }
func (e *End) LocalAddr() net.Addr              { return addr(e.name) }
func (e *End) RemoteAddr() net.Addr             { return addr("peer-of-" + e.name) }
func (e *End) SetDeadline(time.Time) error      { return nil }
func (e *End) SetReadDeadline(time.Time) error  { return nil }
func (e *End) SetWriteDeadline(time.Time) error { return nil }

// Close closes both directions as seen from this end: the peer reads EOF, own reads fail.
func (e *End) Close() error {
	e.closed.Store(true)
	e.W.CloseWrite()
	e.R.CloseRead()
	return nil
}

var _ net.Conn = (*End)(nil)

// New returns the two ends of a duplex pipe and the two wires (ab: a writes, b reads).
func New() (a, b *End, ab, ba *Wire) {
	ab, ba = NewWire(), NewWire()
	a = &End{R: ba, W: ab, name: "a"}
	b = &End{R: ab, W: ba, name: "b"}
	return
}
