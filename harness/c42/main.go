// C42: SecretConnection is authenticated and tamper-evident (confidentiality is OUT of scope).
//
// Everything runs the REAL conn.MakeSecretConnection / SecretConnection.Read / Write over a deterministic
// in-memory duplex pipe (verif/harness/c42/dpipe) whose recorder keeps every written byte; the harness is
// the network and decides byte-exactly what each side receives. Ephemeral keys come from a seeded
// crypto/rand.Reader replacement, so every session (keys, ciphertext) is reproducible.
//
// Parts (all bounded-exhaustive enumerations, nothing sampled):
//
//	R  round trip: data lengths x writer chunkings x reader buffer patterns x transport chunkings, both
//	   directions of a session; oracle: bytes read == bytes written, then io.EOF; wire = 1044-byte frames.
//	T  store-and-forward tampering of the recorded data frames: every byte x bits, truncation at every
//	   offset, every drop subset, every permutation, every replay insertion, reflection, cross-session
//	   frames; oracle: only a prefix of the plaintext made of frames BEFORE the first tampered frame is
//	   ever delivered, then an error, and nothing after the error.
//	H  handshake: bit flips / truncation in flight, low-order ephemeral points, identity-key and
//	   signature substitution by an attacker that speaks the protocol through an independent reference
//	   implementation (X25519 + HKDF + ChaCha20-Poly1305 written from the spec), full relay MITM,
//	   reflection, cross-session handshake replay; oracle: handshake fails, or (only for an equivalent
//	   encoding of the same point) completes with the TRUE peer key authenticated.
//	I  interop with the reference implementation: the real side's frames decrypt under the reference and
//	   vice versa (catches "symmetric" defects that a real<->real round trip cannot see).
//	F  fault sequences of the sender's transport: every schedule of up to 2 (thorough 3) write errors over every
//	   transport write of a short stream x bytes accepted before the error {0,1,600,1043,1044} x application
//	   behaviour {next message, retry the rest}; oracle: no two frames that put bytes on the wire are sealed under
//	   one nonce (decided with the reference implementation's keys, and key-free by c1^c2 == p1^p2), the real
//	   receiver delivers only chunks the sender sealed, exactly like the reference receiver.
package main

import (
	"bytes"
	"crypto/cipher"
	crand "crypto/rand"
	"crypto/sha256"
	"encoding/binary"
	"errors"
	"fmt"
	"io"
	"os"
	"runtime"
	"sort"
	"strconv"
	"strings"
	"sync"
	"sync/atomic"
	"time"

	"golang.org/x/crypto/chacha20poly1305"
	"golang.org/x/crypto/curve25519"
	"golang.org/x/crypto/hkdf"

	"github.com/gnolang/gno/tm2/pkg/amino"
	"github.com/gnolang/gno/tm2/pkg/crypto/ed25519"
	"github.com/gnolang/gno/tm2/pkg/p2p/conn"
	"verif/engine/vk"
	"verif/harness/c42/dpipe"
)

const (
	frameData = 1024
	frameSize = 4 + frameData + 16 // sealed frame on the wire
)

var r *vk.Run

var (
	privA = ed25519.GenPrivKeyFromSecret([]byte("c42-identity-A"))
	privB = ed25519.GenPrivKeyFromSecret([]byte("c42-identity-B"))
	privM = ed25519.GenPrivKeyFromSecret([]byte("c42-identity-Mallory"))
	pubA  = privA.PubKey().(ed25519.PubKeyEd25519)
	pubB  = privB.PubKey().(ed25519.PubKeyEd25519)
	pubM  = privM.PubKey().(ed25519.PubKeyEd25519)
)

// ---------------------------------------------------------------------------------------------------------
// deterministic replacement of crypto/rand.Reader (only consumer here: genEphKeys via box.GenerateKey,
// which MakeSecretConnection calls on the caller's goroutine). Each real side registers a label for its own
// goroutine before the handshake, so its ephemeral key is a pure function of the label - no global order.

type detRand struct {
	mu   sync.Mutex
	seed [32]byte
	ctr  uint64
	buf  []byte
}

func (d *detRand) Reset(label string) {
	d.mu.Lock()
	d.seed = sha256.Sum256([]byte("c42-rand/" + label))
	d.ctr, d.buf = 0, nil
	d.mu.Unlock()
}

func (d *detRand) Read(p []byte) (int, error) {
	d.mu.Lock()
	defer d.mu.Unlock()
	for i := range p {
		if len(d.buf) == 0 {
			var c [8]byte
			binary.LittleEndian.PutUint64(c[:], d.ctr)
			d.ctr++
			h := sha256.Sum256(append(d.seed[:], c[:]...))
			d.buf = h[:]
		}
		p[i] = d.buf[0]
		d.buf = d.buf[1:]
	}
	return len(p), nil
}

func goid() uint64 {
	var b [64]byte
	n := runtime.Stack(b[:], false)
	f := strings.Fields(string(b[:n])) // "goroutine 123 [running]:"
	id, _ := strconv.ParseUint(f[1], 10, 64)
	return id
}

type goRand struct{ m sync.Map } // goroutine id -> *detRand

func (g *goRand) Read(p []byte) (int, error) {
	d, ok := g.m.Load(goid())
	if !ok {
		fmt.Println("HARNESS-ERROR: crypto/rand.Reader used on an unseeded goroutine")
		os.Exit(2)
	}
	return d.(*detRand).Read(p)
}

var det = &goRand{}

// ephFromLabel reproduces what the real side generates for a label (first 32 bytes of the stream).
func ephFromLabel(label string) (priv, pub [32]byte) {
	d := &detRand{}
	d.Reset(label)
	d.Read(priv[:])
	p, err := curve25519.X25519(priv[:], curve25519.Basepoint)
	if err != nil {
		panic(err)
	}
	copy(pub[:], p)
	return
}

func stream(label string, n int) []byte {
	d := &detRand{}
	d.Reset("plain/" + label)
	b := make([]byte, n)
	d.Read(b)
	return b
}

// ---------------------------------------------------------------------------------------------------------
// live sessions between real SecretConnections

type side struct {
	sc   *conn.SecretConnection
	err  error
	done chan struct{}
}

func startReal(label string, c io.ReadWriteCloser, priv ed25519.PrivKeyEd25519, onFail func()) *side {
	s := &side{done: make(chan struct{})}
	go func() {
		defer close(s.done)
		d := &detRand{}
		d.Reset(label)
		id := goid()
		det.m.Store(id, d)
		defer det.m.Delete(id)
		if rec := vk.Catch(func() { s.sc, s.err = conn.MakeSecretConnection(c, priv) }); rec != nil {
			s.sc, s.err = nil, fmt.Errorf("PANIC: %v", rec)
		}
		if s.err != nil && onFail != nil {
			onFail() // what every real caller does: close the connection on a failed handshake
		}
	}()
	return s
}

type session struct {
	a, b   *dpipe.End
	ab, ba *dpipe.Wire
	A, B   *side
}

// live runs a handshake between real A and real B; setup may program the wires first.
func live(seed string, setup func(s *session)) *session {
	s := &session{}
	s.a, s.b, s.ab, s.ba = dpipe.New()
	if setup != nil {
		setup(s)
	}
	// a failing side closes ITS end only: the peer then reads everything already sent, then EOF (deterministic)
	s.A = startReal(seed+"/A", s.a, privA, func() { s.a.Close() })
	s.B = startReal(seed+"/B", s.b, privB, func() { s.b.Close() })
	<-s.A.done
	<-s.B.done
	return s
}

func isPanic(err error) bool { return err != nil && strings.HasPrefix(err.Error(), "PANIC") }

// readAll drains a SecretConnection with the cyclic buffer-size pattern until the first error, then keeps
// reading until the (finite) stream is exhausted to see what later Reads deliver AFTER an error.
func readAll(rd io.Reader, pat []int, limit int) (got []byte, firstErr error, after []byte, stalled bool) {
	buf := make([]byte, 8192)
	zero := 0
	for i := 0; ; i++ {
		sz := pat[i%len(pat)]
		n, err := rd.Read(buf[:sz])
		got = append(got, buf[:n]...)
		if err != nil {
			firstErr = err
			break
		}
		if n == 0 {
			zero++
			if zero > 3*len(pat)+16 { // a zero-size buffer may legitimately return 0; endless (0,nil) is a stall
				return got, nil, nil, true
			}
		} else {
			zero = 0
		}
		if len(got) > limit {
			return got, nil, nil, true
		}
	}
	for k := 0; k < 64; k++ { // the stream is finite (EOF follows), so this terminates
		n, err := rd.Read(buf[:4096])
		after = append(after, buf[:n]...)
		if n == 0 && (err == io.EOF || errors.Is(err, io.ErrUnexpectedEOF) || errors.Is(err, io.ErrClosedPipe)) {
			break
		}
	}
	return
}

func errClass(err error) string {
	switch {
	case err == nil:
		return "nil"
	case err == io.EOF:
		return "EOF"
	case errors.Is(err, io.ErrUnexpectedEOF):
		return "UnexpectedEOF"
	case errors.Is(err, io.ErrClosedPipe):
		return "closed"
	case strings.Contains(err.Error(), "failed to decrypt"):
		return "decrypt"
	case strings.Contains(err.Error(), "low order"):
		return "low-order-point"
	case strings.Contains(err.Error(), "challenge verification failed"):
		return "challenge-verification"
	case strings.HasPrefix(err.Error(), "PANIC"):
		return "PANIC"
	default:
		return "other"
	}
}

func short(err error) string {
	if err == nil {
		return "<nil>"
	}
	s := err.Error()
	if i := strings.IndexByte(s, '\n'); i >= 0 {
		s = s[:i]
	}
	if len(s) > 120 {
		s = s[:120]
	}
	return s
}

// ---------------------------------------------------------------------------------------------------------
// independent reference implementation of the protocol (the attacker's toolbox and the interop oracle)

type authSig struct {
	Key ed25519.PubKeyEd25519
	Sig []byte
}

type ref struct {
	rw        io.ReadWriter
	priv, pub [32]byte
	rem       [32]byte
	send      cipher.AEAD
	recv      cipher.AEAD
	sendN     uint64
	recvN     uint64
	challenge [32]byte
}

func newRef(rw io.ReadWriter, label string) *ref {
	c := &ref{rw: rw}
	c.priv, c.pub = ephFromLabel(label)
	return c
}

func (c *ref) sendEph(pub [32]byte) error {
	bz, err := amino.MarshalSized(&pub)
	if err != nil {
		return err
	}
	_, err = c.rw.Write(bz)
	return err
}

func (c *ref) recvEph() error {
	_, err := amino.UnmarshalSizedReader(c.rw, &c.rem, 1024*1024)
	return err
}

// derive: spec of the key schedule. secret = X25519(priv, rem); okm = HKDF-SHA256(secret, salt=nil,
// info="TENDERMINT_SECRET_CONNECTION_KEY_AND_CHALLENGE_GEN")[0:96]; the side with the lexically smaller
// ephemeral key receives with okm[0:32] and sends with okm[32:64]; challenge = okm[64:96].
func (c *ref) derive() error {
	secret, err := curve25519.X25519(c.priv[:], c.rem[:])
	if err != nil {
		return err
	}
	okm := make([]byte, 96)
	if _, err := io.ReadFull(hkdf.New(sha256.New, secret, nil, []byte("TENDERMINT_SECRET_CONNECTION_KEY_AND_CHALLENGE_GEN")), okm); err != nil {
		return err
	}
	k0, k1 := okm[0:32], okm[32:64]
	copy(c.challenge[:], okm[64:96])
	if bytes.Compare(c.pub[:], c.rem[:]) < 0 {
		c.recv, _ = chacha20poly1305.New(k0)
		c.send, _ = chacha20poly1305.New(k1)
	} else {
		c.send, _ = chacha20poly1305.New(k0)
		c.recv, _ = chacha20poly1305.New(k1)
	}
	return nil
}

func nonce(n uint64) []byte {
	var b [12]byte
	binary.LittleEndian.PutUint64(b[4:], n)
	return b[:]
}

func (c *ref) seal(payload []byte) []byte {
	frame := make([]byte, 4+frameData)
	binary.LittleEndian.PutUint32(frame, uint32(len(payload)))
	copy(frame[4:], payload)
	out := c.send.Seal(nil, nonce(c.sendN), frame, nil)
	c.sendN++
	return out
}

func (c *ref) open(sealed []byte) ([]byte, error) {
	frame, err := c.recv.Open(nil, nonce(c.recvN), sealed, nil)
	if err != nil {
		return nil, err
	}
	c.recvN++
	n := binary.LittleEndian.Uint32(frame)
	if n > frameData {
		return nil, errors.New("ref: bad length")
	}
	return frame[4 : 4+n], nil
}

func (c *ref) writeData(data []byte) error {
	for len(data) > 0 {
		n := len(data)
		if n > frameData {
			n = frameData
		}
		if _, err := c.rw.Write(c.seal(data[:n])); err != nil {
			return err
		}
		data = data[n:]
	}
	return nil
}

func (c *ref) readFrame() ([]byte, error) {
	sealed := make([]byte, frameSize)
	if _, err := io.ReadFull(c.rw, sealed); err != nil {
		return nil, err
	}
	return c.open(sealed)
}

func (c *ref) sendAuth(key ed25519.PubKeyEd25519, sig []byte) error {
	bz, err := amino.MarshalSized(authSig{key, sig})
	if err != nil {
		return err
	}
	return c.writeData(bz)
}

func (c *ref) recvAuth() (m authSig, err error) {
	pl, err := c.readFrame()
	if err != nil {
		return m, err
	}
	err = amino.UnmarshalSized(pl, &m)
	return
}

// ---------------------------------------------------------------------------------------------------------
// reporting helpers

func viol(key string, detail map[string]any) {
	r.Violation(key, detail)
}

var (
	nLive     atomic.Int64
	nFrames   atomic.Int64
	leakHits  atomic.Int64
	leakProbe atomic.Int64
)

// ---------------------------------------------------------------------------------------------------------
// Part R: round trip

type chunking struct {
	name   string
	pieces []int
}

func chunkingsFor(L int, thorough bool) []chunking {
	var out []chunking
	seen := map[string]bool{}
	add := func(name string, p []int) {
		k := fmt.Sprint(p)
		if len(p) > 40 {
			k = name
		}
		if !seen[k] {
			seen[k] = true
			out = append(out, chunking{name, p})
		}
	}
	add("whole", []int{L})
	for _, s := range []int{1, 7, 1023, 1024, 1025} {
		if s == 1 && L > 1025 && !thorough {
			continue // per-byte writing of long streams: thorough only; "bytewise@boundaries" below covers the edges
		}
		var p []int
		for rem := L; rem > 0; rem -= s {
			if rem < s {
				p = append(p, rem)
			} else {
				p = append(p, s)
			}
		}
		add(fmt.Sprintf("fixed%d", s), p)
	}
	{ // whole 1024-multiples written at once except the bytes within 4 of every boundary, written one by one
		var p []int
		run := 0
		for k := 0; k < L; k++ {
			d := k % frameData
			if d < 4 || d >= frameData-4 || k >= L-4 {
				if run > 0 {
					p = append(p, run)
					run = 0
				}
				p = append(p, 1)
			} else {
				run++
			}
		}
		if run > 0 {
			p = append(p, run)
		}
		if len(p) > 0 {
			add("bytewise@boundaries", p)
		}
	}
	cut := map[int]bool{}
	for _, base := range []int{0, 1024, 2048, 3072, 4096, L} {
		for d := -3; d <= 3; d++ {
			if k := base + d; k >= 0 && k <= L {
				cut[k] = true
			}
		}
	}
	if thorough && L <= 2049 {
		for k := 0; k <= L; k++ {
			cut[k] = true
		}
	}
	var cuts []int
	for k := range cut {
		cuts = append(cuts, k)
	}
	sort.Ints(cuts)
	for _, k := range cuts {
		add(fmt.Sprintf("split@%d", k), []int{k, L - k})
	}
	var c3 []int
	for _, k := range []int{0, 1, 1023, 1024, 1025, 2047, 2048, 2049, L - 1, L} {
		if k >= 0 && k <= L {
			c3 = append(c3, k)
		}
	}
	sort.Ints(c3)
	for i, k1 := range c3 {
		for _, k2 := range c3[i:] {
			add(fmt.Sprintf("split@%d,%d", k1, k2), []int{k1, k2 - k1, L - k2})
		}
	}
	return out
}

var (
	readerPats    = [][]int{{1}, {1023}, {1024}, {1025}, {4096}, {0, 3, 1024, 1}}
	transportPats = [][]int{{0}, {1}, {1043}, {1044}, {1045}, {7, 1, 300}}
)

func expectedFrames(pieces []int) int {
	n := 0
	for _, p := range pieces {
		n += (p + frameData - 1) / frameData
	}
	return n
}

// writeChunks performs the Write calls of a chunking; returns "" or a defect description.
func writeChunks(w io.Writer, data []byte, pieces []int) string {
	off := 0
	for i, p := range pieces {
		n, err := w.Write(data[off : off+p])
		if err != nil || n != p {
			return fmt.Sprintf("Write #%d of %d bytes returned (%d,%v)", i, p, n, err)
		}
		off += p
	}
	return ""
}

func checkWire(key string, rec [][]byte, hsRecords int, wantFrames int) {
	data := rec[hsRecords:]
	bad := len(data) != wantFrames
	for _, f := range data {
		if len(f) != frameSize {
			bad = true
		}
	}
	if bad {
		viol("R/wire-framing "+key, map[string]any{"records": len(data), "want_frames": wantFrames})
	}
	nFrames.Add(int64(len(data)))
}

// leak sanity observation (NOT the property): does a 16-byte plaintext window appear verbatim on the wire?
func leakProbeFn(plain, wire []byte) {
	if len(plain) < 16 {
		return
	}
	leakProbe.Add(1)
	for _, off := range []int{0, len(plain) / 2, len(plain) - 16} {
		if bytes.Contains(wire, plain[off:off+16]) {
			leakHits.Add(1)
			return
		}
	}
}

type rcase struct {
	L      int
	ch     chunking
	combo  int // index into the 36 (reader pattern, transport pattern) combinations, A->B; B->A uses 35-combo
	seedNo int
}

func partR() {
	lengths := []int{0, 1, 1023, 1024, 1025, 2047, 2048, 2049, 5000}
	if r.Thorough() {
		lengths = append(lengths, 3071, 3072, 3073, 4096, 10000)
	}
	var cases []rcase
	for _, L := range lengths {
		for ci, ch := range chunkingsFor(L, r.Thorough()) {
			for combo := 0; combo < 18; combo++ {
				cases = append(cases, rcase{L, ch, combo, (ci + combo) % 8})
			}
		}
	}
	r.Sample(map[string]any{"part": "R", "cases": len(cases), "example": map[string]any{"len": cases[len(cases)/2].L, "chunking": cases[len(cases)/2].ch.name}})
	r.ParFor(len(cases), func(i int) {
		c := cases[i]
		comboAB, comboBA := c.combo, 35-c.combo
		key := fmt.Sprintf("len=%d chunking=%s combo=%d", c.L, c.ch.name, c.combo)
		dataAB := stream(fmt.Sprintf("ab/%d", c.L), c.L)
		dataBA := stream(fmt.Sprintf("ba/%d", c.L), c.L)
		s := live(fmt.Sprintf("R%d", c.seedNo), func(s *session) {
			s.ab.SetReadPattern(transportPats[comboAB%6])
			s.ba.SetReadPattern(transportPats[comboBA%6])
		})
		nLive.Add(1)
		r.Eval()
		if s.A.err != nil || s.B.err != nil {
			viol("R/handshake-failed "+key, map[string]any{"errA": short(s.A.err), "errB": short(s.B.err)})
			return
		}
		if !s.A.sc.RemotePubKey().Equals(pubB) || !s.B.sc.RemotePubKey().Equals(pubA) {
			viol("R/wrong-remote-pubkey "+key, nil)
			return
		}
		if d := writeChunks(s.A.sc, dataAB, c.ch.pieces); d != "" {
			viol("R/write "+key, map[string]any{"dir": "A->B", "what": d})
			return
		}
		// B->A uses the reversed piece order so that both directions differ
		rev := append([]int(nil), c.ch.pieces...)
		for l, h := 0, len(rev)-1; l < h; l, h = l+1, h-1 {
			rev[l], rev[h] = rev[h], rev[l]
		}
		if d := writeChunks(s.B.sc, dataBA, rev); d != "" {
			viol("R/write "+key, map[string]any{"dir": "B->A", "what": d})
			return
		}
		s.ab.CloseWrite()
		s.ba.CloseWrite()
		checkWire(key+" A->B", s.ab.Records(), hsRecords, expectedFrames(c.ch.pieces))
		checkWire(key+" B->A", s.ba.Records(), hsRecords, expectedFrames(rev))
		leakProbeFn(dataAB, s.ab.Recorded())
		for _, d := range []struct {
			dir   string
			rd    io.Reader
			want  []byte
			combo int
		}{{"A->B", s.B.sc, dataAB, comboAB}, {"B->A", s.A.sc, dataBA, comboBA}} {
			got, err, after, stalled := readAll(d.rd, readerPats[d.combo/6], c.L+16)
			switch {
			case stalled:
				viol("R/reader-stalled "+key+" "+d.dir, map[string]any{"got": len(got)})
			case !bytes.Equal(got, d.want):
				viol("R/bytes-differ "+key+" "+d.dir, map[string]any{"got_len": len(got), "want_len": len(d.want), "first_diff": firstDiff(got, d.want)})
			case err != io.EOF || len(after) != 0:
				viol("R/end-of-stream "+key+" "+d.dir, map[string]any{"err": short(err), "after": len(after)})
			default:
				r.Outcome("R:roundtrip-exact")
			}
			r.Distinct(fmt.Sprintf("R|%d|%s|%s|%v|%v", c.L, c.ch.name, d.dir, readerPats[d.combo/6], transportPats[d.combo%6]))
		}
		s.a.Close()
		s.b.Close()
	})
}

func firstDiff(a, b []byte) int {
	for i := 0; i < len(a) && i < len(b); i++ {
		if a[i] != b[i] {
			return i
		}
	}
	if len(a) < len(b) {
		return len(a)
	}
	return len(b)
}

// ---------------------------------------------------------------------------------------------------------
// Part T: store-and-forward tampering of data frames

type material struct {
	frames   [][]byte // this session's A->B data frames (sealed)
	own      [][]byte // this session's B->A data frames (what B itself sent)
	hs0      []byte   // this session's A->B handshake frame 0 (sealed auth message)
	foreign  [][]byte // another session's A->B data frames
	plainLen []int
}

type tcase struct {
	name  string
	build func(m *material) []byte
}

func cat(fs ...[]byte) []byte {
	var o []byte
	for _, f := range fs {
		o = append(o, f...)
	}
	return o
}

func permutations(n int) [][]int {
	var out [][]int
	p := make([]int, n)
	for i := range p {
		p[i] = i
	}
	var rec func(k int)
	rec = func(k int) {
		if k == n {
			out = append(out, append([]int(nil), p...))
			return
		}
		for i := k; i < n; i++ {
			p[k], p[i] = p[i], p[k]
			rec(k + 1)
			p[k], p[i] = p[i], p[k]
		}
	}
	rec(0)
	return out
}

func tcases(nf int, bits []uint) []tcase {
	var cs []tcase
	for f := 0; f < nf; f++ {
		for b := 0; b < frameSize; b++ {
			for _, bit := range bits {
				f, b, bit := f, b, bit
				cs = append(cs, tcase{fmt.Sprintf("flip frame=%d byte=%d bit=%d", f, b, bit), func(m *material) []byte {
					o := cat(m.frames...)
					o[f*frameSize+b] ^= 1 << bit
					return o
				}})
			}
		}
	}
	for n := 0; n < nf*frameSize; n++ {
		n := n
		cs = append(cs, tcase{fmt.Sprintf("truncate at=%d", n), func(m *material) []byte { return cat(m.frames...)[:n] }})
	}
	for mask := 1; mask < 1<<nf; mask++ {
		mask := mask
		cs = append(cs, tcase{fmt.Sprintf("drop mask=%05b", mask), func(m *material) []byte {
			var o []byte
			for i, f := range m.frames {
				if mask&(1<<i) == 0 {
					o = append(o, f...)
				}
			}
			return o
		}})
	}
	for _, p := range permutations(nf) {
		id := true
		for i, v := range p {
			if i != v {
				id = false
			}
		}
		if id {
			continue
		}
		p := p
		cs = append(cs, tcase{fmt.Sprintf("permute %v", p), func(m *material) []byte {
			var o []byte
			for _, i := range p {
				o = append(o, m.frames[i]...)
			}
			return o
		}})
	}
	for i := 0; i < nf; i++ {
		for pos := 0; pos <= nf; pos++ {
			i, pos := i, pos
			cs = append(cs, tcase{fmt.Sprintf("replay frame=%d inserted-at=%d", i, pos), func(m *material) []byte {
				var fs [][]byte
				fs = append(fs, m.frames[:pos]...)
				fs = append(fs, m.frames[i])
				fs = append(fs, m.frames[pos:]...)
				return cat(fs...)
			}})
		}
	}
	for pos := 0; pos <= nf; pos++ {
		pos := pos
		cs = append(cs, tcase{fmt.Sprintf("replay handshake-frame inserted-at=%d", pos), func(m *material) []byte {
			return cat(cat(m.frames[:pos]...), m.hs0, cat(m.frames[pos:]...))
		}})
		if pos < nf {
			cs = append(cs, tcase{fmt.Sprintf("reflect own-frame at=%d", pos), func(m *material) []byte {
				fs := append([][]byte(nil), m.frames...)
				fs[pos] = m.own[pos]
				return cat(fs...)
			}})
			cs = append(cs, tcase{fmt.Sprintf("foreign-session frame at=%d", pos), func(m *material) []byte {
				fs := append([][]byte(nil), m.frames...)
				fs[pos] = m.foreign[pos]
				return cat(fs...)
			}})
		}
	}
	cs = append(cs, tcase{"reflect all own frames", func(m *material) []byte { return cat(m.own...) }})
	cs = append(cs, tcase{"foreign session entire stream", func(m *material) []byte { return cat(m.foreign...) }})
	cs = append(cs, tcase{"control: untampered", func(m *material) []byte { return cat(m.frames...) }})
	return cs
}

func splitFrames(b []byte) [][]byte {
	var fs [][]byte
	for len(b) >= frameSize {
		fs = append(fs, b[:frameSize])
		b = b[frameSize:]
	}
	return fs
}

var hsRecords int

var hsLen int // bytes each side writes during the handshake: sized ephemeral key + one sealed frame

func partT() {
	const L = 5000
	nf := (L + frameData - 1) / frameData
	bits := []uint{0, 7}
	if r.Thorough() {
		bits = []uint{0, 1, 2, 3, 4, 5, 6, 7}
	}
	plain := stream("T", L)
	plainBA := stream("T-ba", L)
	donor := live("T-donor", func(s *session) { s.ab.SetPassLimit(hsLen, false) })
	if donor.A.err != nil || donor.B.err != nil {
		viol("T/donor-handshake-failed", map[string]any{"errA": short(donor.A.err), "errB": short(donor.B.err)})
		return
	}
	donor.A.sc.Write(plain)
	foreign := splitFrames(donor.ab.Recorded()[hsLen:])
	donor.a.Close()
	donor.b.Close()

	cs := tcases(nf, bits)
	r.Sample(map[string]any{"part": "T", "cases": len(cs), "examples": []string{cs[0].name, cs[len(cs)/2].name, cs[len(cs)-4].name}})
	r.ParFor(len(cs), func(i int) {
		c := cs[i]
		s := live(fmt.Sprintf("T%d", i%8), func(s *session) {
			s.ab.SetPassLimit(hsLen, false) // forward the handshake, hold the data
			s.ab.SetReadPattern(transportPats[i%6])
		})
		nLive.Add(1)
		r.Eval()
		if s.A.err != nil || s.B.err != nil {
			viol("T/handshake-failed "+c.name, map[string]any{"errA": short(s.A.err), "errB": short(s.B.err)})
			return
		}
		if n, err := s.A.sc.Write(plain); n != L || err != nil {
			viol("T/write "+c.name, map[string]any{"n": n, "err": short(err)})
			return
		}
		s.B.sc.Write(plainBA)
		rec := s.ab.Recorded()
		m := &material{frames: splitFrames(rec[hsLen:]), own: splitFrames(s.ba.Recorded()[hsLen:]), hs0: rec[hsLen-frameSize : hsLen], foreign: foreign}
		if len(m.frames) != nf || len(m.own) != nf || len(m.foreign) != nf {
			viol("T/frame-count "+c.name, map[string]any{"frames": len(m.frames)})
			return
		}
		orig := cat(m.frames...)
		tam := c.build(m)
		s.ab.Inject(tam)
		s.ab.CloseWrite()

		// first frame position whose bytes are not the original frame (or are missing)
		f := 0
		for ; f < nf; f++ {
			lo, hi := f*frameSize, (f+1)*frameSize
			if hi > len(tam) || !bytes.Equal(tam[lo:hi], orig[lo:hi]) {
				break
			}
		}
		allowed := f * frameData
		if allowed > L {
			allowed = L
		}
		got, err, after, stalled := readAll(s.B.sc, readerPats[(i/6)%6], L+frameData)
		untouched := bytes.Equal(tam, orig)
		key := "T/" + c.name
		total := append(append([]byte(nil), got...), after...)
		switch {
		case stalled:
			viol(key+" :reader-stalled-or-overlong", map[string]any{"got": len(got)})
		case len(total) > len(plain) || !bytes.Equal(total, plain[:len(total)]):
			// a byte was delivered that was not written at that stream position (before or after an error)
			viol(key+" :delivered-bytes-never-written-at-that-position", map[string]any{"before_error": len(got), "after_error": len(after), "first_diff": firstDiff(total, plain), "err": short(err)})
		case len(got) > allowed:
			// data of/after the first tampered frame came out without any error being reported first
			viol(key+" :delivered-past-tampered-frame-without-error", map[string]any{"got_len": len(got), "allowed": allowed, "err": short(err)})
		case err == nil:
			viol(key+" :no-error", map[string]any{"got_len": len(got)})
		case untouched && (len(got) != L || err != io.EOF):
			viol(key+" :control-failed", map[string]any{"got_len": len(got), "err": short(err)})
		default:
			cl := "T:" + strings.Fields(c.name)[0] + "->" + errClass(err)
			if len(got) < allowed {
				cl += "(short-prefix)"
			}
			if len(after) > 0 {
				// observation, not a violation: the error is not sticky; a caller that keeps reading after an error
				// resynchronises on the next IN-SEQUENCE frame (the receive nonce only advances on success), so
				// the bytes are still exactly the written ones at their positions.
				cl += "(+in-sequence data on Reads after the error)"
			}
			r.Outcome(cl)
		}
		r.Distinct("T|" + c.name)
		s.a.Close()
		s.b.Close()
	})
}

// ---------------------------------------------------------------------------------------------------------
// Part H: handshake tampering and key substitution

// lowOrder: the 7 libsodium blacklist encodings + the remaining encodings of small-order points
// (high bit set / non-canonical), 12 in total.
func lowOrderPoints() [][32]byte {
	hexs := [][32]byte{}
	mk := func(first []byte, fill byte, last byte) [32]byte {
		var p [32]byte
		for i := range p {
			p[i] = fill
		}
		copy(p[:], first)
		p[31] = last
		return p
	}
	zero := mk(nil, 0, 0)
	one := mk([]byte{1}, 0, 0)
	e0 := [32]byte{0xe0, 0xeb, 0x7a, 0x7c, 0x3b, 0x41, 0xb8, 0xae, 0x16, 0x56, 0xe3, 0xfa, 0xf1, 0x9f, 0xc4, 0x6a, 0xda, 0x09, 0x8d, 0xeb, 0x9c, 0x32, 0xb1, 0xfd, 0x86, 0x62, 0x05, 0x16, 0x5f, 0x49, 0xb8, 0x00}
	f5 := [32]byte{0x5f, 0x9c, 0x95, 0xbc, 0xa3, 0x50, 0x8c, 0x24, 0xb1, 0xd0, 0xb1, 0x55, 0x9c, 0x83, 0xef, 0x5b, 0x04, 0x44, 0x5c, 0xc4, 0x58, 0x1c, 0x8e, 0x86, 0xd8, 0x22, 0x4e, 0xdd, 0xd0, 0x9f, 0x11, 0x57}
	pm1 := mk([]byte{0xec}, 0xff, 0x7f)
	p0 := mk([]byte{0xed}, 0xff, 0x7f)
	pp1 := mk([]byte{0xee}, 0xff, 0x7f)
	hexs = append(hexs, zero, one, e0, f5, pm1, p0, pp1)
	hb := func(p [32]byte) [32]byte { p[31] |= 0x80; return p }
	hexs = append(hexs, hb(zero), hb(one), hb(e0), hb(f5), hb(pm1))
	return hexs
}

// vsAttacker runs the real side (identity A) against an attacker script speaking through ref.
func vsAttacker(seed string, honest bool, script func(c *ref) error) (real *side, attackerErr error, e *dpipe.End) {
	a, m, _, _ := dpipe.New()
	real = startReal(seed+"/A", a, privA, func() { a.Close() })
	c := newRef(m, seed+"/M")
	attackerErr = script(c)
	if attackerErr != nil {
		m.Close()
	}
	if !honest {
		// The attacker has said everything it will say. If the real side still waits for bytes it gets EOF.
		m.W.CloseWrite()
	}
	<-real.done
	nLive.Add(1)
	return real, attackerErr, m
}

// honest prefix of an attacker script: exchange ephemeral keys and derive.
func (c *ref) hello() error {
	if err := c.sendEph(c.pub); err != nil {
		return err
	}
	if err := c.recvEph(); err != nil {
		return err
	}
	return c.derive()
}

func mustFail(key string, s *side, extra map[string]any) {
	r.Eval()
	r.Distinct(key)
	switch {
	case isPanic(s.err):
		viol(key+" :panic", map[string]any{"err": short(s.err)})
	case s.err == nil:
		pk := s.sc.RemotePubKey()
		d := map[string]any{"remote_pubkey_accepted": fmt.Sprintf("%X", pk[:])}
		for k, v := range extra {
			d[k] = v
		}
		viol(key+" :handshake-accepted", d)
	case strings.HasPrefix(key, "H/inflight-flip"):
		// whether B sees A's (undecryptable) auth frame or A's EOF first depends on A's own writer/reader task
		// order inside async.Parallel: the rejection is certain, its error text is not -> one coarse class
		r.Outcome("H:inflight-flip->rejected")
	default:
		r.Outcome("H:" + strings.Fields(key)[0][2:] + "->" + errClass(s.err))
	}
}

func flipBit(b []byte, i int) []byte {
	o := append([]byte(nil), b...)
	o[i/8] ^= 1 << uint(i%8)
	return o
}

func partH() {
	// a signature by B over the challenge of an earlier honest session (for replay of credentials)
	var oldSigB []byte
	{
		c := newRef(nil, "H-old/M")
		// B's signature over some other session's challenge: produce it with the reference key schedule
		c.rem = func() [32]byte { _, p := ephFromLabel("H-old/other"); return p }()
		c.derive()
		oldSigB, _ = privB.Sign(c.challenge[:])
	}

	type hcase struct {
		name string
		run  func(name string)
	}
	var hs []hcase

	// H-control: honest reference peer with identity M: accepted, authenticated as M, data interop both ways.
	for sd := 0; sd < 8; sd++ {
		sd := sd
		hs = append(hs, hcase{fmt.Sprintf("H/control-honest-reference-peer seed=%d", sd), func(name string) {
			var c *ref
			real, aerr, m := vsAttacker(fmt.Sprintf("Hc%d", sd), true, func(cc *ref) error {
				c = cc
				if err := c.hello(); err != nil {
					return err
				}
				sig, _ := privM.Sign(c.challenge[:])
				if err := c.sendAuth(pubM, sig); err != nil {
					return err
				}
				am, err := c.recvAuth()
				if err != nil {
					return err
				}
				if !am.Key.Equals(pubA) || !am.Key.VerifyBytes(c.challenge[:], am.Sig) {
					return errors.New("reference peer could not authenticate the real side")
				}
				return nil
			})
			r.Eval()
			r.Distinct(name)
			if real.err != nil || aerr != nil {
				viol(name+" :interop-handshake-failed", map[string]any{"real": short(real.err), "reference": short(aerr)})
				return
			}
			if !real.sc.RemotePubKey().Equals(pubM) {
				viol(name+" :wrong-remote-pubkey", nil)
				return
			}
			// real -> reference
			for _, L := range []int{1, 1024, 1025, 3000} {
				d := stream(fmt.Sprintf("I%d", L), L)
				real.sc.Write(d)
				var got []byte
				for len(got) < L {
					pl, err := c.readFrame()
					if err != nil {
						viol(name+" :reference-cannot-open-real-frame", map[string]any{"len": L, "err": short(err), "frame_no": c.recvN})
						return
					}
					got = append(got, pl...)
				}
				if !bytes.Equal(got, d) {
					viol(name+" :reference-decrypts-different-bytes", map[string]any{"len": L})
					return
				}
				// reference -> real
				d2 := stream(fmt.Sprintf("I2-%d", L), L)
				c.writeData(d2)
				got2 := make([]byte, L)
				if _, err := io.ReadFull(real.sc, got2); err != nil || !bytes.Equal(got2, d2) {
					viol(name+" :real-cannot-read-reference-frames", map[string]any{"len": L, "err": short(err)})
					return
				}
			}
			less := bytes.Compare(c.pub[:], c.rem[:]) < 0
			r.Outcome(fmt.Sprintf("I:interop-ok(reference-key-is-least=%v)", less))
			m.Close()
		}})
	}

	// H-loworder
	for i, p := range lowOrderPoints() {
		i, p := i, p
		hs = append(hs, hcase{fmt.Sprintf("H/low-order-ephemeral-point #%d", i), func(name string) {
			real, _, _ := vsAttacker("Hl", false, func(c *ref) error {
				if err := c.sendEph(p); err != nil {
					return err
				}
				return nil
			})
			mustFail(name, real, map[string]any{"point": fmt.Sprintf("%X", p[:])})
		}})
	}

	// H-identity / signature substitution by an attacker who completed the DH honestly
	type forge struct {
		name string
		mk   func(c *ref) (ed25519.PubKeyEd25519, []byte)
	}
	var forges []forge
	forges = append(forges,
		forge{"claims-B-signs-with-own-key", func(c *ref) (ed25519.PubKeyEd25519, []byte) {
			sig, _ := privM.Sign(c.challenge[:])
			return pubB, sig
		}},
		forge{"claims-B-replays-B-signature-of-other-session", func(c *ref) (ed25519.PubKeyEd25519, []byte) { return pubB, oldSigB }},
		forge{"own-key-signature-over-other-challenge", func(c *ref) (ed25519.PubKeyEd25519, []byte) {
			other := sha256.Sum256(c.challenge[:])
			sig, _ := privM.Sign(other[:])
			return pubM, sig
		}},
		forge{"own-key-empty-signature", func(c *ref) (ed25519.PubKeyEd25519, []byte) { return pubM, nil }},
		forge{"own-key-zero-signature", func(c *ref) (ed25519.PubKeyEd25519, []byte) { return pubM, make([]byte, 64) }},
		forge{"own-key-signature-truncated-63", func(c *ref) (ed25519.PubKeyEd25519, []byte) {
			sig, _ := privM.Sign(c.challenge[:])
			return pubM, sig[:63]
		}},
		forge{"own-key-signature-extended-65", func(c *ref) (ed25519.PubKeyEd25519, []byte) {
			sig, _ := privM.Sign(c.challenge[:])
			return pubM, append(sig, 0)
		}},
		forge{"zero-key", func(c *ref) (ed25519.PubKeyEd25519, []byte) {
			sig, _ := privM.Sign(c.challenge[:])
			return ed25519.PubKeyEd25519{}, sig
		}},
		forge{"claims-A-signs-with-own-key", func(c *ref) (ed25519.PubKeyEd25519, []byte) {
			sig, _ := privM.Sign(c.challenge[:])
			return pubA, sig
		}},
	)
	for bit := 0; bit < 64*8; bit++ {
		bit := bit
		forges = append(forges, forge{fmt.Sprintf("signature-bitflip bit=%d", bit), func(c *ref) (ed25519.PubKeyEd25519, []byte) {
			sig, _ := privM.Sign(c.challenge[:])
			return pubM, flipBit(sig, bit)
		}})
	}
	for bit := 0; bit < 32*8; bit++ {
		bit := bit
		forges = append(forges, forge{fmt.Sprintf("identity-key-bitflip bit=%d", bit), func(c *ref) (ed25519.PubKeyEd25519, []byte) {
			sig, _ := privM.Sign(c.challenge[:])
			var k ed25519.PubKeyEd25519
			copy(k[:], flipBit(pubM[:], bit))
			return k, sig
		}})
	}
	for fi, f := range forges {
		fi, f := fi, f
		hs = append(hs, hcase{"H/forged-auth " + f.name, func(name string) {
			real, _, _ := vsAttacker(fmt.Sprintf("Hf%d", fi%4), false, func(c *ref) error {
				if err := c.hello(); err != nil {
					return err
				}
				k, sig := f.mk(c)
				return c.sendAuth(k, sig)
			})
			mustFail(name, real, nil)
		}})
	}

	// H-relay: full man in the middle between real A and real B (separate DH with each, credentials relayed)
	for sd := 0; sd < 4; sd++ {
		sd := sd
		hs = append(hs, hcase{fmt.Sprintf("H/relay-mitm seed=%d", sd), func(name string) {
			a, ma, _, _ := dpipe.New()
			b, mb, _, _ := dpipe.New()
			seed := fmt.Sprintf("Hr%d", sd)
			A := startReal(seed+"/A", a, privA, func() { a.Close() })
			B := startReal(seed+"/B", b, privB, func() { b.Close() })
			ca, cb := newRef(ma, seed+"/M1"), newRef(mb, seed+"/M2")
			func() error {
				if err := ca.hello(); err != nil {
					return err
				}
				if err := cb.hello(); err != nil {
					return err
				}
				fromA, err := ca.recvAuth()
				if err != nil {
					return err
				}
				fromB, err := cb.recvAuth()
				if err != nil {
					return err
				}
				cb.sendAuth(fromA.Key, fromA.Sig)
				ca.sendAuth(fromB.Key, fromB.Sig)
				return nil
			}()
			ma.W.CloseWrite()
			mb.W.CloseWrite()
			<-A.done
			<-B.done
			nLive.Add(1)
			mustFail(name+" side=A", A, nil)
			mustFail(name+" side=B", B, nil)
		}})
	}

	// H-reflection: everything A writes comes back to A
	for sd := 0; sd < 4; sd++ {
		sd := sd
		hs = append(hs, hcase{fmt.Sprintf("H/reflection seed=%d", sd), func(name string) {
			w := dpipe.NewWire()
			loop := &dpipe.End{R: w, W: w}
			A := startReal(fmt.Sprintf("Hx%d/A", sd), loop, privA, func() { w.CloseWrite() })
			<-A.done
			nLive.Add(1)
			mustFail(name, A, nil)
		}})
	}

	// H-flip / H-truncate in flight between real A and real B (A->B handshake bytes), H-replay of a recorded handshake
	ephLen := hsLen - frameSize
	bits := []uint{0, 7}
	if r.Thorough() {
		bits = []uint{0, 1, 2, 3, 4, 5, 6, 7}
	}
	inflight := func(name string, seedNo int, off int, mask byte, limit int, equivalent bool) hcase {
		return hcase{name, func(name string) {
			s := live(fmt.Sprintf("Hi%d", seedNo), func(s *session) {
				if mask != 0 {
					s.ab.SetXor(off, mask)
				}
				s.ab.SetPassLimit(limit, true) // B sees exactly the (tampered) handshake bytes, then EOF
			})
			nLive.Add(1)
			if equivalent {
				// RFC 7748: the top bit of the u-coordinate is ignored, both encodings denote the SAME key.
				r.Eval()
				r.Distinct(name)
				switch {
				case isPanic(s.B.err):
					viol(name+" :panic", map[string]any{"err": short(s.B.err)})
				case s.B.err == nil && !s.B.sc.RemotePubKey().Equals(pubA):
					viol(name+" :accepted-with-wrong-identity", nil)
				case s.B.err == nil:
					r.Outcome("H:equivalent-encoding-of-same-point->accepted,true-peer-authenticated")
				default:
					r.Outcome("H:equivalent-encoding-of-same-point->" + errClass(s.B.err))
				}
				return
			}
			mustFail(name, s.B, nil)
		}}
	}
	n := 0
	for off := 0; off < ephLen; off++ {
		for bit := uint(0); bit < 8; bit++ {
			eq := off == ephLen-1 && bit == 7
			hs = append(hs, inflight(fmt.Sprintf("H/inflight-flip ephemeral-key-message byte=%d bit=%d", off, bit), n%8, off, 1<<bit, hsLen, eq))
			n++
		}
	}
	for off := ephLen; off < hsLen; off++ {
		for _, bit := range bits {
			hs = append(hs, inflight(fmt.Sprintf("H/inflight-flip auth-frame byte=%d bit=%d", off-ephLen, bit), n%8, off, 1<<bit, hsLen, false))
			n++
		}
	}
	for cut := 0; cut < hsLen; cut++ {
		hs = append(hs, inflight(fmt.Sprintf("H/inflight-truncate at=%d", cut), cut%8, 0, 0, cut, false))
	}
	// recorded handshake of another session replayed to a fresh B
	for sd := 0; sd < 4; sd++ {
		sd := sd
		hs = append(hs, hcase{fmt.Sprintf("H/replay-recorded-handshake seed=%d", sd), func(name string) {
			old := live(fmt.Sprintf("Hold%d", sd), nil)
			nLive.Add(1)
			if old.A.err != nil || old.B.err != nil {
				viol(name+" :donor-failed", nil)
				return
			}
			recorded := old.ab.Recorded()[:hsLen]
			old.a.Close()
			old.b.Close()
			_, b, mw, _ := dpipe.New()
			B := startReal(fmt.Sprintf("Hnew%d/B", sd), b, privB, func() { b.Close() })
			mw.Inject(recorded)
			mw.CloseWrite()
			<-B.done
			nLive.Add(1)
			mustFail(name, B, nil)
		}})
	}

	r.Sample(map[string]any{"part": "H", "cases": len(hs), "examples": []string{hs[0].name, hs[9].name, hs[30].name, hs[len(hs)-5].name}})
	r.ParFor(len(hs), func(i int) { hs[i].run(hs[i].name) })
}

// ---------------------------------------------------------------------------------------------------------
// Part F: fault sequences of the SENDER's transport (write errors after part of a frame already left)
//
// A short stream of messages is written through the real SecretConnection while the transport fails selected
// Write calls after accepting 0 / 1 / 600 / all-but-one / all bytes of the sealed frame (every schedule of up
// to 2 (thorough: 3) faults over every transport write of the stream); the application then either goes on
// with the next message or retries the unsent rest. Oracles:
//   - nonce discipline: the harness derives the session keys with the reference implementation (it knows the
//     seeded ephemeral keys) and determines for every record that put bytes on the wire the set of nonces under
//     which those bytes are a sealing of the plaintext written (complete frames: AEAD open; partial frames:
//     ciphertext prefix). There must be an assignment of pairwise DIFFERENT nonces to the records: two frames on
//     the wire under one key and nonce is keystream + Poly1305 key reuse (also checked key-free:
//     c1 XOR c2 == p1 XOR p2 on the known plaintext), and gives an attacker two interchangeable frames.
//   - the real receiver is fed exactly the bytes that left (then EOF): everything it ever delivers must be a
//     concatenation, in order, of chunks whose frames were transmitted completely - never altered data.
//   - io.Writer contract of Write: an error iff the transport failed, n = bytes of the chunks that went out.

type frec struct {
	msg, off int
	chunk    []byte // plaintext chunk sealed into this frame
	wire     []byte // the bytes of the sealed frame that reached the wire
	faulted  bool
}

type fcase struct {
	mode  string // "next-message" | "retry-rest"
	idx   []int  // data transport-write numbers (0-based after the handshake), ascending
	part  []int  // bytes accepted before the error
	label string
}

var (
	nFaultCases  atomic.Int64
	nFaultFrames atomic.Int64
)

func fcases(nWrites int, menu []int, maxFaults int) []fcase {
	var out []fcase
	var rec func(start int, idx, part []int)
	rec = func(start int, idx, part []int) {
		if len(idx) > 0 {
			for _, mode := range []string{"next-message", "retry-rest"} {
				var l []string
				for i := range idx {
					l = append(l, fmt.Sprintf("write#%d:%dB", idx[i], part[i]))
				}
				out = append(out, fcase{mode, append([]int(nil), idx...), append([]int(nil), part...), "app=" + mode + " faults=" + strings.Join(l, ",")})
			}
		}
		if len(idx) == maxFaults {
			return
		}
		// retries add transport writes: one more index per fault already scheduled
		for k := start; k < nWrites+len(idx); k++ {
			for _, p := range menu {
				rec(k+1, append(idx, k), append(part, p))
			}
		}
	}
	rec(0, nil, nil)
	return out
}

// distinctNonces finds an assignment of pairwise different nonces to the records (small backtracking).
func distinctNonces(cands [][]uint64, i int, used map[uint64]bool) bool {
	if i == len(cands) {
		return true
	}
	if cands[i] == nil {
		return distinctNonces(cands, i+1, used)
	}
	for _, n := range cands[i] {
		if !used[n] {
			used[n] = true
			if distinctNonces(cands, i+1, used) {
				return true
			}
			delete(used, n)
		}
	}
	return false
}

func partF() {
	// violations are collected and reported smallest fault schedule first, so that the reported keys are stable
	type fv struct {
		nf     int
		key    string
		detail map[string]any
	}
	var fmu sync.Mutex
	var fvs []fv
	fviol := func(nf int, key string, detail map[string]any) {
		fmu.Lock()
		fvs = append(fvs, fv{nf, key, detail})
		fmu.Unlock()
	}
	msgLens := []int{300, 2500, 1024, 10}
	menu := []int{0, 1, 600, frameSize - 1, frameSize}
	maxFaults := 2
	if r.Thorough() {
		maxFaults = 3
	}
	cs := fcases(expectedFrames(msgLens), menu, maxFaults)
	r.Sample(map[string]any{"part": "F", "cases": len(cs), "message_lengths": msgLens, "partial_write_menu": menu, "examples": []string{cs[0].label, cs[len(cs)/2].label, cs[len(cs)-1].label}})
	r.ParFor(len(cs), func(ci int) {
		c := cs[ci]
		key := "F/" + c.label
		seed := fmt.Sprintf("F%d", ci%8)
		sch := map[int]int{}
		abs := map[int]int{}
		for i, k := range c.idx {
			sch[k] = c.part[i]
			abs[hsRecords+k] = c.part[i]
		}
		s := live(seed, func(s *session) {
			s.ab.SetPassLimit(hsLen, false) // forward the handshake, hold the data: the harness delivers it below
			s.ab.SetWriteFaults(abs)
			s.ab.SetReadPattern(transportPats[ci%6])
		})
		nLive.Add(1)
		r.Eval()
		defer func() { s.a.Close(); s.b.Close() }()
		if s.A.err != nil || s.B.err != nil {
			fviol(len(c.idx), key+" :handshake-failed", map[string]any{"errA": short(s.A.err), "errB": short(s.B.err)})
			return
		}
		// ---- the sender application
		var recs []frec
		hit := 0
		for mi, L := range msgLens {
			data := stream(fmt.Sprintf("F/%d", mi), L)
			for off := 0; off < L; {
				before := len(s.ab.Records())
				n, err := s.A.sc.Write(data[off:])
				newRecs := s.ab.Records()[before:]
				okBytes, faultSeen := 0, false
				for j, w := range newRecs {
					lo := off + j*frameData
					hi := lo + frameData
					if hi > L {
						hi = L
					}
					if lo >= L {
						fviol(len(c.idx), key+" :more-transport-writes-than-chunks", map[string]any{"message": mi})
						return
					}
					_, f := sch[len(recs)]
					recs = append(recs, frec{mi, lo, data[lo:hi], w, f})
					if f {
						faultSeen = true
						hit++
					} else {
						okBytes += hi - lo
					}
				}
				if (err != nil) != faultSeen || n != okBytes || (err == nil && n != L-off) {
					fviol(len(c.idx), key+" :write-result", map[string]any{"message": mi, "offset": off, "n": n, "err": short(err), "transport_failed": faultSeen, "bytes_of_chunks_sent": okBytes})
					return
				}
				if err == nil || c.mode == "next-message" {
					break
				}
				off += n // retry the rest
			}
		}
		if hit < len(c.idx) {
			r.Outcome("F:schedule-not-fully-reached(same as a shorter schedule; not counted)")
			return
		}
		nFaultCases.Add(1)
		r.Distinct("F|" + c.label)
		// ---- nonce discipline, decided with the reference implementation's keys
		ref := newRef(nil, seed+"/B")
		_, ref.rem = ephFromLabel(seed + "/A")
		if err := ref.derive(); err != nil {
			r.HarnessError("part F: reference key schedule: %v", err)
		}
		aead := ref.recv
		all := s.ab.Recorded()
		if _, err := aead.Open(nil, nonce(0), all[hsLen-frameSize:hsLen], nil); err != nil {
			// the real side does not follow the specified key schedule / nonce sequence (interop defect, cf. part I): the
			// nonce oracle cannot be evaluated for this session
			fviol(0, "F/handshake-frame-of-the-real-side-does-not-open-under-the-reference-key-schedule session="+seed, nil)
			return
		}
		maxN := uint64(len(recs) + 3)
		cands := make([][]uint64, len(recs))
		plains := make([][]byte, len(recs))
		for i, fr := range recs {
			known := 4 + len(fr.chunk)
			P := make([]byte, 4+frameData)
			binary.LittleEndian.PutUint32(P, uint32(len(fr.chunk)))
			copy(P[4:], fr.chunk)
			plains[i] = P[:known]
			if len(fr.wire) == 0 {
				continue
			}
			nFaultFrames.Add(1)
			cands[i] = []uint64{}
			for n := uint64(0); n <= maxN; n++ {
				if len(fr.wire) == frameSize {
					if pt, err := aead.Open(nil, nonce(n), fr.wire, nil); err == nil {
						if !bytes.Equal(pt[:known], P[:known]) {
							fviol(len(c.idx), key+" :frame-on-the-wire-seals-other-plaintext-than-written", map[string]any{"record": i, "nonce": n})
							return
						}
						cands[i] = append(cands[i], n)
					}
				} else {
					o := len(fr.wire)
					if o > known {
						o = known
					}
					if ct := aead.Seal(nil, nonce(n), P, nil); bytes.Equal(ct[:o], fr.wire[:o]) {
						cands[i] = append(cands[i], n)
					}
				}
			}
			if len(cands[i]) == 0 {
				fviol(len(c.idx), key+" :bytes-on-the-wire-are-not-a-sealing-of-the-written-chunk-under-any-nonce", map[string]any{"record": i, "bytes_on_wire": len(fr.wire), "nonces_tried": maxN + 1})
				return
			}
		}
		passive := ""
		for i := range recs {
			for j := i + 1; j < len(recs); j++ {
				o := len(recs[i].wire)
				for _, x := range []int{len(recs[j].wire), len(plains[i]), len(plains[j])} {
					if x < o {
						o = x
					}
				}
				if o < 16 {
					continue
				}
				same := true
				for x := 0; x < o && same; x++ {
					same = recs[i].wire[x]^recs[j].wire[x] == plains[i][x]^plains[j][x]
				}
				if same && passive == "" {
					passive = fmt.Sprintf("records %d and %d: c1 XOR c2 == p1 XOR p2 on %d known bytes (no key needed)", i, j, o)
				}
			}
		}
		if !distinctNonces(cands, 0, map[uint64]bool{}) || passive != "" {
			var desc []string
			for i, fr := range recs {
				desc = append(desc, fmt.Sprintf("#%d msg%d+%d wire=%dB fault=%v nonces=%v", i, fr.msg, fr.off, len(fr.wire), fr.faulted, cands[i]))
			}
			fviol(len(c.idx), key+" :two-frames-on-the-wire-sealed-under-one-nonce", map[string]any{"records": desc, "passive_observer": passive})
			return
		}
		// ---- the real receiver gets exactly what left, then EOF
		var wire []byte
		total := 0
		for _, fr := range recs {
			wire = append(wire, fr.wire...)
			total += len(fr.chunk)
		}
		s.ab.Inject(wire)
		s.ab.CloseWrite()
		got, err, after, stalled := readAll(s.B.sc, readerPats[(ci/6)%6], total+frameData)
		if stalled {
			fviol(len(c.idx), key+" :reader-stalled-or-overlong", map[string]any{"got": len(got)})
			return
		}
		out := append(append([]byte(nil), got...), after...)
		// (a) everything delivered is, in order, chunks the sender sealed and put (at least partly) on the wire. A
		// partially transmitted frame counts: its missing tail bytes may coincide with the bytes that follow on the wire
		// (1043 of 1044 bytes sent: 1 in 256), in which case the wire does carry the complete authentic frame.
		pos, ndel := 0, 0
		for _, fr := range recs {
			if len(fr.wire) > 0 && pos < len(out) && bytes.HasPrefix(out[pos:], fr.chunk) {
				pos += len(fr.chunk)
				ndel++
			}
		}
		if pos != len(out) {
			fviol(len(c.idx), key+" :receiver-delivered-bytes-that-are-not-a-sequence-of-transmitted-chunks", map[string]any{"delivered": len(out), "explained": pos, "before_error": len(got), "err": short(err)})
			return
		}
		// (b) and it is exactly what the reference receiver (frames of 1044 bytes, opened under the receive counter, which
		// advances on success only) gets out of the same wire bytes
		var exp []byte
		recvN := uint64(1)
		for off := 0; off+frameSize <= len(wire); off += frameSize {
			if pt, err := aead.Open(nil, nonce(recvN), wire[off:off+frameSize], nil); err == nil {
				if n := binary.LittleEndian.Uint32(pt); n <= frameData {
					exp = append(exp, pt[4:4+n]...)
				}
				recvN++
			}
		}
		if !bytes.Equal(out, exp) {
			fviol(len(c.idx), key+" :receiver-output-differs-from-reference-receiver", map[string]any{"delivered": len(out), "reference": len(exp), "first_diff": firstDiff(out, exp), "err": short(err)})
			return
		}
		cl := "F:" + c.mode + " delivered="
		switch {
		case ndel == len(recs):
			cl += "every-sealed-chunk"
		case ndel == 0:
			cl += "nothing"
		default:
			cl += "some-chunks"
		}
		r.Outcome(cl + "->" + errClass(err))
	})
	sort.Slice(fvs, func(i, j int) bool {
		if fvs[i].nf != fvs[j].nf {
			return fvs[i].nf < fvs[j].nf
		}
		return fvs[i].key < fvs[j].key
	})
	for i, v := range fvs {
		if i >= 12 {
			break
		}
		viol(v.key, v.detail)
	}
	if len(fvs) > 0 {
		r.OutcomeN("F:violating-fault-schedules", int64(len(fvs)))
	}
}

// ---------------------------------------------------------------------------------------------------------

func calibrate() bool {
	s := live("calib", nil)
	if s.A.err != nil || s.B.err != nil {
		viol("calibration/handshake-failed", map[string]any{"errA": short(s.A.err), "errB": short(s.B.err)})
		return false
	}
	recs := s.ab.Records()
	if len(recs) < 2 || len(recs[len(recs)-1]) != frameSize {
		r.HarnessError("unexpected handshake wire shape: %d records", len(recs))
	}
	hsRecords = len(recs)
	hsLen = len(s.ab.Recorded())
	_, pub := ephFromLabel("calib/A")
	recs[0] = s.ab.Recorded()[:hsLen-frameSize]
	if !bytes.HasSuffix(recs[0], pub[:]) {
		r.HarnessError("seeded crypto/rand.Reader is not what generated the ephemeral key (harness determinism broken)")
	}
	r.Sample(map[string]any{"handshake_bytes_per_side": hsLen, "ephemeral_key_message_hex": fmt.Sprintf("%X", recs[0]), "frame_size": frameSize})
	s.a.Close()
	s.b.Close()
	return true
}

func main() {
	r = vk.New("exploration")
	r.SetBudget(90*time.Second, 12*time.Minute)
	crand.Reader = det
	if calibrate() {
		t0 := time.Now()
		partH()
		fmt.Printf("part H done %.1fs (sessions %d)\n", time.Since(t0).Seconds(), nLive.Load())
		partT()
		fmt.Printf("part T done %.1fs (sessions %d)\n", time.Since(t0).Seconds(), nLive.Load())
		partR()
		fmt.Printf("part R done %.1fs (sessions %d)\n", time.Since(t0).Seconds(), nLive.Load())
		partF()
		fmt.Printf("part F done %.1fs (sessions %d, fault schedules %d)\n", time.Since(t0).Seconds(), nLive.Load(), nFaultCases.Load())
	}
	r.Assumptions = []string{
		"confidentiality (ciphertext indistinguishability) is NOT decided by this check; only authentication, stream fidelity and tamper evidence are. Sanity observation only: plaintext windows found verbatim on the wire = " + fmt.Sprint(leakHits.Load()) + " of " + fmt.Sprint(leakProbe.Load()) + " probes",
		"ephemeral keys come from a seeded replacement of crypto/rand.Reader (8 key sets per part, both orderings of the two ephemeral keys occur); ed25519, X25519, HKDF, ChaCha20-Poly1305 primitives and amino are trusted",
		"in-flight flip of the top bit of the ephemeral X25519 key is an equivalent encoding of the same point (RFC 7748 masks it): accepted sessions are required to authenticate the true peer; recorded as its own outcome class",
		"bit flips use bits {0,7} of every byte in quick and all 8 bits in thorough; truncation, drop subsets, permutations and replay insertions are complete for a 5-frame stream",
		"part F: the transport fault is a Write call that accepts k bytes of the sealed frame and returns an error (k in {0,1,600,1043,1044}); up to 2 faults per stream in quick, 3 in thorough; the application either continues with the next message or retries the unsent rest; read-side faults and faults during the handshake are not enumerated",
	}
	r.Finish("R: lengths x writer chunkings x 36 (reader-buffer pattern, transport chunking) combos, both directions; T: every frame x byte x bit flip, every truncation offset, every drop subset, every permutation, every replay insertion, reflection and cross-session frames on a 5-frame stream; H: in-flight flips/truncations of the handshake, 12 low-order points, forged identity/signature (every bit), relay MITM, reflection, handshake replay; F: every schedule of <=2 transport write faults (5 partial lengths) over every transport write of a 4-message/6-frame stream x 2 application behaviours, nonce uniqueness of everything on the wire decided with the reference keys + reference receiver; distinct = distinct (part, case parameters)",
		true, map[string]any{"live_sessions": nLive.Load(), "data_frames_recorded": nFrames.Load(), "handshake_bytes_per_side": hsLen,
			"fault_schedules": nFaultCases.Load(), "fault_schedule_records_with_bytes_on_wire": nFaultFrames.Load()})
}
