package main

import (
	"crypto/sha256"
	"fmt"
	"sort"
	"strings"

	abci "github.com/gnolang/gno/tm2/pkg/bft/abci/types"
	dbm "github.com/gnolang/gno/tm2/pkg/db"
	storebptree "github.com/gnolang/gno/tm2/pkg/store/bptree"
	"github.com/gnolang/gno/tm2/pkg/store/rootmulti"
	"github.com/gnolang/gno/tm2/pkg/store/types"
	"verif/engine/vk"
)

// ---------------------------------------------------------------------------------------------
// The system under test: the production wiring of the main store —
// rootmulti.multiStore(db) -> CollectingDB -> PrefixDB("s/_/") -> store/bptree.Store -> bptree.MutableTree
// with the fast index on (FastStoreConstructor) or off (StoreConstructor).

var alphabet = []string{"a", "b", "c"}

type prune struct {
	name                  string
	keepRecent, keepEvery int64
}

var (
	pruneNothing    = prune{"keepall", 0, 1}
	pruneRecent1    = prune{"recent1", 1, 0}
	pruneEverything = prune{"everything", 0, 0}
)

type cms interface {
	types.CommitMultiStore
	Close() error
	LoadLatestVersion() error
	SetStoreOptions(types.StoreOptions)
	QueryImmutable(req abci.RequestQuery) (abci.ResponseQuery, error)
}

type sys struct {
	db  dbm.DB
	ms  cms
	key types.StoreKey
	on  bool
	pr  prune
}

func ctor(on bool) types.CommitStoreConstructor {
	if on {
		return storebptree.FastStoreConstructor
	}
	return storebptree.StoreConstructor
}

// openMS opens a multistore on db exactly like BaseApp does (options, mount with the root DB, LoadLatestVersion).
func openMS(db dbm.DB, on bool, pr prune) (s *sys, err error) {
	s = &sys{db: db, on: on, pr: pr, key: types.NewStoreKey("main")}
	if rec := vk.Catch(func() {
		ms := rootmulti.NewMultiStore(db)
		ms.SetStoreOptions(types.StoreOptions{PruningOptions: types.PruningOptions{KeepRecent: pr.keepRecent, KeepEvery: pr.keepEvery}})
		ms.MountStoreWithDB(s.key, ctor(on), db)
		err = ms.LoadLatestVersion()
		s.ms = ms
	}); rec != nil {
		return nil, fmt.Errorf("panic: %v", rec)
	}
	return s, err
}

func (s *sys) close() {
	if s != nil && s.ms != nil {
		s.ms.Close()
	}
}

func (s *sys) live() types.Store { return s.ms.GetCommitStore(s.key) }
func (s *sys) latest() int64      { return s.ms.LastCommitID().Version }

// ---------------------------------------------------------------------------------------------
// Boring reference model: committed[v] = key->value of version v; work = working set.

type model struct {
	committed map[int64]map[string]string
	work      map[string]string
	latest    int64
}

func newModel() *model { return &model{committed: map[int64]map[string]string{}, work: map[string]string{}} }

func cloneMap(m map[string]string) map[string]string {
	o := make(map[string]string, len(m))
	for k, v := range m {
		o[k] = v
	}
	return o
}

func (m *model) commit() {
	m.latest++
	m.committed[m.latest] = cloneMap(m.work)
}

// restart drops the uncommitted working set.
func (m *model) restart() {
	if m.latest == 0 {
		m.work = map[string]string{}
	} else {
		m.work = cloneMap(m.committed[m.latest])
	}
}

// truncated returns the model as a process that crashed back to version v would see it.
func (m *model) truncated(v int64) *model {
	o := newModel()
	for k, c := range m.committed {
		if k <= v {
			o.committed[k] = c
		}
	}
	o.latest = v
	o.restart()
	return o
}

// ---------------------------------------------------------------------------------------------
// Reads

const absent = "\x00<absent>"

// str is the compared observation of a value: the bytes themselves up to 64 bytes, length + SHA-256 beyond
// (part (d) reads values of up to 4 MiB several times per version and surface).
func str(b []byte) string {
	if b == nil {
		return absent
	}
	if len(b) > 64 {
		h := sha256.Sum256(b)
		return fmt.Sprintf("<len=%d sha256=%x>", len(b), h[:16])
	}
	return string(b)
}

// walk reads every key of a store through its iterator: an authoritative leaf walk that never consults the fast index.
func walk(st types.Store) (out map[string]string, err error) {
	out = map[string]string{}
	if rec := vk.Catch(func() {
		it := st.Iterator(nil, nil, nil)
		for ; it.Valid(); it.Next() {
			out[string(it.Key())] = str(it.Value())
		}
		if e := it.Error(); e != nil {
			err = e
		}
		it.Close()
	}); rec != nil {
		err = fmt.Errorf("panic: %v", rec)
	}
	return
}

func gets(st types.Store) (out map[string]string, err error) {
	out = map[string]string{}
	if rec := vk.Catch(func() {
		for _, k := range alphabet {
			out[k] = str(st.Get(nil, []byte(k)))
		}
	}); rec != nil {
		err = fmt.Errorf("panic: %v", rec)
	}
	return
}

// view builds the query-path immutable view of version v and returns Get and walk observations.
func (s *sys) view(v int64, withWalk bool) (get, wk map[string]string, err error) {
	var ims types.MultiStore
	var release func()
	if rec := vk.Catch(func() { ims, release, err = s.ms.MultiImmutableCacheWrapWithVersion(v) }); rec != nil {
		return nil, nil, fmt.Errorf("panic: %v", rec)
	}
	if err != nil {
		return nil, nil, err
	}
	defer release()
	st := ims.GetStore(s.key)
	if get, err = gets(st); err != nil || !withWalk {
		return
	}
	wk, err = walk(st)
	return
}

// storeQuery reads through the `.store` ABCI query surface (QueryImmutable -> bptree.Store.Query "/key" ->
// GetVersioned -> GetImmutable -> fast index).
func (s *sys) storeQuery(v int64, keys []string) (out map[string]string, err error) {
	out = map[string]string{}
	if rec := vk.Catch(func() {
		for _, k := range keys {
			res, e := s.ms.QueryImmutable(abci.RequestQuery{Path: "/main/key", Data: []byte(k), Height: v})
			if e != nil {
				err = e
				return
			}
			if res.Error != nil {
				err = fmt.Errorf("%v", res.Error)
				return
			}
			if res.Log != "" {
				err = fmt.Errorf("%s", res.Log)
				return
			}
			out[k] = str(res.Value)
		}
	}); rec != nil {
		err = fmt.Errorf("panic: %v", rec)
	}
	return
}

type mismatch struct {
	class  string // stable class
	detail string
}

func expect(m map[string]string, k string) string {
	if v, ok := m[k]; ok {
		return v
	}
	return absent
}

func fmtMap(m map[string]string) string {
	var ks []string
	for k := range m {
		ks = append(ks, k)
	}
	sort.Strings(ks)
	var sb strings.Builder
	for _, k := range ks {
		v := m[k]
		if v == absent {
			v = "-"
		}
		fmt.Fprintf(&sb, "%s=%s ", k, v)
	}
	return strings.TrimSpace(sb.String())
}

func firstLine(s string) string {
	if i := strings.IndexByte(s, '\n'); i >= 0 {
		return s[:i]
	}
	return s
}

// checkLive: reads on the live (consensus) store — served by the fast index when the session is clean — must equal
// the working-tree leaf walk and the model's working set.
func (s *sys) checkLive(m *model, out *[]mismatch, stats *stats) {
	get, err := gets(s.live())
	if err != nil {
		*out = append(*out, mismatch{"live-read-fails", firstLine(err.Error())})
		return
	}
	wk, err := walk(s.live())
	if err != nil {
		*out = append(*out, mismatch{"live-walk-fails", firstLine(err.Error())})
		return
	}
	for _, k := range alphabet {
		stats.reads++
		if get[k] != expect(wk, k) {
			*out = append(*out, mismatch{"stale-read:live", fmt.Sprintf("live Get(%s)=%s but the working-tree walk has %s", k, show(get[k]), show(expect(wk, k)))})
		}
		if expect(wk, k) != expect(m.work, k) {
			*out = append(*out, mismatch{"aux:tree-vs-model:live", fmt.Sprintf("working-tree walk %s=%s, model %s", k, show(expect(wk, k)), show(expect(m.work, k)))})
		}
	}
}

type stats struct {
	reads, views, versionsAbsent int64
}

// checkVersions: for every version 1..latest, every read surface of the query path (immutable view Get, `.store`
// query) must equal the authoritative tree: (1) the leaf walk of the same view, (2) the same DB opened with the
// fast index DISABLED, (3) the model. A version is "retained" iff the index-free store can open it; both sides must
// agree on that too.
func (s *sys) checkVersions(m *model, out *[]mismatch, stats *stats) {
	ref, err := openMS(s.db, false, s.pr)
	if err != nil {
		*out = append(*out, mismatch{"aux:reference-open-fails", firstLine(err.Error())})
		return
	}
	defer ref.close()
	if ref.latest() != s.latest() || s.latest() != m.latest {
		*out = append(*out, mismatch{"aux:latest-version", fmt.Sprintf("store %d, index-free reopen %d, model %d", s.latest(), ref.latest(), m.latest)})
		return
	}
	for v := int64(1); v <= m.latest; v++ {
		aget, _, aerr := ref.view(v, false)
		fget, fwalk, ferr := s.view(v, true)
		// every key at the latest version, one (rotating) key at older versions: each .store query builds a view of its own
		qkeys := alphabet
		if v != m.latest {
			qkeys = alphabet[v%3 : v%3+1]
		}
		qget, qerr := s.storeQuery(v, qkeys)
		stats.views++
		if aerr != nil {
			stats.versionsAbsent++
			if v == m.latest {
				*out = append(*out, mismatch{"aux:latest-not-loadable", firstLine(aerr.Error())})
			}
			if ferr == nil {
				*out = append(*out, mismatch{"view-of-pruned-version", fmt.Sprintf("v%d opens with the index on but not with it off (%s)", v, firstLine(aerr.Error()))})
			}
			continue
		}
		if ferr != nil {
			*out = append(*out, mismatch{"view-fails", fmt.Sprintf("v%d: %s", v, firstLine(ferr.Error()))})
			continue
		}
		if qerr != nil {
			*out = append(*out, mismatch{"store-query-fails", fmt.Sprintf("v%d: %s", v, firstLine(qerr.Error()))})
		}
		for _, k := range alphabet {
			stats.reads += 2
			want := aget[k]
			if fget[k] != want {
				*out = append(*out, mismatch{"stale-read:view", fmt.Sprintf("v%d Get(%s)=%s through the index, %s with the index off", v, k, show(fget[k]), show(want))})
			}
			if fget[k] != expect(fwalk, k) {
				*out = append(*out, mismatch{"stale-read:view-vs-walk", fmt.Sprintf("v%d Get(%s)=%s, leaf walk of the same view %s", v, k, show(fget[k]), show(expect(fwalk, k)))})
			}
			if _, asked := qget[k]; qerr == nil && asked && qget[k] != want {
				*out = append(*out, mismatch{"stale-read:store-query", fmt.Sprintf("v%d .store %s=%s, %s with the index off", v, k, show(qget[k]), show(want))})
			}
			if want != expect(m.committed[v], k) {
				*out = append(*out, mismatch{"aux:tree-vs-model", fmt.Sprintf("v%d %s=%s with the index off, model %s", v, k, show(want), show(expect(m.committed[v], k)))})
			}
		}
	}
}
