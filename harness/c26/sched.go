package main

import (
	"encoding/json"
	"fmt"
	"os"
	"os/exec"
	"sort"
	"strings"
	"time"

	bp "github.com/gnolang/gno/tm2/pkg/bptree"
	dbm "github.com/gnolang/gno/tm2/pkg/db"
	vs "github.com/gnolang/gno/tm2/pkg/verifsync"
	"verif/engine/crashdb"
	"verif/engine/vk"
)

// ---------------------------------------------------------------------------------------------
// (c) schedules.  The committer and the reader(s) are controlled threads of the verifsync scheduler.  Scheduling
// points: every operation on the live DB (reads via pointDB, physical writes via the crashdb hook, NewSnapshot) and
// every sync/atomic operation of rootmulti/store.go, bptree/{nodedb,immutable_tree,export}.go, store/cache/store.go
// (import-rewritten to the shims).  Reads of a frozen memdb snapshot are not points (they commute with everything).

type pointDB struct {
	*crashdb.DB
	w *world
}

func short(k []byte) string {
	s := string(k)
	if len(s) > 14 {
		s = s[:14]
	}
	return fmt.Sprintf("%q", s)
}

func (w *world) pt(op string) {
	if w.armed {
		vs.PointOp(op)
	}
}

func (p *pointDB) Get(k []byte) ([]byte, error)  { p.w.pt("db.Get " + short(k)); return p.DB.Get(k) }
func (p *pointDB) Has(k []byte) (bool, error)    { p.w.pt("db.Has " + short(k)); return p.DB.Has(k) }
func (p *pointDB) NewSnapshot() (dbm.Snapshot, error) {
	p.w.pt("db.NewSnapshot")
	return p.DB.NewSnapshot()
}
func (p *pointDB) Iterator(s, e []byte) (dbm.Iterator, error) {
	p.w.pt("db.Iterator " + short(s))
	return p.DB.Iterator(s, e)
}
func (p *pointDB) ReverseIterator(s, e []byte) (dbm.Iterator, error) {
	p.w.pt("db.ReverseIterator " + short(s))
	return p.DB.ReverseIterator(s, e)
}

type readObs struct {
	Thread string
	What   string // latest | v<N> | store-query
	H      int64
	Vals   map[string]string
	Err    string
}

type world struct {
	armed bool
	cdb   *crashdb.DB
	pdb   *pointDB
	s     *sys
	m     *model
	pr    prune
	obs   []readObs
	ooc   []string // results of out-of-contract Load() calls
	step  int
}

func newWorld(pr prune) *world {
	w := &world{cdb: crashdb.New(), m: newModel(), pr: pr}
	w.pdb = &pointDB{DB: w.cdb, w: w}
	w.cdb.Hook = func(u *crashdb.Unit) { w.pt(fmt.Sprintf("db.write %s(%d ops)", u.Kind, len(u.Ops))) }
	return w
}

func (w *world) open(on bool) {
	if w.s != nil {
		w.s.close()
	}
	s, err := openMS(w.pdb, on, w.pr)
	if err != nil {
		panic("setup: " + err.Error())
	}
	w.s = s
	w.m.restart()
}

func (w *world) set(k string) {
	w.step++
	v := fmt.Sprintf("%s.%d", k, w.step)
	w.s.live().Set(nil, []byte(k), []byte(v))
	w.m.work[k] = v
}
func (w *world) del(k string) {
	w.s.live().Delete(nil, []byte(k))
	delete(w.m.work, k)
}
func (w *world) commit() {
	w.s.ms.Commit()
	w.m.commit()
}

// queryLatest is what BaseApp does for a height-0 query: resolve the height from LastCommitID, build the immutable
// view at that height, read.
func (w *world) queryLatest(th string) {
	h := w.s.ms.LastCommitID().Version
	w.queryAt(th, "latest", h)
}

func (w *world) queryAt(th, what string, h int64) {
	o := readObs{Thread: th, What: what, H: h}
	if h == 0 {
		o.Err = "no committed height"
		w.obs = append(w.obs, o)
		return
	}
	get, _, err := w.s.view(h, true)
	if err != nil {
		o.Err = firstLine(err.Error())
	}
	o.Vals = get
	w.obs = append(w.obs, o)
}

func (w *world) storeQueryAt(th string, h int64) {
	o := readObs{Thread: th, What: "store-query", H: h}
	get, err := w.s.storeQuery(h, alphabet)
	if err != nil {
		o.Err = firstLine(err.Error())
	}
	o.Vals = get
	w.obs = append(w.obs, o)
}

// oocLoad is an OUT-OF-CONTRACT reader: a second MutableTree with the index on, on the LIVE DB, calling Load()
// (maintenance-capable) while the committer runs — the pre-fix query path of gno#6011.  It must either load cleanly
// or fail loud; it must never rewrite the index from its outdated root.
func (w *world) oocLoad() {
	var res string
	if rec := vk.Catch(func() {
		t := bp.NewMutableTreeWithDB(dbm.NewPrefixDB(w.pdb, []byte("s/_/")), 100, bp.NewNopLogger(), bp.FastIndexOption(true))
		v, err := t.Load()
		if err != nil {
			res = fmt.Sprintf("v%d err:%s", v, firstLine(err.Error()))
			if len(res) > 60 {
				res = res[:60]
			}
		} else {
			res = fmt.Sprintf("v%d ok", v)
		}
	}); rec != nil {
		res = "panic: " + firstLine(fmt.Sprint(rec))
	}
	w.ooc = append(w.ooc, res)
}

type scenario struct {
	name    string
	threads int
	pr      prune
	// setup runs unarmed (no branching); spawn starts the controlled threads
	setup func(w *world)
	spawn func(w *world, spawn func(name string, f func()))
	// prunedOK: a view of an old height may legitimately fail (pruned under the reader)
	prunedOK bool
}

func prefillOn(w *world) {
	w.open(true)
	for _, k := range alphabet {
		w.set(k)
	}
	w.commit()
}

func committer(w *world) func() {
	return func() { w.set("a"); w.set("b"); w.commit(); w.set("a"); w.commit() }
}

var scenarios = []scenario{
	{name: "commit|query-latest", threads: 2, pr: pruneNothing, setup: prefillOn,
		spawn: func(w *world, spawn func(string, func())) {
			spawn("C", committer(w))
			spawn("R", func() { w.queryLatest("R") })
		}},
	{name: "commit|query-latest,old,store", threads: 2, pr: pruneNothing, setup: prefillOn,
		spawn: func(w *world, spawn func(string, func())) {
			spawn("C", committer(w))
			spawn("R", func() {
				w.queryLatest("R")
				w.queryAt("R", "v1", 1)
				w.storeQueryAt("R", w.s.ms.LastCommitID().Version)
			})
		}},
	{name: "commit|out-of-contract-Load", threads: 2, pr: pruneNothing, setup: prefillOn,
		spawn: func(w *world, spawn func(string, func())) {
			spawn("C", committer(w))
			spawn("L", func() { w.oocLoad() })
		}},
	{name: "toggle-window:commit|query-latest", threads: 2, pr: pruneNothing,
		setup: func(w *world) {
			prefillOn(w)  // v1 with the index on
			w.open(false) // v2 with the index off: entry of a goes stale, stamp stays 1
			w.set("a")
			w.commit()
			w.open(true) // rebuild sits in the collector; the query snapshot still has stamp 1
		},
		spawn: func(w *world, spawn func(string, func())) {
			spawn("C", func() { w.set("b"); w.commit(); w.del("c"); w.commit() })
			spawn("R", func() { w.queryLatest("R"); w.queryLatest("R") })
		}},
	{name: "prune:commit|query-latest", threads: 2, pr: pruneEverything, setup: prefillOn, prunedOK: true,
		spawn: func(w *world, spawn func(string, func())) {
			spawn("C", committer(w))
			spawn("R", func() { w.queryLatest("R"); w.queryLatest("R") })
		}},
	{name: "commit|query-latest|out-of-contract-Load", threads: 3, pr: pruneNothing, setup: prefillOn,
		spawn: func(w *world, spawn func(string, func())) {
			spawn("C", committer(w))
			spawn("R", func() { w.queryLatest("R") })
			spawn("L", func() { w.oocLoad() })
		}},
}

// check evaluates one finished execution. Returns (class, detail) of the first violation, and the observation vector.
func (w *world) check(sc *scenario, x *vs.Exec) (class, detail, obsKey string) {
	w.armed = false
	var ob []string
	for _, o := range w.obs {
		if o.Err != "" {
			ob = append(ob, fmt.Sprintf("%s.%s@%d:ERR", o.Thread, o.What, o.H))
		} else {
			ob = append(ob, fmt.Sprintf("%s.%s@%d:%s", o.Thread, o.What, o.H, fmtMap(o.Vals)))
		}
	}
	for _, l := range w.ooc {
		ob = append(ob, "L:"+l)
	}
	obsKey = strings.Join(ob, " | ")
	if len(x.Panics) > 0 {
		var ks []string
		for k, v := range x.Panics {
			ks = append(ks, k+": "+firstLine(fmt.Sprint(v)))
		}
		sort.Strings(ks)
		return "panic", strings.Join(ks, "; "), obsKey
	}
	if x.Horizon {
		return "horizon", "execution exceeded the point horizon; blocked=" + strings.Join(x.Blocked, ","), obsKey
	}
	if x.Deadlock {
		return "deadlock", "threads blocked forever: " + strings.Join(x.Blocked, ","), obsKey
	}
	// reader observations: exactly the authoritative content of the height that was read
	for _, o := range w.obs {
		if o.H == 0 {
			continue
		}
		if o.Err != "" {
			if sc.prunedOK && o.H < w.m.latest {
				continue
			}
			return "view-fails", fmt.Sprintf("%s %s at height %d: %s", o.Thread, o.What, o.H, o.Err), obsKey
		}
		want, ok := w.m.committed[o.H]
		if !ok {
			return "read-of-unpublished-height", fmt.Sprintf("%s %s resolved height %d which was never committed", o.Thread, o.What, o.H), obsKey
		}
		for _, k := range alphabet {
			if o.Vals[k] != expect(want, k) {
				return "stale-read:concurrent-" + o.What, fmt.Sprintf("%s read %s=%q at height %d, authoritative %q", o.Thread, k, o.Vals[k], o.H, expect(want, k)), obsKey
			}
		}
	}
	// quiescent state: every surface, every version; then again after a restart (persisted poisoning)
	var ms []mismatch
	var st stats
	w.s.checkLive(w.m, &ms, &st)
	w.s.checkVersions(w.m, &ms, &st)
	if len(ms) > 0 {
		return "after:" + ms[0].class, ms[0].detail, obsKey
	}
	// one more block on top, then restart
	w.set("b")
	w.commit()
	w.s.checkLive(w.m, &ms, &st)
	w.s.checkVersions(w.m, &ms, &st)
	if len(ms) > 0 {
		return "after-next-block:" + ms[0].class, ms[0].detail, obsKey
	}
	s2, err := openMS(w.pdb, true, w.pr)
	if err != nil {
		return "restart-fails", firstLine(err.Error()), obsKey
	}
	defer s2.close()
	m2 := w.m.truncated(w.m.latest)
	s2.checkLive(m2, &ms, &st)
	s2.checkVersions(m2, &ms, &st)
	if len(ms) > 0 {
		return "after-restart:" + ms[0].class, ms[0].detail, obsKey
	}
	return "", "", obsKey
}

// ---- worker ----------------------------------------------------------------------------------

type schedViolation struct {
	Class    string   `json:"class"`
	Detail   string   `json:"detail"`
	Schedule []int    `json:"schedule"`
	Trace    []string `json:"trace"`
	Stable   bool     `json:"stable"`
}

type jobResult struct {
	Scenario   string           `json:"scenario"`
	Bound      int              `json:"bound"`
	Execs      int              `json:"execs"`
	MaxPoints  int              `json:"max_points"`
	Capped     bool             `json:"capped"`
	Outcomes   map[string]int   `json:"outcomes"`
	Violations []schedViolation `json:"violations"`
	Err        string           `json:"err,omitempty"`
	Sample     []string         `json:"sample"`
}

const horizon = 6000

func runJob(si, bound int, budget time.Duration) jobResult {
	sc := &scenarios[si]
	res := jobResult{Scenario: sc.name, Bound: bound, Outcomes: map[string]int{}}
	var w *world
	body := func() {
		w = newWorld(sc.pr)
		sc.setup(w)
		w.armed = true
		sc.spawn(w, func(name string, f func()) { vs.Go(name, f) })
	}
	start := time.Now()
	seen := map[string]bool{}
	ex := &vs.Explorer{Bound: bound, Horizon: horizon, Stop: func() bool { return time.Since(start) > budget }}
	ex.Check = func(x *vs.Exec) bool {
		class, detail, ok := w.check(sc, x)
		res.Outcomes[ok]++
		if class != "" && !seen[class] {
			seen[class] = true
			v := schedViolation{Class: class, Detail: detail, Schedule: append([]int{}, x.Choices...), Stable: true}
			for k := 0; k < 3; k++ {
				x2, err := vs.Replay(v.Schedule, horizon, body)
				c2 := ""
				if err == nil {
					c2, _, _ = w.check(sc, x2)
					v.Trace = x2.Trace
				}
				if err != nil || c2 != class {
					v.Stable = false
				}
			}
			if len(v.Trace) > 400 {
				v.Trace = v.Trace[len(v.Trace)-400:]
			}
			res.Violations = append(res.Violations, v)
		}
		return true
	}
	if err := ex.Explore(body); err != nil {
		res.Err = err.Error()
	}
	res.Execs, res.MaxPoints, res.Capped = ex.Execs, ex.MaxPoints, ex.Capped
	// determinism sanity: the default schedule replays identically
	x1, _ := vs.Replay(nil, horizon, body)
	_, _, o1 := w.check(sc, x1)
	x2, _ := vs.Replay(x1.Choices, horizon, body)
	_, _, o2 := w.check(sc, x2)
	if o1 != o2 || fmt.Sprint(x1.Choices) != fmt.Sprint(x2.Choices) {
		res.Err = "nondeterministic replay of the default schedule"
	}
	for _, l := range x2.Trace {
		if !strings.HasPrefix(l, "main:") {
			res.Sample = append(res.Sample, l)
		}
	}
	if len(res.Sample) > 60 {
		res.Sample = res.Sample[:60]
	}
	return res
}

func schedWorker(arg string) {
	var si, bound, bs int
	fmt.Sscanf(arg, "%d:%d:%d", &si, &bound, &bs)
	b, _ := json.Marshal(runJob(si, bound, time.Duration(bs)*time.Second))
	fmt.Println("RESULT " + string(b))
}

type keyedViolation struct {
	key    string
	detail any
}

type schedSummary struct {
	err        string
	capped     bool
	execs      int64
	violations []keyedViolation
	outcomes   map[string]int64
	distinct   []string
	cov        map[string]any
	samples    []any
}

func tail(s string, n int) string {
	if len(s) > n {
		return s[len(s)-n:]
	}
	return s
}

func runSchedules(r *vk.Run) *schedSummary {
	ss := &schedSummary{outcomes: map[string]int64{}}
	type job struct{ si, bound int }
	var jobs []job
	for si, sc := range scenarios {
		b := 2
		if r.Thorough() {
			b = 3
		}
		if sc.threads == 3 {
			if r.Quick() {
				b = 1
			} else {
				b = 2
			}
		}
		jobs = append(jobs, job{si, b})
	}
	perJob := int(r.Budget.Seconds() * 0.85)
	results := make([]jobResult, len(jobs))
	done := make(chan int, len(jobs))
	for i := range jobs {
		go func(i int) {
			cmd := exec.Command(os.Args[0], "-id", r.ID, "-worker", fmt.Sprintf("%d:%d:%d", jobs[i].si, jobs[i].bound, perJob))
			cmd.Env = append(os.Environ(), "GOMAXPROCS=2")
			out, err := cmd.CombinedOutput()
			var jr jobResult
			ok := false
			for _, line := range strings.Split(string(out), "\n") {
				if strings.HasPrefix(line, "RESULT ") {
					ok = json.Unmarshal([]byte(line[7:]), &jr) == nil
				}
			}
			if !ok {
				jr = jobResult{Scenario: scenarios[jobs[i].si].name, Bound: jobs[i].bound, Err: fmt.Sprintf("worker failed: %v: %s", err, tail(string(out), 1500))}
			}
			results[i] = jr
			done <- i
		}(i)
	}
	for range jobs {
		<-done
	}
	var per []map[string]any
	for _, jr := range results {
		if jr.Err != "" {
			ss.err = fmt.Sprintf("scenario %q bound %d: %s", jr.Scenario, jr.Bound, jr.Err)
			return ss
		}
		ss.execs += int64(jr.Execs)
		if jr.Capped {
			ss.capped = true
		}
		for o := range jr.Outcomes {
			ss.distinct = append(ss.distinct, "c|"+jr.Scenario+"|"+o)
		}
		ss.outcomes[fmt.Sprintf("schedules bound=%d", jr.Bound)] += int64(jr.Execs)
		var top []string
		for o, n := range jr.Outcomes {
			top = append(top, fmt.Sprintf("%6d x %s", n, o))
		}
		sort.Strings(top)
		if len(top) > 12 {
			top = top[len(top)-12:]
		}
		per = append(per, map[string]any{"scenario": jr.Scenario, "preemption_bound": jr.Bound, "schedules": jr.Execs, "max_points": jr.MaxPoints,
			"distinct_observations": len(jr.Outcomes), "capped": jr.Capped, "most_frequent_observations": top})
		for _, v := range jr.Violations {
			if !v.Stable {
				ss.err = fmt.Sprintf("unstable violation (same schedule did not fail 3x): %s %s", jr.Scenario, v.Class)
				return ss
			}
			ss.violations = append(ss.violations, keyedViolation{fmt.Sprintf("c:%s:%s", jr.Scenario, v.Class),
				map[string]any{"part": "c", "scenario": jr.Scenario, "bound": jr.Bound, "class": v.Class, "detail": v.Detail, "schedule": v.Schedule, "trace": v.Trace}})
		}
		if len(ss.samples) < 2 {
			ss.samples = append(ss.samples, map[string]any{"part": "c", "scenario": jr.Scenario, "default_schedule_trace": jr.Sample})
		}
	}
	ss.cov = map[string]any{"per_scenario": per, "schedules": ss.execs,
		"scheduling_points": "live-DB Get/Has/Iterator/NewSnapshot (pointDB), every physical write unit (crashdb hook), every sync.Mutex/RWMutex/Once and sync/atomic operation of rootmulti/store.go, bptree/nodedb.go, bptree/immutable_tree.go, bptree/export.go, store/cache/store.go",
		"not_enumerated":    "reads of frozen memdb snapshots (commute), the real mutexes inside memdb / db.BatchCollector / hashicorp-lru / x/sync/singleflight (held without a scheduling point inside, so atomic under the cooperative scheduler), preemptions beyond the bound"}
	return ss
}

func replayFile(r *vk.Run) {
	b, err := os.ReadFile(r.ReplayIn)
	if err != nil {
		r.HarnessError("%v", err)
	}
	var f struct {
		Detail struct {
			Part     string `json:"part"`
			Scenario string `json:"scenario"`
			Schedule []int  `json:"schedule"`
			Config   string `json:"config"`
			History  string `json:"history"`
			Class    string `json:"class"`
			Detail   string `json:"detail"`
		} `json:"detail"`
	}
	json.Unmarshal(b, &f)
	if f.Detail.Part != "c" {
		fmt.Printf("part %s config %s\nhistory: %s\nclass: %s\n%s\n(re-run `vcheck C26 quick -part %s` to re-enumerate)\n", f.Detail.Part, f.Detail.Config, f.Detail.History, f.Detail.Class, f.Detail.Detail, f.Detail.Part[:1])
		os.Exit(1)
	}
	for si := range scenarios {
		sc := &scenarios[si]
		if sc.name == f.Detail.Scenario {
			var w *world
			body := func() {
				w = newWorld(sc.pr)
				sc.setup(w)
				w.armed = true
				sc.spawn(w, func(name string, fn func()) { vs.Go(name, fn) })
			}
			x, err := vs.Replay(f.Detail.Schedule, horizon, body)
			if err != nil {
				r.HarnessError("%v", err)
			}
			c, d, o := w.check(sc, x)
			fmt.Printf("scenario %q\ntrace:\n  %s\nobservations: %s\nresult: class=%q %s\n", sc.name, strings.Join(x.Trace, "\n  "), o, c, d)
			if c != "" {
				fmt.Printf("VIOLATION property=%s replay=%s\n", r.ID, r.ReplayIn)
				os.Exit(1)
			}
			os.Exit(0)
		}
	}
	r.HarnessError("unknown scenario in replay file")
}
