package main

import (
	"fmt"
	"sort"
	"strings"
	"sync"
	"sync/atomic"

	dbm "github.com/gnolang/gno/tm2/pkg/db"
	storebptree "github.com/gnolang/gno/tm2/pkg/store/bptree"
	"github.com/gnolang/gno/tm2/pkg/store/types"
	"verif/engine/crashdb"
	"verif/engine/vk"
)

// ---------------------------------------------------------------------------------------------
// (a) histories.  Alphabet (7 ops): Sa Sb (Set with a fresh value), Da Db (Delete), C (Commit),
// R (restart, same index flag), T (restart toggling the fast-index flag).  Key "c" is only written by the prefill:
// it is the "updated once, never touched again" key of the gno#6011 incident.

var opsA = []string{"Sa", "Sb", "Da", "Db", "C", "R", "T"}

type cfg struct {
	startOn bool
	pr      prune
	prefill bool
}

func (c cfg) String() string {
	return fmt.Sprintf("start=%s,prune=%s,prefill=%v", map[bool]string{true: "on", false: "off"}[c.startOn], c.pr.name, c.prefill)
}

// run executes one history from scratch and calls visit after every op with the index of that op.
type runner struct {
	c   cfg
	cdb *crashdb.DB
	s   *sys
	m   *model
}

func newRunner(c cfg) (*runner, error) {
	rn := &runner{c: c, cdb: crashdb.New(), m: newModel()}
	s, err := openMS(rn.cdb, c.startOn, c.pr)
	if err != nil {
		return nil, err
	}
	rn.s = s
	if c.prefill {
		for _, k := range alphabet {
			rn.s.live().Set(nil, []byte(k), []byte(k+".0"))
			rn.m.work[k] = k + ".0"
		}
		rn.s.ms.Commit()
		rn.m.commit()
	}
	return rn, nil
}

func (rn *runner) apply(op string, i int) (err error) {
	if rec := vk.Catch(func() {
		switch op[0] {
		case 'S':
			k, v := opValue(op, i)
			rn.s.live().Set(nil, []byte(k), v)
			rn.m.work[k] = str(v)
		case 'D':
			k := op[1:]
			rn.s.live().Delete(nil, []byte(k))
			delete(rn.m.work, k)
		case 'C':
			rn.s.ms.Commit()
			rn.m.commit()
		case 'R', 'T':
			on := rn.s.on
			if op[0] == 'T' {
				on = !on
			}
			rn.s.close()
			var s *sys
			s, err = openMS(rn.cdb, on, rn.c.pr)
			if err != nil {
				return
			}
			rn.s = s
			rn.m.restart()
		}
	}); rec != nil {
		err = fmt.Errorf("panic: %v", rec)
	}
	return
}

type finding struct {
	class, hist, cfg, detail string
}

type collector struct {
	mu sync.Mutex
	fs []finding
}

func (c *collector) add(f finding) {
	c.mu.Lock()
	c.fs = append(c.fs, f)
	c.mu.Unlock()
}

// report emits, per (part, class), the shortest (then lexicographically first) failing history: deterministic under
// parallel enumeration, and minimal because every history up to the depth is enumerated.
func (c *collector) report(r *vk.Run, part string) {
	best := map[string]finding{}
	for _, f := range c.fs {
		b, ok := best[f.class]
		if !ok || len(f.hist) < len(b.hist) || (len(f.hist) == len(b.hist) && (f.cfg+f.hist) < (b.cfg+b.hist)) {
			best[f.class] = f
		}
	}
	var cls []string
	for k := range best {
		cls = append(cls, k)
	}
	sort.Strings(cls)
	for _, k := range cls {
		f := best[k]
		r.Violation(fmt.Sprintf("%s:%s|%s|%s", part, f.class, f.cfg, f.hist), map[string]any{"part": part, "class": f.class, "config": f.cfg, "history": f.hist, "detail": f.detail})
	}
}

type counters struct {
	histories, transitions, fullChecks, reads, views, absent, states atomic.Int64
}

func fullCheckAfter(op string, thorough bool) bool {
	return thorough || op == "C" || op == "R" || op == "T"
}

// histories enumerates every op sequence of length <= depth for config c; every node (history) is replayed from
// scratch on a fresh DB and checked after its last op (its prefixes are nodes of their own).
func histories(r *vk.Run, c cfg, depth int, col *collector, cn *counters, ops []string) {
	visit := func(h []string) {
		rn, err := newRunner(c)
		if err != nil {
			col.add(finding{"aux:open-fails", "", c.String(), err.Error()})
			return
		}
		defer func() { rn.s.close() }()
		cn.histories.Add(1)
		for i, op := range h {
			if err := rn.apply(op, i); err != nil {
				col.add(finding{"op-fails", strings.Join(h[:i+1], " "), c.String(), firstLine(err.Error())})
				return
			}
		}
		cn.transitions.Add(1)
		var ms []mismatch
		var st stats
		rn.s.checkLive(rn.m, &ms, &st)
		if len(h) == 0 || fullCheckAfter(h[len(h)-1], r.Thorough()) {
			cn.fullChecks.Add(1)
			rn.s.checkVersions(rn.m, &ms, &st)
		}
		cn.reads.Add(st.reads)
		cn.views.Add(st.views)
		cn.absent.Add(st.versionsAbsent)
		for _, mm := range ms {
			col.add(finding{mm.class, strings.Join(h, " "), c.String(), mm.detail})
		}
		if r.Distinct(c.String() + stateKey(rn)) { // (values longer than 64 bytes enter as length+hash)
			cn.states.Add(1)
		}
	}
	visit(nil)
	var roots [][]string
	for _, a := range ops {
		visit([]string{a})
		if depth >= 2 {
			for _, b := range ops {
				roots = append(roots, []string{a, b})
			}
		}
	}
	r.ParFor(len(roots), func(ji int) {
		var rec func(h []string)
		rec = func(h []string) {
			if r.Expired() {
				return
			}
			visit(h)
			if len(h) < depth {
				for _, op := range ops {
					rec(append(append([]string{}, h...), op))
				}
			}
		}
		rec(roots[ji])
	})
}

// stateKey: persistent bytes + working set + index flag (a state of the explored transition system).
func stateKey(rn *runner) string {
	var sb strings.Builder
	it, _ := rn.cdb.Iterator(nil, nil)
	for ; it.Valid(); it.Next() {
		sb.Write(it.Key())
		sb.WriteByte(0)
		writeAbbrev(&sb, it.Value())
		sb.WriteByte(1)
	}
	it.Close()
	fmt.Fprintf(&sb, "|%v|%s", rn.s.on, fmtMap(rn.m.work))
	return sb.String()
}

// ---------------------------------------------------------------------------------------------
// (b1) crash points, production wiring: after every history of depth <= d, for every prefix of the physical write log,
// rebuild the DB, reopen (index on; and index off then on) and run the full read comparison.

func crashRootmulti(r *vk.Run, c cfg, depth int, col *collector, cn *counters) {
	var hs [][]string
	var gen func(h []string)
	gen = func(h []string) {
		if len(h) > 0 {
			hs = append(hs, h)
		}
		if len(h) < depth {
			for _, op := range opsA {
				gen(append(append([]string{}, h...), op))
			}
		}
	}
	gen(nil)
	r.ParFor(len(hs), func(hi int) {
		h := hs[hi]
		if h[len(h)-1] != "C" && h[len(h)-1] != "T" && h[len(h)-1] != "R" {
			return // the physical log only grows at commits; histories ending in S/D add no new crash point
		}
		rn, err := newRunner(c)
		if err != nil {
			return
		}
		commitsAt := []int{} // number of units after each model commit
		if c.prefill {
			commitsAt = append(commitsAt, rn.cdb.NumUnits())
		}
		for i, op := range h {
			if err := rn.apply(op, i); err != nil {
				rn.s.close()
				return // reported by (a)
			}
			if op == "C" {
				commitsAt = append(commitsAt, rn.cdb.NumUnits())
			}
		}
		rn.s.close()
		units := rn.cdb.Units
		cn.histories.Add(1)
		for k := 0; k <= len(units); k++ {
			// version the crashed process must come back at: number of commits whose units are entirely within [0,k)
			want := int64(0)
			for _, u := range commitsAt {
				if u <= k {
					want++
				}
			}
			for _, mode := range []string{"on", "off-then-on"} {
				cn.transitions.Add(1)
				label := fmt.Sprintf("%s ;crash@%d/%d;reopen=%s", strings.Join(h, " "), k, len(units), mode)
				db := crashdb.Rebuild(units, k)
				s, err := openMS(db, mode == "on", c.pr)
				if err != nil {
					col.add(finding{"reopen-fails", label, c.String(), firstLine(err.Error())})
					continue
				}
				if mode != "on" {
					s.close()
					if s, err = openMS(db, true, c.pr); err != nil {
						col.add(finding{"reopen-fails", label, c.String(), firstLine(err.Error())})
						continue
					}
				}
				if s.latest() != want {
					col.add(finding{"crash:version", label, c.String(), fmt.Sprintf("came back at %d, want %d", s.latest(), want)})
					s.close()
					continue
				}
				m := rn.m.truncated(want)
				var ms []mismatch
				var st stats
				s.checkLive(m, &ms, &st)
				s.checkVersions(m, &ms, &st)
				// and one more block on top of the recovered state
				s.live().Set(nil, []byte("a"), []byte("a.post"))
				m.work["a"] = "a.post"
				s.ms.Commit()
				m.commit()
				s.checkLive(m, &ms, &st)
				s.checkVersions(m, &ms, &st)
				cn.fullChecks.Add(2)
				cn.reads.Add(st.reads)
				cn.views.Add(st.views)
				for _, mm := range ms {
					col.add(finding{mm.class, label, c.String(), mm.detail})
				}
				r.Distinct(fmt.Sprintf("crash|%s|%d|%s", c, k, stateKeyDB(db)))
				s.close()
			}
		}
	})
}

func stateKeyDB(db dbm.DB) string {
	var sb strings.Builder
	it, _ := db.Iterator(nil, nil)
	for ; it.Valid(); it.Next() {
		sb.Write(it.Key())
		sb.WriteByte(0)
		writeAbbrev(&sb, it.Value())
		sb.WriteByte(1)
	}
	it.Close()
	return sb.String()
}

// ---------------------------------------------------------------------------------------------
// (b2) crash points, direct wiring: store/bptree.Store straight on the DB (no CollectingDB), where every
// nodeDB.Commit is a physical unit: SaveVersion's batch, each prune batch, each chunk of an index clear/rebuild
// (fastRebuildFlush is scaled from 65536 to 2 entries by the overlay) and the final stamp write.

type direct struct {
	db dbm.DB
	st *storebptree.Store
	on bool
}

func openDirect(db dbm.DB, on bool, pr prune, immutable bool, ver int64) (d *direct, err error) {
	d = &direct{db: db, on: on}
	if rec := vk.Catch(func() {
		opts := types.StoreOptions{PruningOptions: types.PruningOptions{KeepRecent: pr.keepRecent, KeepEvery: pr.keepEvery}, Immutable: immutable}
		d.st = ctor(on)(db, opts).(*storebptree.Store)
		if ver == 0 {
			err = d.st.LoadLatestVersion()
		} else {
			err = d.st.LoadVersion(ver)
		}
	}); rec != nil {
		return nil, fmt.Errorf("panic: %v", rec)
	}
	return
}

func crashDirect(r *vk.Run, c cfg, depth int, col *collector, cn *counters) {
	var hs [][]string
	var gen func(h []string)
	gen = func(h []string) {
		if len(h) > 0 {
			hs = append(hs, h)
		}
		if len(h) < depth {
			for _, op := range opsA {
				gen(append(append([]string{}, h...), op))
			}
		}
	}
	gen(nil)
	r.ParFor(len(hs), func(hi int) {
		h := hs[hi]
		if l := h[len(h)-1]; l != "C" && l != "T" && l != "R" {
			return
		}
		cdb := crashdb.New()
		m := newModel()
		d, err := openDirect(cdb, c.startOn, c.pr, false, 0)
		if err != nil {
			col.add(finding{"aux:open-fails", "", c.String(), err.Error()})
			return
		}
		if c.prefill {
			for _, k := range alphabet {
				d.st.Set(nil, []byte(k), []byte(k+".0"))
				m.work[k] = k + ".0"
			}
			d.st.Commit()
			m.commit()
		}
		for i, op := range h {
			var operr error
			if rec := vk.Catch(func() {
				switch op[0] {
				case 'S':
					v := fmt.Sprintf("%s.%d", op[1:], i+1)
					d.st.Set(nil, []byte(op[1:]), []byte(v))
					m.work[op[1:]] = v
				case 'D':
					d.st.Delete(nil, []byte(op[1:]))
					delete(m.work, op[1:])
				case 'C':
					d.st.Commit()
					m.commit()
				case 'R', 'T':
					on := d.on
					if op[0] == 'T' {
						on = !on
					}
					d, operr = openDirect(cdb, on, c.pr, false, 0)
					m.restart()
				}
			}); rec != nil {
				operr = fmt.Errorf("panic: %v", rec)
			}
			if operr != nil {
				col.add(finding{"direct:op-fails", strings.Join(h[:i+1], " "), c.String(), firstLine(operr.Error())})
				return
			}
		}
		units := cdb.Units
		cn.histories.Add(1)
		for k := 0; k <= len(units); k++ {
			label := fmt.Sprintf("%s ;crash@%d/%d", strings.Join(h, " "), k, len(units))
			cn.transitions.Add(1)
			checkDirectCrash(r, c, units, k, m, label, col, cn)
		}
	})
}

// directReads returns Get of the alphabet at version v of store st (v==0: the live working tree).
func directReads(st *storebptree.Store, v int64) (get, wk map[string]string, err error) {
	if v == 0 {
		if get, err = gets(st); err != nil {
			return
		}
		wk, err = walk(st)
		return
	}
	var im *storebptree.Store
	if rec := vk.Catch(func() { im, err = st.GetImmutable(v) }); rec != nil {
		err = fmt.Errorf("panic: %v", rec)
	}
	if err != nil {
		return
	}
	if get, err = gets(im); err != nil {
		return
	}
	wk, err = walk(im)
	return
}

func checkDirectCrash(r *vk.Run, c cfg, units []crashdb.Unit, k int, full *model, label string, col *collector, cn *counters) {
	mk := func() *crashdb.DB { return crashdb.Rebuild(units, k) }
	rebuildUnits := checkDirectState(r, c, mk, full, label, "", col, cn)
	// crash AGAIN inside the reopen's own index rebuild (after every unit it wrote)
	for j := 1; j < len(rebuildUnits); j++ {
		cn.transitions.Add(1)
		mk2 := func() *crashdb.DB {
			db := crashdb.Rebuild(units, k)
			for _, u := range rebuildUnits[:j] {
				for _, o := range u.Ops {
					if o.Del {
						db.MemDB.Delete(o.K)
					} else {
						db.MemDB.Set(o.K, o.V)
					}
				}
			}
			return db
		}
		checkDirectState(r, c, mk2, full, fmt.Sprintf("%s ;reopen-on;crash@%d/%d", label, j, len(rebuildUnits)), "after-rebuild-crash:", col, cn)
	}
}

// checkDirectState checks one on-disk state (mk returns a fresh copy of it) and returns the units written by the
// index-on writer reopen (its rebuild).
func checkDirectState(r *vk.Run, c cfg, mk func() *crashdb.DB, full *model, label, pfx string, col *collector, cn *counters) []crashdb.Unit {
	add := func(class, detail string) { col.add(finding{"direct:" + pfx + class, label, c.String(), detail}) }
	// authoritative: the crashed DB opened with the index off (own copy: it must not see the other reopen's rebuild)
	refDB := mk()
	ref, err := openDirect(refDB, false, c.pr, false, 0)
	if err != nil {
		add("reopen-fails:index-off", firstLine(err.Error()))
		return nil
	}
	L := ref.st.LastCommitID().Version
	if _, ok := full.committed[L]; !ok && L != 0 {
		add("crash:version", fmt.Sprintf("came back at unknown version %d", L))
		return nil
	}
	m := full.truncated(L)
	r.Distinct(fmt.Sprintf("direct|%s|%s", c, stateKeyDB(refDB)))
	compare := func(surface string, st *storebptree.Store, vs []int64) {
		for _, v := range vs {
			aget, _, aerr := directReads(ref.st, v)
			fget, fwalk, ferr := directReads(st, v)
			cn.views.Add(1)
			if aerr != nil {
				cn.absent.Add(1)
				if v == 0 || v == L {
					add("aux:latest-not-loadable", firstLine(aerr.Error()))
				}
				if ferr == nil {
					add("view-of-pruned-version:"+surface, fmt.Sprintf("v%d", v))
				}
				continue
			}
			if ferr != nil {
				add("view-fails:"+surface, fmt.Sprintf("v%d: %s", v, firstLine(ferr.Error())))
				continue
			}
			want := m.work
			if v != 0 {
				want = m.committed[v]
			}
			for _, key := range alphabet {
				cn.reads.Add(1)
				if fget[key] != aget[key] {
					add("stale-read:"+surface, fmt.Sprintf("v%d Get(%s)=%q through the index, %q with the index off", v, key, fget[key], aget[key]))
				}
				if fget[key] != expect(fwalk, key) {
					add("stale-read:"+surface+"-vs-walk", fmt.Sprintf("v%d Get(%s)=%q, leaf walk %q", v, key, fget[key], expect(fwalk, key)))
				}
				if aget[key] != expect(want, key) {
					add("aux:tree-vs-model", fmt.Sprintf("v%d %s=%q with the index off, model %q", v, key, aget[key], expect(want, key)))
				}
			}
		}
	}
	var vs []int64
	for v := int64(0); v <= L; v++ {
		vs = append(vs, v)
	}
	// (i) read-only query-style loads on the crashed DB BEFORE any writer load repaired the index: the path used by
	// rootmulti on backends without snapshots (ImmutableDB over the live DB) -> LoadReadonly + getImmutable stamp gate.
	for v := int64(1); v <= L; v++ {
		im, err := openDirect(dbm.NewImmutableDB(mk()), true, c.pr, true, v)
		aget, _, aerr := directReads(ref.st, v)
		cn.views.Add(1)
		if aerr != nil {
			if err == nil {
				add("view-of-pruned-version:readonly-load", fmt.Sprintf("v%d", v))
			}
			continue
		}
		if err != nil {
			add("view-fails:readonly-load", fmt.Sprintf("v%d: %s", v, firstLine(err.Error())))
			continue
		}
		fget, err := gets(im.st)
		if err != nil {
			add("view-fails:readonly-load", fmt.Sprintf("v%d: %s", v, firstLine(err.Error())))
			continue
		}
		for _, key := range alphabet {
			cn.reads.Add(1)
			if fget[key] != aget[key] {
				add("stale-read:readonly-load", fmt.Sprintf("v%d Get(%s)=%q through the index, %q with the index off", v, key, fget[key], aget[key]))
			}
		}
	}
	// (ii) writer reopen with the index on (Load -> ensureFastIndex may rebuild), all versions + live reads
	db := mk()
	d, err := openDirect(db, true, c.pr, false, 0)
	if err != nil {
		add("reopen-fails:index-on", firstLine(err.Error()))
		return nil
	}
	compare("reopen-on", d.st, vs)
	return db.Units
}
