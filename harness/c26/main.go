// C26: the B+ tree fast index never serves a stale value (model_checking).
//
// One oracle, four enumerations on the REAL code (tm2/pkg/bptree fast index under store/bptree.Store under
// rootmulti):
//
//	a read served through the fast index == the authoritative tree at the version being read
//
// where "authoritative" is (1) the leaf walk (iterator) of the very same view, (2) the same DB opened with the fast
// index DISABLED, and (3) a boring Go model (map per version) that anchors (2); checked for every key of the
// alphabet, on every read surface (live consensus store, MultiImmutableCacheWrapWithVersion(v) views, `.store`
// QueryImmutable), for every version 1..latest.
//
//	(a) histories   every sequence of Set/Delete/Commit/restart/restart-with-index-toggle up to depth d, per
//	                configuration {index initially on|off} x {pruning} x {prefilled}
//	(b) crashes     for every history of depth <= 4: every prefix of the physical write log (crashdb), in the
//	                production wiring (one atomic unit per block) and in the direct wiring (store straight on the DB,
//	                where SaveVersion, prune batches, every chunk of an index clear/rebuild and the stamp write are
//	                separate units; fastRebuildFlush scaled 65536 -> 2), including a second crash inside the
//	                recovery's own rebuild
//	(c) schedules   committer thread vs reader thread(s) under every interleaving with <= bound preemptions
//	                (scheduling points: every DB operation and every sync/atomic operation of rootmulti, bptree,
//	                store/cache), see sched.go
//	(d) value sizes the SIZE of the written value as a dimension of the write alphabet (0 B .. 4 MiB+1, at and around
//	                every size-dependent constant of bptree / store/bptree): every ordered pair of writes (small->large,
//	                large->small, large->large, delete after large, ...) followed by restart, index off, index on
//	                (rebuild) and one more overwrite; same-block overwrites; triples; every op sequence to depth 4 with
//	                a 64 KiB+1 write in the alphabet; see sizes.go.  Values are compared by length + SHA-256.
package main

import (
	"flag"
	"fmt"
	"os"
	"runtime/debug"
	"runtime/pprof"
	"time"

	"verif/engine/vk"
)

func main() {
	worker := flag.String("worker", "", "internal: schedule worker scenario:bound:budgetSeconds")
	part := flag.String("part", "abcd", "which enumerations to run (subset of abcd)")
	prof := flag.String("cpuprofile", "", "internal: write a CPU profile")
	r := vk.New("model_checking")
	gcp := 400
	if v := os.Getenv("VERIF_GOGC"); v != "" {
		fmt.Sscan(v, &gcp)
	}
	debug.SetGCPercent(gcp)
	if *prof != "" {
		f, _ := os.Create(*prof)
		pprof.StartCPUProfile(f)
		defer pprof.StopCPUProfile()
		stopProf = pprof.StopCPUProfile
	}
	if *worker != "" {
		schedWorker(*worker)
		return
	}
	if r.ReplayIn != "" {
		replayFile(r)
		return
	}
	r.SetBudget(150*time.Second, 25*time.Minute)
	has := func(c byte) bool {
		for i := 0; i < len(*part); i++ {
			if (*part)[i] == c {
				return true
			}
		}
		return false
	}
	cov := map[string]any{}
	var states, transitions int64

	// schedule workers run as subprocesses; start them first so they overlap with (a)/(b)
	var schedDone chan *schedSummary
	if has('c') {
		schedDone = make(chan *schedSummary, 1)
		go func() { schedDone <- runSchedules(r) }()
	}

	// (b) first: it is small and must not be starved by the iterative deepening of (a) when the budget is tight
	if has('b') {
		depth := 4
		cfgs := []cfg{{true, pruneNothing, true}, {false, pruneRecent1, true}, {true, pruneEverything, true}, {false, pruneNothing, false}}
		if r.Thorough() {
			depth = 5
			cfgs = append(cfgs, cfg{true, pruneRecent1, false}, cfg{false, pruneEverything, false})
		}
		t0 := time.Now()
		col := &collector{}
		cn := &counters{}
		for _, c := range cfgs {
			crashRootmulti(r, c, depth, col, cn)
		}
		col.report(r, "b1")
		col2 := &collector{}
		cn2 := &counters{}
		for _, c := range cfgs {
			crashDirect(r, c, depth, col2, cn2)
		}
		col2.report(r, "b2")
		r.EvalN(cn.transitions.Load() + cn2.transitions.Load())
		transitions += cn.transitions.Load() + cn2.transitions.Load()
		r.OutcomeN("b1:crash-points(production wiring)", cn.transitions.Load())
		r.OutcomeN("b2:crash-points(direct wiring, incl. inside rebuild)", cn2.transitions.Load())
		r.OutcomeN("b:reads-compared", cn.reads.Load()+cn2.reads.Load())
		cov["b_crash_points"] = map[string]any{"history_depth": depth, "configs": len(cfgs),
			"production_wiring": map[string]any{"histories": cn.histories.Load(), "crash_points_x_reopen_modes": cn.transitions.Load(), "reads_compared": cn.reads.Load()},
			"direct_wiring":     map[string]any{"histories": cn2.histories.Load(), "crash_points": cn2.transitions.Load(), "reads_compared": cn2.reads.Load(), "views": cn2.views.Load()},
			"wall_s":            time.Since(t0).Seconds()}
	}

	// (d) before (a) for the same reason
	if has('d') {
		t0 := time.Now()
		col := &collector{}
		cn := &counters{}
		// MiB-sized garbage: a small GC percent lets the allocator reuse already-faulted spans (3-4x less CPU than 400 here)
		if os.Getenv("VERIF_GOGC") == "" {
			debug.SetGCPercent(25)
		}
		sum, dcov := sizeHistories(r, col, cn)
		debug.SetGCPercent(gcp)
		col.report(r, "d")
		r.EvalN(cn.transitions.Load())
		states += cn.states.Load()
		transitions += cn.transitions.Load()
		r.OutcomeN("d:histories(value-size dimension)", cn.histories.Load())
		r.OutcomeN("d:size-pairs", sum.pairs)
		r.OutcomeN("d:full-version-checks", cn.fullChecks.Load())
		r.OutcomeN("d:reads-compared", cn.reads.Load())
		dcov["histories"] = cn.histories.Load()
		dcov["checked_steps"] = cn.transitions.Load()
		dcov["distinct_states"] = cn.states.Load()
		dcov["reads_compared"] = cn.reads.Load()
		dcov["version_views"] = cn.views.Load()
		dcov["complete"] = !r.Capped()
		dcov["wall_s"] = time.Since(t0).Seconds()
		cov["d_value_sizes"] = dcov
		r.Sample(map[string]any{"part": "d", "history": "Sa:1 C Sa:65537 C R T T Sa:1 C  (small value indexed, overwritten by a 64 KiB+1 value; restart; index off; index on = rebuild; small again)"})
	}

	if has('a') {
		depth := 6
		cfgs := []cfg{
			{true, pruneNothing, true},
			{false, pruneRecent1, true},
			{true, pruneEverything, false},
		}
		if r.Thorough() {
			depth = 8
			cfgs = nil
			for _, on := range []bool{true, false} {
				for _, pr := range []prune{pruneNothing, pruneRecent1, pruneEverything} {
					for _, pf := range []bool{true, false} {
						cfgs = append(cfgs, cfg{on, pr, pf})
					}
				}
			}
		}
		col := &collector{}
		cn := &counters{}
		t0 := time.Now()
		// iterative deepening in thorough mode so a budget cap still leaves complete shallower levels
		doneDepth := 0
		levels := []int{depth}
		if r.Thorough() {
			levels = []int{6, 7, 8}
		}
		var per []map[string]any
		for _, d := range levels {
			before := cn.histories.Load()
			for _, c := range cfgs {
				if r.Expired() {
					break
				}
				histories(r, c, d, col, cn, opsA)
			}
			if !r.Capped() {
				doneDepth = d
			}
			per = append(per, map[string]any{"depth": d, "histories": cn.histories.Load() - before, "complete": !r.Capped()})
			if r.Capped() {
				break
			}
		}
		col.report(r, "a")
		r.EvalN(cn.transitions.Load())
		states += cn.states.Load()
		transitions += cn.transitions.Load()
		r.OutcomeN("a:histories", cn.histories.Load())
		r.OutcomeN("a:full-version-checks", cn.fullChecks.Load())
		r.OutcomeN("a:reads-compared", cn.reads.Load())
		r.OutcomeN("a:views-of-pruned-versions(both sides agree)", cn.absent.Load())
		cov["a_histories"] = map[string]any{"alphabet": opsA, "depth_complete": doneDepth, "levels": per, "configs": len(cfgs), "histories": cn.histories.Load(),
			"distinct_states": cn.states.Load(), "reads_compared": cn.reads.Load(), "version_views": cn.views.Load(), "wall_s": time.Since(t0).Seconds()}
		cov["depth"] = doneDepth
		r.Sample(map[string]any{"part": "a", "config": cfgs[0].String(), "history": "Sa C T Sa C T  (index on: commit; off: overwrite a; on again: rebuild sits in the collector, query snapshot still holds the old stamp)"})
	}

	if has('c') {
		ss := <-schedDone
		if ss.err != "" {
			r.HarnessError("schedules: %s", ss.err)
		}
		if ss.capped {
			r.MarkCapped()
		}
		r.EvalN(ss.execs)
		transitions += ss.execs
		for _, v := range ss.violations {
			r.Violation(v.key, v.detail)
		}
		for k, n := range ss.outcomes {
			r.OutcomeN("c:"+k, n)
		}
		for _, d := range ss.distinct {
			if r.Distinct(d) {
				states++
			}
		}
		cov["c_schedules"] = ss.cov
		for _, s := range ss.samples {
			r.Sample(s)
		}
	}

	r.Assumptions = []string{
		"small scope: 3 keys (a,b written by histories; c written once by the prefill), fresh value per write, <= 8 ops per history; (a)-(c) write 3..4-byte values, the value-size dimension is explored by (d) on key a only",
		"(d): sizes come from a finite menu (coverage.d_value_sizes.*_menu); sizes >= 1 MiB are paired with {1 B, same family, delete} only and live in one configuration (index on, keep all versions, prefilled) in the quick tier; values above 64 bytes are compared by length + SHA-256",
		"crashdb models a backend whose Batch.Write is atomic (true of every backend built into gno.land); a crash loses everything not yet written",
		"parameter scaling: bptree.fastRebuildFlush 65536 -> 2 so that index clears/rebuilds span several chunk commits with 3 keys",
		"in the quick tier the per-version comparison runs after every Commit/restart/toggle step (the steps that can change a view); live-store reads are compared after every step; thorough compares everything after every step",
		"(c) treats code between scheduling points (DB operations, shimmed sync/atomic operations) as atomic; see c_schedules.not_enumerated",
	}
	_ = states
	cov["states"] = r.NDistinct()
	cov["transitions"] = transitions
	cov["traces_validated_against_impl"] = transitions
	exh := !r.Capped()
	stopProf()
	r.Finish("every op sequence up to the depth per configuration; every ordered pair of value sizes of the size menu (+ same-block, triple and depth-4 histories with sized writes); every physical-write-log prefix of every history up to depth 4 (two wirings); every schedule with <= bound preemptions per scenario; distinct = distinct (DB bytes, working set, index flag) states + distinct schedule observations",
		exh, cov)
}

var stopProf = func() {}

func fatal(format string, a ...any) {
	fmt.Printf("HARNESS-ERROR: "+format+"\n", a...)
	os.Exit(2)
}
