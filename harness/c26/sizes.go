package main

import (
	"crypto/sha256"
	"fmt"
	"strconv"
	"strings"
	"sync"
	"time"

	"verif/engine/vk"
)

// ---------------------------------------------------------------------------------------------
// (d) value sizes.  The write alphabet of (a)-(c) only has 3..4-byte values; every size-dependent branch on the
// path of a value (index record = 8+len+4 bytes, value record = len+4, prune FlushThreshold, maxReadBytesLen,
// batch sizes of the layers below) is therefore invisible to them.  (d) adds the SIZE of the written value as a
// dimension of the write alphabet: a write op is `S<key>:<len>`; the value is a deterministic byte string of exactly
// that length, fresh per (key, op index, length).  Same oracle, same read surfaces as (a).
//
// sizeMenu = every size-dependent constant found in tm2/pkg/bptree and tm2/pkg/store/bptree (and the layer below),
// at and around it, plus the generic ladder {0, 1, 255, 256, 4 KiB, 64 KiB-1, 64 KiB, 64 KiB+1, 1 MiB}:
//
//	 64 KiB       generic 16-bit boundary; -12 / -4: the index record (8+len+4) / value record (len+4) is exactly 64 KiB
//	100 KiB       bptree.DefaultOptions().FlushThreshold (byte bound of prune batches)
//	  1 MiB       bptree.maxReadBytesLen (node.go) == bptree.MaxKeyLen (errors.go); -12: index record exactly 1 MiB
//	  4 MiB       fallback flush threshold of pruneRange (prune.go)
//
// Because the menu spans 0 .. 4 MiB+1, a size cap / truncation / chunking at ANY threshold T in that range separates
// at least one ordered pair of menu sizes (s1 <= T < s2), so the pair enumeration does not depend on knowing T.
var sizeMenu = []int{
	0, 1, 255, 256, 4096,
	65536 - 13, 65536 - 12, 65536 - 4, 65536 - 1, 65536, 65536 + 1,
	102400 - 1, 102400, 102400 + 1,
}

// thoroughExtra joins sizeMenu in the thorough tier.
var thoroughExtra = []int{1<<20 - 12, 1<<20 - 1, 1 << 20, 1<<20 + 1, 4 << 20, 4<<20 + 1}

// bigMenu: the 1 MiB and 4 MiB families are paired only with class representatives (inside the stack under test a
// value of n bytes costs ~10 n of copies per committed version and read surface).
var bigMenu = []int{1, 1 << 20, 1<<20 + 1}

// hugeSize (the 4 MiB fallback flush threshold of pruneRange is dead code in this wiring: the store keeps the default
// FlushThreshold of 100 KiB) is paired with {1, itself, Da} only.
const hugeSize = 4<<20 + 1

// classMenu: one representative per size class, for the other configurations and the same-block patterns.
var classMenu = []int{0, 1, 65536 + 1, 1<<20 + 1}

// midMenu: the sizes of the cubic / deep enumerations (a "large" of 64 KiB+1 keeps them affordable; thresholds above
// it are covered by the pair histories, whose tail restarts, rebuilds and overwrites once more).
var midMenu = []int{1, 65536, 65536 + 1}

func sizeOp(k string, n int) string { return fmt.Sprintf("S%s:%d", k, n) }

// opValue returns key and value of a Set op: "Sa" -> legacy small fresh value "a.<i+1>"; "Sa:<n>" -> n bytes.
func opValue(op string, i int) (string, []byte) {
	body := op[1:]
	j := strings.IndexByte(body, ':')
	if j < 0 {
		return body, []byte(fmt.Sprintf("%s.%d", body, i+1))
	}
	n, err := strconv.Atoi(body[j+1:])
	if err != nil {
		panic("bad op " + op)
	}
	return body[:j], mkval(body[:j], i+1, n)
}

// mkval: exactly n bytes, deterministic in (key, op index, n), non-periodic (so that truncation, chunk reordering or
// a value of another write cannot compare equal), never nil (a nil value is rejected by the store).
func mkval(k string, i, n int) []byte {
	v := make([]byte, n)
	x := uint64(i)*0x9E3779B97F4A7C15 ^ uint64(n)*0xBF58476D1CE4E5B9
	for _, c := range []byte(k) {
		x = (x ^ uint64(c)) * 0x94D049BB133111EB
	}
	for p := 0; p < n; p += 8 {
		x += 0x9E3779B97F4A7C15
		z := x
		z = (z ^ (z >> 30)) * 0xBF58476D1CE4E5B9
		z = (z ^ (z >> 27)) * 0x94D049BB133111EB
		z ^= z >> 31
		for q := 0; q < 8 && p+q < n; q++ {
			v[p+q] = byte(z >> (8 * q))
		}
	}
	if hdr := fmt.Sprintf("%s.%d|%d|", k, i, n); n >= len(hdr)+8 {
		copy(v, hdr)
	}
	return v
}

// show renders an observation (see str) for a finding.
func show(s string) string {
	if s == absent {
		return "<absent>"
	}
	if strings.HasPrefix(s, "<len=") {
		return s
	}
	return strconv.Quote(s)
}

func writeAbbrev(sb *strings.Builder, v []byte) {
	if len(v) <= 256 {
		sb.Write(v)
		return
	}
	h := sha256.Sum256(v)
	fmt.Fprintf(sb, "#%d#%x", len(v), h[:16])
}

// runChecked executes ONE history and checks after EVERY op (live reads after each op, the per-version comparison
// after Commit/restart/toggle): every prefix of the history is checked, a finding carries the prefix that failed.
func runChecked(r *vk.Run, c cfg, h []string, col *collector, cn *counters) {
	rn, err := newRunner(c)
	if err != nil {
		col.add(finding{"aux:open-fails", "", c.String(), err.Error()})
		return
	}
	defer func() { rn.s.close() }()
	cn.histories.Add(1)
	for i, op := range h {
		label := strings.Join(h[:i+1], " ")
		if err := rn.apply(op, i); err != nil {
			col.add(finding{"op-fails", label, c.String(), firstLine(err.Error())})
			return
		}
		cn.transitions.Add(1)
		var ms []mismatch
		var st stats
		rn.s.checkLive(rn.m, &ms, &st)
		if fullCheckAfter(op, false) {
			cn.fullChecks.Add(1)
			rn.s.checkVersions(rn.m, &ms, &st)
		}
		if i == len(h)-1 && r.Distinct(c.String()+stateKey(rn)) { // end state of the history (hashing the DB at every step costs as much as the checks)
			cn.states.Add(1)
		}
		cn.reads.Add(st.reads)
		cn.views.Add(st.views)
		cn.absent.Add(st.versionsAbsent)
		for _, mm := range ms {
			col.add(finding{mm.class, label, c.String(), mm.detail})
		}
		if len(ms) > 0 {
			return // later steps of a diverged history add nothing but noise
		}
	}
}

type sizeSummary struct {
	pairs, overwrite, triples, deep int64
}

// sizeHistories builds and runs the (d) enumerations.  tail = R T T Sa:1 C  (restart; index off; index on again =
// rebuild from the tree; one more small overwrite + commit).
//
//	d1  every ordered pair (w1, w2):  w1 C w2 C tail   — small->large, large->small, large->large, delete after
//	    large, set after delete —
//	      over sizeMenu+{Da}, bigMenu+{Da} and {1, 4 MiB+1, Da} in the configuration {index on, keep all versions, prefilled}
//	      over classMenu+{Da} in the other configurations
//	d2  every ordered pair over {1, 64 KiB+1}+{Da} (+ 1 MiB+1 in the first configuration):  w1 w2 C R  (overwrite inside
//	    one block)  and  w1 C w2 R C R  (uncommitted write dropped by a restart), every configuration
//	d3  every ordered triple over midMenu+{Da}:  w1 C w2 C w3 C R T T, every configuration
//	d4  EVERY op sequence up to depth dDeep over {Sa:1, Sa:64 KiB+1, Da, C, R, T} (the node-per-history enumeration
//	    of (a)), every configuration
func sizeHistories(r *vk.Run, col *collector, cn *counters) (sum sizeSummary, cov map[string]any) {
	cfgMain := cfg{true, pruneNothing, true}
	cfgAll := []cfg{cfgMain, {false, pruneRecent1, true}, {true, pruneEverything, false}}
	dDeep := 4
	fullMenu := sizeMenu
	deepOps := []string{sizeOp("a", 1), sizeOp("a", 65537), "Da", "C", "R", "T"}
	if r.Thorough() {
		cfgAll = nil
		for _, on := range []bool{true, false} {
			for _, pr := range []prune{pruneNothing, pruneRecent1, pruneEverything} {
				for _, pf := range []bool{true, false} {
					cfgAll = append(cfgAll, cfg{on, pr, pf})
				}
			}
		}
		dDeep = 5
		fullMenu = append(append([]int{}, sizeMenu...), thoroughExtra...)
	}
	type job struct {
		c   cfg
		h   []string
		cat string
	}
	var catMu sync.Mutex
	catNs := map[string]float64{}
	var jobs []job
	writes := func(menu []int) []string {
		var w []string
		for _, n := range menu {
			w = append(w, sizeOp("a", n))
		}
		return append(w, "Da")
	}
	tail := []string{"R", "T", "T", sizeOp("a", 1), "C"}
	pairs := func(c cfg, w []string, cat string) {
		for _, w1 := range w {
			for _, w2 := range w {
				jobs = append(jobs, job{c, append([]string{w1, "C", w2, "C"}, tail...), cat})
				sum.pairs++
			}
		}
	}
	// d1 (the heaviest groups first: ParFor hands out jobs in index order)
	if !r.Thorough() {
		pairs(cfgMain, writes([]int{1, hugeSize}), "d1_huge")
		pairs(cfgMain, writes(bigMenu), "d1_big_menu")
	}
	for _, c := range cfgAll {
		switch {
		case r.Thorough() && c.startOn && c.prefill:
			pairs(c, writes(fullMenu), "d1_size_menu+1MiB+4MiB")
		case r.Thorough() || c == cfgMain:
			pairs(c, writes(sizeMenu), "d1_size_menu")
		default:
			pairs(c, writes(classMenu), "d1_class_menu")
		}
	}
	// d2
	for _, c := range cfgAll {
		wr := writes([]int{1, 65537})
		if c == cfgMain || r.Thorough() {
			wr = writes([]int{1, 65537, 1<<20 + 1})
		}
		for _, w1 := range wr {
			for _, w2 := range wr {
				jobs = append(jobs, job{c, []string{w1, w2, "C", "R"}, "d2"}, job{c, []string{w1, "C", w2, "R", "C", "R"}, "d2"})
				sum.overwrite += 2
			}
		}
	}
	// d3
	wc := writes(midMenu)
	for _, c := range cfgAll {
		for _, w1 := range wc {
			for _, w2 := range wc {
				for _, w3 := range wc {
					jobs = append(jobs, job{c, []string{w1, "C", w2, "C", w3, "C", "R", "T", "T"}, "d3"})
					sum.triples++
				}
			}
		}
	}
	// d4 runs beside d1-d3 (one enumeration per configuration, each with its own ParFor): the MiB-sized pair
	// histories are few and long, the depth-4 histories many and short
	t0 := time.Now()
	var deepWG sync.WaitGroup
	cnDeep := &counters{}
	for _, c := range cfgAll {
		deepWG.Add(1)
		go func(c cfg) {
			defer deepWG.Done()
			histories(r, c, dDeep, col, cnDeep, deepOps)
		}(c)
	}
	r.ParFor(len(jobs), func(i int) {
		t := time.Now()
		runChecked(r, jobs[i].c, jobs[i].h, col, cn)
		catMu.Lock()
		catNs[jobs[i].cat] += time.Since(t).Seconds()
		catMu.Unlock()
	})
	wall123 := time.Since(t0).Seconds()
	deepWG.Wait()
	sum.deep = cnDeep.histories.Load()
	cn.histories.Add(cnDeep.histories.Load())
	cn.transitions.Add(cnDeep.transitions.Load())
	cn.fullChecks.Add(cnDeep.fullChecks.Load())
	cn.reads.Add(cnDeep.reads.Load())
	cn.views.Add(cnDeep.views.Load())
	cn.absent.Add(cnDeep.absent.Load())
	cn.states.Add(cnDeep.states.Load())
	cov = map[string]any{
		"size_menu": fullMenu, "big_menu": bigMenu, "huge_size": hugeSize, "class_menu": classMenu, "mid_menu": midMenu, "configs": len(cfgAll),
		"d1_pair_histories": sum.pairs, "d1_shape": "w1 C w2 C R T T Sa:1 C",
		"d2_same_block_and_dropped_write_histories": sum.overwrite,
		"d3_triple_histories":                       sum.triples,
		"d4_alphabet":                               deepOps, "d4_depth": dDeep, "d4_histories": sum.deep,
		"d123_thread_seconds_by_group": catNs, "d123_wall_s": wall123, "d1234_wall_s": time.Since(t0).Seconds(),
		"keys": "writes go to key a; b and c are only written by the prefill (reads cover a, b, c)",
	}
	return
}
