// C14, message phase: bounded exhaustive enumeration of single bank messages over a small alphabet, delivered to the
// real application's deliver state the way baseapp.runTx delivers the messages of a tx (ValidateBasic of every
// message, then the routed handler on a cache-wrapped multistore that is written back only on success — hook
// BaseApp.VerifRunMsgs, which calls the app's own validateBasicTxMsgs / cacheTxContext / runMsgs), each from a
// prepared pre-state (O(1) snapshot/rollback of the block state via VerifPushDeliver).
//
//   * bank.MsgMultiSend: every shape of 1–2 inputs x 1–3 outputs (thorough: up to 3 x 3), every assignment of the
//     addresses {A, B, N(no account)} to the entries (repeated and overlapping addresses included), every choice of
//     the entries' coins from a menu over one account-tier denom (ugnot) and one split-tier denom (a realm coin):
//     amounts 1, 2, 3, MaxInt64-2, MaxInt64-1, MaxInt64, two-denom sets, and malformed sets (empty, zero, negative,
//     MinInt64, duplicate denom, unsorted, bad denom). Messages the real ValidateBasic refuses are counted and
//     dropped (ValidateBasic is a pure function of the message; baseapp runs it before touching any state); every
//     message it accepts is delivered under every address assignment in every pre-state.
//   * bank.MsgSend: every (from, to) over {A, B, N, zero address} (self-sends included) x the whole coins menu, at
//     message level; from A also as a real signed transaction through DeliverTx (ante, fee).
//   * realm banker boundary menu as real signed transactions: IssueCoin / RemoveCoin / SendCoins (incl. realm to
//     itself) with amounts 0, -1, 1, exactly-fits, one-too-many, MaxInt64; MsgCall.Send over the whole coins menu.
//
// Oracle per delivery: the reference ledger (exact 128-bit sums; a message is valid iff every entry is a well-formed
// positive coin set and inputs equal outputs per denom; it succeeds iff every debit is affordable from the balances
// before the message, debits first; all-or-nothing) predicts the outcome, every balance and the supply per denom; a
// refused message must leave no effective write in any store; after an accepted one the independent decoder runs on
// the pre-state records overlaid with the delivery's writes (well-formedness, re-sum == recorded supply); the first
// time a distinct post-state is reached the repo's bank/auth invariants and a full decode of the store run on it too.
package main

import (
	"bytes"
	"crypto/sha256"
	"fmt"
	"math"
	"math/bits"
	"runtime"
	"sort"
	"strings"
	"sync"
	"sync/atomic"
	"time"

	"github.com/gnolang/gno/tm2/pkg/amino"
	"github.com/gnolang/gno/tm2/pkg/crypto"
	"github.com/gnolang/gno/tm2/pkg/sdk/bank"
	"github.com/gnolang/gno/tm2/pkg/std"
	"github.com/gnolang/gno/tm2/pkg/store/types"
	"verif/engine/chainx"
	"verif/engine/vk"
)

const maxI = int64(math.MaxInt64)

var (
	mExec      atomic.Int64 // deliveries (message level + real txs) of this phase
	mFull      atomic.Int64 // full checks (repo invariants + store decode) on distinct post-states
	mFiltered  atomic.Int64 // messages refused by the real ValidateBasic (counted, not delivered)
	mTuples    atomic.Int64
	postStates sync.Map
	zeroAddr   crypto.Address
)

func amtName(v int64) string {
	switch {
	case v == maxI:
		return "MAX"
	case v > maxI-1000:
		return fmt.Sprintf("MAX-%d", maxI-v)
	case v == math.MinInt64:
		return "MIN"
	}
	return fmt.Sprint(v)
}

func denomName(d string) string {
	if d == tok {
		return "tok"
	}
	return d
}

// ---- coins menu ------------------------------------------------------------------------------------------------

type entry struct {
	name  string
	coins std.Coins
	valid bool // reference: acceptable as the coins of an input / output / send
}

// refDenomOK re-states the denom grammar ([a-z/][a-z0-9_.:/-]{2,}, at most 274 bytes) independently.
func refDenomOK(d string) bool {
	if len(d) < 3 || len(d) > 274 {
		return false
	}
	for i := 0; i < len(d); i++ {
		c := d[i]
		ok := (c >= 'a' && c <= 'z') || c == '/'
		if i > 0 {
			ok = ok || (c >= '0' && c <= '9') || c == '_' || c == '.' || c == ':' || c == '-'
		}
		if !ok {
			return false
		}
	}
	return true
}

// refCoinsOK: non-empty, strictly ascending valid denoms, positive amounts.
func refCoinsOK(c std.Coins) bool {
	if len(c) == 0 {
		return false
	}
	for i, x := range c {
		if !refDenomOK(x.Denom) || x.Amount <= 0 || (i > 0 && c[i-1].Denom >= x.Denom) {
			return false
		}
	}
	return true
}

func mkEntry(pairs ...any) entry {
	var c std.Coins
	var parts []string
	for i := 0; i < len(pairs); i += 2 {
		d, v := pairs[i].(string), pairs[i+1].(int64)
		c = append(c, std.Coin{Denom: d, Amount: v})
		parts = append(parts, amtName(v)+denomName(d))
	}
	name := strings.Join(parts, "+")
	if len(c) == 0 {
		name = "{}"
	}
	return entry{name: name, coins: c, valid: refCoinsOK(c)}
}

var amountMenu = []int64{1, 2, 3, maxI - 2, maxI - 1, maxI}

// coinsMenu returns the well-formed entries and the malformed ones. tok sorts before ugnot ('/' < 'u').
func coinsMenu() (good, bad []entry) {
	for _, d := range []string{tok, "ugnot"} {
		for _, v := range amountMenu {
			good = append(good, mkEntry(d, v))
		}
	}
	for _, p := range [][2]int64{{1, 1}, {1, 2}, {2, 1}, {3, 3}} {
		good = append(good, mkEntry(tok, p[0], "ugnot", p[1]))
	}
	bad = []entry{
		mkEntry(),
		mkEntry("ugnot", int64(0)), mkEntry(tok, int64(0)),
		mkEntry("ugnot", int64(-1)), mkEntry(tok, int64(-1)),
		mkEntry("ugnot", int64(math.MinInt64)),
		mkEntry("ugnot", int64(1), "ugnot", int64(1)), // duplicate denom
		mkEntry("ugnot", int64(1), tok, int64(1)),     // unsorted
		mkEntry(tok, int64(0), "ugnot", int64(1)),     // zero inside a set
		mkEntry("xy", int64(1)),                       // denom too short
	}
	for _, e := range good {
		if !e.valid {
			r.HarnessError("menu entry %s should be well-formed", e.name)
		}
	}
	for _, e := range bad {
		if e.valid {
			r.HarnessError("menu entry %s should be malformed", e.name)
		}
	}
	return
}

// ---- cases -----------------------------------------------------------------------------------------------------

type xfer struct {
	a crypto.Address
	c std.Coins
}

type mcase struct {
	desc    string
	msgs    []std.Msg
	valid   bool   // reference verdict of ValidateBasic
	debits  []xfer // effects when valid: all debits, in order, then all credits
	credits []xfer
	apply   func(l *ledger) bool // alternative to debits/credits (VM menu)
	signer  *chainx.Key          // non-nil: deliver as a real signed tx (fee charged once ValidateBasic passed)
	vm      bool
}

// applyTo: effects of a valid case on the reference ledger; false = must fail and change nothing.
func (cs *mcase) applyTo(l *ledger) bool {
	if cs.apply != nil {
		return cs.apply(l)
	}
	for _, d := range cs.debits {
		for _, c := range d.c {
			if l.get(d.a, c.Denom) < c.Amount {
				return false
			}
			l.add(d.a, c.Denom, -c.Amount)
		}
	}
	for _, d := range cs.credits {
		for _, c := range d.c {
			if l.get(d.a, c.Denom) > maxI-c.Amount {
				return false // cannot happen while the supply fits int64 and coins are conserved
			}
			l.add(d.a, c.Denom, c.Amount)
		}
	}
	return true
}

// u128 sums per denom
type u128 struct{ hi, lo uint64 }

func (x *u128) add(v int64) {
	var c uint64
	x.lo, c = bits.Add64(x.lo, uint64(v), 0)
	x.hi += c
}

// refBalanced: every entry well-formed and, per denom, inputs sum to exactly the outputs (no wrap-around).
func refBalanced(ins, outs []entry) bool {
	in, out := map[string]*u128{}, map[string]*u128{}
	acc := func(m map[string]*u128, es []entry) bool {
		for _, e := range es {
			if !e.valid {
				return false
			}
			for _, c := range e.coins {
				if m[c.Denom] == nil {
					m[c.Denom] = &u128{}
				}
				m[c.Denom].add(c.Amount)
			}
		}
		return true
	}
	if len(ins) == 0 || len(outs) == 0 || !acc(in, ins) || !acc(out, outs) || len(in) != len(out) {
		return false
	}
	for d, s := range in {
		if out[d] == nil || *out[d] != *s {
			return false
		}
	}
	return true
}

var addrMenu []crypto.Address // A, B, N

func multiSendCase(ins, outs []entry, asg []int) *mcase {
	cs := &mcase{valid: refBalanced(ins, outs)}
	var msg bank.MsgMultiSend
	var di, do []string
	for i, e := range ins {
		a := addrMenu[asg[i]]
		msg.Inputs = append(msg.Inputs, bank.Input{Address: a, Coins: e.coins})
		cs.debits = append(cs.debits, xfer{a, e.coins})
		di = append(di, nm(a)+":"+e.name)
	}
	for i, e := range outs {
		a := addrMenu[asg[len(ins)+i]]
		msg.Outputs = append(msg.Outputs, bank.Output{Address: a, Coins: e.coins})
		cs.credits = append(cs.credits, xfer{a, e.coins})
		do = append(do, nm(a)+":"+e.name)
	}
	cs.msgs = []std.Msg{msg}
	cs.desc = "multisend[" + strings.Join(di, " ") + " > " + strings.Join(do, " ") + "]"
	return cs
}

type coinsBox struct{ C std.Coins }

// wireEntry: what a coins set becomes when it travels in a tx (Coins are amino-encoded as a string and re-parsed:
// unsorted sets arrive sorted, malformed ones do not decode at all — the tx is then refused before ValidateBasic).
func wireEntry(e entry) (entry, bool) {
	var out coinsBox
	var err error
	rec := vk.Catch(func() {
		var bz []byte
		if bz, err = amino.Marshal(coinsBox{e.coins}); err == nil {
			err = amino.Unmarshal(bz, &out)
		}
	})
	if rec != nil || err != nil {
		return e, false
	}
	return entry{name: e.name, coins: out.C, valid: refCoinsOK(out.C)}, true
}

func sendCase(from, to crypto.Address, e entry, signer *chainx.Key) *mcase {
	if signer != nil {
		w, ok := wireEntry(e)
		if !ok {
			w.valid = false
		}
		e = w
	}
	cs := &mcase{valid: e.valid && from != zeroAddr && to != zeroAddr, signer: signer}
	cs.msgs = []std.Msg{bank.MsgSend{FromAddress: from, ToAddress: to, Amount: e.coins}}
	cs.debits, cs.credits = []xfer{{from, e.coins}}, []xfer{{to, e.coins}}
	cs.desc = fmt.Sprintf("send[%s > %s %s]", nm(from), nm(to), e.name)
	if signer != nil {
		cs.desc = "tx:" + cs.desc
	}
	return cs
}

// ---- pre-states --------------------------------------------------------------------------------------------------

type prestate struct {
	name string
	led  *ledger
	recs map[string][]byte // the /a/, /b/, /supply/ records of the pre-state
}

func (u *run) mainStore() types.Store {
	_, mainKey := u.c.Base.VerifStoreKeys()
	return u.c.Base.VerifDeliverMultiStore().GetStore(mainKey)
}

func (u *run) capture(name string) *prestate {
	ps := &prestate{name: name, led: u.l.clone(), recs: map[string][]byte{}}
	st := u.mainStore()
	for _, p := range []string{"/a/", "/b/", "/supply/"} {
		scan(st, p, func(k, v []byte) { ps.recs[string(k)] = append([]byte{}, v...) })
	}
	return ps
}

// prepare brings a fresh chain (genesis of phase 1) to the committed pre-state S1:
//   A: ~1e12 ugnot, 3 tok     B: exactly 3 ugnot, no tok     N: no account     realm: 5 ugnot, no tok
// (tok supply 3; C is only a sink). Every prep tx is checked like a phase-1 step.
func (u *run) prepare() {
	drain := u.l.get(B.Addr, "ugnot") - fee - 3
	for _, op := range []opDef{
		{name: "mint(tok,3>A)", signer: A, vm: true,
			msgs:  func() []std.Msg { return []std.Msg{call(A.Addr, nil, "Mint", A.Addr.String(), "tok", "3")} },
			apply: func(l *ledger) bool { return l.mint(A.Addr, tok, 3) }},
		{name: "call+send(A>realm,ugnot5)", signer: A, vm: true,
			msgs:  func() []std.Msg { return []std.Msg{call(A.Addr, cs("ugnot", 5), "Deposit")} },
			apply: func(l *ledger) bool { return l.move(A.Addr, realmAddr, cs("ugnot", 5)) }},
		{name: "drain(B>C,all but 3 ugnot)", signer: B,
			msgs:  func() []std.Msg { return []std.Msg{send(B.Addr, C.Addr, cs2("ugnot", drain))} },
			apply: func(l *ledger) bool { return l.move(B.Addr, C.Addr, cs2("ugnot", drain)) }},
	} {
		u.step(op, "[prep "+op.name+"]")
		if u.bad {
			return
		}
	}
	u.commit("[prep]")
	if u.l.get(B.Addr, "ugnot") != 3 || u.l.get(A.Addr, tok) != 3 || u.l.supply[tok] != 3 {
		r.HarnessError("pre-state S1 not reached: B has %d ugnot, A has %d tok", u.l.get(B.Addr, "ugnot"), u.l.get(A.Addr, tok))
	}
}

// toS2 (inside a pushed layer, never committed) brings the tok supply to exactly MaxInt64, all of it held by A
// (everything else as in S1): amounts near MaxInt64 are really transferable here.
func (u *run) toS2() {
	toA := maxI - u.l.supply[tok]
	op := opDef{name: "mint(tok,up to MaxInt64>A)", signer: A, vm: true,
		msgs:  func() []std.Msg { return []std.Msg{call(A.Addr, nil, "Mint", A.Addr.String(), "tok", fmt.Sprint(toA))} },
		apply: func(l *ledger) bool { return l.mint(A.Addr, tok, toA) }}
	u.step(op, "[prep S2 "+op.name+"]")
	if u.bad {
		return
	}
	if u.l.supply[tok] != maxI || u.l.get(A.Addr, tok) != maxI {
		r.HarnessError("pre-state S2 not reached: tok supply %d", u.l.supply[tok])
	}
}

// ---- one delivery ------------------------------------------------------------------------------------------------

type dirtyLayer interface {
	VerifDirty(f func(key string, value []byte, deleted bool))
	VerifParent() types.Store
}

type change struct {
	k       string
	v       []byte
	deleted bool
}

// changes lists the effective writes of the top cache layer of one store (dirty entries whose value differs from
// what the layer below holds), sorted by key.
func changes(st types.Store) []change {
	dl, ok := st.(dirtyLayer)
	if !ok {
		r.HarnessError("store of the block state is not a cache layer: %T", st)
	}
	var out []change
	par := dl.VerifParent()
	dl.VerifDirty(func(k string, v []byte, deleted bool) {
		pv := par.Get(nil, []byte(k))
		if deleted || v == nil {
			if pv != nil {
				out = append(out, change{k: k, deleted: true})
			}
			return
		}
		if pv == nil || !bytes.Equal(pv, v) {
			out = append(out, change{k: k, v: append([]byte{}, v...)})
		}
	})
	sort.Slice(out, func(i, j int) bool { return out[i].k < out[j].k })
	return out
}

func isLedgerKey(k string) bool {
	return strings.HasPrefix(k, "/a/") || strings.HasPrefix(k, "/b/") || strings.HasPrefix(k, "/supply/")
}

// overlay decodes the pre-state records with the changes applied.
func (ps *prestate) overlay(chs []change) *rawState {
	m := make(map[string][]byte, len(ps.recs)+len(chs))
	for k, v := range ps.recs {
		m[k] = v
	}
	for _, c := range chs {
		if !isLedgerKey(c.k) {
			continue
		}
		if c.deleted {
			delete(m, c.k)
		} else {
			m[c.k] = c.v
		}
	}
	keys := make([]string, 0, len(m))
	for k := range m {
		keys = append(keys, k)
	}
	sort.Strings(keys)
	return decodeRecords(func(prefix string, f func(k, v []byte)) {
		i := sort.SearchStrings(keys, prefix)
		for ; i < len(keys) && strings.HasPrefix(keys[i], prefix); i++ {
			f([]byte(keys[i]), m[keys[i]])
		}
	})
}

func showKey(k string) string {
	var b strings.Builder
	for _, c := range []byte(k) {
		if c >= 32 && c < 127 {
			b.WriteByte(c)
		} else {
			fmt.Fprintf(&b, "\\x%02x", c)
		}
	}
	return b.String()
}

// exec delivers one case on top of the pre-state the chain currently shows and rolls it back.
func (u *run) exec(ps *prestate, cs *mcase) {
	label := ps.name + ":" + cs.desc
	pop := u.c.Base.VerifPushDeliver()
	defer pop()
	r.Distinct(label)
	// reference
	exp := ps.led.clone()
	okExp := false
	if cs.valid {
		if cs.signer != nil && !exp.move(cs.signer.Addr, collector, cs2("ugnot", fee)) {
			r.HarnessError("%s: signer cannot pay the fee", label)
		}
		trial := exp.clone()
		if okExp = cs.applyTo(trial); okExp {
			exp = trial
		}
	}
	// delivery
	var failed bool
	var resClass, log string
	if cs.signer != nil {
		tx := u.c.MakeTx([]chainx.Key{*cs.signer}, cs.msgs, chainx.TxOpt{GasWanted: 50_000_000, FeeAmount: fee})
		res := u.c.DeliverTx(tx)
		failed, log = res.Error != nil, res.Log
		resClass = "tx-ok"
		if failed {
			resClass = "tx-failed:" + errClass(res.Error)
		}
		nTx.Add(1)
		mTxMode.Add(1)
	} else {
		res, stage := u.c.Base.VerifRunMsgs(cs.msgs, 10_000_000, false)
		failed, log = res.Error != nil, res.Log
		resClass = "msg-" + stage
		if failed {
			resClass += ":" + errClass(res.Error)
		}
	}
	mExec.Add(1)
	r.Eval()
	r.Outcome(resClass)
	if strings.Contains(log, "signature verification failed") {
		r.HarnessError("%s: %s", label, firstLine(log))
	}
	if failed == okExp {
		r.Violation("outcome-differs-from-reference:"+label, map[string]any{"case": label, "reference_ok": okExp, "result": resClass, "log": firstLine(log)})
	}
	ms := u.c.Base.VerifDeliverMultiStore()
	baseKey, mainKey := u.c.Base.VerifStoreKeys()
	chs := changes(ms.GetStore(mainKey))
	other := changes(ms.GetStore(baseKey))
	if failed && cs.signer == nil {
		// a refused message: nothing at all may have been written (baseapp discards the cache layer)
		if len(chs)+len(other) > 0 {
			var ks []string
			for _, c := range append(chs, other...) {
				ks = append(ks, showKey(c.k))
			}
			r.Violation("refused-message-left-writes:"+label, map[string]any{"case": label, "result": resClass, "keys": head(ks, 10)})
		}
		return
	}
	raw := ps.overlay(chs)
	if len(raw.problems) > 0 {
		r.Violation("records-malformed-or-supply-mismatch:"+label, map[string]any{"case": label, "result": resClass, "problems": head(raw.problems, 10)})
	}
	if cs.vm {
		// storage deposit of a VM call: this menu changes no realm object, so none may move
		if d := raw.bal[depositAdr]["ugnot"] - exp.get(depositAdr, "ugnot"); d != 0 {
			r.Violation("unexpected-storage-deposit-movement:"+label, map[string]any{"case": label, "delta": d})
			return
		}
	}
	if d := diffLedger(exp, raw); len(d) > 0 {
		r.Violation("balances-differ-from-reference-ledger:"+label, map[string]any{"case": label, "result": resClass, "diff": head(d, 10)})
	}
	// first visit of this post-state: repo invariants + full decode of the store
	h := sha256.New()
	fmt.Fprintf(h, "%s|", ps.name)
	for _, c := range chs {
		fmt.Fprintf(h, "%d:%s=%v:%d:%s;", len(c.k), c.k, c.deleted, len(c.v), c.v)
	}
	var hk [32]byte
	copy(hk[:], h.Sum(nil))
	if _, seen := postStates.LoadOrStore(hk, true); !seen {
		mFull.Add(1)
		nStates.Add(1)
		full := u.check(label, exp)
		if a, b := full.ledger().key(), raw.ledger().key(); a != b {
			r.HarnessError("%s: overlay decode and store decode disagree:\n%s\n%s", label, a, b)
		}
		u.bad = false
	}
}

func cs2(d string, n int64) std.Coins { return std.Coins{std.NewCoin(d, n)} }

// ---- enumeration -------------------------------------------------------------------------------------------------

type shape struct{ nin, nout int }

type tupleJob struct {
	sh  shape
	idx []int // indices into menu, inputs then outputs
}

// acceptedTuples runs the real ValidateBasic on every coins tuple of a shape (addresses do not enter ValidateBasic)
// and returns those it accepts, in enumeration order.
func acceptedTuples(sh shape, menu []entry) []tupleJob {
	n := sh.nin + sh.nout
	m := len(menu)
	total := 1
	for i := 0; i < n; i++ {
		total *= m
	}
	chunk := m * m
	if total < chunk {
		chunk = total
	}
	nchunks := total / chunk
	res := make([][]tupleJob, nchunks)
	var rejected, panicked, refOKrejected atomic.Int64
	r.ParFor(nchunks, func(ci int) {
		idx := make([]int, n)
		for t := ci * chunk; t < (ci+1)*chunk; t++ {
			x := t
			for i := n - 1; i >= 0; i-- {
				idx[i] = x % m
				x /= m
			}
			var msg bank.MsgMultiSend
			ins, outs := make([]entry, 0, 3), make([]entry, 0, 3)
			for i := 0; i < sh.nin; i++ {
				msg.Inputs = append(msg.Inputs, bank.Input{Address: A.Addr, Coins: menu[idx[i]].coins})
				ins = append(ins, menu[idx[i]])
			}
			for i := sh.nin; i < n; i++ {
				msg.Outputs = append(msg.Outputs, bank.Output{Address: B.Addr, Coins: menu[idx[i]].coins})
				outs = append(outs, menu[idx[i]])
			}
			var err error
			rec := vk.Catch(func() { err = msg.ValidateBasic() })
			if rec != nil || err != nil {
				rejected.Add(1)
				if rec != nil {
					panicked.Add(1)
				}
				if refBalanced(ins, outs) {
					refOKrejected.Add(1) // balanced, but a per-denom total passes int64: over-strict, not a conservation matter
				}
				continue
			}
			res[ci] = append(res[ci], tupleJob{sh: sh, idx: append([]int{}, idx...)})
		}
	})
	var out []tupleJob
	for _, x := range res {
		out = append(out, x...)
	}
	mTuples.Add(int64(total))
	mFiltered.Add(rejected.Load())
	r.EvalN(rejected.Load())
	r.OutcomeN("multisend-refused-by-ValidateBasic", rejected.Load()-panicked.Load())
	r.OutcomeN("multisend-refused-by-ValidateBasic(panic)", panicked.Load())
	r.OutcomeN("multisend-refused-though-balanced(total>int64)", refOKrejected.Load())
	return out
}

type job struct {
	ps  int // pre-state index
	run func(u *run, ps *prestate)
}

func messagePhase() (ok bool) {
	addrMenu = []crypto.Address{A.Addr, B.Addr, N1.Addr}
	good, bad := coinsMenu()
	all := append(append([]entry{}, good...), bad...)

	// is MsgMultiSend really not encodable into a tx? (measured, reported as an assumption)
	var encErr error
	encPanic := vk.Catch(func() {
		_, encErr = amino.Marshal(std.Tx{Msgs: []std.Msg{bank.MsgMultiSend{}}, Fee: std.NewFee(1, std.NewCoin("ugnot", 1))})
	})
	if encPanic == nil && encErr == nil {
		r.Outcome("MsgMultiSend-is-amino-encodable")
		multiSendEncodable = true
	}

	// the shapes. Where the tuple space stays small the whole menu (malformed entries too) is used; the larger
	// shapes use the well-formed entries (thorough) or a reduced menu (quick), and fewer pre-states.
	pick := func(names ...string) (out []entry) {
		for _, n := range names {
			found := false
			for _, e := range all {
				if e.name == n {
					out, found = append(out, e), true
				}
			}
			if !found {
				r.HarnessError("no menu entry %q", n)
			}
		}
		return
	}
	type shapeMenu struct {
		sh   shape
		menu []entry
		pre  []int
		nIn  int // how many of the addresses A, B, N may stand in an input (outputs: always all three)
		what string
	}
	both, s1 := []int{0, 1}, []int{0}
	var sms []shapeMenu
	if r.Quick() {
		r22 := pick("1tok", "2tok", "3tok", "MAXtok", "1ugnot", "2ugnot", "3ugnot", "MAXugnot", "1tok+1ugnot")
		r23 := pick("1tok", "2tok", "MAXtok", "1ugnot", "2ugnot")
		r13 := append(append([]entry{}, good...), pick("0tok")...)
		sms = []shapeMenu{{shape{1, 1}, all, both, 3, "whole menu"}, {shape{1, 2}, all, both, 3, "whole menu"}, {shape{2, 1}, all, both, 3, "whole menu"},
			{shape{1, 3}, r13, both, 3, "well-formed entries + 0tok"},
			{shape{2, 2}, r22, s1, 2, "reduced menu {1,2,3,MAX}x{tok,ugnot}+{1tok+1ugnot}, inputs from {A,B}, S1 only"},
			{shape{2, 3}, r23, s1, 2, "reduced menu {1,2}x{tok,ugnot}+MAXtok, inputs from {A,B}, S1 only"}}
	} else {
		r33 := pick("1tok", "2tok", "MAXtok", "1ugnot", "2ugnot")
		sms = []shapeMenu{{shape{1, 1}, all, both, 3, "whole menu"}, {shape{1, 2}, all, both, 3, "whole menu"}, {shape{2, 1}, all, both, 3, "whole menu"},
			{shape{1, 3}, all, both, 3, "whole menu"}, {shape{2, 2}, all, both, 3, "whole menu"}, {shape{3, 1}, all, both, 3, "whole menu"},
			{shape{2, 3}, good, s1, 3, "well-formed entries, S1 only"}, {shape{3, 2}, good, s1, 3, "well-formed entries, S1 only"},
			{shape{3, 3}, r33, s1, 3, "reduced menu {1,2}x{tok,ugnot}+MAXtok, S1 only"}}
	}
	var jobs []job
	nPre := 2
	for _, sm := range sms {
		sm := sm
		acc := acceptedTuples(sm.sh, sm.menu)
		if r.Capped() {
			return false
		}
		nd := len(acc) * pow(sm.nIn, sm.sh.nin) * pow(len(addrMenu), sm.sh.nout) * len(sm.pre)
		shapeCounts = append(shapeCounts, fmt.Sprintf("%dx%d (%s): %d of %d coin tuples accepted by ValidateBasic -> %d deliveries", sm.sh.nin, sm.sh.nout, sm.what, len(acc), pow(len(sm.menu), sm.sh.nin+sm.sh.nout), nd))
		for _, tj := range acc {
			tj := tj
			for _, p := range sm.pre {
				jobs = append(jobs, job{ps: p, run: func(u *run, ps *prestate) {
					n := tj.sh.nin + tj.sh.nout
					var ins, outs []entry
					for i, x := range tj.idx {
						if i < tj.sh.nin {
							ins = append(ins, sm.menu[x])
						} else {
							outs = append(outs, sm.menu[x])
						}
					}
					asg := make([]int, n)
				next:
					for t := 0; t < pow(len(addrMenu), n); t++ {
						x := t
						for i := n - 1; i >= 0; i-- {
							asg[i] = x % len(addrMenu)
							x /= len(addrMenu)
							if i < tj.sh.nin && asg[i] >= sm.nIn {
								continue next
							}
						}
						u.exec(ps, multiSendCase(ins, outs, asg))
					}
				}})
			}
		}
	}
	// MsgSend: message level over {A,B,N,zero}^2 x whole menu; from A also as a real signed tx
	sendAddrs := []crypto.Address{A.Addr, B.Addr, N1.Addr, zeroAddr}
	names[zeroAddr] = "ZERO"
	for p := 0; p < nPre; p++ {
		for _, from := range sendAddrs {
			from := from
			jobs = append(jobs, job{ps: p, run: func(u *run, ps *prestate) {
				for _, to := range sendAddrs {
					for _, e := range all {
						u.exec(ps, sendCase(from, to, e, nil))
					}
				}
			}})
		}
		for _, to := range sendAddrs {
			to := to
			jobs = append(jobs, job{ps: p, run: func(u *run, ps *prestate) {
				for _, e := range all {
					u.exec(ps, sendCase(A.Addr, to, e, &A))
				}
			}})
		}
		for _, g := range vmMenu(all) {
			g := g
			jobs = append(jobs, job{ps: p, run: func(u *run, ps *prestate) {
				for _, cs := range g(ps) {
					u.exec(ps, cs)
				}
			}})
		}
	}
	// small jobs of pre-state 0 first, then pre-state 1 (each worker switches pre-state once)
	sort.SliceStable(jobs, func(i, j int) bool { return jobs[i].ps < jobs[j].ps })

	// soft share of the tier budget (quick 240 s -> 96 s, thorough 30 min -> 9 min); on expiry: not exhaustive
	share := r.Budget * 2 / 5
	if r.Thorough() {
		share = r.Budget * 3 / 10
	}
	deadline := time.Now().Add(share)
	workers := runtime.GOMAXPROCS(0)
	if workers > 8 && r.Quick() {
		workers = 8 // every worker builds a chain of its own (~1-2 CPU-s)
	}
	var next atomic.Int64
	var done atomic.Int64
	var wg sync.WaitGroup
	for w := 0; w < workers; w++ {
		wg.Add(1)
		go func() {
			defer wg.Done()
			u := newRun()
			u.prepare()
			if u.bad {
				return
			}
			// both pre-states are built once per worker, whatever jobs it ends up with (same counts every run)
			pss := []*prestate{u.capture("S1"), nil}
			s1Ledger := u.l
			popS2 := u.c.Base.VerifPushDeliver()
			u.toS2()
			if u.bad {
				return
			}
			pss[1] = u.capture("S2")
			s2Ledger := u.l
			cur := 1 // the chain currently shows S2; S1 is one pop away (jobs are sorted S2 last, so: re-push lazily)
			show := func(p int) {
				if p == cur {
					return
				}
				if p == 0 {
					popS2()
					u.l = s1Ledger
				} else {
					// rebuild the S2 layer with the same tx (not counted again: same state, checked above)
					popS2 = u.c.Base.VerifPushDeliver()
					toA := maxI - s1Ledger.supply[tok]
					tx := u.c.MakeTx(keys, []std.Msg{call(A.Addr, nil, "Mint", A.Addr.String(), "tok", fmt.Sprint(toA))}, chainx.TxOpt{GasWanted: 50_000_000, FeeAmount: fee})
					if res := u.c.DeliverTx(tx); res.Error != nil {
						r.HarnessError("re-building S2: %v", res.Error)
					}
					u.l = s2Ledger
				}
				cur = p
			}
			for {
				i := int(next.Add(1) - 1)
				if i >= len(jobs) || r.Expired() || time.Now().After(deadline) {
					break
				}
				j := jobs[i]
				show(j.ps)
				j.run(u, pss[j.ps])
				done.Add(1)
			}
		}()
	}
	wg.Wait()
	mJobs = len(jobs)
	return int(done.Load()) == len(jobs)
}

// mMsgLevel: deliveries of the message phase that did not go through DeliverTx (those are counted in nTx)
func mMsgLevel() int64 { return mExec.Load() - mTxMode.Load() }

var mTxMode atomic.Int64

var preStateDesc = []string{
	"S1 (committed): A ~1e12 ugnot + 3 tok (whole tok supply) + 1000 atom; B exactly 3 ugnot, no tok; N1 no account; realm 5 ugnot",
	"S2 (S1 + uncommitted layer): tok supply exactly MaxInt64, all held by A",
}

var (
	shapeCounts        []string
	mJobs              int
	multiSendEncodable bool
)

func pow(b, e int) int {
	n := 1
	for i := 0; i < e; i++ {
		n *= b
	}
	return n
}

// vmMenu: realm banker boundary cases as real signed txs from A (groups of cases, built against the pre-state).
func vmMenu(all []entry) []func(ps *prestate) []*mcase {
	i64 := func(n int64) string { return fmt.Sprint(n) }
	vmCase := func(desc string, msg std.Msg, apply func(l *ledger) bool) *mcase {
		return &mcase{desc: "tx:" + desc, msgs: []std.Msg{msg}, valid: true, apply: apply, signer: &A, vm: true}
	}
	mint := func(ps *prestate) (out []*mcase) {
		room := maxI - ps.led.supply[tok]
		for _, to := range []crypto.Address{A.Addr, N1.Addr, realmAddr} {
			for _, n := range uniq(0, -1, 1, room, room+1, maxI, math.MinInt64) {
				to, n := to, n
				out = append(out, vmCase(fmt.Sprintf("mint(tok,%s>%s)", amtOrRoom(n, room), nm(to)),
					call(A.Addr, nil, "Mint", to.String(), "tok", i64(n)),
					func(l *ledger) bool { return l.mint(to, tok, n) }))
			}
		}
		return
	}
	burn := func(ps *prestate) (out []*mcase) {
		for _, from := range []crypto.Address{A.Addr, B.Addr, N1.Addr} {
			bal := ps.led.get(from, tok)
			for _, n := range uniq(0, -1, 1, bal, bal+1, maxI, math.MinInt64) {
				from, n := from, n
				out = append(out, vmCase(fmt.Sprintf("burn(tok,%s<%s holding %s)", amtName(n), nm(from), amtName(bal)),
					call(A.Addr, nil, "Burn", from.String(), "tok", i64(n)),
					func(l *ledger) bool { return l.burn(from, tok, n) }))
			}
		}
		return
	}
	payout := func(ps *prestate) (out []*mcase) {
		for _, to := range []crypto.Address{realmAddr, A.Addr, N1.Addr} {
			for _, d := range []string{"ugnot", tok} {
				bal := ps.led.get(realmAddr, d)
				for _, n := range uniq(0, -1, 1, bal, bal+1, maxI, math.MinInt64) {
					to, d, n := to, d, n
					out = append(out, vmCase(fmt.Sprintf("payout(realm>%s,%s%s of %s)", nm(to), amtName(n), denomName(d), amtName(bal)),
						call(A.Addr, nil, "Payout", to.String(), d, i64(n)),
						func(l *ledger) bool {
							if n < 0 {
								return false
							}
							if n == 0 {
								return true // sending nothing is a no-op
							}
							return l.move(realmAddr, to, cs2(d, n))
						}))
				}
			}
		}
		return
	}
	callSend := func(ps *prestate) (out []*mcase) {
		for _, e := range all {
			e := e
			w, decodable := wireEntry(e)
			e = w
			c := vmCase(fmt.Sprintf("call+send(A>realm,%s)", e.name), call(A.Addr, e.coins, "Deposit"),
				func(l *ledger) bool { return l.move(A.Addr, realmAddr, e.coins) })
			c.valid = decodable && (e.valid || len(e.coins) == 0) // MsgCall.ValidateBasic: Send must be a valid set; empty = no coins attached
			out = append(out, c)
		}
		return
	}
	return []func(ps *prestate) []*mcase{mint, burn, payout, callSend}
}

func amtOrRoom(n, room int64) string {
	switch n {
	case room:
		return "exactly-to-MaxInt64-supply"
	case room + 1:
		return "one-past-MaxInt64-supply"
	}
	return amtName(n)
}

func uniq(v ...int64) []int64 {
	var out []int64
	seen := map[int64]bool{}
	for _, x := range v {
		if !seen[x] {
			seen[x] = true
			out = append(out, x)
		}
	}
	return out
}
