// C14: coin supply is conserved and balance records stay well-formed.
//
// Real gno.land app (engine chainx). Two parts.
//
// (1) Histories. Every history of <=2 (quick) / <=3 (thorough) transactions over a menu of
// 13 (16) operations — bank sends of the account-tier denom (ugnot), of a split-tier denom (atom: partial, whole
// balance, to a brand-new address), of several denoms at once, of a realm-issued denom; realm coin mint / burn /
// mint-to-new-address / mint-then-panic / mint at the int64 supply cap / mint of a foreign denom through the
// banker of a purpose-built realm; storage-deposit lock and refund; coins attached to a call; realm pay-out; a
// multi-message tx (mint, transfer, burn); every tx pays a fee — is delivered to the real application, two txs per
// block. After EVERY tx (on the block's working state) and after every commit (on the committed state):
//   (1) the repo's own bank.AllInvariants and auth.AllInvariants hold;
//   (2) an independent decoder of the raw main-store records (/a/ accounts, /b/ split balances, /supply/ counters)
//       finds them well-formed (positive 8-byte amounts, denom in the right tier, account under its own address,
//       every balance owner has an account) and the re-summed balances equal the recorded supply per denom in both
//       directions;
//   (3) a boring reference ledger (per address and denom; all-or-nothing messages; fee always paid) predicts the
//       tx outcome and every balance, and the supply per denom — so supply moves only by the explicit mint/burn
//       amounts of successful txs. The only number taken from the implementation is the size of a storage deposit
//       lock/refund (sign-constrained, moved between the caller and the realm's deposit address only).
//
// (2) Message phase (msgphase.go, runs first): single messages over a small alphabet of addresses (repeated and
// overlapping across inputs and outputs), denoms and boundary amounts — multi-sends, sends incl. self-sends, realm
// banker calls — delivered like baseapp delivers the messages of a tx, with the same three oracles.
package main

import (
	"encoding/binary"
	"fmt"
	"math"
	"os"
	"runtime/debug"
	"runtime/pprof"
	"sort"
	"strings"
	"sync"
	"sync/atomic"
	"time"

	"github.com/gnolang/gno/gno.land/pkg/gnoland"
	"github.com/gnolang/gno/gnovm/pkg/gnolang"
	"github.com/gnolang/gno/tm2/pkg/amino"
	abci "github.com/gnolang/gno/tm2/pkg/bft/abci/types"
	bft "github.com/gnolang/gno/tm2/pkg/bft/types"
	"github.com/gnolang/gno/tm2/pkg/crypto"
	"github.com/gnolang/gno/tm2/pkg/db/memdb"
	"github.com/gnolang/gno/tm2/pkg/log"
	"github.com/gnolang/gno/tm2/pkg/sdk"
	"github.com/gnolang/gno/tm2/pkg/sdk/auth"
	"github.com/gnolang/gno/tm2/pkg/sdk/bank"
	"github.com/gnolang/gno/tm2/pkg/sdk/params"
	"github.com/gnolang/gno/tm2/pkg/std"
	"github.com/gnolang/gno/tm2/pkg/store"
	"verif/engine/chainx"
	"verif/engine/vk"
)

var r *vk.Run

const coinPath = "gno.land/r/verif/coin"
const denomPrefix = "/" + coinPath + ":"
const tok, big = denomPrefix + "tok", denomPrefix + "big"

const realmCoin = `package coin

import (
	"chain"
	"chain/banker"
)

type item struct{ s string }

var items []*item

const prefix = "/gno.land/r/verif/coin:"

func Mint(cur realm, to address, base string, n int64) {
	banker.NewBanker(banker.BankerTypeRealmIssue, cur).IssueCoin(to, prefix+base, n)
}

func Burn(cur realm, from address, base string, n int64) {
	banker.NewBanker(banker.BankerTypeRealmIssue, cur).RemoveCoin(from, prefix+base, n)
}

func MintRaw(cur realm, to address, denom string, n int64) {
	banker.NewBanker(banker.BankerTypeRealmIssue, cur).IssueCoin(to, denom, n)
}

func MintThenPanic(cur realm, to address, n int64) {
	banker.NewBanker(banker.BankerTypeRealmIssue, cur).IssueCoin(to, prefix+"tok", n)
	panic("boom")
}

func Grow(cur realm, n int) int {
	for i := 0; i < n; i++ {
		items = append(items, &item{s: "xxxxxxxxxxxxxxxxxxxxxxxxxxxxxxxxxxxxxxxxxxxxxxxx"})
	}
	return len(items)
}

func Shrink(cur realm, n int) int {
	for i := 0; i < n && len(items) > 0; i++ {
		items[len(items)-1] = nil
		items = items[:len(items)-1]
	}
	return len(items)
}

func Deposit(cur realm) {}

func Payout(cur realm, to address, denom string, n int64) {
	banker.NewBanker(banker.BankerTypeRealmSend, cur).SendCoins(cur.Address(), to, chain.Coins{{denom, n}})
}
`

var (
	A, B, C    = chainx.NewKey("A"), chainx.NewKey("B"), chainx.NewKey("C")
	N1, N2     = chainx.NewKey("N1"), chainx.NewKey("N2") // never funded at genesis
	keys       = []chainx.Key{A, B, C}
	collector  = auth.DefaultParams().FeeCollector
	realmAddr  = gnolang.DerivePkgCryptoAddr(coinPath)
	depositAdr = gnolang.DeriveStorageDepositCryptoAddr(coinPath)
	names      = map[crypto.Address]string{A.Addr: "A", B.Addr: "B", C.Addr: "C", N1.Addr: "N1", N2.Addr: "N2", collector: "collector", realmAddr: "realm", depositAdr: "deposit"}
)

const (
	fund = int64(1_000_000_000_000)
	fee  = int64(1_000_000)
)

func nm(a crypto.Address) string {
	if n, ok := names[a]; ok {
		return n
	}
	return a.String()
}

func spec() chainx.Spec {
	s := chainx.Spec{Keys: keys, Fund: fund, ExtraCoins: std.Coins{std.NewCoin("atom", 1000)}}
	s.GenesisTxs = []std.Tx{{
		Msgs:       []std.Msg{chainx.AddPkg(A.Addr, coinPath, map[string]string{"coin.gno": realmCoin})},
		Fee:        std.NewFee(100_000_000, std.NewCoin("ugnot", fee)),
		Signatures: []std.Signature{{}},
	}}
	return s
}

// ---- reference ledger ---------------------------------------------------------------------------------------

type ledger struct {
	bal    map[crypto.Address]map[string]int64
	supply map[string]int64
}

func (l *ledger) clone() *ledger {
	n := &ledger{bal: map[crypto.Address]map[string]int64{}, supply: map[string]int64{}}
	for a, m := range l.bal {
		n.bal[a] = map[string]int64{}
		for d, v := range m {
			n.bal[a][d] = v
		}
	}
	for d, v := range l.supply {
		n.supply[d] = v
	}
	return n
}

func (l *ledger) get(a crypto.Address, d string) int64 { return l.bal[a][d] }

func (l *ledger) add(a crypto.Address, d string, n int64) {
	if l.bal[a] == nil {
		l.bal[a] = map[string]int64{}
	}
	l.bal[a][d] += n
	if l.bal[a][d] == 0 {
		delete(l.bal[a], d)
	}
}

// move: all-or-nothing transfer of several denoms
func (l *ledger) move(from, to crypto.Address, cs std.Coins) bool {
	for _, c := range cs {
		if l.get(from, c.Denom) < c.Amount {
			return false
		}
	}
	for _, c := range cs {
		l.add(from, c.Denom, -c.Amount)
		l.add(to, c.Denom, c.Amount)
	}
	return true
}

func (l *ledger) mint(to crypto.Address, d string, n int64) bool {
	if n <= 0 || l.supply[d] > math.MaxInt64-n {
		return false
	}
	l.add(to, d, n)
	l.supply[d] += n
	return true
}

func (l *ledger) burn(from crypto.Address, d string, n int64) bool {
	if n <= 0 || l.get(from, d) < n || l.supply[d] < n {
		return false
	}
	l.add(from, d, -n)
	l.supply[d] -= n
	if l.supply[d] == 0 {
		delete(l.supply, d)
	}
	return true
}

func (l *ledger) key() string {
	var s []string
	for a, m := range l.bal {
		for d, v := range m {
			s = append(s, fmt.Sprintf("%s/%s=%d", nm(a), d, v))
		}
	}
	for d, v := range l.supply {
		s = append(s, fmt.Sprintf("S/%s=%d", d, v))
	}
	sort.Strings(s)
	return strings.Join(s, ";")
}

// ---- the menu ------------------------------------------------------------------------------------------------

type opDef struct {
	name    string
	signer  chainx.Key
	msgs    func() []std.Msg
	apply   func(l *ledger) bool // effects of the messages on the reference ledger (false: the tx fails)
	vm      bool                 // contains VM calls
	deposit int                  // storage deposit: +1 lock expected (>0), -1 refund allowed (<=0), 0 none
}

func cs(pairs ...any) std.Coins {
	var out std.Coins
	for i := 0; i < len(pairs); i += 2 {
		out = append(out, std.NewCoin(pairs[i].(string), int64(pairs[i+1].(int))))
	}
	sort.Slice(out, func(i, j int) bool { return out[i].Denom < out[j].Denom })
	return out
}

func send(from, to crypto.Address, c std.Coins) std.Msg {
	return bank.MsgSend{FromAddress: from, ToAddress: to, Amount: c}
}

func call(from crypto.Address, sendc std.Coins, fn string, args ...string) std.Msg {
	return chainx.Call(from, sendc, coinPath, fn, args...)
}

func menu() []opDef {
	i64 := func(n int64) string { return fmt.Sprint(n) }
	ops := []opDef{
		{name: "send-ugnot(A>B,1000)", signer: A,
			msgs:  func() []std.Msg { return []std.Msg{send(A.Addr, B.Addr, cs("ugnot", 1000))} },
			apply: func(l *ledger) bool { return l.move(A.Addr, B.Addr, cs("ugnot", 1000)) }},
		{name: "send-atom-all(A>N1,1000)", signer: A,
			msgs:  func() []std.Msg { return []std.Msg{send(A.Addr, N1.Addr, cs("atom", 1000))} },
			apply: func(l *ledger) bool { return l.move(A.Addr, N1.Addr, cs("atom", 1000)) }},
		{name: "send-atom-part(B>A,400)", signer: B,
			msgs:  func() []std.Msg { return []std.Msg{send(B.Addr, A.Addr, cs("atom", 400))} },
			apply: func(l *ledger) bool { return l.move(B.Addr, A.Addr, cs("atom", 400)) }},
		{name: "send-mixed(A>C,atom300+tok200+ugnot5)", signer: A,
			msgs:  func() []std.Msg { return []std.Msg{send(A.Addr, C.Addr, cs("atom", 300, tok, 200, "ugnot", 5))} },
			apply: func(l *ledger) bool { return l.move(A.Addr, C.Addr, cs("atom", 300, tok, 200, "ugnot", 5)) }},
		{name: "mint(tok,500>A)", signer: A, vm: true,
			msgs:  func() []std.Msg { return []std.Msg{call(A.Addr, nil, "Mint", A.Addr.String(), "tok", "500")} },
			apply: func(l *ledger) bool { return l.mint(A.Addr, tok, 500) }},
		{name: "mint(tok,7>N2 new)", signer: A, vm: true,
			msgs:  func() []std.Msg { return []std.Msg{call(A.Addr, nil, "Mint", N2.Addr.String(), "tok", "7")} },
			apply: func(l *ledger) bool { return l.mint(N2.Addr, tok, 7) }},
		{name: "burn(tok,500<A)", signer: A, vm: true,
			msgs:  func() []std.Msg { return []std.Msg{call(A.Addr, nil, "Burn", A.Addr.String(), "tok", "500")} },
			apply: func(l *ledger) bool { return l.burn(A.Addr, tok, 500) }},
		{name: "mint-then-panic", signer: A, vm: true,
			msgs:  func() []std.Msg { return []std.Msg{call(A.Addr, nil, "MintThenPanic", B.Addr.String(), "9")} },
			apply: func(l *ledger) bool { return false }},
		{name: "grow(20)", signer: A, vm: true, deposit: +1,
			msgs:  func() []std.Msg { return []std.Msg{call(A.Addr, nil, "Grow", "20")} },
			apply: func(l *ledger) bool { return true }},
		{name: "shrink(20)", signer: B, vm: true, deposit: -1,
			msgs:  func() []std.Msg { return []std.Msg{call(B.Addr, nil, "Shrink", "20")} },
			apply: func(l *ledger) bool { return true }},
		{name: "call+send(A>realm,atom50+ugnot5000)", signer: A, vm: true,
			msgs:  func() []std.Msg { return []std.Msg{call(A.Addr, cs("atom", 50, "ugnot", 5000), "Deposit")} },
			apply: func(l *ledger) bool { return l.move(A.Addr, realmAddr, cs("atom", 50, "ugnot", 5000)) }},
		{name: "payout(realm>B,ugnot5000)", signer: B, vm: true,
			msgs:  func() []std.Msg { return []std.Msg{call(B.Addr, nil, "Payout", B.Addr.String(), "ugnot", "5000")} },
			apply: func(l *ledger) bool { return l.move(realmAddr, B.Addr, cs("ugnot", 5000)) }},
		{name: "mint-at-cap(big,MaxInt64-5>A)", signer: A, vm: true,
			msgs:  func() []std.Msg { return []std.Msg{call(A.Addr, nil, "Mint", A.Addr.String(), "big", i64(math.MaxInt64-5))} },
			apply: func(l *ledger) bool { return l.mint(A.Addr, big, math.MaxInt64-5) }},
	}
	if r.Thorough() {
		ops = append(ops,
			opDef{name: "multi[mint(tok,300>A);send(tok,A>B,100);burn(tok,100<B)]", signer: A, vm: true,
				msgs: func() []std.Msg {
					return []std.Msg{call(A.Addr, nil, "Mint", A.Addr.String(), "tok", "300"), send(A.Addr, B.Addr, cs(tok, 100)),
						call(A.Addr, nil, "Burn", B.Addr.String(), "tok", "100")}
				},
				apply: func(l *ledger) bool {
					return l.mint(A.Addr, tok, 300) && l.move(A.Addr, B.Addr, cs(tok, 100)) && l.burn(B.Addr, tok, 100)
				}},
			opDef{name: "mint-foreign-denom(ugnot)", signer: A, vm: true,
				msgs:  func() []std.Msg { return []std.Msg{call(A.Addr, nil, "MintRaw", A.Addr.String(), "ugnot", "1000")} },
				apply: func(l *ledger) bool { return false }},
			opDef{name: "payout(realm>N1,atom50)", signer: B, vm: true,
				msgs:  func() []std.Msg { return []std.Msg{call(B.Addr, nil, "Payout", N1.Addr.String(), "atom", "50")} },
				apply: func(l *ledger) bool { return l.move(realmAddr, N1.Addr, cs("atom", 50)) }},
		)
	}
	return ops
}

// ---- independent reading of the raw records ------------------------------------------------------------------------

type rawState struct {
	bal      map[crypto.Address]map[string]int64
	recorded map[string]int64
	problems []string
}

func scan(st store.Store, prefix string, f func(k, v []byte)) {
	end := append([]byte(prefix[:len(prefix)-1]), prefix[len(prefix)-1]+1)
	it := st.Iterator(nil, []byte(prefix), end)
	defer it.Close()
	for ; it.Valid(); it.Next() {
		f(it.Key(), it.Value())
	}
}

// readRaw decodes /a/, /b/ and /supply/ with its own code (no keeper accessor).
func readRaw(main store.Store) *rawState {
	return decodeRecords(func(prefix string, f func(k, v []byte)) { scan(main, prefix, f) })
}

// decodeRecords is the decoder behind readRaw; scan yields the records under a prefix in key order (from a store,
// or — message phase — from the records of a pre-state overlaid with the writes of one delivery).
func decodeRecords(scanRecs func(prefix string, f func(k, v []byte))) *rawState {
	s := &rawState{bal: map[crypto.Address]map[string]int64{}, recorded: map[string]int64{}}
	bad := func(f string, a ...any) { s.problems = append(s.problems, fmt.Sprintf(f, a...)) }
	put := func(a crypto.Address, d string, n int64) {
		if s.bal[a] == nil {
			s.bal[a] = map[string]int64{}
		}
		if _, dup := s.bal[a][d]; dup {
			bad("%s holds %q in two places", nm(a), d)
		}
		s.bal[a][d] += n
	}
	hasAcc := map[crypto.Address]bool{}
	scanRecs("/a/", func(k, v []byte) {
		if len(k) != 3+crypto.AddressSize {
			return // session sub-keys hold no coins (C16's subject)
		}
		var addr crypto.Address
		copy(addr[:], k[3:])
		var acc std.Account
		if err := amino.Unmarshal(v, &acc); err != nil || acc == nil {
			bad("account %s undecodable", nm(addr))
			return
		}
		hasAcc[addr] = true
		if acc.GetAddress() != addr {
			bad("account object of %s is filed under %s", nm(acc.GetAddress()), nm(addr))
		}
		prev := ""
		for _, c := range acc.GetCoins() {
			if c.Denom != "ugnot" {
				bad("account object of %s holds %q (not an account-tier denom)", nm(addr), c.Denom)
			}
			if c.Amount <= 0 {
				bad("account object of %s holds non-positive %d%s", nm(addr), c.Amount, c.Denom)
			}
			if c.Denom <= prev {
				bad("account object of %s: coins not sorted/unique", nm(addr))
			}
			prev = c.Denom
			put(addr, c.Denom, c.Amount)
		}
	})
	scanRecs("/b/", func(k, v []byte) {
		if len(k) <= 3+crypto.AddressSize {
			bad("malformed balance key %x", k)
			return
		}
		var addr crypto.Address
		copy(addr[:], k[3:])
		denom := string(k[3+crypto.AddressSize:])
		if len(v) != 8 {
			bad("balance %s/%s: value of %d bytes", nm(addr), denom, len(v))
			return
		}
		u := binary.BigEndian.Uint64(v)
		if u == 0 || u > math.MaxInt64 {
			bad("balance %s/%s: amount %d not a positive int64", nm(addr), denom, u)
			return
		}
		if denom == "ugnot" {
			bad("balance %s: account-tier denom ugnot filed in the split tier", nm(addr))
		}
		if std.ValidateDenom(denom) != nil {
			bad("balance %s: invalid denom %q", nm(addr), denom)
		}
		if !hasAcc[addr] {
			bad("%s holds %d%s but has no account object", nm(addr), u, denom)
		}
		put(addr, denom, int64(u))
	})
	scanRecs("/supply/", func(k, v []byte) {
		denom := string(k[len("/supply/"):])
		if len(v) != 8 {
			bad("supply record %q: value of %d bytes", denom, len(v))
			return
		}
		u := binary.BigEndian.Uint64(v)
		if denom == "" || u == 0 || u > math.MaxInt64 {
			bad("supply record %q: amount %d not a positive int64", denom, u)
			return
		}
		s.recorded[denom] = int64(u)
	})
	// re-sum
	sum := map[string]int64{}
	over := map[string]bool{}
	for _, m := range s.bal {
		for d, v := range m {
			if sum[d] > math.MaxInt64-v {
				over[d] = true
			}
			sum[d] += v
		}
	}
	for d, v := range sum {
		if over[d] {
			bad("balances of %q sum past int64", d)
		} else if s.recorded[d] != v {
			bad("denom %q: balances sum to %d, recorded supply %d", d, v, s.recorded[d])
		}
	}
	for d, v := range s.recorded {
		if _, ok := sum[d]; !ok {
			bad("denom %q: recorded supply %d but nobody holds any", d, v)
		}
	}
	sort.Strings(s.problems)
	return s
}

func (s *rawState) ledger() *ledger {
	l := &ledger{bal: map[crypto.Address]map[string]int64{}, supply: map[string]int64{}}
	for a, m := range s.bal {
		for d, v := range m {
			l.add(a, d, v)
		}
	}
	for d, v := range s.recorded {
		l.supply[d] = v
	}
	return l
}

// diffLedger lists differences between the reference ledger and the raw state.
func diffLedger(exp *ledger, got *rawState) []string {
	var out []string
	seen := map[string]bool{}
	for a, m := range exp.bal {
		for d, v := range m {
			seen[nm(a)+"/"+d] = true
			if got.bal[a][d] != v {
				out = append(out, fmt.Sprintf("%s/%s: reference %d, chain %d", nm(a), d, v, got.bal[a][d]))
			}
		}
	}
	for a, m := range got.bal {
		for d, v := range m {
			if !seen[nm(a)+"/"+d] && v != 0 {
				out = append(out, fmt.Sprintf("%s/%s: reference 0, chain %d", nm(a), d, v))
			}
		}
	}
	for d, v := range exp.supply {
		if got.recorded[d] != v {
			out = append(out, fmt.Sprintf("supply %s: reference %d, chain %d", d, v, got.recorded[d]))
		}
	}
	for d, v := range got.recorded {
		if _, ok := exp.supply[d]; !ok {
			out = append(out, fmt.Sprintf("supply %s: reference 0, chain %d", d, v))
		}
	}
	sort.Strings(out)
	return out
}

// ---- one chain ------------------------------------------------------------------------------------------------------

var (
	nTx      atomic.Int64
	nChains  atomic.Int64
	nInv     atomic.Int64
	stateSet sync.Map
	nStates  atomic.Int64
)

type run struct {
	c    *chainx.Chain
	l    *ledger
	acck auth.AccountKeeper
	view bank.ViewKeeper
	bad  bool
}

func newRun() *run {
	c, err := chainx.New(memdb.NewMemDB(), spec())
	if err != nil {
		r.HarnessError("chain init: %v", err)
	}
	for _, tr := range c.Init.TxResponses {
		if tr.Error != nil {
			r.HarnessError("genesis tx failed: %v %s", tr.Error, tr.Log)
		}
	}
	nChains.Add(1)
	_, mainKey := c.Base.VerifStoreKeys()
	prmk := params.NewParamsKeeper(mainKey)
	acck := auth.NewAccountKeeper(mainKey, prmk.ForModule(auth.ModuleName), gnoland.ProtoGnoAccount, gnoland.ProtoGnoSessionAccount)
	// the same account-tier allowlist as gnoland.NewAppWithOptions (compiled in there, consensus-critical)
	view := bank.NewViewKeeper(acck, mainKey, []string{"ugnot"})
	u := &run{c: c, acck: acck, view: view}
	c.BeginBlock()
	raw := u.check("genesis", nil)
	u.l = raw.ledger()
	return u
}

func (u *run) ctx() sdk.Context {
	ms := u.c.Base.VerifDeliverMultiStore()
	return sdk.NewContext(sdk.RunTxModeDeliver, ms, &bft.Header{ChainID: chainx.ChainID, Height: u.c.Height + 1, Time: u.c.LastTime}, log.NewNoopLogger())
}

// check evaluates oracles (1) and (2) on the current block state; exp (if given) is oracle (3).
func (u *run) check(label string, exp *ledger) *rawState {
	ctx := u.ctx()
	_, mainKey := u.c.Base.VerifStoreKeys()
	nInv.Add(1)
	if msg, broken := bank.AllInvariants(u.view)(ctx); broken {
		u.bad = true
		r.Violation("bank-invariant-broken:"+label, map[string]any{"history": label, "report": clip(msg)})
	}
	if msg, broken := auth.AllInvariants(u.acck)(ctx); broken {
		u.bad = true
		r.Violation("auth-invariant-broken:"+label, map[string]any{"history": label, "report": clip(msg)})
	}
	raw := readRaw(ctx.Store(mainKey))
	if len(raw.problems) > 0 {
		u.bad = true
		r.Violation("records-malformed-or-supply-mismatch:"+label, map[string]any{"history": label, "problems": head(raw.problems, 10)})
	}
	if exp != nil {
		if d := diffLedger(exp, raw); len(d) > 0 {
			u.bad = true
			r.Violation("balances-differ-from-reference-ledger:"+label, map[string]any{"history": label, "diff": head(d, 10)})
		}
	}
	return raw
}

func clip(s string) string {
	if len(s) > 600 {
		return s[:600] + "…"
	}
	return s
}

func head(s []string, n int) []string {
	if len(s) > n {
		return append(s[:n:n], fmt.Sprintf("... %d more", len(s)-n))
	}
	return s
}

func firstLine(s string) string {
	if i := strings.IndexByte(s, '\n'); i >= 0 {
		s = s[:i]
	}
	if len(s) > 200 {
		s = s[:200]
	}
	return s
}

func errClass(e abci.Error) string {
	if e == nil {
		return "ok"
	}
	return strings.TrimPrefix(fmt.Sprintf("%T", e), "std.")
}

// step delivers op and checks everything. label = the history so far including op.
func (u *run) step(op opDef, label string) {
	tx := u.c.MakeTx(keys, op.msgs(), chainx.TxOpt{GasWanted: 50_000_000, FeeAmount: fee})
	// reference: fee first (the ante always accepts these txs), then the messages all-or-nothing
	exp := u.l.clone()
	if !exp.move(op.signer.Addr, collector, cs("ugnot", int(fee))) {
		r.HarnessError("%s: signer cannot pay the fee", label)
	}
	trial := exp.clone()
	okExp := op.apply(trial)
	if okExp {
		exp = trial
	}
	res := u.c.DeliverTx(tx)
	nTx.Add(1)
	r.Eval()
	cls := "tx-ok"
	if res.Error != nil {
		cls = "tx-failed:" + errClass(res.Error)
	}
	r.Outcome(cls)
	if (res.Error == nil) != okExp {
		u.bad = true
		r.Violation("tx-outcome-differs-from-reference:"+label, map[string]any{"history": label, "reference_ok": okExp, "result": errClass(res.Error), "log": firstLine(res.Log)})
		return
	}
	// storage deposit: the one quantity read from the implementation (sign-constrained)
	ctx := u.ctx()
	_, mainKey := u.c.Base.VerifStoreKeys()
	raw := readRaw(ctx.Store(mainKey))
	d := raw.bal[depositAdr]["ugnot"] - exp.get(depositAdr, "ugnot")
	if d != 0 {
		legit := okExp && op.vm && ((op.deposit > 0 && d > 0) || (op.deposit < 0 && d < 0))
		if !legit {
			u.bad = true
			r.Violation("unexpected-storage-deposit-movement:"+label, map[string]any{"history": label, "delta": d})
			return
		}
		if d > 0 {
			r.Outcome("deposit-locked")
			exp.move(op.signer.Addr, depositAdr, cs("ugnot", int(d)))
		} else {
			r.Outcome("deposit-refunded")
			exp.move(depositAdr, op.signer.Addr, cs("ugnot", int(-d)))
		}
	} else if okExp && op.deposit > 0 {
		u.bad = true
		r.Violation("storage-growth-without-deposit:"+label, map[string]any{"history": label})
		return
	}
	u.check(label, exp)
	u.l = exp
	if _, loaded := stateSet.LoadOrStore(exp.key(), true); !loaded {
		nStates.Add(1)
	}
}

func (u *run) commit(label string) {
	u.c.EndBlockCommit()
	u.c.BeginBlock()
	u.check(label+" ; <commit>", u.l)
}

// ---- enumeration -------------------------------------------------------------------------------------------------------

func histories(n, depth int) [][]int {
	var out [][]int
	var rec func(p []int)
	rec = func(p []int) {
		if len(p) == depth {
			out = append(out, append([]int{}, p...))
			return
		}
		for i := 0; i < n; i++ {
			rec(append(p, i))
		}
	}
	rec(nil)
	return out
}

func main() {
	debug.SetGCPercent(400)
	r = vk.New("model_checking")
	r.SetBudget(240*time.Second, 30*time.Minute) // soft; a quiet 16-core machine needs a fraction of it
	ops := menu()
	depth := 2
	if r.Thorough() {
		depth = 3
	}
	newRun() // first chain: loads and caches the stdlibs
	// message phase first (small, and the part that needs no deep history); its share of the budget is soft
	if pf := os.Getenv("VERIF_C14_PROFILE"); pf != "" {
		f, _ := os.Create(pf)
		pprof.StartCPUProfile(f)
		defer pprof.StopCPUProfile()
	}
	msgDone := messagePhase()
	if os.Getenv("VERIF_C14_PROFILE") != "" {
		pprof.StopCPUProfile()
	}
	if os.Getenv("VERIF_C14_ONLY_MSG") != "" {
		fmt.Println(strings.Join(shapeCounts, "\n"))
		fmt.Printf("message phase: jobs=%d deliveries=%d filtered=%d full-checks=%d done=%v\n", mJobs, mExec.Load(), mFiltered.Load(), mFull.Load(), msgDone)
		r.Finish("message phase only (debug)", false, map[string]any{"states": nStates.Load(), "transitions": mExec.Load(), "traces_validated_against_impl": mExec.Load()})
	}
	hs := histories(len(ops), depth)
	var done atomic.Int64
	r.ParFor(len(hs), func(i int) {
		h := hs[i]
		u := newRun()
		var names []string
		for k, oi := range h {
			names = append(names, ops[oi].name)
			label := "[" + strings.Join(names, " ; ") + "]"
			r.Distinct(label)
			u.step(ops[oi], label)
			if u.bad {
				return
			}
			if k%2 == 1 || k == len(h)-1 { // two txs per block
				u.commit(label)
				if u.bad {
					return
				}
			}
		}
		done.Add(1)
	})
	exhaustive := (int(done.Load()) == len(hs) && msgDone) || r.Violations() > 0
	if !exhaustive {
		r.MarkCapped()
	}
	r.Sample(map[string]any{"history": "[mint(tok,500>A) ; burn(tok,500<A)]", "meaning": "supply record of the realm denom is created, then deleted at zero; the balance key too"})
	r.Sample(map[string]any{"history": "[send-atom-all(A>N1,1000) ; send-mixed(A>C,…)]", "meaning": "whole split-tier balance to a brand-new address (key deleted at the sender, account created for the receiver), then a multi-denom send that must fail atomically"})
	r.Sample(map[string]any{"history": "[mint-at-cap(big,MaxInt64-5>A) ; mint-at-cap(big,MaxInt64-5>A)]", "meaning": "second mint would push the supply past int64: must fail and leave supply and balances untouched"})
	r.Sample(map[string]any{"message": "S1:multisend[A:2tok B:1ugnot > A:1tok N1:1tok B:1ugnot]", "meaning": "message phase: A is input and change output of the same denom, B gets its own input back, N1 (no account) is created by a split-tier credit"})
	r.Sample(map[string]any{"message": "S1:multisend[A:1tok > A:3tok B:MAXtok N1:MAXtok]", "meaning": "message phase: outputs sum to 2^64+1, congruent to the input modulo 2^64: the real ValidateBasic must refuse it (it does: Coins.Add overflow panic), otherwise it is delivered and the ledger oracle decides"})
	r.Sample(map[string]any{"message": "S2:multisend[A:MAXtok > B:MAX-2tok N1:1tok A:1tok]", "meaning": "message phase, supply exactly MaxInt64 held by A: a legitimate transfer of amounts next to MaxInt64"})
	enc := "amino.Marshal of a std.Tx carrying a bank.MsgMultiSend fails (measured at every run: the type is not registered in tm2/pkg/sdk/bank/package.go), so a multi-send cannot travel in a transaction on the real app"
	if multiSendEncodable {
		enc = "bank.MsgMultiSend IS amino-encodable in this tree (measured): it can travel in a transaction; the harness still delivers it at message level only"
	}
	r.Assumptions = []string{
		enc + "; multi-sends are therefore delivered at message level through BaseApp.VerifRunMsgs (hooks/c14), which runs the app's own validateBasicTxMsgs, cacheTxContext and runMsgs (real router and bank handler) on the block's deliver state and writes the cache layer back only on success, like runTx after the ante handler (no signature, no fee, the VM's begin/end-tx hooks skipped for bank-only messages)",
		"message phase: messages refused by the real MsgMultiSend.ValidateBasic are counted and not delivered (ValidateBasic is a pure function of the message and baseapp runs it before any state access); addresses do not enter ValidateBasic",
		"message phase, quick tier: shapes 2x2 and 2x3 use reduced coin menus, inputs from {A,B} only and pre-state S1 only (see coverage.message_phase.shapes); the thorough tier lifts the address restriction and widens the menus",
		"vesting accounts cannot be created by any transaction or by chainx's genesis balances: not enumerated",
		"the invariants are evaluated through keepers the harness constructs on the app's store key with the same account-tier allowlist {ugnot} that gnoland.NewAppWithOptions compiles in",
		"the amount of a storage-deposit lock/refund is read from the chain (only its sign, its two parties and its denom are checked)",
	}
	r.Finish(fmt.Sprintf("(1) every history of exactly %d txs (all prefixes checked on the way) over a %d-operation menu, one fresh chain per history, two txs per block; invariants + independent re-sum + reference ledger after every tx and every commit. (2) message phase: every MsgMultiSend of the listed shapes over the coins menu that the real ValidateBasic accepts x every assignment of {A,B,N} to its entries, every MsgSend over {A,B,N,zero}^2 x the coins menu (message level; from A also as signed txs), a realm-banker boundary menu as signed txs — each delivered from pre-states S1/S2 on the real app and rolled back; reference ledger + no-write-on-refusal + independent decode of pre-state records overlaid with the delivery's writes; repo invariants + full store decode on every distinct post-state. distinct = distinct history prefixes + distinct delivered messages", depth, len(ops)),
		true, map[string]any{"states": nStates.Load(), "transitions": nTx.Load() + mMsgLevel(), "traces_validated_against_impl": nTx.Load() + mMsgLevel(), "chains_built": nChains.Load(),
			"invariant_evaluations": nInv.Load(), "depth": depth, "menu": len(ops), "histories": len(hs),
			"message_phase": map[string]any{"deliveries": mExec.Load(), "coin_tuples_enumerated": mTuples.Load(), "refused_by_ValidateBasic_not_delivered": mFiltered.Load(),
				"distinct_post_states_fully_checked": mFull.Load(), "jobs": mJobs, "completed": msgDone, "shapes": shapeCounts, "pre_states": preStateDesc}})
}
