package main

// Unmemoised re-validation. A schedule (list of actions from the initial state) is re-executed on FRESH real nodes,
// input by input, without the step memo, without digest merging and without the static no-op filter:
//   - every honest message delivered must have been published earlier in this very replay (causality),
//   - every byzantine message must be signed by the byzantine key only (it is, by construction of the menu),
//   - the final deep digest of every node must equal the digest of the memoised state the search ended in,
//   - two replays must agree bit for bit (replay-twice rule),
//   - agreement / local oracle violations must re-occur.
// Used for every violation before it is reported and for a deterministic sample of explored schedules.

import (
	"fmt"
	"strings"
)

type replayResult struct {
	digests [nSlots][32]byte
	present [nSlots]bool
	viols   map[string]bool
	commits [nSlots][]string
	err     string
}

func replaySchedule(sys *System, e *Engine, tr []Action, silent bool) replayResult {
	res := replayResult{viols: map[string]bool{}}
	var nodes [nSlots]*Node
	var emitted [nSlots][]*Msg
	for i := 0; i < nSlots; i++ {
		if i == 3 && silent {
			continue
		}
		nodes[i] = sys.newNode(e.vals[i])
		nodes[i].eng = e
	}
	published := map[string]bool{}
	byzSent := map[string]bool{}
	apply := func(slot int, in int32) {
		n := nodes[slot]
		if n == nil {
			res.err = fmt.Sprintf("action on absent node n%d", slot)
			return
		}
		if in >= 0 {
			m := e.msgs.get(in)
			switch {
			case m.Kind == 'M', m.Kind == 'P' && m.Prop == nil:
			case m.From == sys.byz:
				if !byzSent[m.Key] && !published[m.Key] {
					res.err = "byzantine message delivered before it was sent: " + m.Key
				}
			default:
				if !published[m.Key] {
					res.err = "message delivered before it was published: " + m.Key
				}
			}
		}
		before := &Local{obs: e.observe(n)}
		nrec := len(n.pv.recs)
		em, dead := e.apply(n, in)
		for _, m := range em {
			published[m.Key] = true
		}
		emitted[slot] = append(emitted[slot], em...)
		after := &Local{obs: e.observe(n)}
		for _, b := range e.localOracles(before, after, n, nrec, dead) {
			res.viols[b.Key] = true
		}
	}
	for _, a := range tr {
		if res.err != "" {
			return res
		}
		switch a.Kind {
		case 'd', 'r':
			apply(int(a.Slot), a.Msg)
		case 't', 'T':
			apply(int(a.Slot), inTimeout)
		case 'b', 'B':
			m := e.msgs.get(a.Msg)
			byzSent[m.Key] = true
			for i := 0; i < 3; i++ {
				if a.Mask&(1<<i) == 0 {
					continue
				}
				if a.seq != nil { // the exact inputs of this send (claim, vote, re-signed copies)
					for _, id := range a.seq[i] {
						if x := e.msgs.get(id); x.Byz {
							byzSent[x.Key] = true
						}
						apply(i, id)
					}
					continue
				}
				if a.Kind == 'B' {
					c := e.msgs.intern(sys.claimMsg(sys.byz, m.H, m.R, m.T, m.BID, true))
					apply(i, c.id)
				}
				apply(i, a.Msg)
			}
		case '|', '~':
			if nodes[3] != nil {
				nodes[3] = nil
			}
		case 'w', 'v', 'l', 'x':
		default:
			res.err = fmt.Sprintf("unknown action %c", a.Kind)
		}
	}
	for i, n := range nodes {
		if n == nil {
			continue
		}
		res.present[i] = true
		res.digests[i] = e.digest(n, emitted[i])
		res.commits[i] = e.observe(n).Committed
	}
	return res
}

// validate returns "" when the violation replays (twice, identically) on fresh real nodes.
func validate(sys *System, e *Engine, f *Found) string {
	a := replaySchedule(sys, e, f.Trace, f.silent)
	if a.err != "" {
		return a.err
	}
	b := replaySchedule(sys, e, f.Trace, f.silent)
	if b.err != "" {
		return b.err
	}
	if a.digests != b.digests {
		return "two replays of the same schedule end in different states (non-determinism)"
	}
	for i := 0; i < nSlots; i++ {
		l := f.state.loc[i]
		if l == nil || !a.present[i] {
			continue
		}
		if l.digest != a.digests[i] {
			return fmt.Sprintf("node n%d: replayed state differs from the memoised state", i)
		}
	}
	switch {
	case strings.HasPrefix(f.Key, "agreement:"):
		ok := false
		for x := 0; x < 3; x++ {
			for y := x + 1; y < 3; y++ {
				for h := 0; h < len(a.commits[x]) && h < len(a.commits[y]); h++ {
					if a.commits[x][h] != a.commits[y][h] {
						ok = true
					}
				}
			}
		}
		if !ok {
			return "no disagreement in the block stores after the replay"
		}
	case strings.HasPrefix(f.Key, "progress:"):
	default:
		if !a.viols[f.Key] {
			return "the local oracle did not fire in the replay"
		}
	}
	return ""
}

// validateSchedule replays an explored (non-violating) schedule and compares the final states.
func validateSchedule(sys *System, e *Engine, tr []Action, final *GState, silent bool) string {
	a := replaySchedule(sys, e, tr, silent)
	if a.err != "" {
		return a.err
	}
	for i := 0; i < nSlots; i++ {
		l := final.loc[i]
		if l == nil || !a.present[i] {
			continue
		}
		if l.digest != a.digests[i] {
			return fmt.Sprintf("node n%d: replayed state differs from the memoised state after %d actions", i, len(tr))
		}
	}
	return ""
}
