package main

// Local oracles (evaluated on the real node at the step that creates a new local state):
//   - double-sign: an honest node never signs two different votes (or proposals) for one height/round/type;
//   - validity: a committed block has valid precommits of more than 2/3 of the voting power for exactly that block in
//     the node's own seen commit, and the stored block hashes to it (signatures re-verified independently);
//   - crash: a handler panic (the receive routine of a real node dies with "CONSENSUS FAILURE");
//   - voting rules that make agreement inductive (monitors on what the node SIGNS, judged against its own vote sets at
//     signing time): a non-nil precommit for X at round r needs +2/3 prevotes for X at r; after a non-nil precommit
//     for X at round r, a prevote for a different block at a later round r2 needs +2/3 prevotes for something other
//     than X at a round in (r, r2]; an accepted proposal is signed by the round's proposer and has -1 <= POLRound < Round.
//   - vote sets: whenever a vote set of the node reports +2/3 for a block (or nil), the valid votes of DISTINCT validators
//     for exactly that block held in that set carry more than 2/3 of the voting power; likewise for "+2/3 of anything"
//     (signatures re-verified independently; tallied power is not trusted).
// The global oracles (agreement, bounded progress, deadlock) live in search.go.

import (
	"bytes"
	"fmt"
	"sync"

	"github.com/gnolang/gno/tm2/pkg/bft/types"
)

// votingRule judges one signature request against the node's signing history and its vote sets (at signing time).
func (n *Node) votingRule(hist []signRec, rec signRec) string {
	rs := n.cs.VerifRS()
	switch rec.T {
	case types.PrecommitType:
		if rec.Block == "" {
			return ""
		}
		bid, ok := rs.Votes.Prevotes(rec.R).TwoThirdsMajority()
		if !ok || hexs(bid.Hash) != rec.Block {
			return "precommit-without-polka"
		}
	case types.PrevoteType:
		if rec.Block == "" {
			return ""
		}
		// last non-nil precommit of this height
		last := -1
		var x string
		for _, h := range hist {
			if h.H == rec.H && h.T == types.PrecommitType && h.Block != "" && h.R < rec.R && h.R > last {
				last, x = h.R, h.Block
			}
		}
		if last < 0 || x == rec.Block {
			return ""
		}
		for r := last + 1; r <= rec.R; r++ {
			if bid, ok := rs.Votes.Prevotes(r).TwoThirdsMajority(); ok && hexs(bid.Hash) != x {
				return ""
			}
		}
		return "prevote-against-lock-without-later-polka"
	}
	return ""
}

func (e *Engine) localOracles(parent, child *Local, n *Node, nrecBefore int, dead string) []Viol {
	var bad []Viol
	if dead != "" {
		bad = append(bad, Viol{"crash:" + dead, "handler panicked: " + dead})
		return bad
	}
	recs := n.pv.recs
	// double sign
	for i := nrecBefore; i < len(recs); i++ {
		for j := 0; j < i; j++ {
			if recs[j].H == recs[i].H && recs[j].R == recs[i].R && recs[j].T == recs[i].T && recs[j].Block != recs[i].Block {
				bad = append(bad, Viol{fmt.Sprintf("double-sign:%s", tname(recs[i].T)),
					fmt.Sprintf("node v%d signed %s for %s and for %s at h%d/r%d", n.val, tname(recs[i].T), e.sys.labelHex(recs[j].Block), e.sys.labelHex(recs[i].Block), recs[i].H, recs[i].R)})
			}
		}
		if e.monitors && recs[i].Rule != "" {
			bad = append(bad, Viol{"voting-rule:" + recs[i].Rule,
				fmt.Sprintf("node v%d signed %s for %s at h%d/r%d (locked %s@%d)", n.val, tname(recs[i].T), e.sys.labelHex(recs[i].Block), recs[i].H, recs[i].R, e.sys.labelHex(recs[i].LockedBlock), recs[i].LockedRound)})
		}
	}
	// unlock rule: a lock on X taken at round r is given up (or moved to another block) only on +2/3 prevotes for
	// something else at a round in (r, current round]
	if e.monitors && parent.obs.Locked != "" && child.obs.Locked != parent.obs.Locked && child.obs.H == parent.obs.H {
		rs := n.cs.VerifRS()
		ok := false
		for r := parent.obs.LockedRound + 1; r <= rs.Round; r++ {
			if bid, has := rs.Votes.Prevotes(r).TwoThirdsMajority(); has && e.sys.label(bid.Hash) != parent.obs.Locked {
				ok = true
			}
		}
		if !ok {
			bad = append(bad, Viol{"voting-rule:unlock-without-later-polka",
				fmt.Sprintf("node v%d gave up its lock on %s@r%d at h%d/r%d without +2/3 prevotes for anything else in a later round", n.val, parent.obs.Locked, parent.obs.LockedRound, rs.Height, rs.Round)})
		}
	}
	// vote sets: reported +2/3 is backed by distinct validators
	if e.monitors {
		bad = append(bad, e.checkVoteSets(n)...)
	}
	// validity of new commits
	for h := len(parent.obs.Committed) + 1; h <= len(child.obs.Committed); h++ {
		if msg := e.checkCommit(n, int64(h)); msg != "" {
			bad = append(bad, Viol{"invalid-commit", fmt.Sprintf("node v%d height %d: %s", n.val, h, msg)})
		}
	}
	// accepted proposal
	if e.monitors && child.obs.Proposal != "" && child.obs.Proposal != parent.obs.Proposal {
		rs := n.cs.VerifRS()
		p := rs.Proposal
		if p.POLRound < -1 || p.POLRound >= p.Round {
			bad = append(bad, Viol{"voting-rule:accepted-proposal-bad-polround", fmt.Sprintf("node v%d accepted proposal %s", n.val, child.obs.Proposal)})
		}
		if p.Round != rs.Round || p.Height != rs.Height || !rs.Validators.GetProposer().PubKey.VerifyBytes(p.SignBytes(chainID), p.Signature) {
			bad = append(bad, Viol{"voting-rule:accepted-proposal-not-from-proposer", fmt.Sprintf("node v%d accepted proposal %s", n.val, child.obs.Proposal)})
		}
	}
	return bad
}

func (s *System) labelHex(h string) string {
	if h == "" {
		return "nil"
	}
	if l, ok := s.labels.Load(h); ok {
		return l.(string)
	}
	return "#" + h[:6]
}

// checkCommit re-verifies independently that the block stored at height h is justified by the stored seen commit.
func (e *Engine) checkCommit(n *Node, h int64) string {
	meta := n.bs.LoadBlockMeta(h)
	blk := n.bs.LoadBlock(h)
	sc := n.bs.LoadSeenCommit(h)
	if meta == nil || blk == nil || sc == nil {
		return "block, meta or seen commit missing"
	}
	if !bytes.Equal(blk.Hash(), meta.BlockID.Hash) || !sc.BlockID.Equals(meta.BlockID) {
		return "stored block / commit block id mismatch"
	}
	var power int64
	seen := map[int]bool{}
	for i, cs := range sc.Precommits {
		if cs == nil {
			continue
		}
		v := sc.GetVote(i)
		if v.Height != h || v.Type != types.PrecommitType || !v.BlockID.Equals(meta.BlockID) {
			continue
		}
		if v.ValidatorIndex < 0 || v.ValidatorIndex >= nVals || seen[v.ValidatorIndex] {
			continue
		}
		k := e.sys.keys[v.ValidatorIndex]
		if v.ValidatorAddress != k.addr || !k.pub.VerifyBytes(v.SignBytes(chainID), v.Signature) {
			continue
		}
		seen[v.ValidatorIndex] = true
		power += 10
	}
	if power*3 <= int64(nVals)*10*2 {
		return fmt.Sprintf("only %d of %d voting power precommitted block %s", power, nVals*10, e.sys.label(meta.BlockID.Hash))
	}
	return ""
}

// ---------------------------------------------------------------------------------------------------------------
// vote-set monitor

var sigOK sync.Map // sign bytes + signature -> bool (ed25519 verification is deterministic: cache it)

func (e *Engine) validVote(v *types.Vote, idx int, h int64, r int, t types.SignedMsgType) bool {
	if v == nil || v.ValidatorIndex != idx || v.Height != h || v.Round != r || v.Type != t {
		return false
	}
	k := e.sys.keys[idx]
	if v.ValidatorAddress != k.addr {
		return false
	}
	sb := v.SignBytes(chainID)
	ck := string(sb) + "|" + string(v.Signature)
	if ok, hit := sigOK.Load(ck); hit {
		return ok.(bool)
	}
	ok := k.pub.VerifyBytes(sb, v.Signature)
	sigOK.Store(ck, ok)
	return ok
}

// checkVoteSets re-derives every "+2/3" a vote set of the node reports from the votes the set actually holds.
func (e *Engine) checkVoteSets(n *Node) []Viol {
	rs := n.cs.VerifRS()
	var bad []Viol
	one := func(vs *types.VoteSet) {
		if vs == nil {
			return
		}
		h, r, t := vs.Height(), vs.Round(), types.SignedMsgType(vs.Type())
		bid, maj := vs.TwoThirdsMajority()
		anyq := vs.HasTwoThirdsAny()
		if !maj && !anyq {
			return
		}
		var forBlock, voted int64
		for i := 0; i < nVals; i++ {
			v := vs.GetByIndex(i)
			if !e.validVote(v, i, h, r, t) {
				continue
			}
			voted += 10
			if v.BlockID.Equals(bid) {
				forBlock += 10
			}
		}
		total := int64(nVals) * 10
		if maj && forBlock*3 <= total*2 {
			bad = append(bad, Viol{"voteset:two-thirds-majority-without-distinct-quorum:" + tname(t),
				fmt.Sprintf("node v%d: %s set h%d/r%d reports +2/3 for %s, but the distinct validators with a valid vote for it hold only %d of %d voting power",
					n.val, tname(t), h, r, e.sys.label(bid.Hash), forBlock, total)})
		}
		if anyq && voted*3 <= total*2 {
			bad = append(bad, Viol{"voteset:two-thirds-any-without-distinct-quorum:" + tname(t),
				fmt.Sprintf("node v%d: %s set h%d/r%d reports +2/3 of anything, but the distinct validators with a valid vote hold only %d of %d voting power",
					n.val, tname(t), h, r, voted, total)})
		}
	}
	if rs.Votes != nil {
		for r := 0; r <= rs.Votes.Round()+3; r++ {
			one(rs.Votes.Prevotes(r))
			one(rs.Votes.Precommits(r))
		}
	}
	one(rs.LastCommit)
	return bad
}
