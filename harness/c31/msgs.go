package main

// Network messages of the model: proposal bundles (proposal + all block parts, delivered atomically; a bundle
// without proposal = block parts served from a block store for catch-up), votes, and +2/3 claims
// (VoteSetMaj23). Messages are interned by CONTENT key, so "the same message" is the same object everywhere.

import (
	"fmt"
	"sort"
	"sync"

	cns "github.com/gnolang/gno/tm2/pkg/bft/consensus"
	"github.com/gnolang/gno/tm2/pkg/bft/types"
	p2pTypes "github.com/gnolang/gno/tm2/pkg/p2p/types"
)

type Msg struct {
	id    int32
	Key   string // canonical content key (stable across runs): used for ordering and in every output
	Kind  byte   // 'P' proposal bundle, 'V' vote, 'M' +2/3 claim
	From  int    // validator index of the signer / claimant / serving node
	H     int64
	R     int
	T     types.SignedMsgType // V, M: vote type
	BID   types.BlockID
	Prop  *types.Proposal
	Parts []*types.Part
	Vote  *types.Vote
	Byz   bool // produced by the explorer with the byzantine key (menu)
	Var   int  // byzantine votes: index of the timestamp in the signer's timestamp menu {t0, t1, t2} (re-signed copies)
	rank  int
}

const inTimeout int32 = -1 // input id of "fire the pending timeout"

func (m *Msg) String() string { return m.Key }

type MsgTable struct {
	mu    sync.RWMutex
	byKey map[string]*Msg
	bySig map[string]*Msg // votes by signature (fast path for re-interning votes read out of vote sets)
	all   []*Msg
}

func newMsgTable() *MsgTable { return &MsgTable{byKey: map[string]*Msg{}, bySig: map[string]*Msg{}} }

// voteBySig returns the interned message of an already known vote.
func (t *MsgTable) voteBySig(sig []byte) *Msg {
	t.mu.RLock()
	m := t.bySig[string(sig)]
	t.mu.RUnlock()
	return m
}

func (t *MsgTable) intern(m *Msg) *Msg {
	t.mu.RLock()
	x := t.byKey[m.Key]
	t.mu.RUnlock()
	if x != nil {
		return x
	}
	t.mu.Lock()
	defer t.mu.Unlock()
	if x := t.byKey[m.Key]; x != nil {
		return x
	}
	m.id = int32(len(t.all))
	t.all = append(t.all, m)
	t.byKey[m.Key] = m
	if m.Kind == 'V' {
		t.bySig[string(m.Vote.Signature)] = m
	}
	return m
}

func (t *MsgTable) get(id int32) *Msg {
	t.mu.RLock()
	defer t.mu.RUnlock()
	return t.all[id]
}

func (t *MsgTable) size() int {
	t.mu.RLock()
	defer t.mu.RUnlock()
	return len(t.all)
}

func tname(t types.SignedMsgType) string {
	switch t {
	case types.PrevoteType:
		return "prevote"
	case types.PrecommitType:
		return "precommit"
	}
	return "proposal"
}

func (s *System) voteMsg(v *types.Vote, byz bool) *Msg {
	m := &Msg{Kind: 'V', From: v.ValidatorIndex, H: v.Height, R: v.Round, T: v.Type, BID: v.BlockID, Vote: v, Byz: byz}
	m.rank = 1
	if v.Type == types.PrecommitType {
		m.rank = 3
	}
	m.Key = fmt.Sprintf("V|h%d|r%d|%s|v%d|%s|%X", v.Height, v.Round, tname(v.Type), v.ValidatorIndex, s.label(v.BlockID.Hash), v.Signature[:3])
	return m
}

func (s *System) propMsg(from int, p *types.Proposal, h int64, r int, parts []*types.Part, bid types.BlockID, byz bool) *Msg {
	m := &Msg{Kind: 'P', From: from, H: h, R: r, BID: bid, Prop: p, Parts: parts, Byz: byz}
	if p != nil {
		m.Key = fmt.Sprintf("P|h%d|r%d|v%d|%s|pol%d|%X", h, r, from, s.label(bid.Hash), p.POLRound, p.Signature[:3])
	} else {
		m.rank = 5
		m.Key = fmt.Sprintf("B|h%d|%s", h, s.label(bid.Hash)) // parts only (content-addressed)
	}
	return m
}

func (s *System) claimMsg(from int, h int64, r int, t types.SignedMsgType, bid types.BlockID, byz bool) *Msg {
	m := &Msg{Kind: 'M', From: from, H: h, R: r, T: t, BID: bid, Byz: byz}
	m.rank = 2
	if t == types.PrecommitType {
		m.rank = 4
	}
	m.Key = fmt.Sprintf("M|h%d|r%d|%s|v%d|%s", h, r, tname(t), from, s.label(bid.Hash))
	return m
}

// msgLess is the canonical "send order": height, round, phase (proposal < prevotes < prevote claims < precommits <
// precommit claims < served block parts), sender, content key.
func msgLess(a, b *Msg) bool {
	if a.H != b.H {
		return a.H < b.H
	}
	if a.R != b.R {
		return a.R < b.R
	}
	if a.rank != b.rank {
		return a.rank < b.rank
	}
	if a.From != b.From {
		return a.From < b.From
	}
	return a.Key < b.Key
}

func sortMsgs(ms []*Msg) { sort.Slice(ms, func(i, j int) bool { return msgLess(ms[i], ms[j]) }) }

func peerOf(val int) p2pTypes.ID { return p2pTypes.ID(fmt.Sprintf("v%d", val)) }

// deliver hands one network message to a node exactly the way the reactor would: proposals, parts and votes through
// handleMsg (peer queue), +2/3 claims through Votes.SetPeerMaj23. Message structs are copied: nodes never share
// mutable objects.
func (n *Node) deliver(m *Msg) {
	peer := peerOf(m.From)
	switch m.Kind {
	case 'P':
		if m.Prop != nil {
			p := *m.Prop
			n.handle(cns.VerifMsgInfo{Msg: &cns.ProposalMessage{Proposal: &p}, PeerID: peer})
		}
		for _, part := range m.Parts {
			pc := *part
			n.handle(cns.VerifMsgInfo{Msg: &cns.BlockPartMessage{Height: m.H, Round: m.R, Part: &pc}, PeerID: peer})
		}
	case 'V':
		v := *m.Vote
		n.handle(cns.VerifMsgInfo{Msg: &cns.VoteMessage{Vote: &v}, PeerID: peer})
	case 'M':
		n.calls++
		_ = n.cs.VerifSetPeerMaj23(m.H, m.R, m.T, peer, m.BID)
	}
}

func (n *Node) handle(mi cns.VerifMsgInfo) {
	n.calls++
	n.cs.VerifHandleMsg(mi)
	n.cs.VerifDrainStats()
}
