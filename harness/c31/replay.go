package main

// `./vcheck C31 replay <artefact.json>`: re-executes the recorded schedule on fresh real nodes (no memoisation), printing
// every step with the resulting node state, then re-evaluates the oracle. Exit 1 when the violation reproduces.

import (
	"encoding/json"
	"fmt"
	"os"
	"strconv"
	"strings"

	cstypes "github.com/gnolang/gno/tm2/pkg/bft/consensus/types"
	"github.com/gnolang/gno/tm2/pkg/bft/types"
	"verif/engine/vk"
)

type recAction struct {
	K    string     `json:"k"`
	M    string     `json:"m,omitempty"`
	Slot int        `json:"slot"`
	Mask int        `json:"mask,omitempty"`
	Seq  [][]string `json:"seq,omitempty"` // byzantine sends: per honest slot, the keys of the inputs in order
}

func recordActions(e *Engine, tr []Action) []recAction {
	out := make([]recAction, len(tr))
	for i, a := range tr {
		out[i] = recAction{K: string(a.Kind), Slot: int(a.Slot), Mask: int(a.Mask)}
		switch a.Kind {
		case 'd', 'r', 'b', 'B', 'w', 'v', 'l', 'x':
			out[i].M = e.msgs.get(a.Msg).Key
		}
		if a.seq != nil {
			out[i].Seq = make([][]string, 3)
			for j := 0; j < 3; j++ {
				for _, id := range a.seq[j] {
					out[i].Seq[j] = append(out[i].Seq[j], e.msgs.get(id).Key)
				}
			}
		}
	}
	return out
}

func typeOf(s string) types.SignedMsgType {
	if s == "prevote" {
		return types.PrevoteType
	}
	return types.PrecommitType
}

// resolve finds (or, for byzantine menu messages and claims, rebuilds) the message with the given content key.
func (s *Search) resolve(key string) *Msg {
	e, sys := s.e, s.e.sys
	e.msgs.mu.RLock()
	m := e.msgs.byKey[key]
	e.msgs.mu.RUnlock()
	if m != nil {
		return m
	}
	f := strings.Split(key, "|")
	bid := func(label string) (types.BlockID, bool) {
		switch label {
		case "nil":
			return types.BlockID{}, true
		case "A":
			return types.BlockID{Hash: sys.blkA.Hash(), PartsHeader: sys.partsA.Header()}, true
		case "B":
			return types.BlockID{Hash: sys.blkB.Hash(), PartsHeader: sys.partsB.Header()}, true
		}
		e.msgs.mu.RLock()
		defer e.msgs.mu.RUnlock()
		for _, x := range e.msgs.all {
			if x.Kind == 'P' && x.Prop != nil && sys.label(x.BID.Hash) == label {
				return x.BID, true
			}
		}
		return types.BlockID{}, false
	}
	num := func(s string) int { n, _ := strconv.Atoi(s[1:]); return n }
	switch f[0] {
	case "V":
		if len(f) == 7 && num(f[4]) == sys.byz {
			if b, ok := bid(f[5]); ok {
				for variant := 0; variant < nStamps; variant++ { // the key names the copy by its signature
					if m = s.byzVote(int64(num(f[1])), num(f[2]), typeOf(f[3]), b, variant); m.Key == key {
						break
					}
				}
			}
		}
	case "P":
		if len(f) == 7 && num(f[3]) == sys.byz {
			pol, _ := strconv.Atoi(strings.TrimPrefix(f[5], "pol"))
			switch f[4] {
			case "A":
				m = s.byzProposal(sys.blkA, sys.partsA, num(f[2]), pol)
			case "B":
				m = s.byzProposal(sys.blkB, sys.partsB, num(f[2]), pol)
			}
		}
	case "M":
		if len(f) == 6 {
			if b, ok := bid(f[5]); ok {
				m = e.msgs.intern(sys.claimMsg(num(f[4]), int64(num(f[1])), num(f[2]), typeOf(f[3]), b, num(f[4]) == sys.byz))
			}
		}
	}
	if m == nil || m.Key != key {
		return nil
	}
	return m
}

func replayFile(r *vk.Run, sys *System) {
	b, err := os.ReadFile(r.ReplayIn)
	if err != nil {
		r.HarnessError("%v", err)
	}
	var f struct {
		Key    string `json:"key"`
		Detail struct {
			What    string      `json:"what"`
			Actions []recAction `json:"actions"`
			Silent  bool        `json:"byzantine_silent_by_default"`
		} `json:"detail"`
	}
	if err := json.Unmarshal(b, &f); err != nil || len(f.Detail.Actions) == 0 {
		r.HarnessError("not a C31 replay artefact: %v", err)
	}
	e := newEngine(sys)
	s := newSearch(e, Params{maxH: 2, maxR: 2, progR: 4, byzHonest: !f.Detail.Silent}, neverExpired{})
	fmt.Printf("replaying %s\n  %s\n", f.Key, f.Detail.What)
	var nodes [nSlots]*Node
	var emitted [nSlots][]*Msg
	for i := 0; i < nSlots; i++ {
		if i == 3 && f.Detail.Silent {
			continue
		}
		nodes[i] = sys.newNode(e.vals[i])
		nodes[i].eng = e
	}
	viols := map[string]bool{}
	show := func(slot int) string {
		o := e.observe(nodes[slot])
		return fmt.Sprintf("n%d(v%d): h%d/r%d/%v locked=%s@%d valid=%s@%d proposal=%s commitRound=%d committed=%d timeout=%s", slot, e.vals[slot], o.H, o.R, o.Step, o.Locked, o.LockedRound,
			o.Valid, o.ValidRound, o.Proposal, o.CommitRound, len(o.Committed), o.TO)
	}
	apply := func(slot int, in int32) {
		n := nodes[slot]
		before := &Local{obs: e.observe(n)}
		nrec := len(n.pv.recs)
		em, dead := e.apply(n, in)
		emitted[slot] = append(emitted[slot], em...)
		after := &Local{obs: e.observe(n)}
		for _, v := range e.localOracles(before, after, n, nrec, dead) {
			viols[v.Key] = true
			fmt.Printf("      !! %s: %s\n", v.Key, v.Detail)
		}
		for _, m := range em {
			fmt.Printf("      publishes %s\n", m.Key)
		}
	}
	for i, ra := range f.Detail.Actions {
		a := Action{Kind: ra.K[0], Slot: int8(ra.Slot), Mask: uint8(ra.Mask)}
		if ra.M != "" {
			m := s.resolve(ra.M)
			if m == nil {
				r.HarnessError("step %d: message %s does not exist at this point of the replay", i, ra.M)
			}
			a.Msg = m.id
		}
		fmt.Printf("%3d %s\n", i, a.describe(e))
		switch a.Kind {
		case 'd', 'r':
			apply(int(a.Slot), a.Msg)
			fmt.Printf("      %s\n", show(int(a.Slot)))
		case 't', 'T':
			apply(int(a.Slot), inTimeout)
			fmt.Printf("      %s\n", show(int(a.Slot)))
		case 'b', 'B':
			m := e.msgs.get(a.Msg)
			for j := 0; j < 3; j++ {
				if a.Mask&(1<<j) == 0 {
					continue
				}
				if len(ra.Seq) == 3 {
					for _, key := range ra.Seq[j] {
						x := s.resolve(key)
						if x == nil {
							r.HarnessError("step %d: message %s does not exist at this point of the replay", i, key)
						}
						fmt.Printf("      -> n%d: %s\n", j, x.Key)
						apply(j, x.id)
					}
					fmt.Printf("      %s\n", show(j))
					continue
				}
				if a.Kind == 'B' {
					apply(j, e.msgs.intern(sys.claimMsg(sys.byz, m.H, m.R, m.T, m.BID, true)).id)
				}
				apply(j, a.Msg)
				fmt.Printf("      %s\n", show(j))
			}
		case '|', '~':
			nodes[3] = nil
		}
	}
	fmt.Println("final state:")
	g := &GState{}
	commits := [3][]string{}
	for i := 0; i < 3; i++ {
		fmt.Printf("  %s\n", show(i))
		o := e.observe(nodes[i])
		commits[i] = o.Committed
		g.loc[i] = &Local{obs: o, emitted: emitted[i]}
	}
	reproduced := false
	switch {
	case strings.HasPrefix(f.Key, "agreement:"):
		for x := 0; x < 3; x++ {
			for y := x + 1; y < 3; y++ {
				for h := 0; h < len(commits[x]) && h < len(commits[y]); h++ {
					if commits[x][h] != commits[y][h] {
						reproduced = true
						fmt.Printf("  DISAGREEMENT at height %d: n%d=%s n%d=%s\n", h+1, x, sys.labelHex(commits[x][h]), y, sys.labelHex(commits[y][h]))
					}
				}
			}
		}
	case strings.HasPrefix(f.Key, "progress:"):
		// nothing is deliverable any more (full gossip pool, tried on the live nodes) and no timeout is pending
		goal := 0
		for i := 0; i < 3; i++ {
			if len(commits[i]) > goal {
				goal = len(commits[i])
			}
		}
		stuck := true
		for i := 0; i < 3; i++ {
			o := g.loc[i].obs
			if len(o.Committed) >= goal && goal > 0 {
				continue
			}
			if o.TOPending {
				stuck = false
				fmt.Printf("  n%d still has a pending timeout %s\n", i, o.TO)
			}
			d0 := e.digest(nodes[i], emitted[i])
			for _, m := range s.pool(g, true) {
				if m.Kind == 'M' && m.From == e.vals[i] {
					continue
				}
				e.apply(nodes[i], m.id)
				if e.digest(nodes[i], emitted[i]) != d0 {
					stuck = false
					fmt.Printf("  %s still changes n%d\n", m.Key, i)
					break
				}
			}
			if o.CommitRound >= 0 && o.Step != cstypes.RoundStepCommit {
				fmt.Printf("  n%d has a pending commit (CommitRound=%d) but left the commit step: step=%v round=%d\n", i, o.CommitRound, o.Step, o.R)
			}
		}
		if strings.Contains(f.Key, "deadlock") {
			reproduced = stuck
			if stuck {
				fmt.Println("  DEADLOCK: an honest node has not committed, no message of the full gossip pool changes any uncommitted node, no timeout is pending")
			}
		} else {
			reproduced = true
		}
	default:
		reproduced = viols[f.Key]
	}
	if reproduced {
		fmt.Printf("VIOLATION property=%s replay=%s\n  key: %s\n", r.ID, r.ReplayIn, f.Key)
		os.Exit(1)
	}
	fmt.Println("not reproduced")
	os.Exit(0)
}
