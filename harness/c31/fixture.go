package main

// Fixture: N=4 validators of equal power with deterministic ed25519 keys, a genesis state, and the construction of
// REAL, never-started ConsensusState objects (real sm.State, BlockExecutor, block store and state DB on memdb,
// kvstore ABCI application through the local client, NopWAL, NoOp evidence pool, recording priv validator, harness
// ticker). The byzantine validator is by construction the proposer of height 1 round 0.

import (
	"fmt"
	"sort"
	"sync"
	"time"

	abcicli "github.com/gnolang/gno/tm2/pkg/bft/abci/client"
	"github.com/gnolang/gno/tm2/pkg/bft/abci/example/kvstore"
	cns "github.com/gnolang/gno/tm2/pkg/bft/consensus"
	cnscfg "github.com/gnolang/gno/tm2/pkg/bft/consensus/config"
	"github.com/gnolang/gno/tm2/pkg/bft/mempool/mock"
	sm "github.com/gnolang/gno/tm2/pkg/bft/state"
	"github.com/gnolang/gno/tm2/pkg/bft/store"
	"github.com/gnolang/gno/tm2/pkg/bft/types"
	"github.com/gnolang/gno/tm2/pkg/crypto"
	"github.com/gnolang/gno/tm2/pkg/crypto/ed25519"
	"github.com/gnolang/gno/tm2/pkg/db/memdb"
	"github.com/gnolang/gno/tm2/pkg/log"
)

const (
	chainID = "c31-chain"
	nVals   = 4
)

var genesisTime = time.Date(2024, 1, 2, 3, 4, 5, 0, time.UTC) // == verifclock default: the logical clock never moves

type valKey struct {
	priv ed25519.PrivKeyEd25519
	pub  crypto.PubKey
	addr crypto.Address
}

// System is one instance of the model: validator set, who is byzantine, which validators are honest nodes.
type System struct {
	keys    []valKey // in validator-set order (sorted by address)
	genDoc  *types.GenesisDoc
	genesis sm.State
	byz     int   // validator index of the byzantine validator (proposer of h1/r0)
	honest  []int // validator indices of the honest nodes (slots 0..2)
	propH1  []int // proposer (validator index) of height 1 rounds 0..3
	// byzantine proposal material for height 1 round 0
	blkA, blkB     *types.Block
	partsA, partsB *types.PartSet
	labels         sync.Map // block hash hex -> short label
}

var logger = log.NewNoopLogger()

func newSystem() *System {
	cns.VerifSetMsgQueueSize(64)
	s := &System{}
	for i := 0; i < nVals; i++ {
		pk := ed25519.GenPrivKeyFromSecret([]byte(fmt.Sprintf("c31-validator-%d", i)))
		s.keys = append(s.keys, valKey{priv: pk, pub: pk.PubKey(), addr: pk.PubKey().Address()})
	}
	sort.Slice(s.keys, func(i, j int) bool { return s.keys[i].addr.Compare(s.keys[j].addr) < 0 })
	gv := make([]types.GenesisValidator, nVals)
	for i, k := range s.keys {
		gv[i] = types.GenesisValidator{Address: k.addr, PubKey: k.pub, Power: 10, Name: fmt.Sprintf("v%d", i)}
	}
	s.genDoc = &types.GenesisDoc{GenesisTime: genesisTime, ChainID: chainID, Validators: gv}
	st, err := sm.MakeGenesisState(s.genDoc)
	if err != nil {
		panic(err)
	}
	s.genesis = st
	vs := st.Validators.Copy()
	for r := 0; r < 4; r++ {
		idx, _ := vs.GetByAddress(vs.GetProposer().Address)
		s.propH1 = append(s.propH1, idx)
		vs.IncrementProposerPriority(1)
	}
	s.byz = s.propH1[0]
	for i := 0; i < nVals; i++ {
		if i != s.byz {
			s.honest = append(s.honest, i)
		}
	}
	// two conflicting, individually valid blocks for height 1 proposed by the byzantine validator
	commit := types.NewCommit(types.BlockID{}, nil)
	s.blkA, s.partsA = st.MakeBlock(1, []types.Tx{types.Tx("a=1")}, commit, s.keys[s.byz].addr)
	s.blkB, s.partsB = st.MakeBlock(1, []types.Tx{types.Tx("b=2")}, commit, s.keys[s.byz].addr)
	s.labels.Store(fmt.Sprintf("%X", s.blkA.Hash()), "A")
	s.labels.Store(fmt.Sprintf("%X", s.blkB.Hash()), "B")
	return s
}

// label returns a short stable name of a block hash ("nil" for the empty hash).
func (s *System) label(hash []byte) string {
	if len(hash) == 0 {
		return "nil"
	}
	h := fmt.Sprintf("%X", hash)
	if l, ok := s.labels.Load(h); ok {
		return l.(string)
	}
	return "#" + h[:6]
}

func (s *System) nameBlock(b *types.Block) {
	h := fmt.Sprintf("%X", b.Hash())
	if _, ok := s.labels.Load(h); ok {
		return
	}
	idx := -1
	for i, k := range s.keys {
		if k.addr == b.ProposerAddress {
			idx = i
		}
	}
	s.labels.Store(h, fmt.Sprintf("h%dv%d.%s", b.Height, idx, h[:4]))
}

// ---------------------------------------------------------------------------------------------------------------
// recording priv validator: signs like types.MockPV (no safety net at all) and records every signature request

type signRec struct {
	H     int64
	R     int
	T     types.SignedMsgType // PrevoteType / PrecommitType / ProposalType
	Block string              // block hash hex ("" = nil)
	// snapshot of the signer's lock at signing time and verdict of the voting-rule monitors (oracle.go)
	LockedRound int
	LockedBlock string
	Rule        string // "" = justified; otherwise the broken voting rule
}

type recPV struct {
	key  valKey
	recs []signRec
	node *Node
}

func (pv *recPV) PubKey() crypto.PubKey { return pv.key.pub }
func (pv *recPV) Close() error          { return nil }
func (pv *recPV) SignVote(chain string, v *types.Vote) error {
	sig, err := pv.key.priv.Sign(v.SignBytes(chain))
	if err != nil {
		return err
	}
	v.Signature = sig
	pv.record(v.Height, v.Round, v.Type, v.BlockID.Hash)
	return nil
}

func (pv *recPV) SignProposal(chain string, p *types.Proposal) error {
	sig, err := pv.key.priv.Sign(p.SignBytes(chain))
	if err != nil {
		return err
	}
	p.Signature = sig
	pv.record(p.Height, p.Round, types.ProposalType, p.BlockID.Hash)
	return nil
}

func (pv *recPV) record(h int64, r int, t types.SignedMsgType, hash []byte) {
	rec := signRec{H: h, R: r, T: t, Block: fmt.Sprintf("%X", hash), LockedRound: -1}
	if pv.node != nil && pv.node.cs != nil {
		rs := pv.node.cs.VerifRS()
		rec.LockedRound = rs.LockedRound
		if rs.LockedBlock != nil {
			rec.LockedBlock = fmt.Sprintf("%X", rs.LockedBlock.Hash())
		}
	}
	if pv.node != nil && pv.node.cs != nil {
		rec.Rule = pv.node.votingRule(pv.recs, rec)
	}
	pv.recs = append(pv.recs, rec)
}

// ---------------------------------------------------------------------------------------------------------------

// Node is one real, never-started consensus state plus everything it owns.
type Node struct {
	val    int // validator index
	cs     *cns.ConsensusState
	ticker *cns.VerifTicker
	pv     *recPV
	bs     *store.BlockStore
	calls  int    // handler invocations so far (replay cost accounting)
	dead   string // panic message of a handler (a real node's receive routine would have died: "CONSENSUS FAILURE")
	eng    *Engine
}

func consensusConfig() *cnscfg.ConsensusConfig {
	c := cnscfg.DefaultConsensusConfig() // production defaults (SkipTimeoutCommit=false, CreateEmptyBlocks=true)
	c.WALDisabled = true
	c.RootDir = "/verif/.work/c31/never-used"
	return c
}

func (s *System) newNode(val int) *Node {
	db := memdb.NewMemDB()
	bs := store.NewBlockStore(db)
	app := kvstore.NewKVStoreApplication()
	mtx := new(sync.Mutex)
	conn := abcicli.NewLocalClient(mtx, app)
	state := s.genesis.Copy()
	sm.SaveState(db, state)
	exec := sm.NewBlockExecutor(db, logger, conn, mock.Mempool{})
	n := &Node{val: val, bs: bs}
	n.pv = &recPV{key: s.keys[val], node: n}
	cs := cns.NewConsensusState(consensusConfig(), state, exec, bs, mock.Mempool{}, cns.NoOpEvidencePool{})
	cs.SetLogger(logger)
	cs.SetPrivValidator(n.pv)
	n.ticker = cns.NewVerifTicker()
	cs.SetTimeoutTicker(n.ticker)
	n.cs = cs
	cs.VerifKick() // what OnStart does last: schedule the NewHeight timeout of the first height
	return n
}
