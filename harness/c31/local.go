package main

// Local states. A consensus state is a deterministic function of the sequence of inputs (messages, timeouts) it has
// handled: nodes interact only through messages. The engine therefore memoises the REAL handlers per node:
// step(local state, input) is computed by replaying the node's input history on a fresh real ConsensusState (or by
// continuing a cached live object that is exactly in that state), then handling the input and running the node's own
// internal queue to quiescence. Local states are identified by a complete deep digest (deephash.go).

import (
	"fmt"
	"runtime/debug"
	"strings"
	"sync"
	"sync/atomic"

	cns "github.com/gnolang/gno/tm2/pkg/bft/consensus"
	cstypes "github.com/gnolang/gno/tm2/pkg/bft/consensus/types"
	"github.com/gnolang/gno/tm2/pkg/bft/types"
)

type Viol struct {
	Key    string
	Detail string
}

type Edge struct {
	to      *Local
	emitted []*Msg // messages published by this step (own proposal bundle / votes, after the node handled them itself)
	bad     []Viol // local oracle violations observed during this step
	noop    bool
	active  bool // the step changed the node's observable behaviour state (not only its vote bookkeeping)
}

type Obs struct {
	H           int64
	R           int
	Step        cstypes.RoundStepType
	LockedRound int
	Locked      string
	ValidRound  int
	Valid       string
	CommitRound int
	Proposal    string // key of the accepted proposal ("" if none)
	PropBlock   string
	Committed   []string // committed block hash (hex) per height, index h-1
	TOPending   bool
	TO          string
	TOK         [3]int64
	Claims      []*Msg // +2/3 claims this node could make now (current height)
	Held        []*Msg // everything the reactor of this node would gossip: votes in its vote sets, proposal, stored blocks
	Dead        string // panic message if a handler panicked (the receive routine of a real node would have died)
}

type Local struct {
	id      int32
	slot    int // node slot (0..2 honest nodes, 3 = the byzantine validator running the honest code)
	parent  *Local
	in      int32
	depth   int
	digest  [32]byte
	obs     Obs
	emitted []*Msg  // cumulative
	acc     []int32 // sorted ids of votes / claims this node has accepted (re-delivery is a no-op, see surelyNoop)
	beh     uint64  // digest of the behaviour-relevant projection (step, locks, proposal, timeout, commits, emissions)
	nrecs   int

	mu   sync.Mutex
	next map[int32]*Edge
}

func (l *Local) name() string { return fmt.Sprintf("n%d:%X", l.slot, l.digest[:5]) }

func (l *Local) history() []int32 {
	var h []int32
	for x := l; x.parent != nil; x = x.parent {
		h = append(h, x.in)
	}
	for i, j := 0, len(h)-1; i < j; i, j = i+1, j-1 {
		h[i], h[j] = h[j], h[i]
	}
	return h
}

type Engine struct {
	sys  *System
	msgs *MsgTable
	vals []int // slot -> validator index

	mu       sync.Mutex
	byDigest map[[33]byte]*Local
	nlocals  int32

	liveMu  sync.Mutex
	live    map[int32]*Node
	liveCap int

	builds, replayed, calls, computed, noops, merges, filtered atomic.Int64
	monitors                                                   bool
	checkFilter                                                bool
	filterBad                                                  atomic.Int64
}

func newEngine(sys *System) *Engine {
	e := &Engine{sys: sys, msgs: newMsgTable(), byDigest: map[[33]byte]*Local{}, live: map[int32]*Node{}, liveCap: 3000, monitors: true}
	e.vals = append(append([]int{}, sys.honest...), sys.byz)
	return e
}

// ---------------------------------------------------------------------------------------------------------------
// driving a live node

var noopEdge = Edge{noop: true}

// apply handles one input on the live node and runs the node's own queue to quiescence. Returns the published messages.
func (e *Engine) apply(n *Node, in int32) (emitted []*Msg, dead string) {
	if n.dead != "" {
		return nil, n.dead
	}
	defer func() {
		if r := recover(); r != nil {
			st := string(debug.Stack())
			where := ""
			for _, ln := range strings.Split(st, "\n") {
				if strings.Contains(ln, "/consensus/state.go") || strings.Contains(ln, "/types/") {
					where = strings.TrimSpace(ln)
					break
				}
			}
			n.dead = fmt.Sprintf("%v @ %s", r, where)
			dead = n.dead
		}
	}()
	if in == inTimeout {
		ti, ok := n.ticker.Fire()
		if ok {
			n.calls++
			n.cs.VerifHandleTimeout(ti)
		}
	} else {
		n.deliver(e.msgs.get(in))
	}
	emitted = e.quiesce(n)
	return emitted, ""
}

func (e *Engine) quiesce(n *Node) []*Msg {
	var out []*Msg
	for {
		q := n.cs.VerifDrainInternal()
		if len(q) == 0 {
			return out
		}
		for i := 0; i < len(q); i++ {
			switch msg := q[i].Msg.(type) {
			case *cns.ProposalMessage:
				n.handle(q[i])
				var parts []*types.Part
				j := i + 1
				for ; j < len(q); j++ {
					bp, ok := q[j].Msg.(*cns.BlockPartMessage)
					if !ok {
						break
					}
					n.handle(q[j])
					parts = append(parts, bp.Part)
				}
				i = j - 1
				if rs := n.cs.VerifRS(); rs.ProposalBlock != nil {
					e.sys.nameBlock(rs.ProposalBlock)
				}
				out = append(out, e.msgs.intern(e.sys.propMsg(n.val, msg.Proposal, msg.Proposal.Height, msg.Proposal.Round, parts, msg.Proposal.BlockID, false)))
			case *cns.VoteMessage:
				n.handle(q[i])
				out = append(out, e.msgs.intern(e.sys.voteMsg(msg.Vote, false)))
			default:
				n.handle(q[i])
			}
		}
	}
}

func hexs(b []byte) string { return fmt.Sprintf("%X", b) }

func (e *Engine) observe(n *Node) Obs {
	rs := n.cs.VerifRS()
	o := Obs{H: rs.Height, R: rs.Round, Step: rs.Step, LockedRound: rs.LockedRound, ValidRound: rs.ValidRound, CommitRound: rs.CommitRound, Dead: n.dead}
	if rs.LockedBlock != nil {
		o.Locked = e.sys.label(rs.LockedBlock.Hash())
	}
	if rs.ValidBlock != nil {
		o.Valid = e.sys.label(rs.ValidBlock.Hash())
	}
	if rs.Proposal != nil {
		o.Proposal = fmt.Sprintf("r%d/%s/pol%d", rs.Proposal.Round, e.sys.label(rs.Proposal.BlockID.Hash), rs.Proposal.POLRound)
	}
	if rs.ProposalBlock != nil {
		o.PropBlock = e.sys.label(rs.ProposalBlock.Hash())
	}
	for h := int64(1); h <= n.bs.Height(); h++ {
		meta := n.bs.LoadBlockMeta(h)
		o.Committed = append(o.Committed, hexs(meta.BlockID.Hash))
	}
	o.TOPending = n.ticker.Pending
	if o.TOPending {
		o.TO = fmt.Sprintf("%d/%d/%v", n.ticker.Last.Height, n.ticker.Last.Round, n.ticker.Last.Step)
		o.TOK = [3]int64{n.ticker.Last.Height, int64(n.ticker.Last.Round), int64(n.ticker.Last.Step)}
	}
	if n.dead != "" {
		return o
	}
	// +2/3 claims and gossip material
	maxr := rs.Votes.Round() + 1
	for r := 0; r <= maxr+1; r++ {
		for _, t := range []types.SignedMsgType{types.PrevoteType, types.PrecommitType} {
			var vs *types.VoteSet
			if t == types.PrevoteType {
				vs = rs.Votes.Prevotes(r)
			} else {
				vs = rs.Votes.Precommits(r)
			}
			if vs == nil {
				continue
			}
			if bid, ok := vs.TwoThirdsMajority(); ok {
				o.Claims = append(o.Claims, e.msgs.intern(e.sys.claimMsg(n.val, rs.Height, r, t, bid, false)))
			}
			for i := 0; i < nVals; i++ {
				if v := vs.GetByIndex(i); v != nil {
					o.Held = append(o.Held, e.voteOf(v))
				}
			}
		}
	}
	if rs.LastCommit != nil {
		for i := 0; i < nVals; i++ {
			if v := rs.LastCommit.GetByIndex(i); v != nil {
				o.Held = append(o.Held, e.voteOf(v))
			}
		}
	}
	if rs.Proposal != nil && rs.ProposalBlockParts != nil && rs.ProposalBlockParts.IsComplete() && rs.ProposalBlockParts.HasHeader(rs.Proposal.BlockID.PartsHeader) {
		o.Held = append(o.Held, e.msgs.intern(e.sys.propMsg(e.sys.valOfProposer(rs), rs.Proposal, rs.Height, rs.Proposal.Round, partsOf(rs.ProposalBlockParts), rs.Proposal.BlockID, false)))
	}
	for _, ps := range []*types.PartSet{rs.ProposalBlockParts, rs.LockedBlockParts, rs.ValidBlockParts} {
		if ps != nil && ps.IsComplete() {
			o.Held = append(o.Held, e.msgs.intern(e.sys.propMsg(n.val, nil, rs.Height, 0, partsOf(ps), types.BlockID{Hash: blockHashOfParts(e.sys, ps), PartsHeader: ps.Header()}, false)))
		}
	}
	for h := int64(1); h <= n.bs.Height(); h++ {
		meta := n.bs.LoadBlockMeta(h)
		var parts []*types.Part
		for i := 0; i < meta.BlockID.PartsHeader.Total; i++ {
			parts = append(parts, n.bs.LoadBlockPart(h, i))
		}
		o.Held = append(o.Held, e.msgs.intern(e.sys.propMsg(n.val, nil, h, 0, parts, meta.BlockID, false)))
		if sc := n.bs.LoadSeenCommit(h); sc != nil {
			// catch-up claim of the reactor's queryMaj23Routine for lagging peers (CatchupCommitRound): +2/3 precommits
			// for the committed block at the commit round
			o.Claims = append(o.Claims, e.msgs.intern(e.sys.claimMsg(n.val, h, sc.Round(), types.PrecommitType, sc.BlockID, false)))
			for i := range sc.Precommits {
				if sc.Precommits[i] == nil {
					continue
				}
				if m := e.msgs.voteBySig(sc.Precommits[i].Signature); m != nil {
					o.Held = append(o.Held, m)
					continue
				}
				o.Held = append(o.Held, e.voteOf(sc.GetVote(i)))
			}
		}
	}
	return o
}

func (e *Engine) voteOf(v *types.Vote) *Msg {
	if m := e.msgs.voteBySig(v.Signature); m != nil {
		return m
	}
	return e.msgs.intern(e.sys.voteMsg(v, v.ValidatorIndex == e.sys.byz))
}

func partsOf(ps *types.PartSet) []*types.Part {
	var out []*types.Part
	for i := 0; i < ps.Total(); i++ {
		out = append(out, ps.GetPart(i))
	}
	return out
}

// blockHashOfParts: parts-only bundles are keyed by the parts hash (the block hash is not needed for delivery).
func blockHashOfParts(s *System, ps *types.PartSet) []byte { return ps.Header().Hash }

func (s *System) valOfProposer(rs *cstypes.RoundState) int {
	idx, _ := rs.Validators.GetByAddress(rs.Validators.GetProposer().Address)
	return idx
}

func (e *Engine) digest(n *Node, emitted []*Msg) [32]byte {
	d := newDH()
	d.add(n.cs.VerifRS())
	d.add(n.cs.VerifSMState())
	d.u64(uint64(n.ticker.Last.Height))
	d.u64(uint64(n.ticker.Last.Round))
	d.u64(uint64(n.ticker.Last.Step))
	if n.ticker.Pending {
		d.tag(1)
	} else {
		d.tag(0)
	}
	d.u64(uint64(n.bs.Height()))
	d.u64(uint64(len(n.pv.recs)))
	for _, r := range n.pv.recs {
		d.u64(uint64(r.H))
		d.u64(uint64(r.R))
		d.u64(uint64(r.T))
		d.str(r.Block)
	}
	d.u64(uint64(len(emitted)))
	for _, m := range emitted {
		d.str(m.Key)
	}
	d.str(n.dead)
	sum := d.sum()
	d.done()
	return sum
}

func behaviour(o *Obs, nEmitted int) uint64 {
	d := newDH()
	d.u64(uint64(o.H))
	d.u64(uint64(o.R))
	d.u64(uint64(o.Step))
	d.u64(uint64(o.LockedRound))
	d.str(o.Locked)
	d.u64(uint64(o.ValidRound))
	d.str(o.Valid)
	d.str(o.Proposal)
	d.str(o.PropBlock)
	d.u64(uint64(o.CommitRound))
	d.str(o.TO)
	d.u64(uint64(len(o.Committed)))
	d.u64(uint64(nEmitted))
	d.str(o.Dead)
	sum := d.sum()
	d.done()
	return uint64(sum[0]) | uint64(sum[1])<<8 | uint64(sum[2])<<16 | uint64(sum[3])<<24 | uint64(sum[4])<<32 | uint64(sum[5])<<40 | uint64(sum[6])<<48 | uint64(sum[7])<<56
}

// ---------------------------------------------------------------------------------------------------------------
// memoised step function

func (e *Engine) root(slot int) *Local {
	n := e.sys.newNode(e.vals[slot])
	n.eng = e
	l := e.register(slot, nil, -2, n, nil)
	e.putLive(l, n)
	return l
}

func (e *Engine) register(slot int, parent *Local, in int32, n *Node, emitted []*Msg) *Local {
	dg := e.digest(n, emitted)
	var k [33]byte
	k[0] = byte(slot)
	copy(k[1:], dg[:])
	e.mu.Lock()
	if x := e.byDigest[k]; x != nil {
		e.mu.Unlock()
		e.merges.Add(1)
		return x
	}
	e.mu.Unlock()
	l := &Local{slot: slot, parent: parent, in: in, digest: dg, emitted: emitted, nrecs: len(n.pv.recs), next: map[int32]*Edge{}}
	if parent != nil {
		l.depth = parent.depth + 1
	}
	l.obs = e.observe(n)
	l.beh = behaviour(&l.obs, len(emitted))
	if parent != nil {
		l.acc = parent.acc
		if in >= 0 {
			if m := e.msgs.get(in); m.Kind != 'P' {
				l.acc = insertSorted(parent.acc, in)
			}
		}
	}
	e.mu.Lock()
	defer e.mu.Unlock()
	if x := e.byDigest[k]; x != nil {
		e.merges.Add(1)
		return x
	}
	l.id = e.nlocals
	e.nlocals++
	e.byDigest[k] = l
	return l
}

func (e *Engine) takeLive(l *Local) *Node {
	e.liveMu.Lock()
	defer e.liveMu.Unlock()
	n := e.live[l.id]
	if n != nil {
		delete(e.live, l.id)
	}
	return n
}

func (e *Engine) putLive(l *Local, n *Node) {
	e.liveMu.Lock()
	defer e.liveMu.Unlock()
	if len(e.live) >= e.liveCap {
		k := 0
		for id := range e.live {
			delete(e.live, id)
			k++
			if k >= e.liveCap/8 {
				break
			}
		}
	}
	e.live[l.id] = n
}

// build returns a live node that is exactly in local state l.
func (e *Engine) build(l *Local) *Node {
	var todo []int32
	x := l
	var n *Node
	for {
		if n = e.takeLive(x); n != nil {
			break
		}
		if x.parent == nil {
			n = e.sys.newNode(e.vals[l.slot])
			n.eng = e
			e.builds.Add(1)
			break
		}
		todo = append(todo, x.in)
		x = x.parent
	}
	for i := len(todo) - 1; i >= 0; i-- {
		e.apply(n, todo[i])
	}
	e.replayed.Add(int64(len(todo)))
	return n
}

// ensure computes (memoises) the successors of l under every input of ins.
func (e *Engine) ensure(l *Local, ins []int32) {
	l.mu.Lock()
	defer l.mu.Unlock()
	var n *Node
	for _, in := range ins {
		if _, ok := l.next[in]; ok {
			continue
		}
		if l.obs.Dead != "" || (in == inTimeout && !l.obs.TOPending) {
			l.next[in] = &Edge{to: l, noop: true}
			continue
		}
		if in >= 0 && e.surelyNoop(l, e.msgs.get(in)) {
			e.filtered.Add(1)
			if !e.checkFilter {
				l.next[in] = &Edge{to: l, noop: true}
				continue
			}
			// self-check mode: run the real handler anyway and compare
			if n == nil {
				n = e.build(l)
			}
			e.apply(n, in)
			if e.digest(n, l.emitted) != l.digest {
				e.filterBad.Add(1)
				fmt.Printf("FILTER-MISMATCH: %s on %s is not a no-op\n", e.msgs.get(in).Key, l.name())
			}
			l.next[in] = &Edge{to: l, noop: true}
			n = nil
			continue
		}
		if n == nil {
			n = e.build(l)
		}
		before := n.calls
		nrec := len(n.pv.recs)
		em, dead := e.apply(n, in)
		e.calls.Add(int64(n.calls - before))
		e.computed.Add(1)
		emitted := l.emitted
		if len(em) > 0 {
			emitted = append(append(make([]*Msg, 0, len(l.emitted)+len(em)), l.emitted...), em...)
		}
		child := e.register(l.slot, l, in, n, emitted)
		ed := &Edge{to: child, emitted: em, active: child.beh != l.beh}
		if child == l {
			ed.noop = true
			e.noops.Add(1)
			l.next[in] = ed
			continue // the live node is still exactly in state l
		}
		ed.bad = e.localOracles(l, child, n, nrec, dead)
		l.next[in] = ed
		e.putLive(child, n)
		n = nil
	}
	if n != nil {
		e.putLive(l, n)
	}
}

// surelyNoop is a static pre-filter that mirrors the first checks of the handlers: messages of another height and
// votes / claims the node has already accepted cannot change its state (self-checked with -checkfilter).
func (e *Engine) surelyNoop(l *Local, m *Msg) bool {
	o := &l.obs
	switch m.Kind {
	case 'V':
		if m.H > o.H || m.H < o.H-1 {
			return true
		}
		if m.H == o.H-1 && !(o.Step == cstypes.RoundStepNewHeight && m.T == types.PrecommitType) {
			return true
		}
		return hasSorted(l.acc, m.id)
	case 'M':
		return m.H != o.H || hasSorted(l.acc, m.id)
	case 'P':
		return m.H != o.H
	}
	return false
}

func hasSorted(a []int32, x int32) bool {
	lo, hi := 0, len(a)
	for lo < hi {
		mid := (lo + hi) / 2
		if a[mid] < x {
			lo = mid + 1
		} else {
			hi = mid
		}
	}
	return lo < len(a) && a[lo] == x
}

func insertSorted(a []int32, x int32) []int32 {
	if hasSorted(a, x) {
		return a
	}
	out := make([]int32, 0, len(a)+1)
	i := 0
	for ; i < len(a) && a[i] < x; i++ {
		out = append(out, a[i])
	}
	out = append(out, x)
	return append(out, a[i:]...)
}

func (e *Engine) step(l *Local, in int32) *Edge {
	if in >= 0 && l.obs.Dead == "" {
		if m := e.msgs.get(in); e.surelyNoop(l, m) && !e.checkFilter {
			return &noopEdge
		}
	}
	l.mu.Lock()
	ed := l.next[in]
	l.mu.Unlock()
	if ed != nil {
		return ed
	}
	e.ensure(l, []int32{in})
	l.mu.Lock()
	ed = l.next[in]
	l.mu.Unlock()
	return ed
}
