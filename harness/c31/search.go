package main

// Global exploration over the product of memoised local states.
//
//  (1) bfs: every order of every delivery (pool = everything published + byzantine menu + +2/3 claims) and every
//      timeout, height 1, rounds <= bfsMaxRound, with dedup on the canonical global state, to a depth cap.
//  (2) devSearch: deviation-bounded search around the synchronous default schedule, heights <= maxH, rounds <= maxR;
//      layer k holds the states first reached with exactly k deviations; from each the default schedule is followed
//      to a leaf and every deviation alternative of every state on the way opens an entry of layer k+1.
//      Deviations: withholding a delivery (until the next round / until after the prevote step of the next round /
//      prevotes also until a LATER round than the next / for ever + explicit release), early timeouts, byzantine sends
//      (proposal bundles, votes, votes preceded by a +2/3 claim, re-signed copies of a vote with fresh timestamps).
//  progress: from every leaf the synchronous schedule with full gossip must commit a new height on all honest nodes
//      within progR rounds; judged under immediate synchrony and under late synchrony (see progress).

import (
	"fmt"
	"sort"
	"strings"
	"sync"
	"sync/atomic"
	"time"

	cstypes "github.com/gnolang/gno/tm2/pkg/bft/consensus/types"
	"github.com/gnolang/gno/tm2/pkg/bft/types"
)

const nSlots = 4

type WH struct {
	msg    int32
	slot   int8
	untilH int64 // released when the node's (height, round, step) exceeds (untilH, untilR, untilS)
	untilR int32
	untilS int32
}

type GState struct {
	loc [nSlots]*Local // slot 3 (the byzantine validator running honest code) may be nil
	wh  []WH           // sorted
}

type gkey struct {
	l  [nSlots]int32
	wh string
}

func (g *GState) key() gkey {
	var k gkey
	for i, l := range g.loc {
		if l == nil {
			k.l[i] = -1
		} else {
			k.l[i] = l.id
		}
	}
	if len(g.wh) > 0 {
		var sb strings.Builder
		for _, w := range g.wh {
			fmt.Fprintf(&sb, "%d.%d.%d.%d.%d;", w.msg, w.slot, w.untilH, w.untilR, w.untilS)
		}
		k.wh = sb.String()
	}
	return k
}

// canon is the run-independent name of a global state (local ids are not stable across runs, digests are).
func (g *GState) canon(e *Engine) string {
	var sb strings.Builder
	for _, l := range g.loc {
		if l == nil {
			sb.WriteString("-|")
		} else {
			fmt.Fprintf(&sb, "%X|", l.digest[:8])
		}
	}
	for _, w := range g.wh {
		fmt.Fprintf(&sb, "%s>%d@%d/%d;", e.msgs.get(w.msg).Key, w.slot, w.untilH, w.untilR)
	}
	return sb.String()
}

type Action struct {
	Kind byte // 'd' deliver, 't' timeout, 'w'/'v'/'l' withhold (late), 'x' withhold (never), 'T' early timeout, 'b'/'B' byzantine send, '|' '~' continuation marks
	Msg  int32
	Slot int8
	Mask uint8
	seq  *bseq // byzantine sends: the exact inputs handed to every recipient, in order (+2/3 claim, vote, re-signed copies)
}

// bseq lists, per honest slot, the message ids of one byzantine send (one deviation).
type bseq [3][]int32

func (a Action) describe(e *Engine) string {
	switch a.Kind {
	case 'd':
		return fmt.Sprintf("deliver %s -> n%d", e.msgs.get(a.Msg).Key, a.Slot)
	case 't':
		return fmt.Sprintf("timeout n%d", a.Slot)
	case 'T':
		return fmt.Sprintf("DEV early-timeout n%d", a.Slot)
	case 'w':
		return fmt.Sprintf("DEV withhold-until-next-round %s from %s", e.msgs.get(a.Msg).Key, maskStr(a.Mask))
	case 'v':
		return fmt.Sprintf("DEV withhold-until-after-prevote-of-next-round %s from %s", e.msgs.get(a.Msg).Key, maskStr(a.Mask))
	case 'l':
		return fmt.Sprintf("DEV withhold-until-a-later-round(+2) %s from %s", e.msgs.get(a.Msg).Key, maskStr(a.Mask))
	case 'x':
		return fmt.Sprintf("DEV drop %s for %s", e.msgs.get(a.Msg).Key, maskStr(a.Mask))
	case 'b':
		return fmt.Sprintf("DEV byzantine %s -> %s%s", e.msgs.get(a.Msg).Key, maskStr(a.Mask), a.seqStr(e))
	case 'B':
		return fmt.Sprintf("DEV byzantine +2/3-claim and %s -> %s%s", e.msgs.get(a.Msg).Key, maskStr(a.Mask), a.seqStr(e))
	case '|':
		return "--- synchronous continuation (byzantine validator silent, full gossip) ---"
	case '~':
		return "--- late synchrony: byzantine validator silent, no gossip and withheld messages stay withheld until every honest node has entered a later round ---"
	case 'r':
		return fmt.Sprintf("DEV release dropped %s -> n%d", e.msgs.get(a.Msg).Key, a.Slot)
	}
	return "?"
}

// seqStr spells out a byzantine send that is more than "the message itself to every recipient".
func (a Action) seqStr(e *Engine) string {
	if a.seq == nil {
		return ""
	}
	plain := true
	for i := 0; i < 3; i++ {
		if a.Mask&(1<<i) != 0 && !(len(a.seq[i]) == 1 && a.seq[i][0] == a.Msg) {
			plain = false
		}
	}
	if plain {
		return ""
	}
	var parts []string
	for i := 0; i < 3; i++ {
		if a.Mask&(1<<i) == 0 {
			continue
		}
		var ks []string
		for _, id := range a.seq[i] {
			ks = append(ks, e.msgs.get(id).Key)
		}
		parts = append(parts, fmt.Sprintf("n%d: %s", i, strings.Join(ks, ", ")))
	}
	return " [" + strings.Join(parts, "; ") + "]"
}

func maskStr(m uint8) string {
	var s []string
	for i := 0; i < nSlots; i++ {
		if m&(1<<i) != 0 {
			s = append(s, fmt.Sprintf("n%d", i))
		}
	}
	return "{" + strings.Join(s, ",") + "}"
}

type Params struct {
	maxH       int64 // explore until every honest node has committed maxH
	maxR       int   // cut when an honest node exceeds this round
	bound      int   // deviation bound
	byzHonest  bool  // slot 3 runs the honest code by default (else the byzantine validator is silent by default)
	devW       bool  // withholding deviations
	devDrop    bool
	devT       bool // early timeouts
	devB       bool // byzantine sends
	devC       bool // byzantine votes may be preceded by a +2/3 claim (so that conflicting votes are accepted)
	devR       bool // byzantine votes are followed by re-signed copies with fresh timestamps (t1, t2) as long as the recipient reacts
	devL       bool // late delivery: a prevote is withheld until the recipient has entered a LATER round than the next one
	prevoteVoc bool // deviation vocabulary restricted to the prevote phase: withheld prevotes, byzantine prevotes
	lateGST    bool // bounded progress also under late synchrony (see progress)
	subsets    bool // byzantine sends / withholding to every subset (else: single recipients and all)
	activeOnly bool // postpone byzantine sends that do not change the recipient's behaviour state now
	progAll    bool // bounded-progress continuation also from leaves where every honest node committed maxH
	progR      int  // bounded progress: rounds allowed in the continuation
	maxStates  int64
}

type Search struct {
	e *Engine
	p Params
	r interface {
		Expired() bool
	}

	mu      sync.Mutex
	visited map[gkey]int8
	parent  map[gkey]pedge

	states, transitions, leaves, progChecks, progSteps atomic.Int64
	maxProgRounds                                      atomic.Int64
	capped                                             atomic.Bool
	byLayer                                            []int64

	vmu   sync.Mutex
	viols map[string]*Found
	hist  map[string]int64

	pmu   sync.Mutex
	pmemo map[pkey]pval // states from which the continuation is known to reach the goal: remaining steps, max round

	samples []leafSample

	menuMu  sync.Mutex
	menu    map[string][]*Msg
	resends map[int32]*Msg
}

type pedge struct {
	from gkey
	act  Action
	root bool
}

type Found struct {
	Key    string
	Detail string
	Trace  []Action // the schedule from the initial state; Kind '|' marks the start of the synchronous continuation
	state  *GState  // the global state in which the violation was observed (after the last action)
	silent bool     // scenario without the byzantine validator running honest code
}

func newSearch(e *Engine, p Params, r interface{ Expired() bool }) *Search {
	return &Search{e: e, p: p, r: r, visited: map[gkey]int8{}, parent: map[gkey]pedge{}, viols: map[string]*Found{}, hist: map[string]int64{}, pmemo: map[pkey]pval{}, menu: map[string][]*Msg{}, resends: map[int32]*Msg{}}
}

func (s *Search) outcome(c string) {
	s.vmu.Lock()
	s.hist[c]++
	s.vmu.Unlock()
}

// ---------------------------------------------------------------------------------------------------------------
// pool, candidates, default action

func (s *Search) pool(g *GState, gossip bool) []*Msg {
	seen := map[int32]bool{}
	var out []*Msg
	add := func(ms []*Msg) {
		for _, m := range ms {
			if !seen[m.id] {
				seen[m.id] = true
				out = append(out, m)
			}
		}
	}
	for _, l := range g.loc {
		if l == nil {
			continue
		}
		add(l.emitted)
		if gossip {
			add(l.obs.Held)
			add(l.obs.Claims)
		}
	}
	sortMsgs(out)
	return out
}

func (g *GState) withheld(m int32, slot int) bool {
	for _, w := range g.wh {
		if w.msg == m && int(w.slot) == slot {
			return true
		}
	}
	return false
}

// release drops withheld entries whose release condition holds.
func (g *GState) release() {
	if len(g.wh) == 0 {
		return
	}
	out := g.wh[:0:0]
	for _, w := range g.wh {
		l := g.loc[w.slot]
		if l.obs.H > w.untilH || (l.obs.H == w.untilH && (int32(l.obs.R) > w.untilR || (int32(l.obs.R) == w.untilR && int32(l.obs.Step) > w.untilS))) {
			continue
		}
		out = append(out, w)
	}
	g.wh = out
}

type cand struct {
	m    *Msg
	slot int
	ed   *Edge
}

func (s *Search) senderSlot(m *Msg) int {
	for i, v := range s.e.vals {
		if v == m.From {
			return i
		}
	}
	return -1
}

// firstCandidate returns the first state-changing delivery in canonical order; all=true collects every candidate of
// that same message (for withholding subsets).
func (s *Search) candidates(g *GState, pool []*Msg, gossip bool, firstOnly bool, freeze int) []cand {
	var out []cand
	for _, m := range pool {
		from := s.senderSlot(m)
		for i, l := range g.loc {
			if l == nil || l.obs.Dead != "" || len(l.obs.Committed) >= freeze {
				continue
			}
			if i == from && (!gossip || m.Kind == 'M') {
				continue
			}
			if g.withheld(m.id, i) {
				continue
			}
			ed := s.e.step(l, m.id)
			if ed.noop {
				continue
			}
			out = append(out, cand{m, i, ed})
		}
		if firstOnly && len(out) > 0 {
			return out
		}
	}
	return out
}

// nextTimeout picks the pending timeout with the smallest height/round/step (ties: lowest slot).
func (s *Search) nextTimeout(g *GState, freeze int) int {
	best := -1
	var bk [3]int64
	for i, l := range g.loc {
		if l == nil || !l.obs.TOPending || l.obs.Dead != "" || len(l.obs.Committed) >= freeze {
			continue
		}
		k := l.obs.TOK
		if best < 0 || k[0] < bk[0] || (k[0] == bk[0] && (k[1] < bk[1] || (k[1] == bk[1] && k[2] < bk[2]))) {
			best, bk = i, k
		}
	}
	return best
}

func (g *GState) clone() *GState {
	c := &GState{loc: g.loc}
	c.wh = append([]WH(nil), g.wh...)
	return c
}

// applyEdge moves slot i along edge ed, returns local-oracle violations of that step.
func (s *Search) move(g *GState, slot int, ed *Edge) []Viol {
	g.loc[slot] = ed.to
	g.release()
	s.transitions.Add(1)
	return ed.bad
}

// ---------------------------------------------------------------------------------------------------------------
// global oracles

func (s *Search) honestSlots() []int { return []int{0, 1, 2} }

func (s *Search) agreement(g *GState) *Viol {
	for a := 0; a < 3; a++ {
		for b := a + 1; b < 3; b++ {
			ca, cb := g.loc[a].obs.Committed, g.loc[b].obs.Committed
			for h := 0; h < len(ca) && h < len(cb); h++ {
				if ca[h] != cb[h] {
					x, y := s.e.sys.labelHex(ca[h]), s.e.sys.labelHex(cb[h])
					if x > y {
						x, y = y, x
					}
					return &Viol{fmt.Sprintf("agreement:h%d:%s-vs-%s", h+1, classLabel(x), classLabel(y)),
						fmt.Sprintf("honest nodes v%d and v%d committed different blocks at height %d: %s vs %s", s.e.vals[a], s.e.vals[b], h+1, s.e.sys.labelHex(ca[h]), s.e.sys.labelHex(cb[h]))}
				}
			}
		}
	}
	return nil
}

// classLabel strips the hash suffix of honest block labels so that violation keys are stable classes.
func classLabel(l string) string {
	if i := strings.IndexByte(l, '.'); i > 0 {
		return l[:i]
	}
	return l
}

// report records a violation observed in state g, reached from the visited state k by the actions extra.
func (s *Search) report(g *GState, k gkey, v Viol, extra []Action) {
	tr := append(s.trace(k), extra...)
	s.vmu.Lock()
	defer s.vmu.Unlock()
	if f, ok := s.viols[v.Key]; ok {
		// keep the shortest witness (ties: the canonically smallest description)
		if len(tr) < len(f.Trace) || (len(tr) == len(f.Trace) && s.describe(tr) < s.describe(f.Trace)) {
			f.Trace, f.Detail, f.state = tr, v.Detail, g.clone()
		}
		return
	}
	s.viols[v.Key] = &Found{Key: v.Key, Detail: v.Detail, Trace: tr, state: g.clone(), silent: !s.p.byzHonest}
}

func (s *Search) describe(tr []Action) string {
	var sb strings.Builder
	for _, a := range tr {
		sb.WriteString(a.describe(s.e))
		sb.WriteByte(';')
	}
	return sb.String()
}

func (s *Search) describeList(tr []Action) []string {
	out := make([]string, len(tr))
	for i, a := range tr {
		out[i] = a.describe(s.e)
	}
	return out
}

func (s *Search) trace(k gkey) []Action {
	s.mu.Lock()
	defer s.mu.Unlock()
	var rev []Action
	for {
		pe, ok := s.parent[k]
		if !ok || pe.root {
			break
		}
		rev = append(rev, pe.act)
		k = pe.from
	}
	for i, j := 0, len(rev)-1; i < j; i, j = i+1, j-1 {
		rev[i], rev[j] = rev[j], rev[i]
	}
	return rev
}

// ---------------------------------------------------------------------------------------------------------------
// byzantine menu

// nStamps is the size of the byzantine signer's timestamp menu {t0, t1, t2}: the honest code runs on a constant logical
// clock, the byzantine key may sign the same (height, round, type, block) with any of these timestamps, which gives
// votes that differ ONLY in timestamp (and therefore in signature): duplicated but not byte-identical votes.
const nStamps = 3

func (s *Search) byzVote(h int64, r int, t types.SignedMsgType, bid types.BlockID, variant int) *Msg {
	sys := s.e.sys
	v := &types.Vote{Type: t, Height: h, Round: r, BlockID: bid, Timestamp: genesisTime.Add(timeIota(h) + time.Duration(variant)*time.Millisecond),
		ValidatorAddress: sys.keys[sys.byz].addr, ValidatorIndex: sys.byz}
	sig, err := sys.keys[sys.byz].priv.Sign(v.SignBytes(chainID))
	if err != nil {
		panic(err)
	}
	v.Signature = sig
	m := sys.voteMsg(v, true)
	m.Var = variant
	return s.e.msgs.intern(m)
}

// resend returns the copy of the byzantine vote m that is signed with the next timestamp of the menu (nil after the last).
func (s *Search) resend(m *Msg) *Msg {
	if m.Kind != 'V' || !m.Byz || m.From != s.e.sys.byz || m.Var+1 >= nStamps {
		return nil
	}
	s.menuMu.Lock()
	x := s.resends[m.id]
	s.menuMu.Unlock()
	if x != nil {
		return x
	}
	x = s.byzVote(m.H, m.R, m.T, m.BID, m.Var+1)
	if x == m {
		return nil // (24-bit key collision between two copies: treat the menu as exhausted)
	}
	s.menuMu.Lock()
	s.resends[m.id] = x
	s.menuMu.Unlock()
	return x
}

// firstUnheld returns the first copy of the byzantine vote m (in timestamp-menu order) that the node in local state l
// has not accepted yet: sending a vote the node already holds means re-signing it with a fresh timestamp. Timestamps
// are interchangeable, so "the k-th copy a node gets carries t_k" is a symmetry reduction, not a restriction.
func (s *Search) firstUnheld(l *Local, m *Msg) *Msg {
	for m != nil && hasSorted(l.acc, m.id) {
		m = s.resend(m)
	}
	return m
}

func (s *Search) byzProposal(blk *types.Block, ps *types.PartSet, round, pol int) *Msg {
	sys := s.e.sys
	bid := types.BlockID{Hash: blk.Hash(), PartsHeader: ps.Header()}
	p := &types.Proposal{Type: types.ProposalType, Height: blk.Height, Round: round, POLRound: pol, BlockID: bid, Timestamp: genesisTime}
	sig, err := sys.keys[sys.byz].priv.Sign(p.SignBytes(chainID))
	if err != nil {
		panic(err)
	}
	p.Signature = sig
	return s.e.msgs.intern(sys.propMsg(sys.byz, p, blk.Height, round, partsOf(ps), bid, true))
}

// values returns the block ids votable at height h in state g: blocks of proposals in the pool, plus A and B at height 1.
func (s *Search) values(pool []*Msg, h int64) []types.BlockID {
	var out []types.BlockID
	seen := map[string]bool{}
	add := func(b types.BlockID) {
		k := string(b.Hash)
		if !seen[k] {
			seen[k] = true
			out = append(out, b)
		}
	}
	sys := s.e.sys
	if h == 1 {
		add(types.BlockID{Hash: sys.blkA.Hash(), PartsHeader: sys.partsA.Header()})
		if !s.p.prevoteVoc { // without byzantine proposals A and B are interchangeable (blocks no honest node has seen)
			add(types.BlockID{Hash: sys.blkB.Hash(), PartsHeader: sys.partsB.Header()})
		}
	}
	for _, m := range pool {
		if m.Kind == 'P' && m.Prop != nil && m.H == h {
			add(m.BID)
		}
	}
	add(types.BlockID{})
	return out
}

// byzMenu lists what the byzantine validator can send in state g (cached per (heights, rounds, values) signature).
func (s *Search) byzMenu(g *GState, pool []*Msg, maxRound int) []*Msg {
	sys := s.e.sys
	hs := map[int64]int{}
	for _, i := range s.honestSlots() {
		o := g.loc[i].obs
		if o.H > s.p.maxH {
			continue
		}
		if r, ok := hs[o.H]; !ok || o.R > r {
			hs[o.H] = o.R
		}
	}
	var sig strings.Builder
	type hv struct {
		h    int64
		rmax int
		vals []types.BlockID
	}
	var doms []hv
	var hkeys []int64
	for h := range hs {
		hkeys = append(hkeys, h)
	}
	sort.Slice(hkeys, func(i, j int) bool { return hkeys[i] < hkeys[j] })
	for _, h := range hkeys {
		rmax := hs[h] + 1
		if s.p.prevoteVoc {
			rmax = hs[h] // prevote-phase vocabulary: no votes for rounds nobody has entered yet
		}
		if rmax > maxRound {
			rmax = maxRound
		}
		vals := s.values(pool, h)
		doms = append(doms, hv{h, rmax, vals})
		fmt.Fprintf(&sig, "h%d r%d:", h, rmax)
		for _, v := range vals {
			fmt.Fprintf(&sig, "%X,", v.Hash)
		}
	}
	s.menuMu.Lock()
	if m, ok := s.menu[sig.String()]; ok {
		s.menuMu.Unlock()
		return m
	}
	s.menuMu.Unlock()
	var out []*Msg
	for _, d := range doms {
		if d.h == 1 && sys.propH1[0] == sys.byz {
			out = append(out, s.byzProposal(sys.blkA, sys.partsA, 0, -1), s.byzProposal(sys.blkB, sys.partsB, 0, -1), s.byzProposal(sys.blkB, sys.partsB, 0, 0))
		}
		for r := 0; r <= d.rmax; r++ {
			for _, t := range []types.SignedMsgType{types.PrevoteType, types.PrecommitType} {
				for _, v := range d.vals {
					out = append(out, s.byzVote(d.h, r, t, v, 0))
				}
			}
		}
	}
	sortMsgs(out)
	s.menuMu.Lock()
	s.menu[sig.String()] = out
	s.menuMu.Unlock()
	return out
}

// ---------------------------------------------------------------------------------------------------------------
// deviation-bounded search

func (s *Search) initial() *GState {
	g := &GState{}
	for i := 0; i < nSlots; i++ {
		if i == 3 && !s.p.byzHonest {
			continue
		}
		g.loc[i] = s.e.root(i)
	}
	return g
}

func (s *Search) terminal(g *GState) (done bool, cut bool) {
	done = true
	for _, i := range s.honestSlots() {
		o := g.loc[i].obs
		if int64(len(o.Committed)) < s.p.maxH {
			done = false
			if o.R > s.p.maxR {
				cut = true
			}
		}
	}
	return
}

type entry struct {
	g    *GState
	from gkey
	act  Action
	root bool
}

func (s *Search) claim(k gkey, layer int, pe pedge) bool {
	s.mu.Lock()
	defer s.mu.Unlock()
	if _, ok := s.visited[k]; ok {
		return false
	}
	s.visited[k] = int8(layer)
	s.parent[k] = pe
	return true
}

func (s *Search) seen(k gkey) bool {
	s.mu.Lock()
	defer s.mu.Unlock()
	_, ok := s.visited[k]
	return ok
}

func subsetsOf(cands []int, must int, all bool) []uint8 {
	// non-empty subsets of cands; if must >= 0 only subsets containing it. all=false: singletons and the full set only.
	var out []uint8
	n := len(cands)
	full := uint8(0)
	for _, c := range cands {
		full |= 1 << c
	}
	for b := 1; b < 1<<n; b++ {
		var m uint8
		cnt := 0
		for j := 0; j < n; j++ {
			if b&(1<<j) != 0 {
				m |= 1 << cands[j]
				cnt++
			}
		}
		if must >= 0 && m&(1<<must) == 0 {
			continue
		}
		if !all && cnt != 1 && m != full {
			continue
		}
		out = append(out, m)
	}
	return out
}

// expand checks state g, returns the default successor (nil at a leaf) and appends the deviation entries.
func (s *Search) expand(g *GState, k gkey, layer int, next *[]entry) (*GState, Action, bool) {
	s.states.Add(1)
	if v := s.agreement(g); v != nil {
		s.report(g, k, *v, nil)
		s.outcome("leaf:agreement-violation")
		return nil, Action{}, false
	}
	done, cut := s.terminal(g)
	if done {
		s.outcome("leaf:all-honest-committed")
		if s.p.progAll || len(g.wh) > 0 {
			s.leaf(g, k)
		} else {
			s.leaves.Add(1)
			s.sampleLeaf(g, k)
		}
		return nil, Action{}, false
	}
	if cut {
		s.outcome("leaf:round-bound")
		s.leaf(g, k)
		return nil, Action{}, false
	}
	pool := s.pool(g, false)
	cands := s.candidates(g, pool, false, true, int(s.p.maxH))
	var def Action
	var defEdge *Edge
	if len(cands) > 0 {
		def = Action{Kind: 'd', Msg: cands[0].m.id, Slot: int8(cands[0].slot)}
		defEdge = cands[0].ed
	} else if t := s.nextTimeout(g, int(s.p.maxH)); t >= 0 {
		def = Action{Kind: 't', Slot: int8(t)}
		defEdge = s.e.step(g.loc[t], inTimeout)
	}
	if layer < s.p.bound {
		s.alternatives(g, k, pool, cands, def, next)
	}
	if defEdge == nil {
		s.outcome("leaf:quiescent")
		s.leaf(g, k)
		return nil, Action{}, false
	}
	ng := g.clone()
	bad := s.move(ng, int(def.Slot), defEdge)
	for _, b := range bad {
		s.report(ng, k, b, []Action{def})
	}
	return ng, def, true
}

func (s *Search) push(next *[]entry, g *GState, from gkey, act Action, bad []Viol) {
	s.transitions.Add(0)
	for _, b := range bad {
		s.report(g, from, b, []Action{act})
	}
	if s.seen(g.key()) {
		return
	}
	*next = append(*next, entry{g: g, from: from, act: act})
}

func (s *Search) alternatives(g *GState, k gkey, pool []*Msg, cands []cand, def Action, next *[]entry) {
	// withholding of the message that is about to be delivered
	defMsg := (*Msg)(nil)
	if def.Kind == 'd' {
		defMsg = s.e.msgs.get(def.Msg)
	}
	isPrevote := defMsg != nil && defMsg.Kind == 'V' && defMsg.T == types.PrevoteType
	if (s.p.devW || s.p.devDrop) && def.Kind == 'd' && def.Slot < 3 && (!s.p.prevoteVoc || isPrevote) {
		var cs []int
		for _, c := range cands {
			if c.slot < 3 {
				cs = append(cs, c.slot)
			}
		}
		for _, mask := range subsetsOf(cs, int(def.Slot), s.p.subsets) {
			for _, kind := range []byte{'w', 'v', 'l', 'x'} {
				if (kind != 'x' && !s.p.devW) || (kind == 'x' && !s.p.devDrop) {
					continue
				}
				if kind == 'l' && !(s.p.devL && isPrevote) {
					continue
				}
				if (kind == 'v' || kind == 'w') && s.p.prevoteVoc && s.p.devL {
					continue // prevote-phase vocabulary: the late kind subsumes the two earlier release points for the liveness question
				}
				ng := g.clone()
				for i := 0; i < 3; i++ {
					if mask&(1<<i) == 0 {
						continue
					}
					w := WH{msg: def.Msg, slot: int8(i), untilH: g.loc[i].obs.H, untilR: int32(g.loc[i].obs.R), untilS: 1 << 20}
					switch kind {
					case 'v': // until the node is past the prevote step of its next round
						w.untilR, w.untilS = w.untilR+1, int32(cstypes.RoundStepPrevote)
					case 'l': // late delivery: until the node has entered a later round than the next one
						w.untilR = w.untilR + 1
					case 'x':
						w.untilH = 1 << 40
					}
					ng.wh = append(ng.wh, w)
				}
				ng.sortWH()
				s.transitions.Add(1)
				s.push(next, ng, k, Action{Kind: kind, Msg: def.Msg, Mask: mask}, nil)
			}
		}
	}
	// release of a dropped message
	if s.p.devDrop {
		for idx, w := range g.wh {
			if w.untilH < 1<<40 {
				continue
			}
			l := g.loc[w.slot]
			if int64(len(l.obs.Committed)) >= s.p.maxH {
				continue
			}
			ed := s.e.step(l, w.msg)
			if ed.noop {
				continue
			}
			ng := g.clone()
			ng.wh = append(ng.wh[:idx:idx], ng.wh[idx+1:]...)
			bad := s.move(ng, int(w.slot), ed)
			s.push(next, ng, k, Action{Kind: 'r', Msg: w.msg, Slot: w.slot}, bad)
		}
	}
	// early timeouts (any pending timeout that is not the default action)
	if s.p.devT {
		for _, i := range s.honestSlots() {
			l := g.loc[i]
			if !l.obs.TOPending || l.obs.Dead != "" || (def.Kind == 't' && int(def.Slot) == i) || int64(len(l.obs.Committed)) >= s.p.maxH {
				continue
			}
			ed := s.e.step(l, inTimeout)
			if ed.noop {
				continue
			}
			ng := g.clone()
			bad := s.move(ng, i, ed)
			s.push(next, ng, k, Action{Kind: 'T', Slot: int8(i)}, bad)
		}
	}
	// byzantine sends: a vote / proposal of the menu to a subset (one deviation). A vote the recipient already holds is
	// sent as a re-signed copy with a fresh timestamp; when the recipient would reject the vote as conflicting, it is
	// preceded by the byzantine validator's +2/3 claim for that block; and the vote is followed by further re-signed
	// copies (up to nStamps in total) for as long as the recipient still reacts to them.
	// Sends that do not change the recipient's behaviour state now are postponed (they stay available later).
	if s.p.devB {
		sys := s.e.sys
		for _, m := range s.byzMenu(g, pool, s.p.maxR) {
			if s.p.prevoteVoc && !(m.Kind == 'V' && m.T == types.PrevoteType) {
				continue
			}
			var cs []int
			var opts [3][]*Edge
			var seq bseq
			withClaim := false
			for _, i := range s.honestSlots() {
				l := g.loc[i]
				if l.obs.Dead != "" || l.obs.H > s.p.maxH || l.obs.H != m.H {
					continue
				}
				first := m
				if m.Kind == 'V' && s.p.devR {
					if first = s.firstUnheld(l, m); first == nil {
						continue
					}
				}
				var path []*Edge
				var ins []int32
				claimed := false
				ed := s.e.step(l, first.id)
				if !ed.noop {
					path, ins = append(path, ed), append(ins, first.id)
				} else {
					if m.Kind != 'V' || !s.p.devC {
						continue
					}
					c := s.e.msgs.intern(sys.claimMsg(sys.byz, m.H, m.R, m.T, m.BID, true))
					ec := s.e.step(l, c.id)
					if ec.noop {
						continue
					}
					ev := s.e.step(ec.to, first.id)
					if ev.noop {
						continue
					}
					path, ins = append(path, ec, ev), append(ins, c.id, first.id)
					claimed = true
				}
				if m.Kind == 'V' && s.p.devR {
					for nx := s.resend(first); nx != nil; nx = s.resend(nx) {
						e2 := s.e.step(path[len(path)-1].to, nx.id)
						if e2.noop {
							break
						}
						path, ins = append(path, e2), append(ins, nx.id)
					}
				}
				if s.p.activeOnly && path[len(path)-1].to.beh == l.beh {
					continue
				}
				cs = append(cs, i)
				opts[i], seq[i] = path, ins
				withClaim = withClaim || claimed
			}
			if len(cs) == 0 {
				continue
			}
			kind := byte('b')
			if withClaim {
				kind = 'B'
			}
			for _, mask := range subsetsOf(cs, -1, s.p.subsets) {
				ng := g.clone()
				var bad []Viol
				sq := new(bseq)
				for _, i := range cs {
					if mask&(1<<i) != 0 {
						sq[i] = seq[i]
						for _, ed := range opts[i] {
							bad = append(bad, s.move(ng, i, ed)...)
						}
					}
				}
				s.push(next, ng, k, Action{Kind: kind, Msg: m.id, Mask: mask, seq: sq}, bad)
			}
		}
	}
}

func (g *GState) sortWH() {
	sort.Slice(g.wh, func(a, b int) bool {
		if g.wh[a].msg != g.wh[b].msg {
			return g.wh[a].msg < g.wh[b].msg
		}
		return g.wh[a].slot < g.wh[b].slot
	})
}

// run explores layer by layer.
func (s *Search) run(par func(n int, f func(i int))) {
	g0 := s.initial()
	cur := []entry{{g: g0, root: true}}
	for layer := 0; layer <= s.p.bound && len(cur) > 0; layer++ {
		var nmu sync.Mutex
		var next []entry
		before := s.states.Load()
		par(len(cur), func(i int) {
			en := cur[i]
			g := en.g
			k := g.key()
			if !s.claim(k, layer, pedge{from: en.from, act: en.act, root: en.root}) {
				return
			}
			var local []entry
			for n := 0; ; n++ {
				if n > 3000 {
					panic("default schedule does not terminate: " + s.describe(s.trace(k)))
				}
				if s.p.maxStates > 0 && s.states.Load() >= s.p.maxStates {
					s.capped.Store(true)
					break
				}
				ng, act, ok := s.expand(g, k, layer, &local)
				if !ok {
					break
				}
				nk := ng.key()
				if !s.claim(nk, layer, pedge{from: k, act: act}) {
					break
				}
				g, k = ng, nk
			}
			nmu.Lock()
			next = append(next, local...)
			nmu.Unlock()
		})
		s.byLayer = append(s.byLayer, s.states.Load()-before)
		if s.r.Expired() || s.capped.Load() {
			s.capped.Store(true)
			break
		}
		// deterministic order, dedup
		sort.Slice(next, func(a, b int) bool { return next[a].g.canonLess(next[b].g) })
		cur = cur[:0]
		var last *GState
		for _, en := range next {
			if last != nil && en.g.key() == last.key() {
				continue
			}
			last = en.g
			cur = append(cur, en)
		}
	}
}

func (g *GState) canonLess(o *GState) bool {
	for i := range g.loc {
		a, b := g.loc[i], o.loc[i]
		if a == b {
			continue
		}
		if a == nil || b == nil {
			return a == nil
		}
		if a.digest != b.digest {
			return string(a.digest[:]) < string(b.digest[:])
		}
	}
	if len(g.wh) != len(o.wh) {
		return len(g.wh) < len(o.wh)
	}
	return g.key().wh < o.key().wh
}

// ---------------------------------------------------------------------------------------------------------------
// bounded progress from a leaf

type pkey struct {
	l     [nSlots]int32
	goal  int
	limit int
}

type pval struct {
	rem      int
	maxRound int
}

type leafSample struct {
	canon string
	k     gkey
	g     *GState
}

func (s *Search) sampleLeaf(g *GState, k gkey) {
	c := g.canon(s.e)
	s.vmu.Lock()
	defer s.vmu.Unlock()
	if len(s.samples) >= 6 && c >= s.samples[len(s.samples)-1].canon {
		return
	}
	s.samples = append(s.samples, leafSample{c, k, g.clone()})
	sort.Slice(s.samples, func(a, b int) bool { return s.samples[a].canon < s.samples[b].canon })
	if len(s.samples) > 6 {
		s.samples = s.samples[:6]
	}
}

func (s *Search) leaf(g *GState, k gkey) {
	s.leaves.Add(1)
	s.sampleLeaf(g, k)
	if s.p.progR <= 0 {
		return
	}
	modes := []bool{false}
	if s.p.lateGST {
		modes = append(modes, true)
	}
	for _, late := range modes {
		res, rounds, tail, fin := s.progress(g, late)
		if rounds > int(s.maxProgRounds.Load()) {
			s.maxProgRounds.Store(int64(rounds))
		}
		pre := "progress:"
		if late {
			pre = "progress-late:"
		}
		switch res {
		case "ok":
			s.outcome(pre + "ok")
		default:
			s.outcome(pre + res)
			how := "synchronous continuation with full gossip from this state"
			if late {
				how = "late synchrony (no gossip, withheld messages kept back until every honest node has entered a later round), then synchronous continuation with full gossip"
			}
			s.report(fin, k, Viol{"progress:" + res, fmt.Sprintf("%s: %s", how, res)}, tail)
		}
	}
}

// progress continues synchronously (byzantine validator silent, everything held by anyone gossiped to everyone, +2/3
// claims included, timeouts only when nothing is deliverable) until every honest node has committed one more height
// than the most advanced honest node had at the leaf.
// late=true puts a phase of LATE synchrony in front: the byzantine validator is silent at once, but nothing is gossiped
// yet (only what the honest nodes publish themselves is delivered) and withheld messages stay withheld, until every
// honest node has entered a later round than the one it was in at the leaf (or nothing is enabled any more). Only then
// is everything delivered: votes a node missed reach it in a round it has already left ("late polka").
func (s *Search) progress(leaf *GState, late bool) (string, int, []Action, *GState) {
	s.progChecks.Add(1)
	g := &GState{loc: leaf.loc}
	g.loc[3] = nil
	goal := 0
	for _, i := range s.honestSlots() {
		if c := len(g.loc[i].obs.Committed); c > goal {
			goal = c
		}
	}
	goal++
	tail := []Action{{Kind: '|'}}
	pre := 0
	if late {
		tail[0].Kind = '~'
		for _, w := range leaf.wh {
			if w.slot < 3 {
				g.wh = append(g.wh, w)
			}
		}
		var h0, r0 [3]int64
		for _, i := range s.honestSlots() {
			h0[i], r0[i] = g.loc[i].obs.H, int64(g.loc[i].obs.R)
		}
		for ; pre < 600; pre++ {
			if s.agreement(g) != nil {
				break
			}
			moved := true
			for _, i := range s.honestSlots() {
				o := g.loc[i].obs
				if len(o.Committed) >= goal || o.Dead != "" {
					continue
				}
				if !(o.H > h0[i] || (o.H == h0[i] && int64(o.R) > r0[i])) {
					moved = false
				}
			}
			if moved {
				break
			}
			cands := s.candidates(g, s.pool(g, false), false, true, goal)
			var act Action
			var ed *Edge
			if len(cands) > 0 {
				act, ed = Action{Kind: 'd', Msg: cands[0].m.id, Slot: int8(cands[0].slot)}, cands[0].ed
			} else if t := s.nextTimeout(g, goal); t >= 0 {
				act, ed = Action{Kind: 't', Slot: int8(t)}, s.e.step(g.loc[t], inTimeout)
			} else {
				break
			}
			g.loc[act.Slot] = ed.to
			g.release()
			tail = append(tail, act)
			for _, b := range ed.bad {
				s.report(g, leaf.key(), b, append([]Action(nil), tail...))
			}
		}
		g.wh = nil
		tail = append(tail, Action{Kind: '|'})
	}
	r0 := 0
	for _, i := range s.honestSlots() {
		if o := g.loc[i].obs; int(o.H) == goal && o.R > r0 {
			r0 = o.R
		}
	}
	limit := r0 + s.p.progR
	var path []pkey
	result := ""
	maxRound := r0
	memoRem := 0
	nsteps := 0
	for steps := 0; ; steps++ {
		nsteps = steps
		pk := pkey{goal: goal, limit: limit}
		for i, l := range g.loc {
			if l == nil {
				pk.l[i] = -1
			} else {
				pk.l[i] = l.id
			}
		}
		s.pmu.Lock()
		pv, known := s.pmemo[pk]
		s.pmu.Unlock()
		if known {
			result = "ok"
			memoRem = pv.rem
			if pv.maxRound > maxRound {
				maxRound = pv.maxRound
			}
			break
		}
		path = append(path, pk)
		if v := s.agreement(g); v != nil {
			result = "agreement-broken-in-continuation"
			break
		}
		all := true
		for _, i := range s.honestSlots() {
			o := g.loc[i].obs
			if len(o.Committed) < goal {
				all = false
			}
			if int(o.H) == goal && o.R > maxRound {
				maxRound = o.R
			}
			if o.Dead != "" {
				result = "node-crashed"
			}
		}
		if result != "" {
			break
		}
		if all {
			result = "ok"
			break
		}
		if maxRound > limit {
			result = fmt.Sprintf("no-commit-within-%d-rounds", s.p.progR)
			break
		}
		if steps > 5000 {
			result = "continuation-too-long"
			break
		}
		pool := s.pool(g, true)
		cands := s.candidates(g, pool, true, true, goal)
		var act Action
		var ed *Edge
		if len(cands) > 0 {
			act, ed = Action{Kind: 'd', Msg: cands[0].m.id, Slot: int8(cands[0].slot)}, cands[0].ed
		} else if t := s.nextTimeout(g, goal); t >= 0 {
			act, ed = Action{Kind: 't', Slot: int8(t)}, s.e.step(g.loc[t], inTimeout)
		} else {
			result = "deadlock"
			break
		}
		g.loc[act.Slot] = ed.to
		tail = append(tail, act)
		for _, b := range ed.bad {
			s.report(g, leaf.key(), b, append([]Action(nil), tail...))
		}
	}
	if result != "ok" {
		// diagnose the stuck state for a specific, stable violation key
		for _, i := range s.honestSlots() {
			o := g.loc[i].obs
			if len(o.Committed) < goal && o.CommitRound >= 0 && o.Step != cstypes.RoundStepCommit && o.Dead == "" {
				result += ":pending-commit-abandoned"
				break
			}
		}
		if !strings.Contains(result, ":pending-commit-abandoned") && result != "agreement-broken-in-continuation" {
			locks := map[string]bool{}
			for _, i := range s.honestSlots() {
				if o := g.loc[i].obs; len(o.Committed) < goal && int(o.H) == goal && o.Locked != "" {
					locks[o.Locked] = true
				}
			}
			if len(locks) > 1 {
				result += ":honest-nodes-locked-on-different-blocks"
			}
		}
	}
	// the continuation from a state is deterministic: count its full length even when the memo cut it short
	total := int64(pre + nsteps + memoRem)
	s.progSteps.Add(total)
	s.transitions.Add(total)
	if result == "ok" {
		s.pmu.Lock()
		for i, pk := range path {
			s.pmemo[pk] = pval{rem: int(total) - pre - i, maxRound: maxRound}
		}
		s.pmu.Unlock()
		return "ok", maxRound - r0, nil, g
	}
	return result, maxRound - r0, tail, g
}

func timeIota(h int64) time.Duration { return time.Duration(h) * 100 * time.Millisecond }

// ---------------------------------------------------------------------------------------------------------------
// (1) breadth-first search over ALL delivery orders (height 1, rounds <= maxR), depth-capped

type BFSResult struct {
	States, Transitions int64
	Levels              []int64
	Closed              bool
	Depth               int
}

// bfs explores every interleaving of: delivery of any published message, any byzantine menu message (proposals A, B,
// B with an invalid POL round, prevotes / precommits for every known block and nil at rounds 0..maxR, +2/3 claims for
// the same), any +2/3 claim an honest node can make, to any honest node; and any pending timeout. Loss = never
// delivered; duplication / re-delivery = delivering again (mostly no-ops, which are self loops); duplication with a fresh
// signature = a byzantine vote the node already holds, re-signed with the next timestamp of the menu.
func (s *Search) bfs(depth int, stride int, par func(n int, f func(i int))) BFSResult {
	var res BFSResult
	g0 := &GState{}
	for i := 0; i < 3; i++ {
		g0.loc[i] = s.e.root(i)
	}
	s.claim(g0.key(), 0, pedge{root: true})
	frontier := []*GState{g0}
	res.States = 1
	sys := s.e.sys
	for d := 0; d < depth && len(frontier) > 0; d++ {
		var mu sync.Mutex
		var next []*GState
		var trans atomic.Int64
		par(len(frontier), func(fi int) {
			g := frontier[fi]
			k := g.key()
			pool := s.pool(g, false)
			items := append([]*Msg{}, pool...)
			menu := s.byzMenu(g, pool, s.p.maxR)
			items = append(items, menu...)
			for _, m := range menu {
				if m.Kind == 'V' {
					items = append(items, s.e.msgs.intern(sys.claimMsg(sys.byz, m.H, m.R, m.T, m.BID, true)))
				}
			}
			for i := 0; i < 3; i++ {
				items = append(items, g.loc[i].obs.Claims...)
			}
			var local []*GState
			try := func(slot int, in int32, act Action) {
				l := g.loc[slot]
				ed := s.e.step(l, in)
				if ed.noop {
					return
				}
				trans.Add(1)
				ng := &GState{loc: g.loc}
				ng.loc[slot] = ed.to
				nk := ng.key()
				for _, b := range ed.bad {
					s.report(ng, k, b, []Action{act})
				}
				if !s.claim(nk, 0, pedge{from: k, act: act}) {
					return
				}
				if v := s.agreement(ng); v != nil {
					s.report(ng, nk, *v, nil)
				}
				local = append(local, ng)
			}
			for slot := 0; slot < 3; slot++ {
				l := g.loc[slot]
				if l.obs.Dead != "" || len(l.obs.Committed) >= 1 || l.obs.R > s.p.maxR {
					continue // frozen: committed height 1 or beyond the round bound
				}
				for _, m := range items {
					if s.e.vals[slot] == m.From {
						continue
					}
					kind := byte('d')
					if m.Byz {
						kind = 'b'
					}
					a := Action{Kind: kind, Msg: m.id, Slot: int8(slot), Mask: 1 << slot}
					try(slot, m.id, a)
				}
				// duplication with a fresh signature: a byzantine vote this node already holds, re-signed with the next timestamp
				for _, m := range menu {
					if m.Kind != 'V' || !hasSorted(l.acc, m.id) {
						continue
					}
					if x := s.firstUnheld(l, m); x != nil {
						try(slot, x.id, Action{Kind: 'b', Msg: x.id, Slot: int8(slot), Mask: 1 << slot})
					}
				}
				if l.obs.TOPending {
					try(slot, inTimeout, Action{Kind: 't', Slot: int8(slot)})
				}
			}
			mu.Lock()
			next = append(next, local...)
			mu.Unlock()
		})
		res.Transitions += trans.Load()
		s.transitions.Add(trans.Load())
		if s.r.Expired() {
			s.capped.Store(true)
			res.Depth = d
			res.Levels = append(res.Levels, int64(len(next)))
			res.States += int64(len(next))
			s.states.Add(int64(len(next)))
			return res
		}
		sort.Slice(next, func(a, b int) bool { return next[a].canonLess(next[b]) })
		res.Levels = append(res.Levels, int64(len(next)))
		res.States += int64(len(next))
		s.states.Add(int64(len(next)))
		frontier = next
		res.Depth = d + 1
	}
	res.Closed = len(frontier) == 0
	// bounded progress from the states of the last level (every stride-th in canonical order)
	if stride > 0 && s.p.progR > 0 {
		var sel []*GState
		for i := 0; i < len(frontier); i += stride {
			sel = append(sel, frontier[i])
		}
		par(len(sel), func(i int) { s.leaf(sel[i], sel[i].key()) })
	}
	return res
}
