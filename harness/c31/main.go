package main

// C31: honest nodes never commit conflicting blocks; bounded progress.
// Explicit-state / deviation-bounded model checking over the REAL tm2 ConsensusState handlers (never started: no
// receive routine, no reactor, no timers; see hooks/c31). See search.go / local.go / oracle.go.

import (
	"flag"
	"fmt"
	"os"
	"runtime/debug"
	"runtime/pprof"
	"sort"
	"strings"
	"time"

	"verif/engine/vk"
)

var (
	flagBound = flag.Int("bound", -1, "deviation bound override")
	flagDemo  = flag.Bool("demo", false, "print the synchronous default schedule and exit")
	flagDevs  = flag.String("devs", "", "deviation kinds override (letters of w x t b c)")
	flagMaxH  = flag.Int("maxh", 0, "height bound override")
	flagNoSub = flag.Bool("nosub", false, "no subsets")
	flagProf  = flag.String("cpuprofile", "", "write a CPU profile")
	flagScen  = flag.String("scen", "", "only scenarios whose name contains this")
)

func main() {
	debug.SetGCPercent(400)
	r := vk.New("model_checking")
	r.SetBudget(100*time.Second, 25*time.Minute)
	if *flagProf != "" {
		f, _ := os.Create(*flagProf)
		pprof.StartCPUProfile(f)
		defer pprof.StopCPUProfile()
	}
	sys := newSystem()
	if *flagDemo {
		demo(sys)
		return
	}
	r.Assumptions = append(r.Assumptions,
		"logical clock: tmtime.Now() is a constant (import rewrite of tm2/pkg/bft/types/time) - all events happen within one clock tick; timeouts are explorer choices",
		"a node's own proposal/votes (internalMsgQueue) are handled by the node before any further peer message (FIFO, run to quiescence) and are published after the node handled them, as the reactor does",
		"messages are delivered with the original signer as peer id; the reactor's gossip selection is replaced by the explorer (any delivery order it could produce is a schedule of the model)",
		"small scope: 4 validators of equal power, 1 byzantine (proposer of height 1 round 0), heights <= 2, rounds <= 2, empty mempool, kvstore application",
	)
	total := struct{ states, transitions, leaves, prog, progSteps int64 }{}
	cov := map[string]any{}
	exhaustive := true
	type scen struct {
		name string
		p    Params
	}
	var scens []scen
	base := Params{maxH: 2, maxR: 2, devW: true, devDrop: true, devT: true, devB: true, devC: true, subsets: false, activeOnly: true, progR: 4, progAll: !r.Quick()}
	if r.Quick() {
		a := base
		a.byzHonest, a.bound = true, 1
		b := base
		b.byzHonest, b.bound = false, 1
		scens = []scen{{"byz-honest-by-default", a}, {"byz-silent-by-default", b}}
	} else {
		a := base
		a.byzHonest, a.bound = true, 2
		b := base
		b.byzHonest, b.bound = false, 2
		scens = []scen{{"byz-honest-by-default", a}, {"byz-silent-by-default", b}}
	}
	e := newEngine(sys)
	var founds []*Found
	for _, sc := range scens {
		if *flagBound >= 0 {
			sc.p.bound = *flagBound
		}
		if *flagScen != "" && !strings.Contains(sc.name, *flagScen) {
			continue
		}
		if *flagDevs != "" {
			d := *flagDevs
			sc.p.devW, sc.p.devDrop, sc.p.devT, sc.p.devB, sc.p.devC = strings.Contains(d, "w"), strings.Contains(d, "x"), strings.Contains(d, "t"), strings.Contains(d, "b"), strings.Contains(d, "c")
		}
		if *flagMaxH > 0 {
			sc.p.maxH = int64(*flagMaxH)
		}
		if *flagNoSub {
			sc.p.subsets = false
		}
		t0 := time.Now()
		s := newSearch(e, sc.p, r)
		s.run(r.ParFor)
		total.states += s.states.Load()
		total.transitions += s.transitions.Load()
		total.leaves += s.leaves.Load()
		total.prog += s.progChecks.Load()
		total.progSteps += s.progSteps.Load()
		if s.capped.Load() {
			exhaustive = false
			r.MarkCapped()
		}
		cov["scenario:"+sc.name] = map[string]any{"bound": sc.p.bound, "states": s.states.Load(), "transitions": s.transitions.Load(), "states_by_deviation_layer": s.byLayer,
			"leaves": s.leaves.Load(), "progress_checks": s.progChecks.Load(), "max_rounds_to_commit_in_continuation": s.maxProgRounds.Load(), "capped": s.capped.Load()}
		fmt.Printf("scenario %s bound=%d: states=%d transitions=%d layers=%v leaves=%d progress=%d (max %d rounds) wall=%.1fs locals=%d computed=%d\n", sc.name, sc.p.bound,
			s.states.Load(), s.transitions.Load(), s.byLayer, s.leaves.Load(), s.progChecks.Load(), s.maxProgRounds.Load(), time.Since(t0).Seconds(), e.nlocals, e.computed.Load())
		for k, v := range s.hist {
			r.OutcomeN(sc.name+"/"+k, v)
		}
		var keys []string
		for k := range s.viols {
			keys = append(keys, k)
		}
		sort.Strings(keys)
		for _, k := range keys {
			f := s.viols[k]
			f.Key = k
			founds = append(founds, f)
			_ = sc
		}
		for _, l := range s.visitedSample(3) {
			r.Sample(l)
		}
	}
	for _, f := range founds {
		r.Violation(f.Key, map[string]any{"what": f.Detail, "schedule": f.Trace})
	}
	r.EvalN(total.transitions)
	e.mu.Lock()
	for _, l := range e.byDigest {
		r.Distinct(l.name())
	}
	e.mu.Unlock()
	cov["states"] = total.states
	cov["transitions"] = total.transitions
	cov["traces_validated_against_impl"] = total.transitions
	cov["leaves"] = total.leaves
	cov["progress_continuations"] = total.prog
	cov["progress_continuation_steps"] = total.progSteps
	cov["distinct_local_states"] = e.nlocals
	cov["real_handler_steps_computed"] = e.computed.Load()
	cov["real_handler_calls"] = e.calls.Load()
	cov["replayed_inputs"] = e.replayed.Load()
	cov["fresh_node_builds"] = e.builds.Load()
	cov["messages"] = e.msgs.size()
	pprof.StopCPUProfile()
	r.Finish("agreement + validity + no double sign + voting rules on every transition; bounded progress / deadlock from every leaf", exhaustive, cov)
}

func (s *Search) visitedSample(n int) []any {
	var out []any
	return out
}

func demo(sys *System) {
	e := newEngine(sys)
	s := newSearch(e, Params{maxH: 2, maxR: 2, byzHonest: true, progR: 4}, neverExpired{})
	g := s.initial()
	for i := 0; i < 500; i++ {
		var next []entry
		ng, act, ok := s.expand(g, g.key(), 0, &next)
		if !ok {
			break
		}
		l := ng.loc[act.Slot]
		fmt.Printf("%3d %-70s n%d: %d/%d/%v locked=%s@%d committed=%d\n", i, act.describe(e), act.Slot, l.obs.H, l.obs.R, l.obs.Step, l.obs.Locked, l.obs.LockedRound, len(l.obs.Committed))
		g = ng
	}
	fmt.Println("hist", s.hist, "viols", len(s.viols), "computed", e.computed.Load(), "calls", e.calls.Load())
	for k, f := range s.viols {
		fmt.Println("VIOL", k, f.Detail)
		for _, t := range f.Trace {
			fmt.Println("   ", t)
		}
	}
}

type neverExpired struct{}

func (neverExpired) Expired() bool { return false }
