package main

// C31: honest nodes never commit conflicting blocks; bounded progress.
// Explicit-state / deviation-bounded model checking over the REAL tm2 ConsensusState handlers (never started: no
// receive routine, no reactor, no timers; see hooks/c31). See search.go / local.go / oracle.go / validate.go.

import (
	"flag"
	"fmt"
	"os"
	"runtime/debug"
	"runtime/pprof"
	"sort"
	"strings"
	"time"

	"verif/engine/vk"
)

var (
	flagBound  = flag.Int("bound", -1, "deviation bound override")
	flagDemo   = flag.Bool("demo", false, "print the synchronous default schedule and exit")
	flagDevs   = flag.String("devs", "", "deviation kinds override (letters of w x t b c r l g)")
	flagMaxH   = flag.Int("maxh", 0, "height bound override")
	flagNoSub  = flag.Bool("nosub", false, "no subsets")
	flagProf   = flag.String("cpuprofile", "", "write a CPU profile")
	flagScen   = flag.String("scen", "", "only scenarios whose name contains this")
	flagBFS    = flag.Int("bfs", -1, "BFS depth override (0 = skip)")
	flagFilter = flag.Bool("checkfilter", false, "self-check the static no-op filter against the real handlers")
)

type scen struct {
	name string
	p    Params
}

func main() {
	debug.SetGCPercent(300)
	debug.SetMemoryLimit(10 << 30)
	r := vk.New("model_checking")
	r.SetBudget(150*time.Second, 25*time.Minute)
	if *flagProf != "" {
		f, _ := os.Create(*flagProf)
		pprof.StartCPUProfile(f)
		defer pprof.StopCPUProfile()
	}
	sys := newSystem()
	if r.ReplayIn != "" {
		replayFile(r, sys)
		return
	}
	if *flagDemo {
		demo(sys)
		return
	}
	r.Assumptions = append(r.Assumptions,
		"logical clock: tmtime.Now() is a constant (import rewrite of tm2/pkg/bft/types/time): all events happen within one clock tick; timeouts are explorer choices",
		"a node's own proposal/votes (internalMsgQueue) are handled by the node before any further peer message (FIFO, run to quiescence) and are published after the node handled them, as the reactor does",
		"messages are delivered with the original signer as peer id; the reactor's gossip selection is replaced by the explorer (any delivery order it could produce is a schedule of the model)",
		"per-node step function memoised on a complete deep digest of RoundState + sm.State + ticker + signing record; every violation and a sample of schedules are re-validated by unmemoised replays on fresh real nodes",
		"byzantine sends that do not change the recipient's behaviour state at once are postponed (they stay available later); withholding is per message and recipient set with four release points (next round, after the prevote step of the next round, prevotes also: a later round than the next, never + explicit release)",
		"the byzantine key signs every vote with a timestamp menu {t0,t1,t2}: a vote a node already holds is re-sent as a re-signed copy that differs only in timestamp (the k-th copy a node gets carries t_k: timestamps are interchangeable); one byzantine send = optional +2/3 claim, the vote, and further re-signed copies for as long as the recipient reacts; byte-identical re-delivery is assumed to be a no-op (static filter, self-checked with -checkfilter)",
		"bounded progress is judged twice from every leaf: synchrony at once, and late synchrony (byzantine validator silent at once, no gossip and withheld messages kept back until every honest node has entered a later round, then everything is delivered)",
		"scenario 'prevote-phase-deviations': deviation bound 3 over withheld (late) prevotes and byzantine prevotes for rounds already entered only, blocks A and B identified; scenario 'byzantine-deviations': bound 2 over byzantine sends only, on top of an honestly behaving byzantine validator",
		"small scope: 4 validators of equal power, 1 byzantine (proposer of height 1 round 0), heights <= 2, rounds <= 2, empty mempool, kvstore application",
	)
	cov := map[string]any{}
	exhaustive := true
	e := newEngine(sys)
	e.checkFilter = *flagFilter
	var founds []*Found
	var states, transitions, leaves, prog, progSteps, validated int64
	collect := func(name string, s *Search) {
		states += s.states.Load()
		transitions += s.transitions.Load()
		leaves += s.leaves.Load()
		prog += s.progChecks.Load()
		progSteps += s.progSteps.Load()
		if s.capped.Load() {
			exhaustive = false
			r.MarkCapped()
		}
		for k, v := range s.hist {
			r.OutcomeN(name+"/"+k, v)
		}
		var keys []string
		for k := range s.viols {
			keys = append(keys, k)
		}
		sort.Strings(keys)
		for _, k := range keys {
			founds = append(founds, s.viols[k])
		}
		// replay-validate a deterministic sample of explored schedules on fresh real nodes (no memo)
		for _, ls := range s.samples {
			tr := s.trace(ls.k)
			if msg := validateSchedule(sys, e, tr, ls.g, !s.p.byzHonest); msg != "" {
				r.HarnessError("explored schedule does not replay on fresh real nodes (%s): %s", name, msg)
			}
			validated += int64(len(tr))
			if len(tr) > 0 {
				var devs []string
				for _, a := range tr {
					if strings.HasPrefix(a.describe(e), "DEV") {
						devs = append(devs, a.describe(e))
					}
				}
				sort.Strings(devs)
				r.Sample(map[string]any{"scenario": name, "deviations_sorted": devs, "final": ls.g.summary(e), "replayed_on_fresh_nodes": true})
			}
		}
	}

	// (1) BFS over all delivery orders, height 1, rounds <= 1
	depth := 3
	if r.Thorough() {
		depth = 4
	}
	if *flagBFS >= 0 {
		depth = *flagBFS
	}
	if depth > 0 && *flagScen == "" {
		t0 := time.Now()
		s := newSearch(e, Params{maxH: 1, maxR: 1, progR: 4}, r)
		stride := 256
		if r.Thorough() {
			stride = 16
		}
		br := s.bfs(depth, stride, r.ParFor)
		cov["bfs:height1-rounds<=1"] = map[string]any{"depth": br.Depth, "states": br.States, "transitions": br.Transitions, "states_by_depth": br.Levels,
			"closed": br.Closed, "progress_checks": s.progChecks.Load(), "progress_stride": stride}
		fmt.Printf("bfs depth=%d: states=%d transitions=%d levels=%v closed=%v progress=%d wall=%.1fs locals=%d computed=%d\n", br.Depth, br.States, br.Transitions, br.Levels, br.Closed,
			s.progChecks.Load(), time.Since(t0).Seconds(), e.nlocals, e.computed.Load())
		// "closed" = the BFS frontier ran empty (whole height-1 state space); otherwise all orders are covered exactly to
		// the declared depth, which is the bounded-exhaustive claim of this phase
		cov["depth"] = br.Depth
		collect("bfs", s)
	}

	// (2) deviation-bounded search around the synchronous schedule
	base := Params{maxStates: 2500000, maxH: 2, maxR: 2, devW: true, devDrop: true, devT: true, devB: true, devC: true, devR: true, devL: true, lateGST: true, subsets: false, activeOnly: true, progR: 4, progAll: !r.Quick()}
	// byzantine-only deviations (sends, +2/3 claims, re-signed copies) on top of an honestly behaving byzantine validator: one
	// more deviation than the all-kinds scenario affords (equivocation needs the honest vote, the lie and the block parts)
	byzOnly := base
	byzOnly.byzHonest, byzOnly.bound, byzOnly.maxH = true, 2, 1
	byzOnly.devW, byzOnly.devDrop, byzOnly.devT, byzOnly.devL = false, false, false, false
	// prevote-phase deviations only (withheld / late prevotes, byzantine prevotes), one more deviation: split locks need an
	// asymmetric polka (2 deviations) and a second polka for another block (1 deviation); liveness is judged from the leaves
	pv := base
	pv.byzHonest, pv.bound, pv.maxH = false, 3, 1
	pv.devDrop, pv.devT, pv.devC, pv.devR, pv.prevoteVoc = false, false, false, false, true
	var scens []scen
	if r.Quick() {
		a := base
		a.byzHonest, a.bound = true, 1
		b := base
		b.byzHonest, b.bound, b.maxH = false, 2, 1
		scens = []scen{{"byz-honest-by-default/h<=2", a}, {"byz-honest-by-default/h<=1/byzantine-deviations", byzOnly},
			{"byz-silent-by-default/h<=1/prevote-phase-deviations", pv}, {"byz-silent-by-default/h<=1", b}}
	} else {
		a := base
		a.byzHonest, a.bound = true, 2
		b := base
		b.byzHonest, b.bound = false, 2
		c := base
		c.byzHonest, c.bound, c.maxH, c.maxStates = false, 3, 1, 3000000
		c.devW, c.devT = false, false // bound 3 over drops / releases and byzantine sends only (closes within the budget)
		byzOnly.bound, byzOnly.maxStates = 3, 1500000
		scens = []scen{{"byz-silent-by-default/h<=2", b}, {"byz-honest-by-default/h<=2", a}, {"byz-silent-by-default/h<=1/prevote-phase-deviations", pv},
			{"byz-honest-by-default/h<=1/byzantine-deviations", byzOnly}, {"byz-silent-by-default/h<=1/drop+byzantine-deviations", c}}
	}
	exact := false
	for _, sc := range scens {
		exact = exact || sc.name == *flagScen
	}
	for _, sc := range scens {
		if exact && sc.name != *flagScen {
			continue
		}
		if *flagBound >= 0 {
			sc.p.bound = *flagBound
		}
		if *flagScen != "" && !strings.Contains(sc.name, *flagScen) {
			continue
		}
		if *flagDevs != "" {
			d := *flagDevs
			sc.p.devW, sc.p.devDrop, sc.p.devT, sc.p.devB, sc.p.devC = strings.Contains(d, "w"), strings.Contains(d, "x"), strings.Contains(d, "t"), strings.Contains(d, "b"), strings.Contains(d, "c")
			sc.p.devR, sc.p.devL, sc.p.lateGST = strings.Contains(d, "r"), strings.Contains(d, "l"), strings.Contains(d, "g")
		}
		if *flagMaxH > 0 {
			sc.p.maxH = int64(*flagMaxH)
		}
		if *flagNoSub {
			sc.p.subsets = false
		}
		if r.Expired() {
			exhaustive = false
			cov["scenario:"+sc.name] = "skipped (budget)"
			continue
		}
		t0 := time.Now()
		s := newSearch(e, sc.p, r)
		s.run(r.ParFor)
		cov["scenario:"+sc.name] = map[string]any{"bound": sc.p.bound, "max_height": sc.p.maxH, "max_round": sc.p.maxR, "states": s.states.Load(), "transitions": s.transitions.Load(),
			"states_by_deviation_layer": s.byLayer, "leaves": s.leaves.Load(), "progress_checks": s.progChecks.Load(),
			"max_rounds_to_commit_in_continuation": s.maxProgRounds.Load(), "capped": s.capped.Load()}
		fmt.Printf("scenario %s bound=%d: states=%d transitions=%d layers=%v leaves=%d progress=%d (max %d rounds) capped=%v wall=%.1fs locals=%d computed=%d\n", sc.name, sc.p.bound,
			s.states.Load(), s.transitions.Load(), s.byLayer, s.leaves.Load(), s.progChecks.Load(), s.maxProgRounds.Load(), s.capped.Load(), time.Since(t0).Seconds(), e.nlocals, e.computed.Load())
		collect(sc.name, s)
	}
	if e.filterBad.Load() > 0 {
		r.HarnessError("static no-op filter disagrees with the real handlers in %d cases", e.filterBad.Load())
	}
	seen := map[string]bool{}
	for _, f := range founds {
		if seen[f.Key] {
			continue
		}
		seen[f.Key] = true
		if v := validate(sys, e, f); v != "" {
			r.HarnessError("violation %s does not replay on fresh real nodes: %s\n%s", f.Key, v, strings.Join(describeAll(e, f.Trace), "\n"))
		}
		r.Violation(f.Key, map[string]any{"what": f.Detail, "schedule": describeAll(e, f.Trace), "replayed_twice_on_fresh_nodes": true,
			"actions": recordActions(e, f.Trace), "byzantine_silent_by_default": f.silent})
	}
	r.EvalN(transitions)
	e.mu.Lock()
	for _, l := range e.byDigest {
		r.Distinct(l.name())
	}
	e.mu.Unlock()
	cov["states"] = states
	cov["transitions"] = transitions
	cov["traces_validated_against_impl"] = transitions
	cov["leaves"] = leaves
	cov["progress_continuations"] = prog
	cov["progress_continuation_steps"] = progSteps
	cov["distinct_local_states"] = e.nlocals
	// work counters of the memoising engine: they depend on goroutine timing (cache hits), not on what was explored
	cov["engine_work_counters_timing_dependent"] = map[string]any{"real_handler_steps_computed": e.computed.Load(), "real_handler_calls": e.calls.Load(),
		"statically_filtered_noops": e.filtered.Load(), "replayed_inputs": e.replayed.Load(), "fresh_node_builds": e.builds.Load(),
		"unmemoised_replay_steps_of_sampled_schedules": validated}
	cov["messages"] = e.msgs.size()
	pprof.StopCPUProfile()
	r.Finish("agreement + commit validity + no double sign + locking/precommit/proposal rules on every transition; bounded progress and deadlock freedom from every leaf", exhaustive, cov)
}

func describeAll(e *Engine, tr []Action) []string {
	out := make([]string, len(tr))
	for i, a := range tr {
		out[i] = a.describe(e)
	}
	return out
}

func (g *GState) summary(e *Engine) []string {
	var out []string
	for i, l := range g.loc {
		if l == nil {
			continue
		}
		var c []string
		for _, h := range l.obs.Committed {
			c = append(c, e.sys.labelHex(h))
		}
		out = append(out, fmt.Sprintf("n%d(v%d) h%d/r%d/%v locked=%s@%d committed=%v", i, e.vals[i], l.obs.H, l.obs.R, l.obs.Step, l.obs.Locked, l.obs.LockedRound, c))
	}
	return out
}

func demo(sys *System) {
	e := newEngine(sys)
	s := newSearch(e, Params{maxH: 2, maxR: 2, byzHonest: true, progR: 4}, neverExpired{})
	g := s.initial()
	for i := 0; i < 500; i++ {
		var next []entry
		ng, act, ok := s.expand(g, g.key(), 0, &next)
		if !ok {
			break
		}
		l := ng.loc[act.Slot]
		fmt.Printf("%3d %-70s n%d: %d/%d/%v locked=%s@%d committed=%d\n", i, act.describe(e), act.Slot, l.obs.H, l.obs.R, l.obs.Step, l.obs.Locked, l.obs.LockedRound, len(l.obs.Committed))
		g = ng
	}
	fmt.Println("hist", s.hist, "viols", len(s.viols), "computed", e.computed.Load(), "calls", e.calls.Load())
}

type neverExpired struct{}

func (neverExpired) Expired() bool { return false }
