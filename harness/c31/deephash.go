package main

// Reflective deep hash of live Go object graphs including unexported fields (read-only access through reflect):
// the canonical local state of a node is the digest of its complete RoundState (all vote sets with their
// per-block tallies, peer claims and catch-up rounds, locks, proposal, parts), its sm.State, its ticker and its
// signing record. Pointers are followed once (later occurrences hash as back references), maps are walked in key
// order, mutexes / channels / funcs are skipped. Nothing is abstracted away, so "equal digest" means "equal state".

import (
	"crypto/sha256"
	"encoding/binary"
	"fmt"
	"reflect"
	"sort"
	"sync"
	"time"
	"unsafe"
)

var (
	tMutex   = reflect.TypeOf(sync.Mutex{})
	tRWMutex = reflect.TypeOf(sync.RWMutex{})
	tTime    = reflect.TypeOf(time.Time{})
)

type dhasher struct {
	buf  []byte
	seen map[unsafe.Pointer]int
}

var dhPool = sync.Pool{New: func() any { return &dhasher{buf: make([]byte, 0, 1<<16), seen: make(map[unsafe.Pointer]int, 256)} }}

func newDH() *dhasher {
	d := dhPool.Get().(*dhasher)
	d.buf = d.buf[:0]
	clear(d.seen)
	return d
}

func (d *dhasher) done() { dhPool.Put(d) }

func (d *dhasher) u64(x uint64) { d.buf = binary.LittleEndian.AppendUint64(d.buf, x) }
func (d *dhasher) tag(b byte)   { d.buf = append(d.buf, b) }
func (d *dhasher) str(s string) { d.u64(uint64(len(s))); d.buf = append(d.buf, s...) }

func (d *dhasher) sum() [32]byte { return sha256.Sum256(d.buf) }

func (d *dhasher) add(x any) { d.walk(reflect.ValueOf(x)) }

func (d *dhasher) walk(v reflect.Value) {
	switch v.Kind() {
	case reflect.Invalid:
		d.tag(0)
	case reflect.Bool:
		if v.Bool() {
			d.tag(2)
		} else {
			d.tag(1)
		}
	case reflect.Int, reflect.Int8, reflect.Int16, reflect.Int32, reflect.Int64:
		d.u64(uint64(v.Int()))
	case reflect.Uint, reflect.Uint8, reflect.Uint16, reflect.Uint32, reflect.Uint64, reflect.Uintptr:
		d.u64(v.Uint())
	case reflect.Float32, reflect.Float64:
		d.u64(uint64(v.Float() * 1e6))
	case reflect.String:
		d.str(v.String())
	case reflect.Slice:
		if v.IsNil() {
			d.tag(3)
			return
		}
		d.tag(4)
		d.u64(uint64(v.Len()))
		if v.Type().Elem().Kind() == reflect.Uint8 {
			d.buf = append(d.buf, v.Bytes()...)
			return
		}
		for i := 0; i < v.Len(); i++ {
			d.walk(v.Index(i))
		}
	case reflect.Array:
		if v.Type().Elem().Kind() == reflect.Uint8 {
			for i := 0; i < v.Len(); i++ {
				d.tag(byte(v.Index(i).Uint()))
			}
			return
		}
		for i := 0; i < v.Len(); i++ {
			d.walk(v.Index(i))
		}
	case reflect.Struct:
		t := v.Type()
		if t == tMutex || t == tRWMutex {
			return
		}
		if t == tTime { // wall, ext (no monotonic part anywhere: tmtime.Canonical / amino decode), location ignored
			d.u64(v.Field(0).Uint())
			d.u64(uint64(v.Field(1).Int()))
			return
		}
		for i := 0; i < v.NumField(); i++ {
			d.walk(v.Field(i))
		}
	case reflect.Ptr:
		if v.IsNil() {
			d.tag(5)
			return
		}
		p := v.UnsafePointer()
		if idx, ok := d.seen[p]; ok {
			d.tag(6)
			d.u64(uint64(idx))
			return
		}
		d.seen[p] = len(d.seen)
		d.tag(7)
		d.walk(v.Elem())
	case reflect.Interface:
		if v.IsNil() {
			d.tag(8)
			return
		}
		d.tag(9)
		d.str(v.Elem().Type().String())
		d.walk(v.Elem())
	case reflect.Map:
		if v.IsNil() {
			d.tag(10)
			return
		}
		d.tag(11)
		keys := v.MapKeys()
		d.u64(uint64(len(keys)))
		switch v.Type().Key().Kind() {
		case reflect.String:
			sort.Slice(keys, func(i, j int) bool { return keys[i].String() < keys[j].String() })
		case reflect.Int, reflect.Int64, reflect.Int32:
			sort.Slice(keys, func(i, j int) bool { return keys[i].Int() < keys[j].Int() })
		default:
			panic(fmt.Sprintf("deephash: unsupported map key kind %v", v.Type()))
		}
		for _, k := range keys {
			d.walk(k)
			d.walk(v.MapIndex(k))
		}
	case reflect.Chan, reflect.Func, reflect.UnsafePointer:
		d.tag(12)
	default:
		panic(fmt.Sprintf("deephash: unsupported kind %v", v.Kind()))
	}
}
