// C01: chain replay is deterministic across runs, restarts, caches, backends and GOMAXPROCS.
//
// Real gno.land app (engine chainx). A history = blocks of txs from an 11-tx menu built to touch every cache
// the anchors name (object/type/BlockNode caches, lazily filled packages, two realms settled in one finalize,
// MsgRun importing realms, a Gno panic, a tx out of gas, a deploy during the chain, a multi-message tx,
// a call into a package that may not exist yet).  Every history is executed under every configuration and
// must give, block by block, byte-identical app hashes and identical per-tx (error, data, events, gas used,
// gas wanted):
//   * every RESTART PATTERN = subset of block boundaries at which the app is closed and re-opened on the same
//     DB (cold caches, LoadLatestVersion, VM Initialize) — all 2^(blocks-1) subsets for the long histories;
//   * short histories: prefix block, then EVERY single tx and ordered pair (quick: a third of the pairs) in one
//     block, warm vs cold (restart right before the block);
//   * backends memdb / goleveldb / pebbledb / boltdb (real files under .work/c01);
//   * GOMAXPROCS 1 vs 16 (worker subprocess);
//   * the same history twice in one process and in a second process (run-to-run nondeterminism such as map order
//     shows up as a difference between repeats; it is enumerated by seed in the thorough tier only where the
//     patched runtime is available — here: repeats).
// The reference is "memdb, never restarted".
package main

import (
	"encoding/json"
	"flag"
	"fmt"
	"os"
	"os/exec"
	"path/filepath"
	"runtime/debug"
	"strings"
	"time"

	"github.com/gnolang/gno/tm2/pkg/db/boltdb"
	dbm "github.com/gnolang/gno/tm2/pkg/db"
	"github.com/gnolang/gno/tm2/pkg/db/goleveldb"
	"github.com/gnolang/gno/tm2/pkg/db/memdb"
	"github.com/gnolang/gno/tm2/pkg/db/pebbledb"
	"github.com/gnolang/gno/tm2/pkg/sdk/bank"
	"github.com/gnolang/gno/tm2/pkg/std"
	"verif/engine/chainx"
	"verif/engine/vk"
)

const (
	pa   = "gno.land/r/verif/alpha"
	pb   = "gno.land/r/verif/beta"
	plib = "gno.land/p/verif/lib"
)

const realmA = `package alpha

var (
	val   string
	items []*item
)

type item struct{ s string }

func Write(cur realm, v string) string { val = v; return val }
func Grow(cur realm, n int) int {
	for i := 0; i < n; i++ {
		items = append(items, &item{s: "xxxxxxxxxxxxxxxxxxxxxxxxxxxxxxxx"})
	}
	return len(items)
}
func Shrink(cur realm) int  { items = nil; return 0 }
func Panic(cur realm)       { val = "dirty"; panic("boom") }
func Loop(cur realm)        { for { items = append(items, &item{s: "y"}) } }
func Render(path string) string { return val }
`

const libSrc = `package lib

type Counter struct{ N int }

func (c *Counter) Inc() int { c.N++; return c.N }

func Double(x int) int { return 2 * x }
`

var realmB = map[string]string{
	"b.gno": `package beta

import (
	"gno.land/p/verif/lib"
	"gno.land/r/verif/alpha"
)

var (
	ctr  = &lib.Counter{}
	logs []string
)

func Both(cur realm) int {
	logs = append(logs, "both")
	n := alpha.Grow(cross(cur), 2)
	return ctr.Inc() + lib.Double(n)
}
`,
	"unused.gno": `package beta

type neverUsed struct{ a, b, c int }

func helperNeverCalled(x neverUsed) int { return x.a + x.b + x.c }
`,
	"view.gno": `package beta

func Count() int { return ctr.N }
`,
}

var (
	A, B = chainx.NewKey("A"), chainx.NewKey("B")
	keys = []chainx.Key{A, B}
)

func coins(n int64) std.Coins { return std.Coins{std.NewCoin("ugnot", n)} }

func spec() chainx.Spec {
	s := chainx.Spec{Keys: keys, Fund: 1_000_000_000_000}
	gen := func(m std.Msg) std.Tx {
		return std.Tx{Msgs: []std.Msg{m}, Fee: std.NewFee(100_000_000, std.NewCoin("ugnot", 1_000_000)), Signatures: []std.Signature{{}}}
	}
	s.GenesisTxs = []std.Tx{
		gen(chainx.AddPkg(A.Addr, plib, map[string]string{"lib.gno": libSrc})),
		gen(chainx.AddPkg(A.Addr, pa, map[string]string{"a.gno": realmA})),
		gen(chainx.AddPkg(A.Addr, pb, realmB)),
	}
	return s
}

type txDef struct {
	name string
	mk   func(c *chainx.Chain, n int) std.Tx
}

var menu = []txDef{
	{"send", func(c *chainx.Chain, n int) std.Tx {
		return c.MakeTx(keys, []std.Msg{bank.MsgSend{FromAddress: A.Addr, ToAddress: B.Addr, Amount: coins(100)}}, chainx.TxOpt{})
	}},
	{"a.Write", func(c *chainx.Chain, n int) std.Tx {
		return c.MakeTx(keys, []std.Msg{chainx.Call(A.Addr, nil, pa, "Write", fmt.Sprintf("v%d", n))}, chainx.TxOpt{})
	}},
	{"a.Grow", func(c *chainx.Chain, n int) std.Tx {
		return c.MakeTx(keys, []std.Msg{chainx.Call(B.Addr, nil, pa, "Grow", "3")}, chainx.TxOpt{})
	}},
	{"a.Shrink", func(c *chainx.Chain, n int) std.Tx {
		return c.MakeTx(keys, []std.Msg{chainx.Call(A.Addr, nil, pa, "Shrink")}, chainx.TxOpt{})
	}},
	{"b.Both", func(c *chainx.Chain, n int) std.Tx {
		return c.MakeTx(keys, []std.Msg{chainx.Call(B.Addr, nil, pb, "Both")}, chainx.TxOpt{})
	}},
	{"run-import-b", func(c *chainx.Chain, n int) std.Tx {
		return c.MakeTx(keys, []std.Msg{chainx.Run(A.Addr, nil, "package main\n\nimport (\n\t\"gno.land/p/verif/lib\"\n\t\"gno.land/r/verif/beta\"\n)\n\nfunc main(cur realm) { println(beta.Both(cross(cur)), lib.Double(beta.Count())) }\n")}, chainx.TxOpt{})
	}},
	{"a.Panic", func(c *chainx.Chain, n int) std.Tx {
		return c.MakeTx(keys, []std.Msg{chainx.Call(A.Addr, nil, pa, "Panic")}, chainx.TxOpt{})
	}},
	{"a.Loop-oog", func(c *chainx.Chain, n int) std.Tx {
		return c.MakeTx(keys, []std.Msg{chainx.Call(B.Addr, nil, pa, "Loop")}, chainx.TxOpt{GasWanted: 4_000_000})
	}},
	{"deploy-c", func(c *chainx.Chain, n int) std.Tx {
		return c.MakeTx(keys, []std.Msg{chainx.AddPkg(B.Addr, "gno.land/r/verif/gamma", map[string]string{"c.gno": "package gamma\n\nimport \"gno.land/p/verif/lib\"\n\nvar k = &lib.Counter{}\n\nfunc F(cur realm) int { return k.Inc() }\n"})}, chainx.TxOpt{})
	}},
	{"send+a.Write", func(c *chainx.Chain, n int) std.Tx {
		return c.MakeTx(keys, []std.Msg{bank.MsgSend{FromAddress: A.Addr, ToAddress: B.Addr, Amount: coins(5)}, chainx.Call(A.Addr, nil, pa, "Write", "multi")}, chainx.TxOpt{})
	}},
	{"c.F", func(c *chainx.Chain, n int) std.Tx {
		return c.MakeTx(keys, []std.Msg{chainx.Call(A.Addr, nil, "gno.land/r/verif/gamma", "F")}, chainx.TxOpt{})
	}},
}

var longHistories = [][][]int{
	{{1, 2}, {4, 5}, {6, 3}, {10, 8, 10}},
	{{8}, {10, 4}, {7, 2}, {5, 9}},
	{{2, 2}, {3, 0}, {4, 4}, {1, 7}},
	{{5}, {}, {5, 6}, {9, 10}},
	{{7}, {7, 1}, {8, 10}, {3, 4, 2}},
	{{4}, {8}, {10}, {10, 5}},
}

type config struct {
	Backend  string
	Restarts []bool // restart before block i (i>=1)
}

func openDB(backend, dir string) (dbm.DB, error) {
	switch backend {
	case "memdb":
		return nil, nil
	case "goleveldb":
		return goleveldb.NewGoLevelDB("app", dir)
	case "pebbledb":
		return pebbledb.NewPebbleDB("app", dir)
	case "boltdb":
		return boltdb.New("app", dir)
	}
	return nil, fmt.Errorf("unknown backend %s", backend)
}

// runHistory executes hist under cfg and returns one observation string per block.
func runHistory(hist [][]int, cfg config, dir string) (obs []string, err error) {
	defer func() {
		if rec := recover(); rec != nil {
			err = fmt.Errorf("panic: %v", rec)
		}
	}()
	var db dbm.DB
	if cfg.Backend == "memdb" {
		db = memdb.NewMemDB()
	} else {
		os.RemoveAll(dir)
		os.MkdirAll(dir, 0o755)
		defer os.RemoveAll(dir)
		if db, err = openDB(cfg.Backend, dir); err != nil {
			return nil, err
		}
	}
	c, err := chainx.New(db, spec())
	if err != nil {
		return nil, err
	}
	for _, tr := range c.Init.TxResponses {
		if tr.Error != nil {
			return nil, fmt.Errorf("genesis tx failed: %s", tr.Log)
		}
	}
	n := 0
	for bi, blk := range hist {
		if bi < len(cfg.Restarts) && cfg.Restarts[bi] {
			if cfg.Backend != "memdb" {
				c.Base.Close()
				if db, err = openDB(cfg.Backend, dir); err != nil {
					return nil, err
				}
				c.DB = db
			}
			if err := c.Restart(); err != nil {
				return nil, err
			}
		}
		c.BeginBlock()
		var parts []string
		for _, ti := range blk {
			res := c.DeliverTx(menu[ti].mk(c, n))
			n++
			parts = append(parts, menu[ti].name+"{"+chainx.ResKey(res)+"}")
		}
		_, h := c.EndBlockCommit()
		obs = append(obs, fmt.Sprintf("apphash=%x %s", h, strings.Join(parts, " ")))
	}
	if cfg.Backend != "memdb" {
		c.Base.Close()
	}
	return obs, nil
}

type job struct {
	Name string  `json:"name"`
	Hist [][]int `json:"hist"`
	Cfg  config  `json:"cfg"`
}

func histName(h [][]int) string {
	var bs []string
	for _, b := range h {
		var ts []string
		for _, t := range b {
			ts = append(ts, menu[t].name)
		}
		bs = append(bs, "["+strings.Join(ts, ",")+"]")
	}
	return strings.Join(bs, "")
}

var r *vk.Run

func main() {
	debug.SetGCPercent(400)
	worker := flag.String("worker", "", "internal: JSON file with jobs; prints observations as JSON")
	r = vk.New("model_checking")
	if *worker != "" {
		var jobs []job
		b, _ := os.ReadFile(*worker)
		json.Unmarshal(b, &jobs)
		out := map[string][]string{}
		for i, j := range jobs {
			o, err := runHistory(j.Hist, j.Cfg, filepath.Join(vk.Root, ".work", "c01", fmt.Sprintf("wdb%d-%d", os.Getpid(), i)))
			if err != nil {
				o = []string{"ERROR " + err.Error()}
			}
			out[j.Name] = o
		}
		bb, _ := json.Marshal(out)
		fmt.Println("RESULT " + string(bb))
		return
	}
	r.SetBudget(240*time.Second, 30*time.Minute)
	os.MkdirAll(filepath.Join(vk.Root, ".work", "c01"), 0o755)

	// ---- build the job list ----
	type cmp struct {
		hist [][]int
		cfg  config
		what string
	}
	var cmps []cmp
	hs := longHistories
	if r.Quick() {
		hs = longHistories[:2]
	}
	for _, h := range hs {
		nb := len(h)
		for mask := 1; mask < 1<<(nb-1); mask++ { // every non-empty subset of the nb-1 inner boundaries
			rs := make([]bool, nb)
			for i := 1; i < nb; i++ {
				rs[i] = mask&(1<<(i-1)) != 0
			}
			if r.Quick() && !(mask == 1<<(nb-1)-1 || mask&(mask-1) == 0) {
				continue // quick: single restarts and all-restarts; thorough: every subset
			}
			cmps = append(cmps, cmp{h, config{"memdb", rs}, fmt.Sprintf("restart-mask=%b", mask)})
		}
		backends := []string{"goleveldb"}
		if r.Thorough() {
			backends = append(backends, "pebbledb", "boltdb")
		}
		for _, be := range backends {
			cmps = append(cmps, cmp{h, config{be, nil}, "backend=" + be})
			all := make([]bool, nb)
			for i := 1; i < nb; i++ {
				all[i] = true
			}
			cmps = append(cmps, cmp{h, config{be, all}, "backend=" + be + "+all-restarts"})
		}
		cmps = append(cmps, cmp{h, config{"memdb", nil}, "repeat-same-process"})
	}
	// short histories: prefix [deploy-c] then every single / pair, warm vs cold
	var shorts [][][]int
	for i := range menu {
		shorts = append(shorts, [][]int{{8}, {i}})
		for j := range menu {
			if r.Quick() && (i+3*j)%11 != 0 {
				continue
			}
			shorts = append(shorts, [][]int{{8}, {i, j}})
		}
	}
	for _, h := range shorts {
		cmps = append(cmps, cmp{h, config{"memdb", []bool{false, true}}, "cold-before-last-block"})
	}

	// reference runs (memdb, never restarted), memoised per history
	refs := map[string][]string{}
	var uniq [][][]int
	for _, c := range cmps {
		k := histName(c.hist)
		if _, ok := refs[k]; !ok {
			refs[k] = nil
			uniq = append(uniq, c.hist)
		}
	}
	refObs := make([][]string, len(uniq))
	r.ParFor(len(uniq), func(i int) {
		o, err := runHistory(uniq[i], config{Backend: "memdb"}, "")
		if err != nil {
			r.HarnessError("reference run %s: %v", histName(uniq[i]), err)
		}
		refObs[i] = o
	})
	for i, h := range uniq {
		refs[histName(h)] = refObs[i]
		for _, o := range refObs[i] {
			r.Distinct(o) // distinct block observations (app hash + results)
		}
	}
	if r.Capped() {
		r.Finish("capped during reference runs", false, map[string]any{"states": 1, "transitions": 1, "traces_validated_against_impl": 0})
	}
	blocks := 0
	r.ParFor(len(cmps), func(i int) {
		c := cmps[i]
		o, err := runHistory(c.hist, c.cfg, filepath.Join(vk.Root, ".work", "c01", fmt.Sprintf("db%d", i)))
		r.Eval()
		r.Outcome(strings.SplitN(c.what, "=", 2)[0])
		name := histName(c.hist)
		if err != nil {
			r.Violation("run-fails:"+c.what+":"+name, map[string]any{"history": name, "config": c.what, "error": err.Error()})
			return
		}
		ref := refs[name]
		for b := range ref {
			if b >= len(o) || o[b] != ref[b] {
				got := "(missing)"
				if b < len(o) {
					got = o[b]
				}
				r.Violation("diverges:"+strings.SplitN(c.what, "=", 2)[0]+":"+name, map[string]any{"history": name, "config": c.what, "block": b + 1, "reference": ref[b], "got": got})
				return
			}
		}
	})
	for _, c := range cmps {
		blocks += len(c.hist)
	}
	// GOMAXPROCS=1 and second-process repeats of the long histories
	var wjobs []job
	for i, h := range hs {
		wjobs = append(wjobs, job{fmt.Sprintf("h%d", i), h, config{Backend: "memdb"}})
	}
	jb, _ := json.Marshal(wjobs)
	jf := filepath.Join(vk.Root, ".work", "c01", "wjobs.json")
	os.WriteFile(jf, jb, 0o644)
	for _, gmp := range []string{"1", "16"} {
		cmd := exec.Command(os.Args[0], "-id", r.ID, "-worker", jf)
		cmd.Env = append(os.Environ(), "GOMAXPROCS="+gmp)
		out, err := cmd.CombinedOutput()
		var res map[string][]string
		ok := false
		for _, line := range strings.Split(string(out), "\n") {
			if strings.HasPrefix(line, "RESULT ") {
				ok = json.Unmarshal([]byte(line[7:]), &res) == nil
			}
		}
		if !ok {
			r.HarnessError("GOMAXPROCS=%s worker failed: %v %s", gmp, err, tail(string(out), 800))
		}
		for i, h := range hs {
			r.Eval()
			r.Outcome("second-process-GOMAXPROCS-" + gmp)
			blocks += len(h)
			if strings.Join(res[fmt.Sprintf("h%d", i)], "\n") != strings.Join(refs[histName(h)], "\n") {
				r.Violation("diverges:gomaxprocs="+gmp+":"+histName(h), map[string]any{"history": histName(h), "reference": refs[histName(h)], "got": res[fmt.Sprintf("h%d", i)]})
			}
		}
	}
	r.Sample(map[string]any{"history": histName(longHistories[0]), "reference_blocks": refs[histName(longHistories[0])]})
	r.Sample(map[string]any{"history": histName(shorts[1]), "config": "cold-before-last-block"})
	r.Assumptions = []string{
		"block execution is single-threaded by construction; GOMAXPROCS is a configuration (1 and 16), OS thread schedules are not enumerated",
		"Go map iteration order is not owned by this check: it is exercised only through repeats in two processes (a map-order dependence shows as run-to-run divergence)",
		"backends: pure-Go ones buildable here (memdb, goleveldb, pebbledb, boltdb in thorough); cgo lmdb/mdbx not explored",
		"chainx commits the genesis state as its own store version (as the repo's app tests do)",
	}
	r.Finish("histories over an 11-tx menu x {every restart pattern (quick: single and all), warm vs cold for every single tx and ordered pair after a prefix block, 2-3 disk backends with and without restarts, repeat in process, second process with GOMAXPROCS 1 and 16}; each compared block by block (app hash, per-tx error/data/events/gas) with the memdb never-restarted reference; distinct = distinct block observations of the reference runs",
		true, map[string]any{"states": r.NDistinct(), "transitions": blocks, "traces_validated_against_impl": blocks, "histories": len(uniq), "configurations_compared": len(cmps) + 2*len(hs)})
}

func tail(s string, n int) string {
	if len(s) > n {
		return s[len(s)-n:]
	}
	return s
}
