// C01: chain replay is deterministic across runs, restarts, caches, backends and GOMAXPROCS.
//
// Real gno.land app (engine chainx). A history = blocks of txs from an 11-tx menu built to touch every cache
// the anchors name (object/type/BlockNode caches, lazily filled packages, two realms settled in one finalize,
// MsgRun importing realms, a Gno panic, a tx out of gas, a deploy during the chain, a multi-message tx,
// a call into a package that may not exist yet).  Every history is executed under every configuration and
// must give, block by block, byte-identical app hashes and identical per-tx (error, data, events, gas used,
// gas wanted):
//   - every RESTART PATTERN = subset of block boundaries at which the app is closed and re-opened on the same
//     DB (cold caches, LoadLatestVersion, VM Initialize) — all 2^(blocks-1) subsets for the long histories;
//   - short histories: prefix block, then EVERY single tx and ordered pair (quick: a third of the pairs) in one
//     block, warm vs cold (restart right before the block);
//   - backends memdb / goleveldb / pebbledb / boltdb (real files under .work/c01);
//   - GOMAXPROCS 1 vs 16 (worker subprocess);
//   - the same history twice in one process and in a second process;
//   - GO MAP ITERATION ORDER is owned through engine E9 (mapseed.go): a second binary of this harness is built with the
//     patched GOROOT /verif/goroot-mapseed, in which the iteration start offsets, the per-map hash seed and the
//     per-process hash keys are a function of VERIF_MAPSEED; the long histories are replayed by one worker process per
//     seed (thorough: every long history x seeds 1..8 = all 8 rotations of every <=8-entry map; quick: one history x
//     seeds {1,2,3,5}, only when the patched GOROOT and the prebuilt binary exist) and compared block by block.
//     The menu contains ONE message that grows 4 template realms (same code, equal-length paths) by exactly the same
//     byte count (+ a too-small MaxDeposit variant, + the symmetric release), the input a map-order dependence of the
//     storage-deposit settlement needs.
//
// The reference is "memdb, never restarted, pristine runtime".
package main

import (
	"encoding/json"
	"flag"
	"fmt"
	"os"
	"os/exec"
	"path/filepath"
	"runtime/debug"
	"strings"
	"sync"
	"sync/atomic"
	"time"

	"github.com/gnolang/gno/gno.land/pkg/sdk/vm"
	"github.com/gnolang/gno/gnovm/stdlibs/chain"
	abci "github.com/gnolang/gno/tm2/pkg/bft/abci/types"
	dbm "github.com/gnolang/gno/tm2/pkg/db"
	"github.com/gnolang/gno/tm2/pkg/db/boltdb"
	"github.com/gnolang/gno/tm2/pkg/db/goleveldb"
	"github.com/gnolang/gno/tm2/pkg/db/memdb"
	"github.com/gnolang/gno/tm2/pkg/db/pebbledb"
	"github.com/gnolang/gno/tm2/pkg/sdk/bank"
	"github.com/gnolang/gno/tm2/pkg/std"
	"verif/engine/chainx"
	"verif/engine/vk"
)

const (
	pa   = "gno.land/r/verif/alpha"
	pb   = "gno.land/r/verif/beta"
	plib = "gno.land/p/verif/lib"
	pm   = "gno.land/r/verif/master"
)

// four sibling realms stamped from one template: identical code (up to the package name), equal-length paths
var twins = []string{"gno.land/r/verif/twin_aa", "gno.land/r/verif/twin_bb", "gno.land/r/verif/twin_cc", "gno.land/r/verif/twin_dd"}

func twinSrc(p string) string {
	return "package " + p[strings.LastIndex(p, "/")+1:] + `

var storage []string

func Grow(cur realm, n int) {
	for i := 0; i < n; i++ {
		storage = append(storage, "data_data_data_data")
	}
}

func Shrink(cur realm) { storage = nil }
`
}

func masterSrc() string {
	var imp, grow, shrink strings.Builder
	// the call order (dd, bb, aa, cc) differs from the path order, so "order of first touch" != "sorted by path"
	for _, i := range []int{3, 1, 0, 2} {
		a := twins[i][strings.LastIndex(twins[i], "/")+1:]
		fmt.Fprintf(&imp, "\t%q\n", twins[i])
		fmt.Fprintf(&grow, "\t%s.Grow(cross(cur), 10)\n", a)
		fmt.Fprintf(&shrink, "\t%s.Shrink(cross(cur))\n", a)
	}
	return "package master\n\nimport (\n" + imp.String() + ")\n\nfunc GrowAll(cur realm) {\n" + grow.String() + "}\n\nfunc ShrinkAll(cur realm) {\n" + shrink.String() + "}\n"
}

const realmA = `package alpha

var (
	val   string
	items []*item
)

type item struct{ s string }

func Write(cur realm, v string) string { val = v; return val }
func Grow(cur realm, n int) int {
	for i := 0; i < n; i++ {
		items = append(items, &item{s: "xxxxxxxxxxxxxxxxxxxxxxxxxxxxxxxx"})
	}
	return len(items)
}
func Shrink(cur realm) int  { items = nil; return 0 }
func Panic(cur realm)       { val = "dirty"; panic("boom") }
func Loop(cur realm)        { for { items = append(items, &item{s: "y"}) } }
func Render(path string) string { return val }
`

const libSrc = `package lib

type Counter struct{ N int }

func (c *Counter) Inc() int { c.N++; return c.N }

func Double(x int) int { return 2 * x }
`

var realmB = map[string]string{
	"b.gno": `package beta

import (
	"gno.land/p/verif/lib"
	"gno.land/r/verif/alpha"
)

var (
	ctr  = &lib.Counter{}
	logs []string
)

func Both(cur realm) int {
	logs = append(logs, "both")
	n := alpha.Grow(cross(cur), 2)
	return ctr.Inc() + lib.Double(n)
}
`,
	"unused.gno": `package beta

type neverUsed struct{ a, b, c int }

func helperNeverCalled(x neverUsed) int { return x.a + x.b + x.c }
`,
	"view.gno": `package beta

func Count() int { return ctr.N }
`,
}

var (
	A, B = chainx.NewKey("A"), chainx.NewKey("B")
	keys = []chainx.Key{A, B}
)

func coins(n int64) std.Coins { return std.Coins{std.NewCoin("ugnot", n)} }

func spec() chainx.Spec {
	s := chainx.Spec{Keys: keys, Fund: 1_000_000_000_000}
	gen := func(m std.Msg) std.Tx {
		return std.Tx{Msgs: []std.Msg{m}, Fee: std.NewFee(100_000_000, std.NewCoin("ugnot", 1_000_000)), Signatures: []std.Signature{{}}}
	}
	s.GenesisTxs = []std.Tx{
		gen(chainx.AddPkg(A.Addr, plib, map[string]string{"lib.gno": libSrc})),
		gen(chainx.AddPkg(A.Addr, pa, map[string]string{"a.gno": realmA})),
		gen(chainx.AddPkg(A.Addr, pb, realmB)),
	}
	for _, t := range twins {
		s.GenesisTxs = append(s.GenesisTxs, gen(chainx.AddPkg(A.Addr, t, map[string]string{"t.gno": twinSrc(t)})))
	}
	s.GenesisTxs = append(s.GenesisTxs, gen(chainx.AddPkg(A.Addr, pm, map[string]string{"m.gno": masterSrc()})))
	return s
}

type txDef struct {
	name string
	mk   func(c *chainx.Chain, n int) std.Tx
}

var menu = []txDef{
	{"send", func(c *chainx.Chain, n int) std.Tx {
		return c.MakeTx(keys, []std.Msg{bank.MsgSend{FromAddress: A.Addr, ToAddress: B.Addr, Amount: coins(100)}}, chainx.TxOpt{})
	}},
	{"a.Write", func(c *chainx.Chain, n int) std.Tx {
		return c.MakeTx(keys, []std.Msg{chainx.Call(A.Addr, nil, pa, "Write", fmt.Sprintf("v%d", n))}, chainx.TxOpt{})
	}},
	{"a.Grow", func(c *chainx.Chain, n int) std.Tx {
		return c.MakeTx(keys, []std.Msg{chainx.Call(B.Addr, nil, pa, "Grow", "3")}, chainx.TxOpt{})
	}},
	{"a.Shrink", func(c *chainx.Chain, n int) std.Tx {
		return c.MakeTx(keys, []std.Msg{chainx.Call(A.Addr, nil, pa, "Shrink")}, chainx.TxOpt{})
	}},
	{"b.Both", func(c *chainx.Chain, n int) std.Tx {
		return c.MakeTx(keys, []std.Msg{chainx.Call(B.Addr, nil, pb, "Both")}, chainx.TxOpt{})
	}},
	{"run-import-b", func(c *chainx.Chain, n int) std.Tx {
		return c.MakeTx(keys, []std.Msg{chainx.Run(A.Addr, nil, "package main\n\nimport (\n\t\"gno.land/p/verif/lib\"\n\t\"gno.land/r/verif/beta\"\n)\n\nfunc main(cur realm) { println(beta.Both(cross(cur)), lib.Double(beta.Count())) }\n")}, chainx.TxOpt{})
	}},
	{"a.Panic", func(c *chainx.Chain, n int) std.Tx {
		return c.MakeTx(keys, []std.Msg{chainx.Call(A.Addr, nil, pa, "Panic")}, chainx.TxOpt{})
	}},
	{"a.Loop-oog", func(c *chainx.Chain, n int) std.Tx {
		return c.MakeTx(keys, []std.Msg{chainx.Call(B.Addr, nil, pa, "Loop")}, chainx.TxOpt{GasWanted: 4_000_000})
	}},
	{"deploy-c", func(c *chainx.Chain, n int) std.Tx {
		return c.MakeTx(keys, []std.Msg{chainx.AddPkg(B.Addr, "gno.land/r/verif/gamma", map[string]string{"c.gno": "package gamma\n\nimport \"gno.land/p/verif/lib\"\n\nvar k = &lib.Counter{}\n\nfunc F(cur realm) int { return k.Inc() }\n"})}, chainx.TxOpt{})
	}},
	{"send+a.Write", func(c *chainx.Chain, n int) std.Tx {
		return c.MakeTx(keys, []std.Msg{bank.MsgSend{FromAddress: A.Addr, ToAddress: B.Addr, Amount: coins(5)}, chainx.Call(A.Addr, nil, pa, "Write", "multi")}, chainx.TxOpt{})
	}},
	{"c.F", func(c *chainx.Chain, n int) std.Tx {
		return c.MakeTx(keys, []std.Msg{chainx.Call(A.Addr, nil, "gno.land/r/verif/gamma", "F")}, chainx.TxOpt{})
	}},
	// 11: ONE message grows the 4 twin realms by exactly the same byte count (4 equal positive storage deltas)
	{"m.GrowAll", func(c *chainx.Chain, n int) std.Tx {
		return c.MakeTx(keys, []std.Msg{chainx.Call(B.Addr, nil, pm, "GrowAll")}, chainx.TxOpt{})
	}},
	// 12: the same with a MaxDeposit that covers two and a half of the four equal locks (lowDeposit is measured by probe())
	{"m.GrowAll-lowdep", func(c *chainx.Chain, n int) std.Tx {
		m := chainx.Call(B.Addr, nil, pm, "GrowAll").(vm.MsgCall)
		m.MaxDeposit = coins(lowDeposit)
		return c.MakeTx(keys, []std.Msg{m}, chainx.TxOpt{})
	}},
	// 13: ONE message releases the storage of the 4 twin realms (equal negative deltas when they grew equally)
	{"m.ShrinkAll", func(c *chainx.Chain, n int) std.Tx {
		return c.MakeTx(keys, []std.Msg{chainx.Call(B.Addr, nil, pm, "ShrinkAll")}, chainx.TxOpt{})
	}},
}

// lowDeposit = 2.5 x the deposit one twin realm locks in the first GrowAll (measured by probe, passed to workers).
var lowDeposit int64 = 1

// equalDeltaMsgs counts delivered txs whose events carry >= 2 storage deposit/unlock events with EQUAL byte deltas
// for different realms (the input a delta-only ordering needs); non-vacuity guard.
var equalDeltaMsgs atomic.Int64

func noteEqualDeltas(res abci.ResponseDeliverTx) {
	byDelta := map[int64]int{}
	for _, e := range res.Events {
		switch ev := e.(type) {
		case chain.StorageDepositEvent:
			byDelta[ev.BytesDelta]++
		case chain.StorageUnlockEvent:
			byDelta[ev.BytesDelta]++
		}
	}
	for _, n := range byDelta {
		if n >= 2 {
			equalDeltaMsgs.Add(1)
			return
		}
	}
}

// probe runs GrowAll once on a fresh chain: the 4 twins must lock the same byte count; returns bytes and fee per realm.
func probe() (bytes, fee int64, err error) {
	c, err := chainx.New(memdb.NewMemDB(), spec())
	if err != nil {
		return 0, 0, err
	}
	c.BeginBlock()
	res := c.DeliverTx(menu[11].mk(c, 0))
	c.EndBlockCommit()
	if res.Error != nil {
		return 0, 0, fmt.Errorf("probe GrowAll failed: %s", res.Log)
	}
	seen := map[string]bool{}
	for _, e := range res.Events {
		if ev, ok := e.(chain.StorageDepositEvent); ok {
			if bytes != 0 && ev.BytesDelta != bytes {
				return 0, 0, fmt.Errorf("twin realms grew by different byte counts: %d vs %d (%s)", bytes, ev.BytesDelta, ev.PkgPath)
			}
			bytes, fee = ev.BytesDelta, ev.FeeDelta.Amount
			seen[ev.PkgPath] = true
		}
	}
	if len(seen) != len(twins) || bytes <= 0 {
		return 0, 0, fmt.Errorf("probe: expected one StorageDepositEvent per twin realm, got %d (bytes %d)", len(seen), bytes)
	}
	return bytes, fee, nil
}

var longHistories = [][][]int{
	{{1, 2}, {4, 5}, {6, 3}, {10, 8, 10}},
	{{8}, {10, 4}, {7, 2}, {5, 9}},
	{{11, 2}, {12, 4}, {13, 11}, {11, 12, 1}}, // equal-delta messages (quick + thorough; the quick map-seed history)
	{{11}, {11, 13}, {8, 12}, {10, 11}},
	{{2, 2}, {3, 0}, {4, 4}, {1, 7}},
	{{5}, {}, {5, 6}, {9, 10}},
	{{7}, {7, 1}, {8, 10}, {3, 4, 2}},
	{{4}, {8}, {10}, {10, 5}},
}

type config struct {
	Backend  string
	Restarts []bool // restart before block i (i>=1)
}

func openDB(backend, dir string) (dbm.DB, error) {
	switch backend {
	case "memdb":
		return nil, nil
	case "goleveldb":
		return goleveldb.NewGoLevelDB("app", dir)
	case "pebbledb":
		return pebbledb.NewPebbleDB("app", dir)
	case "boltdb":
		return boltdb.New("app", dir)
	}
	return nil, fmt.Errorf("unknown backend %s", backend)
}

// runHistory executes hist under cfg and returns one observation string per block.
func runHistory(hist [][]int, cfg config, dir string) (obs []string, err error) {
	defer func() {
		if rec := recover(); rec != nil {
			err = fmt.Errorf("panic: %v", rec)
		}
	}()
	var db dbm.DB
	if cfg.Backend == "memdb" {
		db = memdb.NewMemDB()
	} else {
		os.RemoveAll(dir)
		os.MkdirAll(dir, 0o755)
		defer os.RemoveAll(dir)
		if db, err = openDB(cfg.Backend, dir); err != nil {
			return nil, err
		}
	}
	c, err := chainx.New(db, spec())
	if err != nil {
		return nil, err
	}
	for _, tr := range c.Init.TxResponses {
		if tr.Error != nil {
			return nil, fmt.Errorf("genesis tx failed: %s", tr.Log)
		}
	}
	n := 0
	for bi, blk := range hist {
		if bi < len(cfg.Restarts) && cfg.Restarts[bi] {
			if cfg.Backend != "memdb" {
				c.Base.Close()
				if db, err = openDB(cfg.Backend, dir); err != nil {
					return nil, err
				}
				c.DB = db
			}
			if err := c.Restart(); err != nil {
				return nil, err
			}
		}
		c.BeginBlock()
		var parts []string
		for _, ti := range blk {
			res := c.DeliverTx(menu[ti].mk(c, n))
			n++
			noteEqualDeltas(res)
			parts = append(parts, menu[ti].name+"{"+chainx.ResKey(res)+"}")
		}
		_, h := c.EndBlockCommit()
		obs = append(obs, fmt.Sprintf("apphash=%x %s", h, strings.Join(parts, " ")))
	}
	if cfg.Backend != "memdb" {
		c.Base.Close()
	}
	return obs, nil
}

type job struct {
	Name       string  `json:"name"`
	Hist       [][]int `json:"hist"`
	Cfg        config  `json:"cfg"`
	LowDeposit int64   `json:"low_deposit"`
}

func histName(h [][]int) string {
	var bs []string
	for _, b := range h {
		var ts []string
		for _, t := range b {
			ts = append(ts, menu[t].name)
		}
		bs = append(bs, "["+strings.Join(ts, ",")+"]")
	}
	return strings.Join(bs, "")
}

var r *vk.Run

var t0 = time.Now()

// phase prints a progress line with the elapsed wall time to stderr (diagnostics only).
func phase(f string, a ...any) {
	fmt.Fprintf(os.Stderr, "[c01 %6.1fs] %s\n", time.Since(t0).Seconds(), fmt.Sprintf(f, a...))
}

func main() {
	debug.SetGCPercent(400)
	worker := flag.String("worker", "", "internal: JSON file with jobs; prints observations as JSON")
	r = vk.New("model_checking")
	if *worker != "" {
		var jobs []job
		b, _ := os.ReadFile(*worker)
		json.Unmarshal(b, &jobs)
		out := map[string][]string{}
		if ms := os.Getenv("VERIF_MAPSEED"); ms != "" {
			out["mapseed-probe"] = []string{mapseedProbe(ms)}
		}
		for i, j := range jobs {
			lowDeposit = j.LowDeposit
			o, err := runHistory(j.Hist, j.Cfg, filepath.Join(vk.Root, ".work", "c01", fmt.Sprintf("wdb%d-%d", os.Getpid(), i)))
			if err != nil {
				o = []string{"ERROR " + err.Error()}
			}
			out[j.Name] = o
		}
		bb, _ := json.Marshal(out)
		fmt.Println("RESULT " + string(bb))
		return
	}
	r.SetBudget(480*time.Second, 40*time.Minute) // caps, not targets: quick is ~1 min on an idle 16-core machine, several minutes when the machine is shared
	os.MkdirAll(filepath.Join(vk.Root, ".work", "c01"), 0o755)
	// the map-seed binary (engine E9) is built in the background while the in-process configurations run
	msCh := make(chan mapseedBuild, 1)
	go func() {
		b := ensureMapseedBinary(r.Thorough())
		phase("map-seed binary: bin=%q skipped=%q err=%v", b.bin, b.skipped, b.err)
		msCh <- b
	}()
	twinBytes, twinFee, err := probe()
	if err != nil {
		r.HarnessError("%v", err)
	}
	lowDeposit = twinFee*2 + twinFee/2
	phase("probe done: %d bytes / %d ugnot per twin realm", twinBytes, twinFee)

	// ---- build the job list ----
	type cmp struct {
		hist [][]int
		cfg  config
		what string
	}
	var cmps []cmp
	hs := longHistories
	if r.Quick() {
		hs = [][][]int{longHistories[0], longHistories[2]} // one classic history + the equal-delta history
	}
	for _, h := range hs {
		nb := len(h)
		for mask := 1; mask < 1<<(nb-1); mask++ { // every non-empty subset of the nb-1 inner boundaries
			rs := make([]bool, nb)
			for i := 1; i < nb; i++ {
				rs[i] = mask&(1<<(i-1)) != 0
			}
			if r.Quick() && !(mask == 1<<(nb-1)-1 || mask&(mask-1) == 0) {
				continue // quick: single restarts and all-restarts; thorough: every subset
			}
			cmps = append(cmps, cmp{h, config{"memdb", rs}, fmt.Sprintf("restart-mask=%b", mask)})
		}
		backends := []string{"goleveldb"}
		if r.Thorough() {
			backends = append(backends, "pebbledb", "boltdb")
		}
		for _, be := range backends {
			cmps = append(cmps, cmp{h, config{be, nil}, "backend=" + be})
			all := make([]bool, nb)
			for i := 1; i < nb; i++ {
				all[i] = true
			}
			cmps = append(cmps, cmp{h, config{be, all}, "backend=" + be + "+all-restarts"})
		}
		cmps = append(cmps, cmp{h, config{"memdb", nil}, "repeat-same-process"})
	}
	// short histories: prefix [deploy-c] then every single / pair, warm vs cold
	var shorts [][][]int
	for i := range menu {
		shorts = append(shorts, [][]int{{8}, {i}})
		for j := range menu {
			if r.Quick() && (i+3*j)%(2*len(menu)) != 0 { // quick: 7 of the 196 ordered pairs
				continue
			}
			shorts = append(shorts, [][]int{{8}, {i, j}})
		}
	}
	for _, h := range shorts {
		cmps = append(cmps, cmp{h, config{"memdb", []bool{false, true}}, "cold-before-last-block"})
	}

	// reference runs (memdb, never restarted), memoised per history
	refs := map[string][]string{}
	var uniq [][][]int
	for _, c := range cmps {
		k := histName(c.hist)
		if _, ok := refs[k]; !ok {
			refs[k] = nil
			uniq = append(uniq, c.hist)
		}
	}
	refObs := make([][]string, len(uniq))
	r.ParFor(len(uniq), func(i int) {
		o, err := runHistory(uniq[i], config{Backend: "memdb"}, "")
		if err != nil {
			r.HarnessError("reference run %s: %v", histName(uniq[i]), err)
		}
		refObs[i] = o
	})
	phase("%d reference runs done", len(uniq))
	for i, h := range uniq {
		refs[histName(h)] = refObs[i]
		for _, o := range refObs[i] {
			r.Distinct(o) // distinct block observations (app hash + results)
		}
	}
	if r.Capped() {
		r.Finish("capped during reference runs", false, map[string]any{"states": 1, "transitions": 1, "traces_validated_against_impl": 0})
	}
	// ---- Go map iteration order (engine E9): the equal-delta histories under map seeds, one worker process per seed,
	// running beside the in-process comparisons (separate processes; not subject to the ParFor budget stop) ----
	msHists, msSeeds := hs, []int{1, 2, 3, 4, 5, 6, 7, 8}
	if r.Quick() {
		msHists, msSeeds = longHistories[2:3], []int{1, 2, 3, 5}
	}
	type msOut struct {
		b       mapseedBuild
		results []map[string][]string
		errs    []string
	}
	msDone := make(chan msOut, 1)
	go func() {
		o := msOut{b: <-msCh, results: make([]map[string][]string, len(msSeeds)), errs: make([]string, len(msSeeds))}
		if o.b.err != nil || o.b.bin == "" {
			msDone <- o
			return
		}
		var mjobs []job
		for i, h := range msHists {
			mjobs = append(mjobs, job{fmt.Sprintf("h%d", i), h, config{Backend: "memdb"}, lowDeposit})
		}
		jb, _ := json.Marshal(mjobs)
		mjf := filepath.Join(vk.Root, ".work", "c01", "mapseed-jobs"+mutSuffix()+".json")
		os.WriteFile(mjf, jb, 0o644)
		var wg sync.WaitGroup
		for k := range msSeeds {
			wg.Add(1)
			go func(k int) {
				defer wg.Done()
				cmd := exec.Command(o.b.bin, "-id", r.ID, "-worker", mjf)
				cmd.Env = append(os.Environ(), fmt.Sprintf("VERIF_MAPSEED=%d", msSeeds[k]))
				out, err := cmd.CombinedOutput()
				ok := false
				for _, line := range strings.Split(string(out), "\n") {
					if strings.HasPrefix(line, "RESULT ") {
						ok = json.Unmarshal([]byte(line[7:]), &o.results[k]) == nil
					}
				}
				if !ok {
					o.errs[k] = fmt.Sprintf("%v %s", err, tail(string(out), 800))
				}
			}(k)
		}
		wg.Wait()
		phase("map-seed workers done (%d seeds x %d histories)", len(msSeeds), len(msHists))
		msDone <- o
	}()
	// GOMAXPROCS=1 and 16: second-process repeats of the long histories, running beside the in-process comparisons
	var wjobs []job
	for i, h := range hs {
		wjobs = append(wjobs, job{fmt.Sprintf("h%d", i), h, config{Backend: "memdb"}, lowDeposit})
	}
	wjb, _ := json.Marshal(wjobs)
	jf := filepath.Join(vk.Root, ".work", "c01", "wjobs"+mutSuffix()+".json")
	os.WriteFile(jf, wjb, 0o644)
	gmps := []string{"1", "16"}
	gmpRes := make([]map[string][]string, len(gmps))
	gmpErr := make([]string, len(gmps))
	gmpDone := []chan struct{}{make(chan struct{}), make(chan struct{})}
	for gi, gmp := range gmps {
		go func(gi int, gmp string) {
			defer close(gmpDone[gi])
			cmd := exec.Command(os.Args[0], "-id", r.ID, "-worker", jf)
			cmd.Env = append(os.Environ(), "GOMAXPROCS="+gmp)
			out, err := cmd.CombinedOutput()
			ok := false
			for _, line := range strings.Split(string(out), "\n") {
				if strings.HasPrefix(line, "RESULT ") {
					ok = json.Unmarshal([]byte(line[7:]), &gmpRes[gi]) == nil
				}
			}
			if !ok {
				gmpErr[gi] = fmt.Sprintf("%v %s", err, tail(string(out), 800))
			}
		}(gi, gmp)
	}
	blocks := 0
	r.ParFor(len(cmps), func(i int) {
		c := cmps[i]
		o, err := runHistory(c.hist, c.cfg, filepath.Join(vk.Root, ".work", "c01", fmt.Sprintf("db%d", i)))
		r.Eval()
		r.Outcome(strings.SplitN(c.what, "=", 2)[0])
		name := histName(c.hist)
		if err != nil {
			r.Violation("run-fails:"+c.what+":"+name, map[string]any{"history": name, "config": c.what, "error": err.Error()})
			return
		}
		ref := refs[name]
		for b := range ref {
			if b >= len(o) || o[b] != ref[b] {
				got := "(missing)"
				if b < len(o) {
					got = o[b]
				}
				r.Violation("diverges:"+strings.SplitN(c.what, "=", 2)[0]+":"+name, map[string]any{"history": name, "config": c.what, "block": b + 1, "reference": ref[b], "got": got})
				return
			}
		}
	})
	phase("%d in-process configurations done", len(cmps))
	for _, c := range cmps {
		blocks += len(c.hist)
	}
	// GOMAXPROCS=1 / 16 second-process repeats (started before the in-process comparisons, see above)
	for gi, gmp := range gmps {
		<-gmpDone[gi]
		if gmpErr[gi] != "" {
			r.HarnessError("GOMAXPROCS=%s worker failed: %s", gmp, gmpErr[gi])
		}
		res := gmpRes[gi]
		for i, h := range hs {
			r.Eval()
			r.Outcome("second-process-GOMAXPROCS-" + gmp)
			blocks += len(h)
			if strings.Join(res[fmt.Sprintf("h%d", i)], "\n") != strings.Join(refs[histName(h)], "\n") {
				r.Violation("diverges:gomaxprocs="+gmp+":"+histName(h), map[string]any{"history": histName(h), "reference": refs[histName(h)], "got": res[fmt.Sprintf("h%d", i)]})
			}
		}
	}
	phase("GOMAXPROCS workers done")
	eqRef := equalDeltaMsgs.Load()
	if eqRef == 0 {
		r.HarnessError("no delivered message had two realms with equal storage deltas (vacuous for delta-ordered settlement)")
	}
	mso := <-msDone
	msb, results := mso.b, mso.results
	msRuns := 0
	switch {
	case msb.err != nil:
		r.HarnessError("map-seed binary: %v", msb.err)
	case msb.bin == "":
		r.Outcome("mapseed-skipped:" + msb.skipped)
	default:
		for k, seed := range msSeeds {
			if mso.errs[k] != "" {
				r.HarnessError("map-seed worker seed=%d failed: %s", seed, mso.errs[k])
			}
			if p := strings.Join(results[k]["mapseed-probe"], ""); p != "ok" {
				r.HarnessError("map-seed worker seed=%d does not run on the patched runtime: %s", seed, p)
			}
		}
		for i, h := range msHists {
			name := histName(h)
			ref := refs[name]
			var bad []int
			var first map[string]any
			for k, seed := range msSeeds {
				r.Eval()
				r.Outcome("mapseed")
				msRuns++
				blocks += len(h)
				got := results[k][fmt.Sprintf("h%d", i)]
				for b := range ref {
					if b >= len(got) || got[b] != ref[b] {
						g := "(missing)"
						if b < len(got) {
							g = got[b]
						}
						bad = append(bad, seed)
						if first == nil {
							first = map[string]any{"seed": seed, "block": b + 1, "reference": ref[b], "got": g}
						}
						break
					}
				}
			}
			if len(bad) > 0 {
				// the key names the history, not the seeds: under a map-order dependence the pristine-runtime reference is
				// itself one of the possible orders, so WHICH seeds differ from it varies from run to run
				r.Violation("diverges:mapseed:"+name, map[string]any{"history": name, "seeds_tried": msSeeds, "seeds_diverging_from_reference": bad, "first": first})
			}
		}
	}
	r.Sample(map[string]any{"history": histName(longHistories[0]), "reference_blocks": refs[histName(longHistories[0])]})
	r.Sample(map[string]any{"history": histName(shorts[1]), "config": "cold-before-last-block"})
	r.Assumptions = []string{
		"block execution is single-threaded by construction; GOMAXPROCS is a configuration (1 and 16), OS thread schedules are not enumerated",
		mapOrderAssumption(msb, msRuns, len(msHists), msSeeds),
		"backends: pure-Go ones buildable here (memdb, goleveldb, pebbledb, boltdb in thorough); cgo lmdb/mdbx not explored",
		"chainx commits the genesis state as its own store version (as the repo's app tests do)",
	}
	r.Finish("histories over a 14-tx menu x {every restart pattern (quick: single and all), warm vs cold for every single tx and ordered pair after a prefix block, 2-3 disk backends with and without restarts, repeat in process, second process with GOMAXPROCS 1 and 16, Go map-order seeds on a patched runtime (worker process per seed)}; each compared block by block (app hash, per-tx error/data/events/gas) with the memdb never-restarted reference; distinct = distinct block observations of the reference runs",
		!r.Capped(), map[string]any{"states": r.NDistinct(), "transitions": blocks, "traces_validated_against_impl": blocks, "histories": len(uniq), "configurations_compared": len(cmps) + 2*len(hs) + msRuns,
			"mapseed_runs": msRuns, "mapseed_seeds": len(msSeeds), "equal_delta_messages_delivered": eqRef, "twin_realm_bytes_per_grow": twinBytes})
}

func tail(s string, n int) string {
	if len(s) > n {
		return s[len(s)-n:]
	}
	return s
}
