// Engine E9 glue for C01: a second binary of this harness built with the patched GOROOT /verif/goroot-mapseed
// (see /verif/mapseed/patch_goroot.py), in which Go map iteration order is a function of VERIF_MAPSEED.
package main

import (
	"fmt"
	"os"
	"os/exec"
	"path/filepath"
	"strconv"
	"strings"

	"verif/engine/vk"
)

type mapseedBuild struct {
	bin     string // "" = not available
	skipped string // why (quick tier only)
	err     error  // thorough: setup/build failure
}

const mapseedGoroot = "/verif/goroot-mapseed"

func mutSuffix() string {
	if os.Getenv("VERIF_MUTANT") != "" {
		return "-mut"
	}
	if rp := os.Getenv("VERIF_REPO"); rp != "" && rp != "/repo" {
		return "-scratch"
	}
	return ""
}

func exists(p string) bool { _, err := os.Stat(p); return err == nil }

// ensureMapseedBinary builds (incrementally, private GOCACHE) this harness with the patched GOROOT, from the same
// overlay file vcheck generated for this run (overlay.json, or overlay-mut.json under VERIF_MUTANT).
// thorough: creates the patched GOROOT when missing (mapseed/setup.sh) and always builds.
// quick: only when the patched GOROOT and the prebuilt unmutated binary (= warm cache, see /verif/setup_extra.sh)
// exist; otherwise the configuration is skipped and recorded as such.
func ensureMapseedBinary(thorough bool) mapseedBuild {
	work := filepath.Join(vk.Root, ".work", "c01")
	plain := filepath.Join(work, "c01-mapseed")
	bin := plain + mutSuffix()
	patched := exists(mapseedGoroot+"/bin/go") && exists(mapseedGoroot+"/src/runtime/zz_verif_mapseed.go") &&
		exists(mapseedGoroot+"/pkg/tool/linux_amd64/compile.stamp")
	if !thorough {
		if !patched {
			return mapseedBuild{skipped: "no-patched-goroot"}
		}
		if !exists(plain) {
			return mapseedBuild{skipped: "binary-not-prebuilt"}
		}
	}
	if !patched {
		out, err := exec.Command(filepath.Join(vk.Root, "mapseed", "setup.sh")).CombinedOutput()
		if err != nil {
			return mapseedBuild{err: fmt.Errorf("mapseed/setup.sh: %v\n%s", err, tail(string(out), 1500))}
		}
	}
	ovl := filepath.Join(work, "overlay.json")
	if os.Getenv("VERIF_MUTANT") != "" {
		ovl = filepath.Join(work, "overlay-mut.json")
	}
	args := []string{"build"}
	if rp := os.Getenv("VERIF_REPO"); rp != "" && rp != "/repo" {
		args = append(args, "-modfile="+filepath.Join(work, "go.mod"))
	}
	args = append(args, "-tags", "verif", "-overlay", ovl, "-o", bin, "./harness/c01")
	cmd := exec.Command(mapseedGoroot+"/bin/go", args...)
	cmd.Dir = vk.Root
	var env []string
	for _, e := range os.Environ() {
		k := e[:strings.IndexByte(e+"=", '=')]
		switch k {
		case "GOROOT", "GOTOOLCHAIN", "GOCACHE", "GOFLAGS", "GOPROXY", "GOMAXPROCS":
		default:
			env = append(env, e)
		}
	}
	os.MkdirAll(filepath.Join(vk.Root, ".cache", "go-build-mapseed"), 0o755)
	cmd.Env = append(env, "GOROOT="+mapseedGoroot, "GOTOOLCHAIN=local", "GOFLAGS=-mod=mod", "GOPROXY=off",
		"GOCACHE="+filepath.Join(vk.Root, ".cache", "go-build-mapseed"))
	out, err := cmd.CombinedOutput()
	if err != nil {
		os.WriteFile(filepath.Join(work, "build-mapseed.log"), out, 0o644)
		return mapseedBuild{err: fmt.Errorf("go build with the patched GOROOT failed: %v\n%s", err, tail(string(out), 1500))}
	}
	return mapseedBuild{bin: bin}
}

// mapseedProbe (worker side) checks behaviourally that this process runs on the patched runtime under the given
// seed: a <=8-entry map must iterate as the rotation of its insertion order by seed&7, every time.
func mapseedProbe(seedStr string) string {
	seed, err := strconv.Atoi(seedStr)
	if err != nil || seed <= 0 {
		return "bad VERIF_MAPSEED " + seedStr
	}
	const keys = "abcdefgh"
	want := keys[seed&7:] + keys[:seed&7]
	for rep := 0; rep < 8; rep++ {
		m := map[string]int{}
		for i := range keys {
			m[keys[i:i+1]] = i
		}
		got := ""
		for k := range m {
			got += k
		}
		if got != want {
			return fmt.Sprintf("8-entry map iterated %s, want %s (unpatched runtime?)", got, want)
		}
	}
	return "ok"
}

func mapOrderAssumption(b mapseedBuild, runs, nh int, seeds []int) string {
	if b.bin == "" {
		return "Go map iteration order NOT owned in this run (" + b.skipped + ": run /verif/setup_extra.sh, or the thorough tier): a map-order dependence can only show as divergence between the repeats / second processes"
	}
	return fmt.Sprintf("Go map iteration order is owned through a patched runtime (engine E9: iteration start offsets, per-map hash seeds and per-process hash keys are a function of VERIF_MAPSEED): %d histories x seeds %v = %d replays in worker processes; a <=8-entry map (one group) is iterated as a rotation of its slot order and seeds 1..8 give all 8 rotations; for larger maps the seeds are a fixed menu of layouts/offsets, not all orders", nh, seeds, runs)
}
