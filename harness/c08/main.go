// C08: coins leave an address only with that address's authority.
//
// Real gno.land app (engine chainx). Histories of <=3 transactions over a menu of bank sends, MsgCall/MsgRun with
// Send, and calls into three purpose-built realms (vv = a realm holding funds, issuing a denomination and keeping
// a sub-realm vault; att = an attacker realm; rly = a relay realm), explored depth-first in one open block with
// cache-wrap snapshot/rollback; a subset is replayed on fresh chains with one tx per block and real commits.
//
// Oracle after EVERY tx, computed from the tx and the raw store only: every (address, denom) whose balance
// decreased must have one of the statement's reasons:
//
//	R1 the address signed the tx and the decrease is covered by fee + coins named in the messages (Send / bank
//	   amount) + storage deposits actually locked in this tx (+ what a MsgRun script, the signer's own code, spends)
//	R2 the address is a realm (or sub-realm) address and the op is one in which THAT realm's own code spends it
//	   through a banker it made for itself (declared per op, with the amount)
//	R3 the address is a realm's storage-deposit address and that realm's recorded Storage decreased in this tx
//	R4 the denom is a realm denomination and the op is one in which its issuing realm burns it
//
// plus: a failed tx moves nothing but the signer's fee; a realm spending through an OriginSend banker never ends the
// tx with less OF ANY DENOMINATION than it had before (it can only pass on what came with the call); the total supply
// of a realm denomination changes only in ops where the issuing realm mints/burns; ugnot supply never changes.
//
// Three exhaustive single-transaction families run first, each member from a snapshot of a fixed base state, with the
// same oracle (files realmval.go, forge.go, originx.go): generated attacker programs that forge / wrap / reassign
// REALM VALUES before handing them to NewBanker, Sub or cross(); hand-built messages with forged identity fields
// (Package.Path, Caller, Creator, FromAddress, signature slots); the multi-denomination origin-send matrix.
// Findings of a family are reported under one key per (what was lost by whom, root-cause class) with every failing
// member listed in the detail, and are confirmed on a fresh chain with one tx per block and real commits.
package main

import (
	"fmt"
	"os"
	"runtime/debug"
	"runtime/pprof"
	"sort"
	"strings"
	"sync"
	"sync/atomic"
	"time"

	"github.com/gnolang/gno/gno.land/pkg/gnoland"
	"github.com/gnolang/gno/gno.land/pkg/sdk/vm"
	"github.com/gnolang/gno/gnovm/pkg/gnolang"
	"github.com/gnolang/gno/tm2/pkg/crypto"
	"github.com/gnolang/gno/tm2/pkg/db/memdb"
	"github.com/gnolang/gno/tm2/pkg/sdk/bank"
	"github.com/gnolang/gno/tm2/pkg/std"
	"verif/engine/chainx"
	"verif/engine/vk"
)

const (
	pathV = "gno.land/r/verif/vv"
	pathE = "gno.land/r/verif/att"
	pathR = "gno.land/r/verif/rly"
	fee   = int64(1_000_000)
)

const realmE = `package att

import (
	"chain"
	"chain/banker"
)

var kept banker.Banker

func coins(amt int64) chain.Coins { return chain.NewCoins(chain.NewCoin("ugnot", amt)) }

func Deposit(cur realm) {}

func SpendOwn(cur realm, to address, amt int64) {
	banker.NewBanker(banker.BankerTypeRealmSend, cur).SendCoins(cur.Address(), to, coins(amt))
}

// from is somebody else's address
func SendFrom(cur realm, from, to address, amt int64) {
	banker.NewBanker(banker.BankerTypeRealmSend, cur).SendCoins(from, to, coins(amt))
}
func SendFromIssue(cur realm, from, to address, amt int64) {
	banker.NewBanker(banker.BankerTypeRealmIssue, cur).SendCoins(from, to, coins(amt))
}
func SendFromOrigin(cur realm, from, to address, amt int64) {
	banker.NewBanker(banker.BankerTypeOriginSend, cur).SendCoins(from, to, coins(amt))
}

// called BY the victim realm: cur.Previous() is the victim
func Hook(cur realm, mode string) {
	prev := cur.Previous()
	me := cur.Address()
	switch mode {
	case "banker-on-previous":
		banker.NewBanker(banker.BankerTypeRealmSend, prev).SendCoins(prev.Address(), me, coins(1000))
	case "issue-banker-on-previous":
		banker.NewBanker(banker.BankerTypeRealmIssue, prev).SendCoins(prev.Address(), me, coins(1000))
	case "origin-banker-on-previous":
		banker.NewBanker(banker.BankerTypeOriginSend, prev).SendCoins(prev.Address(), me, coins(1000))
	case "sub-of-previous":
		s := prev.Sub("vault")
		banker.NewBanker(banker.BankerTypeRealmSend, s).SendCoins(s.Address(), me, coins(1000))
	case "mint-on-previous":
		banker.NewBanker(banker.BankerTypeRealmIssue, prev).IssueCoin(me, chain.CoinDenom(prev.PkgPath(), "coin"), 1000)
	case "own-banker-from-previous":
		banker.NewBanker(banker.BankerTypeRealmSend, cur).SendCoins(prev.Address(), me, coins(1000))
	case "own-sub-as-previous-vault":
		s := cur.Sub("vault")
		banker.NewBanker(banker.BankerTypeRealmSend, s).SendCoins(prev.Address(), me, coins(1000))
	case "noop":
	}
}

func MintDenom(cur realm, denom string, to address, amt int64) {
	banker.NewBanker(banker.BankerTypeRealmIssue, cur).IssueCoin(to, denom, amt)
}
func BurnDenom(cur realm, denom string, from address, amt int64) {
	banker.NewBanker(banker.BankerTypeRealmIssue, cur).RemoveCoin(from, denom, amt)
}
func SendDenom(cur realm, denom string, from, to address, amt int64) {
	banker.NewBanker(banker.BankerTypeRealmSend, cur).SendCoins(from, to, chain.NewCoins(chain.NewCoin(denom, amt)))
}

func OriginSpend(cur realm, to address, amt int64) {
	banker.NewBanker(banker.BankerTypeOriginSend, cur).SendCoins(cur.Address(), to, coins(amt))
}
func OriginSpendTwice(cur realm, to address, amt int64) {
	b := banker.NewBanker(banker.BankerTypeOriginSend, cur)
	b.SendCoins(cur.Address(), to, coins(amt))
	b2 := banker.NewBanker(banker.BankerTypeOriginSend, cur)
	b2.SendCoins(cur.Address(), to, coins(amt))
}

var keptOrigin banker.Banker

func KeepOrigin(cur realm) { keptOrigin = banker.NewBanker(banker.BankerTypeOriginSend, cur) }
func UseKeptOrigin(cur realm, to address, denom string, amt int64) {
	keptOrigin.SendCoins(cur.Address(), to, chain.NewCoins(chain.NewCoin(denom, amt)))
}

func Keep(cur realm) { kept = banker.NewBanker(banker.BankerTypeRealmSend, cur) }
func UseKept(cur realm, from, to address, amt int64) { kept.SendCoins(from, to, coins(amt)) }
`

const realmV = `package vv

import (
	"chain"
	"chain/banker"

	"gno.land/r/verif/att"
)

var items []string

func coins(amt int64) chain.Coins { return chain.NewCoins(chain.NewCoin("ugnot", amt)) }

func Deposit(cur realm) {}

func SpendOwn(cur realm, to address, amt int64) {
	banker.NewBanker(banker.BankerTypeRealmSend, cur).SendCoins(cur.Address(), to, coins(amt))
}

// a token-hook style callout: attacker code runs with vv as its caller
func CallHook(cur realm, mode string) { att.Hook(cross(cur), mode) }

// "pass on what came with the call"
func SpendOrigin(cur realm, to address, amt int64) {
	banker.NewBanker(banker.BankerTypeOriginSend, cur).SendCoins(cur.Address(), to, coins(amt))
}

// one or two SendCoins through ONE OriginSend banker; each SendCoins carries one or two coins built as a raw
// (unsorted, possibly repeated-denom) chain.Coins. An amount of 0 means "no such coin".
func SpendOriginSeq(cur realm, to address, d1 string, a1 int64, d2 string, a2 int64, d3 string, a3 int64, d4 string, a4 int64) {
	b := banker.NewBanker(banker.BankerTypeOriginSend, cur)
	send := func(da string, aa int64, db string, ab int64) {
		var cs chain.Coins
		if aa != 0 {
			cs = append(cs, chain.Coin{da, aa})
		}
		if ab != 0 {
			cs = append(cs, chain.Coin{db, ab})
		}
		if len(cs) > 0 {
			b.SendCoins(cur.Address(), to, cs)
		}
	}
	send(d1, a1, d2, a2)
	send(d3, a3, d4, a4)
}

func Mint(cur realm, to address, amt int64) {
	banker.NewBanker(banker.BankerTypeRealmIssue, cur).IssueCoin(to, chain.CoinDenom(cur.PkgPath(), "coin"), amt)
}
func Burn(cur realm, from address, amt int64) {
	banker.NewBanker(banker.BankerTypeRealmIssue, cur).RemoveCoin(from, chain.CoinDenom(cur.PkgPath(), "coin"), amt)
}

func FundVault(cur realm, amt int64) {
	sub := cur.Sub("vault")
	banker.NewBanker(banker.BankerTypeRealmSend, cur).SendCoins(cur.Address(), sub.Address(), coins(amt))
}
func SpendVault(cur realm, to address, amt int64) {
	sub := cur.Sub("vault")
	banker.NewBanker(banker.BankerTypeRealmSend, sub).SendCoins(sub.Address(), to, coins(amt))
}

func Store(cur realm, n int) {
	for i := 0; i < n; i++ {
		items = append(items, "ssssssssssssssssssssssssssssssss")
	}
}
func Clear(cur realm) { items = nil }
`

const realmR = `package rly

import "gno.land/r/verif/vv"

func Deposit(cur realm) {}

// vv is entered from a realm, not from a user call
func RelayOrigin(cur realm, to address, amt int64) { vv.SpendOrigin(cross(cur), to, amt) }
func RelaySpend(cur realm, to address, amt int64)  { vv.SpendOwn(cross(cur), to, amt) }
`

var (
	A, B, C = chainx.NewKey("A"), chainx.NewKey("B"), chainx.NewKey("C")
	keys    = []chainx.Key{A, B, C}
	r       *vk.Run

	addrV     = gnolang.DerivePkgCryptoAddr(pathV)
	addrE     = gnolang.DerivePkgCryptoAddr(pathE)
	addrR     = gnolang.DerivePkgCryptoAddr(pathR)
	addrVault = gnolang.DerivePkgCryptoAddr(pathV + "#vault")
	depV      = gnolang.DeriveStorageDepositCryptoAddr(pathV)
	_         = addrR
	denomV    = "/" + pathV + ":coin"
	denomE    = "/" + pathE + ":coin"
	// a second plain denomination (split-tier, like an IBC coin): every user and realm vv hold some at genesis
	denomX = "atom"
)

func ug(n int64) std.Coins { return std.Coins{std.NewCoin("ugnot", n)} }

func gtx(msg std.Msg) std.Tx {
	return std.Tx{Msgs: []std.Msg{msg}, Fee: std.NewFee(100_000_000, std.NewCoin("ugnot", fee)), Signatures: []std.Signature{{}}}
}

// newChain: genesis with the three base realms. withRV additionally deploys (in block 1, one tx each, failures
// tolerated and recorded) the generated attacker packages of realmval.go and the caller realm vh generated from the
// ones that deployed.
func newChain(withRV bool) *chainx.Chain {
	s := chainx.Spec{Keys: keys, Fund: 1_000_000_000_000, ExtraCoins: std.Coins{std.NewCoin(denomX, 1_000_000_000)}}
	if withRV {
		s.MaxGas = -1
	}
	s.GenesisTxs = []std.Tx{
		gtx(chainx.AddPkg(A.Addr, pathE, map[string]string{"e.gno": realmE})),
		gtx(chainx.AddPkg(B.Addr, pathV, map[string]string{"v.gno": realmV})),
		gtx(chainx.AddPkg(A.Addr, pathR, map[string]string{"r.gno": realmR})),
	}
	s.Mutate = func(gs *gnoland.GnoGenesisState) {
		gs.Balances = append(gs.Balances,
			gnoland.Balance{Address: addrV, Amount: std.Coins{std.NewCoin(denomX, 3_000_000), std.NewCoin("ugnot", 5_000_000)}},
			gnoland.Balance{Address: addrE, Amount: ug(1_000_000)},
			gnoland.Balance{Address: addrVault, Amount: ug(2_000_000)})
		if withRV {
			gs.Balances = append(gs.Balances, rvBalances()...)
		}
	}
	c, err := chainx.New(memdb.NewMemDB(), s)
	if err != nil {
		r.HarnessError("chain init: %v", err)
	}
	for i, tr := range c.Init.TxResponses {
		if tr.Error != nil {
			r.HarnessError("genesis tx %d failed: %v %s", i, tr.Error, tr.Log)
		}
	}
	if withRV {
		rvDeploy(c)
	}
	return c
}

// ---- menu -------------------------------------------------------------------------------------------------------

type debit struct {
	addr  crypto.Address
	denom string
	max   int64
}

type opDef struct {
	name   string
	signer *chainx.Key
	msgs   func() []std.Msg
	opt    chainx.TxOpt
	// R2/R4: debits the op's realm code is entitled to make on addresses it owns (or burns of its own denom)
	allow []debit
	// script: what a MsgRun script (the signer's own code) additionally spends from the signer
	script int64
	// supply changes the issuing realm makes in this op
	mint map[string]int64
	// realms that spend through an OriginSend banker in this op: must not end the tx poorer
	origin []crypto.Address
	attack bool // the rules require the coin movement attempted here to be refused
	// mktx builds (and signs, possibly with the wrong key) the tx itself: hand-built messages with forged identity
	// fields. signer stays the key that really produced the signatures.
	mktx func(c *chainx.Chain) std.Tx
	// self: realm addresses whose OWN code is what runs in this op (generated attacker packages): debits of these are
	// the attacker spending its own coins; selfDenoms: denominations those realms issue themselves
	self       []crypto.Address
	selfDenoms []string
	fullScan   bool                       // observe every balance key of the store after this op
	key        string                     // stable key of the op in violation keys (default: name)
	after      func(failed, finding bool) // family bookkeeping (outcome classes)
	group      string                     // findings of ops of one group are reported under one key (minimal member + list)
	ord        int                        // position in its family (the minimal member of a group is the first one)
}

func (o *opDef) id() string {
	if o.group != "" {
		return o.group
	}
	if o.key != "" {
		return o.key
	}
	return o.name
}

func call(k *chainx.Key, send int64, path, fn string, args ...string) func() []std.Msg {
	return func() []std.Msg {
		var s std.Coins
		if send > 0 {
			s = ug(send)
		}
		return []std.Msg{chainx.Call(k.Addr, s, path, fn, args...)}
	}
}

func run(k *chainx.Key, send int64, body string) func() []std.Msg {
	return func() []std.Msg {
		var s std.Coins
		if send > 0 {
			s = ug(send)
		}
		return []std.Msg{chainx.Run(k.Addr, s, "package main\n\nimport (\n\t\"chain\"\n\t\"chain/banker\"\n\n\t\"gno.land/r/verif/att\"\n\t\"gno.land/r/verif/vv\"\n)\n\nvar _ = att.Deposit\nvar _ = vv.Deposit\nvar _ = chain.NewCoin\nvar _ = banker.NewReadonlyBanker\n\n"+body)}
	}
}

func hook(mode string) opDef {
	return opDef{name: "vv.CallHook(" + mode + ")", signer: &A, attack: mode != "noop", msgs: call(&A, 0, pathV, "CallHook", mode)}
}

var menu = []opDef{
	// plain bank traffic
	{name: "bank.send A->B 700", signer: &A, msgs: func() []std.Msg {
		return []std.Msg{bank.MsgSend{FromAddress: A.Addr, ToAddress: B.Addr, Amount: ug(700)}}
	}},
	{name: "bank.send A->B too-much", signer: &A, msgs: func() []std.Msg {
		return []std.Msg{bank.MsgSend{FromAddress: A.Addr, ToAddress: B.Addr, Amount: ug(9_000_000_000_000_000)}}
	}},
	{name: "bank.send FROM B unsigned-by-B (A's signature only)", signer: &A, attack: true, opt: chainx.TxOpt{NoSign: true}, msgs: func() []std.Msg {
		return []std.Msg{bank.MsgSend{FromAddress: B.Addr, ToAddress: A.Addr, Amount: ug(700)}}
	}},
	{name: "bank.send A->vv 900 (realm receives)", signer: &A, msgs: func() []std.Msg {
		return []std.Msg{bank.MsgSend{FromAddress: A.Addr, ToAddress: addrV, Amount: ug(900)}}
	}},
	// realm spends its own funds
	{name: "vv.SpendOwn 1000 ->C", signer: &A, msgs: call(&A, 0, pathV, "SpendOwn", C.Addr.String(), "1000"), allow: []debit{{addrV, "ugnot", 1000}}},
	{name: "att.SpendOwn 1000 ->A", signer: &A, msgs: call(&A, 0, pathE, "SpendOwn", A.Addr.String(), "1000"), allow: []debit{{addrE, "ugnot", 1000}}},
	{name: "rly.RelaySpend: vv spends own 500 when entered from rly", signer: &B, msgs: call(&B, 0, pathR, "RelaySpend", C.Addr.String(), "500"), allow: []debit{{addrV, "ugnot", 500}}},
	// attacker realm names somebody else's address as 'from'
	{name: "att.SendFrom(vv)", signer: &A, attack: true, msgs: call(&A, 0, pathE, "SendFrom", addrV.String(), A.Addr.String(), "1000")},
	{name: "att.SendFrom(user B)", signer: &A, attack: true, msgs: call(&A, 0, pathE, "SendFrom", B.Addr.String(), A.Addr.String(), "1000")},
	{name: "att.SendFrom(caller A) - the caller's own address", signer: &A, attack: true, msgs: call(&A, 0, pathE, "SendFrom", A.Addr.String(), addrE.String(), "1000")},
	{name: "att.SendFrom(vv vault)", signer: &A, attack: true, msgs: call(&A, 0, pathE, "SendFrom", addrVault.String(), A.Addr.String(), "1000")},
	{name: "att.SendFrom(vv deposit addr)", signer: &A, attack: true, msgs: call(&A, 0, pathE, "SendFrom", depV.String(), A.Addr.String(), "1000")},
	{name: "att.SendFromIssue(vv)", signer: &A, attack: true, msgs: call(&A, 0, pathE, "SendFromIssue", addrV.String(), A.Addr.String(), "1000")},
	{name: "att.SendFromOrigin(vv) with Send 1000", signer: &A, attack: true, msgs: call(&A, 1000, pathE, "SendFromOrigin", addrV.String(), A.Addr.String(), "1000")},
	// attacker code called BY the victim
	hook("noop"), hook("banker-on-previous"), hook("issue-banker-on-previous"), hook("origin-banker-on-previous"), hook("sub-of-previous"),
	hook("mint-on-previous"), hook("own-banker-from-previous"), hook("own-sub-as-previous-vault"),
	// persisted banker
	{name: "att.Keep (store own banker)", signer: &A, msgs: call(&A, 0, pathE, "Keep")},
	{name: "att.UseKept own 300 ->A", signer: &B, msgs: call(&B, 0, pathE, "UseKept", addrE.String(), A.Addr.String(), "300"), allow: []debit{{addrE, "ugnot", 300}}},
	{name: "att.UseKept from vv", signer: &A, attack: true, msgs: call(&A, 0, pathE, "UseKept", addrV.String(), A.Addr.String(), "300")},
	// origin send
	{name: "vv.SpendOrigin 400 of Send 400", signer: &A, msgs: call(&A, 400, pathV, "SpendOrigin", C.Addr.String(), "400"), allow: []debit{{addrV, "ugnot", 400}}, origin: []crypto.Address{addrV}},
	{name: "vv.SpendOrigin 401 of Send 400", signer: &A, attack: true, msgs: call(&A, 400, pathV, "SpendOrigin", A.Addr.String(), "401"), origin: []crypto.Address{addrV}},
	{name: "vv.SpendOrigin 400 without Send", signer: &A, attack: true, msgs: call(&A, 0, pathV, "SpendOrigin", A.Addr.String(), "400"), origin: []crypto.Address{addrV}},
	{name: "att.OriginSpendTwice 400+400 of Send 400", signer: &A, attack: true, msgs: call(&A, 400, pathE, "OriginSpendTwice", A.Addr.String(), "400"), origin: []crypto.Address{addrE}},
	{name: "rly.RelayOrigin: vv entered from a realm, Send 400 went to rly", signer: &A, attack: true, msgs: call(&A, 400, pathR, "RelayOrigin", A.Addr.String(), "400"), origin: []crypto.Address{addrV}},
	{name: "tx[vv.Deposit Send 400 ; vv.SpendOrigin 400 without Send]", signer: &A, attack: true, msgs: func() []std.Msg {
		return []std.Msg{chainx.Call(A.Addr, ug(400), pathV, "Deposit"), chainx.Call(A.Addr, nil, pathV, "SpendOrigin", A.Addr.String(), "400")}
	}},
	// MsgRun scripts
	{name: "run: script spends signer's own 500 ->B", signer: &A, script: 500, msgs: run(&A, 0, "func main(cur realm) {\n\tbanker.NewBanker(banker.BankerTypeRealmSend, cur).SendCoins(cur.Address(), address(\""+B.Addr.String()+"\"), chain.NewCoins(chain.NewCoin(\"ugnot\", 500)))\n}\n")},
	{name: "run: script sends from vv", signer: &A, attack: true, msgs: run(&A, 0, "func main(cur realm) {\n\tbanker.NewBanker(banker.BankerTypeRealmSend, cur).SendCoins(address(\""+addrV.String()+"\"), cur.Address(), chain.NewCoins(chain.NewCoin(\"ugnot\", 500)))\n}\n")},
	{name: "run: script sends from user B", signer: &A, attack: true, msgs: run(&A, 0, "func main(cur realm) {\n\tbanker.NewBanker(banker.BankerTypeRealmSend, cur).SendCoins(address(\""+B.Addr.String()+"\"), cur.Address(), chain.NewCoins(chain.NewCoin(\"ugnot\", 500)))\n}\n")},
	{name: "run Send 400: script calls vv.SpendOrigin 400 (Send never reached vv)", signer: &A, attack: true, origin: []crypto.Address{addrV}, msgs: run(&A, 400, "func main(cur realm) {\n\tvv.SpendOrigin(cross(cur), cur.Address(), 400)\n}\n")},
	{name: "run Send 400: script spends origin 400 then vv.SpendOrigin 400", signer: &A, attack: true, script: 400, origin: []crypto.Address{addrV}, msgs: run(&A, 400, "func main(cur realm) {\n\tbanker.NewBanker(banker.BankerTypeOriginSend, cur).SendCoins(cur.Address(), address(\""+C.Addr.String()+"\"), chain.NewCoins(chain.NewCoin(\"ugnot\", 400)))\n\tvv.SpendOrigin(cross(cur), cur.Address(), 400)\n}\n")},
	{name: "run: script mints vv's denom", signer: &A, attack: true, msgs: run(&A, 0, "func main(cur realm) {\n\tbanker.NewBanker(banker.BankerTypeRealmIssue, cur).IssueCoin(cur.Address(), \""+denomV+"\", 1000)\n}\n")},
	// realm denominations
	{name: "vv.Mint 1000 ->B", signer: &A, msgs: call(&A, 0, pathV, "Mint", B.Addr.String(), "1000"), mint: map[string]int64{denomV: 1000}},
	{name: "vv.Burn 300 from B (issuer burns)", signer: &A, msgs: call(&A, 0, pathV, "Burn", B.Addr.String(), "300"), mint: map[string]int64{denomV: -300}, allow: []debit{{B.Addr, denomV, 300}}},
	{name: "bank.send B->C 200 vv-coin (holder's own authority)", signer: &B, msgs: func() []std.Msg {
		return []std.Msg{bank.MsgSend{FromAddress: B.Addr, ToAddress: C.Addr, Amount: std.Coins{std.NewCoin(denomV, 200)}}}
	}},
	{name: "att.MintDenom own", signer: &A, msgs: call(&A, 0, pathE, "MintDenom", denomE, A.Addr.String(), "1000"), mint: map[string]int64{denomE: 1000}},
	{name: "att.MintDenom vv's", signer: &A, attack: true, msgs: call(&A, 0, pathE, "MintDenom", denomV, A.Addr.String(), "1000")},
	{name: "att.MintDenom ugnot", signer: &A, attack: true, msgs: call(&A, 0, pathE, "MintDenom", "ugnot", A.Addr.String(), "1000")},
	{name: "att.MintDenom look-alike", signer: &A, attack: true, msgs: call(&A, 0, pathE, "MintDenom", "/"+pathE+"/../vv:coin", A.Addr.String(), "1000")},
	{name: "att.BurnDenom vv's from B", signer: &A, attack: true, msgs: call(&A, 0, pathE, "BurnDenom", denomV, B.Addr.String(), "100")},
	{name: "att.BurnDenom ugnot from B", signer: &A, attack: true, msgs: call(&A, 0, pathE, "BurnDenom", "ugnot", B.Addr.String(), "100")},
	{name: "att.SendDenom vv-coin from B", signer: &A, attack: true, msgs: call(&A, 0, pathE, "SendDenom", denomV, B.Addr.String(), A.Addr.String(), "100")},
	// sub-realm vault
	{name: "vv.FundVault 600", signer: &A, msgs: call(&A, 0, pathV, "FundVault", "600"), allow: []debit{{addrV, "ugnot", 600}}},
	{name: "vv.SpendVault 250 ->C", signer: &B, msgs: call(&B, 0, pathV, "SpendVault", C.Addr.String(), "250"), allow: []debit{{addrVault, "ugnot", 250}}},
	// storage deposit lock / refund
	{name: "vv.Store 3 (deposit locked from A)", signer: &A, msgs: call(&A, 0, pathV, "Store", "3")},
	{name: "vv.Clear by C (deposit refunded to C)", signer: &C, msgs: call(&C, 0, pathV, "Clear")},
	{name: "vv.Store 3 limit 1ugnot", signer: &A, msgs: func() []std.Msg {
		m := vm.NewMsgCall(A.Addr, nil, pathV, "Store", []string{"3"})
		m.MaxDeposit = ug(1)
		return []std.Msg{m}
	}},
	{name: "call with Send: A -> att.Deposit 800", signer: &A, msgs: call(&A, 800, pathE, "Deposit")},
}

func opIndex(name string) int {
	for i, o := range menu {
		if o.name == name {
			return i
		}
	}
	panic("no op " + name)
}

// ---- observation & oracle -----------------------------------------------------------------------------------------

type obs struct {
	bal     map[crypto.Address]std.Coins
	storage [3]uint64 // recorded Storage of vv, att, rly
}

var (
	realmPaths = [3]string{pathV, pathE, pathR}
	depAddrs   = [3]crypto.Address{gnolang.DeriveStorageDepositCryptoAddr(pathV), gnolang.DeriveStorageDepositCryptoAddr(pathE), gnolang.DeriveStorageDepositCryptoAddr(pathR)}
)

// known: every address that holds coins at genesis or is named by a menu entry. Balances are read with direct
// key reads (iterators on the memdb-backed store cost O(whole DB)); conservation of the ugnot total over this set
// proves that no address outside it is involved, and ops that try to mint additionally get a full scan.
// knownAll / splitAll: the same for chains that carry the generated attacker packages (realmval.go).
var (
	known, knownAll     []crypto.Address
	splitCore, splitAll []string
	rvChains            sync.Map // *chainx.Chain -> true
)

func isRV(c *chainx.Chain) bool { _, ok := rvChains.Load(c); return ok }

func observe(c *chainx.Chain, fullScan bool) obs {
	o := obs{bal: map[crypto.Address]std.Coins{}}
	set, split := known, splitCore
	if isRV(c) {
		set, split = knownAll, splitAll
	}
	if fullScan {
		acc := c.Items("main", "/a/")
		for k, v := range c.Items("main", "/b/") {
			acc[k] = v
		}
		o.bal = chainx.Balances(acc)
		for a := range o.bal {
			if _, ok := names[a]; !ok {
				r.HarnessError("address %s outside the known set holds coins", a)
			}
		}
	} else {
		for _, a := range set {
			if cs := c.BalanceOf(a, split...); len(cs) > 0 {
				o.bal[a] = cs
			}
		}
	}
	for i, p := range realmPaths {
		if v, ok := c.ReadKey("base", chainx.RealmOIDPrefix(p)+"1#realm"); ok {
			o.storage[i] = chainx.DecodeRealm(p, map[string]string{chainx.RealmOIDPrefix(p) + "1#realm": v}).Storage
		}
	}
	return o
}

func (o obs) key() string {
	var ks []string
	for a, cs := range o.bal {
		cs2 := append(std.Coins{}, cs...)
		sort.Slice(cs2, func(i, j int) bool { return cs2[i].Denom < cs2[j].Denom })
		ks = append(ks, fmt.Sprintf("%x=%v", a[:4], cs2))
	}
	sort.Strings(ks)
	return strings.Join(ks, ";") + fmt.Sprint(o.storage)
}

func supply(o obs) map[string]int64 {
	s := map[string]int64{}
	for _, cs := range o.bal {
		for _, c := range cs {
			s[c.Denom] += c.Amount
		}
	}
	return s
}

var names = map[crypto.Address]string{}

func who(a crypto.Address) string {
	if n, ok := names[a]; ok {
		return n
	}
	return a.String()
}

type finding struct {
	key    string
	detail map[string]any
}

// msgCoins: coins the signer names in the messages (Send / bank amount), per denom
func msgCoins(msgs []std.Msg, signer crypto.Address) map[string]int64 {
	out := map[string]int64{}
	add := func(cs std.Coins) {
		for _, c := range cs {
			out[c.Denom] += c.Amount
		}
	}
	for _, m := range msgs {
		switch m := m.(type) {
		case bank.MsgSend:
			if m.FromAddress == signer {
				add(m.Amount)
			}
		case vm.MsgCall:
			if m.Caller == signer {
				add(m.Send)
			}
		case vm.MsgRun:
			if m.Caller == signer {
				add(m.Send)
			}
		case vm.MsgAddPackage:
			if m.Creator == signer {
				add(m.Send)
			}
		}
	}
	return out
}

var (
	nTx      atomic.Int64
	stateSet sync.Map
	nStates  atomic.Int64
	probe    = os.Getenv("C08_PROBE") != ""
)

func firstLine(s string) string {
	if i := strings.Index(s, "Msg Traces"); i >= 0 {
		s = s[:i]
	}
	s = strings.ReplaceAll(s, "\n", " ")
	if len(s) > 240 {
		s = s[:240]
	}
	return s
}

// knownDenoms: denominations whose total supply is tracked (everything else that appears is a finding)
var knownDenoms = map[string]bool{}

func step(c *chainx.Chain, commit bool, prev obs, op *opDef) (obs, bool, *finding) {
	var tx std.Tx
	if op.mktx != nil {
		tx = op.mktx(c)
	} else {
		opt := op.opt
		opt.GasWanted = 100_000_000
		tx = c.MakeTx(keys, op.msgs(), opt)
	}
	msgs := tx.Msgs
	if commit {
		c.BeginBlock()
	}
	tD := time.Now()
	res := c.DeliverTx(tx)
	if probe {
		fmt.Printf("  [%6.1fms]", float64(time.Since(tD).Microseconds())/1000)
	}
	if commit {
		c.EndBlockCommit()
	}
	nTx.Add(1)
	r.Eval()
	// committed steps (replays, confirmations) always scan every balance key: an earlier step of the same chain may
	// have left coins of a denomination outside the listed ones
	full := commit || op.fullScan || strings.Contains(strings.ToLower(op.name), "mint")
	cur := observe(c, full)
	if _, loaded := stateSet.LoadOrStore(cur.key(), true); !loaded {
		nStates.Add(1)
	}
	failed := res.Error != nil
	if probe {
		fmt.Printf("  %-70s failed=%v %s\n", op.name, failed, firstLine(res.Log))
	}
	// all (address, denom) decreases
	type dec struct {
		a     crypto.Address
		denom string
		d     int64
	}
	var decs []dec
	inc := map[crypto.Address]int64{} // ugnot increases
	for a, cs := range prev.bal {
		for _, co := range cs {
			if now := chainx.Amount(cur.bal[a], co.Denom); now < co.Amount {
				decs = append(decs, dec{a, co.Denom, co.Amount - now})
			}
		}
	}
	for a, cs := range cur.bal {
		if d := chainx.Amount(cs, "ugnot") - chainx.Amount(prev.bal[a], "ugnot"); d > 0 {
			inc[a] = d
		}
	}
	sort.Slice(decs, func(i, j int) bool { return who(decs[i].a)+decs[i].denom < who(decs[j].a)+decs[j].denom })
	moved := func() []string {
		var out []string
		for _, d := range decs {
			out = append(out, fmt.Sprintf("%s -%d%s", who(d.a), d.d, d.denom))
		}
		return out
	}
	class := "ok"
	if failed {
		class = "rejected"
	}
	if op.attack {
		class = "attack:" + class
	}
	r.Outcome(class)
	det := func(m map[string]any) map[string]any {
		m["op"] = op.name
		m["tx_failed"] = failed
		m["log"] = firstLine(res.Log)
		m["all_decreases"] = moved()
		return m
	}
	signer := op.signer.Addr
	named := msgCoins(msgs, signer)
	isSelf := func(a crypto.Address) bool {
		for _, s := range op.self {
			if s == a {
				return true
			}
		}
		return false
	}
	isSelfDenom := func(d string) bool {
		for _, s := range op.selfDenoms {
			if s == d {
				return true
			}
		}
		return false
	}
	for _, d := range decs {
		// R1 signer
		if d.a == signer && !op.opt.NoSign {
			allowed := named[d.denom]
			if d.denom == "ugnot" {
				allowed += fee + op.script
				if !failed {
					for _, da := range depAddrs {
						allowed += inc[da] // storage deposits actually locked in this tx
					}
				}
			}
			if failed {
				allowed = 0
				if d.denom == "ugnot" {
					allowed = fee
				}
			}
			if d.d <= allowed {
				continue
			}
			return cur, failed, &finding{"signer-debited-beyond-fee-send-deposit", det(map[string]any{"address": who(d.a), "denom": d.denom, "decrease": d.d, "covered": allowed})}
		}
		if failed {
			return cur, failed, &finding{"failed-tx-moved-coins-of:" + who(d.a), det(map[string]any{"address": who(d.a), "denom": d.denom, "decrease": d.d})}
		}
		// R2 / R4 declared by the op
		okd := isSelf(d.a)
		for _, al := range op.allow {
			if al.addr == d.a && al.denom == d.denom && d.d <= al.max {
				okd = true
			}
		}
		if okd {
			continue
		}
		// R3 storage-deposit address with storage released
		released := false
		for i, da := range depAddrs {
			if d.a == da && d.denom == "ugnot" && cur.storage[i] < prev.storage[i] {
				released = true
			}
		}
		if released {
			continue
		}
		return cur, failed, &finding{"unauthorised-debit-of:" + who(d.a), det(map[string]any{"address": who(d.a), "denom": d.denom, "decrease": d.d})}
	}
	// supply
	s0, s1 := supply(prev), supply(cur)
	var denoms []string
	for d := range knownDenoms {
		denoms = append(denoms, d)
	}
	for d := range s1 {
		if !knownDenoms[d] {
			denoms = append(denoms, d)
		}
	}
	sort.Strings(denoms)
	for _, denom := range denoms {
		if isSelfDenom(denom) {
			continue
		}
		if !knownDenoms[denom] {
			if s1[denom] == s0[denom] {
				continue // left behind by an earlier step of this chain
			}
			return cur, failed, &finding{"unknown-denom-appeared", det(map[string]any{"denom": denom, "before": s0[denom], "after": s1[denom]})}
		}
		want := s0[denom]
		if !failed {
			want += op.mint[denom]
		}
		if s1[denom] != want {
			if denom == "ugnot" {
				r.HarnessError("ugnot total over the known address set changed in %s: an address outside the set is involved", op.name)
			}
			return cur, failed, &finding{"supply-changed-without-issuer:" + denom, det(map[string]any{"denom": denom, "before": s0[denom], "after": s1[denom], "declared_by_issuer": op.mint[denom]})}
		}
	}
	// origin-send rule: in every denomination
	for _, a := range op.origin {
		for _, co := range prev.bal[a] {
			if now := chainx.Amount(cur.bal[a], co.Denom); now < co.Amount {
				return cur, failed, &finding{"origin-send-banker-spent-more-than-came-with-the-call:" + who(a), det(map[string]any{"denom": co.Denom, "before": co.Amount, "after": now})}
			}
		}
	}
	return cur, failed, nil
}

type hist []*opDef

func (h hist) String() string {
	var n []string
	for _, o := range h {
		n = append(n, o.name)
	}
	return strings.Join(n, " ; ")
}

func mhist(idx []int) hist {
	var h hist
	for _, i := range idx {
		h = append(h, &menu[i])
	}
	return h
}

func replay(h hist, withRV bool) (int, *finding) {
	c := newChain(withRV)
	prev := observe(c, true)
	for i, op := range h {
		var f *finding
		prev, _, f = step(c, true, prev, op)
		if f != nil {
			return i, f
		}
	}
	return len(h), nil
}

func report(h hist, at int, f *finding, mode string, others []string) {
	f.detail["history"] = h[:at+1].String()
	f.detail["found_by"] = mode
	if len(others) > 1 {
		f.detail["all_failing_inputs_under_this_key"] = others
	}
	r.Violation(f.key+" @ "+h[at].id(), f.detail)
}

type suspect struct {
	h    hist
	key  string
	rv   bool
	rank int // reporting order within a phase (smaller first)
	ord  int
}

var suspects sync.Map

func addSuspect(h hist, f *finding, rv bool, rank int) {
	h2 := append(hist{}, h...)
	suspects.Store(h2.String(), suspect{h2, f.key + " @ " + h2[len(h2)-1].id(), rv, rank, h2[len(h2)-1].ord})
}

func dfs(c *chainx.Chain, h hist, prev obs, depth int) {
	if len(h) == depth || r.Expired() {
		return
	}
	for oi := range menu {
		pop := c.Push()
		cur, _, f := step(c, false, prev, &menu[oi])
		h2 := append(append(hist{}, h...), &menu[oi])
		if f != nil {
			addSuspect(h2, f, false, 1000)
		} else {
			dfs(c, h2, cur, depth)
		}
		pop()
	}
}

// flat: every op of ops after each of the given prefixes (histories of base ops), each on a snapshot of ONE chain
func flat(c *chainx.Chain, prefixes []hist, ops []*opDef, rank int) (done int) {
	for _, pre := range prefixes {
		popPre := c.Push()
		prev := observe(c, false)
		okPre := true
		for _, op := range pre {
			var f *finding
			prev, _, f = step(c, false, prev, op)
			if f != nil {
				addSuspect(pre, f, isRV(c), rank)
				okPre = false
				break
			}
		}
		for _, op := range ops {
			if !okPre || r.Expired() {
				break
			}
			pop := c.Push()
			_, failed, f := step(c, false, prev, op)
			if f != nil {
				addSuspect(append(append(hist{}, pre...), op), f, isRV(c), rank)
			}
			if op.after != nil {
				op.after(failed, f != nil)
			}
			pop()
			done++
		}
		popPre()
	}
	return done
}

func main() {
	debug.SetGCPercent(400)
	r = vk.New("model_checking")
	if pf := os.Getenv("C08_PROF"); pf != "" {
		f, _ := os.Create(pf)
		time.AfterFunc(60*time.Second, func() {
			pprof.StartCPUProfile(f)
			time.AfterFunc(40*time.Second, func() { pprof.StopCPUProfile(); f.Close(); os.Exit(3) })
		})
	}
	r.SetBudget(150*time.Second, 25*time.Minute)
	names[A.Addr], names[B.Addr], names[C.Addr] = "user A", "user B", "user C"
	names[addrV], names[addrE], names[addrR], names[addrVault] = "realm vv", "realm att", "realm rly", "vv#vault"
	names[depAddrs[0]], names[depAddrs[1]], names[depAddrs[2]] = "vv storage-deposit", "att storage-deposit", "rly storage-deposit"
	names[crypto.AddressFromPreimage([]byte("fee_collector"))] = "fee collector"
	names[crypto.AddressFromPreimage([]byte("storage_fee_collector"))] = "storage fee collector"
	names[gnolang.DerivePkgCryptoAddr(pathE+"#vault")] = "att#vault"
	names[gnolang.DerivePkgCryptoAddr("gno.land/r/verif/fx")] = "realm fx (forged MsgAddPackage)"
	names[gnolang.DeriveStorageDepositCryptoAddr("gno.land/r/verif/fx")] = "fx storage-deposit"
	for a := range names {
		known = append(known, a)
	}
	splitCore = []string{denomV, denomE, denomX}
	for _, d := range []string{"ugnot", denomV, denomE, denomX} {
		knownDenoms[d] = true
	}
	rvInit() // adds the generated packages' addresses to names, knownAll, splitAll, knownDenoms
	byAddr := func(s []crypto.Address) {
		sort.Slice(s, func(i, j int) bool { return string(s[i][:]) < string(s[j][:]) })
	}
	byAddr(known)
	byAddr(knownAll)
	menu = append(menu, menuExtra()...)

	if probe {
		probeMain()
	}

	// quick: every history of <=2 txs, and every history of 3 txs whose first tx is one of the state-setting ops
	// (a later tx can only behave differently after something was minted / stored / kept / funded); thorough: all of length 3
	setters := map[int]bool{}
	for _, n := range []string{"vv.Mint 1000 ->B", "att.Keep (store own banker)", "vv.Store 3 (deposit locked from A)"} {
		setters[opIndex(n)] = true
	}
	t0 := time.Now()
	pool := make(chan *chainx.Chain, 64)
	first := newChain(false)
	first.BeginBlock()
	fmt.Printf("warm-up chain: %.1fs, menu %d\n", time.Since(t0).Seconds(), len(menu))
	var created atomic.Int64
	created.Store(1)

	// (0) the three single-transaction families, each op from a snapshot of ONE chain (they run first: small, and the
	// box may be too loaded for the history search below to finish): generated attacker programs handling realm
	// values (own chain with the generated packages), forged identity fields, the origin-send denomination matrix.
	var wg sync.WaitGroup
	var famDone, famTotal atomic.Int64
	fam := func(mk func() *chainx.Chain, prefixes []hist, ops []*opDef, rank int) {
		famTotal.Add(int64(len(prefixes) * len(ops)))
		wg.Add(1)
		go func() {
			defer wg.Done()
			tc := time.Now()
			c := mk()
			tf := time.Now()
			famDone.Add(int64(flat(c, prefixes, ops, rank)))
			fmt.Printf("  family rank %d: chain %.1fs, %d ops x %d prefixes %.1fs\n", rank, tf.Sub(tc).Seconds(), len(ops), len(prefixes), time.Since(tf).Seconds())
			if !isRV(c) {
				pool <- c
			}
		}()
	}
	plain := func() *chainx.Chain {
		created.Add(1)
		c := newChain(false)
		c.BeginBlock()
		return c
	}
	withRV := func() *chainx.Chain {
		c := newChain(true)
		c.BeginBlock()
		return c
	}
	rvops, fops, oops := rvOps(), forgeOps(), originOps(r.Thorough())
	for _, fam := range [][]*opDef{rvops, fops, oops} {
		for i, op := range fam {
			op.ord = i
		}
	}
	split := func(ops []*opDef, n int, f func(part []*opDef)) {
		for i := 0; i < n; i++ {
			f(ops[i*len(ops)/n : (i+1)*len(ops)/n])
		}
	}
	split(rvops, 3, func(part []*opDef) { fam(withRV, []hist{{}}, part, 0) })
	fam(func() *chainx.Chain { return first }, []hist{{}, mhist([]int{opIndex("bank.send B->C 200 ugnot (B's key becomes known)")})}, fops, 1)
	minted := []hist{mhist([]int{opIndex("vv.Mint 1000 ->vv (realm holds its own denomination)")})}
	split(oops, 4, func(part []*opDef) { fam(plain, minted, part, 2) })
	wg.Wait()
	fmt.Printf("generated attacker packages: %d of %d deployed\n", rvDeployedCount(), len(rvKinds))
	fmt.Printf("single-tx families done at %.1fs: %d generated-program ops, %d forged-message ops x2 states, %d origin-send programs\n", time.Since(t0).Seconds(), len(rvops), len(fops), len(oops))

	// (1) replay mode: fresh chain, one tx per block, real commits: every single op, and a fixed set of 3-tx stories
	var rjobs []hist
	for i := range menu {
		rjobs = append(rjobs, mhist([]int{i}))
	}
	stories := [][]string{
		{"vv.Mint 1000 ->B", "att.BurnDenom vv's from B", "vv.Burn 300 from B (issuer burns)"},
		{"att.Keep (store own banker)", "att.UseKept from vv", "att.UseKept own 300 ->A"},
		{"vv.Store 3 (deposit locked from A)", "att.SendFrom(vv deposit addr)", "vv.Clear by C (deposit refunded to C)"},
		{"vv.FundVault 600", "vv.CallHook(sub-of-previous)", "vv.SpendVault 250 ->C"},
		{"call with Send: A -> att.Deposit 800", "att.OriginSpendTwice 400+400 of Send 400", "att.SpendOwn 1000 ->A"},
	}
	if r.Quick() {
		rjobs = rjobs[:0]
	}
	if r.Quick() {
		stories = stories[:3]
	}
	for _, s := range stories {
		var h []int
		for _, n := range s {
			h = append(h, opIndex(n))
		}
		rjobs = append(rjobs, mhist(h))
	}
	var rdone atomic.Int64
	sem := make(chan struct{}, 4) // chain creation is memory-bandwidth bound
	r.ParFor(len(rjobs), func(i int) {
		sem <- struct{}{}
		defer func() { <-sem }()
		if at, f := replay(rjobs[i], false); f != nil {
			report(rjobs[i], at, f, "replay", nil)
		}
		r.Distinct("replay" + rjobs[i].String())
		rdone.Add(1)
	})

	// (2) DFS mode
	type pj struct {
		p     []int
		depth int
	}
	var prefixes []pj
	for i := range menu {
		if r.Thorough() || setters[i] {
			for j := range menu {
				prefixes = append(prefixes, pj{[]int{i, j}, 3})
			}
		} else {
			prefixes = append(prefixes, pj{[]int{i}, 2})
		}
	}
	sort.SliceStable(prefixes, func(i, j int) bool { return len(prefixes[i].p) > len(prefixes[j].p) })
	fmt.Printf("replay phase done at %.1fs\n", time.Since(t0).Seconds())
	var ddone atomic.Int64
	r.ParFor(len(prefixes), func(i int) {
		var c *chainx.Chain
		select {
		case c = <-pool:
		default:
			if created.Add(1) <= 7 {
				c = newChain(false)
				c.BeginBlock()
			} else {
				c = <-pool
			}
		}
		defer func() { pool <- c }()
		pop := c.Push()
		defer pop()
		prev := observe(c, false)
		var h hist
		for _, oi := range prefixes[i].p {
			var f *finding
			prev, _, f = step(c, false, prev, &menu[oi])
			h = append(h, &menu[oi])
			if f != nil {
				addSuspect(h, f, false, 1000)
				ddone.Add(1)
				return
			}
		}
		dfs(c, h, prev, prefixes[i].depth)
		r.Distinct("dfs" + fmt.Sprint(prefixes[i].p))
		ddone.Add(1)
	})
	fmt.Printf("dfs phase done at %.1fs\n", time.Since(t0).Seconds())
	var sus []suspect
	suspects.Range(func(_, v any) bool { sus = append(sus, v.(suspect)); return true })
	sort.Slice(sus, func(i, j int) bool {
		if sus[i].rank != sus[j].rank {
			return sus[i].rank < sus[j].rank
		}
		if len(sus[i].h) != len(sus[j].h) {
			return len(sus[i].h) < len(sus[j].h)
		}
		if sus[i].ord != sus[j].ord {
			return sus[i].ord < sus[j].ord
		}
		return sus[i].h.String() < sus[j].h.String()
	})
	// the shortest history of each distinct finding key is confirmed on a fresh chain with one tx per block and real
	// commits; the families with many members per root cause confirm a bounded number and list the rest unconfirmed
	seenKey := map[string]bool{}
	members := map[string][]string{}
	for _, s := range sus {
		members[s.key] = append(members[s.key], s.h.String())
	}
	// Confirmation with real commits (one tx per block). Family findings (single-tx programs after a fixed prefix) are
	// confirmed one after the other on ONE fresh chain per family; findings of the history search each get their own
	// fresh chain (at most 12).
	confirmChains := map[int]*chainx.Chain{}
	confirmObs := map[int]obs{}
	applied := map[string]bool{}
	nReplayed := 0
	for _, s := range sus {
		if seenKey[s.key] {
			continue
		}
		seenKey[s.key] = true
		if s.rank < 1000 {
			c, ok := confirmChains[s.rank]
			if !ok {
				c = newChain(s.rv)
				confirmChains[s.rank] = c
				confirmObs[s.rank] = observe(c, true)
			}
			prev := confirmObs[s.rank]
			pre, last := s.h[:len(s.h)-1], s.h[len(s.h)-1]
			if pk := fmt.Sprint(s.rank, pre.String()); !applied[pk] {
				applied[pk] = true
				for _, op := range pre {
					prev, _, _ = step(c, true, prev, op)
				}
			}
			cur, _, f := step(c, true, prev, last)
			confirmObs[s.rank] = cur
			if f != nil {
				report(s.h, len(s.h)-1, f, "snapshot mode, confirmed with real commits (one tx per block) on a fresh chain", members[s.key])
				continue
			}
		} else if nReplayed >= 12 {
			r.Violation(s.key, map[string]any{"history": s.h.String(), "all_failing_inputs_under_this_key": members[s.key], "found_by": "snapshot mode (not replayed: replay limit)"})
			continue
		}
		nReplayed++
		at, f := replay(s.h, s.rv)
		if f == nil {
			r.HarnessError("finding of snapshot (rollback) mode not reproduced with real commits: %s", s.h.String())
		}
		report(s.h, at, f, "snapshot mode, confirmed by replay with real commits", members[s.key])
	}
	nAttack := 0
	for _, o := range menu {
		if o.attack {
			nAttack++
		}
	}
	r.Sample(map[string]any{"history": "vv.CallHook(banker-on-previous)", "meaning": "the victim realm calls out to attacker code; the attacker builds a banker on cur.Previous() to drain its caller"})
	r.Sample(map[string]any{"history": "vv.Store 3 ; att.SendFrom(vv deposit addr) ; vv.Clear by C", "meaning": "the storage-deposit address may only be debited when the realm's storage is released"})
	r.Sample(map[string]any{"generated_attacker_program": rvops[len(rvops)/3].name, "meaning": "transform:source-of-the-realm-value:use:entry:victim — e.g. a struct embedding the realm interface with Address() overridden, passed to NewBanker"})
	r.Sample(map[string]any{"forged_message": fops[len(fops)/2].name})
	r.Sample(map[string]any{"origin_send_program": oops[len(oops)/2].name})
	r.Assumptions = []string{
		"which realm's own code spends in an op (reasons R2/R4) is declared per menu entry together with the amount; every other decrease must be explained by the tx itself (signer: fee + named coins + deposit locked; deposit address: storage released); in the generated attacker programs only the attacker package's own address may be debited by its code",
		"DFS mode keeps one block open and rolls back with a cache-wrap snapshot; single ops (thorough), three (thorough: five) 3-tx stories and every finding are replayed on fresh chains with one tx per block and real commits",
		"balances are re-derived from raw store bytes (account objects + split-tier balance keys) for every address in the store",
		"the three single-transaction families (generated attacker programs, forged messages, origin-send matrix) are explored at depth 1 from fixed base states; a representative subset of the latter two is also part of the history menu",
	}
	depth := "<=2 txs, and of 3 txs after each of 3 state-setting first txs (mint, keep a banker, store),"
	if r.Thorough() {
		depth = "<=3 txs"
	}
	r.Finish(fmt.Sprintf("every history of %s over a %d-op menu (%d of them attempts to move, mint or burn somebody else's coins) on the real app, plus three exhaustive single-transaction families: %d generated attacker programs handling realm values (transform x source x use x entry x victim), %d hand-built messages with forged identity fields x 2 states, %d multi-denomination origin-send programs; after every tx each balance decrease of any address in any denom must have one of the four permitted reasons; distinct = DFS subtrees + replayed histories + family members", depth, len(menu), nAttack, len(rvops), len(fops), len(oops)),
		rdone.Load() == int64(len(rjobs)) && ddone.Load() == int64(len(prefixes)) && famDone.Load() == famTotal.Load(),
		map[string]any{"states": nStates.Load(), "transitions": nTx.Load(), "traces_validated_against_impl": nTx.Load(), "menu": len(menu), "attack_ops": nAttack, "replayed": len(rjobs),
			"generated_attacker_programs": len(rvops), "generated_packages": rvDeployReport(), "forged_message_ops": len(fops), "origin_send_programs": len(oops)})
}

func probeMain() {
	c := newChain(false)
	c.BeginBlock()
	prev := observe(c, true)
	sel := os.Getenv("C08_PROBE")
	if sel == "menu" || sel == "1" {
		for oi := range menu {
			var f *finding
			prev, _, f = step(c, false, prev, &menu[oi])
			if f != nil {
				fmt.Println("    FINDING", f.key, f.detail)
			}
		}
	}
	run1 := func(c *chainx.Chain, pre hist, ops []*opDef) {
		pop0 := c.Push()
		prev := observe(c, false)
		for _, op := range pre {
			prev, _, _ = step(c, false, prev, op)
		}
		for _, op := range ops {
			pop := c.Push()
			_, _, f := step(c, false, prev, op)
			if f != nil {
				fmt.Println("    FINDING", f.key+" @ "+op.id(), f.detail["all_decreases"])
			}
			pop()
		}
		pop0()
	}
	if sel == "forge" || sel == "1" {
		run1(c, nil, forgeOps())
		run1(c, mhist([]int{opIndex("bank.send B->C 200 ugnot (B's key becomes known)")}), forgeOps())
	}
	if sel == "origin" || sel == "1" {
		run1(c, mhist([]int{opIndex("vv.Mint 1000 ->vv (realm holds its own denomination)")}), originOps(false))
	}
	if sel == "rv" || sel == "1" {
		rc := newChain(true)
		fmt.Println("generated packages:", rvDeployReport())
		rc.BeginBlock()
		run1(rc, nil, rvOps())
	}
	r.Finish("probe", false, map[string]any{"states": nStates.Load(), "transitions": nTx.Load(), "traces_validated_against_impl": nTx.Load()})
}
