// C08: coins leave an address only with that address's authority.
//
// Real gno.land app (engine chainx). Histories of <=3 transactions over a menu of bank sends, MsgCall/MsgRun with
// Send, and calls into three purpose-built realms (vv = a realm holding funds, issuing a denomination and keeping
// a sub-realm vault; att = an attacker realm; rly = a relay realm), explored depth-first in one open block with
// cache-wrap snapshot/rollback; a subset is replayed on fresh chains with one tx per block and real commits.
//
// Oracle after EVERY tx, computed from the tx and the raw store only: every (address, denom) whose balance
// decreased must have one of the statement's reasons:
//
//	R1 the address signed the tx and the decrease is covered by fee + coins named in the messages (Send / bank
//	   amount) + storage deposits actually locked in this tx (+ what a MsgRun script, the signer's own code, spends)
//	R2 the address is a realm (or sub-realm) address and the op is one in which THAT realm's own code spends it
//	   through a banker it made for itself (declared per op, with the amount)
//	R3 the address is a realm's storage-deposit address and that realm's recorded Storage decreased in this tx
//	R4 the denom is a realm denomination and the op is one in which its issuing realm burns it
//
// plus: a failed tx moves nothing but the signer's fee; a realm spending through an OriginSend banker never ends the
// tx with less than it had before (it can only pass on what came with the call); the total supply of a realm
// denomination changes only in ops where the issuing realm mints/burns; ugnot supply never changes.
package main

import (
	"fmt"
	"os"
	"runtime/debug"
	"runtime/pprof"
	"sort"
	"strings"
	"sync"
	"sync/atomic"
	"time"

	"github.com/gnolang/gno/gno.land/pkg/gnoland"
	"github.com/gnolang/gno/gno.land/pkg/sdk/vm"
	"github.com/gnolang/gno/gnovm/pkg/gnolang"
	"github.com/gnolang/gno/tm2/pkg/crypto"
	"github.com/gnolang/gno/tm2/pkg/db/memdb"
	"github.com/gnolang/gno/tm2/pkg/sdk/bank"
	"github.com/gnolang/gno/tm2/pkg/std"
	"verif/engine/chainx"
	"verif/engine/vk"
)

const (
	pathV = "gno.land/r/verif/vv"
	pathE = "gno.land/r/verif/att"
	pathR = "gno.land/r/verif/rly"
	fee   = int64(1_000_000)
)

const realmE = `package att

import (
	"chain"
	"chain/banker"
)

var kept banker.Banker

func coins(amt int64) chain.Coins { return chain.NewCoins(chain.NewCoin("ugnot", amt)) }

func Deposit(cur realm) {}

func SpendOwn(cur realm, to address, amt int64) {
	banker.NewBanker(banker.BankerTypeRealmSend, cur).SendCoins(cur.Address(), to, coins(amt))
}

// from is somebody else's address
func SendFrom(cur realm, from, to address, amt int64) {
	banker.NewBanker(banker.BankerTypeRealmSend, cur).SendCoins(from, to, coins(amt))
}
func SendFromIssue(cur realm, from, to address, amt int64) {
	banker.NewBanker(banker.BankerTypeRealmIssue, cur).SendCoins(from, to, coins(amt))
}
func SendFromOrigin(cur realm, from, to address, amt int64) {
	banker.NewBanker(banker.BankerTypeOriginSend, cur).SendCoins(from, to, coins(amt))
}

// called BY the victim realm: cur.Previous() is the victim
func Hook(cur realm, mode string) {
	prev := cur.Previous()
	me := cur.Address()
	switch mode {
	case "banker-on-previous":
		banker.NewBanker(banker.BankerTypeRealmSend, prev).SendCoins(prev.Address(), me, coins(1000))
	case "issue-banker-on-previous":
		banker.NewBanker(banker.BankerTypeRealmIssue, prev).SendCoins(prev.Address(), me, coins(1000))
	case "origin-banker-on-previous":
		banker.NewBanker(banker.BankerTypeOriginSend, prev).SendCoins(prev.Address(), me, coins(1000))
	case "sub-of-previous":
		s := prev.Sub("vault")
		banker.NewBanker(banker.BankerTypeRealmSend, s).SendCoins(s.Address(), me, coins(1000))
	case "mint-on-previous":
		banker.NewBanker(banker.BankerTypeRealmIssue, prev).IssueCoin(me, chain.CoinDenom(prev.PkgPath(), "coin"), 1000)
	case "own-banker-from-previous":
		banker.NewBanker(banker.BankerTypeRealmSend, cur).SendCoins(prev.Address(), me, coins(1000))
	case "own-sub-as-previous-vault":
		s := cur.Sub("vault")
		banker.NewBanker(banker.BankerTypeRealmSend, s).SendCoins(prev.Address(), me, coins(1000))
	case "noop":
	}
}

func MintDenom(cur realm, denom string, to address, amt int64) {
	banker.NewBanker(banker.BankerTypeRealmIssue, cur).IssueCoin(to, denom, amt)
}
func BurnDenom(cur realm, denom string, from address, amt int64) {
	banker.NewBanker(banker.BankerTypeRealmIssue, cur).RemoveCoin(from, denom, amt)
}
func SendDenom(cur realm, denom string, from, to address, amt int64) {
	banker.NewBanker(banker.BankerTypeRealmSend, cur).SendCoins(from, to, chain.NewCoins(chain.NewCoin(denom, amt)))
}

func OriginSpend(cur realm, to address, amt int64) {
	banker.NewBanker(banker.BankerTypeOriginSend, cur).SendCoins(cur.Address(), to, coins(amt))
}
func OriginSpendTwice(cur realm, to address, amt int64) {
	b := banker.NewBanker(banker.BankerTypeOriginSend, cur)
	b.SendCoins(cur.Address(), to, coins(amt))
	b2 := banker.NewBanker(banker.BankerTypeOriginSend, cur)
	b2.SendCoins(cur.Address(), to, coins(amt))
}

func Keep(cur realm) { kept = banker.NewBanker(banker.BankerTypeRealmSend, cur) }
func UseKept(cur realm, from, to address, amt int64) { kept.SendCoins(from, to, coins(amt)) }
`

const realmV = `package vv

import (
	"chain"
	"chain/banker"

	"gno.land/r/verif/att"
)

var items []string

func coins(amt int64) chain.Coins { return chain.NewCoins(chain.NewCoin("ugnot", amt)) }

func Deposit(cur realm) {}

func SpendOwn(cur realm, to address, amt int64) {
	banker.NewBanker(banker.BankerTypeRealmSend, cur).SendCoins(cur.Address(), to, coins(amt))
}

// a token-hook style callout: attacker code runs with vv as its caller
func CallHook(cur realm, mode string) { att.Hook(cross(cur), mode) }

// "pass on what came with the call"
func SpendOrigin(cur realm, to address, amt int64) {
	banker.NewBanker(banker.BankerTypeOriginSend, cur).SendCoins(cur.Address(), to, coins(amt))
}

func Mint(cur realm, to address, amt int64) {
	banker.NewBanker(banker.BankerTypeRealmIssue, cur).IssueCoin(to, chain.CoinDenom(cur.PkgPath(), "coin"), amt)
}
func Burn(cur realm, from address, amt int64) {
	banker.NewBanker(banker.BankerTypeRealmIssue, cur).RemoveCoin(from, chain.CoinDenom(cur.PkgPath(), "coin"), amt)
}

func FundVault(cur realm, amt int64) {
	sub := cur.Sub("vault")
	banker.NewBanker(banker.BankerTypeRealmSend, cur).SendCoins(cur.Address(), sub.Address(), coins(amt))
}
func SpendVault(cur realm, to address, amt int64) {
	sub := cur.Sub("vault")
	banker.NewBanker(banker.BankerTypeRealmSend, sub).SendCoins(sub.Address(), to, coins(amt))
}

func Store(cur realm, n int) {
	for i := 0; i < n; i++ {
		items = append(items, "ssssssssssssssssssssssssssssssss")
	}
}
func Clear(cur realm) { items = nil }
`

const realmR = `package rly

import "gno.land/r/verif/vv"

func Deposit(cur realm) {}

// vv is entered from a realm, not from a user call
func RelayOrigin(cur realm, to address, amt int64) { vv.SpendOrigin(cross(cur), to, amt) }
func RelaySpend(cur realm, to address, amt int64)  { vv.SpendOwn(cross(cur), to, amt) }
`

var (
	A, B, C = chainx.NewKey("A"), chainx.NewKey("B"), chainx.NewKey("C")
	keys    = []chainx.Key{A, B, C}
	r       *vk.Run

	addrV     = gnolang.DerivePkgCryptoAddr(pathV)
	addrE     = gnolang.DerivePkgCryptoAddr(pathE)
	addrR     = gnolang.DerivePkgCryptoAddr(pathR)
	addrVault = gnolang.DerivePkgCryptoAddr(pathV + "#vault")
	depV      = gnolang.DeriveStorageDepositCryptoAddr(pathV)
	_         = addrR
	denomV    = "/" + pathV + ":coin"
	denomE    = "/" + pathE + ":coin"
)

func ug(n int64) std.Coins { return std.Coins{std.NewCoin("ugnot", n)} }

func gtx(msg std.Msg) std.Tx {
	return std.Tx{Msgs: []std.Msg{msg}, Fee: std.NewFee(100_000_000, std.NewCoin("ugnot", fee)), Signatures: []std.Signature{{}}}
}

func newChain() *chainx.Chain {
	s := chainx.Spec{Keys: keys, Fund: 1_000_000_000_000}
	s.GenesisTxs = []std.Tx{
		gtx(chainx.AddPkg(A.Addr, pathE, map[string]string{"e.gno": realmE})),
		gtx(chainx.AddPkg(B.Addr, pathV, map[string]string{"v.gno": realmV})),
		gtx(chainx.AddPkg(A.Addr, pathR, map[string]string{"r.gno": realmR})),
	}
	s.Mutate = func(gs *gnoland.GnoGenesisState) {
		gs.Balances = append(gs.Balances,
			gnoland.Balance{Address: addrV, Amount: ug(5_000_000)},
			gnoland.Balance{Address: addrE, Amount: ug(1_000_000)},
			gnoland.Balance{Address: addrVault, Amount: ug(2_000_000)})
	}
	c, err := chainx.New(memdb.NewMemDB(), s)
	if err != nil {
		r.HarnessError("chain init: %v", err)
	}
	for i, tr := range c.Init.TxResponses {
		if tr.Error != nil {
			r.HarnessError("genesis tx %d failed: %v %s", i, tr.Error, tr.Log)
		}
	}
	return c
}

// ---- menu -------------------------------------------------------------------------------------------------------

type debit struct {
	addr  crypto.Address
	denom string
	max   int64
}

type opDef struct {
	name   string
	signer *chainx.Key
	msgs   func() []std.Msg
	opt    chainx.TxOpt
	// R2/R4: debits the op's realm code is entitled to make on addresses it owns (or burns of its own denom)
	allow []debit
	// script: what a MsgRun script (the signer's own code) additionally spends from the signer
	script int64
	// supply changes the issuing realm makes in this op
	mint map[string]int64
	// realms that spend through an OriginSend banker in this op: must not end the tx poorer
	origin []crypto.Address
	attack bool // the rules require the coin movement attempted here to be refused
}

func call(k *chainx.Key, send int64, path, fn string, args ...string) func() []std.Msg {
	return func() []std.Msg {
		var s std.Coins
		if send > 0 {
			s = ug(send)
		}
		return []std.Msg{chainx.Call(k.Addr, s, path, fn, args...)}
	}
}

func run(k *chainx.Key, send int64, body string) func() []std.Msg {
	return func() []std.Msg {
		var s std.Coins
		if send > 0 {
			s = ug(send)
		}
		return []std.Msg{chainx.Run(k.Addr, s, "package main\n\nimport (\n\t\"chain\"\n\t\"chain/banker\"\n\n\t\"gno.land/r/verif/att\"\n\t\"gno.land/r/verif/vv\"\n)\n\nvar _ = att.Deposit\nvar _ = vv.Deposit\nvar _ = chain.NewCoin\nvar _ = banker.NewReadonlyBanker\n\n"+body)}
	}
}

func hook(mode string) opDef {
	return opDef{name: "vv.CallHook(" + mode + ")", signer: &A, attack: mode != "noop", msgs: call(&A, 0, pathV, "CallHook", mode)}
}

var menu = []opDef{
	// plain bank traffic
	{name: "bank.send A->B 700", signer: &A, msgs: func() []std.Msg {
		return []std.Msg{bank.MsgSend{FromAddress: A.Addr, ToAddress: B.Addr, Amount: ug(700)}}
	}},
	{name: "bank.send A->B too-much", signer: &A, msgs: func() []std.Msg {
		return []std.Msg{bank.MsgSend{FromAddress: A.Addr, ToAddress: B.Addr, Amount: ug(9_000_000_000_000_000)}}
	}},
	{name: "bank.send FROM B unsigned-by-B (A's signature only)", signer: &A, attack: true, opt: chainx.TxOpt{NoSign: true}, msgs: func() []std.Msg {
		return []std.Msg{bank.MsgSend{FromAddress: B.Addr, ToAddress: A.Addr, Amount: ug(700)}}
	}},
	{name: "bank.send A->vv 900 (realm receives)", signer: &A, msgs: func() []std.Msg {
		return []std.Msg{bank.MsgSend{FromAddress: A.Addr, ToAddress: addrV, Amount: ug(900)}}
	}},
	// realm spends its own funds
	{name: "vv.SpendOwn 1000 ->C", signer: &A, msgs: call(&A, 0, pathV, "SpendOwn", C.Addr.String(), "1000"), allow: []debit{{addrV, "ugnot", 1000}}},
	{name: "att.SpendOwn 1000 ->A", signer: &A, msgs: call(&A, 0, pathE, "SpendOwn", A.Addr.String(), "1000"), allow: []debit{{addrE, "ugnot", 1000}}},
	{name: "rly.RelaySpend: vv spends own 500 when entered from rly", signer: &B, msgs: call(&B, 0, pathR, "RelaySpend", C.Addr.String(), "500"), allow: []debit{{addrV, "ugnot", 500}}},
	// attacker realm names somebody else's address as 'from'
	{name: "att.SendFrom(vv)", signer: &A, attack: true, msgs: call(&A, 0, pathE, "SendFrom", addrV.String(), A.Addr.String(), "1000")},
	{name: "att.SendFrom(user B)", signer: &A, attack: true, msgs: call(&A, 0, pathE, "SendFrom", B.Addr.String(), A.Addr.String(), "1000")},
	{name: "att.SendFrom(caller A) - the caller's own address", signer: &A, attack: true, msgs: call(&A, 0, pathE, "SendFrom", A.Addr.String(), addrE.String(), "1000")},
	{name: "att.SendFrom(vv vault)", signer: &A, attack: true, msgs: call(&A, 0, pathE, "SendFrom", addrVault.String(), A.Addr.String(), "1000")},
	{name: "att.SendFrom(vv deposit addr)", signer: &A, attack: true, msgs: call(&A, 0, pathE, "SendFrom", depV.String(), A.Addr.String(), "1000")},
	{name: "att.SendFromIssue(vv)", signer: &A, attack: true, msgs: call(&A, 0, pathE, "SendFromIssue", addrV.String(), A.Addr.String(), "1000")},
	{name: "att.SendFromOrigin(vv) with Send 1000", signer: &A, attack: true, msgs: call(&A, 1000, pathE, "SendFromOrigin", addrV.String(), A.Addr.String(), "1000")},
	// attacker code called BY the victim
	hook("noop"), hook("banker-on-previous"), hook("issue-banker-on-previous"), hook("origin-banker-on-previous"), hook("sub-of-previous"),
	hook("mint-on-previous"), hook("own-banker-from-previous"), hook("own-sub-as-previous-vault"),
	// persisted banker
	{name: "att.Keep (store own banker)", signer: &A, msgs: call(&A, 0, pathE, "Keep")},
	{name: "att.UseKept own 300 ->A", signer: &B, msgs: call(&B, 0, pathE, "UseKept", addrE.String(), A.Addr.String(), "300"), allow: []debit{{addrE, "ugnot", 300}}},
	{name: "att.UseKept from vv", signer: &A, attack: true, msgs: call(&A, 0, pathE, "UseKept", addrV.String(), A.Addr.String(), "300")},
	// origin send
	{name: "vv.SpendOrigin 400 of Send 400", signer: &A, msgs: call(&A, 400, pathV, "SpendOrigin", C.Addr.String(), "400"), allow: []debit{{addrV, "ugnot", 400}}, origin: []crypto.Address{addrV}},
	{name: "vv.SpendOrigin 401 of Send 400", signer: &A, attack: true, msgs: call(&A, 400, pathV, "SpendOrigin", A.Addr.String(), "401"), origin: []crypto.Address{addrV}},
	{name: "vv.SpendOrigin 400 without Send", signer: &A, attack: true, msgs: call(&A, 0, pathV, "SpendOrigin", A.Addr.String(), "400"), origin: []crypto.Address{addrV}},
	{name: "att.OriginSpendTwice 400+400 of Send 400", signer: &A, attack: true, msgs: call(&A, 400, pathE, "OriginSpendTwice", A.Addr.String(), "400"), origin: []crypto.Address{addrE}},
	{name: "rly.RelayOrigin: vv entered from a realm, Send 400 went to rly", signer: &A, attack: true, msgs: call(&A, 400, pathR, "RelayOrigin", A.Addr.String(), "400"), origin: []crypto.Address{addrV}},
	{name: "tx[vv.Deposit Send 400 ; vv.SpendOrigin 400 without Send]", signer: &A, attack: true, msgs: func() []std.Msg {
		return []std.Msg{chainx.Call(A.Addr, ug(400), pathV, "Deposit"), chainx.Call(A.Addr, nil, pathV, "SpendOrigin", A.Addr.String(), "400")}
	}},
	// MsgRun scripts
	{name: "run: script spends signer's own 500 ->B", signer: &A, script: 500, msgs: run(&A, 0, "func main(cur realm) {\n\tbanker.NewBanker(banker.BankerTypeRealmSend, cur).SendCoins(cur.Address(), address(\""+B.Addr.String()+"\"), chain.NewCoins(chain.NewCoin(\"ugnot\", 500)))\n}\n")},
	{name: "run: script sends from vv", signer: &A, attack: true, msgs: run(&A, 0, "func main(cur realm) {\n\tbanker.NewBanker(banker.BankerTypeRealmSend, cur).SendCoins(address(\""+addrV.String()+"\"), cur.Address(), chain.NewCoins(chain.NewCoin(\"ugnot\", 500)))\n}\n")},
	{name: "run: script sends from user B", signer: &A, attack: true, msgs: run(&A, 0, "func main(cur realm) {\n\tbanker.NewBanker(banker.BankerTypeRealmSend, cur).SendCoins(address(\""+B.Addr.String()+"\"), cur.Address(), chain.NewCoins(chain.NewCoin(\"ugnot\", 500)))\n}\n")},
	{name: "run Send 400: script calls vv.SpendOrigin 400 (Send never reached vv)", signer: &A, attack: true, origin: []crypto.Address{addrV}, msgs: run(&A, 400, "func main(cur realm) {\n\tvv.SpendOrigin(cross(cur), cur.Address(), 400)\n}\n")},
	{name: "run Send 400: script spends origin 400 then vv.SpendOrigin 400", signer: &A, attack: true, script: 400, origin: []crypto.Address{addrV}, msgs: run(&A, 400, "func main(cur realm) {\n\tbanker.NewBanker(banker.BankerTypeOriginSend, cur).SendCoins(cur.Address(), address(\""+C.Addr.String()+"\"), chain.NewCoins(chain.NewCoin(\"ugnot\", 400)))\n\tvv.SpendOrigin(cross(cur), cur.Address(), 400)\n}\n")},
	{name: "run: script mints vv's denom", signer: &A, attack: true, msgs: run(&A, 0, "func main(cur realm) {\n\tbanker.NewBanker(banker.BankerTypeRealmIssue, cur).IssueCoin(cur.Address(), \""+denomV+"\", 1000)\n}\n")},
	// realm denominations
	{name: "vv.Mint 1000 ->B", signer: &A, msgs: call(&A, 0, pathV, "Mint", B.Addr.String(), "1000"), mint: map[string]int64{denomV: 1000}},
	{name: "vv.Burn 300 from B (issuer burns)", signer: &A, msgs: call(&A, 0, pathV, "Burn", B.Addr.String(), "300"), mint: map[string]int64{denomV: -300}, allow: []debit{{B.Addr, denomV, 300}}},
	{name: "bank.send B->C 200 vv-coin (holder's own authority)", signer: &B, msgs: func() []std.Msg {
		return []std.Msg{bank.MsgSend{FromAddress: B.Addr, ToAddress: C.Addr, Amount: std.Coins{std.NewCoin(denomV, 200)}}}
	}},
	{name: "att.MintDenom own", signer: &A, msgs: call(&A, 0, pathE, "MintDenom", denomE, A.Addr.String(), "1000"), mint: map[string]int64{denomE: 1000}},
	{name: "att.MintDenom vv's", signer: &A, attack: true, msgs: call(&A, 0, pathE, "MintDenom", denomV, A.Addr.String(), "1000")},
	{name: "att.MintDenom ugnot", signer: &A, attack: true, msgs: call(&A, 0, pathE, "MintDenom", "ugnot", A.Addr.String(), "1000")},
	{name: "att.MintDenom look-alike", signer: &A, attack: true, msgs: call(&A, 0, pathE, "MintDenom", "/"+pathE+"/../vv:coin", A.Addr.String(), "1000")},
	{name: "att.BurnDenom vv's from B", signer: &A, attack: true, msgs: call(&A, 0, pathE, "BurnDenom", denomV, B.Addr.String(), "100")},
	{name: "att.BurnDenom ugnot from B", signer: &A, attack: true, msgs: call(&A, 0, pathE, "BurnDenom", "ugnot", B.Addr.String(), "100")},
	{name: "att.SendDenom vv-coin from B", signer: &A, attack: true, msgs: call(&A, 0, pathE, "SendDenom", denomV, B.Addr.String(), A.Addr.String(), "100")},
	// sub-realm vault
	{name: "vv.FundVault 600", signer: &A, msgs: call(&A, 0, pathV, "FundVault", "600"), allow: []debit{{addrV, "ugnot", 600}}},
	{name: "vv.SpendVault 250 ->C", signer: &B, msgs: call(&B, 0, pathV, "SpendVault", C.Addr.String(), "250"), allow: []debit{{addrVault, "ugnot", 250}}},
	// storage deposit lock / refund
	{name: "vv.Store 3 (deposit locked from A)", signer: &A, msgs: call(&A, 0, pathV, "Store", "3")},
	{name: "vv.Clear by C (deposit refunded to C)", signer: &C, msgs: call(&C, 0, pathV, "Clear")},
	{name: "vv.Store 3 limit 1ugnot", signer: &A, msgs: func() []std.Msg {
		m := vm.NewMsgCall(A.Addr, nil, pathV, "Store", []string{"3"})
		m.MaxDeposit = ug(1)
		return []std.Msg{m}
	}},
	{name: "call with Send: A -> att.Deposit 800", signer: &A, msgs: call(&A, 800, pathE, "Deposit")},
}

func opIndex(name string) int {
	for i, o := range menu {
		if o.name == name {
			return i
		}
	}
	panic("no op " + name)
}

// ---- observation & oracle -----------------------------------------------------------------------------------------

type obs struct {
	bal     map[crypto.Address]std.Coins
	storage [3]uint64 // recorded Storage of vv, att, rly
}

var (
	realmPaths = [3]string{pathV, pathE, pathR}
	depAddrs   = [3]crypto.Address{gnolang.DeriveStorageDepositCryptoAddr(pathV), gnolang.DeriveStorageDepositCryptoAddr(pathE), gnolang.DeriveStorageDepositCryptoAddr(pathR)}
)

// known: every address that holds coins at genesis or is named by a menu entry. Balances are read with direct
// key reads (iterators on the memdb-backed store cost O(whole DB)); conservation of the ugnot total over this set
// proves that no address outside it is involved, and ops that try to mint additionally get a full scan.
var known []crypto.Address

func observe(c *chainx.Chain, fullScan bool) obs {
	o := obs{bal: map[crypto.Address]std.Coins{}}
	if fullScan {
		acc := c.Items("main", "/a/")
		for k, v := range c.Items("main", "/b/") {
			acc[k] = v
		}
		o.bal = chainx.Balances(acc)
		for a := range o.bal {
			if _, ok := names[a]; !ok {
				r.HarnessError("address %s outside the known set holds coins", a)
			}
		}
	} else {
		for _, a := range known {
			if cs := c.BalanceOf(a, denomV, denomE); len(cs) > 0 {
				o.bal[a] = cs
			}
		}
	}
	for i, p := range realmPaths {
		if v, ok := c.ReadKey("base", chainx.RealmOIDPrefix(p)+"1#realm"); ok {
			o.storage[i] = chainx.DecodeRealm(p, map[string]string{chainx.RealmOIDPrefix(p) + "1#realm": v}).Storage
		}
	}
	return o
}

func (o obs) key() string {
	var ks []string
	for a, cs := range o.bal {
		cs2 := append(std.Coins{}, cs...)
		sort.Slice(cs2, func(i, j int) bool { return cs2[i].Denom < cs2[j].Denom })
		ks = append(ks, fmt.Sprintf("%x=%v", a[:4], cs2))
	}
	sort.Strings(ks)
	return strings.Join(ks, ";") + fmt.Sprint(o.storage)
}

func supply(o obs) map[string]int64 {
	s := map[string]int64{}
	for _, cs := range o.bal {
		for _, c := range cs {
			s[c.Denom] += c.Amount
		}
	}
	return s
}

var names = map[crypto.Address]string{}

func who(a crypto.Address) string {
	if n, ok := names[a]; ok {
		return n
	}
	return a.String()
}

type finding struct {
	key    string
	detail map[string]any
}

// msgCoins: coins the signer names in the messages (Send / bank amount), per denom
func msgCoins(msgs []std.Msg, signer crypto.Address) map[string]int64 {
	out := map[string]int64{}
	add := func(cs std.Coins) {
		for _, c := range cs {
			out[c.Denom] += c.Amount
		}
	}
	for _, m := range msgs {
		switch m := m.(type) {
		case bank.MsgSend:
			if m.FromAddress == signer {
				add(m.Amount)
			}
		case vm.MsgCall:
			if m.Caller == signer {
				add(m.Send)
			}
		case vm.MsgRun:
			if m.Caller == signer {
				add(m.Send)
			}
		case vm.MsgAddPackage:
			if m.Creator == signer {
				add(m.Send)
			}
		}
	}
	return out
}

var (
	nTx      atomic.Int64
	stateSet sync.Map
	nStates  atomic.Int64
	probe    = os.Getenv("C08_PROBE") != ""
)

func firstLine(s string) string {
	if i := strings.Index(s, "Msg Traces"); i >= 0 {
		s = s[:i]
	}
	s = strings.ReplaceAll(s, "\n", " ")
	if len(s) > 240 {
		s = s[:240]
	}
	return s
}

func step(c *chainx.Chain, commit bool, prev obs, oi int) (obs, bool, *finding) {
	op := menu[oi]
	msgs := op.msgs()
	opt := op.opt
	opt.GasWanted = 100_000_000
	tx := c.MakeTx(keys, msgs, opt)
	if commit {
		c.BeginBlock()
	}
	tD := time.Now()
	res := c.DeliverTx(tx)
	if probe {
		fmt.Printf("  [%6.1fms]", float64(time.Since(tD).Microseconds())/1000)
	}
	if commit {
		c.EndBlockCommit()
	}
	nTx.Add(1)
	r.Eval()
	full := strings.Contains(strings.ToLower(op.name), "mint")
	cur := observe(c, full)
	if _, loaded := stateSet.LoadOrStore(cur.key(), true); !loaded {
		nStates.Add(1)
	}
	failed := res.Error != nil
	if probe {
		fmt.Printf("  %-70s failed=%v %s\n", op.name, failed, firstLine(res.Log))
	}
	// all (address, denom) decreases
	type dec struct {
		a     crypto.Address
		denom string
		d     int64
	}
	var decs []dec
	inc := map[crypto.Address]int64{} // ugnot increases
	for a, cs := range prev.bal {
		for _, co := range cs {
			if now := chainx.Amount(cur.bal[a], co.Denom); now < co.Amount {
				decs = append(decs, dec{a, co.Denom, co.Amount - now})
			}
		}
	}
	for a, cs := range cur.bal {
		if d := chainx.Amount(cs, "ugnot") - chainx.Amount(prev.bal[a], "ugnot"); d > 0 {
			inc[a] = d
		}
	}
	sort.Slice(decs, func(i, j int) bool { return who(decs[i].a)+decs[i].denom < who(decs[j].a)+decs[j].denom })
	moved := func() []string {
		var out []string
		for _, d := range decs {
			out = append(out, fmt.Sprintf("%s -%d%s", who(d.a), d.d, d.denom))
		}
		return out
	}
	class := "ok"
	if failed {
		class = "rejected"
	}
	if op.attack {
		class = "attack:" + class
	}
	r.Outcome(class)
	det := func(m map[string]any) map[string]any {
		m["op"] = op.name
		m["tx_failed"] = failed
		m["log"] = firstLine(res.Log)
		m["all_decreases"] = moved()
		return m
	}
	signer := op.signer.Addr
	named := msgCoins(msgs, signer)
	for _, d := range decs {
		// R1 signer
		if d.a == signer && !op.opt.NoSign {
			allowed := named[d.denom]
			if d.denom == "ugnot" {
				allowed += fee + op.script
				if !failed {
					for _, da := range depAddrs {
						allowed += inc[da] // storage deposits actually locked in this tx
					}
				}
			}
			if failed {
				allowed = 0
				if d.denom == "ugnot" {
					allowed = fee
				}
			}
			if d.d <= allowed {
				continue
			}
			return cur, failed, &finding{"signer-debited-beyond-fee-send-deposit", det(map[string]any{"address": who(d.a), "denom": d.denom, "decrease": d.d, "covered": allowed})}
		}
		if failed {
			return cur, failed, &finding{"failed-tx-moved-coins-of:" + who(d.a), det(map[string]any{"address": who(d.a), "denom": d.denom, "decrease": d.d})}
		}
		// R2 / R4 declared by the op
		okd := false
		for _, al := range op.allow {
			if al.addr == d.a && al.denom == d.denom && d.d <= al.max {
				okd = true
			}
		}
		if okd {
			continue
		}
		// R3 storage-deposit address with storage released
		released := false
		for i, da := range depAddrs {
			if d.a == da && d.denom == "ugnot" && cur.storage[i] < prev.storage[i] {
				released = true
			}
		}
		if released {
			continue
		}
		return cur, failed, &finding{"unauthorised-debit-of:" + who(d.a), det(map[string]any{"address": who(d.a), "denom": d.denom, "decrease": d.d})}
	}
	// supply
	s0, s1 := supply(prev), supply(cur)
	for denom := range map[string]bool{"ugnot": true, denomV: true, denomE: true} {
		want := s0[denom]
		if !failed {
			want += op.mint[denom]
		}
		if s1[denom] != want {
			return cur, failed, &finding{"supply-changed-without-issuer:" + denom, det(map[string]any{"denom": denom, "before": s0[denom], "after": s1[denom], "declared_by_issuer": op.mint[denom]})}
		}
	}
	if s1["ugnot"] != s0["ugnot"] {
		r.HarnessError("ugnot total over the known address set changed in %s: an address outside the set is involved", op.name)
	}
	for denom := range s1 {
		if denom != "ugnot" && denom != denomV && denom != denomE {
			return cur, failed, &finding{"unknown-denom-appeared", det(map[string]any{"denom": denom})}
		}
	}
	// origin-send rule
	for _, a := range op.origin {
		if before, now := chainx.Amount(prev.bal[a], "ugnot"), chainx.Amount(cur.bal[a], "ugnot"); now < before {
			return cur, failed, &finding{"origin-send-banker-spent-more-than-came-with-the-call:" + who(a), det(map[string]any{"before": before, "after": now})}
		}
	}
	return cur, failed, nil
}

func hname(h []int) string {
	var n []string
	for _, i := range h {
		n = append(n, menu[i].name)
	}
	return strings.Join(n, " ; ")
}

func replay(h []int) (int, *finding) {
	c := newChain()
	prev := observe(c, true)
	for i, oi := range h {
		var f *finding
		prev, _, f = step(c, true, prev, oi)
		if f != nil {
			return i, f
		}
	}
	return len(h), nil
}

func report(h []int, at int, f *finding, mode string) {
	f.detail["history"] = hname(h[:at+1])
	f.detail["found_by"] = mode
	r.Violation(f.key+" @ "+menu[h[at]].name, f.detail)
}

type suspect struct {
	h   []int
	key string
}

var suspects sync.Map

func dfs(c *chainx.Chain, h []int, prev obs, depth int) {
	if len(h) == depth || r.Expired() {
		return
	}
	for oi := range menu {
		pop := c.Push()
		cur, _, f := step(c, false, prev, oi)
		h2 := append(append([]int{}, h...), oi)
		if f != nil {
			suspects.Store(fmt.Sprint(h2), suspect{h2, f.key + menu[oi].name})
		} else {
			dfs(c, h2, cur, depth)
		}
		pop()
	}
}

func main() {
	debug.SetGCPercent(400)
	r = vk.New("model_checking")
	if pf := os.Getenv("C08_PROF"); pf != "" {
		f, _ := os.Create(pf)
		time.AfterFunc(60*time.Second, func() {
			pprof.StartCPUProfile(f)
			time.AfterFunc(40*time.Second, func() { pprof.StopCPUProfile(); f.Close(); os.Exit(3) })
		})
	}
	r.SetBudget(150*time.Second, 25*time.Minute)
	names[A.Addr], names[B.Addr], names[C.Addr] = "user A", "user B", "user C"
	names[addrV], names[addrE], names[addrR], names[addrVault] = "realm vv", "realm att", "realm rly", "vv#vault"
	names[depAddrs[0]], names[depAddrs[1]], names[depAddrs[2]] = "vv storage-deposit", "att storage-deposit", "rly storage-deposit"
	names[crypto.AddressFromPreimage([]byte("fee_collector"))] = "fee collector"
	names[crypto.AddressFromPreimage([]byte("storage_fee_collector"))] = "storage fee collector"
	names[gnolang.DerivePkgCryptoAddr(pathE+"#vault")] = "att#vault"
	for a := range names {
		known = append(known, a)
	}
	sort.Slice(known, func(i, j int) bool { return string(known[i][:]) < string(known[j][:]) })

	if probe {
		all := make([]int, len(menu))
		for i := range all {
			all[i] = i
		}
		c := newChain()
		c.BeginBlock()
		prev := observe(c, true)
		for _, oi := range all {
			var f *finding
			prev, _, f = step(c, false, prev, oi)
			if f != nil {
				fmt.Println("    FINDING", f.key, f.detail)
			}
		}
		r.Finish("probe", false, map[string]any{"states": nStates.Load(), "transitions": nTx.Load(), "traces_validated_against_impl": nTx.Load()})
	}

	// quick: every history of <=2 txs, and every history of 3 txs whose first tx is one of the state-setting ops
	// (a later tx can only behave differently after something was minted / stored / kept / funded); thorough: all of length 3
	setters := map[int]bool{}
	for _, n := range []string{"vv.Mint 1000 ->B", "att.Keep (store own banker)", "vv.Store 3 (deposit locked from A)"} {
		setters[opIndex(n)] = true
	}
	t0 := time.Now()
	pool := make(chan *chainx.Chain, 64)
	first := newChain()
	first.BeginBlock()
	pool <- first
	fmt.Printf("warm-up chain: %.1fs, menu %d\n", time.Since(t0).Seconds(), len(menu))
	var created atomic.Int64
	created.Store(1)

	// (1) replay mode: fresh chain, one tx per block, real commits: every single op, and a fixed set of 3-tx stories
	var rjobs [][]int
	for i := range menu {
		rjobs = append(rjobs, []int{i})
	}
	stories := [][]string{
		{"vv.Mint 1000 ->B", "att.BurnDenom vv's from B", "vv.Burn 300 from B (issuer burns)"},
		{"att.Keep (store own banker)", "att.UseKept from vv", "att.UseKept own 300 ->A"},
		{"vv.Store 3 (deposit locked from A)", "att.SendFrom(vv deposit addr)", "vv.Clear by C (deposit refunded to C)"},
		{"vv.FundVault 600", "vv.CallHook(sub-of-previous)", "vv.SpendVault 250 ->C"},
		{"call with Send: A -> att.Deposit 800", "att.OriginSpendTwice 400+400 of Send 400", "att.SpendOwn 1000 ->A"},
	}
	if r.Quick() {
		rjobs = rjobs[:0]
	}
	if r.Quick() {
		stories = stories[:3]
	}
	for _, s := range stories {
		var h []int
		for _, n := range s {
			h = append(h, opIndex(n))
		}
		rjobs = append(rjobs, h)
	}
	var rdone atomic.Int64
	sem := make(chan struct{}, 4) // chain creation is memory-bandwidth bound
	r.ParFor(len(rjobs), func(i int) {
		sem <- struct{}{}
		defer func() { <-sem }()
		if at, f := replay(rjobs[i]); f != nil {
			report(rjobs[i], at, f, "replay")
		}
		r.Distinct("replay" + fmt.Sprint(rjobs[i]))
		rdone.Add(1)
	})

	// (2) DFS mode
	type pj struct {
		p     []int
		depth int
	}
	var prefixes []pj
	for i := range menu {
		if r.Thorough() || setters[i] {
			for j := range menu {
				prefixes = append(prefixes, pj{[]int{i, j}, 3})
			}
		} else {
			prefixes = append(prefixes, pj{[]int{i}, 2})
		}
	}
	sort.SliceStable(prefixes, func(i, j int) bool { return len(prefixes[i].p) > len(prefixes[j].p) })
	fmt.Printf("replay phase done at %.1fs\n", time.Since(t0).Seconds())
	var ddone atomic.Int64
	r.ParFor(len(prefixes), func(i int) {
		var c *chainx.Chain
		select {
		case c = <-pool:
		default:
			if created.Add(1) <= 7 {
				c = newChain()
				c.BeginBlock()
			} else {
				c = <-pool
			}
		}
		defer func() { pool <- c }()
		pop := c.Push()
		defer pop()
		prev := observe(c, false)
		var h []int
		for _, oi := range prefixes[i].p {
			var f *finding
			prev, _, f = step(c, false, prev, oi)
			h = append(h, oi)
			if f != nil {
				suspects.Store(fmt.Sprint(h), suspect{append([]int{}, h...), f.key + menu[oi].name})
				ddone.Add(1)
				return
			}
		}
		dfs(c, h, prev, prefixes[i].depth)
		r.Distinct("dfs" + fmt.Sprint(prefixes[i].p))
		ddone.Add(1)
	})
	fmt.Printf("dfs phase done at %.1fs\n", time.Since(t0).Seconds())
	var sus []suspect
	suspects.Range(func(_, v any) bool { sus = append(sus, v.(suspect)); return true })
	sort.Slice(sus, func(i, j int) bool {
		if len(sus[i].h) != len(sus[j].h) {
			return len(sus[i].h) < len(sus[j].h)
		}
		return fmt.Sprint(sus[i].h) < fmt.Sprint(sus[j].h)
	})
	seenKey := map[string]bool{}
	for _, s := range sus {
		if seenKey[s.key] || len(seenKey) >= 12 { // the shortest history of each distinct finding
			continue
		}
		seenKey[s.key] = true
		at, f := replay(s.h)
		if f == nil {
			r.HarnessError("finding of DFS (rollback) mode not reproduced with real commits: %s", hname(s.h))
		}
		report(s.h, at, f, "dfs, confirmed by replay with real commits")
	}
	nAttack := 0
	for _, o := range menu {
		if o.attack {
			nAttack++
		}
	}
	r.Sample(map[string]any{"history": "vv.CallHook(banker-on-previous)", "meaning": "the victim realm calls out to attacker code; the attacker builds a banker on cur.Previous() to drain its caller"})
	r.Sample(map[string]any{"history": "vv.Store 3 ; att.SendFrom(vv deposit addr) ; vv.Clear by C", "meaning": "the storage-deposit address may only be debited when the realm's storage is released"})
	r.Assumptions = []string{
		"which realm's own code spends in an op (reasons R2/R4) is declared per menu entry together with the amount; every other decrease must be explained by the tx itself (signer: fee + named coins + deposit locked; deposit address: storage released)",
		"DFS mode keeps one block open and rolls back with a cache-wrap snapshot; single ops (thorough), three (thorough: five) 3-tx stories and every finding are replayed on fresh chains with one tx per block and real commits",
		"balances are re-derived from raw store bytes (account objects + split-tier balance keys) for every address in the store",
	}
	depth := "<=2 txs, and of 3 txs after each of 3 state-setting first txs (mint, keep a banker, store),"
	if r.Thorough() {
		depth = "<=3 txs"
	}
	r.Finish(fmt.Sprintf("every history of %s over a %d-op menu (%d of them attempts to move, mint or burn somebody else's coins) on the real app; after every tx each balance decrease of any address in any denom must have one of the four permitted reasons; distinct = DFS subtrees + replayed histories", depth, len(menu), nAttack),
		rdone.Load() == int64(len(rjobs)) && ddone.Load() == int64(len(prefixes)),
		map[string]any{"states": nStates.Load(), "transitions": nTx.Load(), "traces_validated_against_impl": nTx.Load(), "menu": len(menu), "attack_ops": nAttack, "replayed": len(rjobs)})
}
