// Hand-built messages with FORGED IDENTITY FIELDS, delivered through the full application (ante handler,
// ValidateBasic, message handler). The forger is user A (it has A's key only); the victims are user B, realm vv and
// vv's sub-realm vault, none of which signs anything. Constructors (NewMsgRun, NewMsgCall, ...) are bypassed: every
// identity-bearing field is set by hand.
//
//	MsgRun        Caller x Package.Path (empty, the caller's own run path, ANOTHER account's run path, the run path of a
//	              realm / sub-realm ADDRESS, another chain domain, a realm path, near-miss shapes) x Package.Name x script
//	              (spend cur.Address() through a RealmSend / OriginSend banker; spend a literal victim address)
//	MsgCall       Caller = victim (with Send: the victim's coins would move to the attacker's realm)
//	MsgAddPackage Creator = victim (with Send), and Creator = forger with a package path that is somebody's run path
//	bank.MsgSend  FromAddress = victim
//	signatures    for a signer slot that is not the forger's: the forger's key and signature, the victim's (public) key
//	              with the forger's signature, no key with the forger's signature, an empty signature; and a two-message
//	              tx [forger's own message, victim's message] carrying only the forger's signature(s)
//
// Oracle = the generic one: an address that signed nothing never loses coins (the forger itself is covered up to
// fee + coins named in ITS messages + what its own run script spends).
package main

import (
	"fmt"

	"github.com/gnolang/gno/gno.land/pkg/sdk/vm"
	"github.com/gnolang/gno/tm2/pkg/crypto"
	"github.com/gnolang/gno/tm2/pkg/sdk/bank"
	"github.com/gnolang/gno/tm2/pkg/std"
	"verif/engine/chainx"
)

type sigMode int

const (
	sigForgerKey    sigMode = iota // forger's pubkey + forger's signature over the victim's account number/sequence
	sigVictimPubKey                // the victim's pubkey (public knowledge) + forger's signature
	sigNoPubKey                    // no pubkey + forger's signature
	sigEmpty                       // empty signature
	sigDropped                     // no signature entry at all for that slot
)

var sigModeNames = map[sigMode]string{sigForgerKey: "forger-key", sigVictimPubKey: "victim-pubkey+forger-sig", sigNoPubKey: "no-pubkey+forger-sig", sigEmpty: "empty-sig", sigDropped: "sig-dropped"}

func keyOf(a crypto.Address) *chainx.Key {
	for i := range keys {
		if keys[i].Addr == a {
			return &keys[i]
		}
	}
	return nil
}

// forgeTx signs every signer slot the forger owns honestly and every other slot per mode.
func forgeTx(c *chainx.Chain, forger *chainx.Key, msgs []std.Msg, mode sigMode) std.Tx {
	tx := std.Tx{Msgs: msgs, Fee: std.NewFee(100_000_000, std.NewCoin("ugnot", fee))}
	for _, sa := range tx.GetSigners() {
		ai := c.Account(sa)
		sb, err := tx.GetSignBytes(chainx.ChainID, ai.Num, ai.Seq)
		if err != nil {
			panic(err)
		}
		sig, err := forger.Priv.Sign(sb)
		if err != nil {
			panic(err)
		}
		if sa == forger.Addr {
			tx.Signatures = append(tx.Signatures, std.Signature{PubKey: forger.Pub, Signature: sig})
			continue
		}
		switch mode {
		case sigForgerKey:
			tx.Signatures = append(tx.Signatures, std.Signature{PubKey: forger.Pub, Signature: sig})
		case sigVictimPubKey:
			var pk crypto.PubKey
			if k := keyOf(sa); k != nil {
				pk = k.Pub
			}
			tx.Signatures = append(tx.Signatures, std.Signature{PubKey: pk, Signature: sig})
		case sigNoPubKey:
			tx.Signatures = append(tx.Signatures, std.Signature{Signature: sig})
		case sigEmpty:
			tx.Signatures = append(tx.Signatures, std.Signature{})
		case sigDropped:
		}
	}
	return tx
}

func runPathOf(domain string, a crypto.Address) string { return domain + "/e/" + a.String() + "/run" }

const forgeImports = "package main\n\nimport (\n\t\"chain\"\n\t\"chain/banker\"\n)\n\n"

func forgeScripts() map[string]string {
	to := C.Addr.String()
	return map[string]string{
		"realm-send-cur":   forgeImports + "func main(cur realm) {\n\tbanker.NewBanker(banker.BankerTypeRealmSend, cur).SendCoins(cur.Address(), address(\"" + to + "\"), chain.NewCoins(chain.NewCoin(\"ugnot\", 500)))\n}\n",
		"origin-send-cur":  forgeImports + "func main(cur realm) {\n\tbanker.NewBanker(banker.BankerTypeOriginSend, cur).SendCoins(cur.Address(), address(\"" + to + "\"), chain.NewCoins(chain.NewCoin(\"ugnot\", 500)))\n}\n",
		"realm-send-userB": forgeImports + "func main(cur realm) {\n\tbanker.NewBanker(banker.BankerTypeRealmSend, cur).SendCoins(address(\"" + B.Addr.String() + "\"), address(\"" + to + "\"), chain.NewCoins(chain.NewCoin(\"ugnot\", 500)))\n}\n",
	}
}

func forgeOps() []*opDef {
	var ops []*opDef
	forger := &A
	add := func(name string, script int64, build func() []std.Msg, mode sigMode) {
		op := &opDef{name: "forged: " + name, signer: forger, attack: true, script: script}
		op.mktx = func(c *chainx.Chain) std.Tx { return forgeTx(c, forger, build(), mode) }
		op.after = func(failed, finding bool) {
			cl := "forged-message:refused"
			if finding {
				cl = "forged-message:VIOLATION"
			} else if !failed {
				cl = "forged-message:accepted (moved only the forger's coins)"
			}
			r.Outcome(cl)
			r.Distinct(op.name)
		}
		ops = append(ops, op)
	}
	scripts := forgeScripts()
	mkRun := func(caller crypto.Address, send int64, pkgName, path, script string) func() []std.Msg {
		return func() []std.Msg {
			var s std.Coins
			if send > 0 {
				s = ug(send)
			}
			return []std.Msg{vm.MsgRun{Caller: caller, Send: s, Package: &std.MemPackage{Name: pkgName, Path: path, Files: []*std.MemFile{{Name: "main.gno", Body: scripts[script]}}}}}
		}
	}
	// MsgRun signed by the forger as Caller, Package.Path over the alphabet
	paths := []struct{ name, path string }{
		{"empty", ""},
		{"own-run-path", runPathOf("gno.land", A.Addr)},
		{"run-path-of-userB", runPathOf("gno.land", B.Addr)},
		{"run-path-of-realm-vv-address", runPathOf("gno.land", addrV)},
		{"run-path-of-vv-vault-address", runPathOf("gno.land", addrVault)},
		{"run-path-of-userB-other-domain", runPathOf("evil.land", B.Addr)},
		{"run-path-of-userB-subdir", runPathOf("gno.land", B.Addr) + "/x"},
		{"realm-path-vv", pathV},
		{"sub-realm-path-vv-vault", pathV + "#vault"},
	}
	for _, p := range paths {
		for _, sc := range []string{"realm-send-cur", "origin-send-cur", "realm-send-userB"} {
			var send int64
			if sc == "origin-send-cur" {
				send = 500
			}
			// what the forger's own script may spend from the forger: 500 when it spends cur.Address() of its own run realm
			var own int64
			if sc == "realm-send-cur" {
				own = 500
			}
			add(fmt.Sprintf("MsgRun Caller=A Path=%s script=%s", p.name, sc), own, mkRun(A.Addr, send, "main", p.path, sc), sigForgerKey)
		}
	}
	add("MsgRun Caller=A Path=run-path-of-userB Name=run script=realm-send-cur", 500, mkRun(A.Addr, 0, "run", runPathOf("gno.land", B.Addr), "realm-send-cur"), sigForgerKey)
	modes := []sigMode{sigForgerKey, sigVictimPubKey, sigNoPubKey, sigEmpty}
	for _, m := range modes {
		mn := sigModeNames[m]
		// Caller / Creator / FromAddress = the victim, signature slot forged
		add("MsgRun Caller=B Path=empty script=realm-send-cur sig="+mn, 0, mkRun(B.Addr, 0, "main", "", "realm-send-cur"), m)
		add("MsgRun Caller=B Path=run-path-of-userB script=realm-send-cur sig="+mn, 0, mkRun(B.Addr, 0, "main", runPathOf("gno.land", B.Addr), "realm-send-cur"), m)
		add("MsgCall Caller=B Send=800 att.Deposit sig="+mn, 0, func() []std.Msg {
			return []std.Msg{vm.MsgCall{Caller: B.Addr, Send: ug(800), PkgPath: pathE, Func: "Deposit"}}
		}, m)
		add("MsgAddPackage Creator=B Send=800 sig="+mn, 0, func() []std.Msg {
			return []std.Msg{vm.MsgAddPackage{Creator: B.Addr, Send: ug(800), Package: &std.MemPackage{Name: "fx", Path: "gno.land/r/verif/fx", Files: chainx.Files("gno.land/r/verif/fx", map[string]string{"f.gno": "package fx\n\nfunc Deposit(cur realm) {}\n"})}}}
		}, m)
		add("bank.MsgSend From=B 700 ->A sig="+mn, 0, func() []std.Msg {
			return []std.Msg{bank.MsgSend{FromAddress: B.Addr, ToAddress: A.Addr, Amount: ug(700)}}
		}, m)
	}
	// two messages, only the forger's signature material
	for _, m := range []sigMode{sigForgerKey, sigDropped} {
		add("tx[bank.MsgSend A->C 1 ; MsgCall Caller=B Send=800 att.Deposit] sig="+sigModeNames[m], 0, func() []std.Msg {
			return []std.Msg{bank.MsgSend{FromAddress: A.Addr, ToAddress: C.Addr, Amount: ug(1)}, vm.MsgCall{Caller: B.Addr, Send: ug(800), PkgPath: pathE, Func: "Deposit"}}
		}, m)
		add("tx[bank.MsgSend A->C 1 ; bank.MsgSend From=B 700 ->A] sig="+sigModeNames[m], 0, func() []std.Msg {
			return []std.Msg{bank.MsgSend{FromAddress: A.Addr, ToAddress: C.Addr, Amount: ug(1)}, bank.MsgSend{FromAddress: B.Addr, ToAddress: A.Addr, Amount: ug(700)}}
		}, m)
	}
	// MsgAddPackage by the forger at a path that is somebody's run path (its derived address is that account)
	for _, p := range []struct{ name, path string }{{"run-path-of-userB", runPathOf("gno.land", B.Addr)}, {"run-path-of-realm-vv-address", runPathOf("gno.land", addrV)}} {
		p := p
		add("MsgAddPackage Creator=A Path="+p.name+" init spends cur.Address()", 0, func() []std.Msg {
			body := "package run\n\nimport (\n\t\"chain\"\n\t\"chain/banker\"\n)\n\nfunc init(cur realm) {\n\tbanker.NewBanker(banker.BankerTypeRealmSend, cur).SendCoins(cur.Address(), address(\"" + C.Addr.String() + "\"), chain.NewCoins(chain.NewCoin(\"ugnot\", 500)))\n}\n"
			return []std.Msg{vm.MsgAddPackage{Creator: A.Addr, Package: &std.MemPackage{Name: "run", Path: p.path, Files: chainx.Files(p.path, map[string]string{"f.gno": body})}}}
		}, sigForgerKey)
	}
	// MsgCall by the forger INTO a run path (there is no package; it must not resolve to anything spendable)
	add("MsgCall Caller=A PkgPath=run-path-of-userB Func=main", 0, func() []std.Msg {
		return []std.Msg{vm.MsgCall{Caller: A.Addr, PkgPath: runPathOf("gno.land", B.Addr), Func: "main"}}
	}, sigForgerKey)
	return ops
}
