// Generated attacker programs that handle REALM VALUES (the capability NewBanker and cross() authorise on).
//
// A program = transform x source x use, entered either directly by a user call (the realm value's Previous() is the
// calling user) or from the victim realm vh (Previous() is vh):
//
//	source     where the attacker takes a realm value from: its own cur, or cur.Previous() (its caller)
//	transform  what it does to it before use: nothing; wrap it in a struct that EMBEDS the realm interface and overrides
//	           Address / PkgPath / IsCurrent / everything (by value, by pointer); a hand-written type with all twelve
//	           methods (no embedding); assign it to `cur` and pass `cur` to a local crossing function / crossing closure /
//	           crossing method / deferred crossing call (a cur-call inherits the frame's Cur from the first argument)
//	use        NewBanker(RealmSend|RealmIssue|OriginSend, v).SendCoins(v.Address(), me, ..), IssueCoin of v.PkgPath()'s
//	           denomination, a banker on v.Sub("vault"), or cross(v) into vv.SpendOrigin (vv then sees the attacker's
//	           CALLER as its previous realm)
//
// Each transform lives in its own package (a transform the preprocessor refuses must not take the others down); the
// packages are deployed with real MsgAddPackage txs in block 1, failures are recorded, and the caller realm vh is
// generated from the ones that deployed. Oracle = the generic one of main.go; the only debit such a program may cause
// is of the attacker package's own address (its own code spending its own coins).
package main

import (
	"fmt"
	"strings"
	"sync"

	"github.com/gnolang/gno/gno.land/pkg/gnoland"
	"github.com/gnolang/gno/gnovm/pkg/gnolang"
	"github.com/gnolang/gno/tm2/pkg/crypto"
	"github.com/gnolang/gno/tm2/pkg/std"
	"verif/engine/chainx"
)

const pathH = "gno.land/r/verif/vh"

type rvKind struct {
	family string // root-cause class; findings are keyed by it
	name   string
	types  string // extra declarations
	body   string // statements of Go(): s = the source realm value, me, u, victim, vpath in scope
	victim bool   // the transform uses the victim address / path arguments
}

const rvHelper = `
func helper(cur realm, me address, u string) { use(me, u, cur) }
`

const rvWrapA = `
type wrapA struct {
	realm
	a address
}

func (w wrapA) Address() address { return w.a }
`

var rvKinds = []rvKind{
	{family: "plain-realm-value", name: "identity", body: `use(me, u, s)`},
	{family: "embedded-realm-wrapper", name: "wrap-address", victim: true, types: rvWrapA, body: `use(me, u, wrapA{s, victim})`},
	{family: "embedded-realm-wrapper", name: "wrap-pkgpath", victim: true, types: `
type wrapP struct {
	realm
	p string
}

func (w wrapP) PkgPath() string { return w.p }
`, body: `use(me, u, wrapP{s, vpath})`},
	{family: "embedded-realm-wrapper", name: "wrap-iscurrent", types: `
type wrapC struct{ realm }

func (wrapC) IsCurrent() bool { return true }
`, body: `use(me, u, wrapC{s})`},
	{family: "embedded-realm-wrapper", name: "wrap-all", victim: true, types: `
type wrapX struct {
	realm
	a address
	p string
}

func (w wrapX) Address() address { return w.a }
func (w wrapX) PkgPath() string  { return w.p }
func (w wrapX) IsCurrent() bool  { return true }
func (w wrapX) Previous() realm  { return wrapU{w.realm.Previous()} }

type wrapU struct{ realm }

func (wrapU) IsUserCall() bool { return true }
`, body: `use(me, u, wrapX{s, victim, vpath})`},
	{family: "embedded-realm-wrapper", name: "wrap-pointer", victim: true, types: `
type wrapQ struct {
	realm
	a address
}

func (w *wrapQ) Address() address { return w.a }
`, body: `use(me, u, &wrapQ{s, victim})`},
	{family: "hand-written-realm-type", name: "fake-no-embedding", victim: true, types: `
type fake struct {
	a address
	p string
}

func (f fake) Address() address         { return f.a }
func (f fake) PkgPath() string          { return f.p }
func (f fake) Previous() realm          { return f }
func (f fake) IsCode() bool             { return true }
func (f fake) IsUser() bool             { return false }
func (f fake) IsUserCall() bool         { return true }
func (f fake) IsUserRun() bool          { return false }
func (f fake) IsEphemeral() bool        { return false }
func (f fake) IsCurrent() bool          { return true }
func (f fake) Sub(subpath string) realm { return f }
func (f fake) Subpath() string          { return "" }
func (f fake) String() string           { return "fake" }
`, body: `_ = s
	use(me, u, fake{victim, vpath})`},
	{family: "reassigned-cur-passed-to-cur-call", name: "reassign-helper", types: rvHelper, body: `cur = s
	helper(cur, me, u)`},
	{family: "reassigned-cur-passed-to-cur-call", name: "reassign-closure", body: `cur = s
	func(cur realm) { use(me, u, cur) }(cur)`},
	{family: "reassigned-cur-passed-to-cur-call", name: "reassign-method", types: `
type tool struct{}

func (tool) Do(cur realm, me address, u string) { use(me, u, cur) }
`, body: `cur = s
	tool{}.Do(cur, me, u)`},
	{family: "reassigned-cur-passed-to-cur-call", name: "reassign-defer", types: rvHelper, body: `cur = s
	defer helper(cur, me, u)`},
	{family: "reassigned-cur-passed-to-cur-call", name: "reassign-wrapped", victim: true, types: rvHelper + rvWrapA, body: `cur = wrapA{s, victim}
	helper(cur, me, u)`},
	{family: "reassigned-cur-passed-to-cur-call", name: "shadow-helper", types: rvHelper, body: `{
		cur := s
		helper(cur, me, u)
	}`},
}

var rvUses = []string{"realm-send", "issue-send", "origin-send", "mint", "sub-send", "cross-origin"}

func rvPkg(i int) string  { return fmt.Sprintf("aw%02d", i) }
func rvPath(i int) string { return "gno.land/r/verif/" + rvPkg(i) }

func rvSource(i int) string {
	k := rvKinds[i]
	return "package " + rvPkg(i) + `

import (
	"chain"
	"chain/banker"

	"gno.land/r/verif/vv"
)

func coins(amt int64) chain.Coins { return chain.NewCoins(chain.NewCoin("ugnot", amt)) }

func Deposit(cur realm) {}
` + k.types + `
// what the attacker does with the realm value it obtained; stolen coins go to the attacker package (me)
func use(me address, u string, rlm realm) {
	switch u {
	case "realm-send":
		banker.NewBanker(banker.BankerTypeRealmSend, rlm).SendCoins(rlm.Address(), me, coins(600))
	case "issue-send":
		banker.NewBanker(banker.BankerTypeRealmIssue, rlm).SendCoins(rlm.Address(), me, coins(600))
	case "origin-send":
		banker.NewBanker(banker.BankerTypeOriginSend, rlm).SendCoins(rlm.Address(), me, coins(300))
	case "mint":
		banker.NewBanker(banker.BankerTypeRealmIssue, rlm).IssueCoin(me, chain.CoinDenom(rlm.PkgPath(), "coin"), 1000)
	case "sub-send":
		sub := rlm.Sub("vault")
		banker.NewBanker(banker.BankerTypeRealmSend, sub).SendCoins(sub.Address(), me, coins(600))
	case "cross-origin":
		vv.SpendOrigin(cross(rlm), me, 300)
	default:
		panic("unknown use")
	}
}

func Go(cur realm, src string, u string, victim address, vpath string) {
	me := cur.Address()
	s := cur
	if src == "prev" {
		s = cur.Previous()
	}
	_, _ = victim, vpath
	` + k.body + `
}
`
}

func vhSource(deployed []int) string {
	var imp, cases strings.Builder
	for _, i := range deployed {
		fmt.Fprintf(&imp, "\t%q\n", rvPath(i))
		fmt.Fprintf(&cases, "\tcase %q:\n\t\t%s.Go(cross(cur), src, u, victim, vpath)\n", rvPkg(i), rvPkg(i))
	}
	return `package vh

import (
` + imp.String() + `)

func Deposit(cur realm) {}

// a hook-style callout: attacker code runs with vh as its caller
func CallAtk(cur realm, pkg string, src string, u string, victim address, vpath string) {
	switch pkg {
` + cases.String() + `	default:
		panic("attacker package not deployed")
	}
}
`
}

var (
	addrH      = gnolang.DerivePkgCryptoAddr(pathH)
	addrHVault = gnolang.DerivePkgCryptoAddr(pathH + "#vault")
	denomH     = "/" + pathH + ":coin"

	rvMu       sync.Mutex
	rvDeployed map[int]string // kind index -> "" (deployed) or the first line of the refusal
)

func rvAddr(i int) crypto.Address      { return gnolang.DerivePkgCryptoAddr(rvPath(i)) }
func rvVaultAddr(i int) crypto.Address { return gnolang.DerivePkgCryptoAddr(rvPath(i) + "#vault") }
func rvDenom(i int) string             { return "/" + rvPath(i) + ":coin" }

func rvInit() {
	names[addrH], names[addrHVault] = "realm vh", "vh#vault"
	names[gnolang.DeriveStorageDepositCryptoAddr(pathH)] = "vh storage-deposit"
	splitAll = append(append([]string{}, splitCore...), denomH)
	knownDenoms[denomH] = true
	for i, k := range rvKinds {
		names[rvAddr(i)] = "attacker " + rvPkg(i) + " (" + k.name + ")"
		names[rvVaultAddr(i)] = "attacker " + rvPkg(i) + "#vault"
		names[gnolang.DeriveStorageDepositCryptoAddr(rvPath(i))] = rvPkg(i) + " storage-deposit"
		splitAll = append(splitAll, rvDenom(i))
	}
	for a := range names {
		knownAll = append(knownAll, a)
	}
}

func rvBalances() []gnoland.Balance {
	bs := []gnoland.Balance{{Address: addrH, Amount: ug(5_000_000)}, {Address: addrHVault, Amount: ug(2_000_000)}}
	for i := range rvKinds {
		bs = append(bs, gnoland.Balance{Address: rvAddr(i), Amount: ug(1_000_000)}, gnoland.Balance{Address: rvVaultAddr(i), Amount: ug(1_000_000)})
	}
	return bs
}

// rvDeploy: block 1 = one MsgAddPackage per transform package (signed by A), then vh generated from the successes.
func rvDeploy(c *chainx.Chain) {
	rvChains.Store(c, true)
	c.BeginBlock()
	dep := map[int]string{}
	var ok []int
	for i := range rvKinds {
		tx := c.MakeTx(keys, []std.Msg{chainx.AddPkg(A.Addr, rvPath(i), map[string]string{"a.gno": rvSource(i)})}, chainx.TxOpt{GasWanted: 1_000_000_000})
		res := c.DeliverTx(tx)
		if res.Error != nil {
			dep[i] = firstLine(res.Log)
			if strings.Contains(res.Log, "out of gas") || strings.Contains(res.Log, "signature verification failed") {
				r.HarnessError("deploying %s: %s", rvPkg(i), firstLine(res.Log))
			}
			continue
		}
		dep[i] = ""
		ok = append(ok, i)
	}
	tx := c.MakeTx(keys, []std.Msg{chainx.AddPkg(B.Addr, pathH, map[string]string{"h.gno": vhSource(ok)})}, chainx.TxOpt{GasWanted: 1_000_000_000})
	if res := c.DeliverTx(tx); res.Error != nil {
		r.HarnessError("deploying vh: %s", firstLine(res.Log))
	}
	c.EndBlockCommit()
	rvMu.Lock()
	if rvDeployed == nil {
		rvDeployed = dep
	} else if fmt.Sprint(rvDeployed) != fmt.Sprint(dep) {
		r.HarnessError("generated packages deployed differently on two chains: %v vs %v", rvDeployed, dep)
	}
	rvMu.Unlock()
	if dep[0] != "" {
		r.HarnessError("the control package (identity transform) did not deploy: %s", dep[0])
	}
}

func rvDeployedCount() int {
	n := 0
	for _, v := range rvDeployed {
		if v == "" {
			n++
		}
	}
	return n
}

func rvDeployReport() map[string]string {
	out := map[string]string{}
	for i, k := range rvKinds {
		v, seen := rvDeployed[i]
		switch {
		case !seen:
			v = "(not run)"
		case v == "":
			v = "deployed"
		default:
			v = "refused at deploy: " + v
		}
		out[rvPkg(i)+" "+k.name] = v
	}
	return out
}

// rvOps: the full product; ops on packages that were refused at deploy stay in (they fail: "unknown package").
func rvOps() []*opDef {
	var ops []*opDef
	type vic struct {
		name string
		addr crypto.Address
		path string
	}
	vics := []vic{{"userB", B.Addr, pathV}, {"realm-vv", addrV, pathV}, {"realm-vh", addrH, pathH}}
	for i, k := range rvKinds {
		for _, src := range []string{"cur", "prev"} {
			for _, u := range rvUses {
				for _, entry := range []string{"user-call", "from-realm-vh"} {
					vs := vics[:1]
					if k.victim {
						vs = vics
					}
					for _, v := range vs {
						i, k, src, u, entry, v := i, k, src, u, entry, v
						var send int64
						if u == "origin-send" || u == "cross-origin" {
							send = 400
						}
						op := &opDef{signer: &A, attack: true, fullScan: u == "mint"}
						op.key = fmt.Sprintf("rv:%s:%s:%s:%s", k.name, src, u, entry)
						if k.victim {
							op.key += ":" + v.name
						}
						op.name = op.key
						op.group = "rv:" + k.family
						args := []string{src, u, v.addr.String(), v.path}
						if entry == "user-call" {
							op.msgs = call(&A, send, rvPath(i), "Go", args...)
						} else {
							op.msgs = call(&A, send, pathH, "CallAtk", append([]string{rvPkg(i)}, args...)...)
						}
						op.self = []crypto.Address{rvAddr(i), rvVaultAddr(i)}
						op.selfDenoms = []string{rvDenom(i)}
						if u == "cross-origin" {
							op.origin = []crypto.Address{addrV}
						}
						op.after = func(failed, finding bool) {
							cl := "realm-value-program:" + k.name + ":"
							switch {
							case finding:
								cl += "VIOLATION"
							case failed:
								cl += "refused"
							default:
								cl += "ran (moved only the attacker's own coins, or nothing)"
							}
							r.Outcome(cl)
							r.Distinct(op.key)
						}
						ops = append(ops, op)
					}
				}
			}
		}
	}
	return ops
}
