// The origin-send denomination matrix: a user call into vv carrying a Send set, and vv's own code spending through ONE
// OriginSend banker in one or two SendCoins of one or two coins each, over three denominations the realm HOLDS (ugnot,
// a second plain denomination, the realm's own issued denomination) whether or not they came with the call.
//
// Reference model (boring): per denomination, the running total handed to SendCoins must stay <= what came with the
// call; otherwise the tx must not move anything. Checked as the statement puts it: whatever the program, vv never ends
// the tx with less of ANY denomination than it had before it (the generic oracle's origin rule), and the payee never
// receives more than the model allows.
package main

import (
	"fmt"
	"strconv"

	"github.com/gnolang/gno/gno.land/pkg/sdk/vm"
	"github.com/gnolang/gno/tm2/pkg/crypto"
	"github.com/gnolang/gno/tm2/pkg/sdk/bank"
	"github.com/gnolang/gno/tm2/pkg/std"
)

type ocoin struct {
	denom string
	amt   int64
}

func (c ocoin) String() string {
	if c.amt == 0 {
		return "-"
	}
	return strconv.FormatInt(c.amt, 10) + shortDenom(c.denom)
}

func shortDenom(d string) string {
	switch d {
	case denomV:
		return "vvcoin"
	}
	return d
}

// originModel: does the reference model accept the program (two sends of two optional coins) under sent? If not, why
// (the first rule broken).
func originModel(sent std.Coins, prog [4]ocoin) (bool, string) {
	spent := map[string]int64{}
	for s := 0; s < 2; s++ {
		seen := map[string]bool{}
		for _, c := range prog[2*s : 2*s+2] {
			if c.amt == 0 {
				continue
			}
			if c.amt < 0 {
				return false, "negative-amount"
			}
			if seen[c.denom] {
				return false, "denomination-repeated-in-one-send"
			}
			seen[c.denom] = true
			before := spent[c.denom]
			spent[c.denom] += c.amt
			switch have := sent.AmountOf(c.denom); {
			case have == 0 && len(sent) == 0:
				return false, "nothing-came-with-the-call"
			case have == 0:
				return false, "denomination-did-not-come-with-the-call"
			case c.amt > have:
				return false, "one-send-above-what-came-with-the-call"
			case before+c.amt > have:
				return false, "sends-add-up-above-what-came-with-the-call"
			}
		}
	}
	return true, "within-the-limit"
}

func originOps(thorough bool) []*opDef {
	denoms := []string{"ugnot", denomX, denomV}
	amts, amts2 := []int64{1, 200, 400, 401}, []int64{1, 400}
	if thorough {
		amts = []int64{-1, 1, 200, 399, 400, 401}
		amts2 = amts
	}
	coinsOf := func(as []int64) (out []ocoin) {
		for _, d := range denoms {
			for _, a := range as {
				out = append(out, ocoin{d, a})
			}
		}
		return
	}
	single, pairCoins := coinsOf(amts), coinsOf(amts2)
	none := ocoin{}
	// first SendCoins: one coin, or two coins (both orders, so unsorted sets occur; the same denomination twice for a
	// few); second SendCoins: none or one coin (after a two-coin first send, quick: one amount per denomination)
	type prog struct {
		first  [2]ocoin
		second ocoin
	}
	var progs []prog
	seconds := append([]ocoin{none}, single...)
	for _, c := range single {
		for _, s2 := range seconds {
			progs = append(progs, prog{[2]ocoin{c, none}, s2})
		}
	}
	seconds2 := seconds
	if !thorough {
		seconds2 = []ocoin{none, {"ugnot", 400}, {denomX, 400}, {denomV, 400}}
	}
	for _, c1 := range pairCoins {
		for _, c2 := range pairCoins {
			if c1.denom == c2.denom && !(thorough || c1.amt <= c2.amt) {
				continue
			}
			for _, s2 := range seconds2 {
				progs = append(progs, prog{[2]ocoin{c1, c2}, s2})
			}
		}
	}
	sends := []std.Coins{
		nil,
		{std.NewCoin("ugnot", 400)},
		{std.NewCoin(denomX, 400)},
		{std.NewCoin(denomX, 400), std.NewCoin("ugnot", 400)},
	}
	var ops []*opDef
	for _, sent := range sends {
		for _, pg := range progs {
			{
				sent, prog := sent, [4]ocoin{pg.first[0], pg.first[1], pg.second, none}
				okModel, why := originModel(sent, prog)
				op := &opDef{signer: &A, attack: !okModel, origin: []crypto.Address{addrV}, group: "originx:" + why}
				sn := "nothing"
				if len(sent) > 0 {
					sn = sent.String()
				}
				op.name = fmt.Sprintf("originx: Send=%s vv spends [%v %v][%v]", sn, prog[0], prog[1], prog[2])
				op.msgs = func() []std.Msg {
					args := []string{C.Addr.String()}
					for _, c := range prog {
						d := c.denom
						if d == "" {
							d = "ugnot"
						}
						args = append(args, d, strconv.FormatInt(c.amt, 10))
					}
					return []std.Msg{vm.MsgCall{Caller: A.Addr, Send: sent, PkgPath: pathV, Func: "SpendOriginSeq", Args: args}}
				}
				op.after = func(failed, finding bool) {
					cl := "origin-send-program:"
					switch {
					case finding:
						cl += "VIOLATION"
					case okModel && !failed:
						cl += "within the limit, executed"
					case okModel && failed:
						cl += "within the limit, refused"
					case !okModel && failed:
						cl += "beyond the limit, refused"
					default:
						cl += "beyond the limit yet executed without loss (?)"
					}
					r.Outcome(cl)
					r.Distinct(op.name)
				}
				ops = append(ops, op)
			}
		}
	}
	return ops
}

// menuExtra: state-setting ops for the families above plus representatives of them, so that they also take part in the
// multi-transaction histories.
func menuExtra() []opDef {
	xsend := func(coins std.Coins, fn string, args ...string) func() []std.Msg {
		return func() []std.Msg {
			return []std.Msg{vm.MsgCall{Caller: A.Addr, Send: coins, PkgPath: pathV, Func: fn, Args: args}}
		}
	}
	seq := func(p ...string) []string { return append([]string{C.Addr.String()}, p...) }
	ex := []opDef{
		{name: "bank.send B->C 200 ugnot (B's key becomes known)", signer: &B, msgs: func() []std.Msg {
			return []std.Msg{bank.MsgSend{FromAddress: B.Addr, ToAddress: C.Addr, Amount: ug(200)}}
		}},
		{name: "vv.Mint 1000 ->vv (realm holds its own denomination)", signer: &A, msgs: call(&A, 0, pathV, "Mint", addrV.String(), "1000"), mint: map[string]int64{denomV: 1000}},
		// origin send across denominations
		{name: "vv.SpendOriginSeq 300atom of Send 400ugnot", signer: &A, attack: true, origin: []crypto.Address{addrV},
			msgs: xsend(ug(400), "SpendOriginSeq", seq("atom", "300", "ugnot", "0", "ugnot", "0", "ugnot", "0")...)},
		{name: "vv.SpendOriginSeq 400ugnot+1vvcoin of Send 400ugnot", signer: &A, attack: true, origin: []crypto.Address{addrV},
			msgs: xsend(ug(400), "SpendOriginSeq", seq("ugnot", "400", denomV, "1", "ugnot", "0", "ugnot", "0")...)},
		{name: "vv.SpendOriginSeq 300atom then 400ugnot of Send 300atom+400ugnot", signer: &A, origin: []crypto.Address{addrV},
			msgs: xsend(std.Coins{std.NewCoin(denomX, 300), std.NewCoin("ugnot", 400)}, "SpendOriginSeq", seq("atom", "300", "ugnot", "0", "ugnot", "400", "ugnot", "0")...)},
		// a persisted OriginSend banker: the limit is the Send of the tx it is USED in
		{name: "att.KeepOrigin with Send 400 (store an OriginSend banker)", signer: &A, msgs: call(&A, 400, pathE, "KeepOrigin")},
		{name: "att.UseKeptOrigin 400ugnot without Send", signer: &B, attack: true, origin: []crypto.Address{addrE}, msgs: call(&B, 0, pathE, "UseKeptOrigin", B.Addr.String(), "ugnot", "400")},
		{name: "att.UseKeptOrigin 400ugnot with Send 400", signer: &B, origin: []crypto.Address{addrE}, msgs: call(&B, 400, pathE, "UseKeptOrigin", B.Addr.String(), "ugnot", "400")},
	}
	// representatives of the forged-message family
	for _, op := range forgeOps() {
		switch op.name {
		case "forged: MsgRun Caller=A Path=run-path-of-userB script=realm-send-cur",
			"forged: MsgRun Caller=A Path=run-path-of-realm-vv-address script=realm-send-cur",
			"forged: MsgCall Caller=B Send=800 att.Deposit sig=forger-key":
			o := *op
			o.after = nil
			ex = append(ex, o)
		}
	}
	return ex
}
