package main

import (
	"fmt"
	"strings"
)

// famCmp: == / != / switch on COMPOSITE values (arrays, structs, nested, arrays of structs, structs with array
// fields, interface-typed fields) whose float leaves run over {NaN, +0, -0, 1.5, +Inf}.  Equality of composites is
// element-wise, so it is not reflexive (a value holding a NaN differs from itself) and +0 == -0.  Every composite
// type is compared
//   - with ITSELF through every way two operands can denote the very same object: the same variable, two pointers to
//     it, the same slice / array / map element indexed twice (constant and run-time index), the same field selected
//     twice (directly and through a pointer), switch x { case x }, the range variable, a closure, both arguments of
//     a function, the same interface value, two interface values made from it;
//   - with copies (assignment, array element, function result) holding each value of the menu, and with a value that
//     differs only in a non-float component;
//   - as a map key (a key holding NaN is never found again).
func famCmp() *family {
	f := &family{name: "composite_cmp", imports: []string{"math"},
		doc: "==, != and switch on 17 composite types (arrays, structs, nested arrays/structs, arrays of structs with float fields, structs with array / pointer / interface / blank fields, named float, zero-length) x float leaf in {NaN,+0,-0,1.5,+Inf} x 40 operand shapes: the same object reached twice (same variable, two pointers, indexed twice in slice/array/map, field twice, switch on itself, range variable, closure, function arguments, interface-wrapped) and copies holding every menu value; composite map keys; uncomparable dynamic types behind interface fields"}
	f.prelude = `
var cvals = []float64{math.NaN(), 0, math.Copysign(0, -1), 1.5, math.Inf(1)}
var cnames = []string{"nan", "+0", "-0", "1.5", "+inf"}

type cIn struct{ f float64 }
type cFK struct {
	f float64
	k int
}
type cMyF float64

func bs(b bool) string {
	if b {
		return "T"
	}
	return "F"
}
`
	type ct struct {
		name, typ, mk string // mk: expression building the value from (v float64, k int)
		unit          string // types are grouped into a few large units (large units are reported by case label, not delta-debugged)
	}
	types := []ct{
		{"arr2f64", "[2]float64", "[2]float64{float64(k), v}", "arrays"},
		{"arr2f32", "[2]float32", "[2]float32{float32(v), float32(k)}", "arrays"},
		{"arr1f64", "[1]float64", "[1]float64{v}", "arrays"},
		{"structFI", "struct {\n\tf float64\n\tn int\n}", "%T{v, k}", "structs"},
		{"structSF32", "struct {\n\ts string\n\tf float32\n}", "%T{\"s\" + itoa(k), float32(v)}", "structs"},
		{"arr2x2", "[2][2]float64", "[2][2]float64{{1, float64(k)}, {v, 2}}", "arrays"},
		{"nested", "struct {\n\tin cIn\n\tn  int\n}", "%T{cIn{v}, k}", "structs"},
		{"arrOfStruct", "[2]cFK", "[2]cFK{{1, k}, {v, 2}}", "mixed"},
		{"structArr", "struct {\n\tarr [2]float32\n\tk   int\n}", "%T{[2]float32{3, float32(v)}, k}", "mixed"},
		{"structPtr", "struct {\n\tp *int\n\tf float64\n\tk int\n}", "%T{&cAnchor, v, k}", "refs"},
		{"structIface", "struct {\n\ti interface{}\n\tn int\n}", "%T{v, k}", "refs"},
		{"arrIface", "[2]interface{}", "[2]interface{}{k, v}", "refs"},
		{"structBlank", "struct {\n\t_ int\n\tf float64\n\tk int\n}", "%T{f: v, k: k}", "structs"},
		{"namedFloat", "struct {\n\tf cMyF\n\tk int\n}", "%T{cMyF(v), k}", "structs"},
		{"deep", "struct {\n\ta [2]cFK\n\ts struct{ g [1]float32 }\n\tk int\n}", "func() (d %T) {\n\t\td.a = [2]cFK{{2, 2}, {v, 1}}\n\t\td.k = k\n\t\treturn\n\t}()", "mixed"},
		{"noFloat", "struct {\n\ta [2]int\n\ts string\n}", "%T{[2]int{k, 7}, \"s\"}", "structs"},
		{"arr0", "[0]float64", "[0]float64{}", "arrays"},
	}
	f.prelude += "\nvar cAnchor int\n"
	unitDecls := map[string]*strings.Builder{}
	var unitOrder []string
	for _, t := range types {
		T := "c_" + t.name
		mk := strings.ReplaceAll(t.mk, "%T", T)
		if unitDecls[t.unit] == nil {
			unitDecls[t.unit] = &strings.Builder{}
			unitOrder = append(unitOrder, t.unit)
		}
		b := unitDecls[t.unit]
		fmt.Fprintf(b, "type %s %s\n\n", T, t.typ)
		fmt.Fprintf(b, "func %s_mk(v float64, k int) %s {\n\treturn %s\n}\n\n", T, T, mk)
		fmt.Fprintf(b, "func %s_eq(a, b %s) bool {\n\treturn a == b\n}\n\n", T, T)
		fmt.Fprintf(b, "func %s_eqp(a, b *%s) bool {\n\treturn *a == *b\n}\n\n", T, T)
		fmt.Fprintf(b, "func %s_id(a %s) %s {\n\treturn a\n}\n\n", T, T, T)
		fmt.Fprintf(b, "func u_%s() {\n", t.name)
		b.WriteString("\tfor vi, v := range cvals {\n")
		fmt.Fprintf(b, "\t\tlbl := \"cmp %s \" + cnames[vi]\n", t.name)
		fmt.Fprintf(b, "\t\tx := %s_mk(v, 0)\n", T)
		w := func(form, expr string) { fmt.Fprintf(b, "\t\tprintln(lbl, %q, bs(%s))\n", form, expr) }
		w("x==x", "x == x")
		w("x!=x", "x != x")
		w("!(x==x)", "!(x == x)")
		b.WriteString("\t\tp, q := &x, &x\n")
		w("*p==*q", "*p == *q")
		w("*p!=*q", "*p != *q")
		w("*p==x", "*p == x")
		w("x==*q", "x == *q")
		w("*p==*p", "*p == *p")
		fmt.Fprintf(b, "\t\trows := []%s{%s_mk(1.5, 1), x, x}\n\t\ti := len(rows) - 2\n", T, T)
		w("rows[1]==rows[1]", "rows[1] == rows[1]")
		w("rows[i]==rows[i]", "rows[i] == rows[i]")
		w("rows[i]!=rows[i]", "rows[i] != rows[i]")
		w("rows[1]==rows[2]", "rows[1] == rows[2]")
		w("rows[i]==x", "rows[i] == x")
		b.WriteString("\t\tpr := &rows[i]\n")
		w("*pr==rows[i]", "*pr == rows[i]")
		fmt.Fprintf(b, "\t\tarr := [2]%s{x, x}\n", T)
		w("arr[1]==arr[1]", "arr[1] == arr[1]")
		w("arr[i]==arr[i]", "arr[i] == arr[i]")
		w("arr[0]==arr[1]", "arr[0] == arr[1]")
		w("arr==arr", "arr == arr")
		w("arr!=arr", "arr != arr")
		fmt.Fprintf(b, "\t\tm := map[string]%s{\"k\": x}\n", T)
		w("m[k]==m[k]", `m["k"] == m["k"]`)
		w("m[k]==x", `m["k"] == x`)
		fmt.Fprintf(b, "\t\th := struct {\n\t\t\tf %s\n\t\t\tz int\n\t\t}{x, 1}\n\t\thp := &h\n", T)
		w("h.f==h.f", "h.f == h.f")
		w("hp.f==h.f", "hp.f == h.f")
		w("hp.f!=hp.f", "hp.f != hp.f")
		w("h==h", "h == h")
		w("*hp==h", "*hp == h")
		b.WriteString("\t\tswitch x {\n\t\tcase x:\n\t\t\tprintln(lbl, \"switch x case x\", \"T\")\n\t\tdefault:\n\t\t\tprintln(lbl, \"switch x case x\", \"F\")\n\t\t}\n")
		b.WriteString("\t\tswitch rows[i] {\n\t\tcase rows[0]:\n\t\t\tprintln(lbl, \"switch rows[i] case rows[0],rows[i]\", \"0\")\n\t\tcase rows[i]:\n\t\t\tprintln(lbl, \"switch rows[i] case rows[0],rows[i]\", \"T\")\n\t\tdefault:\n\t\t\tprintln(lbl, \"switch rows[i] case rows[0],rows[i]\", \"F\")\n\t\t}\n")
		b.WriteString("\t\tswitch *p {\n\t\tcase *q:\n\t\t\tprintln(lbl, \"switch *p case *q\", \"T\")\n\t\tdefault:\n\t\t\tprintln(lbl, \"switch *p case *q\", \"F\")\n\t\t}\n")
		b.WriteString("\t\tvar e1, e2 interface{} = x, x\n")
		w("iface e1==e2", "e1 == e2")
		w("iface e1==e1", "e1 == e1")
		w("iface e1!=e1", "e1 != e1")
		w("iface(x)==iface(x)", "interface{}(x) == interface{}(x)")
		w("iface e1==x", "e1 == x")
		b.WriteString("\t\tswitch e1 {\n\t\tcase e1:\n\t\t\tprintln(lbl, \"switch e1 case e1\", \"T\")\n\t\tdefault:\n\t\t\tprintln(lbl, \"switch e1 case e1\", \"F\")\n\t\t}\n")
		fmt.Fprintf(b, "\t\tif xe, ok := e1.(%s); ok {\n\t\t\tprintln(lbl, \"e1.(T)==x\", bs(xe == x), bs(xe == xe))\n\t\t}\n", T)
		w("eq(x,x)", T+"_eq(x, x)")
		w("eqp(&x,&x)", T+"_eqp(&x, &x)")
		w("eqp(p,q)", T+"_eqp(p, q)")
		w("id(x)==x", T+"_id(x) == x")
		b.WriteString("\t\tcl := func() bool {\n\t\t\treturn x == x\n\t\t}\n")
		w("closure x==x", "cl()")
		b.WriteString("\t\tfor ri, rv := range rows {\n\t\t\tprintln(lbl, \"range v==v\", ri, bs(rv == rv), bs(rv == rows[ri]), bs(rv != rv))\n\t\t}\n")
		b.WriteString("\t\tfor ri, rv := range arr {\n\t\t\tprintln(lbl, \"range arr v==v\", ri, bs(rv == rv), bs(rv == arr[ri]))\n\t\t}\n")
		b.WriteString("\t\ty := x\n")
		w("copy x==y", "x == y")
		w("copy x!=y", "x != y")
		w("copy y==x", "y == x")
		b.WriteString("\t\tpy := &y\n")
		w("copy *p==*py", "*p == *py")
		b.WriteString("\t\tfor wi, wv := range cvals {\n")
		fmt.Fprintf(b, "\t\t\tz := %s_mk(wv, 0)\n", T)
		b.WriteString("\t\t\tprintln(lbl, \"x==mk(w)\", cnames[wi], bs(x == z), bs(x != z), bs(z == x))\n")
		b.WriteString("\t\t}\n")
		fmt.Fprintf(b, "\t\tz2 := %s_mk(v, 1)\n", T)
		w("x==other-k", "x == z2")
		w("x!=other-k", "x != z2")
		fmt.Fprintf(b, "\t\tmk := map[%s]int{}\n\t\tmk[x] = 1\n\t\tmk[x] = 2\n\t\t_, found := mk[x]\n", T)
		b.WriteString("\t\tprintln(lbl, \"map key\", len(mk), bs(found))\n")
		b.WriteString("\t}\n}\n\n")
	}
	for _, un := range unitOrder {
		b := unitDecls[un]
		fmt.Fprintf(b, "func ug_%s() {\n", un)
		var names []string
		for _, t := range types {
			if t.unit == un {
				fmt.Fprintf(b, "\tu_%s()\n", t.name)
				names = append(names, t.name)
			}
		}
		b.WriteString("}\n")
		f.units = append(f.units, unit{key: "comparisons of " + strings.Join(names, ", "), decls: b.String(), fn: "ug_" + un})
	}
	// uncomparable dynamic types behind an interface-typed field / element: the comparison must panic (also when both
	// operands are the same object), unless an earlier component already decides it.
	{
		var b strings.Builder
		b.WriteString("type cU struct {\n\tn int\n\ti interface{}\n}\n\n")
		b.WriteString("func cTry(name string, fn func() bool) {\n\tdefer func() {\n\t\tif e := recover(); e != nil {\n\t\t\tprintln(\"cmp uncomparable\", name, msg(e))\n\t\t}\n\t}()\n\tprintln(\"cmp uncomparable\", name, bs(fn()))\n}\n\n")
		b.WriteString("func u_uncomparable() {\n")
		b.WriteString("\tx := cU{1, []int{1}}\n\ty := cU{2, []int{1}}\n\tp, q := &x, &x\n\tax := [2]interface{}{1, map[string]int{}}\n\tay := [2]interface{}{2, map[string]int{}}\n")
		b.WriteString("\tvar e interface{} = x\n\tfn := func() {}\n\tvar ef interface{} = fn\n\trows := []cU{x}\n")
		for _, c := range [][2]string{
			{"x==x", "x == x"}, {"x!=x", "x != x"}, {"*p==*q", "*p == *q"}, {"rows[0]==rows[0]", "rows[0] == rows[0]"},
			{"x==y first field decides", "x == y"}, {"ax==ax", "ax == ax"}, {"ax==ay first element decides", "ax == ay"},
			{"e==e", "e == e"}, {"ef==ef", "ef == ef"}, {"e==ef", "e == ef"},
		} {
			fmt.Fprintf(&b, "\tcTry(%q, func() bool {\n\t\treturn %s\n\t})\n", c[0], c[1])
		}
		b.WriteString("}\n")
		f.units = append(f.units, unit{key: "uncomparable dynamic types", decls: b.String(), fn: "u_uncomparable"})
	}
	return f
}

func famKeyedLit() *family {
	g := &family{name: "keyed_literal", doc: "keyed composite literals of struct types that have a field of anonymous struct type: naming the 1st/2nd/3rd field after it, and the field itself"}
	// keyed composite literals of struct types with a field of ANONYMOUS struct type (found while writing the "deep"
	// type of famCmp: the GnoVM cannot name the fields that follow such a field in a keyed literal); a family of its own
	// because a unit the GnoVM rejects makes the harness run the rest of its family again
	{
		var b strings.Builder
		b.WriteString("type cK1 struct {\n\ta int\n\ts struct{ g int }\n\tk int\n}\n\n")
		b.WriteString("type cK2 struct {\n\ta int\n\ts struct{ g, h int }\n\tk int\n\tl int\n\tm int\n}\n\n")
		b.WriteString("func u_keyed() {\n")
		b.WriteString("\tx := cK1{a: 1, k: 2}\n\tprintln(\"keyed literal after anonymous struct field\", x.a, x.s.g, x.k)\n")
		b.WriteString("\ty := cK2{m: 5, a: 1}\n\tprintln(\"keyed literal 3rd field after anonymous struct field\", y.a, y.k, y.l, y.m)\n")
		b.WriteString("\tz := cK2{l: 4}\n\tprintln(\"keyed literal 2nd field after anonymous struct field\", z.a, z.k, z.l, z.m)\n")
		b.WriteString("\tw := cK2{s: struct{ g, h int }{7, 8}, k: 3}\n\tprintln(\"keyed literal with the anonymous struct field\", w.s.g, w.s.h, w.k, w == w, w == z)\n")
		b.WriteString("}\n")
		g.units = append(g.units, unit{key: "keyed literal of a struct with an anonymous-struct field", decls: b.String(), fn: "u_keyed", noReduce: true})
	}
	return g
}
