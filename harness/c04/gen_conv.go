package main

import (
	"fmt"
	"strings"
)

// famConv: every conversion T1(v) for v over the boundary values of T2, all 12x12 pairs; float->int only where the
// truncated value is representable (else implementation-defined). Plus integer chains T1(T2(v)) for all 10x10x10.
func famConv(from ntype, thorough bool) *family {
	f := &family{name: "conv_" + from.name, doc: "conversions from " + from.name + " to each of the 12 numeric types (and 2-step integer chains)", imports: []string{"math"}}
	var vals []string
	var fbits []uint64
	if from.float {
		fbits = floatBits(from, false)
		for _, x := range fbits {
			if from.bits == 64 {
				vals = append(vals, fmt.Sprintf("math.Float64frombits(%#x)", x))
			} else {
				vals = append(vals, fmt.Sprintf("math.Float32frombits(%#x)", x))
			}
		}
	} else {
		for _, v := range intVals(from, false) {
			vals = append(vals, v.String())
		}
	}
	f.prelude = fmt.Sprintf("var vals = []%s{%s}\n", from.name, strings.Join(vals, ", "))
	for _, to := range numTypes() {
		id := "u_to_" + to.name
		var b strings.Builder
		fmt.Fprintf(&b, "func %s_f(v %s) %s { return %s(v) }\n", id, from.name, to.name, to.name)
		fmt.Fprintf(&b, "func %s() {\n", id)
		if from.float && !to.float {
			// only in-range inputs
			var idx []string
			for i, x := range fbits {
				if truncFits(from, x, to) {
					idx = append(idx, fmt.Sprint(i))
				}
			}
			fmt.Fprintf(&b, "\tfor _, i := range []int{%s} {\n\t\tprintln(%q, i, %s_f(vals[i]))\n\t}\n}\n", strings.Join(idx, ", "), from.name+"->"+to.name, id)
		} else {
			fmt.Fprintf(&b, "\tfor i, v := range vals {\n\t\tprintln(%q, i, %s)\n\t}\n}\n", from.name+"->"+to.name, show(to, id+"_f(v)"))
		}
		f.units = append(f.units, unit{key: from.name + "->" + to.name, decls: b.String(), fn: id})
	}
	if !from.float {
		for _, mid := range intTypes {
			id := "u_via_" + mid.name
			var b strings.Builder
			fmt.Fprintf(&b, "func %s() {\n\tfor i, v := range vals {\n", id)
			for _, to := range intTypes {
				fmt.Fprintf(&b, "\t\tprintln(%q, i, %s(%s(v)))\n", from.name+"->"+mid.name+"->"+to.name, to.name, mid.name)
			}
			// float detour where always in range: int -> float64 -> float32 -> bits
			fmt.Fprintf(&b, "\t\tprintln(%q, i, fb32(float32(float64(%s(v)))), fb64(float64(float32(%s(v)))))\n", from.name+"->"+mid.name+"->floats", mid.name, mid.name)
			b.WriteString("\t}\n}\n")
			f.units = append(f.units, unit{key: from.name + "->" + mid.name + "->*", decls: b.String(), fn: id})
		}
	}
	return f
}

var strMenu = []string{`""`, `"a"`, `"hello"`, `"héllo"`, `"\xff\xfe"`, `"日本\x80x"`, `"a\x00b"`, `"\xe6\x97"`, `"\xed\xa0\x80"`, `"\xf4\x90\x80\x80"`, `"\U0001F600!"`}

// famStrConv: string <-> rune / []byte / []rune conversions, incl. invalid UTF-8 and invalid code points.
func famStrConv() *family {
	f := &family{name: "strconv", doc: "string(rune), string(byte), []byte(s), []rune(s), string([]byte), string([]rune) over valid/invalid UTF-8 and code points"}
	f.prelude = "var strs = []string{" + strings.Join(strMenu, ", ") + "}\n" +
		"var runes = []int32{0, 0x41, 0x7f, 0x80, 0xe9, 0x7ff, 0x800, 0x65e5, 0xd7ff, 0xd800, 0xdfff, 0xe000, 0xfffd, 0xffff, 0x10000, 0x1f600, 0x10ffff, 0x110000, 0x7fffffff, -1, -2147483648}\n"
	f.units = append(f.units, unit{key: "string(rune)", fn: "u_sr", decls: `
func u_sr_f(v int32) string { return string(rune(v)) }
func u_sr() {
	for i, v := range runes {
		s := u_sr_f(v)
		println("string(rune)", i, len(s), hx(s))
	}
	for i := 0; i < 256; i++ {
		b := byte(i)
		println("string(byte)", i, hx(string(rune(b))), hx(string([]byte{b})))
	}
	for i, v := range []int64{65, 0x10ffff, 0x110000, -1, 1 << 40} {
		println("string(rune(int64))", i, hx(string(rune(v))))
	}
}
`})
	f.units = append(f.units, unit{key: "[]rune(s)", fn: "u_rs", decls: `
func u_rs() {
	for i, s := range strs {
		rs := []rune(s)
		acc := ""
		for _, c := range rs {
			acc += itoa(int(c)) + ","
		}
		println("[]rune(s)", i, len(rs), acc, hx(string(rs)))
		bs := []byte(s)
		println("[]byte(s)", i, len(bs), hx(string(bs)), string(bs) == s)
		if len(bs) > 0 {
			bs[0] = 'Z'
			println("[]byte copy", i, hx(s), hx(string(bs)))
		}
	}
}
`})
	f.units = append(f.units, unit{key: "string([]rune)", fn: "u_sr2", decls: `
func u_sr2() {
	for i := range runes {
		for j := range runes {
			rs := []rune{rune(runes[i]), 'x', rune(runes[j])}
			s := string(rs)
			back := []rune(s)
			println("string([]rune)", i, j, len(s), hx(s), len(back), back[0], back[len(back)-1])
		}
	}
}
`})
	return f
}
