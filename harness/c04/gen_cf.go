package main

import (
	"fmt"
	"strings"
)

// famCF: control-flow skeletons. Ten constructs, each with one hole, nested to the given depth; the innermost hole is
// filled with every control-transfer leaf that is valid in that context (trace, break, continue, labelled
// break/continue, return, panic). Every skeleton records a trace of markers, which is the compared observation.
type cfCtx struct {
	loop, sw bool
	label    string
}

type cfConstruct struct {
	name string
	gen  func(d int, inner string) string
	ctx  func(d int, c cfCtx) cfCtx
}

func cfConstructs() []cfConstruct {
	return []cfConstruct{
		{"for", func(d int, in string) string {
			return fmt.Sprintf("for i%[1]d := 0; i%[1]d < 3; i%[1]d++ {\ntr(\"a\")\nif i%[1]d == 1 {\n%[2]s\n}\ntr(\"b\")\n}\ntr(\"c\")", d, in)
		}, func(d int, c cfCtx) cfCtx { return cfCtx{true, false, c.label} }},
		{"labelled", func(d int, in string) string {
			return fmt.Sprintf("L%[1]d:\nfor i%[1]d := 0; i%[1]d < 3; i%[1]d++ {\nfor j%[1]d := 0; j%[1]d < 2; j%[1]d++ {\ntr(\"d\")\nif i%[1]d+j%[1]d == 2 {\n%[2]s\n}\nif j%[1]d == 9 {\ncontinue L%[1]d\n}\ntr(\"e\")\n}\ntr(\"f\")\n}", d, in)
		}, func(d int, c cfCtx) cfCtx { return cfCtx{true, false, fmt.Sprintf("L%d", d)} }},
		{"range", func(d int, in string) string {
			return fmt.Sprintf("for i%[1]d, v%[1]d := range []int{5, 6, 7} {\ntr(itoa(v%[1]d))\nif i%[1]d == 1 {\n%[2]s\n}\ntr(\"g\")\n}", d, in)
		}, func(d int, c cfCtx) cfCtx { return cfCtx{true, false, c.label} }},
		{"switch", func(d int, in string) string {
			return fmt.Sprintf("switch x%[1]d := 1; x%[1]d {\ncase 0:\ntr(\"h\")\ncase 1:\ntr(\"i\")\n%[2]s\ntr(\"j\")\nfallthrough\ncase 2:\ntr(\"k\")\ndefault:\ntr(\"l\")\n}\ntr(\"m\")", d, in)
		}, func(d int, c cfCtx) cfCtx { return cfCtx{c.loop, true, c.label} }},
		{"goto", func(d int, in string) string {
			return fmt.Sprintf("n%[1]d := 0\nG%[1]d:\ntr(\"n\")\nn%[1]d++\nif n%[1]d < 3 {\nif n%[1]d == 2 {\n%[2]s\n}\ngoto G%[1]d\n}\ntr(\"o\")", d, in)
		}, func(d int, c cfCtx) cfCtx { return c }},
		{"funclit", func(d int, in string) string {
			return fmt.Sprintf("tr(itoa(func() (r int) {\ndefer func() {\ntr(\"p\")\nr += 10\n}()\ndefer func() {\nif e := recover(); e != nil {\ntr(\"R\")\nr = 50\n}\n}()\n%[2]s\ntr(\"q\")\nreturn 1\n}()))", d, in)
		}, func(d int, c cfCtx) cfCtx { return cfCtx{} }},
		{"defer", func(d int, in string) string {
			return fmt.Sprintf("w%[1]d := 1\ndefer trn(\"D\", w%[1]d)\nw%[1]d = 2\ndefer func() {\ntrn(\"E\", w%[1]d)\n}()\nw%[1]d = 3\n%[2]s\ntr(\"s\")", d, in)
		}, func(d int, c cfCtx) cfCtx { return c }},
		{"closure", func(d int, in string) string {
			return fmt.Sprintf("var fs%[1]d []func()\nfor i%[1]d := 0; i%[1]d < 3; i%[1]d++ {\nfs%[1]d = append(fs%[1]d, func() {\ntr(itoa(i%[1]d))\n})\nif i%[1]d == 1 {\n%[2]s\n}\n}\nfor _, f%[1]d := range fs%[1]d {\nf%[1]d()\n}", d, in)
		}, func(d int, c cfCtx) cfCtx { return cfCtx{true, false, c.label} }},
		{"ifelse", func(d int, in string) string {
			return fmt.Sprintf("if y%[1]d := len(cfT); y%[1]d%%2 == 0 {\n%[2]s\ntr(\"t\")\n} else if y%[1]d > 3 {\ntr(\"u\")\n} else {\ntr(\"w\")\n}", d, in)
		}, func(d int, c cfCtx) cfCtx { return c }},
		{"forever", func(d int, in string) string {
			return fmt.Sprintf("m%[1]d := 0\nfor {\nm%[1]d++\nif m%[1]d > 2 {\nbreak\n}\ntr(\"y\")\n%[2]s\ntr(\"z\")\n}", d, in)
		}, func(d int, c cfCtx) cfCtx { return cfCtx{true, false, c.label} }},
	}
}

func cfLeaves(c cfCtx) [][2]string {
	l := [][2]string{{"trace", `tr("x")`}, {"return", "return 7"}, {"panic", `panic("q")`}}
	if c.loop || c.sw {
		l = append(l, [2]string{"break", "break"})
	}
	if c.loop {
		l = append(l, [2]string{"continue", "continue"})
	}
	if c.label != "" {
		l = append(l, [2]string{"break-label", "break " + c.label}, [2]string{"continue-label", "continue " + c.label})
	}
	return l
}

type cfProg struct{ key, body string }

func cfGen(depth int, c cfCtx) []cfProg {
	if depth == 0 {
		var out []cfProg
		for _, l := range cfLeaves(c) {
			out = append(out, cfProg{l[0], l[1]})
		}
		return out
	}
	var out []cfProg
	for _, k := range cfConstructs() {
		for _, in := range cfGen(depth-1, k.ctx(depth, c)) {
			out = append(out, cfProg{k.name + ">" + in.key, k.gen(depth, in.body)})
		}
	}
	return out
}

func famCF(depth int) *family {
	f := &family{name: fmt.Sprintf("ctrlflow_d%d", depth), group: "ctrlflow", doc: fmt.Sprintf("control-flow skeletons: 10 constructs (for, labelled nested for, range, switch+fallthrough, goto loop, func literal with defers+recover and named result, in-place defers with early-evaluated args, closures capturing the loop variable, if/else-if with init, for{} with break) nested to depth %d x every valid control-transfer leaf", depth)}
	f.prelude = `
var cfT string

func tr(s string) { cfT += s }

func trn(s string, n int) { cfT += s + itoa(n) }
`
	for i, p := range cfGen(depth, cfCtx{}) {
		id := fmt.Sprintf("u%d", i)
		var b strings.Builder
		fmt.Fprintf(&b, "func %s_body() (r int) {\n%s\nreturn 0\n}\n", id, p.body)
		fmt.Fprintf(&b, "func %s() {\ncfT = \"^\"\nres := -1\nfunc() {\ndefer func() {\nif e := recover(); e != nil {\ncfT += msg(e)\n}\n}()\nres = %s_body()\n}()\nprintln(\"CF\", %q, cfT, res)\n}\n", id, id, p.key)
		f.units = append(f.units, unit{key: p.key, decls: b.String(), fn: id})
	}
	return f
}

// famFT: scoping across `fallthrough`. A clause that declares variables falls through into a clause that declares
// its own: every pair of (declaration kind of the clause left) x (declaration kind of the clause entered), with and
// without a switch init statement, with and without a second fallthrough into default. Variables of the first clause
// are out of scope in the second (fresh zero values, own closures), and pointers to them taken earlier stay valid.
func famFT() *family {
	f := &family{name: "ctrlflow_ft", group: "ctrlflow", doc: "fallthrough scoping: 6 declaration kinds in the clause left (none, one var, two vars, closure-captured, address escaping the switch, string) x 7 in the clause entered (the same + zero-valued var decls) x switch init or not x second fallthrough into default or not"}
	f.prelude = "\nvar p, q *int\n"
	type kind struct{ name, code string }
	as := []kind{
		{"none", "println(\"FT\", \"A\")"},
		{"var", "a := 7\nprintln(\"FT\", \"A\", a)"},
		{"two", "a, a2 := 7, 8\nprintln(\"FT\", \"A\", a, a2)"},
		{"captured", "a := 7\nfa := func() {\na++\n}\nfa()\nprintln(\"FT\", \"A\", a)"},
		{"escaping", "a := 7\np = &a\nprintln(\"FT\", \"A\", a)"},
		{"string", "a := \"s\"\nprintln(\"FT\", \"A\", a)"},
	}
	bs := []kind{
		{"none", "println(\"FT\", \"B\")"},
		{"var", "b := 9\nprintln(\"FT\", \"B\", b)"},
		{"two", "b, b2 := 9, 10\nprintln(\"FT\", \"B\", b, b2)"},
		{"captured", "b := 9\nfb := func() {\nb++\n}\nfb()\nfb()\nprintln(\"FT\", \"B\", b)"},
		{"escaping", "b := 9\nq = &b\nprintln(\"FT\", \"B\", b)"},
		{"string", "b := \"t\"\nprintln(\"FT\", \"B\", b)"},
		{"zero", "var b int\nvar b2 string\nb++\nprintln(\"FT\", \"B\", b, b2 == \"\")"},
	}
	n := 0
	for _, init := range []bool{false, true} {
		for _, chain := range []bool{false, true} {
			for _, a := range as {
				for _, b := range bs {
					id := fmt.Sprintf("u%d", n)
					n++
					var s strings.Builder
					fmt.Fprintf(&s, "func %s() {\np, q = nil, nil\n", id)
					if init {
						s.WriteString("switch x := 1; x {\n")
					} else {
						s.WriteString("switch 1 {\n")
					}
					fmt.Fprintf(&s, "case 1:\n%s\nfallthrough\ncase 2:\n%s\n", a.code, b.code)
					if chain {
						s.WriteString("fallthrough\n")
					}
					s.WriteString("default:\nprintln(\"FT\", \"D\")\n}\n")
					s.WriteString("if p != nil {\nprintln(\"FT\", \"P\", *p)\n}\nif q != nil {\nprintln(\"FT\", \"Q\", *q)\n}\n}\n")
					f.units = append(f.units, unit{key: fmt.Sprintf("fallthrough init=%v chain=%v %s>%s", init, chain, a.name, b.name), decls: s.String(), fn: id})
				}
			}
		}
	}
	return f
}
