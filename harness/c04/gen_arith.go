package main

import (
	"fmt"
	"strings"
)

type binop struct {
	name, sym string
	intOnly   bool
	cmp       bool
	canPanic  bool // integer division / remainder by zero
}

var binops = []binop{
	{"add", "+", false, false, false}, {"sub", "-", false, false, false}, {"mul", "*", false, false, false},
	{"quo", "/", false, false, true}, {"rem", "%", true, false, true},
	{"and", "&", true, false, false}, {"or", "|", true, false, false}, {"xor", "^", true, false, false}, {"andnot", "&^", true, false, false},
	{"eq", "==", false, true, false}, {"ne", "!=", false, true, false}, {"lt", "<", false, true, false},
	{"le", "<=", false, true, false}, {"gt", ">", false, true, false}, {"ge", ">=", false, true, false},
}

// famArith: every binary operator (plain and compound-assignment form) x every ordered pair of boundary values, for each
// of the 12 numeric types, operands being variables (runtime semantics: wrap-around, truncated division, panics).
func famArith(t ntype, thorough bool) *family {
	f := &family{name: "arith_" + t.name, doc: "binary operators x ordered pairs of boundary values of " + t.name + " (variables; plain and op= forms; unary ops; ++/--)"}
	if t.float {
		f.imports = []string{"math"}
	}
	vname := "vals"
	decl, n := valueList(vname, t, false)
	f.prelude = decl
	T := t.name
	for _, op := range binops {
		if op.intOnly && t.float {
			continue
		}
		id := "u_" + op.name
		var b strings.Builder
		rt := T
		if op.cmp {
			rt = "bool"
		}
		pan := op.canPanic && !t.float
		if pan {
			fmt.Fprintf(&b, "func %s_f(a, b %s) (r %s, p string) {\n\tdefer func() {\n\t\tif e := recover(); e != nil {\n\t\t\tp = msg(e)\n\t\t}\n\t}()\n\tp = \"ok\"\n\tr = a %s b\n\treturn\n}\n", id, T, rt, op.sym)
			fmt.Fprintf(&b, "func %s_g(a, b %s) (r %s, p string) {\n\tdefer func() {\n\t\tif e := recover(); e != nil {\n\t\t\tp = msg(e)\n\t\t}\n\t}()\n\tp = \"ok\"\n\tr = a\n\tr %s= b\n\treturn\n}\n", id, T, rt, op.sym)
		} else {
			fmt.Fprintf(&b, "func %s_f(a, b %s) %s { return a %s b }\n", id, T, rt, op.sym)
			if !op.cmp {
				fmt.Fprintf(&b, "func %s_g(a, b %s) %s {\n\ta %s= b\n\treturn a\n}\n", id, T, rt, op.sym)
			}
		}
		fmt.Fprintf(&b, "func %s() {\n\tfor i, a := range %s {\n\t\tfor j, b := range %s {\n", id, vname, vname)
		switch {
		case pan:
			fmt.Fprintf(&b, "\t\t\tr, p := %s_f(a, b)\n\t\t\tprintln(%q, i, j, r, p)\n", id, T+" "+op.name)
			fmt.Fprintf(&b, "\t\t\tr, p = %s_g(a, b)\n\t\t\tprintln(%q, i, j, r, p)\n", id, T+" "+op.name+"=")
		case op.cmp:
			fmt.Fprintf(&b, "\t\t\tprintln(%q, i, j, %s_f(a, b))\n", T+" "+op.name, id)
		default:
			fmt.Fprintf(&b, "\t\t\tprintln(%q, i, j, %s)\n", T+" "+op.name, show(t, id+"_f(a, b)"))
			fmt.Fprintf(&b, "\t\t\tprintln(%q, i, j, %s)\n", T+" "+op.name+"=", show(t, id+"_g(a, b)"))
		}
		b.WriteString("\t\t}\n\t}\n}\n")
		f.units = append(f.units, unit{key: T + " " + op.name, decls: b.String(), fn: id})
	}
	// unary operators, ++/--, and a mixed-precedence expression
	{
		var b strings.Builder
		fmt.Fprintf(&b, "func u_un_neg(a %s) %s { return -a }\nfunc u_un_pos(a %s) %s { return +a }\n", T, T, T, T)
		fmt.Fprintf(&b, "func u_un_inc(a %s) %s {\n\ta++\n\treturn a\n}\nfunc u_un_dec(a %s) %s {\n\ta--\n\treturn a\n}\n", T, T, T, T)
		if !t.float {
			fmt.Fprintf(&b, "func u_un_not(a %s) %s { return ^a }\n", T, T)
		}
		b.WriteString("func u_un() {\n\tfor i, a := range " + vname + " {\n")
		for _, o := range []string{"neg", "pos", "inc", "dec", "not"} {
			if o == "not" && t.float {
				continue
			}
			fmt.Fprintf(&b, "\t\tprintln(%q, i, %s)\n", T+" "+o, show(t, "u_un_"+o+"(a)"))
		}
		b.WriteString("\t}\n}\n")
		f.units = append(f.units, unit{key: T + " unary", decls: b.String(), fn: "u_un"})
	}
	if !t.float {
		var b strings.Builder
		fmt.Fprintf(&b, "func u_mix_f(a, b %s) %s { return a + b*a - (b ^ a) &^ 3 | a>>1 }\n", T, T)
		fmt.Fprintf(&b, "func u_mix_g(a, b %s) bool { return a < b == (b > a) && a&b <= a|b || -a != ^a+1 }\n", T)
		b.WriteString("func u_mix() {\n\tfor i, a := range " + vname + " {\n\t\tfor j, b := range " + vname + " {\n")
		fmt.Fprintf(&b, "\t\t\tprintln(%q, i, j, u_mix_f(a, b), u_mix_g(a, b))\n", T+" mix")
		b.WriteString("\t\t}\n\t}\n}\n")
		f.units = append(f.units, unit{key: T + " mix", decls: b.String(), fn: "u_mix"})
	} else {
		var b strings.Builder
		fmt.Fprintf(&b, "func u_mix_f(a, b %s) %s { return a + b*a - (b-a)/2 }\n", T, T)
		b.WriteString("func u_mix() {\n\tfor i, a := range " + vname + " {\n\t\tfor j, b := range " + vname + " {\n")
		fmt.Fprintf(&b, "\t\t\tprintln(%q, i, j, %s)\n", T+" mix", show(t, "u_mix_f(a, b)"))
		b.WriteString("\t\t}\n\t}\n}\n")
		f.units = append(f.units, unit{key: T + " mix", decls: b.String(), fn: "u_mix"})
	}
	_ = n
	return f
}

// famDataByte: the same operators applied in place to elements of a []byte / [N]byte / named byte type / struct field
// (GnoVM stores byte-slice elements in a dedicated representation).
func famDataByte() *family {
	f := &family{name: "arith_elems", doc: "operators applied in place to []byte elements, array elements, struct fields, named types and through pointers"}
	decl, _ := valueList("vals", ntype{"uint8", 8, false, false}, false)
	decl16, _ := valueList("vals16", ntype{"int16", 16, true, false}, true)
	f.prelude = decl + decl16 + "type myb uint8\ntype rec struct {\n\ta int16\n\tb [2]int16\n}\n"
	for _, op := range binops {
		if op.cmp {
			continue
		}
		id := "u_" + op.name
		var b strings.Builder
		fmt.Fprintf(&b, "func %s_one(a, b uint8) (r1 uint8, r2 uint8, r3 uint8, p string) {\n\tdefer func() {\n\t\tif e := recover(); e != nil {\n\t\t\tp = msg(e)\n\t\t}\n\t}()\n\tp = \"ok\"\n", id)
		fmt.Fprintf(&b, "\tbs := []byte{a, b, 0}\n\tbs[2] = bs[0] %s bs[1]\n\tbs[0] %s= bs[1]\n\tr1 = bs[0] ^ bs[2]\n", op.sym, op.sym)
		fmt.Fprintf(&b, "\tvar ar [2]byte\n\tar[0], ar[1] = a, b\n\tpa := &ar\n\tpa[0] %s= ar[1]\n\tr2 = ar[0]\n", op.sym)
		fmt.Fprintf(&b, "\tx, y := myb(a), myb(b)\n\tpx := &x\n\t*px %s= y\n\tr3 = uint8(x)\n\treturn\n}\n", op.sym)
		fmt.Fprintf(&b, "func %s_rec(a, b int16) (r int16, p string) {\n\tdefer func() {\n\t\tif e := recover(); e != nil {\n\t\t\tp = msg(e)\n\t\t}\n\t}()\n\tp = \"ok\"\n", id)
		fmt.Fprintf(&b, "\tv := rec{a: a}\n\tv.b[1] = b\n\tv.a %s= v.b[1]\n\tq := &v\n\tq.b[0] = q.a %s q.b[1]\n\tr = v.b[0] ^ v.a\n\treturn\n}\n", op.sym, op.sym)
		fmt.Fprintf(&b, "func %s() {\n\tfor i, a := range vals {\n\t\tfor j, b := range vals {\n\t\t\tr1, r2, r3, p := %s_one(a, b)\n\t\t\tprintln(%q, i, j, r1, r2, r3, p)\n\t\t}\n\t}\n", id, id, "elems "+op.name)
		fmt.Fprintf(&b, "\tfor i, a := range vals16 {\n\t\tfor j, b := range vals16 {\n\t\t\tr, p := %s_rec(a, b)\n\t\t\tprintln(%q, i, j, r, p)\n\t\t}\n\t}\n}\n", id, "field "+op.name)
		f.units = append(f.units, unit{key: "elems " + op.name, decls: b.String(), fn: id})
	}
	return f
}

// famShift: every value type x every count type x boundary counts (0,1,w-1,w,w+1,63,64,65,..., negative for signed
// count types => run-time panic), for <<, >>, <<= and >>=.
func famShift(vt ntype) *family {
	f := &family{name: "shift_" + vt.name, doc: "shifts of " + vt.name + " by counts of every integer type (0,1,w-1,w,w+1,63,64,65,127,255,max; negative => panic)"}
	decl, _ := valueList("vals", vt, true)
	f.prelude = decl
	for _, ct := range intTypes {
		var cnts []string
		seen := map[string]bool{}
		addc := func(s string) {
			if !seen[s] {
				seen[s] = true
				cnts = append(cnts, s)
			}
		}
		for _, c := range []int64{0, 1, 2, int64(vt.bits) - 1, int64(vt.bits), int64(vt.bits) + 1, 7, 8, 9, 15, 16, 31, 32, 33, 63, 64, 65, 127, 128, 255, 256, 65535, 1 << 31, 1 << 32, -1, -2, -128} {
			v := bigInt(c)
			if ct.fits(v) {
				addc(v.String())
			}
		}
		addc(ct.max().String())
		addc(ct.min().String())
		id := "u_" + ct.name
		var b strings.Builder
		fmt.Fprintf(&b, "var %s_c = []%s{%s}\n", id, ct.name, strings.Join(cnts, ", "))
		for _, o := range [][2]string{{"shl", "<<"}, {"shr", ">>"}} {
			fmt.Fprintf(&b, "func %s_%s(a %s, n %s) (r %s, p string) {\n\tdefer func() {\n\t\tif e := recover(); e != nil {\n\t\t\tp = msg(e)\n\t\t}\n\t}()\n\tp = \"ok\"\n\tr = a %s n\n\treturn\n}\n", id, o[0], vt.name, ct.name, vt.name, o[1])
			fmt.Fprintf(&b, "func %s_%sa(a %s, n %s) (r %s, p string) {\n\tdefer func() {\n\t\tif e := recover(); e != nil {\n\t\t\tp = msg(e)\n\t\t}\n\t}()\n\tp = \"ok\"\n\tr = a\n\tr %s= n\n\treturn\n}\n", id, o[0], vt.name, ct.name, vt.name, o[1])
		}
		fmt.Fprintf(&b, "func %s() {\n\tfor i, a := range vals {\n\t\tfor j, n := range %s_c {\n", id, id)
		for _, o := range []string{"shl", "shr", "shla", "shra"} {
			fmt.Fprintf(&b, "\t\t\tr%s, p%s := %s_%s(a, n)\n\t\t\tprintln(%q, i, j, r%s, p%s)\n", o, o, id, o, vt.name+" "+o+" "+ct.name, o, o)
		}
		b.WriteString("\t\t}\n\t}\n}\n")
		f.units = append(f.units, unit{key: vt.name + " shift by " + ct.name, decls: b.String(), fn: id})
	}
	// untyped constant shifted by a variable: the constant takes the type of its context
	{
		var b strings.Builder
		fmt.Fprintf(&b, "func u_ctx_f(n uint) (a %s, b %s, c bool) {\n\tvar x %s = 1 << n\n\ta = x\n\tb = 1<<n + %s(1)\n\tc = 1<<n == x\n\treturn\n}\n", vt.name, vt.name, vt.name, vt.name)
		b.WriteString("func u_ctx() {\n\tfor n := uint(0); n < 70; n++ {\n\t\ta, b, c := u_ctx_f(n)\n")
		fmt.Fprintf(&b, "\t\tprintln(%q, n, a, b, c)\n\t}\n}\n", vt.name+" const<<var")
		f.units = append(f.units, unit{key: vt.name + " untyped const << var", decls: b.String(), fn: "u_ctx"})
	}
	return f
}
