package main

import (
	"fmt"
	"strings"
)

// famSlice: all sequences up to maxLen of aliasing operations on two slices sharing one backing array (append within
// capacity / over capacity, reslice, 3-index slice, overlapping copy both ways, write through alias, delete idiom,
// variadic append of an alias, extend to capacity, drop head), state printed after every sequence.
// cap() is printed only where Go defines it: after a growing append the slice is clipped to cap==len.
func famSlice(maxLen int) *family {
	f := &family{name: "slices", doc: fmt.Sprintf("all sequences of length <= %d over 12 slice-aliasing operations on two aliased slices", maxLen)}
	const nops = 12
	f.prelude = `
func app(s []int, k int) []int {
	c := cap(s)
	s = append(s, k)
	if cap(s) != c {
		s = s[:len(s):len(s)]
	}
	return s
}

func appv(s []int, t []int) []int {
	c := cap(s)
	s = append(s, t...)
	if cap(s) != c {
		s = s[:len(s):len(s)]
	}
	return s
}

func digits(s []int) string {
	r := ""
	for _, v := range s {
		r += itoa(v) + "."
	}
	return r
}

func slRun(ops []int) (res string) {
	arr := make([]int, 4, 8)
	for i := range arr {
		arr[i] = i + 1
	}
	s := arr
	t := s[1:3]
	var a3 [3]int
	step := 0
	defer func() {
		if e := recover(); e != nil {
			res = "step" + itoa(step) + " " + msg(e) + " s=" + digits(s) + " t=" + digits(t)
		}
	}()
	k := 10
	for i, op := range ops {
		step = i
		k++
		switch op {
		case 0:
			s = app(s, k)
		case 1:
			t = app(t, k)
		case 2:
			t = s[1:3]
		case 3:
			t = s[0:2:3]
		case 4:
			copy(s[1:], s)
		case 5:
			copy(s, s[1:])
		case 6:
			t[0] = k
		case 7:
			s = s[1:]
		case 8:
			s = s[:cap(s)]
		case 9:
			s = appv(s[:1], s[2:])
		case 10:
			t = appv(s[:2], t)
		case 11:
			copy(a3[:], s)
			b3 := a3
			b3[0] = k
			a3[2] = -k
			s = appv(s[:0], b3[:])
			t = a3[1:]
		}
	}
	return "ok " + itoa(len(s)) + " " + itoa(cap(s)) + " " + itoa(len(t)) + " " + itoa(cap(t)) + " s=" + digits(s) + " t=" + digits(t) + " a=" + digits(arr)
}
`
	for first := 0; first < nops; first++ {
		id := fmt.Sprintf("u_first%d", first)
		var b strings.Builder
		fmt.Fprintf(&b, "func %s() {\n\tprintln(\"slices\", %d, slRun([]int{%d}))\n", id, first, first)
		// nested loops for lengths 2..maxLen
		for l := 2; l <= maxLen; l++ {
			vars := []string{}
			for d := 1; d < l; d++ {
				v := fmt.Sprintf("o%d_%d", l, d)
				vars = append(vars, v)
				fmt.Fprintf(&b, "%sfor %s := 0; %s < %d; %s++ {\n", strings.Repeat("\t", d), v, v, nops, v)
			}
			ind := strings.Repeat("\t", l)
			label := fmt.Sprintf("itoa(%d)", first)
			for _, v := range vars {
				label += ` + "," + itoa(` + v + `)`
			}
			fmt.Fprintf(&b, "%sprintln(\"slices\", %s, slRun([]int{%d, %s}))\n", ind, label, first, strings.Join(vars, ", "))
			for d := l - 1; d >= 1; d-- {
				fmt.Fprintf(&b, "%s}\n", strings.Repeat("\t", d))
			}
		}
		b.WriteString("}\n")
		f.units = append(f.units, unit{key: fmt.Sprintf("sequences starting with op %d", first), decls: b.String(), fn: id})
	}
	// arrays are values; slices of arrays alias them; nested slices; append self-aliasing
	f.units = append(f.units, unit{key: "arrays by value", fn: "u_arr", decls: `
type pair struct {
	a [2]int
	s []int
}

func u_arr_mod(a [3]int, s []int) [3]int {
	a[0] = 100
	s[0] = 200
	return a
}
func u_arr() {
	a := [3]int{1, 2, 3}
	b := a
	s := a[:]
	c := u_arr_mod(a, s)
	println("arr", digits(a[:]), digits(b[:]), digits(c[:]), a == b, a == c, b == [3]int{1, 2, 3})
	p := pair{a: [2]int{7, 8}, s: []int{9, 10}}
	q := p
	q.a[0] = 70
	q.s[0] = 90
	println("struct-copy", digits(p.a[:]), digits(p.s), digits(q.a[:]), digits(q.s))
	pa := &a
	for i := range pa {
		pa[i] *= 2
	}
	for i, v := range a {
		a[2-i] = v + 1
	}
	println("range-array-copy", digits(a[:]))
	sl := []int{1, 2, 3}
	for i, v := range sl {
		sl[2-i] = v + 1
	}
	println("range-slice-live", digits(sl))
	aa := [2][2]int{{1, 2}, {3, 4}}
	bb := aa
	bb[1][1] = 40
	ss := [][]int{{1, 2}, {3, 4}}
	tt := ss
	tt[1][1] = 40
	tt = append(tt, ss[0])
	tt[2][0] = 10
	println("nested", aa[1][1], bb[1][1], ss[1][1], ss[0][0], len(tt), len(ss))
	x := []int{1, 2, 3, 4, 5}
	x = append(x[:2], x[3:]...)
	y := append([]int(nil), x...)
	y[0] = 9
	var z []int
	z = append(z, z...)
	println("append-idioms", digits(x), digits(y), z == nil, len(z), cap(z))
	var e []int
	e2 := e[:0]
	e3 := []int{}
	println("nil-vs-empty", e == nil, e2 == nil, e3 == nil, len(e3[0:0]), cap(e2))
	w := make([]int, 2, 5)
	w2 := w[1:4]
	w2[2] = 5
	w3 := w[:5]
	println("reslice-beyond-len", digits(w3), len(w2), cap(w2), cap(w[2:]), cap(w[1:2:3]))
}
`})
	return f
}
