package main

func families(thorough bool) []*family {
	var fs []*family
	for _, t := range numTypes() {
		fs = append(fs, famArith(t, thorough))
	}
	fs = append(fs, famDataByte())
	for _, t := range intTypes {
		fs = append(fs, famShift(t))
	}
	for _, t := range numTypes() {
		fs = append(fs, famConv(t, thorough))
	}
	fs = append(fs, famStrConv(), famStr(), famPanic(), famTypes())
	if thorough {
		fs = append(fs, famSlice(4), famMaps(4), famCF(1), famCF(2), famCF(3))
	} else {
		fs = append(fs, famSlice(3), famMaps(3), famCF(1), famCF(2))
	}
	fs = append(fs, famFT())
	fs = append(fs, famCmp(), famKeyedLit())
	fs = append(fs, famsRange(thorough)...)
	fs = append(fs, famArrayAssign())
	for _, t := range numTypes() {
		fs = append(fs, famConst(t))
	}
	fs = append(fs, famUntyped())
	return fs
}
