package main

import (
	"fmt"
	"math"
	"math/big"
	"sort"
	"strings"
)

type ntype struct {
	name   string
	bits   int
	signed bool
	float  bool
}

var intTypes = []ntype{
	{"int8", 8, true, false}, {"int16", 16, true, false}, {"int32", 32, true, false}, {"int64", 64, true, false}, {"int", 64, true, false},
	{"uint8", 8, false, false}, {"uint16", 16, false, false}, {"uint32", 32, false, false}, {"uint64", 64, false, false}, {"uint", 64, false, false},
}

var floatTypes = []ntype{{"float32", 32, true, true}, {"float64", 64, true, true}}

func numTypes() []ntype { return append(append([]ntype{}, intTypes...), floatTypes...) }

func (t ntype) min() *big.Int {
	if !t.signed {
		return big.NewInt(0)
	}
	return new(big.Int).Neg(new(big.Int).Lsh(big.NewInt(1), uint(t.bits-1)))
}

func (t ntype) max() *big.Int {
	n := t.bits
	if t.signed {
		n--
	}
	return new(big.Int).Sub(new(big.Int).Lsh(big.NewInt(1), uint(n)), big.NewInt(1))
}

func (t ntype) fits(v *big.Int) bool { return v.Cmp(t.min()) >= 0 && v.Cmp(t.max()) <= 0 }

// intVals: the boundary lattice of an integer type {0,±1,±2,3,±7,min,min+1,max,max-1,2^(w/2)±1,±2^(w/2),0x55..,0xAA..}.
// small=true gives the reduced set used where the product is taken with many other dimensions.
func intVals(t ntype, small bool) []*big.Int {
	set := map[string]*big.Int{}
	add := func(v *big.Int) {
		if t.fits(v) {
			set[v.String()] = v
		}
	}
	addi := func(i int64) { add(big.NewInt(i)) }
	for _, i := range []int64{0, 1, -1} {
		addi(i)
	}
	add(t.min())
	add(t.max())
	add(new(big.Int).Add(t.min(), big.NewInt(1)))
	add(new(big.Int).Sub(t.max(), big.NewInt(1)))
	half := new(big.Int).Lsh(big.NewInt(1), uint(t.bits/2))
	add(new(big.Int).Add(half, big.NewInt(1)))
	add(new(big.Int).Sub(half, big.NewInt(1)))
	if !small {
		for _, i := range []int64{2, -2, 3, 7, -7} {
			addi(i)
		}
		add(half)
		add(new(big.Int).Neg(half))
		p5, _ := new(big.Int).SetString(strings.Repeat("55", t.bits/8), 16)
		add(p5)
		pa, _ := new(big.Int).SetString(strings.Repeat("AA", t.bits/8), 16)
		add(pa)
		if t.signed {
			add(new(big.Int).Sub(pa, new(big.Int).Lsh(big.NewInt(1), uint(t.bits)))) // 0xAA.. as a negative number
		}
		add(new(big.Int).Rsh(t.max(), 1))
	}
	var s []*big.Int
	for _, v := range set {
		s = append(s, v)
	}
	sort.Slice(s, func(i, j int) bool { return s[i].Cmp(s[j]) < 0 })
	return s
}

// floatBits: boundary values of a float type, as IEEE bit patterns.
func floatBits(t ntype, small bool) []uint64 {
	var fs []float64
	if t.bits == 64 {
		fs = []float64{0, math.Copysign(0, -1), 1, -1, 0.5, 1.5, 2.5, -2.5, 3, 0.1, -7.25, 1e10, 255, 256, 127.9, -128.9, 65535.5, 2147483647, 2147483648, -2147483648, -2147483649,
			4294967295, 4294967296, 9223372036854775807, 9223372036854774784, -9223372036854775808, 18446744073709549568, 1.8446744073709552e19,
			math.MaxFloat64, -math.MaxFloat64, 2.2250738585072014e-308, 5e-324, -5e-324, 16777217, 9007199254740993, 1.0 / 3, 3.4028234663852886e38, 3.4028235677973366e38, 1e-46,
			math.Inf(1), math.Inf(-1), math.NaN()}
		if small {
			fs = []float64{0, math.Copysign(0, -1), 1, -1.5, 0.1, 1e10, math.MaxFloat64, 5e-324, 16777217, 1.0 / 3, math.Inf(1), math.Inf(-1), math.NaN()}
		}
		var out []uint64
		for _, f := range fs {
			out = append(out, math.Float64bits(f))
		}
		return out
	}
	f32 := []float32{0, float32(math.Copysign(0, -1)), 1, -1, 0.5, 1.5, 2.5, -2.5, 3, 0.1, -7.25, 1e10, 255, 256, 127.9, -128.9, 65535.5, 2147483520, 2147483648, -2147483648,
		4294967040, 4294967296, 9223371487098961920, 9223372036854775808, -9223372036854775808, 18446742974197923840, 1.8446744e19,
		math.MaxFloat32, -math.MaxFloat32, 1.17549435e-38, 1e-45, -1e-45, 16777216, 16777218, 1.0 / 3,
		float32(math.Inf(1)), float32(math.Inf(-1)), float32(math.NaN())}
	if small {
		f32 = []float32{0, float32(math.Copysign(0, -1)), 1, -1.5, 0.1, 1e10, math.MaxFloat32, 1e-45, 16777216, 1.0 / 3, float32(math.Inf(1)), float32(math.Inf(-1)), float32(math.NaN())}
	}
	var out []uint64
	for _, f := range f32 {
		out = append(out, uint64(math.Float32bits(f)))
	}
	return out
}

// valueList emits `var <name> = []T{...}` for the boundary values of t.
func valueList(name string, t ntype, small bool) (decl string, n int) {
	var b strings.Builder
	fmt.Fprintf(&b, "var %s = []%s{", name, t.name)
	if t.float {
		bitsv := floatBits(t, small)
		for i, x := range bitsv {
			if i > 0 {
				b.WriteString(", ")
			}
			if t.bits == 64 {
				fmt.Fprintf(&b, "math.Float64frombits(%#x)", x)
			} else {
				fmt.Fprintf(&b, "math.Float32frombits(%#x)", x)
			}
		}
		n = len(bitsv)
	} else {
		vs := intVals(t, small)
		for i, v := range vs {
			if i > 0 {
				b.WriteString(", ")
			}
			b.WriteString(v.String())
		}
		n = len(vs)
	}
	b.WriteString("}\n")
	return b.String(), n
}

// show returns the expression that prints a value of type t portably (floats as IEEE bits).
func show(t ntype, expr string) string {
	if t.float {
		if t.bits == 64 {
			return "fb64(" + expr + ")"
		}
		return "fb32(" + expr + ")"
	}
	return expr
}

// truncFits reports whether the float with the given bits (of float type ft) truncates to a value representable in it.
func truncFits(ft ntype, bitsv uint64, it ntype) bool {
	var f float64
	if ft.bits == 64 {
		f = math.Float64frombits(bitsv)
	} else {
		f = float64(math.Float32frombits(uint32(bitsv)))
	}
	if math.IsNaN(f) || math.IsInf(f, 0) {
		return false
	}
	T, _ := new(big.Float).SetFloat64(f).Int(nil)
	return it.fits(T)
}

func bigInt(i int64) *big.Int { return big.NewInt(i) }
