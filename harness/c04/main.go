// C04: Gno programs compute what the same Go program computes.
//
// Bounded-exhaustive differential check: each *family* enumerates a finite space of program fragments completely
// (every binary operator x every ordered pair of boundary values of every sized numeric type, every shift count,
// every conversion pair, every slice-aliasing op sequence up to a length, every control-flow skeleton up to a nesting
// depth, every runtime-panic class at every position, every way of comparing a composite value holding NaN/+-0 with
// itself and with copies, every range loop form x range expression x element kind x body write pattern ...).  A family is emitted as ONE program text that is valid Go
// and valid Gno; the Go side is compiled with the Go toolchain and run, the Gno side is run in-process by the real
// GnoVM (gnolang.Machine + stdlibs from $VERIF_REPO), both print one line per case and the outputs are compared
// line by line.  Only the differences the compatibility document allows are tolerated (the harness encodes them:
// panic *messages* are compared by class, NaN by NaN-ness, map iteration order is never printed, cap() of
// string->slice conversions and of grown appends is never printed).
package main

import (
	"bytes"
	"crypto/sha256"
	"encoding/hex"
	"encoding/json"
	"fmt"
	"os"
	"os/exec"
	"path/filepath"
	"regexp"
	"runtime"
	"sort"
	"strings"
	"sync"
	"time"

	gno "github.com/gnolang/gno/gnovm/pkg/gnolang"
	"github.com/gnolang/gno/gnovm/pkg/test"
	"verif/engine/vk"
)

var r *vk.Run

const workDir = vk.Root + "/.work/c04"

func repoDir() string {
	if d := os.Getenv("VERIF_REPO"); d != "" {
		return d
	}
	return "/repo"
}

// ---------------------------------------------------------------------------------------------
// program model

// unit: an independent group of cases: top-level declarations + the name of a func() to call from main.
type unit struct {
	key      string // stable descriptor
	decls    string
	fn       string
	noReduce bool // report a finding by its case label, without delta debugging (like the big value tables)
}

type family struct {
	name    string
	group   string // families that explore the same fragment space at different bounds share a group (default: name)
	doc     string
	imports []string
	prelude string
	units   []unit
}

const commonPrelude = `
func msg(r interface{}) string {
	switch v := r.(type) {
	case error:
		return "PANIC{{" + v.Error() + "}}"
	case string:
		return "PANIC{{str:" + v + "}}"
	case int:
		return "PANIC{{int:" + itoa(v) + "}}"
	}
	return "PANIC{{other}}"
}

func safe(i int, f func()) {
	defer func() {
		if r := recover(); r != nil {
			println("#PANIC", msg(r))
		}
	}()
	println("#U", i)
	f()
}

func itoa(n int) string {
	if n == 0 {
		return "0"
	}
	neg := n < 0
	s := ""
	for n != 0 {
		d := n % 10
		if d < 0 {
			d = -d
		}
		s = string(rune('0'+d)) + s
		n /= 10
	}
	if neg {
		s = "-" + s
	}
	return s
}

func hx(s string) string {
	const digits = "0123456789abcdef"
	r := "x"
	for i := 0; i < len(s); i++ {
		r += string(rune(digits[s[i]>>4])) + string(rune(digits[s[i]&15]))
	}
	return r
}
`

const floatPrelude = `
func fb64(f float64) uint64 {
	if f != f {
		return 0x7ff8000000000000
	}
	return math.Float64bits(f)
}

func fb32(f float32) uint32 {
	if f != f {
		return 0x7fc00000
	}
	return math.Float32bits(f)
}
`

func (f *family) program(sel []int) string {
	src, _ := f.programMap(sel)
	return src
}

// programMap also returns, for every selected unit, the [first,last] source lines of its declarations.
func (f *family) programMap(sel []int) (string, map[int][2]int) {
	lines := map[int][2]int{}
	var b strings.Builder
	b.WriteString("package main\n\n")
	for _, im := range f.imports {
		fmt.Fprintf(&b, "import %q\n", im)
	}
	b.WriteString(commonPrelude)
	for _, im := range f.imports {
		if im == "math" {
			b.WriteString(floatPrelude)
		}
	}
	b.WriteString(f.prelude)
	line := 1 + strings.Count(b.String(), "\n")
	for _, i := range sel {
		d := f.units[i].decls + "\n"
		n := strings.Count(d, "\n")
		lines[i] = [2]int{line, line + n - 1}
		line += n
		b.WriteString(d)
	}
	b.WriteString("func main() {\n")
	for _, i := range sel {
		fmt.Fprintf(&b, "\tsafe(%d, %s)\n", i, f.units[i].fn)
	}
	b.WriteString("\tprintln(\"#END\")\n}\n")
	return b.String(), lines
}

func allUnits(f *family) []int {
	s := make([]int, len(f.units))
	for i := range s {
		s[i] = i
	}
	return s
}

// ---------------------------------------------------------------------------------------------
// Go side

var goEnvOnce sync.Once
var goVersion string

func goEnv() []string {
	env := os.Environ()
	set := func(k, v string) {
		if os.Getenv(k) == "" {
			env = append(env, k+"="+v)
		}
	}
	set("GOFLAGS", "-mod=mod")
	set("GOPROXY", "off")
	set("GOCACHE", vk.Root+"/.cache/go-build")
	set("GOTOOLCHAIN", "auto")
	return env
}

// runGo compiles and runs src with the Go toolchain (module with `go 1.25.9`: per-iteration loop variables, like Gno).
// The output depends only on src and the toolchain, so it is cached by content hash under .work/c04/cache.
func runGo(name, src string) (string, error) { return runGoT(name, src, 5*time.Minute) }

func runGoT(name, src string, timeout time.Duration) (string, error) {
	goEnvOnce.Do(func() {
		cmd := exec.Command("go", "version")
		cmd.Dir = vk.Root
		cmd.Env = goEnv()
		out, _ := cmd.Output()
		goVersion = strings.TrimSpace(string(out))
	})
	h := sha256.Sum256([]byte(goVersion + "\n" + src))
	cacheFile := filepath.Join(workDir, "cache", hex.EncodeToString(h[:12])+".out")
	if os.Getenv("C04_NOCACHE") == "" {
		if b, err := os.ReadFile(cacheFile); err == nil {
			return string(b), nil
		}
	}
	dir := filepath.Join(workDir, "go", name)
	os.RemoveAll(dir)
	if err := os.MkdirAll(dir, 0o755); err != nil {
		return "", err
	}
	os.WriteFile(filepath.Join(dir, "go.mod"), []byte("module c04prog\n\ngo 1.25.9\n"), 0o644)
	os.WriteFile(filepath.Join(dir, "main.go"), []byte(src), 0o644)
	build := exec.Command("go", "build", "-o", "prog", ".")
	build.Dir = dir
	build.Env = goEnv()
	if out, err := build.CombinedOutput(); err != nil {
		return "", fmt.Errorf("go build of family %s failed: %v\n%s", name, err, tail(string(out), 2000))
	}
	run := exec.Command(filepath.Join(dir, "prog"))
	var stderr bytes.Buffer
	run.Stderr = &stderr
	run.Stdout = &stderr
	done := make(chan error, 1)
	if err := run.Start(); err != nil {
		return "", err
	}
	go func() { done <- run.Wait() }()
	select {
	case <-done:
	case <-time.After(timeout):
		run.Process.Kill()
		return "", fmt.Errorf("go program of family %s timed out", name)
	}
	out := stderr.String()
	if !strings.HasSuffix(strings.TrimSpace(out), "#END") {
		return "", fmt.Errorf("go program of family %s did not reach #END:\n%s", name, tail(out, 2000))
	}
	os.MkdirAll(filepath.Dir(cacheFile), 0o755)
	os.WriteFile(cacheFile, []byte(out), 0o644)
	return out, nil
}

func tail(s string, n int) string {
	if len(s) > n {
		return "..." + s[len(s)-n:]
	}
	return s
}

// ---------------------------------------------------------------------------------------------
// Gno side

type gnoRunner struct {
	out   *bytes.Buffer
	store gno.Store
	nrun  int
}

func newGnoRunner() *gnoRunner {
	g := &gnoRunner{out: &bytes.Buffer{}}
	_, g.store = test.ProdStore(repoDir(), g.out, nil)
	return g
}

// run executes src (package main) in a fresh machine; perr is the uncaught failure (preprocess error or VM panic).
func (g *gnoRunner) run(name, src string) (out string, perr string) {
	g.out.Reset()
	defer func() {
		if rec := recover(); rec != nil {
			switch rec := rec.(type) {
			case gno.UnhandledPanicError:
				perr = "unhandled panic: " + rec.Error()
			case error:
				perr = "error: " + rec.Error()
			default:
				perr = fmt.Sprintf("panic: %v", rec)
			}
		}
		out = g.out.String()
	}()
	m := gno.NewMachineWithOptions(gno.MachineOptions{
		Output:        g.out,
		Store:         g.store,
		MaxAllocBytes: 4_000_000_000,
		Context:       test.Context("", "main", nil),
	})
	defer m.Release()
	g.nrun++ // a fresh package path per run: the store caches packages by path
	pn := gno.NewPackageNode("main", fmt.Sprintf("c04/run%d", g.nrun), &gno.FileSet{})
	pv := pn.NewPackage(m.Alloc)
	m.Store.SetBlockNode(pn)
	m.Store.SetCachePackage(pv)
	m.SetActivePackage(pv)
	fn := m.MustParseFile(name+".gno", src)
	m.RunFiles(fn)
	ex, err := m.ParseExpr("main()")
	if err != nil {
		panic(err)
	}
	m.Eval(ex)
	return
}

// ---------------------------------------------------------------------------------------------
// comparison

var panicRe = regexp.MustCompile(`PANIC\{\{(.*?)\}\}`)

// panicClass maps a Go or Gno panic message to its class. The property demands "panics at the same point", not the
// same text, so messages are compared by class; an unknown message stays verbatim (and then must match exactly).
func panicClass(m string) string {
	has := func(s string) bool { return strings.Contains(m, s) }
	switch {
	case strings.HasPrefix(m, "str:"), strings.HasPrefix(m, "int:"), strings.HasPrefix(m, "custom:"):
		return m
	case has("divide by zero"), has("division by zero"):
		return "DIVZERO"
	case has("slice bounds out of range"), has("index out of range"), has("out of bounds"), has("invalid slice index"):
		return "BOUNDS" // Go distinguishes index/slice-bounds in the text only; both are the same run-time panic class
	case has("nil map"), has("uninitialized map"):
		return "NILMAP"
	case has("nil pointer dereference"), has("call of nil function"), has("nil interface"), has("invalid memory address"):
		return "NILDEREF"
	case has("interface conversion"), has("is not of type"), has("type assertion"), has("does not implement"), has("missing method"):
		return "TYPEASSERT"
	case has("comparing uncomparable"):
		return "UNCOMPARABLE"
	case has("negative shift amount"):
		return "NEGSHIFT"
	case has("makeslice"), has("len out of range"), has("cap out of range"):
		return "MAKESLICE"
	case has("cannot convert slice with length"), has("slice to array"):
		return "SLICE2ARRAY"
	}
	return "?" + m
}

func normLine(s string) string {
	return panicRe.ReplaceAllStringFunc(s, func(x string) string {
		return "PANIC<" + panicClass(panicRe.FindStringSubmatch(x)[1]) + ">"
	})
}

// splitUnits splits program output into per-unit blocks (unit index -> lines).
func splitUnits(out string) (map[int][]string, bool) {
	res := map[int][]string{}
	cur := -1
	ended := false
	for _, ln := range strings.Split(out, "\n") {
		ln = strings.TrimRight(ln, "\r")
		if ln == "" {
			continue
		}
		if strings.HasPrefix(ln, "#U ") {
			fmt.Sscanf(ln, "#U %d", &cur)
			res[cur] = []string{}
			continue
		}
		if ln == "#END" {
			ended = true
			continue
		}
		if cur >= 0 {
			res[cur] = append(res[cur], ln)
		}
	}
	return res, ended
}

type famStats struct {
	units, lines, panicLines, failingUnits int
	goMs, gnoMs                            int64
}

var classRe = regexp.MustCompile(`PANIC<([A-Z0-9?a-z:]*)`)

func checkFamily(g *gnoRunner, f *family) famStats {
	var st famStats
	st.units = len(f.units)
	sel := allUnits(f)
	src := f.program(sel)
	os.MkdirAll(filepath.Join(workDir, "src"), 0o755)
	os.WriteFile(filepath.Join(workDir, "src", f.name+".go.txt"), []byte(src), 0o644)

	t0 := time.Now()
	goOut, err := runGo(f.name, src)
	st.goMs = time.Since(t0).Milliseconds()
	if err != nil {
		r.HarnessError("%v", err)
	}
	goUnits, _ := splitUnits(goOut)

	t0 = time.Now()
	gnoUnits, bad, fatal := runGnoResilient(g, f, sel)
	if len(bad) > 0 {
		badSet := map[int]bool{}
		for _, b := range bad {
			badSet[b.idx] = true
			st.failingUnits++
			addFinding(finding{fam: f, unit: b.idx, class: "gno-" + b.phase, cause: normCause(b.err), gnoErr: b.err, goHead: head(goUnits[b.idx], 5)})
			r.OutcomeN(f.name+".gno_fails", 1)
		}
		var rest []int
		for _, i := range sel {
			if !badSet[i] {
				rest = append(rest, i)
			}
		}
		sel = rest
	}
	if fatal != "" {
		r.Violation(fmt.Sprintf("%s:gno-fails-unisolated:%s|min=(not isolated after removing %d units)", f.groupName(), normCause(fatal), len(bad)), map[string]any{"family": f.name, "gno_error": tail(fatal, 1500)})
		return st
	}
	st.gnoMs = time.Since(t0).Milliseconds()

	for _, i := range sel {
		gl, nl := goUnits[i], gnoUnits[i]
		nbad := 0
		first := ""
		n := len(gl)
		if len(nl) > n {
			n = len(nl)
		}
		for k := 0; k < n; k++ {
			var a, b string
			if k < len(gl) {
				a = normLine(gl[k])
			} else {
				a = "<no line>"
			}
			if k < len(nl) {
				b = normLine(nl[k])
			} else {
				b = "<no line>"
			}
			st.lines++
			r.Eval()
			if k < len(gl) {
				r.Distinct(f.name + "|" + gl[k])
			}
			if m := classRe.FindStringSubmatch(a); m != nil {
				st.panicLines++
				cl := m[1]
				if strings.Contains(cl, ":") {
					cl = cl[:strings.Index(cl, ":")]
				}
				r.Outcome(f.name + ".panic." + cl)
			}
			if a != b {
				nbad++
				if first == "" {
					first = fmt.Sprintf("line %d: go=%q gno=%q", k, a, b)
					addFinding(finding{fam: f, unit: i, class: "output-differs", cause: caseLabel(a, b), goLine: a, gnoLine: b, firstDiff: first})
				}
			}
		}
		if nbad > 0 {
			st.failingUnits++
			r.OutcomeN(f.name+".lines_differ", int64(nbad))
		}
	}
	r.OutcomeN(f.name+".lines_equal", int64(st.lines))
	return st
}

// caseLabel: the stable part of a differing line = everything up to the first field that differs, and what Go prints
// there (the wrong Gno value is in the replay artefact, not in the key: it may depend on unrelated state).
func caseLabel(a, b string) string {
	fa, fb := strings.Fields(a), strings.Fields(b)
	var keep []string
	for i := 0; i < len(fa) && i < len(fb) && fa[i] == fb[i]; i++ {
		keep = append(keep, fa[i])
	}
	lbl := strings.Join(keep, " ")
	if lbl == "" {
		lbl = "(first line)"
	}
	return lbl + " => go:" + rest(fa, len(keep))
}

func rest(f []string, n int) string {
	if n >= len(f) {
		return "<none>"
	}
	s := strings.Join(f[n:], " ")
	if len(s) > 60 {
		s = s[:60] + "..."
	}
	return s
}

func head(s []string, n int) []string {
	if len(s) > n {
		return s[:n]
	}
	return s
}

type badUnit struct {
	idx   int
	err   string
	phase string // "rejects": refused before running anything (parse/preprocess); "crashes": the VM died while running the unit
}

var posRe = regexp.MustCompile(`[\w/]+\.gno:\d+(:\d+)?(-\d+(:\d+)?)?:?\s*`)
var numRe = regexp.MustCompile(`\d+`)
var lineRe = regexp.MustCompile(`\.gno:(\d+)`)

// errSignature: first line of a Gno-side failure with source positions and numbers abstracted.
func errSignature(e string) string {
	e = strings.TrimSpace(e)
	if i := strings.Index(e, "\n"); i >= 0 {
		e = e[:i]
	}
	e = posRe.ReplaceAllString(e, "")
	e = numRe.ReplaceAllString(e, "N")
	if len(e) > 140 {
		e = e[:140]
	}
	return e
}

// runGnoResilient runs the family on the Gno side. Units are independent, so when the program is rejected
// (preprocess error) or the VM dies in the middle (host panic), the offending unit is identified (from the last
// "#U" marker reached, from the source line in the error, or by bisection), recorded, and the remaining units are run.
func runGnoResilient(g *gnoRunner, f *family, sel []int) (units map[int][]string, bad []badUnit, fatal string) {
	units = map[int][]string{}
	const chunk = 256 // bounds the cost of re-running after a VM crash
	for lo := 0; lo < len(sel) && fatal == ""; lo += chunk {
		hi := lo + chunk
		if hi > len(sel) {
			hi = len(sel)
		}
		var b []badUnit
		b, fatal = runGnoChunk(g, f, sel[lo:hi], units, len(bad))
		bad = append(bad, b...)
	}
	return
}

func runGnoChunk(g *gnoRunner, f *family, sel []int, units map[int][]string, nbadSoFar int) (bad []badUnit, fatal string) {
	remaining := append([]int{}, sel...)
	for len(remaining) > 0 {
		src, lmap := f.programMap(remaining)
		out, perr := g.run(f.name, src)
		blocks, ended := splitUnits(out)
		if perr == "" && ended {
			for k, v := range blocks {
				units[k] = v
			}
			return
		}
		if len(bad)+nbadSoFar >= 400 {
			fatal = perr
			return
		}
		if perr == "" {
			perr = "program ended without reaching #END; output tail: " + tail(out, 300)
		}
		culprit := -1
		if len(blocks) > 0 {
			// died at run time inside the last unit that was started; everything before it completed
			last := -1
			for _, i := range remaining {
				if _, ok := blocks[i]; ok {
					last = i
				}
			}
			culprit = last
			var next []int
			after := false
			for _, i := range remaining {
				if i == culprit {
					after = true
					continue
				}
				if after {
					next = append(next, i)
				} else {
					units[i] = blocks[i]
				}
			}
			remaining = next
		} else {
			// rejected before running: map the reported source line to a unit, else bisect
			if m := lineRe.FindStringSubmatch(perr); m != nil {
				var ln int
				fmt.Sscanf(m[1], "%d", &ln)
				for _, i := range remaining {
					if ln >= lmap[i][0] && ln <= lmap[i][1] {
						culprit = i
					}
				}
			}
			if culprit < 0 {
				culprit = bisect(g, f, remaining)
			}
			if culprit < 0 {
				fatal = perr
				return
			}
			var next []int
			for _, i := range remaining {
				if i != culprit {
					next = append(next, i)
				}
			}
			remaining = next
		}
		phase := "rejects"
		if len(blocks) > 0 {
			phase = "crashes"
		}
		bad = append(bad, badUnit{culprit, perr, phase})
	}
	return
}

// bisect returns one unit of sel on which the Gno side fails before running anything (-1 if none can be isolated).
func bisect(g *gnoRunner, f *family, sel []int) int {
	fails := func(s []int) bool {
		out, perr := g.run(f.name, f.program(s))
		_, ended := splitUnits(out)
		return perr != "" || !ended
	}
	for len(sel) > 1 {
		mid := len(sel) / 2
		if fails(sel[:mid]) {
			sel = sel[:mid]
		} else if fails(sel[mid:]) {
			sel = sel[mid:]
		} else {
			return -1 // only fails in combination: units are not independent (harness bug)
		}
	}
	if len(sel) == 1 && fails(sel) {
		return sel[0]
	}
	return -1
}

// ---------------------------------------------------------------------------------------------

func main() {
	r = vk.New("exploration")
	r.SetBudget(85*time.Second, 25*time.Minute)
	if r.ReplayIn != "" {
		replay()
		return
	}
	os.MkdirAll(workDir, 0o755)
	fams := families(r.Thorough())
	if only := os.Getenv("C04_FAMILIES"); only != "" {
		var keep []*family
		for _, f := range fams {
			for _, o := range strings.Split(only, ",") {
				if f.name == o {
					keep = append(keep, f)
				}
			}
		}
		fams = keep
	}
	// Go side first for all families in parallel (cached by content), then Gno side in parallel workers.
	type res struct {
		st  famStats
		fam *family
	}
	results := make([]res, len(fams))
	// heaviest programs first, one GnoVM store per worker (stdlibs are loaded once per worker)
	order := make([]int, len(fams))
	for i := range order {
		order[i] = i
	}
	weight := func(f *family) int {
		n := 0
		for _, u := range f.units {
			n += len(u.decls)
		}
		return n
	}
	sort.SliceStable(order, func(a, b int) bool { return weight(fams[order[a]]) > weight(fams[order[b]]) })
	jobs := make(chan int, len(fams))
	for _, i := range order {
		jobs <- i
	}
	close(jobs)
	var wg sync.WaitGroup
	skipped := 0
	var mu sync.Mutex
	nw := runtime.GOMAXPROCS(0)
	if nw > len(fams) {
		nw = len(fams)
	}
	for w := 0; w < nw; w++ {
		wg.Add(1)
		go func() {
			defer wg.Done()
			var g *gnoRunner
			for i := range jobs {
				if r.Expired() {
					mu.Lock()
					skipped++
					mu.Unlock()
					continue
				}
				if g == nil {
					g = newGnoRunner()
				}
				results[i] = res{checkFamily(g, fams[i]), fams[i]}
			}
		}()
	}
	wg.Wait()
	reportFindings()
	totalUnits, totalLines := 0, 0
	var famSummary []map[string]any
	for _, x := range results {
		if x.fam == nil {
			continue
		}
		totalUnits += x.st.units
		totalLines += x.st.lines
		famSummary = append(famSummary, map[string]any{"family": x.fam.name, "what": x.fam.doc, "units": x.st.units, "cases": x.st.lines,
			"panicking_cases": x.st.panicLines, "failing_units": x.st.failingUnits, "go_ms": x.st.goMs, "gno_ms": x.st.gnoMs})
		fmt.Printf("  family %-12s units=%-5d cases=%-7d panics=%-6d failing_units=%d go=%dms gno=%dms\n", x.fam.name, x.st.units, x.st.lines, x.st.panicLines, x.st.failingUnits, x.st.goMs, x.st.gnoMs)
	}
	sort.Slice(famSummary, func(i, j int) bool { return famSummary[i]["family"].(string) < famSummary[j]["family"].(string) })
	for _, f := range fams {
		if len(f.units) > 0 {
			r.Sample(map[string]any{"family": f.name, "unit": f.units[len(f.units)/2].key, "decls_head": tail(f.units[len(f.units)/2].decls, 400)})
		}
	}
	r.Assumptions = []string{
		"reference = the Go toolchain's compiled program (" + goVersion + "), go.mod `go 1.25.9` (per-iteration loop variables, as in Gno)",
		"allowed differences encoded: panic message text (compared by class), NaN payload (NaN-ness), cap of string->slice conversions and of grown appends (never printed), map iteration order (never printed), println formatting of floats/pointers/interfaces (never printed; floats are printed as IEEE bits)",
		"float->integer conversions are generated only where the truncated value is representable (otherwise implementation-defined in Go)",
		"bounded program shapes, not every program",
	}
	r.Finish("each family enumerates its fragment space completely and is emitted as one Go+Gno program printing one line per case; evaluations = output lines compared; distinct = distinct (family, Go output line)",
		skipped == 0, map[string]any{"families": famSummary, "programs": len(famSummary), "units": totalUnits, "cases": totalLines, "families_skipped_budget": skipped})
}

func replay() {
	raw, err := os.ReadFile(r.ReplayIn)
	if err != nil {
		r.HarnessError("replay: %v", err)
	}
	var art struct {
		Detail struct {
			Family, Unit, Program string
		} `json:"detail"`
	}
	if err := json.Unmarshal(raw, &art); err != nil || art.Detail.Program == "" {
		r.HarnessError("replay: no program in artefact")
	}
	goOut, err := runGo("replay", art.Detail.Program)
	if err != nil {
		r.HarnessError("%v", err)
	}
	gnoOut, perr := newGnoRunner().run("replay", art.Detail.Program)
	gl, _ := splitUnits(goOut)
	nl, _ := splitUnits(gnoOut)
	bad := perr != ""
	if perr != "" {
		fmt.Println("gno error:", tail(perr, 800))
	}
	for i, lines := range gl {
		for k, a := range lines {
			b := "<no line>"
			if k < len(nl[i]) {
				b = nl[i][k]
			}
			if normLine(a) != normLine(b) {
				bad = true
				fmt.Printf("DIFF go=%q gno=%q\n", a, b)
			}
		}
	}
	if bad {
		fmt.Printf("VIOLATION property=C04 replay=%s\n", r.ReplayIn)
		os.Exit(1)
	}
	fmt.Println("replay: outputs agree on this tree")
}
