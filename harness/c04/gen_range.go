package main

import (
	"fmt"
	"strings"
)

// famsRange: what a range loop sees when its body writes to the thing being ranged over.
//
// Go evaluates the range expression once; ranging over an ARRAY VALUE with a value variable iterates over a copy of
// the whole array made before the first iteration (deep: elements that are structs or arrays are copied with it), so
// no write of the body is visible through v, while reads through the array see every write.  Ranging over a pointer to
// an array, a slice of it or a slice variable does not copy (writes to not-yet-visited elements ARE visible through v),
// and `for i := range` never copies.  One family per kind of range expression; a unit per element kind; inside a unit
// blocks for the three loop forms and for bodies that need the array captured by a pointer / closure or sliced
// (kept in separate blocks with their own variables, so that the plain blocks range over a variable whose address
// is never taken).  Every block runs all (write pattern, iteration at which the write happens, element written):
// 3 x 3 positions = later / earlier / current element.
type rElem struct {
	name, typ  string
	mk, sh     string // function names
	partial    string // statement: in-place write into PART of element %[1]s, value %[2]s (whole write for scalars)
	partialPtr string // the same through pe (a pointer to the element)
}

type rExpr struct {
	name    string
	aliases bool                           // true: Go does not copy (documentation only; the Go toolchain is the oracle)
	types   func(e rElem, u string) string // extra top-level declarations for the unit (u = unique suffix)
	setup   func(e rElem, u string) string // statements creating the container
	x       func(u string) string          // the range expression
	live    func(u string) string          // expression denoting the live container (indexable, assignable)
	isSlice bool
	// noWholeAssign: the write pattern "assign-whole-container" is left out for this kind of range expression: it hits
	// a known GnoVM divergence that has nothing to do with range (a whole-array assignment does not write into the
	// storage that existing slices / element pointers of the array refer to); famArrayAssign reports that root cause
	// under one key with a minimal program instead of once per element kind here.
	noWholeAssign bool
	thoroughOnly  bool // near-duplicate of another kind: thorough tier only
}

func rangeElems() []rElem {
	return []rElem{
		{"int", "int", "rMkInt", "rShInt", "%[1]s = %[2]s", "*pe = %[2]s"},
		{"string", "string", "rMkStr", "rShStr", "%[1]s = \"p\" + itoa(%[2]s)", "*pe = \"p\" + itoa(%[2]s)"},
		{"struct", "rS", "rMkS", "rShS", "%[1]s.a = %[2]s", "pe.a = %[2]s"},
		{"array", "rA", "rMkA", "rShA", "%[1]s[1] = %[2]s", "pe[1] = %[2]s"},
		{"structWithArray", "rT", "rMkT", "rShT", "%[1]s.tags[1] = \"Z\" + itoa(%[2]s)", "pe.tags[1] = \"Z\" + itoa(%[2]s)"},
		{"structOfStruct", "rN", "rMkN", "rShN", "%[1]s.in.a = %[2]s", "pe.in.a = %[2]s"},
		{"pointer", "*int", "rMkP", "rShP", "*%[1]s = %[2]s", "**pe = %[2]s"},
		{"slice", "[]int", "rMkL", "rShL", "%[1]s[1] = %[2]s", "(*pe)[1] = %[2]s"},
	}
}

const rangePrelude = `
type rS struct {
	a int
	b string
}
type rA [2]int
type rT struct {
	tags [2]string
	n    int
}
type rN struct {
	in rS
	z  int
}

func rMkInt(k int) int       { return k }
func rShInt(e int) string    { return itoa(e) }
func rMkStr(k int) string    { return "s" + itoa(k) }
func rShStr(e string) string { return e }
func rMkS(k int) rS          { return rS{k, "b" + itoa(k)} }
func rShS(e rS) string       { return itoa(e.a) + e.b }
func rMkA(k int) rA          { return rA{k, k + 1} }
func rShA(e rA) string       { return itoa(e[0]) + "," + itoa(e[1]) }
func rMkT(k int) rT          { return rT{[2]string{"t" + itoa(k), "u" + itoa(k)}, k} }
func rShT(e rT) string       { return e.tags[0] + e.tags[1] + itoa(e.n) }
func rMkN(k int) rN          { return rN{rS{k, "c" + itoa(k)}, k} }
func rShN(e rN) string       { return itoa(e.in.a) + e.in.b + itoa(e.z) }
func rMkP(k int) *int {
	v := k
	return &v
}
func rShP(e *int) string { return itoa(*e) }
func rMkL(k int) []int   { return []int{k, k + 1} }
func rShL(e []int) string {
	return itoa(e[0]) + "," + itoa(e[1])
}

var rwPlain = []string{"none", "replace-element", "partial-write", "write-through-v", "swap-with-next", "assign-whole-container"}
var rwCapt = []string{"partial-via-element-pointer", "replace-via-element-pointer", "partial-via-closure", "partial-via-container-pointer"}
var rwSlic = []string{"append-onto-aliasing-slice", "copy-into", "partial-via-aliasing-slice"}
`

func rangeExprs() []rExpr {
	none := func(e rElem, u string) string { return "" }
	lit := func(e rElem) string {
		return fmt.Sprintf("{%[1]s(10), %[1]s(20), %[1]s(30)}", e.mk)
	}
	arrDecl := func(e rElem, u string) string { return fmt.Sprintf("arr := [3]%s%s\n", e.typ, lit(e)) }
	arr := func(u string) string { return "arr" }
	return []rExpr{
		{name: "array-variable", types: none, setup: arrDecl, x: arr, live: arr},
		{name: "pointer-to-array", aliases: true, noWholeAssign: true, types: none,
			setup: func(e rElem, u string) string { return arrDecl(e, u) + "px := &arr\n" },
			x:     func(u string) string { return "px" }, live: arr},
		{name: "slice-of-array", aliases: true, noWholeAssign: true, types: none, setup: arrDecl, x: func(u string) string { return "arr[:]" }, live: arr},
		{name: "deref-of-pointer", types: none,
			setup: func(e rElem, u string) string { return arrDecl(e, u) + "px := &arr\n" },
			x:     func(u string) string { return "*px" }, live: arr},
		{name: "struct-field",
			types: func(e rElem, u string) string {
				return fmt.Sprintf("type rH%s struct {\n\tarr [3]%s\n\tz   int\n}\n\n", u, e.typ)
			},
			setup: func(e rElem, u string) string { return fmt.Sprintf("h := rH%s{[3]%s%s, 1}\n", u, e.typ, lit(e)) },
			x:     func(u string) string { return "h.arr" }, live: func(u string) string { return "h.arr" }},
		{name: "field-through-pointer", thoroughOnly: true,
			types: func(e rElem, u string) string {
				return fmt.Sprintf("type rH%s struct {\n\tarr [3]%s\n\tz   int\n}\n\n", u, e.typ)
			},
			setup: func(e rElem, u string) string {
				return fmt.Sprintf("h := rH%s{[3]%s%s, 1}\nhp := &h\n", u, e.typ, lit(e))
			},
			x: func(u string) string { return "hp.arr" }, live: func(u string) string { return "h.arr" }},
		{name: "function-result",
			types: func(e rElem, u string) string {
				return fmt.Sprintf("var rG%[1]s [3]%[2]s\n\nfunc rGet%[1]s() [3]%[2]s {\n\treturn rG%[1]s\n}\n\n", u, e.typ)
			},
			setup: func(e rElem, u string) string { return fmt.Sprintf("rG%s = [3]%s%s\n", u, e.typ, lit(e)) },
			x:     func(u string) string { return "rGet" + u + "()" }, live: func(u string) string { return "rG" + u }},
		{name: "global-array", thoroughOnly: true,
			types: func(e rElem, u string) string { return fmt.Sprintf("var rG%s [3]%s\n\n", u, e.typ) },
			setup: func(e rElem, u string) string { return fmt.Sprintf("rG%s = [3]%s%s\n", u, e.typ, lit(e)) },
			x:     func(u string) string { return "rG" + u }, live: func(u string) string { return "rG" + u }},
		{name: "element-of-array-of-arrays", types: none,
			setup: func(e rElem, u string) string {
				return fmt.Sprintf("grid := [2][3]%[1]s{{%[2]s(1), %[2]s(2), %[2]s(3)}, %[3]s}\n", e.typ, e.mk, lit(e))
			},
			x: func(u string) string { return "grid[1]" }, live: func(u string) string { return "grid[1]" }},
		{name: "element-of-slice-of-arrays", thoroughOnly: true, types: none,
			setup: func(e rElem, u string) string { return fmt.Sprintf("ss := [][3]%s{%s}\n", e.typ, lit(e)) },
			x:     func(u string) string { return "ss[0]" }, live: func(u string) string { return "ss[0]" }},
		{name: "slice-variable", aliases: true, isSlice: true, types: none,
			setup: func(e rElem, u string) string { return fmt.Sprintf("sl := []%s%s\n", e.typ, lit(e)) },
			x:     func(u string) string { return "sl" }, live: func(u string) string { return "sl" }},
	}
}

func indent(s string, n int) string {
	pre := strings.Repeat("\t", n)
	var out []string
	for _, l := range strings.Split(strings.TrimRight(s, "\n"), "\n") {
		if l == "" {
			out = append(out, "")
		} else {
			out = append(out, pre+l)
		}
	}
	return strings.Join(out, "\n") + "\n"
}

// rangeBlock emits one block: nested loops over (w, at, tgt), a fresh container per case, the range loop of the
// given form whose body performs write pattern w on element tgt during iteration at, one output line per case.
func rangeBlock(x rExpr, e rElem, u, variant, form string) string {
	L := x.live(u)
	X := x.x(u)
	elem := L + "[tgt]"
	var names string
	var pre, cases string
	contLit := fmt.Sprintf("[3]%s{%[2]s(50), %[2]s(51), %[2]s(52)}", e.typ, e.mk)
	if x.isSlice {
		contLit = fmt.Sprintf("[]%s{%[2]s(50), %[2]s(51), %[2]s(52)}", e.typ, e.mk)
	}
	switch variant {
	case "plain":
		names = "rwPlain"
		cases = "case 1:\n\t" + elem + " = " + e.mk + "(70 + tgt)\n" +
			"case 2:\n\t" + fmt.Sprintf(e.partial, elem, "90+tgt") + "\n"
		if form != "i" {
			cases += "case 3:\n\t" + fmt.Sprintf(e.partial, "v", "60+tgt") + "\n"
		}
		cases += "case 4:\n\t" + fmt.Sprintf("%[1]s[tgt], %[1]s[(tgt+1)%%3] = %[1]s[(tgt+1)%%3], %[1]s[tgt]", L) + "\n" +
			"case 5:\n\t" + L + " = " + contLit + "\n"
	case "captured":
		names = "rwCapt"
		pre = "pe := &" + elem + "\n" +
			"wr := func(k int) {\n\t" + fmt.Sprintf(e.partial, elem, "k") + "\n}\n" +
			"pc := &" + L + "\n"
		pcElem := "pc[tgt]"
		if x.isSlice {
			pcElem = "(*pc)[tgt]"
		}
		cases = "case 0:\n\t" + fmt.Sprintf(e.partialPtr, "", "90+tgt") + "\n" +
			"case 1:\n\t*pe = " + e.mk + "(70 + tgt)\n" +
			"case 2:\n\twr(40 + tgt)\n" +
			"case 3:\n\t" + fmt.Sprintf(e.partial, pcElem, "80+tgt") + "\n"
	case "sliced":
		names = "rwSlic"
		pre = "al := " + L + "[:tgt]\nfull := " + L + "[:]\nsrc := " + contLit + "\n"
		cases = "case 0:\n\tal = append(al, " + e.mk + "(80+tgt))\n" +
			"case 1:\n\tcopy(full, src[:])\n" +
			"case 2:\n\t" + fmt.Sprintf(e.partial, "full[tgt]", "90+tgt") + "\n"
	}
	var head, read string
	switch form {
	case "i,v":
		head = "for i, v := range " + X + " {"
		read = "tr += itoa(i) + \":\" + " + e.sh + "(v) + \"/\" + " + e.sh + "(" + L + "[i]) + \";\""
	case "_,v":
		head = "for _, v := range " + X + " {"
		read = "tr += " + e.sh + "(v) + \"/\" + " + e.sh + "(" + L + "[n]) + \";\""
	case "i":
		head = "for i := range " + X + " {"
		read = "tr += itoa(i) + \":\" + " + e.sh + "(" + L + "[i]) + \";\""
	}
	var b strings.Builder
	fmt.Fprintf(&b, "for w := 0; w < len(%s); w++ {\n", names)
	if variant == "plain" && form == "i" {
		b.WriteString("\tif w == 3 {\n\t\tcontinue\n\t}\n")
	}
	if variant == "plain" && x.noWholeAssign {
		b.WriteString("\tif w == 5 {\n\t\tcontinue\n\t}\n")
	}
	b.WriteString("\tfor at := 0; at < 3; at++ {\n\t\tfor tgt := 0; tgt < 3; tgt++ {\n")
	body := x.setup(e, u) + pre + "tr := \"\"\nn := 0\n" + head + "\n" +
		"\tif n == at {\n\t\tswitch w {\n" + indent(cases, 2) + "\t\t}\n\t}\n" +
		"\t" + read + "\n\tn++\n}\n"
	if variant == "sliced" {
		body += "tr += \"#\" + itoa(len(al))\n"
	}
	body += fmt.Sprintf("println(\"rng\", %q, %q, %q, %s[w], \"at\", at, \"elem\", tgt, tr+\"|\"+%s(%s[0])+\"_\"+%s(%s[1])+\"_\"+%s(%s[2]))\n",
		x.name, e.name, variant+" "+form, names, e.sh, L, e.sh, L, e.sh, L)
	b.WriteString(indent(body, 3))
	b.WriteString("\t\t}\n\t}\n}\n")
	return b.String()
}

func famsRange(thorough bool) []*family {
	var fams []*family
	for _, x := range rangeExprs() {
		if !thorough && x.thoroughOnly {
			continue
		}
		what := "copy of the whole array before the first iteration"
		if x.aliases {
			what = "no copy: control, writes are visible through v"
		}
		f := &family{name: "range_" + strings.ReplaceAll(x.name, "-", "_"), group: "range_mutation", prelude: rangePrelude,
			doc: fmt.Sprintf("range over %s (%s) x %d element kinds (int, string, struct, array, struct with array field, pointer, slice; thorough: + struct of struct) x loop forms (i,v / i; thorough: + _,v) x 13 body write patterns (replace element, partial in-place write, through v, swap, assign whole container; partial/replace through an element pointer, a closure, a container pointer taken before the loop; append onto an aliasing slice, copy into, partial through an aliasing slice) x iteration of the write x element written (later / earlier / current); trace of v and of the live element per iteration + final contents", x.name, what, map[bool]int{false: 7, true: 8}[thorough])}
		for _, e := range rangeElems() {
			if !thorough && e.name == "structOfStruct" {
				continue
			}
			u := "_" + e.name
			var b strings.Builder
			b.WriteString(x.types(e, u))
			fn := "u_" + e.name
			fmt.Fprintf(&b, "func %s() {\n", fn)
			blocks := [][2]string{{"plain", "i,v"}, {"plain", "i"}, {"captured", "i,v"}, {"sliced", "i,v"}}
			if thorough {
				blocks = append(blocks, [2]string{"plain", "_,v"}, [2]string{"captured", "i"}, [2]string{"sliced", "_,v"})
			}
			for _, blk := range blocks {
				b.WriteString("\t{\n")
				b.WriteString(indent(rangeBlock(x, e, u, blk[0], blk[1]), 2))
				b.WriteString("\t}\n")
			}
			b.WriteString("}\n")
			f.units = append(f.units, unit{key: "range over " + x.name + " of " + e.name, decls: b.String(), fn: fn, noReduce: true})
		}
		fams = append(fams, f)
	}
	return fams
}

// famArrayAssign: assigning a whole array (directly, as a struct field, as part of a struct) writes INTO the
// variable's storage: slices of the array, pointers to its elements, pointers to the array and loops ranging over
// such aliases observe the new contents.  One unit, so that one root cause is one finding.
func famArrayAssign() *family {
	f := &family{name: "array_assign_alias", doc: "whole-array / whole-struct assignment observed through aliases taken before it (slice of the array, element pointer, array pointer, range over &arr and arr[:] with the assignment in the body, array field of a struct, struct holding an array)"}
	f.units = append(f.units, unit{key: "whole-array assignment observed through aliases", fn: "u_assign", noReduce: true, decls: `type aH struct {
	a [3]int
	n int
}

func u_assign() {
	{
		arr := [3]int{10, 20, 30}
		s := arr[:]
		arr = [3]int{50, 51, 52}
		println("assign array: slice of it", s[1])
		s[2] = 99
		println("assign array: write through the old slice", arr[2], s[2])
	}
	{
		arr := [3]int{10, 20, 30}
		p := &arr[1]
		arr = [3]int{50, 51, 52}
		println("assign array: element pointer", *p)
	}
	{
		arr := [3]int{10, 20, 30}
		pa := &arr
		arr = [3]int{50, 51, 52}
		println("assign array: array pointer and variable", pa[1], arr[1])
	}
	{
		var h aH
		hs := h.a[:]
		h.a = [3]int{1, 2, 3}
		println("assign array field: slice of it", hs[1], h.a[1])
	}
	{
		h2 := aH{[3]int{7, 8, 9}, 1}
		hs2 := h2.a[:]
		hp := &h2.a[2]
		h2 = aH{[3]int{4, 5, 6}, 2}
		println("assign struct holding an array: slice of the field", hs2[1], "element pointer", *hp, h2.a[1])
	}
	{
		b := [3]int{10, 20, 30}
		tr := ""
		for i, v := range &b {
			if i == 0 {
				b = [3]int{50, 51, 52}
			}
			tr += itoa(v) + ";"
		}
		println("range over &b, body assigns b", tr)
	}
	{
		c := [3]int{10, 20, 30}
		tr := ""
		for i, v := range c[:] {
			if i == 0 {
				c = [3]int{50, 51, 52}
			}
			tr += itoa(v) + ";"
		}
		println("range over c[:], body assigns c", tr)
	}
	{
		d := [2][2]int{{1, 2}, {3, 4}}
		ds := d[1][:]
		d[1] = [2]int{7, 8}
		println("assign inner array: slice of it", ds[0], d[1][0])
	}
}
`})
	return f
}
