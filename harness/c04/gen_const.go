package main

import (
	"fmt"
	"go/ast"
	"go/importer"
	"go/parser"
	"go/token"
	"go/types"
	"math"
	"strings"
)

// goAccepts type-checks `package p; const c<i> = <expr_i>` for every candidate with go/types and returns which
// candidates the Go type checker accepts (constant overflow, division by zero, invalid shifts ... are rejected).
func goAccepts(exprs []string, imports []string) []bool {
	decls := make([]string, len(exprs))
	for i, e := range exprs {
		decls[i] = fmt.Sprintf("const c%d = %s", i, e)
	}
	return goAcceptsDecls(decls, imports)
}

// goAcceptsDecls: one top-level declaration per line; reports which lines type-check.
func goAcceptsDecls(exprs []string, imports []string) []bool {
	var b strings.Builder
	b.WriteString("package p\n")
	for _, im := range imports {
		fmt.Fprintf(&b, "import %q\n", im)
	}
	base := 2 + len(imports)
	for i, e := range exprs {
		_ = i
		b.WriteString(e + "\n")
	}
	fset := token.NewFileSet()
	file, err := parser.ParseFile(fset, "k.go", b.String(), 0)
	if err != nil {
		r.HarnessError("const candidates do not parse: %v", err)
	}
	ok := make([]bool, len(exprs))
	for i := range ok {
		ok[i] = true
	}
	conf := types.Config{Importer: importer.ForCompiler(fset, "source", nil), Error: func(err error) {
		if te, isTE := err.(types.Error); isTE {
			line := fset.Position(te.Pos).Line
			if i := line - base; i >= 0 && i < len(ok) {
				ok[i] = false
			}
		}
	}}
	conf.Check("p", fset, []*ast.File{file}, nil)
	return ok
}

func constLit(t ntype, small bool) []string {
	var out []string
	if t.float {
		fs := []string{"0", "1", "-1", "0.5", "0.1", "3", "1e10", "16777217", "0.3333333333333333"}
		if t.bits == 64 {
			fs = append(fs, "1.7976931348623157e308", "5e-324", "9007199254740993")
		} else {
			fs = append(fs, "3.4028234663852886e38", "1e-45")
		}
		for _, f := range fs {
			out = append(out, fmt.Sprintf("%s(%s)", t.name, f))
		}
		return out
	}
	for _, v := range intVals(t, small) {
		out = append(out, fmt.Sprintf("%s(%s)", t.name, v.String()))
	}
	return out
}

// famConst: the same operator x boundary-pair product, but on typed *constants*: evaluated at compile time by Go and
// by Gno's preprocessor. Only expressions the Go type checker accepts are kept (a program Go rejects is outside the
// property); for those Gno must accept too and print the same value.
func famConst(t ntype) *family {
	f := &family{name: "const_" + t.name, doc: "typed constant expressions of " + t.name + ": every operator x ordered pairs of boundary constants (those accepted by go/types), unary, shifts and constant conversions"}
	if t.float {
		f.imports = []string{"math"}
	}
	lits := constLit(t, true)
	T := t.name
	emit := func(key, id string, labels, exprs []string, isBool bool) {
		acc := goAccepts(exprs, nil)
		var b strings.Builder
		fmt.Fprintf(&b, "func %s() {\n", id)
		n := 0
		for i, e := range exprs {
			if !acc[i] {
				continue
			}
			n++
			if isBool || !t.float {
				fmt.Fprintf(&b, "\tprintln(%q, %s)\n", labels[i], e)
			} else {
				fmt.Fprintf(&b, "\tprintln(%q, %s)\n", labels[i], show(t, e))
			}
		}
		b.WriteString("}\n")
		r.OutcomeN("const.go_accepts", int64(n))
		r.OutcomeN("const.go_rejects(not compared)", int64(len(exprs)-n))
		if n > 0 {
			f.units = append(f.units, unit{key: key, decls: b.String(), fn: id})
		}
	}
	for _, op := range binops {
		if op.intOnly && t.float {
			continue
		}
		var labels, exprs []string
		for i, a := range lits {
			for j, c := range lits {
				labels = append(labels, fmt.Sprintf("const %s %s %d %d", T, op.name, i, j))
				exprs = append(exprs, fmt.Sprintf("%s %s %s", a, op.sym, c))
			}
		}
		emit(T+" const "+op.name, "u_"+op.name, labels, exprs, op.cmp)
	}
	{
		var labels, exprs []string
		for i, a := range lits {
			for _, o := range [][2]string{{"neg", "-"}, {"pos", "+"}, {"not", "^"}} {
				if o[0] == "not" && t.float {
					continue
				}
				labels = append(labels, fmt.Sprintf("const %s %s %d", T, o[0], i))
				exprs = append(exprs, o[1]+a)
			}
		}
		emit(T+" const unary", "u_unary", labels, exprs, false)
	}
	if !t.float {
		var labels, exprs []string
		for i, a := range lits {
			for _, n := range []int{0, 1, t.bits/2 - 1, t.bits - 2, t.bits - 1, t.bits, t.bits + 1, 63, 64, 65} {
				labels = append(labels, fmt.Sprintf("const %s shl %d %d", T, i, n), fmt.Sprintf("const %s shr %d %d", T, i, n))
				exprs = append(exprs, fmt.Sprintf("%s << %d", a, n), fmt.Sprintf("%s >> %d", a, n))
			}
		}
		emit(T+" const shift", "u_shift", labels, exprs, false)
	}
	// constant conversions to every other numeric type (representability is checked by the compiler)
	for _, to := range numTypes() {
		var labels, exprs []string
		for i, a := range lits {
			labels = append(labels, fmt.Sprintf("const %s->%s %d", T, to.name, i))
			e := fmt.Sprintf("%s(%s)", to.name, a)
			exprs = append(exprs, e)
		}
		acc := goAccepts(exprs, nil)
		var b strings.Builder
		id := "u_to_" + to.name
		fmt.Fprintf(&b, "func %s() {\n", id)
		n := 0
		for i, e := range exprs {
			if acc[i] {
				n++
				fmt.Fprintf(&b, "\tprintln(%q, %s)\n", labels[i], show(to, e))
			}
		}
		b.WriteString("}\n")
		r.OutcomeN("const.go_accepts", int64(n))
		r.OutcomeN("const.go_rejects(not compared)", int64(len(exprs)-n))
		if n > 0 {
			if to.float && !contains(f.imports, "math") {
				f.imports = append(f.imports, "math")
			}
			f.units = append(f.units, unit{key: T + " const ->" + to.name, decls: b.String(), fn: id})
		}
	}
	return f
}

func contains(s []string, x string) bool {
	for _, y := range s {
		if y == x {
			return true
		}
	}
	return false
}

// famUntyped: untyped constant arithmetic (arbitrary precision in Go) materialised into each numeric type.
func famUntyped() *family {
	f := &family{name: "const_untyped", doc: "untyped constant expressions (big integers, exact rationals, runes, shifts, mixed int/float) converted to every numeric type that go/types accepts", imports: []string{"math"}}
	exprs := []string{
		"1 << 62", "1<<63 - 1", "-1 << 63", "1<<64 - 1", "1<<100 >> 98", "(1<<100 + 1<<99) >> 99", "1<<200 / (1 << 198)", "-7 / 2", "-7 % 3", "7 % -3", "7 / 2", "7 / 2.0", "1 / 2", "1 / 2.0",
		"1.0 / 3.0", "2.0 / 3.0", "0.1 + 0.2", "0.1 * 3", "1e308 * 10 / 10", "1e-320 / 1e10 * 1e10", "1e23", "8.41e21", "5e-324", "2.5e-324", "1.7976931348623157e308", "4.9406564584124654e-324",
		"16777217.0", "16777217", "9007199254740993", "9007199254740993.0", "0.3", "1e-45", "0.7e-45", "3.4028235e38", "3.40282356e38",
		"'a' + 1", "'a' * 2", "'\\xff'", "'日' - 1", "^0", "^0 >> 1", "^5", "-(-128)", "255 &^ 15", "0x55 | 0xAA", "0xff ^ 0x0f", "1 << 3 << 2", "100 >> 3",
		"6 * 7 / 4 % 5", "3 + 4*5 - 6/4", "(3 + 4) * (5 - 6) / 4", "1<<10 | 1<<5", "0.5 * 4", "2.5 * 2", "1e3", "1e3 / 7", "255.0", "256.0 - 1", "-0.0", "1 - 0.9", "100 * 1.1", "3.0 * 1.1",
		"math.MaxInt64", "math.MinInt64", "math.MaxUint32", "math.MaxInt8 + 1", "math.Pi", "math.Pi * 1e10", "math.E / math.Pi", "math.MaxFloat32", "math.SmallestNonzeroFloat64", "math.MaxUint16 * math.MaxUint16",
		"len(\"héllo\")", "len(\"\") + 1", "len([3]int{}) * 2",
	}
	for _, to := range numTypes() {
		var cand []string
		for _, e := range exprs {
			cand = append(cand, fmt.Sprintf("%s(%s)", to.name, e))
		}
		acc := goAccepts(cand, []string{"math"})
		var vdecl []string
		for i, e := range exprs {
			vdecl = append(vdecl, fmt.Sprintf("var v%d %s = %s", i, to.name, e))
		}
		accVar := goAcceptsDecls(vdecl, []string{"math"})
		// one unit per (target type, expression, form): a constant the Gno preprocessor rejects must not mask the
		// other constants, and the failing unit is already (nearly) the minimal program.
		n := 0
		for i, e := range cand {
			if acc[i] {
				n++
				id := fmt.Sprintf("u_%s_%dc", to.name, i)
				decl := fmt.Sprintf("func %s() {\n\tprintln(%q, %s)\n}\n", id, "untyped->"+to.name+" "+exprs[i], show(to, e))
				f.units = append(f.units, unit{key: "untyped -> " + to.name + ": " + e, decls: decl, fn: id})
			}
			if accVar[i] {
				n++
				// the same through a typed variable initialiser
				id := fmt.Sprintf("u_%s_%dv", to.name, i)
				decl := fmt.Sprintf("func %s() {\n\tvar v %s = %s\n\tprintln(%q, %s)\n}\n", id, to.name, exprs[i], "var "+to.name+" = "+exprs[i], show(to, "v"))
				f.units = append(f.units, unit{key: "untyped -> " + to.name + ": var v " + to.name + " = " + exprs[i], decls: decl, fn: id})
			}
		}
		r.OutcomeN("const.go_accepts", int64(n))
		r.OutcomeN("const.go_rejects(not compared)", int64(len(cand)-n))
	}
	_ = math.Pi
	return f
}
