package main

import (
	"fmt"
	"strings"
)

// famPanic: every run-time panic class at every position of a 3-statement body, in 4 contexts (straight line, inside
// a loop iteration, in a callee with its own defers, inside a deferred function), with progress markers.
func famPanic() *family {
	f := &family{name: "panics", doc: "22 panic classes x 3 positions x 4 contexts, progress markers + recovered class; plus recover/re-panic semantics"}
	f.prelude = `
type rec struct{ a int }
type stringer interface{ String() string }
type cerr struct{ s string }

func (c cerr) Error() string { return "custom:" + c.s }

var (
	zero    = 0
	idx5    = 5
	neg1    = -1
	nilMap  map[string]int
	nilPtr  *rec
	nilFn   func()
	nilErr  error
	nilArr  *[3]int
	sl      = []int{1, 2, 3}
	ar      = [3]int{1, 2, 3}
	str     = "abc"
	anyStr  interface{} = "s"
	anyNil  interface{}
	sink    int
	ptrace  string
)
`
	classes := [][2]string{
		{"divzero", "sink = 10 / zero"}, {"modzero", "sink = 10 % zero"},
		{"idxslice", "sink = sl[idx5]"}, {"idxarr", "sink = ar[idx5]"}, {"idxstr", "sink = int(str[idx5])"}, {"idxneg", "sink = sl[neg1]"},
		{"slicehi", "sink = len(sl[:idx5])"}, {"slicelohi", "sink = len(sl[2 : zero+1])"},
		{"nilmap", `nilMap["a"] = 1`}, {"nilptr-read", "sink = nilPtr.a"}, {"nilptr-write", "nilPtr.a = 1"},
		{"nilfunc", "nilFn()"}, {"nil-iface-method", "sink = len(nilErr.Error())"}, {"nil-arrayptr", "sink = nilArr[1]"},
		{"assert-wrong", "sink = anyStr.(int)"}, {"assert-nil", "sink = anyNil.(int)"}, {"assert-iface", "sink = len(anyStr.(stringer).String())"},
		{"negshift", "sink = 1 << neg1"}, {"makeslice-neg", "sink = len(make([]int, neg1))"},
		{"panic-string", `panic("boom")`}, {"panic-error", `panic(cerr{"x"})`}, {"panic-int", "panic(42)"},
	}
	for ci, cl := range classes {
		id := fmt.Sprintf("u%d", ci)
		var b strings.Builder
		var calls []string
		for pos := 0; pos < 3; pos++ {
			stmts := func(mark string) string {
				var s []string
				for k := 0; k < 3; k++ {
					if k == pos {
						s = append(s, cl[1])
					} else {
						s = append(s, "sink++")
					}
					s = append(s, fmt.Sprintf("ptrace += \"%s%d\"", mark, k))
				}
				return strings.Join(s, "\n")
			}
			// plain
			fmt.Fprintf(&b, "func %s_plain%d() {\ndefer func() {\nif e := recover(); e != nil {\nptrace += \"|\" + msg(e)\n}\n}()\ndefer func() {\nptrace += \"d\"\n}()\n%s\n}\n", id, pos, stmts("s"))
			// loop: panics in the 2nd iteration
			fmt.Fprintf(&b, "func %s_loop%d() {\ndefer func() {\nif e := recover(); e != nil {\nptrace += \"|\" + msg(e)\n}\n}()\nfor it := 0; it < 3; it++ {\nptrace += \"i\"\nif it == 1 {\n%s\n}\n}\n}\n", id, pos, stmts("s"))
			// callee
			fmt.Fprintf(&b, "func %s_callee%d_in() {\ndefer func() {\nptrace += \"c\"\n}()\n%s\n}\n", id, pos, stmts("s"))
			fmt.Fprintf(&b, "func %s_callee%d() {\ndefer func() {\nif e := recover(); e != nil {\nptrace += \"|\" + msg(e)\n}\n}()\ndefer func() {\nptrace += \"o\"\n}()\nptrace += \"<\"\n%s_callee%d_in()\nptrace += \">\"\n}\n", id, pos, id, pos)
			// deferred
			fmt.Fprintf(&b, "func %s_deferred%d() {\ndefer func() {\nif e := recover(); e != nil {\nptrace += \"|\" + msg(e)\n}\n}()\ndefer func() {\n%s\n}()\nptrace += \"body\"\n}\n", id, pos, stmts("s"))
			for _, c := range []string{"plain", "loop", "callee", "deferred"} {
				calls = append(calls, fmt.Sprintf("ptrace, sink = \"^\", 0\n%s_%s%d()\nprintln(%q, ptrace, sink)", id, c, pos, fmt.Sprintf("panic %s %s pos%d", cl[0], c, pos)))
			}
		}
		fmt.Fprintf(&b, "func %s() {\n%s\n}\n", id, strings.Join(calls, "\n"))
		f.units = append(f.units, unit{key: cl[0], decls: b.String(), fn: id})
	}
	f.units = append(f.units, unit{key: "recover semantics", fn: "u_rec", decls: `
func u_rec_helper() interface{} { return recover() }

func u_rec_a() (s string) {
	defer func() {
		// recover() called by a function that the deferred function calls does not stop the panic
		if u_rec_helper() != nil {
			s += "helper-recovered"
		}
		if e := recover(); e != nil {
			s += "direct:" + msg(e)
		}
	}()
	panic("one")
}

func u_rec_b() (s string) {
	defer func() {
		e := recover()
		s += "outer:" + msg(e)
	}()
	defer func() {
		panic("two")
	}()
	panic("one")
}

func u_rec_c() (s string) {
	defer func() {
		if e := recover(); e != nil {
			s += "again:" + msg(e)
		}
	}()
	defer func() {
		if e := recover(); e != nil {
			s += "first:" + msg(e) + ";"
			panic(cerr{"re"})
		}
	}()
	var m map[int]int
	m[1] = 1
	return "unreached"
}

func u_rec_d() (s string) {
	s = "none:"
	if recover() == nil {
		s += "nil"
	}
	defer func() {
		if recover() == nil {
			s += ",nil-in-defer"
		}
	}()
	return s
}

func u_rec_e() (n int) {
	for i := 0; i < 4; i++ {
		defer func(k int) {
			n = n*10 + k
		}(i)
	}
	return 5
}

func u_rec_f() (s string) {
	defer func() {
		e := recover()
		c, ok := e.(cerr)
		s += c.s
		if ok {
			s += ":typed"
		}
		_, isErr := e.(error)
		if isErr {
			s += ":error"
		}
	}()
	panic(cerr{"payload"})
}

func u_rec_g() (s string) {
	defer func() {
		if e := recover(); e != nil {
			_, isErr := e.(error)
			s = "runtime-error-is-error:"
			if isErr {
				s += "yes"
			} else {
				s += "no"
			}
		}
	}()
	sink = 1 / zero
	return
}

func u_rec_h() (s string) {
	defer func() {
		recover()
		s += "after"
	}()
	func() {
		defer func() {
			s += "inner-defer;"
		}()
		panic("x")
	}()
	s += "not-reached;"
	return
}

func u_rec() {
	println("rec a", u_rec_a())
	println("rec b", u_rec_b())
	println("rec c", u_rec_c())
	println("rec d", u_rec_d())
	println("rec e", u_rec_e())
	println("rec f", u_rec_f())
	println("rec g", u_rec_g())
	println("rec h", u_rec_h())
}
`})
	return f
}
