package main

import "strings"

// famStr: string / rune / byte operations over a menu of strings incl. invalid UTF-8: every index (incl. out of range),
// every slice [i:j] (incl. invalid bounds), range decoding, concatenation and all comparisons for every ordered pair.
func famStr() *family {
	f := &family{name: "strings", doc: "index, slice, range, concat, compare, len over an 11-string menu incl. invalid UTF-8; all positions and all ordered pairs"}
	f.prelude = "var strs = []string{" + strings.Join(strMenu, ", ") + "}\n"
	f.units = append(f.units, unit{key: "index", fn: "u_idx", decls: `
func u_idx_f(s string, i int) (b byte, p string) {
	defer func() {
		if e := recover(); e != nil {
			p = msg(e)
		}
	}()
	p = "ok"
	b = s[i]
	return
}
func u_idx() {
	for k, s := range strs {
		for i := -1; i <= len(s)+1; i++ {
			b, p := u_idx_f(s, i)
			println("index", k, i, b, p)
		}
	}
}
`})
	f.units = append(f.units, unit{key: "slice", fn: "u_sl", decls: `
func u_sl_f(s string, i, j int) (r string, p string) {
	defer func() {
		if e := recover(); e != nil {
			p = msg(e)
		}
	}()
	p = "ok"
	r = s[i:j]
	return
}
func u_sl_lo(s string, i int) (r string, p string) {
	defer func() {
		if e := recover(); e != nil {
			p = msg(e)
		}
	}()
	p = "ok"
	r = s[i:]
	return
}
func u_sl_hi(s string, j int) (r string, p string) {
	defer func() {
		if e := recover(); e != nil {
			p = msg(e)
		}
	}()
	p = "ok"
	r = s[:j]
	return
}
func u_sl() {
	for k, s := range strs {
		for i := -1; i <= len(s)+1; i++ {
			for j := -1; j <= len(s)+1; j++ {
				r, p := u_sl_f(s, i, j)
				println("slice", k, i, j, hx(r), p)
			}
			r, p := u_sl_lo(s, i)
			println("slice-lo", k, i, hx(r), p)
			r, p = u_sl_hi(s, i)
			println("slice-hi", k, i, hx(r), p)
		}
	}
}
`})
	f.units = append(f.units, unit{key: "range", fn: "u_rng", decls: `
func u_rng() {
	for k, s := range strs {
		acc := ""
		n := 0
		for i, c := range s {
			acc += itoa(i) + ":" + itoa(int(c)) + ","
			n++
		}
		println("range", k, n, acc)
		cnt := 0
		for range s {
			cnt++
		}
		last := -1
		for i := range s {
			last = i
		}
		println("range-count", k, cnt, last, len(s), len([]rune(s)))
	}
}
`})
	f.units = append(f.units, unit{key: "pairs", fn: "u_pairs", decls: `
func u_pairs() {
	for i, s := range strs {
		for j, t := range strs {
			c := s + t
			println("concat", i, j, len(c), hx(c))
			println("compare", i, j, s == t, s != t, s < t, s <= t, s > t, s >= t)
			u := s
			u += t
			u += "|"
			println("concat=", i, j, hx(u), u[len(s):len(s)+len(t)] == t)
		}
	}
}
`})
	f.units = append(f.units, unit{key: "bytes", fn: "u_bytes", decls: `
func u_bytes() {
	for k, s := range strs {
		b := []byte(s)
		for i := range b {
			b[i] ^= 0x20
			b[i]++
		}
		b = append(b, s...)
		b = append(b, 'z', 0xff)
		println("bytes", k, len(b), hx(string(b)))
		n := copy(b, "0123456789abcdefghij")
		println("bytes-copy", k, n, hx(string(b)))
		sw := 0
		switch s {
		case "":
			sw = 1
		case "a", "hello":
			sw = 2
		case "héllo":
			sw = 3
		default:
			sw = 4
		}
		m := map[string]int{"": 10, "a": 11, "\xff\xfe": 12}
		v, ok := m[s]
		println("switch-map", k, sw, v, ok)
	}
	var r rune = 'a'
	r += 2
	var by byte = 'a'
	by -= 'b'
	println("rune-arith", r, by, 'x' - 'a', "abc"[1] + 1, len("héllo"), len([]rune("héllo")))
}
`})
	return f
}
