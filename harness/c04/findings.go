package main

import (
	"crypto/sha1"
	"encoding/hex"
	"fmt"
	"go/ast"
	"go/importer"
	"go/parser"
	"go/token"
	"go/types"
	"sort"
	"strings"
	"sync"
	"time"
)

// A finding is one unit on which Go and Gno disagree. Findings are collected while the families run and reported at
// the end, one violation per (family group, class, normalised cause): the key is
//
//	<group>:<class>:<cause>|min=<minimal program>
//
// classes:
//
//	gno-rejects    Gno refuses (parse / preprocess error) a program that Go compiles and runs
//	gno-crashes    the GnoVM dies (host panic, not a Gno panic) while running a program that Go runs
//	output-differs both run, a printed line differs; cause = the case label up to the first differing field + both values
//
// min is the smallest failing unit of the group (by length, then text; the group spans the quick and the thorough
// bounds, the smallest unit belongs to the quick ones, so the key is the same in both tiers), delta-debugged further
// (line deletion; every accepted step is re-validated: go/types accepts, Go builds and runs it to the end, Gno still
// fails with the same class and cause), whitespace-normalised; if long, its sha1 and first line.
type finding struct {
	fam       *family
	unit      int
	class     string
	cause     string
	gnoErr    string
	goHead    []string
	goLine    string
	gnoLine   string
	firstDiff string
}

var (
	findMu   sync.Mutex
	findings []finding
)

func addFinding(f finding) {
	findMu.Lock()
	findings = append(findings, f)
	findMu.Unlock()
}

func (f *family) groupName() string {
	if f.group != "" {
		return f.group
	}
	return f.name
}

// normCause: first line of a Gno-side failure with source positions and numbers abstracted and the Go-level wrapper
// ("error: " / "panic: ") removed.
func normCause(e string) string {
	c := errSignature(e)
	for _, p := range []string{"error: ", "panic: ", "unhandled panic: "} {
		c = strings.TrimPrefix(c, p)
	}
	return strings.TrimRight(strings.TrimSpace(c), ":")
}

func wsNorm(s string) string { return strings.Join(strings.Fields(s), " ") }

func minRepr(decls string) string {
	n := wsNorm(decls)
	if len(n) <= 260 {
		return n
	}
	h := sha1.Sum([]byte(n))
	first := decls
	if i := strings.Index(first, "\n"); i >= 0 {
		first = first[:i]
	}
	return "sha1:" + hex.EncodeToString(h[:])[:16] + " " + wsNorm(first)
}

func reportFindings() {
	if len(findings) == 0 {
		return
	}
	type grp struct {
		group, class, cause string
		items               []finding
	}
	byKey := map[string]*grp{}
	var keys []string
	for _, fd := range findings {
		k := fd.fam.groupName() + "\x00" + fd.class + "\x00" + fd.cause
		g, ok := byKey[k]
		if !ok {
			g = &grp{group: fd.fam.groupName(), class: fd.class, cause: fd.cause}
			byKey[k] = g
			keys = append(keys, k)
		}
		g.items = append(g.items, fd)
	}
	sort.Strings(keys)
	var gr *gnoRunner
	for _, k := range keys {
		g := byKey[k]
		sort.SliceStable(g.items, func(i, j int) bool {
			a, b := g.items[i].fam.units[g.items[i].unit].decls, g.items[j].fam.units[g.items[j].unit].decls
			if len(a) != len(b) {
				return len(a) < len(b)
			}
			if a != b {
				return a < b
			}
			return g.items[i].fam.name < g.items[j].fam.name
		})
		best := g.items[0]
		u := best.fam.units[best.unit]
		var unitKeys []string
		for _, it := range g.items {
			if len(unitKeys) < 25 {
				unitKeys = append(unitKeys, it.fam.name+"/"+it.fam.units[it.unit].key)
			}
		}
		if gr == nil {
			gr = newGnoRunner()
		}
		red, trials, steps := reduceUnit(gr, best.fam, u, best)
		var min string
		if best.class == "output-differs" && (strings.Count(u.decls, "\n") > reduceMaxLines || u.noReduce) {
			// big generated table: the case label in the cause already names the minimal failing case
			min = "case " + strings.SplitN(best.cause, " => ", 2)[0]
		} else if u.noReduce {
			min = "unit " + u.key
		} else {
			min = minRepr(red.decls)
		}
		key := fmt.Sprintf("%s:%s:%s|min=%s", g.group, g.class, g.cause, min)
		detail := map[string]any{"group": g.group, "class": g.class, "cause": g.cause, "family": best.fam.name, "unit": u.key,
			"units": unitKeys, "n_units": len(g.items), "minimal_unit": red.decls, "program": singleProgram(best.fam, red),
			"unreduced_program": best.fam.program([]int{best.unit}), "reduction": map[string]int{"trials": trials, "accepted_steps": steps}}
		if best.gnoErr != "" {
			detail["gno_error"] = tail(best.gnoErr, 1500)
			detail["go_output_head"] = best.goHead
		} else {
			detail["first_diff"] = best.firstDiff
			detail["go_line"] = best.goLine
			detail["gno_line"] = best.gnoLine
		}
		r.Violation(key, detail)
	}
}

func singleProgram(f *family, u unit) string {
	g := *f
	g.units = []unit{u}
	return g.program([]int{0})
}

// ---------------------------------------------------------------------------------------------
// reduction

const (
	reduceMaxLines  = 150 // larger units are value tables; they are not reduced
	reduceMaxTrials = 3000
)

var (
	srcImporter     types.Importer
	srcImporterOnce sync.Once
)

// goTypeOK: the Go type checker accepts src (cheap filter before the Go toolchain is run on a candidate).
func goTypeOK(src string) bool {
	fset := token.NewFileSet()
	srcImporterOnce.Do(func() { srcImporter = importer.ForCompiler(token.NewFileSet(), "source", nil) })
	file, err := parser.ParseFile(fset, "p.go", src, 0)
	if err != nil {
		return false
	}
	ok := true
	conf := types.Config{Importer: srcImporter, Error: func(error) { ok = false }}
	conf.Check("main", fset, []*ast.File{file}, nil)
	return ok
}

// stillFails: the candidate program is a valid, terminating Go program on which Gno shows the same finding.
func stillFails(g *gnoRunner, src string, want finding) bool {
	if !goTypeOK(src) {
		return false
	}
	out, perr := g.run("reduce", src)
	blocks, ended := splitUnits(out)
	switch want.class {
	case "gno-rejects", "gno-crashes":
		if perr == "" && ended {
			return false
		}
		if perr == "" {
			perr = "program ended without reaching #END; output tail: " + tail(out, 300)
		}
		phase := "gno-rejects"
		if len(blocks) > 0 {
			phase = "gno-crashes"
		}
		if phase != want.class || normCause(perr) != want.cause {
			return false
		}
		_, err := runGoT("reduce", src, 20*time.Second)
		return err == nil
	default: // output-differs
		if perr != "" || !ended {
			return false
		}
		found := false
		for _, l := range blocks[0] {
			if normLine(l) == want.gnoLine {
				found = true
			}
		}
		if !found {
			return false
		}
		goOut, err := runGoT("reduce", src, 20*time.Second)
		if err != nil {
			return false
		}
		gb, _ := splitUnits(goOut)
		gl, nl := gb[0], blocks[0]
		for k := 0; k < len(gl) || k < len(nl); k++ {
			a, b := "<no line>", "<no line>"
			if k < len(gl) {
				a = normLine(gl[k])
			}
			if k < len(nl) {
				b = normLine(nl[k])
			}
			if a != b {
				return caseLabel(a, b) == want.cause
			}
		}
		return false
	}
}

func balanced(ls []string) bool {
	depth := 0
	for _, l := range ls {
		for _, c := range l {
			switch c {
			case '{':
				depth++
			case '}':
				depth--
				if depth < 0 {
					return false
				}
			}
		}
	}
	return depth == 0
}

// reduceUnit: deterministic line-based delta debugging of the unit's declarations (deletion of brace-balanced chunks
// at halving granularity, then removal of a block header together with its closing brace), to a fixpoint or the trial cap.
func reduceUnit(g *gnoRunner, f *family, u unit, want finding) (unit, int, int) {
	lines := strings.Split(strings.TrimRight(u.decls, "\n"), "\n")
	if len(lines) > reduceMaxLines || u.noReduce {
		return u, 0, 0
	}
	trials, steps := 0, 0
	mk := func(ls []string) unit { return unit{key: u.key, decls: strings.Join(ls, "\n") + "\n", fn: u.fn} }
	try := func(cand []string) bool {
		if trials >= reduceMaxTrials || len(cand) == 0 {
			return false
		}
		trials++
		if stillFails(g, singleProgram(f, mk(cand)), want) {
			steps++
			return true
		}
		return false
	}
	// the starting point must itself reproduce in isolation (it was observed inside the whole family program)
	if !try(lines) {
		return u, trials, 0
	}
	steps = 0
	without := func(ls []string, drop ...[2]int) []string {
		var out []string
		for i, l := range ls {
			keep := true
			for _, d := range drop {
				if i >= d[0] && i < d[1] {
					keep = false
				}
			}
			if keep {
				out = append(out, l)
			}
		}
		return out
	}
	for changed := true; changed; {
		changed = false
		for size := len(lines) / 2; size >= 1; size /= 2 {
			for o := 0; o+size <= len(lines); {
				// only brace-balanced chunks: the reduced program keeps the block structure of the original
				if cand := without(lines, [2]int{o, o + size}); balanced(lines[o:o+size]) && try(cand) {
					lines = cand
					changed = true
					continue
				}
				if size > 6 {
					o += size / 2
				} else {
					o++
				}
			}
		}
		// unwrap: delete a line that opens a block together with the pure "}" that closes it
		for i := 0; i < len(lines); i++ {
			if !strings.HasSuffix(strings.TrimSpace(lines[i]), "{") {
				continue
			}
			depth := 0
			for j := i; j < len(lines); j++ {
				depth += strings.Count(lines[j], "{") - strings.Count(lines[j], "}")
				if depth == 0 {
					if j > i && strings.TrimSpace(lines[j]) == "}" {
						if cand := without(lines, [2]int{i, i + 1}, [2]int{j, j + 1}); try(cand) {
							lines = cand
							changed = true
							i--
						}
					}
					break
				}
			}
		}
	}
	return mk(lines), trials, steps
}
