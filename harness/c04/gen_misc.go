package main

import (
	"fmt"
	"strings"
)

// famMaps: all sequences up to maxLen of {insert, overwrite, delete, lookup, comma-ok lookup, len, iterate} over a
// 3-key alphabet, for several key types (int, string, struct, array, interface holding mixed dynamic types, float incl.
// NaN and +-0). Iteration order is never observed: iteration accumulates commutatively.
func famMaps(maxLen int) *family {
	f := &family{name: "maps", doc: fmt.Sprintf("all operation sequences of length <= %d over {set k, delete k, get k} x 3 keys, for 6 key types incl. interface keys of mixed dynamic type and float keys (NaN, +-0); iteration observed only through commutative accumulation", maxLen), imports: []string{"math"}}
	f.prelude = `
type kst struct {
	a int
	b string
}
`
	type kt struct {
		name, typ string
		keys      [3]string
		pre       string
	}
	kts := []kt{
		{"int", "int", [3]string{"0", "-1", "1 << 40"}, ""},
		{"string", "string", [3]string{`""`, `"a"`, `"\xff"`}, ""},
		{"struct", "kst", [3]string{`kst{}`, `kst{1, "x"}`, `kst{1, "y"}`}, ""},
		{"array", "[2]int8", [3]string{`[2]int8{}`, `[2]int8{1, 2}`, `[2]int8{2, 1}`}, ""},
		{"iface", "interface{}", [3]string{`int(1)`, `int8(1)`, `"1"`}, ""},
		{"float", "float64", [3]string{`fz`, `-fz`, `math.NaN()`}, "fz := 0.0\n"},
	}
	nops := 9 // 3 ops x 3 keys
	for _, k := range kts {
		id := "u_" + k.name
		var b strings.Builder
		fmt.Fprintf(&b, "func %s_run(ops []int) string {\n%skeys := []%s{%s, %s, %s}\nm := map[%s]int{}\nres := \"\"\nfor i, op := range ops {\nk := keys[op%%3]\nswitch op / 3 {\ncase 0:\nm[k] = i + 1\ncase 1:\ndelete(m, k)\ncase 2:\nv, ok := m[k]\nres += itoa(v)\nif ok {\nres += \"+\"\n}\nm[k] += 10\n}\n}\nsum, cnt := 0, 0\nfor _, v := range m {\nsum += v\ncnt++\n}\nreturn res + \" len=\" + itoa(len(m)) + \" cnt=\" + itoa(cnt) + \" sum=\" + itoa(sum)\n}\n", id, k.pre, k.typ, k.keys[0], k.keys[1], k.keys[2], k.typ)
		fmt.Fprintf(&b, "func %s() {\n", id)
		for l := 1; l <= maxLen; l++ {
			var vars []string
			for d := 0; d < l; d++ {
				v := fmt.Sprintf("o%d_%d", l, d)
				vars = append(vars, v)
				fmt.Fprintf(&b, "for %s := 0; %s < %d; %s++ {\n", v, v, nops, v)
			}
			label := `""`
			for _, v := range vars {
				label += " + itoa(" + v + ")"
			}
			fmt.Fprintf(&b, "println(%q, %s, %s_run([]int{%s}))\n", "map "+k.name, label, id, strings.Join(vars, ", "))
			b.WriteString(strings.Repeat("}\n", l))
		}
		b.WriteString("}\n")
		f.units = append(f.units, unit{key: "map[" + k.typ + "]", decls: b.String(), fn: id})
	}
	f.units = append(f.units, unit{key: "map misc", fn: "u_misc", decls: `
func u_misc() {
	var nm map[string]int
	v, ok := nm["x"]
	println("nil-map-read", v, ok, len(nm))
	delete(nm, "x")
	cnt := 0
	for range nm {
		cnt++
	}
	println("nil-map-range", cnt)
	m := map[string][]int{}
	m["a"] = append(m["a"], 1)
	m["a"] = append(m["a"], 2)
	m["b"] = append(m["b"], 3)
	println("map-of-slices", len(m), len(m["a"]), len(m["zz"]), m["a"][1])
	ms := map[string]kst{"k": {1, "x"}}
	c := ms["k"]
	c.a = 5
	println("map-struct-copy", ms["k"].a, c.a)
	mp := map[string]*kst{"k": {1, "x"}}
	mp["k"].a = 7
	println("map-ptr", mp["k"].a)
	mm := map[int]map[int]int{}
	if mm[1] == nil {
		mm[1] = map[int]int{}
	}
	mm[1][2]++
	mm[1][2]++
	println("map-nested", mm[1][2], len(mm[2]))
	// deleting during iteration never yields a deleted entry afterwards; adding may or may not be visited: only count deleted
	md := map[int]bool{1: true, 2: true, 3: true, 4: true}
	seen := 0
	for k := range md {
		seen++
		for j := 1; j <= 4; j++ {
			if j != k {
				delete(md, j)
			}
		}
	}
	println("delete-during-range", seen, len(md))
	var ik interface{} = []int{1}
	r := func() (s string) {
		defer func() {
			if e := recover(); e != nil {
				s = msg(e)
			}
		}()
		mi := map[interface{}]int{}
		mi[ik] = 1
		return "no panic"
	}()
	println("unhashable-key", r)
}
`})
	return f
}

// famTypes: method sets, embedding/promotion, interface satisfaction decided at run time, type switches and assertions
// over a menu of dynamic values x a menu of target types.
func famTypes() *family {
	f := &family{name: "types", doc: "type switch / type assertion matrix (14 dynamic values x 12 targets), method sets through embedding and pointers, method values/expressions, interface holding struct copies, comparison of interface values"}
	f.prelude = `
type shape interface{ Area() int }
type namer interface{ Name() string }
type both interface {
	shape
	namer
}
type sq struct{ s int }

func (q sq) Area() int { return q.s * q.s }

type circ struct{ r int }

func (c *circ) Area() int     { return 3 * c.r * c.r }
func (c *circ) Name() string  { return "circ" }
func (c *circ) Grow()         { c.r++ }

type named struct {
	sq
	n string
}

func (n named) Name() string { return n.n }

type pnamed struct {
	*circ
	extra int
}
type myint int

func (m myint) Area() int { return int(m) }

type myerr struct{}

func (myerr) Error() string { return "myerr" }

var dyn = []interface{}{
	nil, 1, int8(1), myint(4), "s", 1.5, sq{2}, &sq{3}, &circ{1}, named{sq{2}, "nm"}, &named{sq{5}, "pn"}, pnamed{&circ{2}, 0}, myerr{}, []int{1}, [2]int{1, 2}, map[string]int{}, func() {}, true, 'r', error(myerr{}),
}
`
	f.units = append(f.units, unit{key: "type switch matrix", fn: "u_ts", decls: `
func u_ts_kind(v interface{}) string {
	switch x := v.(type) {
	case nil:
		return "nil"
	case int:
		return "int:" + itoa(x)
	case int8, int16:
		return "int8|int16"
	case myint:
		return "myint:" + itoa(int(x))
	case both:
		return "both:" + x.Name() + itoa(x.Area())
	case shape:
		return "shape:" + itoa(x.Area())
	case namer:
		return "namer:" + x.Name()
	case error:
		return "error:" + x.Error()
	case string:
		return "string:" + x
	case float64:
		return "float64"
	case []int:
		return "[]int:" + itoa(len(x))
	case [2]int:
		return "[2]int:" + itoa(x[1])
	case map[string]int:
		return "map"
	case func():
		return "func"
	case bool:
		return "bool"
	case rune:
		return "rune:" + itoa(int(x))
	default:
		return "other"
	}
}
func u_ts() {
	for i, v := range dyn {
		println("typeswitch", i, u_ts_kind(v))
	}
}
`})
	f.units = append(f.units, unit{key: "assertion matrix", fn: "u_as", decls: `
func u_as_try(f func()) (p string) {
	defer func() {
		if e := recover(); e != nil {
			p = msg(e)
		}
	}()
	f()
	return "ok"
}
func u_as() {
	for i, v := range dyn {
		_, o1 := v.(int)
		_, o2 := v.(shape)
		_, o3 := v.(namer)
		_, o4 := v.(both)
		_, o5 := v.(sq)
		_, o6 := v.(*sq)
		_, o7 := v.(*circ)
		_, o8 := v.(error)
		_, o9 := v.(interface{})
		_, o10 := v.(myint)
		_, o11 := v.(interface{ Grow() })
		_, o12 := v.(named)
		println("assert-ok", i, o1, o2, o3, o4, o5, o6, o7, o8, o9, o10, o11, o12)
		println("assert-panic", i, u_as_try(func() { _ = v.(int) }), u_as_try(func() { _ = v.(shape) }), u_as_try(func() { _ = v.(*circ) }), u_as_try(func() { _ = v.(interface{}) }))
	}
}
`})
	f.units = append(f.units, unit{key: "method sets and embedding", fn: "u_ms", decls: `
func u_ms() {
	c := circ{1}
	c.Grow()
	pc := &c
	pc.Grow()
	println("auto-address", c.r, pc.Area(), c.Area())
	g := c.Grow
	g()
	g()
	println("method-value-bound-ptr", c.r)
	q := sq{2}
	ar := q.Area
	q.s = 10
	println("method-value-copies-recv", ar(), q.Area())
	fe := sq.Area
	fp := (*circ).Area
	println("method-expr", fe(sq{3}), fp(&circ{2}))
	n := named{sq{4}, "n"}
	var s shape = n
	n.s = 9
	println("iface-holds-copy", s.Area(), n.Area(), n.sq.Area(), n.Name())
	pn := pnamed{&circ{2}, 1}
	var s2 shape = pn
	pn.Grow()
	println("embedded-ptr-shared", s2.Area(), pn.Area(), pn.Name(), pn.r)
	var b both = &circ{3}
	var s3 shape = b
	nm, ok := s3.(namer)
	println("iface-to-iface", ok, nm.Name(), s3.Area())
	shapes := []shape{sq{1}, &circ{1}, myint(7), named{sq{2}, "x"}, &named{sq{3}, "y"}}
	tot := 0
	for _, x := range shapes {
		tot = tot*10 + x.Area()
	}
	println("dispatch", tot)
	var e1, e2 interface{} = sq{1}, sq{1}
	var e3 interface{} = &q
	var e4 interface{} = &q
	var e5, e6 interface{} = 1, int8(1)
	var e7 interface{}
	var ps *sq
	var e8 interface{} = ps
	println("iface-eq", e1 == e2, e3 == e4, e5 == e6, e7 == nil, e8 == nil, e8 == (*sq)(nil), e1 != e3)
	r := u_as_try(func() {
		var x, y interface{} = []int{1}, []int{1}
		_ = x == y
	})
	println("iface-eq-unhashable", r)
	var sp shape
	r = u_as_try(func() { _ = sp.Area() })
	println("nil-iface-call", r)
	var np *circ
	var s4 shape = np
	println("nil-ptr-in-iface", s4 != nil, u_as_try(func() { _ = s4.Area() }))
	type local struct{ v int }
	l := local{1}
	l2 := l
	l2.v++
	println("struct-eq", l == l2, l == local{1}, named{sq{1}, "a"} == named{sq{1}, "a"})
}
`})
	return f
}
