// C49: the concurrent list (tm2/pkg/clist) under every interleaving up to a preemption bound.
//
// clist.go is built with its "sync" import rewritten to the verifsync shim (overlay; repo untouched), so
// every Mutex/RWMutex/WaitGroup operation is a scheduling point of a cooperative scheduler.  For each
// scenario (2-4 threads, 1-3 ops each, elements forced to collide) the explorer enumerates ALL schedules
// with <= bound preemptions (CHESS iterative context bounding) and checks, on every complete execution:
//   O1 each traversal chain visits strictly increasing insertion indices (order, no repeats)
//   O2 no skipping: an element lying between two consecutively visited ones had its Remove invoked before
//      the later one was returned
//   O3 an element returned by FrontWait / by NextWait on a never-removed element was not already completely
//      removed when the call started; NextWait returns nil only for a removed element
//   O4 no lost wake-up / deadlock: every scenario is built so that all threads must terminate
//   O5 no panic; final structure (Front..Next walk, Back..Prev walk, Len) equals the sequential model
//   O6 the call/return history of PushBack/Remove/Front/Back/Len is linearizable (porcupine) w.r.t. a list model
package main

import (
	"encoding/json"
	"flag"
	"fmt"
	"os"
	"os/exec"
	"sort"
	"strings"
	"sync"
	"time"

	"github.com/anishathalye/porcupine"
	"github.com/gnolang/gno/tm2/pkg/clist"
	vs "github.com/gnolang/gno/tm2/pkg/verifsync"
	"verif/engine/vk"
)

type step struct {
	thread   string
	op       string // FrontWait | NextWait | PrevWait
	from     int    // element index the call was made on (-1 for FrontWait)
	res      int    // element index returned, -1 = nil
	tc, tr   int
	chainNew bool
}

type lop struct { // non-blocking op for linearizability
	thread string
	op     string // push|remove|front|back|len
	arg    int
	res    int
	tc, tr int
}

type world struct {
	l        *clist.CList
	elems    []*clist.CElement // by insertion index
	idx      map[*clist.CElement]int
	clock    int
	rmInv    map[int]int // index -> invoke time of Remove
	rmDone   map[int]int // index -> completion time
	steps    []step
	lops     []lop
	pushedAt map[int]int
	mu       sync.Mutex // only used in free-running mode
	free     bool
}

func newWorld() *world {
	return &world{l: clist.New(), idx: map[*clist.CElement]int{}, rmInv: map[int]int{}, rmDone: map[int]int{}, pushedAt: map[int]int{}}
}

func (w *world) tick() int {
	if w.free {
		w.mu.Lock()
		defer w.mu.Unlock()
	}
	w.clock++
	return w.clock
}

func (w *world) lock() {
	if w.free {
		w.mu.Lock()
	}
}
func (w *world) unlock() {
	if w.free {
		w.mu.Unlock()
	}
}

// push appends; the insertion index is assigned from the element's position, determined after the fact
// for concurrent pushers by the value (each pusher pushes a distinct value v; index = order in elems).
func (w *world) push(th string, v int) *clist.CElement {
	tc := w.tick()
	e := w.l.PushBack(v)
	tr := w.tick()
	w.lock()
	w.lops = append(w.lops, lop{th, "push", v, 0, tc, tr})
	w.pushedAt[v] = tr
	w.unlock()
	return e
}

func (w *world) remove(th string, e *clist.CElement) {
	v := e.Value.(int)
	tc := w.tick()
	w.lock()
	w.rmInv[v] = tc
	w.unlock()
	w.l.Remove(e)
	tr := w.tick()
	w.lock()
	w.rmDone[v] = tr
	w.lops = append(w.lops, lop{th, "remove", v, 0, tc, tr})
	w.unlock()
}

func val(e *clist.CElement) int {
	if e == nil {
		return -1
	}
	return e.Value.(int)
}

func (w *world) frontWait(th string, newChain bool) *clist.CElement {
	tc := w.tick()
	e := w.l.FrontWait()
	tr := w.tick()
	w.lock()
	w.steps = append(w.steps, step{th, "FrontWait", -1, val(e), tc, tr, newChain})
	w.unlock()
	return e
}

func (w *world) frontWaitChan(th string) *clist.CElement {
	tc := w.tick()
	for {
		ch := w.l.WaitChan()
		if w.free {
			<-ch
		} else {
			vs.WaitClosed("waitCh", func() bool { return vs.IsClosed(ch) })
		}
		if e := w.l.Front(); e != nil {
			tr := w.tick()
			w.lock()
			w.steps = append(w.steps, step{th, "FrontWait", -1, val(e), tc, tr, true})
			w.unlock()
			return e
		}
	}
}

func (w *world) nextWait(th string, from *clist.CElement) *clist.CElement {
	tc := w.tick()
	e := from.NextWait()
	tr := w.tick()
	w.lock()
	w.steps = append(w.steps, step{th, "NextWait", val(from), val(e), tc, tr, false})
	w.unlock()
	return e
}

func (w *world) nextWaitChan(th string, from *clist.CElement) *clist.CElement {
	// the WaitChan flavour used by the mempool reactor: wait for the channel to close, then Next()
	tc := w.tick()
	for {
		ch := from.NextWaitChan()
		if w.free {
			<-ch
		} else {
			vs.WaitClosed("nextWaitCh", func() bool { return vs.IsClosed(ch) })
		}
		e := from.Next()
		if e != nil || from.Removed() {
			tr := w.tick()
			w.lock()
			w.steps = append(w.steps, step{th, "NextWait", val(from), val(e), tc, tr, false})
			w.unlock()
			return e
		}
	}
}

func (w *world) prevWait(th string, from *clist.CElement) *clist.CElement {
	tc := w.tick()
	e := from.PrevWait()
	tr := w.tick()
	w.lock()
	w.steps = append(w.steps, step{th, "PrevWait", val(from), val(e), tc, tr, false})
	w.unlock()
	return e
}

func (w *world) observe(th string) {
	tc := w.tick()
	n := w.l.Len()
	tr := w.tick()
	w.lock()
	w.lops = append(w.lops, lop{th, "len", 0, n, tc, tr})
	w.unlock()
	tc = w.tick()
	f := w.l.Front()
	tr = w.tick()
	w.lock()
	w.lops = append(w.lops, lop{th, "front", 0, val(f), tc, tr})
	w.unlock()
	tc = w.tick()
	b := w.l.Back()
	tr = w.tick()
	w.lock()
	w.lops = append(w.lops, lop{th, "back", 0, val(b), tc, tr})
	w.unlock()
}

// traverse follows the list like the mempool reactor does until it has visited element `until`
// (which the scenario guarantees is pushed and never removed).
func (w *world) traverse(th string, until int, useChan bool) {
	for {
		var e *clist.CElement
		if useChan {
			e = w.frontWaitChan(th)
		} else {
			e = w.frontWait(th, true)
		}
		for e != nil {
			if val(e) == until {
				return
			}
			if useChan {
				e = w.nextWaitChan(th, e)
			} else {
				e = w.nextWait(th, e)
			}
		}
	}
}

type scenario struct {
	name    string
	threads int
	body    func(w *world, spawn func(name string, f func()))
}

func prefill(w *world, n int) []*clist.CElement {
	var es []*clist.CElement
	for i := 0; i < n; i++ {
		es = append(es, w.push("main", i))
	}
	return es
}

var scenarios = []scenario{
	{"push2|traverse", 2, func(w *world, spawn func(string, func())) {
		spawn("P", func() { w.push("P", 0); w.push("P", 1) })
		spawn("T", func() { w.traverse("T", 1, false) })
	}},
	{"push2|traverseChan", 2, func(w *world, spawn func(string, func())) {
		spawn("P", func() { w.push("P", 0); w.push("P", 1) })
		spawn("T", func() { w.traverse("T", 1, true) })
	}},
	{"removeHead+push|traverse", 2, func(w *world, spawn func(string, func())) {
		es := prefill(w, 2)
		spawn("R", func() { w.remove("R", es[0]); w.push("R", 2) })
		spawn("T", func() { w.traverse("T", 2, false) })
	}},
	{"removeTail|nextWaitOnTail|push", 3, func(w *world, spawn func(string, func())) {
		es := prefill(w, 2)
		spawn("R", func() { w.remove("R", es[1]) })
		spawn("T", func() { w.nextWait("T", es[1]) })
		spawn("P", func() { w.push("P", 2) })
	}},
	{"remove+detachPrev+remove|prevWait", 2, func(w *world, spawn func(string, func())) {
		es := prefill(w, 2)
		spawn("R", func() { w.remove("R", es[0]); es[0].DetachPrev(); w.remove("R", es[1]) })
		spawn("T", func() { w.prevWait("T", es[1]) })
	}},
	{"removeMiddle|traverse|traverse", 3, func(w *world, spawn func(string, func())) {
		es := prefill(w, 3)
		spawn("R", func() { w.remove("R", es[1]) })
		spawn("T1", func() { w.traverse("T1", 2, false) })
		spawn("T2", func() { w.traverse("T2", 2, true) })
	}},
	{"removeOnly|frontWait|push", 3, func(w *world, spawn func(string, func())) {
		es := prefill(w, 1)
		spawn("R", func() { w.remove("R", es[0]) })
		spawn("T", func() { w.traverse("T", 1, false) })
		spawn("P", func() { w.push("P", 1) })
	}},
	{"push,remove,push|traverse|observe", 3, func(w *world, spawn func(string, func())) {
		es := prefill(w, 1)
		spawn("W", func() { w.push("W", 1); w.remove("W", es[0]); w.push("W", 2) })
		spawn("T", func() { w.traverse("T", 2, false) })
		spawn("O", func() { w.observe("O") })
	}},
	{"removeAllThenPush|traverse", 2, func(w *world, spawn func(string, func())) {
		es := prefill(w, 2)
		spawn("W", func() { w.remove("W", es[1]); w.remove("W", es[0]); w.push("W", 2) })
		spawn("T", func() { w.traverse("T", 2, false) })
	}},
	{"removeTail,push|traverseFromTail|observe", 3, func(w *world, spawn func(string, func())) {
		es := prefill(w, 2)
		spawn("W", func() { w.remove("W", es[1]); w.push("W", 2) })
		spawn("T", func() {
			// starts on the element being removed
			e := w.nextWait("T", es[1])
			if e == nil {
				w.traverse("T", 2, false)
			}
		})
		spawn("O", func() { w.observe("O") })
	}},
}

func init() {
	// every scenario that waits through NextWait/FrontWait also runs in the WaitChan flavour the mempool
	// reactor uses (select on NextWaitChan()/WaitChan(), then Next()/Front())
	scenarios = append(scenarios,
		scenario{"removeTail|nextWaitChanOnTail|push", 3, func(w *world, spawn func(string, func())) {
			es := prefill(w, 2)
			spawn("R", func() { w.remove("R", es[1]) })
			spawn("T", func() { w.nextWaitChan("T", es[1]) })
			spawn("P", func() { w.push("P", 2) })
		}},
		scenario{"removeOnly|frontWaitChan|push", 3, func(w *world, spawn func(string, func())) {
			es := prefill(w, 1)
			spawn("R", func() { w.remove("R", es[0]) })
			spawn("T", func() { w.traverse("T", 1, true) })
			spawn("P", func() { w.push("P", 1) })
		}},
		scenario{"removeAllThenPush|traverseChan", 2, func(w *world, spawn func(string, func())) {
			es := prefill(w, 2)
			spawn("W", func() { w.remove("W", es[1]); w.remove("W", es[0]); w.push("W", 2) })
			spawn("T", func() { w.traverse("T", 2, true) })
		}},
		scenario{"removeTail+detach,push|traverseChanFromTail", 2, func(w *world, spawn func(string, func())) {
			es := prefill(w, 2)
			spawn("W", func() { w.remove("W", es[1]); es[1].DetachPrev(); es[1].DetachNext(); w.push("W", 2) })
			spawn("T", func() {
				if e := w.nextWaitChan("T", es[1]); e == nil {
					w.traverse("T", 2, true)
				}
			})
		}},
	)
}

// ---- oracles ---------------------------------------------------------------------------------

type listState struct{ s string } // comma separated live values in order

func linModel() porcupine.Model {
	return porcupine.Model{
		Init: func() interface{} { return "" },
		Step: func(state, input, output interface{}) (bool, interface{}) {
			st := state.(string)
			var live []string
			if st != "" {
				live = strings.Split(st, ",")
			}
			in := input.(lop)
			switch in.op {
			case "push":
				live = append(live, fmt.Sprint(in.arg))
				return true, strings.Join(live, ",")
			case "remove":
				for i, v := range live {
					if v == fmt.Sprint(in.arg) {
						live = append(live[:i:i], live[i+1:]...)
						return true, strings.Join(live, ",")
					}
				}
				return false, st
			case "len":
				return output.(int) == len(live), st
			case "front":
				if len(live) == 0 {
					return output.(int) == -1, st
				}
				return fmt.Sprint(output.(int)) == live[0], st
			case "back":
				if len(live) == 0 {
					return output.(int) == -1, st
				}
				return fmt.Sprint(output.(int)) == live[len(live)-1], st
			}
			return false, st
		},
		Equal: func(a, b interface{}) bool { return a.(string) == b.(string) },
	}
}

// insertion order: prefilled and same-thread pushes are ordered by time; concurrent pushers are ordered by
// push completion time — PushBack holds the list lock for its whole body, and under the cooperative
// scheduler completion order of non-overlapping critical sections equals lock order only if no preemption
// splits "unlock" and "return"; to stay exact we read the order off the structure: an element's position is
// the number of elements that were ever in front of it = order of pushedAt for non-concurrent pushes.
func (w *world) check(x *vs.Exec, allMustFinish bool) (string, string) {
	if len(x.Panics) > 0 {
		var ks []string
		for k, v := range x.Panics {
			ks = append(ks, k+": "+firstLine(fmt.Sprint(v)))
		}
		sort.Strings(ks)
		return "panic", strings.Join(ks, "; ")
	}
	if x.Horizon {
		return "horizon", "execution exceeded the point horizon (livelock?) blocked=" + strings.Join(x.Blocked, ",")
	}
	if x.Deadlock && allMustFinish {
		return "lost-wakeup-or-deadlock", "threads blocked forever: " + strings.Join(x.Blocked, ",")
	}
	return w.checkHistory()
}

func (w *world) checkHistory() (string, string) {
	// insertion index == value by construction (values are pushed in increasing order in every scenario
	// where pushes can race only with non-pushers; concurrent pushers push values whose relative order we
	// derive from completion times below).
	order := map[int]int{} // value -> insertion rank
	type pv struct{ v, t int }
	var ps []pv
	for v, t := range w.pushedAt {
		ps = append(ps, pv{v, t})
	}
	sort.Slice(ps, func(i, j int) bool { return ps[i].t < ps[j].t })
	for i, p := range ps {
		order[p.v] = i
	}
	removedBefore := func(v, t int) bool { inv, ok := w.rmInv[v]; return ok && inv < t }
	removedDoneBefore := func(v, t int) bool { d, ok := w.rmDone[v]; return ok && d < t }
	last := map[string]int{}
	for _, s := range w.steps {
		switch s.op {
		case "FrontWait":
			if s.res < 0 {
				return "frontwait-nil", fmt.Sprintf("%s FrontWait returned nil", s.thread)
			}
			if removedDoneBefore(s.res, s.tc) {
				return "removed-returned", fmt.Sprintf("%s FrontWait returned %d whose removal completed before the call", s.thread, s.res)
			}
			for v, rk := range order {
				if rk < order[s.res] && w.pushedAt[v] < s.tr && !removedBefore(v, s.tr) {
					return "skipped", fmt.Sprintf("%s FrontWait returned %d skipping live %d", s.thread, s.res, v)
				}
			}
			last[s.thread] = s.res
		case "NextWait":
			if s.res < 0 {
				if !removedBefore(s.from, s.tr) {
					return "nil-from-live", fmt.Sprintf("%s NextWait(%d) returned nil but %d was never removed", s.thread, s.from, s.from)
				}
				continue
			}
			if order[s.res] <= order[s.from] {
				return "order", fmt.Sprintf("%s NextWait(%d) returned %d (not later in insertion order)", s.thread, s.from, s.res)
			}
			if !removedBefore(s.from, s.tr) && removedDoneBefore(s.res, s.tc) {
				return "removed-returned", fmt.Sprintf("%s NextWait(%d) on a live element returned %d whose removal completed before the call", s.thread, s.from, s.res)
			}
			for v, rk := range order {
				if rk > order[s.from] && rk < order[s.res] && !removedBefore(v, s.tr) {
					return "skipped", fmt.Sprintf("%s NextWait(%d) returned %d skipping live %d", s.thread, s.from, s.res, v)
				}
			}
		case "PrevWait":
			if s.res < 0 {
				if !removedBefore(s.from, s.tr) {
					return "nil-from-live", fmt.Sprintf("%s PrevWait(%d) returned nil but %d was never removed", s.thread, s.from, s.from)
				}
				continue
			}
			if order[s.res] >= order[s.from] {
				return "order", fmt.Sprintf("%s PrevWait(%d) returned %d", s.thread, s.from, s.res)
			}
		}
	}
	// final structure vs model
	var model []int
	for _, p := range ps {
		if _, rm := w.rmDone[p.v]; !rm {
			model = append(model, p.v)
		}
	}
	var fw, bw []int
	for e := w.l.Front(); e != nil; e = e.Next() {
		fw = append(fw, val(e))
		if len(fw) > 16 {
			break
		}
	}
	for e := w.l.Back(); e != nil; e = e.Prev() {
		bw = append([]int{val(e)}, bw...)
		if len(bw) > 16 {
			break
		}
	}
	if fmt.Sprint(fw) != fmt.Sprint(model) || fmt.Sprint(bw) != fmt.Sprint(model) || w.l.Len() != len(model) {
		return "final-structure", fmt.Sprintf("forward=%v backward=%v len=%d model=%v", fw, bw, w.l.Len(), model)
	}
	// linearizability of the non-blocking API
	var ops []porcupine.Operation
	for i, o := range w.lops {
		ops = append(ops, porcupine.Operation{ClientId: i % 8, Input: o, Call: int64(o.tc), Output: o.res, Return: int64(o.tr)})
	}
	if len(ops) > 0 && !porcupine.CheckOperations(linModel(), ops) {
		return "not-linearizable", fmt.Sprintf("ops=%+v", w.lops)
	}
	return "", ""
}

func firstLine(s string) string {
	if i := strings.IndexByte(s, '\n'); i >= 0 {
		return s[:i]
	}
	return s
}

// ---- driver ----------------------------------------------------------------------------------

type jobResult struct {
	Scenario   string         `json:"scenario"`
	Bound      int            `json:"bound"`
	Execs      int            `json:"execs"`
	MaxPoints  int            `json:"max_points"`
	Capped     bool           `json:"capped"`
	Outcomes   map[string]int `json:"outcomes"` // distinct observation vectors -> count
	Violations []violation    `json:"violations"`
	Err        string         `json:"err,omitempty"`
	Sample     []string       `json:"sample"`
}

type violation struct {
	Class    string   `json:"class"`
	Detail   string   `json:"detail"`
	Schedule []int    `json:"schedule"`
	Trace    []string `json:"trace"`
	Stable   bool     `json:"stable"`
}

func runJob(si, bound int, budget time.Duration) jobResult {
	sc := scenarios[si]
	res := jobResult{Scenario: sc.name, Bound: bound, Outcomes: map[string]int{}}
	var w *world
	body := func() {
		w = newWorld()
		sc.body(w, func(name string, f func()) { vs.Go(name, f) })
	}
	start := time.Now()
	seenV := map[string]bool{}
	ex := &vs.Explorer{Bound: bound, Horizon: 400, Stop: func() bool { return time.Since(start) > budget }}
	ex.Check = func(x *vs.Exec) bool {
		class, detail := w.check(x, true)
		// observation vector: what the traversers saw + blocked set
		var obs []string
		for _, s := range w.steps {
			obs = append(obs, fmt.Sprintf("%s.%s(%d)=%d", s.thread, s.op, s.from, s.res))
		}
		for _, o := range w.lops {
			if o.op == "len" || o.op == "front" || o.op == "back" {
				obs = append(obs, fmt.Sprintf("%s.%s=%d", o.thread, o.op, o.res))
			}
		}
		res.Outcomes[strings.Join(obs, " ")]++
		if class != "" && !seenV[class] {
			seenV[class] = true
			v := violation{Class: class, Detail: detail, Schedule: append([]int{}, x.Choices...)}
			// determinism: the same schedule must fail identically 5 times
			v.Stable = true
			for k := 0; k < 5; k++ {
				x2, err := vs.Replay(v.Schedule, 400, body)
				c2, _ := "", ""
				if err == nil {
					c2, _ = w.check(x2, true)
					v.Trace = x2.Trace
				}
				if err != nil || c2 != class {
					v.Stable = false
				}
			}
			res.Violations = append(res.Violations, v)
		}
		return true
	}
	if err := ex.Explore(body); err != nil {
		res.Err = err.Error()
	}
	res.Execs, res.MaxPoints, res.Capped = ex.Execs, ex.MaxPoints, ex.Capped
	// replay-twice sanity on the default schedule
	x1, _ := vs.Replay(nil, 400, body)
	o1 := fmt.Sprint(w.steps)
	x2, _ := vs.Replay(x1.Choices, 400, body)
	if fmt.Sprint(w.steps) != o1 || fmt.Sprint(x1.Choices) != fmt.Sprint(x2.Choices) {
		res.Err = "nondeterministic replay of the default schedule"
	}
	res.Sample = x2.Trace
	if len(res.Sample) > 40 {
		res.Sample = res.Sample[:40]
	}
	return res
}

// freeRun executes every scenario with real goroutines and real sync (shims fall through) — used by the
// separate -race binary to catch unsynchronised accesses the cooperative scheduler cannot see.
func freeRun(iters int) {
	for si := range scenarios {
		for it := 0; it < iters; it++ {
			w := newWorld()
			w.free = true
			var wg sync.WaitGroup
			scenarios[si].body(w, func(name string, f func()) { wg.Add(1); go func() { defer wg.Done(); f() }() })
			done := make(chan struct{})
			go func() { wg.Wait(); close(done) }()
			select {
			case <-done:
			case <-time.After(20 * time.Second):
				fmt.Printf("FREERUN-STUCK scenario=%s\n", scenarios[si].name)
				os.Exit(3)
			}
			if c, d := w.checkHistory(); c != "" {
				fmt.Printf("FREERUN-ORACLE scenario=%s class=%s %s\n", scenarios[si].name, c, d)
			}
		}
	}
	fmt.Println("FREERUN-OK")
}

func main() {
	worker := flag.String("worker", "", "internal: scenario:bound:budgetSeconds")
	free := flag.Int("freerun", 0, "internal: free-running iterations per scenario (race binary)")
	raceBin := flag.String("racebin", "", "path of the -race build of this harness")
	r := vk.New("exploration")
	if *free > 0 {
		freeRun(*free)
		return
	}
	if *worker != "" {
		var si, bound, bs int
		fmt.Sscanf(*worker, "%d:%d:%d", &si, &bound, &bs)
		b, _ := json.Marshal(runJob(si, bound, time.Duration(bs)*time.Second))
		fmt.Println("RESULT " + string(b))
		return
	}
	if r.ReplayIn != "" {
		replayFile(r)
		return
	}
	r.SetBudget(100*time.Second, 20*time.Minute)
	type job struct{ si, bound int }
	var jobs []job
	bounds := []int{0, 1, 2}
	if r.Thorough() {
		bounds = []int{0, 1, 2, 3, 4}
	}
	for si, sc := range scenarios {
		for _, b := range bounds {
			jobs = append(jobs, job{si, b})
		}
		if sc.threads == 2 {
			jobs = append(jobs, job{si, 1000}) // unbounded: every interleaving of a 2-thread scenario
		}
	}
	perJob := int(r.Budget.Seconds() * 0.8)
	results := make([]jobResult, len(jobs))
	r.ParFor(len(jobs), func(i int) {
		cmd := exec.Command(os.Args[0], "-id", r.ID, "-worker", fmt.Sprintf("%d:%d:%d", jobs[i].si, jobs[i].bound, perJob))
		cmd.Env = append(os.Environ(), "GOMAXPROCS=1")
		out, err := cmd.CombinedOutput()
		var jr jobResult
		ok := false
		for _, line := range strings.Split(string(out), "\n") {
			if strings.HasPrefix(line, "RESULT ") {
				ok = json.Unmarshal([]byte(line[7:]), &jr) == nil
			}
		}
		if !ok {
			jr = jobResult{Scenario: scenarios[jobs[i].si].name, Bound: jobs[i].bound, Err: fmt.Sprintf("worker failed: %v: %s", err, tail(string(out), 800))}
		}
		results[i] = jr
	})
	totalExecs := 0
	var perScenario []map[string]any
	for _, jr := range results {
		if jr.Err != "" {
			r.HarnessError("scenario %q bound %d: %s", jr.Scenario, jr.Bound, jr.Err)
		}
		totalExecs += jr.Execs
		r.EvalN(int64(jr.Execs))
		if jr.Capped {
			r.MarkCapped()
		}
		for o, n := range jr.Outcomes {
			r.Distinct(jr.Scenario + "|" + o)
			_ = n
		}
		r.OutcomeN(fmt.Sprintf("bound=%d", jr.Bound), int64(jr.Execs))
		perScenario = append(perScenario, map[string]any{"scenario": jr.Scenario, "preemption_bound": jr.Bound, "schedules": jr.Execs, "max_points": jr.MaxPoints, "distinct_observations": len(jr.Outcomes), "capped": jr.Capped})
		for _, v := range jr.Violations {
			if !v.Stable {
				r.HarnessError("unstable violation (same schedule did not fail 5x): %s %s", jr.Scenario, v.Class)
			}
			r.Violation(fmt.Sprintf("%s:%s", jr.Scenario, v.Class), map[string]any{"scenario": jr.Scenario, "bound": jr.Bound, "class": v.Class, "detail": v.Detail, "schedule": v.Schedule, "trace": v.Trace})
		}
		if jr.Bound == 2 {
			r.Sample(map[string]any{"scenario": jr.Scenario, "default_schedule_trace": jr.Sample})
		}
	}
	// separate free-running -race pass of the same bodies
	raceNote := "race pass not run (no -race binary)"
	if *raceBin != "" {
		cmd := exec.Command(*raceBin, "-id", r.ID, "-freerun", map[bool]string{true: "300", false: "3000"}[r.Quick()])
		out, err := cmd.CombinedOutput()
		s := string(out)
		switch {
		case strings.Contains(s, "DATA RACE"):
			r.Violation("data-race:"+raceKey(s), map[string]any{"output": tail(s, 4000)})
			raceNote = "DATA RACE reported"
		case strings.Contains(s, "FREERUN-STUCK"), strings.Contains(s, "FREERUN-ORACLE"):
			r.Violation("freerun:"+firstLine(s[strings.Index(s, "FREERUN-"):]), map[string]any{"output": tail(s, 4000)})
			raceNote = "free-running oracle failure"
		case err != nil || !strings.Contains(s, "FREERUN-OK"):
			r.HarnessError("race pass failed: %v %s", err, tail(s, 600))
		default:
			raceNote = "free-running -race pass of the same bodies: no race reported"
		}
	}
	r.Assumptions = []string{
		"scheduling points are the sync operations of clist.go (Mutex/RWMutex/WaitGroup via import-rewritten shim); code between them is atomic, which is sound for data-race-free code — races are looked for by the separate free-running -race pass",
		"small scope: <=3 threads plus main, <=3 operations each, <=3 elements",
		"a traverser standing on an already-removed element may follow its stale next pointer (documented clist design); O3 constrains returns from live elements only",
	}
	r.Finish("every schedule with <= bound preemptions per scenario (plus all interleavings for 2-thread scenarios); distinct = distinct (scenario, observation vector of traversers/observers)",
		true, map[string]any{"schedules": totalExecs, "per_scenario": perScenario, "preemption_bounds": bounds, "race_pass": raceNote})
}

func raceKey(s string) string {
	i := strings.Index(s, "DATA RACE")
	ls := strings.Split(s[i:], "\n")
	for _, l := range ls {
		l = strings.TrimSpace(l)
		if strings.HasPrefix(l, "github.com/gnolang/gno") {
			return l
		}
	}
	return "unknown"
}

func tail(s string, n int) string {
	if len(s) > n {
		return s[len(s)-n:]
	}
	return s
}

func replayFile(r *vk.Run) {
	b, err := os.ReadFile(r.ReplayIn)
	if err != nil {
		r.HarnessError("%v", err)
	}
	var f struct {
		Detail struct {
			Scenario string `json:"scenario"`
			Schedule []int  `json:"schedule"`
		} `json:"detail"`
	}
	json.Unmarshal(b, &f)
	for si, sc := range scenarios {
		if sc.name == f.Detail.Scenario {
			var w *world
			body := func() {
				w = newWorld()
				sc.body(w, func(name string, fn func()) { vs.Go(name, fn) })
			}
			x, err := vs.Replay(f.Detail.Schedule, 400, body)
			if err != nil {
				r.HarnessError("%v", err)
			}
			c, d := w.check(x, true)
			fmt.Printf("scenario %d %q\ntrace:\n  %s\nresult: class=%q %s\n", si, sc.name, strings.Join(x.Trace, "\n  "), c, d)
			if c != "" {
				fmt.Printf("VIOLATION property=%s replay=%s\n", r.ID, r.ReplayIn)
				os.Exit(1)
			}
			os.Exit(0)
		}
	}
	r.HarnessError("unknown scenario in replay file")
}
