// C16: session keys cannot exceed their spend limit or allowed actions.
//
// Real gno.land app (engine chainx). Part A: a master account M creates a session for key S1 (two grant variants:
// V1 = limit 10M ugnot per 100 s period, no expiry, allow-paths {bank/send, vm/exec:gno.land/r/verif/coin};
// V2 = lifetime limit 10M ugnot, expiry 300 s after creation, allow-paths {*}); then every history (breadth-first over
// the states of a small reference model, <=4 (quick) / <=6 (thorough) state-changing steps including the creation) over
// an alphabet of 22 operations is executed, and at EVERY visited state EVERY operation of the alphabet is tried:
//   session-signed txs (fee 1M unless said): send 4M; send L-fee; send L-fee+1; call with Send 4M; storage-growing call
//   (deposit); storage-releasing call (refund); 2 msgs whose 2nd fails after the 1st sent 2M; fee 6M; fee L+1; send of a
//   denom outside the limit; MsgAddPackage; call to a look-alike path (…/coinx); MsgRun whose script spends 4M of the
//   master's coins through the banker; MsgCreateSession / MsgRevokeSession signed by the session;
//   master-signed: revoke, re-create; time: next block (+5 s), +P-1, +P (V1) / +E-1, +E (V2).
//
// Part B (spend periods and idle gaps; long-lived chains, one fresh session instance per history, snapshots): grant with a
// 100 s period (and one with a lifetime cap): [pre-phase: nothing | spend 5M | spend the whole limit | a spend that re-anchored
// the window once] ; idle gap of {0, <1, 1 period -1s/exact/+1s, 2 periods -1s/exact/+1s, 3.5, 10, ~1000 periods} ; then depth-
// first (<=3 quick / <=4 thorough steps, every op executed at every node) over 5 kinds of spend (send, send of the whole limit,
// vm call with coins, storage deposit, large fee); and two-gap histories gap ; spend ; gap ; depth-first spends.
// Part C (allow-list, multi-message txs): 6 grants ({bank/send,vm/exec:coin}, {vm/exec:coin}, {vm/exec:coinx,vm/run}, {*},
// {vm/exec}, {vm/exec:coin/sub,bank/send}) x every message tuple of length 1..3 over 8 kinds (send, call coin, call coin/sub
// (a sub-path), call coinx (look-alike), run, addpkg, auth.create-session, a CO-SIGNER's own call), every order, 3M ugnot each
// (fee + 3 x 3M = the limit exactly), from the fresh session and (length <=2) from "5M used"; through the real app.
//
// Oracle (independent of the implementation's SpendUsed bookkeeping; everything is measured on the chain):
//   (a) ledger: for every session-signed tx that changed the state, outflow = max(0, master balance before - after) per
//       denom; it is added to the current spend window (the window starts at the session creation; the first effective
//       session tx at or after window start + P opens a new one; P = 0: one lifetime window); the window total must
//       never exceed the limit (denoms without a limit: 0);
//   (b) a session-signed tx delivered when the session is revoked, not (yet/any more) existing, or expired
//       (block time >= expiry) must fail and leave both stores unchanged (not even a fee);
//   (c) a session-signed tx containing a message OF THE MASTER outside the grant (auth/* and vm/add_package never; else an
//       entry "*", "<route>/<type>" or "vm/exec:<path>" with path equal or a sub-path) must fail and leave both stores
//       unchanged, whatever else the tx contains and in whatever order.
// The reference model only steers the exploration (which steps change the state) and labels outcomes; where the
// implementation is STRICTER than it, that is recorded as an observation, never as a violation.
package main

import (
	"fmt"
	"os"
	"runtime/debug"
	"runtime/pprof"
	"sort"
	"strings"
	"sync"
	"sync/atomic"
	"time"

	"github.com/gnolang/gno/gno.land/pkg/sdk/vm"
	"github.com/gnolang/gno/tm2/pkg/amino"
	abci "github.com/gnolang/gno/tm2/pkg/bft/abci/types"
	"github.com/gnolang/gno/tm2/pkg/crypto"
	"github.com/gnolang/gno/tm2/pkg/db/memdb"
	"github.com/gnolang/gno/tm2/pkg/sdk/auth"
	"github.com/gnolang/gno/tm2/pkg/sdk/bank"
	"github.com/gnolang/gno/tm2/pkg/std"
	"github.com/gnolang/gno/tm2/pkg/store"
	"github.com/gnolang/gno/tm2/pkg/store/types"
	"verif/engine/chainx"
	"verif/engine/vk"
)

var r *vk.Run

const (
	coinPath  = "gno.land/r/verif/coin"
	coinxPath = "gno.land/r/verif/coinx" // look-alike: "…/coin" is a string prefix of it, but it is not a sub-path
	L         = int64(10_000_000)
	fee       = int64(1_000_000)
	P         = int64(100)
	E         = int64(300)
	fund      = int64(1_000_000_000_000)
)

const realmSrc = `package %s

import (
	"chain/banker"
)

type item struct{ s string }

var items []*item

func Grow(cur realm, n int) int {
	for i := 0; i < n; i++ {
		items = append(items, &item{s: "xxxxxxxxxxxxxxxxxxxxxxxxxxxxxxxxxxxxxxxxxxxxxxxx"})
	}
	return len(items)
}

func Shrink(cur realm, n int) int {
	for i := 0; i < n && len(items) > 0; i++ {
		items[len(items)-1] = nil
		items = items[:len(items)-1]
	}
	return len(items)
}

func Deposit(cur realm) {}

func MintThenPanic(cur realm, to address) {
	banker.NewBanker(banker.BankerTypeRealmIssue, cur).IssueCoin(to, "/gno.land/r/verif/%s:tok", 5)
	panic("boom")
}
`

var (
	M, B   = chainx.NewKey("M"), chainx.NewKey("B")
	S1, S2 = chainx.NewKey("S1"), chainx.NewKey("S2") // session keys: no account of their own
	keys   = []chainx.Key{M, B}
)

// spec: genesis with the realms coin and coinx; withSub adds coin/sub (a SUB-path of coin) for the allow-list part.
func spec(withSub bool) chainx.Spec {
	s := chainx.Spec{Keys: keys, Fund: fund, ExtraCoins: std.Coins{std.NewCoin("atom", 1000)}}
	paths := []string{"coin", "coinx"}
	if withSub {
		paths = append(paths, "coin/sub")
	}
	for _, p := range paths {
		name := p[strings.LastIndexByte(p, '/')+1:]
		s.GenesisTxs = append(s.GenesisTxs, std.Tx{
			Msgs:       []std.Msg{chainx.AddPkg(B.Addr, "gno.land/r/verif/"+p, map[string]string{name + ".gno": fmt.Sprintf(realmSrc, name, p)})},
			Fee:        std.NewFee(100_000_000, std.NewCoin("ugnot", fee)),
			Signatures: []std.Signature{{}},
		})
	}
	return s
}

func ug(n int64) std.Coins { return std.Coins{std.NewCoin("ugnot", n)} }

// ---- grant variants -------------------------------------------------------------------------------------------------

type variant struct {
	name   string
	period int64
	expiry int64 // seconds after creation; 0 = none
	paths  []string
	limit  std.Coins
}

var variants = []variant{
	{name: "V1(limit10M/100s,paths{bank/send,vm/exec:coin})", period: P, paths: []string{"bank/send", "vm/exec:" + coinPath}, limit: ug(L)},
	{name: "V2(limit10M-lifetime,expiry+300s,paths{*})", expiry: E, paths: []string{"*"}, limit: ug(L)},
}

// granted: own reading of the allow-path rules for one message.
func granted(paths []string, msg std.Msg) bool {
	if !signedBy(msg, M.Addr) {
		return true // a co-signer's own message: the master's session grant does not apply to it
	}
	if msg.Route() == "auth" || (msg.Route() == "vm" && msg.Type() == "add_package") {
		return false
	}
	for _, p := range paths {
		if p == "*" {
			return true
		}
		rt, path, hasPath := strings.Cut(p, ":")
		if rt != msg.Route()+"/"+msg.Type() {
			continue
		}
		if !hasPath {
			return true
		}
		if c, ok := msg.(vm.MsgCall); ok && (c.PkgPath == path || strings.HasPrefix(c.PkgPath, path+"/")) {
			return true
		}
	}
	return false
}

func signedBy(msg std.Msg, a crypto.Address) bool {
	for _, s := range msg.GetSigners() {
		if s == a {
			return true
		}
	}
	return false
}

// ---- operations -------------------------------------------------------------------------------------------------------

type opDef struct {
	name    string
	kind    string // "session" | "master" | "time"
	fee     int64
	msgs    func(e *env) []std.Msg
	adv     int64  // time ops: seconds to advance
	only    string // "", "V1", "V2": time ops tied to a variant
	declare int64  // session ops: ugnot the messages declare up front (sends, call Send)
	runtime int64  // session ops: ugnot spent by the messages when they all succeed (excl. storage deposit)
	grows   bool   // locks a storage deposit
	fails   bool   // the messages fail after the ante accepted (only the fee is spent)
	atom    bool   // spends a denom that has no limit
}

func send(to crypto.Address, c std.Coins) func(*env) []std.Msg {
	return func(*env) []std.Msg { return []std.Msg{bank.MsgSend{FromAddress: M.Addr, ToAddress: to, Amount: c}} }
}

var runScript = fmt.Sprintf(`package main

import (
	"chain"
	"chain/banker"
)

func main(cur realm) {
	banker.NewBanker(banker.BankerTypeRealmSend, cur).SendCoins(cur.Address(), address("%s"), chain.Coins{{"ugnot", 4000000}})
}
`, B.Addr.String())

func alphabet() []opDef {
	return []opDef{
		{name: "s:send(4M)", kind: "session", fee: fee, msgs: send(B.Addr, ug(4_000_000)), declare: 4_000_000, runtime: 4_000_000},
		{name: "s:send(L-fee)", kind: "session", fee: fee, msgs: send(B.Addr, ug(L-fee)), declare: L - fee, runtime: L - fee},
		{name: "s:send(L-fee+1)", kind: "session", fee: fee, msgs: send(B.Addr, ug(L-fee+1)), declare: L - fee + 1, runtime: L - fee + 1},
		{name: "s:call(coin.Deposit,Send4M)", kind: "session", fee: fee, declare: 4_000_000, runtime: 4_000_000,
			msgs: func(*env) []std.Msg { return []std.Msg{chainx.Call(M.Addr, ug(4_000_000), coinPath, "Deposit")} }},
		{name: "s:call(coin.Grow20)", kind: "session", fee: fee, grows: true,
			msgs: func(*env) []std.Msg { return []std.Msg{chainx.Call(M.Addr, nil, coinPath, "Grow", "20")} }},
		{name: "s:call(coin.Shrink20)", kind: "session", fee: fee,
			msgs: func(*env) []std.Msg { return []std.Msg{chainx.Call(M.Addr, nil, coinPath, "Shrink", "20")} }},
		{name: "s:multi[send(2M);call(coin.MintThenPanic)]", kind: "session", fee: fee, declare: 2_000_000, fails: true,
			msgs: func(*env) []std.Msg {
				return []std.Msg{bank.MsgSend{FromAddress: M.Addr, ToAddress: B.Addr, Amount: ug(2_000_000)}, chainx.Call(M.Addr, nil, coinPath, "MintThenPanic", M.Addr.String())}
			}},
		{name: "s:send(1),fee6M", kind: "session", fee: 6_000_000, msgs: send(B.Addr, ug(1)), declare: 1, runtime: 1},
		{name: "s:send(1),feeL+1", kind: "session", fee: L + 1, msgs: send(B.Addr, ug(1)), declare: 1, runtime: 1},
		{name: "s:send(1atom)", kind: "session", fee: fee, msgs: send(B.Addr, std.Coins{std.NewCoin("atom", 1)}), atom: true},
		{name: "s:addpkg", kind: "session", fee: fee,
			msgs: func(*env) []std.Msg {
				return []std.Msg{chainx.AddPkg(M.Addr, "gno.land/r/verif/bysession", map[string]string{"a.gno": "package bysession\n\nvar X = 1\n"})}
			}},
		{name: "s:call(coinx.Deposit,Send1)", kind: "session", fee: fee, declare: 1, runtime: 1,
			msgs: func(*env) []std.Msg { return []std.Msg{chainx.Call(M.Addr, ug(1), coinxPath, "Deposit")} }},
		{name: "s:run(script spends 4M of the master)", kind: "session", fee: fee, runtime: 4_000_000,
			msgs: func(*env) []std.Msg { return []std.Msg{chainx.Run(M.Addr, nil, runScript)} }},
		{name: "s:auth.create-session(S2)", kind: "session", fee: fee,
			msgs: func(e *env) []std.Msg {
				return []std.Msg{auth.MsgCreateSession{Creator: M.Addr, SessionKey: S2.Pub, AllowPaths: []string{"*"}, SpendLimit: ug(fund)}}
			}},
		{name: "s:auth.revoke-session(S1)", kind: "session", fee: fee,
			msgs: func(*env) []std.Msg { return []std.Msg{auth.MsgRevokeSession{Creator: M.Addr, SessionKey: S1.Pub}} }},
		{name: "m:revoke(S1)", kind: "master", fee: fee,
			msgs: func(*env) []std.Msg { return []std.Msg{auth.MsgRevokeSession{Creator: M.Addr, SessionKey: S1.Pub}} }},
		{name: "m:create(S1)", kind: "master", fee: fee, msgs: func(e *env) []std.Msg { return []std.Msg{e.createMsg()} }},
		{name: "t:+5s", kind: "time", adv: 5},
		{name: "t:+P-1", kind: "time", adv: P - 1, only: "V1"},
		{name: "t:+P", kind: "time", adv: P, only: "V1"},
		{name: "t:+E-1", kind: "time", adv: E - 1, only: "V2"},
		{name: "t:+E", kind: "time", adv: E, only: "V2"},
	}
}

// ---- reference model (steers the exploration; see header) ---------------------------------------------------------------

type mstate struct {
	exists   bool
	created  int64 // block time of creation
	reset    int64 // start of the current spend window
	used     int64 // ugnot
	now      int64 // block time, relative to the first block of the history
	grows    int   // successful storage-growing calls so far (index into the calibrated deposits)
	creates  int
	timeOps  int
}

func (s mstate) key() string {
	return fmt.Sprintf("%v/%d/%d/%d/%d/%d", s.exists, s.created, s.reset, s.used, s.now, s.grows)
}

var growDeposit []int64 // calibrated: deposit locked by the k-th Grow(20)

func (s mstate) step(v variant, op opDef) (mstate, bool) {
	n := s
	switch op.kind {
	case "time":
		if (op.only != "" && !strings.HasPrefix(v.name, op.only)) || s.timeOps >= 2 {
			return s, false
		}
		n.now += op.adv
		n.timeOps++
		return n, true
	case "master":
		if strings.HasPrefix(op.name, "m:create") {
			if s.exists || s.creates >= 2 {
				return s, false // (a failing master tx only pays its fee; skipped, see expand)
			}
			n.exists, n.created, n.reset, n.used, n.creates = true, s.now, s.now, 0, s.creates+1
			return n, true
		}
		if !s.exists {
			return s, false
		}
		n.exists = false
		return n, true
	}
	// session-signed
	if !s.exists || (v.expiry > 0 && s.now >= s.created+v.expiry) {
		return s, false
	}
	for _, m := range op.msgs(&env{v: v, now: s.now}) {
		if !granted(v.paths, m) {
			return s, false
		}
	}
	if op.atom {
		return s, false
	}
	if v.period > 0 && s.now >= s.reset+v.period {
		n.used, n.reset = 0, s.now
	}
	if n.used+op.fee+op.declare > L {
		return s, false
	}
	n.used += op.fee
	if op.fails {
		return n, true
	}
	spend := op.runtime
	if op.grows {
		k := min(s.grows, len(growDeposit)-1)
		spend += growDeposit[k]
	}
	if n.used+spend <= L {
		n.used += spend
		if op.grows {
			n.grows++
		}
	}
	return n, true
}

// ---- chain + safety ledger ------------------------------------------------------------------------------------------------

type lval struct {
	v  string
	ok bool
	pv string
	po bool
}

type dirtyLayer interface {
	VerifDirty(f func(key string, value []byte, deleted bool))
	VerifParent() types.Store
}

func readLayer(st types.Store) map[string]lval {
	dl, ok := st.(dirtyLayer)
	if !ok {
		r.HarnessError("store of the block state is not a cache layer: %T", st)
	}
	out := map[string]lval{}
	dl.VerifDirty(func(k string, v []byte, deleted bool) { out[k] = lval{v: string(v), ok: !deleted && v != nil} })
	par := dl.VerifParent()
	for k, lv := range out {
		if pv := par.Get(nil, []byte(k)); pv != nil {
			lv.pv, lv.po = string(pv), true
		}
		out[k] = lv
	}
	return out
}

func layerDiff(a, b map[string]lval, prefix string) []string {
	var out []string
	for k, lb := range b {
		av, ao := lb.pv, lb.po
		if la, ok := a[k]; ok {
			av, ao = la.v, la.ok
		}
		if av != lb.v || ao != lb.ok {
			out = append(out, prefix+show(k))
		}
	}
	for k, la := range a {
		if _, ok := b[k]; !ok && (la.v != la.pv || la.ok != la.po) {
			out = append(out, prefix+show(k))
		}
	}
	sort.Strings(out)
	return out
}

func show(k string) string {
	var b strings.Builder
	for _, c := range []byte(k) {
		if c >= 32 && c < 127 {
			b.WriteByte(c)
		} else {
			fmt.Fprintf(&b, "\\x%02x", c)
		}
	}
	return b.String()
}

type env struct {
	v       variant
	c       *chainx.Chain
	now     int64 // block time relative to the first block
	t0      time.Time
	layers  [2]map[string]lval
	bad     bool
	lastLabel string // parts B/C: the history that created the current session instance on this chain
	// safety ledger (measured)
	sessLive     bool // a create succeeded and no revoke since (as observed from tx results)
	sessCreated  int64
	windowStart  int64
	windowOut    map[string]int64
}

func (e *env) createMsg() std.Msg {
	m := auth.MsgCreateSession{Creator: M.Addr, SessionKey: S1.Pub, AllowPaths: e.v.paths, SpendLimit: e.v.limit, SpendPeriod: e.v.period}
	if e.v.expiry > 0 {
		m.ExpiresAt = e.t0.Unix() + e.now + e.v.expiry
	}
	return m
}

var (
	nTx, nChains, nStatesReal atomic.Int64
	stateSet                  sync.Map
)

func newEnv(v variant) *env { return newEnvSpec(v, false) }

func newEnvSpec(v variant, withSub bool) *env {
	c, err := chainx.New(memdb.NewMemDB(), spec(withSub))
	if err != nil {
		r.HarnessError("chain init: %v", err)
	}
	for _, tr := range c.Init.TxResponses {
		if tr.Error != nil {
			r.HarnessError("genesis tx failed: %v %s", tr.Error, tr.Log)
		}
	}
	nChains.Add(1)
	c.Block()
	c.BeginBlock()
	e := &env{v: v, c: c, t0: c.LastTime, windowOut: map[string]int64{}}
	e.layers = e.readLayers()
	return e
}

func (e *env) stores() (store.MultiStore, types.StoreKey, types.StoreKey) {
	bk, mk := e.c.Base.VerifStoreKeys()
	return e.c.Base.VerifDeliverMultiStore(), bk, mk
}

func (e *env) readLayers() [2]map[string]lval {
	ms, bk, mk := e.stores()
	return [2]map[string]lval{readLayer(ms.GetStore(bk)), readLayer(ms.GetStore(mk))}
}

func (e *env) changed() []string {
	nl := e.readLayers()
	d := append(layerDiff(e.layers[0], nl[0], "base/"), layerDiff(e.layers[1], nl[1], "main/")...)
	e.layers = nl
	return d
}

func (e *env) masterBal() map[string]int64 {
	ms, _, mk := e.stores()
	st := ms.GetStore(mk)
	out := map[string]int64{}
	var acc std.Account
	if bz := st.Get(nil, append([]byte("/a/"), M.Addr[:]...)); bz != nil {
		amino.MustUnmarshal(bz, &acc)
		for _, c := range acc.GetCoins() {
			out[c.Denom] = c.Amount
		}
	}
	it := st.Iterator(nil, append([]byte("/b/"), M.Addr[:]...), append(append([]byte("/b/"), M.Addr[:]...), 0xff))
	for ; it.Valid(); it.Next() {
		v := it.Value()
		var n int64
		for _, b := range v {
			n = n<<8 | int64(b)
		}
		out[string(it.Key()[3+crypto.AddressSize:])] = n
	}
	it.Close()
	return out
}

func (e *env) sessionAcc() std.Account {
	ms, _, mk := e.stores()
	bz := ms.GetStore(mk).Get(nil, auth.SessionStoreKey(M.Addr, S1.Addr))
	if bz == nil {
		return nil
	}
	var acc std.Account
	amino.MustUnmarshal(bz, &acc)
	return acc
}

// signing: the master signs with the session key S1 (session ops) or its own key (master ops); a co-signer B signs plainly.
func (e *env) makeTx(op opDef) std.Tx {
	msgs := op.msgs(e)
	gas := int64(60_000_000)
	tx := std.Tx{Msgs: msgs, Fee: std.NewFee(gas, std.NewCoin("ugnot", op.fee)), Memo: ""}
	for _, signer := range tx.GetSigners() {
		var num, seq uint64
		var k chainx.Key
		var sessAddr crypto.Address
		switch {
		case signer == M.Addr && op.kind == "session":
			k, sessAddr = S1, S1.Addr
			if sa := e.sessionAcc(); sa != nil {
				num, seq = sa.GetAccountNumber(), sa.GetSequence()
			}
		case signer == M.Addr:
			k = M
			ai := e.c.Account(M.Addr)
			num, seq = ai.Num, ai.Seq
		case signer == B.Addr:
			k = B
			ai := e.c.Account(B.Addr)
			num, seq = ai.Num, ai.Seq
		default:
			panic("no key for signer")
		}
		sb, err := tx.GetSignBytes(chainx.ChainID, num, seq)
		if err != nil {
			panic(err)
		}
		sig, _ := k.Priv.Sign(sb)
		tx.Signatures = append(tx.Signatures, std.Signature{PubKey: k.Pub, Signature: sig, SessionAddr: sessAddr})
	}
	return tx
}

func errClass(er abci.Error) string {
	if er == nil {
		return "ok"
	}
	return strings.TrimPrefix(fmt.Sprintf("%T", er), "std.")
}

func firstLine(s string) string {
	if i := strings.IndexByte(s, '\n'); i >= 0 {
		s = s[:i]
	}
	if len(s) > 220 {
		s = s[:220]
	}
	return s
}

func head(s []string, n int) []string {
	if len(s) > n {
		return append(s[:n:n], fmt.Sprintf("... %d more", len(s)-n))
	}
	return s
}

// apply executes op on the real chain, updates the measured safety ledger and checks oracles (a)-(c).
// Returns whether the chain state changed.
func (e *env) apply(op opDef, label string, predicted bool) bool {
	if op.kind == "time" {
		e.c.EndBlockCommit()
		e.c.LastTime = e.c.LastTime.Add(time.Duration(op.adv-5) * time.Second)
		e.c.BeginBlock()
		e.now += op.adv
		if got := e.c.LastTime.Unix() - e.t0.Unix(); got != e.now {
			r.HarnessError("time bookkeeping: %d != %d", got, e.now)
		}
		e.layers = e.readLayers()
		nTx.Add(1)
		return true
	}
	tx := e.makeTx(op)
	pre := e.masterBal()
	res := e.c.DeliverTx(tx)
	nTx.Add(1)
	r.Eval()
	diff := e.changed()
	post := e.masterBal()
	changed := len(diff) > 0
	detail := func(why string) map[string]any {
		return map[string]any{"history": label, "why": why, "result": errClass(res.Error), "log": firstLine(res.Log), "changed_keys": head(diff, 8),
			"master_before": fmt.Sprint(pre), "master_after": fmt.Sprint(post), "block_time_rel": e.now}
	}
	if op.kind == "master" {
		r.Outcome(op.name[:8] + ":" + errClass(res.Error))
		if res.Error == nil {
			if strings.HasPrefix(op.name, "m:create") {
				e.sessLive, e.sessCreated, e.windowStart, e.windowOut = true, e.now, e.now, map[string]int64{}
			} else {
				e.sessLive = false
			}
		}
		return changed
	}
	// session-signed
	cls := "session-tx:"
	switch {
	case res.Error == nil:
		cls += "ok"
	case changed:
		cls += "ante-ok-msgs-failed:" + errClass(res.Error)
	default:
		cls += "rejected:" + errClass(res.Error)
	}
	r.Outcome(cls)
	if os.Getenv("VERIF_C16_DEBUG") != "" {
		fmt.Printf("DBG %s => %s changed=%v out=%d log=%s\n", label, cls, changed, pre["ugnot"]-post["ugnot"], firstLine(res.Log))
	}
	expired := e.v.expiry > 0 && e.sessLive && e.now >= e.sessCreated+e.v.expiry
	// (b)
	if (!e.sessLive || expired) && (changed || res.Error == nil) {
		e.bad = true
		what := "revoked-or-missing"
		if expired {
			what = "expired"
		}
		r.Violation("session-"+what+"-but-tx-took-effect:"+label, detail("a tx signed with a "+what+" session changed the state"))
		return changed
	}
	// (c)
	for _, m := range tx.Msgs {
		if !granted(e.v.paths, m) && (changed || res.Error == nil) {
			e.bad = true
			r.Violation("session-tx-outside-grant-took-effect:"+label, detail(fmt.Sprintf("message %s/%s is not covered by allow-paths %v", m.Route(), m.Type(), e.v.paths)))
			return changed
		}
	}
	// (a)
	if changed {
		if e.v.period > 0 && e.now >= e.windowStart+e.v.period {
			e.windowStart, e.windowOut = e.now, map[string]int64{}
		}
		for d, b := range pre {
			if out := b - post[d]; out > 0 {
				e.windowOut[d] += out
			}
		}
		for d, out := range e.windowOut {
			if lim := e.v.limit.AmountOf(d); out > lim {
				e.bad = true
				r.Violation("session-outflow-exceeds-limit:"+label, detail(fmt.Sprintf("outflow of %s from the master in the spend window starting at +%ds: %d > limit %d", d, e.windowStart, out, lim)))
				return changed
			}
		}
	}
	if predicted && !changed {
		r.Outcome("obs:implementation-stricter-than-reference")
		r.Sample(map[string]any{"observation": "stricter than the reference model", "history": label, "log": firstLine(res.Log)})
	}
	return changed
}


// ---- parts B and C: long-lived chains, one session instance per history, snapshots ---------------------------------------
//
// Parts B and C run MANY short histories per chain. A history starts by revoking the previous session instance (if any) and
// creating a new one (new account number, sequence 0, SpendUsed 0, SpendReset = block time): everything the property
// talks about lives in that session record and in the measured balance of the master, so histories on one chain are
// independent. Block time only moves forward. Within the last block of a history the spends are explored depth-first
// with snapshots (chainx.Push: a cache layer stacked on the deliver state, rolled back afterwards).

func (e *env) push() (pop func()) {
	popChain := e.c.Push()
	saved := *e
	wo := make(map[string]int64, len(e.windowOut))
	for k, v := range e.windowOut {
		wo[k] = v
	}
	e.layers = e.readLayers()
	return func() {
		popChain()
		*e = saved
		e.windowOut = wo
	}
}

var (
	opByName = map[string]opDef{}
	opRevoke opDef
	opCreate opDef
)

func initOps(ops []opDef) {
	for _, op := range ops {
		opByName[op.name] = op
	}
	opRevoke, opCreate = opByName["m:revoke(S1)"], opByName["m:create(S1)"]
	if opRevoke.msgs == nil || opCreate.msgs == nil {
		r.HarnessError("alphabet lacks create/revoke")
	}
}

func timeOp(adv int64) opDef { return opDef{name: fmt.Sprintf("t:+%ds", adv), kind: "time", adv: adv} }

// startHistory: a fresh session instance of grant v on this chain; false if the chain cannot be used any more.
// The previous instance is revoked by its master first, and — every time — the revoked instance is then tried once more:
// it must not authorize anything any longer (oracle (b)).
func (e *env) startHistory(v variant, label string) bool {
	if e.sessionAcc() != nil {
		prev := strings.TrimSuffix(e.lastLabel, "]") + " ; m:revoke(S1)"
		e.apply(opRevoke, prev+"]", false)
		if e.sessLive {
			r.HarnessError("the master's revoke of the previous session instance failed: %s", prev)
		}
		pop := e.push()
		e.apply(opByName["s:send(4M)"], prev+" ; s:send(4M)]", false)
		bad := e.bad
		pop()
		if bad || e.sessionAcc() != nil {
			return false // (reported above if a tx went through; a record that survives its revoke makes the chain unusable)
		}
	}
	e.v, e.t0, e.now = v, e.c.LastTime, 0
	e.sessLive, e.windowOut, e.bad = false, map[string]int64{}, false
	e.layers = e.readLayers()
	e.lastLabel = label
	e.apply(opCreate, label, false)
	if !e.sessLive {
		r.HarnessError("session creation failed: %s", label)
	}
	return !e.bad
}

// dfs: from the current state execute every op (in a snapshot); descend below the ones that changed the state.
func (e *env) dfs(ops []opDef, prefix string, depth int) {
	for _, op := range ops {
		label := prefix + " ; " + op.name
		r.Distinct(label + "]")
		pop := e.push()
		if e.apply(op, label+"]", false) && !e.bad && depth > 1 {
			e.dfs(ops, label, depth-1)
		}
		pop()
	}
}

// ---- part B: spend periods and idle gaps ------------------------------------------------------------------------------------

type bHist struct {
	v     variant
	steps []opDef // executed for real (committed), in order; time ops move to a new block
	depth int     // then: depth-first over spendOps to this depth
}

func (h bHist) label() string {
	s := []string{"m:create(S1)"}
	for _, op := range h.steps {
		s = append(s, op.name)
	}
	return h.v.name[:3] + ":[" + strings.Join(s, " ; ")
}

var variantsB = []variant{
	{name: "VB1(limit10M/100s,no-expiry)", period: P, paths: []string{"bank/send", "vm/exec:" + coinPath}, limit: ug(L)},
	{name: "VB2(limit10M-lifetime,no-expiry)", paths: []string{"bank/send", "vm/exec:" + coinPath}, limit: ug(L)},
}

func spendOps() []opDef {
	var out []opDef
	for _, n := range []string{"s:send(4M)", "s:send(L-fee)", "s:call(coin.Deposit,Send4M)", "s:call(coin.Grow20)", "s:send(1),fee6M"} {
		op, ok := opByName[n]
		if !ok {
			r.HarnessError("no op %s", n)
		}
		out = append(out, op)
	}
	return out
}

// historiesB: [pre-phase] ; idle gap g1 ; (depth-first spends)   and   gap g1 ; one spend ; gap g2 ; (depth-first spends).
// Gaps are chosen around the multiples of the period: none, <1, exactly 1 (-1/0/+1), just below / at / above 2, between 3 and
// 4, 10 and ~1000 periods.
func historiesB() []bHist {
	op := func(n string) opDef { return opByName[n] }
	gaps := []int64{0, 5, P - 1, P, P + 1, 2*P - 1, 2 * P, 2*P + 1, 3*P + 50, 10 * P, 1000*P + 7}
	pres := [][]opDef{
		nil,
		{op("s:send(4M)")},
		{op("s:send(L-fee)")},
		{timeOp(P + 30), op("s:send(4M)")}, // the window was re-anchored once already (off the creation time)
	}
	depth1, depth2 := 3, 2
	gaps2a, gaps2b := []int64{P - 1, P, 2*P + 1, 1000*P + 7}, []int64{5, P - 1, P, 2*P + 1}
	if r.Thorough() {
		depth1, depth2 = 4, 3
		gaps2a, gaps2b = gaps, gaps[1:]
	}
	var out []bHist
	for _, pre := range pres {
		for _, g := range gaps {
			steps := append([]opDef{}, pre...)
			if g > 0 {
				steps = append(steps, timeOp(g))
			}
			out = append(out, bHist{variantsB[0], steps, depth1})
		}
	}
	for _, g1 := range gaps2a {
		for _, x := range []string{"s:send(4M)", "s:send(L-fee)"} {
			for _, g2 := range gaps2b {
				out = append(out, bHist{variantsB[0], []opDef{timeOp(g1), op(x), timeOp(g2)}, depth2})
			}
		}
	}
	// a lifetime cap: no gap may ever refresh it
	for _, pre := range pres[:3] {
		for _, g := range []int64{5, P, 2*P + 1, 1000*P + 7} {
			out = append(out, bHist{variantsB[1], append(append([]opDef{}, pre...), timeOp(g)), depth2})
		}
	}
	return out
}

func runB(e *env, h bHist, ops []opDef) bool {
	label := h.label()
	if !e.startHistory(h.v, label+"]") {
		return false
	}
	r.Distinct(label + "]")
	for k, op := range h.steps {
		var s []string
		for _, o := range h.steps[:k+1] {
			s = append(s, o.name)
		}
		e.apply(op, h.v.name[:3]+":[m:create(S1) ; "+strings.Join(s, " ; ")+"]", false)
		if e.bad {
			return false // (a violation in the committed prefix: this chain is not used any further)
		}
	}
	e.dfs(ops, label, h.depth)
	return true
}

// ---- part C: multi-message transactions against the allow-list ------------------------------------------------------------

const subPath = "gno.land/r/verif/coin/sub"

var variantsC = []variant{
	{name: "G1{bank/send,vm/exec:coin}", paths: []string{"bank/send", "vm/exec:" + coinPath}, limit: ug(L)},
	{name: "G2{vm/exec:coin}", paths: []string{"vm/exec:" + coinPath}, limit: ug(L)},
	{name: "G3{vm/exec:coinx,vm/run}", paths: []string{"vm/exec:" + coinxPath, "vm/run"}, limit: ug(L)},
	{name: "G4{*}", paths: []string{"*"}, limit: ug(L)},
	{name: "G5{vm/exec}", paths: []string{"vm/exec"}, limit: ug(L)},
	{name: "G6{vm/exec:coin/sub,bank/send}", paths: []string{"vm/exec:" + subPath, "bank/send"}, limit: ug(L)},
}

type mkind struct {
	name string
	mk   func(amt int64) std.Msg
}

func runScriptAmt(amt int64) string {
	return fmt.Sprintf(`package main

import (
	"chain"
	"chain/banker"
)

func main(cur realm) {
	banker.NewBanker(banker.BankerTypeRealmSend, cur).SendCoins(cur.Address(), address("%s"), chain.Coins{{"ugnot", %d}})
}
`, B.Addr.String(), amt)
}

func msgKinds() []mkind {
	return []mkind{
		{"send", func(a int64) std.Msg { return bank.MsgSend{FromAddress: M.Addr, ToAddress: B.Addr, Amount: ug(a)} }},
		{"call(coin)", func(a int64) std.Msg { return chainx.Call(M.Addr, ug(a), coinPath, "Deposit") }},
		{"call(coin/sub)", func(a int64) std.Msg { return chainx.Call(M.Addr, ug(a), subPath, "Deposit") }},
		{"call(coinx)", func(a int64) std.Msg { return chainx.Call(M.Addr, ug(a), coinxPath, "Deposit") }},
		{"run", func(a int64) std.Msg { return chainx.Run(M.Addr, nil, runScriptAmt(a)) }},
		{"addpkg", func(a int64) std.Msg {
			return chainx.AddPkg(M.Addr, "gno.land/r/verif/bysession", map[string]string{"a.gno": "package bysession\n\nvar X = 1\n"})
		}},
		{"auth.create-session(S2)", func(a int64) std.Msg {
			return auth.MsgCreateSession{Creator: M.Addr, SessionKey: S2.Pub, AllowPaths: []string{"*"}, SpendLimit: ug(fund)}
		}},
		{"B:call(coinx)", func(a int64) std.Msg { return chainx.Call(B.Addr, ug(1), coinxPath, "Deposit") }}, // a co-signer's own message
	}
}

const amtC = int64(3_000_000) // fee 1M + 3 x 3M = the limit exactly

// tuplesC: all message tuples of length 1..maxLen over the kinds (those without any message of the master are dropped).
func tuplesC(nk, maxLen int) [][]int {
	var out [][]int
	var rec func(cur []int)
	rec = func(cur []int) {
		if len(cur) > 0 {
			master := false
			for _, k := range cur {
				if k != nk-1 {
					master = true
				}
			}
			if master {
				out = append(out, append([]int{}, cur...))
			}
		}
		if len(cur) == maxLen {
			return
		}
		for k := 0; k < nk; k++ {
			rec(append(cur, k))
		}
	}
	rec(nil)
	return out
}

type cTask struct {
	v      variant
	warm   bool // start from "5M of the limit used" instead of the fresh session
	tuples [][]int
}

func runC(e *env, t cTask, kinds []mkind) bool {
	head := t.v.name[:2] + ":[m:create(S1)"
	if !e.startHistory(t.v, head+"]") {
		return false
	}
	if t.warm {
		// 5M of the limit used up front, by the first kind of spend the grant permits
		var wop *opDef
		for _, k := range kinds[:4] {
			k := k
			if granted(t.v.paths, k.mk(1)) {
				wop = &opDef{name: "s:{" + k.name + "(4M)}", kind: "session", fee: fee, msgs: func(*env) []std.Msg { return []std.Msg{k.mk(4_000_000)} }}
				break
			}
		}
		if wop == nil {
			r.HarnessError("grant %s permits no spend", t.v.name)
		}
		head += " ; " + wop.name
		if !e.apply(*wop, head+"]", false) || e.bad {
			r.HarnessError("warm-up spend did not go through: %s", head)
		}
	}
	for _, tu := range t.tuples {
		var names []string
		for _, k := range tu {
			names = append(names, kinds[k].name)
		}
		tu := tu
		op := opDef{name: "s:{" + strings.Join(names, ",") + "}", kind: "session", fee: fee, msgs: func(*env) []std.Msg {
			var ms []std.Msg
			for _, k := range tu {
				ms = append(ms, kinds[k].mk(amtC))
			}
			return ms
		}}
		label := head + " ; " + op.name + "]"
		r.Distinct(label)
		pop := e.push()
		e.apply(op, label, false)
		pop()
	}
	return true
}

// ---- exploration -----------------------------------------------------------------------------------------------------------

type node struct {
	path []int
	ms   mstate
}

func pathName(v variant, ops []opDef, p []int, extra int) string {
	var s []string
	for _, i := range p {
		s = append(s, ops[i].name)
	}
	if extra >= 0 {
		s = append(s, ops[extra].name)
	}
	return v.name[:2] + ":[" + strings.Join(s, " ; ") + "]"
}

// replay builds a chain and applies path; nil if something on the way did not change the state as the model says
// (then the subtree is dropped; violations were reported by apply).
func replay(v variant, ops []opDef, p []int) *env {
	e := newEnv(v)
	for k, i := range p {
		ch := e.apply(ops[i], pathName(v, ops, p[:k], i), true)
		if e.bad || !ch {
			return nil
		}
	}
	return e
}

// expand: execHere = state-changing ops whose target state is reached by another, already scheduled path (their
// transition would otherwise never be executed); leaf: execute every state-changing op here.
func expand(v variant, ops []opDef, n node, leaf bool, execHere []int) {
	e := replay(v, ops, n.path)
	if e == nil {
		return
	}
	r.Distinct(pathName(v, ops, n.path, -1))
	if _, loaded := stateSet.LoadOrStore(v.name+n.ms.key(), true); !loaded {
		nStatesReal.Add(1)
	}
	var changing []int
	for i, op := range ops {
		_, ch := n.ms.step(v, op)
		if ch {
			changing = append(changing, i)
			continue
		}
		if op.kind == "time" || op.kind == "master" {
			continue // time: not applicable in this variant / time budget used up; master: a failing master-signed tx
		}
		r.Distinct(pathName(v, ops, n.path, i))
		if e.apply(op, pathName(v, ops, n.path, i), false) || e.bad {
			if e.bad {
				return
			}
			// the reference model said "no effect" but the chain moved (allowed: e.g. a failing master tx pays a fee);
			// continue from a fresh replay
			if e = replay(v, ops, n.path); e == nil {
				return
			}
		}
	}
	if !leaf {
		changing = execHere
	}
	for k, i := range changing {
		if k > 0 {
			if e = replay(v, ops, n.path); e == nil {
				return
			}
		}
		r.Distinct(pathName(v, ops, n.path, i))
		e.apply(ops[i], pathName(v, ops, n.path, i), true)
		if e.bad {
			return
		}
	}
}

func calibrate() {
	e := newEnv(variants[0])
	for k := 0; k < 4; k++ {
		pre := e.masterBal()["ugnot"]
		tx := e.c.MakeTx(keys, []std.Msg{chainx.Call(M.Addr, nil, coinPath, "Grow", "20")}, chainx.TxOpt{GasWanted: 60_000_000, FeeAmount: fee})
		if res := e.c.DeliverTx(tx); res.Error != nil {
			r.HarnessError("calibration Grow failed: %s", firstLine(res.Log))
		}
		growDeposit = append(growDeposit, pre-e.masterBal()["ugnot"]-fee)
	}
}

func main() {
	debug.SetGCPercent(400)
	r = vk.New("model_checking")
	r.SetBudget(150*time.Second, 25*time.Minute)
	if p := os.Getenv("VERIF_C16_PROFILE"); p != "" {
		f, _ := os.Create(p)
		pprof.StartCPUProfile(f)
		defer pprof.StopCPUProfile()
	}
	tMain := time.Now()
	ops := alphabet()
	initOps(ops)
	depth, leafExec := 4, false
	if r.Thorough() {
		depth, leafExec = 6, true
	}
	calibrate()

	// parts B and C first (cheap: a handful of long-lived chains); part A (one chain per visited state) takes the rest
	kinds := msgKinds()
	var work []func(e *env) bool
	hb := historiesB()
	for _, h := range hb {
		h := h
		work = append(work, func(e *env) bool { return runB(e, h, spendOps()) })
	}
	maxLen := 3
	nTuples := 0
	for _, v := range variantsC {
		for _, warm := range []bool{false, true} {
			ml := maxLen
			if warm {
				ml = 2
			}
			tus := tuplesC(len(kinds), ml)
			nTuples += len(tus)
			for lo := 0; lo < len(tus); lo += 100 {
				t := cTask{v: v, warm: warm, tuples: tus[lo:min(lo+100, len(tus))]}
				work = append(work, func(e *env) bool { return runC(e, t, kinds) })
			}
		}
	}
	const workers = 16
	doneBC := make([]int, workers)
	r.ParFor(workers, func(w int) {
		var e *env
		for i := w; i < len(work); i += workers {
			if r.Expired() {
				return
			}
			for attempt := 0; attempt < 2; attempt++ {
				if e == nil {
					e = newEnvSpec(variantsB[0], true)
				}
				if work[i](e) {
					break
				}
				e = nil // a violation in a committed step (reported): this chain is not used any further; once more on a new one
			}
			doneBC[w]++
		}
	})
	nBC := 0
	for _, n := range doneBC {
		nBC += n
	}
	txBC := nTx.Load()
	tBC := time.Since(tMain)
	r.Sample(map[string]any{"history": "V1:[m:create(S1) ; s:send(4M) ; s:send(4M) ; s:send(1),fee6M]", "meaning": "5M + 5M spent: a third tx whose fee alone exceeds the remaining budget must not take a fee"})
	r.Sample(map[string]any{"history": "V1:[m:create(S1) ; s:send(L-fee) ; t:+P-1 ; s:send(4M)]", "meaning": "one second before the period ends the budget is still exhausted; at +P it is fresh"})
	r.Sample(map[string]any{"history": "V2:[m:create(S1) ; s:run(script spends 4M of the master) ; s:run(…) ; s:run(…)]", "meaning": "undeclared spending from inside a MsgRun script is caught at the bank hook: third run must fail leaving only its fee"})
	createIdx := -1
	for i, op := range ops {
		if strings.HasPrefix(op.name, "m:create") {
			createIdx = i
		}
	}
	total := 0
	levels := 0
	// both variants advance level by level together, so that a budget cap cuts the deepest level of both rather than
	// one variant entirely
	type vnode struct {
		v int
		n node
	}
	frontier := []vnode{}
	seen := map[string]bool{}
	for vi := range variants {
		// level 0: the state before any session exists (every session-signed tx must be rejected there)
		frontier = append(frontier, vnode{vi, node{path: nil, ms: mstate{}}})
		seen[fmt.Sprint(vi)+mstate{}.key()] = true
	}
	for lvl := 0; lvl < depth && len(frontier) > 0; lvl++ {
		last := lvl == depth-1
		fr := frontier
		total += len(fr)
		var next []vnode
		execHere := make([][]int, len(fr))
		for ni, vn := range fr {
			v, n := variants[vn.v], vn.n
			for i, op := range ops {
				if len(n.path) == 0 && i != createIdx {
					continue // histories start with the creation of the session
				}
				ns, ch := n.ms.step(v, op)
				if !ch {
					continue
				}
				if last {
					continue // deepest level: state-changing steps are executed only when leafExec (all of them)
				}
				if seen[fmt.Sprint(vn.v)+ns.key()] {
					execHere[ni] = append(execHere[ni], i)
					continue
				}
				seen[fmt.Sprint(vn.v)+ns.key()] = true
				next = append(next, vnode{vn.v, node{path: append(append([]int{}, n.path...), i), ms: ns}})
			}
		}
		r.ParFor(len(fr), func(i int) { expand(variants[fr[i].v], ops, fr[i].n, last && leafExec, execHere[i]) })
		if r.Capped() {
			break
		}
		frontier = next
		levels = lvl + 1
	}
	pprof.StopCPUProfile()
	fmt.Printf("calibration + parts B,C: %.1fs (%d transitions); part A: %.1fs\n", tBC.Seconds(), txBC, (time.Since(tMain) - tBC).Seconds())
	r.Sample(map[string]any{"history": "VB1:[m:create(S1) ; t:+201s ; s:send(L-fee) ; s:send(4M)]", "meaning": "after idling two periods the first spend opens ONE new window: the second spend in the same block must not get a fresh budget"})
	r.Sample(map[string]any{"history": "G1:[m:create(S1) ; s:{call(coin),call(coinx)}]", "meaning": "a granted call first must not clear a later call of the same kind to a realm outside the grant"})
	r.Assumptions = []string{
		"parts B/C: histories share long-lived chains; each history revokes the previous session instance and creates a new one (all session state lives in that record); spends after the last block boundary are explored with snapshots (cache layer stacked on the deliver state)",
		"outflow is the NET decrease of the master's balance over a session-signed tx (a storage refund inside the same tx offsets it); gross movement is not observable from balances",
		"spend windows of the ledger: start at creation; the first effective session tx at or after start+period opens the next (the documented reset rule), period 0 = lifetime",
		"the reference model steers exploration only; storage-deposit sizes in it are calibrated from 4 master-signed runs",
		"state equality = effective dirty entries of the block's cache layer of both stores (see C15 for the cross-check of that observation against full store reads)",
		"MsgMultiSend is not amino-registered and cannot be sent; a second concurrent session on the same master is not enumerated (a session as non-fee-paying co-signer is: part C tuples starting with the co-signer's message)",
	}
	r.Finish(fmt.Sprintf("B: %d histories over idle gaps {0,<1,1-1s,1,1+1s,2-1s,2,2+1s,3.5,10,~1000 periods} x pre-phases, then depth-first over %d spend ops with snapshots; C: %d message tuples (length <=%d over %d kinds) x %d grants through the real app; A: ", len(hb), len(spendOps()), nTuples, maxLen, len(kinds), len(variantsC))+fmt.Sprintf("2 grant variants; breadth-first over the reference-model states reachable by <=%d state-changing steps (creation included), every one of the %d alphabet operations tried at every visited state on a real chain replayed from genesis; accepted deepest steps executed: %v; distinct = distinct histories (prefix + tried op)", depth, len(ops), leafExec),
		true, map[string]any{"states": nStatesReal.Load(), "transitions": nTx.Load(), "traces_validated_against_impl": nTx.Load(), "chains_built": nChains.Load(),
			"depth": depth, "levels_completed": levels, "alphabet": len(ops), "state_tasks": total, "calibrated_grow_deposits": growDeposit,
			"partB_histories": len(hb), "partC_tuples": nTuples, "partBC_work_items_done": nBC, "partBC_work_items": len(work), "partBC_transitions": txBC})
}
