// C47, schedule phase: ONE AEAD value shared by 2-3 threads (cipher.AEAD values may be used concurrently).
//
// The overlay rewrites the "sync" / "sync/atomic" imports of the two cipher files to the controlled-scheduler
// shims (hooks/verifsync, hooks/verifatomic), so every lock / atomic operation INSIDE the cipher is a scheduling
// point, and every schedule with at most `bound` preemptions (all interleavings for 2-thread scenarios) is
// executed. While the files do not import sync at all (the unchanged tree: the ciphers are stateless) the rewrite
// is a no-op, the only scheduling points are thread exits, and the phase degenerates to the thread orderings -
// this is recorded in the evidence (scheduling_points_inside_cipher). Because mkoverlay applies the rewrite on
// top of a VERIF_MUTANT-patched copy, a change that introduces shared state + locking becomes schedulable.
//
// Oracle per thread (exactly the property, instantiated for a shared value): Seal output equals
// XChaCha20-Poly1305(key, nonce) of x/crypto (so a correct implementation opens it), Open of the genuine
// message returns the plaintext, Open under a changed nonce (another thread's: one bit of the prefix or of the
// tail differs) fails.  Only one exploration per process: one worker subprocess per (scenario, bound).
// A separate free-running pass of the same bodies runs in the -race build (marker file harness/c47/race).
package main

import (
	"bytes"
	"encoding/json"
	"fmt"
	"os"
	"os/exec"
	"sort"
	"strings"
	"sync"
	"time"

	"golang.org/x/crypto/chacha20poly1305"

	"github.com/gnolang/gno/tm2/pkg/crypto/xchacha20poly1305"
	"github.com/gnolang/gno/tm2/pkg/crypto/xsalsa20symmetric"
	vs "github.com/gnolang/gno/tm2/pkg/verifsync"
	"verif/engine/vk"
)

type sthread struct {
	name       string
	nonce, alt []byte // own nonce; changed nonce under which the own message must NOT open
	order      string // S = Seal, O = Open(genuine), X = Open(genuine message, changed nonce)
}

type sscenario struct {
	name    string
	xsalsa  bool
	threads []sthread
	bounds  []int // preemption bounds explored in quick (1000 = every interleaving)
	tbounds []int // thorough
}

func flip(b []byte, byteIdx int, bit uint) []byte {
	o := append([]byte(nil), b...)
	o[byteIdx] ^= 1 << bit
	return o
}

var schedScenarios = func() []sscenario {
	n0 := pattern(2, 24, 0x80)
	p1 := flip(n0, 0, 0)  // prefix differs from n0 in one bit (first prefix byte)
	p2 := flip(n0, 15, 7) // prefix differs from n0 in one bit (last prefix byte)
	t1 := flip(p1, 23, 0) // same prefix as p1, tail differs in one bit
	t0 := flip(n0, 16, 0) // same prefix as n0, tail differs in one bit
	return []sscenario{
		{name: "2 threads, prefixes differ by one bit, Seal/Open/Open-changed-nonce", threads: []sthread{
			{"T1", n0, p1, "SOX"}, {"T2", p1, n0, "SOX"}}, bounds: []int{2, 1000}, tbounds: []int{2, 1000}},
		{name: "3 threads, three prefixes one bit apart, Seal/Open/Open-changed-nonce", threads: []sthread{
			{"T1", n0, p1, "SOX"}, {"T2", p1, p2, "SOX"}, {"T3", p2, n0, "SOX"}}, bounds: []int{2}, tbounds: []int{2, 3, 4}},
		{name: "3 threads, two share a prefix (tails differ), Seal/Open", threads: []sthread{
			{"T1", n0, p1, "SO"}, {"T2", p1, t1, "SO"}, {"T3", t1, p1, "SO"}}, bounds: []int{2}, tbounds: []int{2, 3, 1000}},
		{name: "2 threads, same prefix, tails differ by one bit, Open first", threads: []sthread{
			{"T1", n0, t0, "OXS"}, {"T2", t0, n0, "XOS"}}, bounds: []int{2, 1000}, tbounds: []int{2, 1000}},
		{name: "xsalsa20symmetric: 2 threads, two secrets, Encrypt/Decrypt/Decrypt-wrong-secret", xsalsa: true, threads: []sthread{
			{"T1", nil, nil, "SOX"}, {"T2", nil, nil, "SOX"}}, bounds: []int{2}, tbounds: []int{2, 1000}},
	}
}()

// sworld is the shared state of one execution: the ONE cipher value and the per-thread findings.
type sworld struct {
	fails [][]string
}

// body builds the shared AEAD and starts the threads through spawn (controlled or free-running).
func (sc *sscenario) body(w *sworld, spawn func(name string, fn func())) {
	key := pattern(2, 32, 0x40)
	w.fails = make([][]string, len(sc.threads))
	var shared interface {
		Seal(dst, nonce, plaintext, additionalData []byte) []byte
		Open(dst, nonce, ciphertext, additionalData []byte) ([]byte, error)
	}
	if !sc.xsalsa {
		a, err := xchacha20poly1305.New(key)
		if err != nil {
			w.fails[0] = append(w.fails[0], "New rejects a 32-byte key")
			return
		}
		shared = a
	}
	for ti := range sc.threads {
		ti := ti
		th := sc.threads[ti]
		spawn(th.name, func() {
			fail := func(s string) { w.fails[ti] = append(w.fails[ti], s) }
			pt := pattern(2, 33+ti, byte(1+16*ti))
			if sc.xsalsa {
				secret := pattern(2, 32, byte(0x40+ti))
				other := pattern(2, 32, byte(0x40+(ti+1)%len(sc.threads)))
				want := refSecretbox(pt, make([]byte, 24), secret)
				for _, op := range th.order {
					switch op {
					case 'S':
						if ct := xsalsa20symmetric.EncryptSymmetric(pt, secret); !bytes.Equal(ct, want) {
							fail("EncryptSymmetric output differs from the reference secretbox")
						}
					case 'O':
						if out, err := xsalsa20symmetric.DecryptSymmetric(want, secret); err != nil {
							fail("DecryptSymmetric rejects a genuine message")
						} else if !bytes.Equal(out, pt) {
							fail("DecryptSymmetric returns a wrong plaintext")
						}
					case 'X':
						if _, err := xsalsa20symmetric.DecryptSymmetric(want, other); err == nil {
							fail("DecryptSymmetric accepts a message under another secret")
						}
					}
				}
				return
			}
			ad := pattern(2, 5, byte(0xa0+ti))
			ref, _ := chacha20poly1305.NewX(key)
			want := ref.Seal(nil, th.nonce, pt, ad)
			for _, op := range th.order {
				switch op {
				case 'S':
					if ct := shared.Seal(nil, th.nonce, pt, ad); !bytes.Equal(ct, want) {
						fail("Seal output is not XChaCha20-Poly1305(key,nonce) (a correct implementation cannot open it)")
					}
				case 'O':
					if out, err := shared.Open(nil, th.nonce, want, ad); err != nil {
						fail("Open rejects a genuine message")
					} else if !bytes.Equal(out, pt) {
						fail("Open returns a wrong plaintext")
					}
				case 'X':
					if _, err := shared.Open(nil, th.alt, want, ad); err == nil {
						fail("Open accepts a message under a changed nonce")
					}
				}
			}
		})
	}
}

// classOf: violation class of one finished execution ("" = all threads fine) and the observation vector.
func (w *sworld) classOf(sc *sscenario, x *vs.Exec) (class, obs string) {
	var parts []string
	for ti, f := range w.fails {
		if len(f) == 0 {
			parts = append(parts, sc.threads[ti].name+":ok")
			continue
		}
		parts = append(parts, sc.threads[ti].name+":"+strings.Join(f, "+"))
		if class == "" {
			class = f[0]
		}
	}
	if x != nil {
		switch {
		case len(x.Panics) > 0:
			class = "panic in a thread"
			var names []string
			for n := range x.Panics {
				names = append(names, n)
			}
			sort.Strings(names)
			parts = append(parts, "panics:"+strings.Join(names, ","))
		case x.Deadlock:
			class = "deadlock"
			parts = append(parts, "deadlock:"+strings.Join(x.Blocked, ","))
		case x.Horizon:
			class = "no termination within the scheduling-point horizon"
		}
	}
	return class, strings.Join(parts, " ")
}

type sviolation struct {
	Class    string   `json:"class"`
	Obs      string   `json:"observation"`
	Schedule []int    `json:"schedule"`
	Trace    []string `json:"trace"`
	Stable   bool     `json:"stable"`
}

type sjobResult struct {
	Scenario    string         `json:"scenario"`
	Bound       int            `json:"bound"`
	Execs       int            `json:"execs"`
	MaxPoints   int            `json:"max_points"`
	InnerPoints int            `json:"inner_points"` // max scheduling points per execution that are NOT thread exits
	Outcomes    map[string]int `json:"outcomes"`
	Violations  []sviolation   `json:"violations"`
	Capped      bool           `json:"capped"`
	Err         string         `json:"err"`
}

const schedHorizon = 600

func runSchedJob(si, bound int, budget time.Duration, maxExecs int) sjobResult {
	sc := &schedScenarios[si]
	res := sjobResult{Scenario: sc.name, Bound: bound, Outcomes: map[string]int{}}
	rdr.mode = 0 // EncryptSymmetric's nonce: all zero, the reader is never written again
	var w *sworld
	body := func() {
		w = &sworld{}
		sc.body(w, func(name string, fn func()) { vs.Go(name, fn) })
	}
	deadline := time.Now().Add(budget)
	seen := map[string]bool{}
	ex := &vs.Explorer{Bound: bound, Horizon: schedHorizon, MaxExecs: maxExecs, Stop: func() bool { return time.Now().After(deadline) }}
	ex.Check = func(x *vs.Exec) bool {
		inner := 0
		for _, p := range x.Points {
			if !strings.HasPrefix(p.Op, "exit:") {
				inner++
			}
		}
		if inner > res.InnerPoints {
			res.InnerPoints = inner
		}
		class, obs := w.classOf(sc, x)
		res.Outcomes[obs]++
		if class != "" && !seen[class] {
			seen[class] = true
			v := sviolation{Class: class, Obs: obs, Schedule: append([]int{}, x.Choices...), Stable: true}
			for k := 0; k < 3; k++ { // the same schedule must fail identically
				x2, err := vs.Replay(v.Schedule, schedHorizon, body)
				c2 := ""
				if err == nil {
					c2, _ = w.classOf(sc, x2)
					v.Trace = x2.Trace
				}
				if err != nil || c2 != class {
					v.Stable = false
				}
			}
			if len(v.Trace) > 80 {
				v.Trace = v.Trace[:80]
			}
			res.Violations = append(res.Violations, v)
		}
		return true
	}
	if err := ex.Explore(body); err != nil {
		res.Err = err.Error()
	}
	res.Execs, res.MaxPoints, res.Capped = ex.Execs, ex.MaxPoints, ex.Capped
	return res
}

// freeRun: the same bodies with real goroutines and the real sync package (the shims fall through when no
// exploration is active); run by the -race build.
func freeRun(iters int) {
	rdr.mode = 0
	bad := map[string]bool{}
	for si := range schedScenarios {
		sc := &schedScenarios[si]
		for it := 0; it < iters; it++ {
			w := &sworld{}
			var wg sync.WaitGroup
			start := make(chan struct{})
			sc.body(w, func(name string, fn func()) {
				wg.Add(1)
				go func() { defer wg.Done(); <-start; fn() }()
			})
			close(start)
			wg.Wait()
			if c, obs := w.classOf(sc, nil); c != "" && !bad[sc.name+c] {
				bad[sc.name+c] = true
				fmt.Printf("FREERUN-ORACLE scenario=%q class=%q %s\n", sc.name, c, obs)
			}
		}
	}
	if len(bad) == 0 {
		fmt.Println("FREERUN-OK")
	}
}

type schedPhase struct {
	done    chan struct{}
	results []sjobResult
	jobs    [][2]int
	raceOut string
	raceErr error
	raceRan bool
}

// startSchedPhase launches the worker subprocesses (and the -race pass) in the background; the enumeration
// phases of the main process run meanwhile.
func startSchedPhase(r *vk.Run, raceBin string) *schedPhase {
	p := &schedPhase{done: make(chan struct{})}
	for si, sc := range schedScenarios {
		bs := sc.bounds
		if r.Thorough() {
			bs = sc.tbounds
		}
		for _, b := range bs {
			p.jobs = append(p.jobs, [2]int{si, b})
		}
	}
	p.results = make([]sjobResult, len(p.jobs))
	perJob, maxExecs := 60, 300_000
	if r.Thorough() {
		perJob, maxExecs = 600, 5_000_000
	}
	go func() {
		defer close(p.done)
		var wg sync.WaitGroup
		sem := make(chan struct{}, 4)
		for i := range p.jobs {
			i := i
			wg.Add(1)
			go func() {
				defer wg.Done()
				sem <- struct{}{}
				defer func() { <-sem }()
				cmd := exec.Command(os.Args[0], "-id", r.ID, "-worker", fmt.Sprintf("%d:%d:%d:%d", p.jobs[i][0], p.jobs[i][1], perJob, maxExecs))
				cmd.Env = append(os.Environ(), "GOMAXPROCS=1")
				out, err := cmd.CombinedOutput()
				ok := false
				var jr sjobResult
				for _, line := range strings.Split(string(out), "\n") {
					if strings.HasPrefix(line, "RESULT ") {
						ok = json.Unmarshal([]byte(line[7:]), &jr) == nil
					}
				}
				if !ok {
					jr = sjobResult{Scenario: schedScenarios[p.jobs[i][0]].name, Bound: p.jobs[i][1], Err: fmt.Sprintf("worker failed: %v: %s", err, tailStr(string(out), 800))}
				}
				p.results[i] = jr
			}()
		}
		if raceBin != "" {
			wg.Add(1)
			go func() {
				defer wg.Done()
				sem <- struct{}{}
				defer func() { <-sem }()
				n := "2000"
				if r.Thorough() {
					n = "100000"
				}
				out, err := exec.Command(raceBin, "-id", r.ID, "-freerun", n).CombinedOutput()
				p.raceOut, p.raceErr, p.raceRan = string(out), err, true
			}()
		}
		wg.Wait()
	}()
	return p
}

func tailStr(s string, n int) string {
	if len(s) > n {
		return s[len(s)-n:]
	}
	return s
}

// collect waits for the phase and turns the results into evidence / violations.
func (p *schedPhase) collect(r *vk.Run) map[string]any {
	<-p.done
	var per []map[string]any
	total, inner := 0, 0
	for _, jr := range p.results {
		if jr.Err != "" {
			r.HarnessError("schedule phase, scenario %q bound %d: %s", jr.Scenario, jr.Bound, jr.Err)
		}
		total += jr.Execs
		r.EvalN(int64(jr.Execs))
		if jr.Capped {
			r.MarkCapped()
		}
		if jr.InnerPoints > inner {
			inner = jr.InnerPoints
		}
		for o := range jr.Outcomes {
			r.Distinct("sched|" + jr.Scenario + "|" + o)
		}
		b := fmt.Sprint(jr.Bound)
		if jr.Bound >= 1000 {
			b = "all-interleavings"
		}
		r.OutcomeN("sched:schedules_executed(bound="+b+")", int64(jr.Execs))
		per = append(per, map[string]any{"scenario": jr.Scenario, "preemption_bound": b, "schedules": jr.Execs, "max_points": jr.MaxPoints,
			"scheduling_points_inside_cipher": jr.InnerPoints, "distinct_observations": len(jr.Outcomes), "capped": jr.Capped})
		for _, v := range jr.Violations {
			if !v.Stable {
				r.HarnessError("unstable schedule violation (same schedule did not fail 3x): %s: %s", jr.Scenario, v.Class)
			}
			r.Violation("sched: "+jr.Scenario+": "+v.Class, map[string]any{"scenario": jr.Scenario, "bound": jr.Bound, "class": v.Class,
				"observation": v.Obs, "schedule": v.Schedule, "trace": v.Trace})
		}
	}
	raceNote := "race pass not run (no -race binary)"
	if p.raceRan {
		s := p.raceOut
		switch {
		case strings.Contains(s, "DATA RACE"):
			r.Violation("data-race: "+raceKey(s), map[string]any{"output": tailStr(s, 4000)})
			raceNote = "DATA RACE reported"
		case strings.Contains(s, "FREERUN-ORACLE"):
			l := s[strings.Index(s, "FREERUN-ORACLE"):]
			if i := strings.IndexByte(l, '\n'); i >= 0 {
				l = l[:i]
			}
			r.Violation("freerun: shared-AEAD oracle failed with free-running goroutines", map[string]any{"first": l, "output": tailStr(s, 4000), "note": "free-running goroutines: which scenario/class fails first is timing dependent; the schedule phase gives the reproducible schedule"})
			raceNote = "free-running oracle failure"
		case p.raceErr != nil || !strings.Contains(s, "FREERUN-OK"):
			r.HarnessError("race pass failed: %v %s", p.raceErr, tailStr(s, 600))
		default:
			raceNote = "free-running -race pass of the same bodies: no race reported, oracle held"
		}
	}
	note := "scheduling points inside the ciphers: " + fmt.Sprint(inner)
	if inner == 0 {
		note += " - the cipher files import neither sync nor sync/atomic (stateless values), the import rewrite is a no-op and the only decisions are the thread orderings at thread exit; the phase decides nothing beyond the sequential enumeration on this tree and exists so that a change introducing shared state + locking is explored"
	}
	return map[string]any{"schedules": total, "per_scenario": per, "scheduling_points_inside_cipher_max": inner, "note": note, "race_pass": raceNote}
}

func raceKey(s string) string {
	i := strings.Index(s, "DATA RACE")
	for _, l := range strings.Split(s[i:], "\n") {
		l = strings.TrimSpace(l)
		if strings.HasPrefix(l, "github.com/gnolang/gno") {
			return l
		}
	}
	return "unknown"
}

func schedReplay(r *vk.Run) {
	b, err := os.ReadFile(r.ReplayIn)
	if err != nil {
		r.HarnessError("%v", err)
	}
	var f struct {
		Detail struct {
			Scenario string `json:"scenario"`
			Schedule []int  `json:"schedule"`
		} `json:"detail"`
	}
	json.Unmarshal(b, &f)
	for si := range schedScenarios {
		sc := &schedScenarios[si]
		if sc.name != f.Detail.Scenario {
			continue
		}
		rdr.mode = 0
		var w *sworld
		body := func() {
			w = &sworld{}
			sc.body(w, func(name string, fn func()) { vs.Go(name, fn) })
		}
		x, err := vs.Replay(f.Detail.Schedule, schedHorizon, body)
		if err != nil {
			r.HarnessError("%v", err)
		}
		c, obs := w.classOf(sc, x)
		fmt.Printf("scenario %q\ntrace:\n  %s\nresult: class=%q %s\n", sc.name, strings.Join(x.Trace, "\n  "), c, obs)
		if c != "" {
			fmt.Printf("VIOLATION property=%s replay=%s\n", r.ID, r.ReplayIn)
			os.Exit(1)
		}
		os.Exit(0)
	}
	r.HarnessError("replay file does not name a schedule-phase scenario (only schedule violations are replayable)")
}
