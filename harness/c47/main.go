// C47: authenticated ciphers round-trip and detect tampering.
//
// Real code under test: tm2/pkg/crypto/xchacha20poly1305 (New/Seal/Open) and
// tm2/pkg/crypto/xsalsa20symmetric (EncryptSymmetric/DecryptSymmetric).
//
// Enumerated (bounded exhaustive, no sampling):
//   - plaintext lengths 0..130 and {255,256,257,1024}; AD lengths {0,1,15,16,17,33}; keys and nonces from {00.., ff.., counter}
//     (thorough: 0..520 + up to 16 kB, 11 AD lengths)
//   - for every sealed message: EVERY single-bit flip of ciphertext+tag, of the nonce, of the key, of the AD;
//     truncation at EVERY length; extension by one byte (5 byte values); wrong-size keys / nonces.
//
// Oracle: Open(Seal(x)) == x ; every mutation => Open fails (error) and never returns plaintext; wrong sizes => error or
// documented panic, never a successful open. Anchors: the sealed bytes equal an independent construction
// (x/crypto chacha20poly1305.NewX for XChaCha; salsa20+poly1305 composed by hand for the secretbox layout) and the
// draft-irtf-cfrg-xchacha / HChaCha20 published vectors.
//
// Schedule phase (sched.go): one AEAD value shared by 2-3 threads under the controlled scheduler + a free-running -race pass.
package main

import (
	"bytes"
	crand "crypto/rand"
	"encoding/hex"
	"encoding/json"
	"flag"
	"fmt"
	"sync/atomic"
	"time"

	"golang.org/x/crypto/chacha20poly1305"
	"golang.org/x/crypto/poly1305"
	"golang.org/x/crypto/salsa20"

	"github.com/gnolang/gno/tm2/pkg/crypto/xchacha20poly1305"
	"github.com/gnolang/gno/tm2/pkg/crypto/xsalsa20symmetric"
	"verif/engine/vk"
)

var r *vk.Run

// ---- deterministic replacement of crypto/rand.Reader (xsalsa20symmetric draws its nonce from it) ----

type patReader struct {
	mode int // 0: 00.., 1: ff.., 2: counter
	ctr  byte
}

func (p *patReader) Read(b []byte) (int, error) {
	for i := range b {
		switch p.mode {
		case 0:
			b[i] = 0
		case 1:
			b[i] = 0xff
		default:
			b[i] = p.ctr
			p.ctr++
		}
	}
	return len(b), nil
}

var rdr = &patReader{}

func pattern(mode, n int, start byte) []byte {
	b := make([]byte, n)
	for i := range b {
		switch mode {
		case 0:
			b[i] = 0
		case 1:
			b[i] = 0xff
		default:
			b[i] = start + byte(i)
		}
	}
	return b
}

var patName = []string{"00", "ff", "ctr"}

// viol keeps only the canonical-smallest failing case per defect class so that the violation key is stable.
type classMin struct {
	ord    int64
	key    string
	detail any
	n      int64
}

var (
	classes   = map[string]*classMin{}
	classesMu = make(chan struct{}, 1)
)

func report(class string, ord int64, key string, detail any) {
	classesMu <- struct{}{}
	c := classes[class]
	if c == nil {
		c = &classMin{ord: ord, key: key, detail: detail}
		classes[class] = c
	} else if ord < c.ord {
		c.ord, c.key, c.detail = ord, key, detail
	}
	c.n++
	<-classesMu
}

func flushReports() {
	names := make([]string, 0, len(classes))
	for k := range classes {
		names = append(names, k)
	}
	for i := range names { // sort
		for j := i + 1; j < len(names); j++ {
			if names[j] < names[i] {
				names[i], names[j] = names[j], names[i]
			}
		}
	}
	for _, n := range names {
		c := classes[n]
		r.Violation(n+": "+c.key, map[string]any{"class": n, "minimal_case": c.detail, "failing_cases_in_class": c.n})
	}
}

// ---------------------------------------------------------------------------------------------------------
// XChaCha20-Poly1305

type xcase struct {
	ord                int64
	kp, np, plen, alen int
}

var (
	tamperOK     atomic.Int64 // tampered opens that correctly failed
	roundtripOK  atomic.Int64
	refMatch     atomic.Int64
	wrongSizeOK  atomic.Int64
	panicsAsDocd atomic.Int64
)

func xchachaCase(c xcase) {
	key := pattern(c.kp, 32, 0x40)
	nonce := pattern(c.np, 24, 0x80)
	pt := pattern(2, c.plen, 1)
	ad := pattern(2, c.alen, 0xa0)
	id := fmt.Sprintf("key=%s nonce=%s ptlen=%d adlen=%d", patName[c.kp], patName[c.np], c.plen, c.alen)
	aead, err := xchacha20poly1305.New(key)
	if err != nil {
		report("xchacha New rejects 32-byte key", c.ord, id, err.Error())
		return
	}
	var ct []byte
	if rec := vk.Catch(func() { ct = aead.Seal(nil, nonce, pt, ad) }); rec != nil {
		report("xchacha Seal panics on valid input", c.ord, id, fmt.Sprint(rec))
		return
	}
	r.Eval()
	// anchor: independent construction
	ref, _ := chacha20poly1305.NewX(key)
	if want := ref.Seal(nil, nonce, pt, ad); !bytes.Equal(want, ct) {
		report("xchacha Seal differs from reference XChaCha20-Poly1305", c.ord, id, map[string]string{"got": hex.EncodeToString(ct), "want": hex.EncodeToString(want)})
	} else {
		refMatch.Add(1)
	}
	if len(ct) != len(pt)+xchacha20poly1305.TagSize {
		report("xchacha ciphertext length wrong", c.ord, id, len(ct))
	}
	open := func(a interface {
		Open(dst, nonce, ciphertext, additionalData []byte) ([]byte, error)
	}, n, x, d []byte) (out []byte, err error, rec any) {
		rec = vk.Catch(func() { out, err = a.Open(nil, n, x, d) })
		r.Eval()
		return
	}
	// round trip
	out, err, rec := open(aead, nonce, ct, ad)
	if rec != nil || err != nil || !bytes.Equal(out, pt) {
		report("xchacha round-trip fails", c.ord, id, fmt.Sprint(rec, err))
	} else {
		roundtripOK.Add(1)
	}
	mustFail := func(what string, sub int64, a interface {
		Open(dst, nonce, ciphertext, additionalData []byte) ([]byte, error)
	}, n, x, d []byte) {
		out, err, rec := open(a, n, x, d)
		if rec != nil {
			report("xchacha Open panics on tampered input ("+what+")", c.ord*1_000_000+sub, fmt.Sprintf("%s %s#%d", id, what, sub), fmt.Sprint(rec))
			return
		}
		if err == nil {
			report("xchacha Open accepts tampered input ("+what+")", c.ord*1_000_000+sub, fmt.Sprintf("%s %s#%d", id, what, sub),
				map[string]any{"returned_plaintext_equal": bytes.Equal(out, pt)})
			return
		}
		if len(out) != 0 {
			report("xchacha Open returns bytes together with an error ("+what+")", c.ord*1_000_000+sub, fmt.Sprintf("%s %s#%d", id, what, sub), len(out))
			return
		}
		tamperOK.Add(1)
	}
	// every single-bit flip of ciphertext+tag
	buf := make([]byte, len(ct))
	for bit := 0; bit < len(ct)*8; bit++ {
		copy(buf, ct)
		buf[bit/8] ^= 1 << (bit % 8)
		mustFail("ct-bitflip", int64(bit), aead, nonce, buf, ad)
	}
	// every single-bit flip of the nonce
	nb := make([]byte, 24)
	for bit := 0; bit < 24*8; bit++ {
		copy(nb, nonce)
		nb[bit/8] ^= 1 << (bit % 8)
		mustFail("nonce-bitflip", int64(bit), aead, nb, ct, ad)
	}
	// every single-bit flip of the key
	kb := make([]byte, 32)
	for bit := 0; bit < 32*8; bit++ {
		copy(kb, key)
		kb[bit/8] ^= 1 << (bit % 8)
		a2, err := xchacha20poly1305.New(kb)
		if err != nil {
			report("xchacha New rejects 32-byte key", c.ord, id, err.Error())
			continue
		}
		mustFail("key-bitflip", int64(bit), a2, nonce, ct, ad)
	}
	// every single-bit flip of the AD, AD dropped, AD extended
	ab := make([]byte, len(ad))
	for bit := 0; bit < len(ad)*8; bit++ {
		copy(ab, ad)
		ab[bit/8] ^= 1 << (bit % 8)
		mustFail("ad-bitflip", int64(bit), aead, nonce, ct, ab)
	}
	if len(ad) > 0 {
		mustFail("ad-dropped", 0, aead, nonce, ct, nil)
		mustFail("ad-truncated", 0, aead, nonce, ct, ad[:len(ad)-1])
	}
	for i, xb := range []byte{0x00, 0x01, 0x80, 0xff} {
		mustFail("ad-extended", int64(i), aead, nonce, ct, append(append([]byte{}, ad...), xb))
	}
	// truncation at every length, extension by one byte
	for l := 0; l < len(ct); l++ {
		mustFail("ct-truncated", int64(l), aead, nonce, ct[:l], ad)
	}
	for l := 1; l <= len(ct) && l <= 17; l++ { // drop a prefix
		mustFail("ct-prefix-dropped", int64(l), aead, nonce, ct[l:], ad)
	}
	for i, xb := range []byte{0x00, 0x01, 0x80, 0xff, ct[len(ct)-1]} {
		mustFail("ct-extended", int64(i), aead, nonce, append(append([]byte{}, ct...), xb), ad)
		mustFail("ct-prefixed", int64(i), aead, nonce, append([]byte{xb}, ct...), ad)
	}
	// wrong-size nonce: Open must error; Seal must panic (documented) — never silently work
	for _, nl := range []int{0, 1, 12, 16, 23, 25, 32} {
		n2 := pattern(c.np, nl, 0x80)
		out, err, rec := open(aead, n2, ct, ad)
		if rec == nil && err == nil {
			report("xchacha Open accepts wrong-size nonce", c.ord*1000+int64(nl), fmt.Sprintf("%s noncelen=%d", id, nl), len(out))
		} else if rec != nil {
			report("xchacha Open panics on wrong-size nonce (documented: error)", c.ord*1000+int64(nl), fmt.Sprintf("%s noncelen=%d", id, nl), fmt.Sprint(rec))
		} else {
			wrongSizeOK.Add(1)
		}
		var s []byte
		rec = vk.Catch(func() { s = aead.Seal(nil, n2, pt, ad) })
		r.Eval()
		if rec == nil {
			report("xchacha Seal accepts wrong-size nonce", c.ord*1000+int64(nl), fmt.Sprintf("%s noncelen=%d", id, nl), len(s))
		} else {
			panicsAsDocd.Add(1)
		}
	}
	r.Distinct("xchacha:" + id)
}

func xchachaAnchors() {
	// HChaCha20 vector from draft-irtf-cfrg-xchacha-03 §2.2.1
	var key [32]byte
	var nonce [16]byte
	var out [32]byte
	kb, _ := hex.DecodeString("000102030405060708090a0b0c0d0e0f101112131415161718191a1b1c1d1e1f")
	nb, _ := hex.DecodeString("000000090000004a0000000031415927")
	copy(key[:], kb)
	copy(nonce[:], nb)
	xchacha20poly1305.HChaCha20(&out, &nonce, &key)
	r.Eval()
	if hex.EncodeToString(out[:]) != "82413b4227b27bfed30e42508a877d73a0f9e4d58a74a853c12ec41326d3ecdc" {
		report("HChaCha20 differs from draft vector", 0, "draft-irtf-cfrg-xchacha-03 2.2.1", hex.EncodeToString(out[:]))
	}
	// AEAD vector from draft-irtf-cfrg-xchacha-03 A.3.1
	pt := []byte("Ladies and Gentlemen of the class of '99: If I could offer you only one tip for the future, sunscreen would be it.")
	ad, _ := hex.DecodeString("50515253c0c1c2c3c4c5c6c7")
	k, _ := hex.DecodeString("808182838485868788898a8b8c8d8e8f909192939495969798999a9b9c9d9e9f")
	n, _ := hex.DecodeString("404142434445464748494a4b4c4d4e4f5051525354555657")
	wantCT := "bd6d179d3e83d43b9576579493c0e939572a1700252bfaccbed2902c21396cbb731c7f1b0b4aa6440bf3a82f4eda7e39ae64c6708c54c216cb96b72e1213b4522f8c9ba40db5d945b11b69b982c1bb9e3f3fac2bc369488f76b2383565d3fff921f9664c97637da9768812f615c68b13b52e" +
		"c0875924c1c7987947deafd8780acf49"
	a, _ := xchacha20poly1305.New(k)
	ct := a.Seal(nil, n, pt, ad)
	r.Eval()
	if hex.EncodeToString(ct) != wantCT {
		report("xchacha Seal differs from draft vector", 0, "draft-irtf-cfrg-xchacha-03 A.3.1", hex.EncodeToString(ct))
	}
	// wrong-size keys
	for _, kl := range []int{0, 1, 16, 31, 33, 64} {
		_, err := xchacha20poly1305.New(make([]byte, kl))
		r.Eval()
		if err == nil {
			report("xchacha New accepts wrong-size key", int64(kl), fmt.Sprintf("keylen=%d", kl), nil)
		} else {
			wrongSizeOK.Add(1)
		}
	}
}

// ---------------------------------------------------------------------------------------------------------
// xsalsa20symmetric

// independent composition of the documented layout: nonce(24) || poly1305 tag(16) || xsalsa20 stream XOR plaintext
func refSecretbox(pt, nonce, key []byte) []byte {
	var k [32]byte
	copy(k[:], key)
	stream := make([]byte, 32+len(pt))
	salsa20.XORKeyStream(stream, stream, nonce, &k)
	var pk [32]byte
	copy(pk[:], stream[:32])
	body := make([]byte, len(pt))
	for i := range pt {
		body[i] = pt[i] ^ stream[32+i]
	}
	var tag [16]byte
	poly1305.Sum(&tag, body, &pk)
	out := append([]byte{}, nonce...)
	out = append(out, tag[:]...)
	return append(out, body...)
}

type scase struct {
	ord          int64
	kp, np, plen int
	key, pt, ct  []byte
}

func decrypt(ct, key []byte) (out []byte, err error, rec any) {
	rec = vk.Catch(func() { out, err = xsalsa20symmetric.DecryptSymmetric(ct, key) })
	r.Eval()
	return
}

func xsalsaSeal(c *scase) bool {
	c.key = pattern(c.kp, 32, 0x40)
	c.pt = pattern(2, c.plen, 1)
	rdr.mode, rdr.ctr = c.np, 0x80
	id := fmt.Sprintf("key=%s nonce=%s ptlen=%d", patName[c.kp], patName[c.np], c.plen)
	if rec := vk.Catch(func() { c.ct = xsalsa20symmetric.EncryptSymmetric(c.pt, c.key) }); rec != nil {
		report("xsalsa EncryptSymmetric panics on valid input", c.ord, id, fmt.Sprint(rec))
		return false
	}
	r.Eval()
	nonce := pattern(c.np, 24, 0x80)
	if want := refSecretbox(c.pt, nonce, c.key); !bytes.Equal(want, c.ct) {
		report("xsalsa ciphertext differs from reference nonce||tag||xsalsa20 layout", c.ord, id, map[string]string{"got": hex.EncodeToString(c.ct), "want": hex.EncodeToString(want)})
	} else {
		refMatch.Add(1)
	}
	return true
}

func xsalsaCase(c *scase) {
	id := fmt.Sprintf("key=%s nonce=%s ptlen=%d", patName[c.kp], patName[c.np], c.plen)
	out, err, rec := decrypt(c.ct, c.key)
	if rec != nil || err != nil || !bytes.Equal(out, c.pt) {
		report("xsalsa round-trip fails", c.ord, id, map[string]any{"panic": fmt.Sprint(rec), "err": fmt.Sprint(err), "ciphertext_len": len(c.ct)})
	} else {
		roundtripOK.Add(1)
	}
	mustFail := func(what string, sub int64, x, k []byte) {
		out, err, rec := decrypt(x, k)
		key := fmt.Sprintf("%s %s#%d", id, what, sub)
		if rec != nil {
			report("xsalsa DecryptSymmetric panics on tampered input ("+what+")", c.ord*1_000_000+sub, key, fmt.Sprint(rec))
		} else if err == nil {
			report("xsalsa DecryptSymmetric accepts tampered input ("+what+")", c.ord*1_000_000+sub, key, map[string]any{"returned_plaintext_equal": bytes.Equal(out, c.pt)})
		} else if len(out) != 0 {
			report("xsalsa DecryptSymmetric returns bytes together with an error ("+what+")", c.ord*1_000_000+sub, key, len(out))
		} else {
			tamperOK.Add(1)
		}
	}
	buf := make([]byte, len(c.ct))
	for bit := 0; bit < len(c.ct)*8; bit++ { // nonce, tag and body bits
		copy(buf, c.ct)
		buf[bit/8] ^= 1 << (bit % 8)
		mustFail("ct-bitflip", int64(bit), buf, c.key)
	}
	kb := make([]byte, 32)
	for bit := 0; bit < 256; bit++ {
		copy(kb, c.key)
		kb[bit/8] ^= 1 << (bit % 8)
		mustFail("key-bitflip", int64(bit), c.ct, kb)
	}
	for l := 0; l < len(c.ct); l++ {
		mustFail("ct-truncated", int64(l), c.ct[:l], c.key)
	}
	for i, xb := range []byte{0x00, 0x01, 0x80, 0xff, c.ct[len(c.ct)-1]} {
		mustFail("ct-extended", int64(i), append(append([]byte{}, c.ct...), xb), c.key)
		mustFail("ct-prefixed", int64(i), append([]byte{xb}, c.ct...), c.key)
	}
	// wrong-size secret: documented panic; must never decrypt
	for _, kl := range []int{0, 1, 16, 31, 33, 64} {
		out, err, rec := decrypt(c.ct, pattern(c.kp, kl, 0x40))
		if rec == nil && err == nil {
			report("xsalsa DecryptSymmetric accepts wrong-size secret", c.ord*1000+int64(kl), fmt.Sprintf("%s keylen=%d", id, kl), len(out))
		} else if rec != nil {
			panicsAsDocd.Add(1)
		} else {
			wrongSizeOK.Add(1)
		}
		var ct2 []byte
		rec = vk.Catch(func() { rdr2 := pattern(c.kp, kl, 0x40); ct2 = xsalsa20symmetric.EncryptSymmetric(c.pt, rdr2) })
		r.Eval()
		if rec == nil {
			report("xsalsa EncryptSymmetric accepts wrong-size secret", c.ord*1000+int64(kl), fmt.Sprintf("%s keylen=%d", id, kl), len(ct2))
		} else {
			panicsAsDocd.Add(1)
		}
	}
	r.Distinct("xsalsa:" + id)
}

func main() {
	worker := flag.String("worker", "", "internal: scenario:bound:budgetSeconds:maxExecs (schedule phase)")
	free := flag.Int("freerun", 0, "internal: free-running iterations per scenario (race binary)")
	raceBin := flag.String("racebin", "", "path of the -race build of this harness")
	r = vk.New("exploration")
	crand.Reader = rdr
	if *free > 0 {
		freeRun(*free)
		return
	}
	if *worker != "" {
		var si, bound, bs, maxExecs int
		fmt.Sscanf(*worker, "%d:%d:%d:%d", &si, &bound, &bs, &maxExecs)
		b, _ := json.Marshal(runSchedJob(si, bound, time.Duration(bs)*time.Second, maxExecs))
		fmt.Println("RESULT " + string(b))
		return
	}
	if r.ReplayIn != "" {
		schedReplay(r)
		return
	}
	r.SetBudget(150*time.Second, 15*time.Minute)
	sp := startSchedPhase(r, *raceBin) // worker subprocesses + -race pass run while the enumeration below proceeds

	xchachaAnchors()

	// quick: plaintext lengths 0..130 (covers 0/1/2 ChaCha and Salsa blocks and every Poly1305 16-byte boundary) + large
	var lens []int
	top, big := 130, []int{255, 256, 257, 1024}
	adl := []int{0, 1, 15, 16, 17, 33}
	if r.Thorough() {
		top, big = 520, []int{1023, 1024, 1025, 4096, 16384}
		adl = []int{0, 1, 2, 15, 16, 17, 31, 32, 33, 64, 65}
	}
	for i := 0; i <= top; i++ {
		lens = append(lens, i)
	}
	lens = append(lens, big...)
	var xs []xcase
	for _, pl := range lens {
		for _, al := range adl {
			for kp := 0; kp < 3; kp++ {
				for np := 0; np < 3; np++ {
					xs = append(xs, xcase{ord: int64(len(xs)), kp: kp, np: np, plen: pl, alen: al})
				}
			}
		}
	}
	r.ParFor(len(xs), func(i int) { xchachaCase(xs[i]) })

	// xsalsa: seal sequentially (the nonce comes from the process-wide rand reader), tamper in parallel
	var ss []*scase
	for _, pl := range lens {
		for kp := 0; kp < 3; kp++ {
			for np := 0; np < 3; np++ {
				c := &scase{ord: int64(len(ss)), kp: kp, np: np, plen: pl}
				if xsalsaSeal(c) {
					ss = append(ss, c)
				}
			}
		}
	}
	r.ParFor(len(ss), func(i int) { xsalsaCase(ss[i]) })

	flushReports()
	schedCov := sp.collect(r)
	r.OutcomeN("tampered_open_rejected", tamperOK.Load())
	r.OutcomeN("roundtrip_ok", roundtripOK.Load())
	r.OutcomeN("sealed_bytes_equal_reference", refMatch.Load())
	r.OutcomeN("wrong_size_rejected_with_error", wrongSizeOK.Load())
	r.OutcomeN("wrong_size_documented_panic", panicsAsDocd.Load())
	r.Sample(map[string]any{"cipher": "xchacha20poly1305", "key": "ctr(0x40..)", "nonce": "ff*24", "ptlen": 33, "adlen": 17, "mutation": "flip bit 5 of tag byte 3", "expect": "Open error"})
	r.Sample(map[string]any{"cipher": "xsalsa20symmetric", "key": "00*32", "nonce(from patched rand)": "ctr(0x80..)", "ptlen": 1, "mutation": "truncate to 40 bytes", "expect": "error"})
	r.Sample(map[string]any{"cipher": "xchacha20poly1305", "ptlen": 0, "adlen": 16, "mutation": "AD dropped", "expect": "Open error"})
	r.Assumptions = []string{
		"keys/nonces are the three patterns 00.., ff.., counter; plaintext/AD bytes are counters (tamper detection of a MAC does not depend on the data values in any way the code under test controls)",
		"crypto/rand.Reader is replaced by a deterministic pattern reader so that EncryptSymmetric's nonce is owned by the harness",
		"golang.org/x/crypto primitives (chacha20poly1305, salsa20, poly1305) are trusted as the reference",
		"multi-bit forgeries are out of scope (cryptographic claim); every single-bit flip, every truncation and one-byte extensions are enumerated",
		"schedule phase: scheduling points are the sync / sync/atomic operations of xchachapoly.go and symmetric.go (import-rewritten shims); code between them is atomic, which is sound for data-race-free code - races are looked for by the separate free-running -race pass of the same bodies; small scope: one shared AEAD, 2-3 threads, 2-3 operations each, <=2 preemptions (all interleavings for the 2-thread scenarios)",
	}
	r.Finish("every (plaintext length, AD length, key pattern, nonce pattern) x every single-bit flip of ct+tag/nonce/key/AD, every truncation, one-byte extensions, wrong sizes; distinct = distinct sealed messages (cipher,key,nonce,ptlen,adlen); plus: one AEAD value shared by 2-3 threads (nonces one bit apart), every schedule with <=2 preemptions over the sync operations inside the cipher files",
		true, map[string]any{"sealed_messages": len(xs) + len(ss), "plaintext_lengths": len(lens), "ad_lengths": len(adl), "schedule_phase": schedCov})
}
