// C19: overflow-checked integer arithmetic is exact.
// Exhaustive for 8-bit (and 16-bit in thorough) operand pairs; full product of a boundary lattice for wider types.
// Oracle: math/big (wide types) or exact int64 arithmetic (narrow types).
package main

import (
	"fmt"
	"math/big"
	"time"

	"github.com/gnolang/gno/tm2/pkg/overflow"
	"verif/engine/vk"
)

type num interface {
	~int | ~int8 | ~int16 | ~int32 | ~int64 | ~uint | ~uint8 | ~uint16 | ~uint32 | ~uint64
}

var r *vk.Run

func bigOf[N num](v N) *big.Int {
	var z N
	z--
	if z > 0 { // unsigned
		return new(big.Int).SetUint64(uint64(v))
	}
	return big.NewInt(int64(v))
}

func limits[N num]() (lo, hi *big.Int, bits int, signed bool) {
	var z N
	z--
	signed = z < 0
	var one N = 1
	bits = 0
	for x := one; x != 0; x <<= 1 {
		bits++
	}
	if signed {
		hi = new(big.Int).Lsh(big.NewInt(1), uint(bits-1))
		lo = new(big.Int).Neg(hi)
		hi.Sub(hi, big.NewInt(1))
	} else {
		lo = big.NewInt(0)
		hi = new(big.Int).Lsh(big.NewInt(1), uint(bits))
		hi.Sub(hi, big.NewInt(1))
	}
	return
}

type opdef[N num] struct {
	name string
	f    func(a, b N) (N, bool)
	p    func(a, b N) N
	ref  func(a, b *big.Int) (*big.Int, bool) // exact result, defined?
}

func ops[N num]() []opdef[N] {
	return []opdef[N]{
		{"Add", overflow.Add[N], overflow.Addp[N], func(a, b *big.Int) (*big.Int, bool) { return new(big.Int).Add(a, b), true }},
		{"Sub", overflow.Sub[N], overflow.Subp[N], func(a, b *big.Int) (*big.Int, bool) { return new(big.Int).Sub(a, b), true }},
		{"Mul", overflow.Mul[N], overflow.Mulp[N], func(a, b *big.Int) (*big.Int, bool) { return new(big.Int).Mul(a, b), true }},
		{"Div", overflow.Div[N], overflow.Divp[N], func(a, b *big.Int) (*big.Int, bool) {
			if b.Sign() == 0 {
				return nil, false
			}
			return new(big.Int).Quo(a, b), true // truncated division like Go
		}},
	}
}

func checkOne[N num](tname string, od opdef[N], a, b N, lo, hi *big.Int) {
	r.Eval()
	ex, def := od.ref(bigOf(a), bigOf(b))
	wantOK := def && ex.Cmp(lo) >= 0 && ex.Cmp(hi) <= 0
	got, ok := od.f(a, b)
	if ok != wantOK || (ok && bigOf(got).Cmp(ex) != 0) {
		r.Violation(fmt.Sprintf("%s[%s](%v,%v)", od.name, tname, a, b),
			map[string]any{"op": od.name, "type": tname, "a": fmt.Sprint(a), "b": fmt.Sprint(b), "got": fmt.Sprint(got), "ok": ok, "want_ok": wantOK, "exact": fmt.Sprint(ex)})
		return
	}
	var pv N
	rec := vk.Catch(func() { pv = od.p(a, b) })
	if (rec != nil) != !wantOK || (rec == nil && bigOf(pv).Cmp(ex) != 0) {
		r.Violation(fmt.Sprintf("%sp[%s](%v,%v)", od.name, tname, a, b),
			map[string]any{"op": od.name + "p", "type": tname, "a": fmt.Sprint(a), "b": fmt.Sprint(b), "panic": fmt.Sprint(rec), "want_ok": wantOK})
	}
}

// narrow: exhaustive over all pairs using an exact int64 oracle (fast path, no big).
func narrow[N num](tname string, lo, hi int64) {
	type od struct {
		name string
		f    func(a, b N) (N, bool)
		ref  func(a, b int64) (int64, bool)
	}
	ods := []od{
		{"Add", overflow.Add[N], func(a, b int64) (int64, bool) { return a + b, true }},
		{"Sub", overflow.Sub[N], func(a, b int64) (int64, bool) { return a - b, true }},
		{"Mul", overflow.Mul[N], func(a, b int64) (int64, bool) { return a * b, true }},
		{"Div", overflow.Div[N], func(a, b int64) (int64, bool) {
			if b == 0 {
				return 0, false
			}
			return a / b, true
		}},
	}
	n := int(hi - lo + 1)
	r.ParFor(n, func(i int) {
		a := lo + int64(i)
		var okc, ovc int64
		for b := lo; b <= hi; b++ {
			for _, o := range ods {
				ex, def := o.ref(a, b)
				wantOK := def && ex >= lo && ex <= hi
				got, ok := o.f(N(a), N(b))
				if ok != wantOK || (ok && int64(got) != ex) {
					r.Violation(fmt.Sprintf("%s[%s](%v,%v)", o.name, tname, a, b),
						map[string]any{"op": o.name, "type": tname, "a": a, "b": b, "got": int64(got), "ok": ok, "want_ok": wantOK, "exact": ex})
				}
				if wantOK {
					okc++
				} else {
					ovc++
				}
			}
		}
		r.EvalN(int64(4 * n))
		r.OutcomeN("ok", okc)
		r.OutcomeN("overflow_or_undefined", ovc)
		r.Distinct(fmt.Sprintf("%s:a=%d", tname, a))
	})
}

func lattice[N num](tname string) {
	lo, hi, bits, signed := limits[N]()
	set := map[string]N{}
	add := func(b *big.Int) {
		if b.Cmp(lo) >= 0 && b.Cmp(hi) <= 0 {
			var v N
			if signed {
				v = N(b.Int64())
			} else {
				v = N(b.Uint64())
			}
			set[b.String()] = v
		}
	}
	for _, s := range []int64{0, 1, 2, 3, -1, -2, -3} {
		add(big.NewInt(s))
	}
	for k := 1; k <= bits; k++ {
		p := new(big.Int).Lsh(big.NewInt(1), uint(k))
		for _, d := range []int64{-1, 0, 1} {
			x := new(big.Int).Add(p, big.NewInt(d))
			add(x)
			add(new(big.Int).Neg(x))
		}
	}
	for _, base := range []*big.Int{lo, hi} {
		for _, d := range []int64{-2, -1, 0, 1, 2} {
			add(new(big.Int).Add(base, big.NewInt(d)))
		}
		for _, q := range []int64{2, 3, 5, 7} {
			x := new(big.Int).Quo(base, big.NewInt(q))
			for _, d := range []int64{-1, 0, 1} {
				add(new(big.Int).Add(x, big.NewInt(d)))
			}
		}
	}
	sq := new(big.Int).Sqrt(hi)
	for _, d := range []int64{-1, 0, 1} {
		x := new(big.Int).Add(sq, big.NewInt(d))
		add(x)
		add(new(big.Int).Neg(x))
	}
	var vals []N
	for _, v := range set {
		vals = append(vals, v)
	}
	ods := ops[N]()
	r.ParFor(len(vals), func(i int) {
		for _, b := range vals {
			for _, od := range ods {
				checkOne(tname, od, vals[i], b, lo, hi)
			}
			r.Distinct(fmt.Sprintf("%s:%v,%v", tname, vals[i], b))
		}
	})
	r.Sample(map[string]any{"type": tname, "lattice_size": len(vals), "example_pair": []string{fmt.Sprint(vals[0]), fmt.Sprint(vals[len(vals)-1])}})
}

func main() {
	r = vk.New("exploration")
	r.SetBudget(2*time.Minute, 15*time.Minute)
	narrow[int8]("int8", -128, 127)
	narrow[uint8]("uint8", 0, 255)
	if r.Thorough() {
		narrow[int16]("int16", -32768, 32767)
		narrow[uint16]("uint16", 0, 65535)
	}
	lattice[int8]("int8")
	lattice[uint8]("uint8")
	lattice[int16]("int16")
	lattice[uint16]("uint16")
	lattice[int32]("int32")
	lattice[uint32]("uint32")
	lattice[int64]("int64")
	lattice[uint64]("uint64")
	lattice[int]("int")
	lattice[uint]("uint")
	r.Sample(map[string]any{"op": "Mul", "type": "int8", "a": -128, "b": -1, "expect": "overflow"})
	r.Assumptions = []string{"generic bodies are shared across widths; 8/16-bit instantiations are explored exhaustively, wider ones over the full product of a boundary lattice", "oracle: math/big / exact int64 arithmetic"}
	r.Finish("all operand pairs for 8-bit (16-bit in thorough) types x {Add,Sub,Mul,Div}(+panicking variants on the lattice); full product of boundary lattice for all 10 integer types; distinct = distinct (type, a[,b]) operand rows", true,
		map[string]any{"types": 10, "ops": 8})
}
