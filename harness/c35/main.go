// C35: vote sets track quorums exactly.
//
// Model checking of the REAL types.VoteSet and cstypes.HeightVoteSet (real ed25519 keys and signatures):
// level-synchronous BFS over operation sequences with de-duplication on the complete internal state of the
// implementation (read through an overlay-added read-only accessor) plus the history trackers of the oracle.
//
// Phase 1 (VoteSet): validator power vectors {1,1,1,1},{3,1,1,1},{2,2,1},{5,3,1,1},{1},...; alphabet: vote(i,X) for every
// validator i and X in {A,B,nil}, a re-timestamped vote(0,A) (same vote, different signature), SetPeerMaj23(p,X) for two
// peers and X in {A,B}; at every state additionally the rejected inputs: wrong height / round / type, corrupted signature,
// signature by another key, index -1 / n, zero address, another validator's address, nil vote.  Depth 2n+2.
// Phase 2 (HeightVoteSet): rounds 0..3, two peers + self, SetRound, SetPeerMaj23, catch-up round limit, POLInfo.
//
// Oracle: (1) a power-sum reference model predicting the result of every call and the whole state; (2) declarative checks
// from the call history only: +2/3 majority reported <=> some block's counted power*3 > 2*total, the first majority never
// changes, HasTwoThirdsAny <=> power of distinct validators with a counted vote *3 > 2*total, a second vote of a validator
// for another block is reported as VoteConflictingVotesError(existing,new) and counted only if a peer claimed that block
// before, MakeCommit attributes to the majority block only genuine votes for it, contains every counted one, and passes
// ValidatorSet.VerifyCommit.
package main

import (
	"bytes"
	"crypto/sha256"
	"fmt"
	"os"
	"runtime/debug"
	"runtime/pprof"
	"sort"
	"strconv"
	"strings"
	"sync/atomic"
	"time"

	cstypes "github.com/gnolang/gno/tm2/pkg/bft/consensus/types"
	"github.com/gnolang/gno/tm2/pkg/bft/types"
	"github.com/gnolang/gno/tm2/pkg/crypto/ed25519"
	p2pTypes "github.com/gnolang/gno/tm2/pkg/p2p/types"
	"verif/engine/vk"
)

var r *vk.Run

const (
	chainID = "c35-chain"
	H       = int64(1)
	maxN    = 5
	nBlk    = 3 // A, B, nil
	maxRnd  = 4
)

var (
	nStates, nTrans atomic.Int64
)

type key struct {
	priv ed25519.PrivKeyEd25519
	pub  ed25519.PubKeyEd25519
	addr types.Address
}

var pool []key

func h32(s string) []byte { x := sha256.Sum256([]byte(s)); return x[:] }

var blockIDs = [nBlk]types.BlockID{
	{Hash: h32("block-A"), PartsHeader: types.PartSetHeader{Total: 1, Hash: h32("parts-A")}},
	{Hash: h32("block-B"), PartsHeader: types.PartSetHeader{Total: 3, Hash: h32("parts-B")}},
	{},
}
var blockNames = [nBlk]string{"A", "B", "nil"}

func blkIndex(b types.BlockID) int {
	for i := range blockIDs {
		if blockIDs[i].Equals(b) {
			return i
		}
	}
	return -1
}

func blkName(i int) string {
	if i < 0 {
		return "-"
	}
	return blockNames[i]
}

var typeOf = [2]types.SignedMsgType{types.PrevoteType, types.PrecommitType}

// ---------- validator sets and the vote catalogue ----------

type valset struct {
	name   string
	n      int
	powers []int64
	total  int64
	vs     *types.ValidatorSet
	// catalogue: vote id -> vote; id = ((((round*2+t)*maxN+i)*nBlk+blk)*2+ts)
	votes map[int]*types.Vote
	ids   map[*types.Vote]int
}

func vid(round, t, i, blk, ts int) int { return ((((round*2+t)*maxN+i)*nBlk+blk)*2 + ts) }
func vidBlk(id int) int                { return (id / 2) % nBlk }
func vidVal(id int) int                { return (id / 2 / nBlk) % maxN }
var vidNames = func() []string {
	out := make([]string, vid(maxRnd, 1, maxN-1, nBlk-1, 1)+1)
	for id := range out {
		s := fmt.Sprintf("v%d%s", vidVal(id), blockNames[vidBlk(id)])
		if id%2 == 1 {
			s += "'"
		}
		out[id] = s
	}
	return out
}()

func vidName(id int) string {
	if id < 0 {
		return "-"
	}
	return vidNames[id]
}

func mkValset(powers []int64) *valset {
	v := &valset{name: fmt.Sprint(powers), n: len(powers), powers: powers, votes: map[int]*types.Vote{}, ids: map[*types.Vote]int{}}
	vals := make([]*types.Validator, v.n)
	for i := range vals {
		vals[i] = types.NewValidator(pool[i].pub, powers[i])
		v.total += powers[i]
	}
	v.vs = types.NewValidatorSet(vals)
	for i := range vals {
		if v.vs.Validators[i].Address != pool[i].addr {
			panic("validator order")
		}
	}
	return v
}

func signVote(k key, vt *types.Vote) {
	sig, err := k.priv.Sign(vt.SignBytes(chainID))
	if err != nil {
		panic(err)
	}
	vt.Signature = sig
}

// vote returns the (cached, pre-signed) valid vote with the given coordinates.
func (v *valset) vote(round, t, i, blk, ts int) *types.Vote {
	id := vid(round, t, i, blk, ts)
	if vt, ok := v.votes[id]; ok {
		return vt
	}
	vt := &types.Vote{Type: typeOf[t], Height: H, Round: round, BlockID: blockIDs[blk],
		Timestamp: time.Unix(1700000000+int64(id)+int64(1000*ts), 0).UTC(), ValidatorAddress: pool[i].addr, ValidatorIndex: i}
	signVote(pool[i], vt)
	v.votes[id] = vt
	v.ids[vt] = id
	return vt
}

func (v *valset) idOf(vt *types.Vote) int {
	if vt == nil {
		return -1
	}
	if id, ok := v.ids[vt]; ok {
		return id
	}
	return -2 // unknown object
}

// exact: smallest s with 3s > 2*total
func (v *valset) quorum() int64 { return (2*v.total)/3 + 1 }

func (v *valset) power(mask uint8) int64 {
	var s int64
	for i := 0; i < v.n; i++ {
		if mask&(1<<uint(i)) != 0 {
			s += v.powers[i]
		}
	}
	return s
}

// ---------- reference model of one VoteSet ----------

type mstate struct {
	canon   [maxN]int16
	by      [nBlk][maxN]int16
	tracked [nBlk]bool
	peerMaj [nBlk]bool
	bsum    [nBlk]int64
	sum     int64
	maj     int8
	peers   [3]int8
}

func newMState() mstate {
	var m mstate
	for i := range m.canon {
		m.canon[i] = -1
	}
	for b := range m.by {
		for i := range m.by[b] {
			m.by[b][i] = -1
		}
	}
	m.maj = -1
	for p := range m.peers {
		m.peers[p] = -1
	}
	return m
}

const (
	eNone       = "ok"
	eConflict   = "conflicting-votes"
	eNonDet     = "non-deterministic-signature"
	eStep       = "unexpected-step"
	eIndex      = "invalid-index"
	eAddress    = "invalid-address"
	eSignature  = "invalid-signature"
	eNilVote    = "nil-vote"
	ePeerConfl  = "peer-conflicting-claim"
	eUnwantedRd = "unwanted-round"
	eOther      = "other"
)

func errClass(err error) string {
	if err == nil {
		return eNone
	}
	if _, ok := err.(*types.VoteConflictingVotesError); ok {
		return eConflict
	}
	if err == cstypes.ErrGotVoteFromUnwantedRoundError {
		return eUnwantedRd
	}
	s := err.Error()
	switch {
	case strings.Contains(s, types.ErrVoteNonDeterministicSignature.Error()):
		return eNonDet
	case strings.Contains(s, types.ErrVoteUnexpectedStep.Error()):
		return eStep
	case strings.Contains(s, types.ErrVoteInvalidValidatorIndex.Error()):
		return eIndex
	case strings.Contains(s, types.ErrVoteInvalidSignature.Error()):
		return eSignature
	case strings.Contains(s, types.ErrVoteInvalidValidatorAddress.Error()):
		return eAddress
	case strings.Contains(s, types.ErrVoteNil.Error()):
		return eNilVote
	case strings.Contains(s, "conflicting blockID from peer"):
		return ePeerConfl
	}
	return eOther + ":" + s
}

// existing returns the id of the known vote of validator i for block blk (-1 if none).
func (m *mstate) existing(i, blk int) int {
	if c := m.canon[i]; c >= 0 && vidBlk(int(c)) == blk {
		return int(c)
	}
	if m.tracked[blk] && m.by[blk][i] >= 0 {
		return int(m.by[blk][i])
	}
	return -1
}

// addVote applies a well-formed, validly signed vote. Returns (added, class, conflictingID).
func (m *mstate) addVote(v *valset, id int) (bool, string, int) {
	i, blk := vidVal(id), vidBlk(id)
	if ex := m.existing(i, blk); ex >= 0 {
		if ex == id {
			return false, eNone, -1
		}
		return false, eNonDet, -1
	}
	conflicting := -1
	if m.canon[i] >= 0 {
		conflicting = int(m.canon[i])
		if int(m.maj) == blk {
			m.canon[i] = int16(id)
		}
	} else {
		m.canon[i] = int16(id)
		m.sum += v.powers[i]
	}
	if m.tracked[blk] {
		if conflicting >= 0 && !m.peerMaj[blk] {
			return false, eConflict, conflicting
		}
	} else {
		if conflicting >= 0 {
			return false, eConflict, conflicting
		}
		m.tracked[blk] = true
	}
	orig := m.bsum[blk]
	if m.by[blk][i] < 0 {
		m.by[blk][i] = int16(id)
		m.bsum[blk] += v.powers[i]
	}
	q := v.quorum()
	if orig < q && q <= m.bsum[blk] && m.maj < 0 {
		m.maj = int8(blk)
		for k := 0; k < v.n; k++ {
			if m.by[blk][k] >= 0 {
				m.canon[k] = m.by[blk][k]
			}
		}
	}
	if conflicting >= 0 {
		return true, eConflict, conflicting
	}
	return true, eNone, -1
}

func (m *mstate) setPeerMaj(peer, blk int) string {
	if ex := m.peers[peer]; ex >= 0 {
		if int(ex) == blk {
			return eNone
		}
		return ePeerConfl
	}
	m.peers[peer] = int8(blk)
	m.tracked[blk] = true
	m.peerMaj[blk] = true
	return eNone
}

var peerNames = [3]string{"p1", "p2", "p3"}

func (m *mstate) render(v *valset) string {
	var sb strings.Builder
	fmt.Fprintf(&sb, "sum=%d maj=%s votes=[", m.sum, blkName(int(m.maj)))
	for i := 0; i < v.n; i++ {
		sb.WriteString(vidName(int(m.canon[i])))
		sb.WriteByte(' ')
	}
	sb.WriteString("]")
	for b := 0; b < nBlk; b++ {
		if !m.tracked[b] {
			continue
		}
		fmt.Fprintf(&sb, " %s{peer=%v sum=%d [", blockNames[b], m.peerMaj[b], m.bsum[b])
		for i := 0; i < v.n; i++ {
			sb.WriteString(vidName(int(m.by[b][i])))
			sb.WriteByte(' ')
		}
		sb.WriteString("]}")
	}
	sb.WriteString(" peers{")
	for p := range m.peers {
		if m.peers[p] >= 0 {
			fmt.Fprintf(&sb, "%s:%s ", peerNames[p], blkName(int(m.peers[p])))
		}
	}
	sb.WriteString("}")
	return sb.String()
}

// renderImpl renders the implementation's internal state in the same format (bit arrays must agree with the vote slices).
func renderImpl(v *valset, vs *types.VoteSet) string {
	st := vs.VerifState()
	var sb strings.Builder
	mj := -1
	if st.Maj23 != nil {
		mj = blkIndex(*st.Maj23)
		if mj < 0 {
			mj = 99
		}
	}
	name := func(vt *types.Vote) string {
		id := v.idOf(vt)
		if id == -2 {
			return "?unknown-vote-object"
		}
		if id >= 0 {
			// round/type coordinates are fixed within one vote set; a vote with other coordinates is mis-routed
			if vt.Round != vs.Round() || byte(vt.Type) != vs.Type() || vt.Height != vs.Height() {
				return "!misrouted:" + vidName(id)
			}
			return vidName(id)
		}
		return "-"
	}
	fmt.Fprintf(&sb, "sum=%d maj=%s votes=[", st.Sum, func() string {
		if mj == 99 {
			return "?"
		}
		return blkName(mj)
	}())
	for i := 0; i < v.n; i++ {
		sb.WriteString(name(st.Votes[i]))
		sb.WriteByte(' ')
		if st.Bits[i] != (st.Votes[i] != nil) {
			sb.WriteString("!bitarray-mismatch ")
		}
	}
	sb.WriteString("]")
	for b := 0; b < nBlk; b++ {
		bv, ok := st.ByBlock[blockIDs[b].Key()]
		if !ok {
			continue
		}
		fmt.Fprintf(&sb, " %s{peer=%v sum=%d [", blockNames[b], bv.PeerMaj23, bv.Sum)
		for i := 0; i < v.n; i++ {
			sb.WriteString(name(bv.Votes[i]))
			sb.WriteByte(' ')
			if bv.Bits[i] != (bv.Votes[i] != nil) {
				sb.WriteString("!bitarray-mismatch ")
			}
		}
		sb.WriteString("]}")
	}
	if len(st.ByBlock) > nBlk {
		sb.WriteString(" !extra-block-entries")
	}
	for k := range st.ByBlock {
		known := false
		for b := 0; b < nBlk; b++ {
			if blockIDs[b].Key() == k {
				known = true
			}
		}
		if !known {
			sb.WriteString(" !unknown-block-key")
		}
	}
	sb.WriteString(" peers{")
	for p := range peerNames {
		if b, ok := st.PeerMaj23s[types.P2PID(peerNames[p])]; ok {
			fmt.Fprintf(&sb, "%s:%s ", peerNames[p], blkName(blkIndex(b)))
		}
	}
	sb.WriteString("}")
	return sb.String()
}

// ---------- compact canonical encodings (dedup key + equality check; the pretty renderers are for reports) ----------

var (
	blockKeys = func() []string {
		var ks []string
		for _, b := range blockIDs {
			ks = append(ks, b.Key())
		}
		return ks
	}()
	peerIDs = []types.P2PID{"p1", "p2", "p3"}
)

func appInt(buf []byte, x int64) []byte { return strconv.AppendInt(buf, x, 10) }

func dumpImpl(v *valset, vs *types.VoteSet, buf []byte) []byte {
	return vs.VerifDump(buf, blockIDs[:], blockKeys, peerIDs, v.idOf)
}

func (m *mstate) dump(v *valset, buf []byte) []byte {
	app := func(buf []byte, id int16) []byte {
		if id < 0 {
			return append(buf, '-', ',')
		}
		buf = appInt(buf, int64(id))
		return append(buf, '+', ',')
	}
	buf = append(buf, 's')
	buf = appInt(buf, m.sum)
	buf = append(buf, 'm')
	buf = appInt(buf, int64(m.maj))
	buf = append(buf, '|')
	for i := 0; i < v.n; i++ {
		buf = app(buf, m.canon[i])
	}
	buf = append(buf, '|')
	nt := 0
	for b := 0; b < nBlk; b++ {
		if !m.tracked[b] {
			continue
		}
		nt++
		buf = append(buf, 'B')
		buf = appInt(buf, int64(b))
		if m.peerMaj[b] {
			buf = append(buf, 'p', '1')
		} else {
			buf = append(buf, 'p', '0')
		}
		buf = append(buf, 's')
		buf = appInt(buf, m.bsum[b])
		buf = append(buf, ':')
		for i := 0; i < v.n; i++ {
			buf = app(buf, m.by[b][i])
		}
		buf = append(buf, ';')
	}
	buf = append(buf, '|', 'x')
	buf = appInt(buf, int64(nt))
	buf = append(buf, '|', 'P')
	np := 0
	for p := range m.peers {
		buf = appInt(buf, int64(m.peers[p]))
		buf = append(buf, ',')
		if m.peers[p] >= 0 {
			np++
		}
	}
	buf = append(buf, 'n')
	buf = appInt(buf, int64(np))
	return buf
}

// ---------- history trackers (declarative oracle) ----------

type hist struct {
	counted  [nBlk]uint8 // validators whose vote for the block was reported added=true
	any      uint8
	firstMaj int8
}

func (h *hist) render() string {
	return fmt.Sprintf("H{%b %b %b any=%b first=%s}", h.counted[0], h.counted[1], h.counted[2], h.any, blkName(int(h.firstMaj)))
}

// ---------- ops ----------

const (
	kVote = iota
	kPeer
	kProbe
)

type op struct {
	name  string
	kind  int
	id    int // vote id (kVote), or the vote whose coordinates a probe is derived from
	peer  int
	blk   int
	vote  *types.Vote
	probe string
}

func (v *valset) voteSetOps(round, t int, thorough bool) []op {
	var ops []op
	for i := 0; i < v.n; i++ {
		for b := 0; b < nBlk; b++ {
			vt := v.vote(round, t, i, b, 0)
			ops = append(ops, op{name: vidName(v.idOf(vt)), kind: kVote, id: v.idOf(vt), vote: vt})
		}
	}
	vt := v.vote(round, t, 0, 0, 1)
	ops = append(ops, op{name: vidName(v.idOf(vt)), kind: kVote, id: v.idOf(vt), vote: vt})
	for p := 0; p < 2; p++ {
		for b := 0; b < 2; b++ {
			ops = append(ops, op{name: fmt.Sprintf("%s:%s", peerNames[p], blockNames[b]), kind: kPeer, peer: p, blk: b})
		}
	}
	if thorough {
		ops = append(ops, op{name: "p3:nil", kind: kPeer, peer: 2, blk: 2})
	}
	// probes (must be rejected, state unchanged)
	base := v.vote(round, t, 0, 0, 0)
	last := v.n - 1
	mk := func(name string, f func(*types.Vote), resign bool, src *types.Vote) op {
		c := src.Copy()
		c.Signature = append([]byte(nil), src.Signature...)
		f(c)
		if resign {
			signVote(pool[vidVal(v.idOf(src))], c)
		}
		return op{name: "probe:" + name, kind: kProbe, id: v.idOf(src), vote: c, probe: name}
	}
	ops = append(ops,
		mk("height+1", func(c *types.Vote) { c.Height = H + 1 }, true, base),
		mk("round+1", func(c *types.Vote) { c.Round = round + 1 }, true, base),
		mk("othertype", func(c *types.Vote) { c.Type = typeOf[1-t] }, true, base),
		mk("index=-1", func(c *types.Vote) { c.ValidatorIndex = -1 }, false, base),
		mk("index=n", func(c *types.Vote) { c.ValidatorIndex = v.n }, false, base),
		mk("zeroaddress", func(c *types.Vote) { c.ValidatorAddress = types.Address{} }, false, base),
		mk("outsideraddress", func(c *types.Vote) { c.ValidatorAddress = pool[len(pool)-1].addr }, false, base),
		mk("badsig:v0A", func(c *types.Vote) { c.Signature[3] ^= 0x20 }, false, base),
		mk(fmt.Sprintf("badsig:v%dB", last), func(c *types.Vote) { c.Signature[40] ^= 0x01 }, false, v.vote(round, t, last, 1, 0)),
		mk("otherkey:v0B", func(c *types.Vote) {
			sig, _ := pool[len(pool)-1].priv.Sign(c.SignBytes(chainID))
			c.Signature = sig
		}, false, v.vote(round, t, 0, 1, 0)),
	)
	if v.n > 1 {
		ops = append(ops,
			mk("index-of-other", func(c *types.Vote) { c.ValidatorIndex = 1 }, false, base),
			mk("address-of-other", func(c *types.Vote) { c.ValidatorAddress = pool[1].addr }, false, base),
		)
	}
	ops = append(ops, op{name: "probe:nilvote", kind: kProbe, probe: "nilvote"})
	return ops
}

// expected class of a probe given the model state
func probeClass(m *mstate, o *op) string {
	switch {
	case o.probe == "nilvote":
		return eNilVote
	case o.probe == "height+1" || o.probe == "round+1" || o.probe == "othertype":
		return eStep
	case o.probe == "index=-1" || o.probe == "index=n":
		return eIndex
	case o.probe == "zeroaddress" || o.probe == "outsideraddress" || o.probe == "index-of-other" || o.probe == "address-of-other":
		return eAddress
	case strings.HasPrefix(o.probe, "badsig") || strings.HasPrefix(o.probe, "otherkey"):
		if m.existing(vidVal(o.id), vidBlk(o.id)) >= 0 {
			return eNonDet
		}
		return eSignature
	}
	return "?"
}

// ---------- phase 1 ----------

type node struct {
	vs   *types.VoteSet
	m    mstate
	h    hist
	path []string
	key  string // renderImpl(vs) at creation
}

type lstat struct {
	hist    map[string]int64
	trans   int64
	corrupt bool // an operation predicted to be a no-op changed the node's own instance (already reported as violation)
}

func pathStr(p []string) string { return strings.Join(p, ",") }

func checkAPI(v *valset, t int, vs *types.VoteSet, m *mstate, h *hist, ctx string, ls *lstat) {
	bad := func(what string, detail map[string]any) {
		if detail == nil {
			detail = map[string]any{}
		}
		detail["impl_state"] = renderImpl(v, vs)
		detail["model_state"] = m.render(v)
		r.Violation(ctx+" => "+what, detail)
	}
	bid, ok := vs.TwoThirdsMajority()
	gotMaj := -1
	if ok {
		gotMaj = blkIndex(bid)
	}
	// declarative: majority <=> some block's counted power exceeds 2/3; the first one sticks
	crossed := false
	for b := 0; b < nBlk; b++ {
		if 3*v.power(h.counted[b]) > 2*v.total {
			crossed = true
		}
	}
	if crossed != ok {
		bad(fmt.Sprintf("TwoThirdsMajority reported=%v but counted power exceeds 2/3 for some block=%v", ok, crossed), map[string]any{"history": h.render()})
	}
	if gotMaj != int(h.firstMaj) {
		bad(fmt.Sprintf("TwoThirdsMajority=%s but first block to exceed 2/3 was %s", blkName(gotMaj), blkName(int(h.firstMaj))), map[string]any{"history": h.render()})
	}
	if vs.HasTwoThirdsMajority() != ok || vs.IsCommit() != (ok && t == 1) {
		bad("HasTwoThirdsMajority/IsCommit inconsistent with TwoThirdsMajority", nil)
	}
	wantAny := 3*v.power(h.any) > 2*v.total
	if vs.HasTwoThirdsAny() != wantAny {
		bad(fmt.Sprintf("HasTwoThirdsAny=%v, distinct validators with a counted vote hold %d of %d", vs.HasTwoThirdsAny(), v.power(h.any), v.total), map[string]any{"history": h.render()})
	}
	if vs.HasAll() != (v.power(h.any) == v.total) {
		bad("HasAll wrong", nil)
	}
	ba := vs.BitArray()
	for i := 0; i < v.n; i++ {
		if ba.GetIndex(i) != (h.any&(1<<uint(i)) != 0) {
			bad(fmt.Sprintf("BitArray[%d]=%v differs from history", i, ba.GetIndex(i)), map[string]any{"history": h.render()})
		}
		g := vs.GetByIndex(i)
		if v.idOf(g) != int(m.canon[i]) && !(g == nil && m.canon[i] < 0) {
			bad(fmt.Sprintf("GetByIndex(%d)=%s model %s", i, vidName(v.idOf(g)), vidName(int(m.canon[i]))), nil)
		}
		if vs.GetByAddress(pool[i].addr) != g {
			bad(fmt.Sprintf("GetByAddress != GetByIndex for validator %d", i), nil)
		}
	}
	for b := 0; b < nBlk; b++ {
		bb := vs.BitArrayByBlockID(blockIDs[b])
		if (bb != nil) != m.tracked[b] {
			bad(fmt.Sprintf("BitArrayByBlockID(%s) nil=%v, model tracked=%v", blockNames[b], bb == nil, m.tracked[b]), nil)
			continue
		}
		if bb == nil {
			if h.counted[b] != 0 {
				bad("counted votes for an untracked block", nil)
			}
			continue
		}
		for i := 0; i < v.n; i++ {
			if bb.GetIndex(i) != (h.counted[b]&(1<<uint(i)) != 0) {
				bad(fmt.Sprintf("BitArrayByBlockID(%s)[%d]=%v differs from the votes reported as added", blockNames[b], i, bb.GetIndex(i)), map[string]any{"history": h.render()})
			}
		}
	}
	// MakeCommit
	var commit *types.Commit
	rec := vk.Catch(func() { commit = vs.MakeCommit() })
	if !(ok && t == 1) {
		if rec == nil {
			bad("MakeCommit did not panic without a +2/3 precommit majority", nil)
		}
		return
	}
	if rec != nil {
		bad("MakeCommit panicked although a +2/3 majority exists: "+fmt.Sprint(rec), nil)
		return
	}
	if gotMaj < 0 {
		bad("majority for an unknown block id", nil)
		return
	}
	if !commit.BlockID.Equals(bid) || len(commit.Precommits) != v.n {
		bad("MakeCommit block id / size wrong", nil)
		return
	}
	var forMaj uint8
	strays := 0
	for i, pc := range commit.Precommits {
		cv := m.canon[i]
		if (pc == nil) != (cv < 0) {
			bad(fmt.Sprintf("MakeCommit precommit %d presence differs from canonical votes", i), nil)
			continue
		}
		if pc == nil {
			continue
		}
		src := v.votes[int(cv)]
		if !bytes.Equal(pc.Signature, src.Signature) || !pc.BlockID.Equals(src.BlockID) || pc.ValidatorIndex != i || pc.ValidatorAddress != pool[i].addr ||
			pc.Height != H || pc.Type != types.PrecommitType || !pc.Timestamp.Equal(src.Timestamp) {
			bad(fmt.Sprintf("MakeCommit precommit %d is not the validator's canonical vote", i), nil)
		}
		if pc.BlockID.Equals(bid) {
			forMaj |= 1 << uint(i)
		} else {
			strays++
		}
	}
	if forMaj&h.counted[gotMaj] != h.counted[gotMaj] {
		bad(fmt.Sprintf("MakeCommit misses counted votes for the majority block: in commit %b, counted %b", forMaj, h.counted[gotMaj]), nil)
	}
	if 3*v.power(forMaj) <= 2*v.total {
		bad("MakeCommit: votes for the majority block do not exceed 2/3", nil)
	}
	if bid.IsZero() {
		// +2/3 precommits for nil: MakeCommit hands back a "commit" for the nil block, which consensus never asks for
		// (it checks the majority block id first) and which VerifyCommit rejects by definition.
		ls.hist["commit:nil_majority(not a block commit)"]++
		if err := v.vs.VerifyCommit(chainID, bid, H, commit); err == nil {
			bad("VerifyCommit accepted a commit for the nil block", nil)
		}
		return
	}
	if err := v.vs.VerifyCommit(chainID, bid, H, commit); err != nil {
		bad("MakeCommit result fails VerifyCommit: "+err.Error(), nil)
	}
	if strays > 0 {
		ls.hist["commit:with_stray_precommits(own block id, not tallied)"]++
	} else {
		ls.hist["commit:only_majority_precommits"]++
	}
	if forMaj != h.counted[gotMaj] {
		ls.hist["commit:carries_replacement_vote_not_counted_in_block_sum"]++
	}
}

// apply op o to a clone of nd; returns the child (nil when nothing more to explore from it, e.g. after a violation)
func (v *valset) step(t int, nd *node, o *op, ls *lstat) *node {
	ls.trans++
	var vsel *types.VoteSet
	ctx := func() string {
		return fmt.Sprintf("VoteSet powers=%s type=%d path=%s op=%s", v.name, typeOf[t], pathStr(nd.path), o.name)
	}
	viol := func(key string, detail any) {
		if vsel == nd.vs {
			ls.corrupt = true
		}
		r.Violation(key, detail)
	}
	m := nd.m
	h := nd.h
	before := nd.key
	// model first: operations the model predicts to leave the state unchanged run on the node's own instance
	// (and must leave its dump unchanged); only predicted state changes pay for a deep copy.
	{
		pm := nd.m
		switch o.kind {
		case kPeer:
			pm.setPeerMaj(o.peer, o.blk)
		case kVote:
			pm.addVote(v, o.id)
		}
		vsel = nd.vs
		if string(pm.dump(v, nil)) != before {
			vsel = nd.vs.VerifClone()
		}
	}
	vs := vsel
	switch o.kind {
	case kProbe:
		want := probeClass(&m, o)
		var added bool
		var err error
		if rec := vk.Catch(func() { added, err = vs.AddVote(o.vote) }); rec != nil {
			viol(ctx()+" => AddVote panicked", map[string]any{"panic": fmt.Sprint(rec), "state": before})
			return nil
		}
		got := errClass(err)
		after := string(dumpImpl(v, vs, nil))
		if added || got != want || after != before {
			viol(ctx()+fmt.Sprintf(" => invalid vote: added=%v err=%s (want rejected with %s), state changed=%v", added, got, want, after != before),
				map[string]any{"before": before, "after": after, "err": fmt.Sprint(err)})
		}
		ls.hist["probe:"+want]++
		return nil
	case kPeer:
		want := m.setPeerMaj(o.peer, o.blk)
		var err error
		if rec := vk.Catch(func() { err = vs.SetPeerMaj23(types.P2PID(peerNames[o.peer]), blockIDs[o.blk]) }); rec != nil {
			viol(ctx()+" => SetPeerMaj23 panicked", map[string]any{"panic": fmt.Sprint(rec), "state": before})
			return nil
		}
		if got := errClass(err); got != want {
			viol(ctx()+fmt.Sprintf(" => SetPeerMaj23 err=%s want %s", got, want), map[string]any{"state": before})
			return nil
		}
		ls.hist["peermaj:"+want]++
	case kVote:
		wantAdded, wantClass, wantConf := m.addVote(v, o.id)
		var added bool
		var err error
		if rec := vk.Catch(func() { added, err = vs.AddVote(o.vote) }); rec != nil {
			viol(ctx()+" => AddVote panicked", map[string]any{"panic": fmt.Sprint(rec), "state": before})
			return nil
		}
		got := errClass(err)
		i, blk := vidVal(o.id), vidBlk(o.id)
		// declarative conflict rule, from the pre-state only
		prevCanon := int(nd.m.canon[i])
		known := nd.m.existing(i, blk) >= 0
		if !known && prevCanon >= 0 && vidBlk(prevCanon) != blk {
			claimed := false
			for p := range nd.m.peers {
				if int(nd.m.peers[p]) == blk {
					claimed = true
				}
			}
			ce, isC := err.(*types.VoteConflictingVotesError)
			if !isC {
				viol(ctx()+" => second vote for another block not reported as conflicting: "+got, map[string]any{"state": before})
				return nil
			}
			if ce.VoteA != v.votes[prevCanon] || ce.VoteB != o.vote || !ce.PubKey.Equals(pool[i].pub) {
				viol(ctx()+" => conflict evidence does not carry (existing canonical vote, new vote, validator key)", map[string]any{"state": before})
			}
			if added != claimed {
				viol(ctx()+fmt.Sprintf(" => conflicting vote counted=%v but peer claim for the block present=%v", added, claimed), map[string]any{"state": before})
				return nil
			}
		}
		if added != wantAdded || got != wantClass {
			viol(ctx()+fmt.Sprintf(" => AddVote added=%v err=%s, model added=%v err=%s", added, got, wantAdded, wantClass),
				map[string]any{"before": before, "after": renderImpl(v, vs), "model_after": m.render(v)})
			return nil
		}
		if wantConf >= 0 {
			if ce, ok := err.(*types.VoteConflictingVotesError); !ok || ce.VoteA != v.votes[wantConf] {
				viol(ctx()+" => conflict evidence VoteA is not the previous canonical vote", map[string]any{"state": before})
			}
		}
		if added {
			h.counted[blk] |= 1 << uint(i)
			h.any |= 1 << uint(i)
			if h.firstMaj < 0 && 3*v.power(h.counted[blk]) > 2*v.total {
				h.firstMaj = int8(blk)
			}
		}
		ls.hist[fmt.Sprintf("vote:added=%v:%s", added, got)]++
	}
	after := string(dumpImpl(v, vs, nil))
	if want := string(m.dump(v, nil)); after != want {
		viol(ctx()+" => internal state differs from the power-sum model", map[string]any{"before": before, "impl_after": renderImpl(v, vs), "model_after": m.render(v), "impl_dump": after, "model_dump": want})
		return nil
	}
	if vs == nd.vs { // self-loop (state verified unchanged above: after == model dump == before)
		return nil
	}
	return &node{vs: vs, m: m, h: h, key: after, path: append(append(make([]string, 0, len(nd.path)+1), nd.path...), o.name)}
}

type kc[N any] struct {
	key string
	n   N
}

// bfs: level-synchronous, deterministic merge order (frontier order x op order; first discoverer wins).
func bfs[N any](root N, rootKey string, depth int, expand func(N, *lstat) []kc[N], onNew func(N, *lstat), label string) (states int64, levels []int, complete bool) {
	visited := map[[32]byte]struct{}{sha256.Sum256([]byte(rootKey)): {}}
	frontier := []N{root}
	states = 1
	ls0 := &lstat{hist: map[string]int64{}}
	onNew(root, ls0)
	r.Distinct(label + "|" + rootKey)
	levels = append(levels, 1)
	complete = true
	for d := 0; d < depth && len(frontier) > 0; d++ {
		if r.Expired() {
			complete = false
			break
		}
		out := make([][]kc[N], len(frontier))
		stats := make([]*lstat, len(frontier))
		r.ParFor(len(frontier), func(fi int) {
			ls := &lstat{hist: map[string]int64{}}
			stats[fi] = ls
			out[fi] = expand(frontier[fi], ls)
		})
		var next []N
		for fi := range out {
			if stats[fi] == nil { // budget expired inside ParFor
				complete = false
				continue
			}
			nTrans.Add(stats[fi].trans)
			r.EvalN(stats[fi].trans)
			for k, n := range stats[fi].hist {
				r.OutcomeN(k, n)
			}
			for _, c := range out[fi] {
				hk := sha256.Sum256([]byte(c.key))
				if _, ok := visited[hk]; ok {
					continue
				}
				visited[hk] = struct{}{}
				next = append(next, c.n)
				r.Distinct(label + "|" + c.key)
			}
		}
		// new states: API-level checks, in parallel
		nstats := make([]*lstat, len(next))
		r.ParFor(len(next), func(i int) {
			ls := &lstat{hist: map[string]int64{}}
			nstats[i] = ls
			onNew(next[i], ls)
		})
		for _, ls := range nstats {
			if ls == nil {
				complete = false
				continue
			}
			for k, n := range ls.hist {
				r.OutcomeN(k, n)
			}
		}
		states += int64(len(next))
		levels = append(levels, len(next))
		frontier = next
	}
	for k, n := range ls0.hist {
		r.OutcomeN(k, n)
	}
	return
}

func (v *valset) runVoteSet(t int, depth int, thorough bool) (int64, []int, bool) {
	ops := v.voteSetOps(0, t, thorough)
	root := &node{vs: types.NewVoteSet(chainID, H, 0, typeOf[t], v.vs), m: newMState(), h: hist{firstMaj: -1}}
	root.key = string(dumpImpl(v, root.vs, nil))
	label := fmt.Sprintf("VoteSet%s/t%d", v.name, t)
	keyOf := func(n *node) string { return n.key + "|" + n.h.render() }
	return bfs(root, keyOf(root), depth,
		func(nd *node, ls *lstat) []kc[*node] {
			var out []kc[*node]
			for oi := range ops {
				if c := v.step(t, nd, &ops[oi], ls); c != nil {
					out = append(out, kc[*node]{keyOf(c), c})
				}
				if ls.corrupt {
					return out
				}
			}
			if string(dumpImpl(v, nd.vs, nil)) != nd.key {
				r.HarnessError("clone aliasing: parent state changed")
			}
			return out
		},
		func(nd *node, ls *lstat) {
			checkAPI(v, t, nd.vs, &nd.m, &nd.h, fmt.Sprintf("VoteSet powers=%s type=%d path=%s", v.name, typeOf[t], pathStr(nd.path)), ls)
		}, label)
}

// ---------- phase 2: HeightVoteSet ----------

type rt struct{ r, t int }

type hmodel struct {
	round   int
	sets    [maxRnd * 2]*mstate // copy-on-write: clone() shares the pointers, mut() copies before writing
	catchup [3][]int            // per peer ("", p1, p2): catch-up rounds (never mutated in place)
}

var hPeers = [3]string{"", "p1", "p2"}

func hPeerIdx(p string) int {
	for i, x := range hPeers {
		if x == p {
			return i
		}
	}
	panic("peer")
}

func (m *hmodel) clone() *hmodel { c := *m; return &c }

func (m *hmodel) get(k rt) (*mstate, bool) {
	if k.r < 0 || k.r >= maxRnd || k.t < 0 {
		return nil, false
	}
	s := m.sets[k.r*2+k.t]
	return s, s != nil
}

func (m *hmodel) mut(k rt) *mstate {
	cp := *m.sets[k.r*2+k.t]
	m.sets[k.r*2+k.t] = &cp
	return &cp
}

func (m *hmodel) addRound(rd int) {
	for t := 0; t < 2; t++ {
		s := newMState()
		m.sets[rd*2+t] = &s
	}
}

func (m *hmodel) rounds() []int {
	var out []int
	for rd := 0; rd < maxRnd; rd++ {
		if m.sets[rd*2] != nil {
			out = append(out, rd)
		}
	}
	return out
}

func (m *hmodel) render(v *valset) string {
	var sb strings.Builder
	fmt.Fprintf(&sb, "round=%d", m.round)
	for _, rd := range m.rounds() {
		for t := 0; t < 2; t++ {
			fmt.Fprintf(&sb, " (r%d,t%d){%s}", rd, t, m.sets[rd*2+t].render(v))
		}
	}
	sb.WriteString(" catchup{")
	for pi, p := range hPeers {
		if len(m.catchup[pi]) > 0 {
			fmt.Fprintf(&sb, "%q:%v ", p, m.catchup[pi])
		}
	}
	sb.WriteString("}")
	return sb.String()
}

func renderHVS(v *valset, hvs *cstypes.HeightVoteSet) string {
	round, rounds, catchup := hvs.VerifRounds()
	var sb strings.Builder
	fmt.Fprintf(&sb, "round=%d", round)
	for _, rd := range rounds {
		for t := 0; t < 2; t++ {
			vs := hvs.VerifVoteSet(rd, typeOf[t])
			if vs.Round() != rd || vs.Type() != byte(typeOf[t]) || vs.Height() != H {
				sb.WriteString(" !voteset-coordinates-wrong")
			}
			fmt.Fprintf(&sb, " (r%d,t%d){%s}", rd, t, renderImpl(v, vs))
		}
	}
	sb.WriteString(" catchup{")
	for _, p := range []string{"", "p1", "p2"} {
		if rs, ok := catchup[p2pTypes.ID(p)]; ok {
			fmt.Fprintf(&sb, "%q:%v ", p, rs)
		}
	}
	sb.WriteString("}")
	if len(catchup) > 3 {
		sb.WriteString(" !extra-peers")
	}
	return sb.String()
}

func dumpHVS(v *valset, hvs *cstypes.HeightVoteSet) string {
	round, rounds, catchup := hvs.VerifRounds()
	buf := make([]byte, 0, 512)
	buf = append(buf, 'R')
	buf = appInt(buf, int64(round))
	for _, rd := range rounds {
		for t := 0; t < 2; t++ {
			vs := hvs.VerifVoteSet(rd, typeOf[t])
			buf = append(buf, '(')
			buf = appInt(buf, int64(rd))
			buf = append(buf, ',')
			buf = appInt(buf, int64(t))
			if vs.Round() != rd || vs.Type() != byte(typeOf[t]) || vs.Height() != H {
				buf = append(buf, '!')
			}
			buf = append(buf, ')')
			buf = dumpImpl(v, vs, buf)
		}
	}
	buf = append(buf, 'C')
	for _, p := range []string{"", "p1", "p2"} {
		if rs, ok := catchup[p2pTypes.ID(p)]; ok {
			buf = append(buf, p...)
			buf = append(buf, '=')
			for _, x := range rs {
				buf = appInt(buf, int64(x))
				buf = append(buf, ',')
			}
			buf = append(buf, ';')
		}
	}
	buf = append(buf, 'n')
	buf = appInt(buf, int64(len(catchup)))
	return string(buf)
}

func (m *hmodel) dump(v *valset) string {
	buf := make([]byte, 0, 512)
	buf = append(buf, 'R')
	buf = appInt(buf, int64(m.round))
	for _, rd := range m.rounds() {
		for t := 0; t < 2; t++ {
			buf = append(buf, '(')
			buf = appInt(buf, int64(rd))
			buf = append(buf, ',')
			buf = appInt(buf, int64(t))
			buf = append(buf, ')')
			buf = m.sets[rd*2+t].dump(v, buf)
		}
	}
	buf = append(buf, 'C')
	np := 0
	for pi, p := range hPeers {
		if rs := m.catchup[pi]; len(rs) > 0 {
			np++
			buf = append(buf, p...)
			buf = append(buf, '=')
			for _, x := range rs {
				buf = appInt(buf, int64(x))
				buf = append(buf, ',')
			}
			buf = append(buf, ';')
		}
	}
	buf = append(buf, 'n')
	buf = appInt(buf, int64(np))
	return string(buf)
}

const (
	hVote = iota
	hSetRound
	hPeerMaj
	hBadVote // syntactically routed vote that the vote set must reject (still may create a catch-up round)
)

type hop struct {
	name    string
	kind    int
	round   int
	t       int
	id      int
	vote    *types.Vote
	peer    string
	blk     int
	rawType types.SignedMsgType
	class   string // expected class of a hBadVote once routed
}

func (v *valset) hvsOps(thorough bool) []hop {
	var ops []hop
	addVote := func(i, rd, t, blk int, peer string) {
		vt := v.vote(rd, t, i, blk, 0)
		ops = append(ops, hop{name: fmt.Sprintf("%s@r%d.t%d<-%q", vidName(v.idOf(vt)), rd, t, peer), kind: hVote, round: rd, t: t, id: v.idOf(vt), vote: vt, peer: peer})
	}
	for i := 0; i < 2; i++ {
		for rd := 0; rd < maxRnd; rd++ {
			addVote(i, rd, 0, 0, "p1")
			if rd >= 1 {
				addVote(i, rd, 0, 0, "p2")
			}
		}
	}
	addVote(2, 0, 0, 2, "p1")
	addVote(2, 2, 0, 2, "p2")
	addVote(0, 0, 1, 0, "p1")
	addVote(1, 0, 1, 0, "p1")
	addVote(0, 1, 1, 0, "p1")
	addVote(0, 3, 1, 0, "p2")
	addVote(0, 1, 0, 0, "")
	addVote(0, 0, 0, 1, "p2") // conflicting prevote for B at round 0
	if thorough {
		addVote(2, 1, 0, 0, "p1")
		addVote(2, 3, 0, 0, "p2")
		addVote(1, 1, 1, 0, "p2")
		addVote(0, 2, 0, 0, "")
	}
	for _, rd := range []int{0, 1, 2, 3} {
		ops = append(ops, hop{name: fmt.Sprintf("SetRound(%d)", rd), kind: hSetRound, round: rd})
	}
	ops = append(ops,
		hop{name: "PeerMaj(r0,prevote,p1,A)", kind: hPeerMaj, round: 0, t: 0, peer: "p1", blk: 0, rawType: types.PrevoteType},
		hop{name: "PeerMaj(r0,prevote,p2,B)", kind: hPeerMaj, round: 0, t: 0, peer: "p2", blk: 1, rawType: types.PrevoteType},
		hop{name: "PeerMaj(r2,prevote,p1,A)", kind: hPeerMaj, round: 2, t: 0, peer: "p1", blk: 0, rawType: types.PrevoteType},
		hop{name: "PeerMaj(r0,precommit,p2,A)", kind: hPeerMaj, round: 0, t: 1, peer: "p2", blk: 0, rawType: types.PrecommitType},
		hop{name: "PeerMaj(r0,proposaltype,p1,A)", kind: hPeerMaj, round: 0, t: 0, peer: "p1", blk: 0, rawType: types.ProposalType},
	)
	// rejected votes
	{
		src := v.vote(3, 0, 1, 0, 0)
		c := src.Copy()
		c.Signature = append([]byte(nil), src.Signature...)
		c.Signature[5] ^= 0x08
		ops = append(ops, hop{name: "badsig:v1A@r3.t0<-\"p2\"", kind: hBadVote, round: 3, t: 0, id: v.idOf(src), vote: c, peer: "p2", class: eSignature})
		src = v.vote(0, 0, 0, 0, 0)
		c = src.Copy()
		c.Height = H + 1
		signVote(pool[0], c)
		ops = append(ops, hop{name: "height+1:v0A@r0.t0<-\"p1\"", kind: hBadVote, round: 0, t: 0, id: v.idOf(src), vote: c, peer: "p1", class: eStep})
		c = src.Copy()
		c.Type = types.ProposalType
		signVote(pool[0], c)
		ops = append(ops, hop{name: "proposaltype:v0A@r0<-\"p1\"", kind: hBadVote, round: 0, t: -1, id: v.idOf(src), vote: c, peer: "p1", class: "ignored"})
	}
	return ops
}

func (o *hop) rawTypeOrVoteType() types.SignedMsgType {
	if o.kind == hPeerMaj {
		return o.rawType
	}
	if o.vote != nil {
		return o.vote.Type
	}
	return 0
}

type hnode struct {
	hvs  *cstypes.HeightVoteSet
	m    *hmodel
	path []string
	key  string
}

// hPredictChange: does the model predict a state change for this op? (decides whether a deep copy is needed)
func (v *valset) hPredictChange(m0 *hmodel, o *hop) bool {
	m := m0.clone()
	switch o.kind {
	case hSetRound:
		if m.round != 0 && o.round < m.round+1 {
			return false
		}
		return true
	case hPeerMaj:
		if !types.IsVoteTypeValid(o.rawType) {
			return false
		}
		s, ok := m.get(rt{o.round, o.t})
		if !ok {
			return false
		}
		b := string(s.dump(v, nil))
		pi := 0
		if o.peer == "p2" {
			pi = 1
		}
		s = m.mut(rt{o.round, o.t})
		s.setPeerMaj(pi, o.blk)
		return string(s.dump(v, nil)) != b
	case hVote, hBadVote:
		if o.class == "ignored" {
			return false
		}
		s, ok := m.get(rt{o.round, o.t})
		if !ok {
			return len(m.catchup[hPeerIdx(o.peer)]) < 2
		}
		if o.kind == hBadVote {
			return false
		}
		b := string(s.dump(v, nil))
		s = m.mut(rt{o.round, o.t})
		s.addVote(v, o.id)
		return string(s.dump(v, nil)) != b
	}
	return true
}

func (v *valset) hstep(nd *hnode, o *hop, ls *lstat) *hnode {
	ls.trans++
	ctx := func() string {
		return fmt.Sprintf("HeightVoteSet powers=%s path=%s op=%s", v.name, pathStr(nd.path), o.name)
	}
	var hvs *cstypes.HeightVoteSet
	viol := func(key string, detail any) {
		if hvs == nd.hvs {
			ls.corrupt = true
		}
		r.Violation(key, detail)
	}
	m := nd.m.clone()
	before := nd.key
	hvs = nd.hvs
	if v.hPredictChange(nd.m, o) {
		// deep-copies only the vote set the operation is routed to; the other (unmodified) vote sets are shared
		hvs = nd.hvs.VerifCloneSharing(o.round, o.rawTypeOrVoteType())
	}
	switch o.kind {
	case hSetRound:
		wantPanic := m.round != 0 && o.round < m.round+1
		rec := vk.Catch(func() { hvs.SetRound(o.round) })
		if (rec != nil) != wantPanic {
			viol(ctx()+fmt.Sprintf(" => SetRound panic=%v want %v", rec != nil, wantPanic), map[string]any{"state": before})
			return nil
		}
		if wantPanic {
			if dumpHVS(v, hvs) != before {
				viol(ctx()+" => refused SetRound changed the state", map[string]any{"before": before, "after": renderHVS(v, hvs)})
			}
			ls.hist["hvs:setround:refused"]++
			return nil
		}
		for rd := m.round + 1; rd <= o.round; rd++ {
			if _, ok := m.get(rt{rd, 0}); !ok {
				m.addRound(rd)
			}
		}
		m.round = o.round
		if hvs.Round() != o.round {
			viol(ctx()+" => Round() wrong after SetRound", nil)
		}
		ls.hist["hvs:setround:ok"]++
	case hPeerMaj:
		want := eNone
		valid := types.IsVoteTypeValid(o.rawType)
		if !valid {
			want = "invalid-type"
		} else if _, ok := m.get(rt{o.round, o.t}); ok {
			pi := 0
			if o.peer == "p2" {
				pi = 1
			}
			want = m.mut(rt{o.round, o.t}).setPeerMaj(pi, o.blk)
		} else {
			want = "unknown-round-ignored"
		}
		var err error
		if rec := vk.Catch(func() { err = hvs.SetPeerMaj23(o.round, o.rawType, p2pTypes.ID(o.peer), blockIDs[o.blk]) }); rec != nil {
			viol(ctx()+" => SetPeerMaj23 panicked", map[string]any{"panic": fmt.Sprint(rec), "state": before})
			return nil
		}
		got := errClass(err)
		switch want {
		case "invalid-type":
			if err == nil {
				viol(ctx()+" => SetPeerMaj23 accepted an invalid vote type", nil)
				return nil
			}
		case "unknown-round-ignored":
			if err != nil {
				viol(ctx()+" => SetPeerMaj23 for an unknown round returned "+got, nil)
				return nil
			}
		default:
			if got != want {
				viol(ctx()+fmt.Sprintf(" => SetPeerMaj23 err=%s want %s", got, want), map[string]any{"state": before})
				return nil
			}
		}
		ls.hist["hvs:peermaj:"+want]++
	case hVote, hBadVote:
		var added bool
		var err error
		if rec := vk.Catch(func() { added, err = hvs.AddVote(o.vote, p2pTypes.ID(o.peer)) }); rec != nil {
			viol(ctx()+" => AddVote panicked", map[string]any{"panic": fmt.Sprint(rec), "state": before})
			return nil
		}
		got := errClass(err)
		if o.class == "ignored" { // invalid vote type: silently ignored
			if added || err != nil {
				viol(ctx()+fmt.Sprintf(" => vote of invalid type: added=%v err=%s", added, got), nil)
				return nil
			}
			ls.hist["hvs:vote:invalid-type-ignored"]++
			break
		}
		s, ok := m.get(rt{o.round, o.t})
		if !ok {
			if pi := hPeerIdx(o.peer); len(m.catchup[pi]) < 2 {
				m.addRound(o.round)
				m.catchup[pi] = append(append([]int(nil), m.catchup[pi]...), o.round)
			} else {
				if added || got != eUnwantedRd {
					viol(ctx()+fmt.Sprintf(" => third unknown round from one peer: added=%v err=%s, want rejected with %s", added, got, eUnwantedRd), map[string]any{"state": before})
					return nil
				}
				ls.hist["hvs:vote:"+eUnwantedRd]++
				break
			}
		}
		s = m.mut(rt{o.round, o.t})
		wantAdded, wantClass := false, o.class
		if o.kind == hVote {
			wantAdded, wantClass, _ = s.addVote(v, o.id)
		} else if o.class == eSignature && s.existing(vidVal(o.id), vidBlk(o.id)) >= 0 {
			wantClass = eNonDet
		}
		if added != wantAdded || got != wantClass {
			viol(ctx()+fmt.Sprintf(" => AddVote added=%v err=%s, model added=%v err=%s", added, got, wantAdded, wantClass),
				map[string]any{"before": before, "after": renderHVS(v, hvs), "model_after": m.render(v)})
			return nil
		}
		ls.hist[fmt.Sprintf("hvs:vote:added=%v:%s", added, got)]++
	}
	after := dumpHVS(v, hvs)
	if want := m.dump(v); after != want {
		viol(ctx()+" => HeightVoteSet state differs from the model (routing / rounds / catch-up)", map[string]any{"before": before, "impl_after": renderHVS(v, hvs), "model_after": m.render(v), "impl_dump": after, "model_dump": want})
		return nil
	}
	if hvs == nd.hvs {
		return nil
	}
	return &hnode{hvs: hvs, m: m, key: after, path: append(append(make([]string, 0, len(nd.path)+1), nd.path...), o.name)}
}

func (v *valset) checkHVS(nd *hnode, ls *lstat) {
	ctx := fmt.Sprintf("HeightVoteSet powers=%s path=%s", v.name, pathStr(nd.path))
	// POLInfo: highest round <= current round whose prevotes have a +2/3 majority
	wr, wb := -1, -1
	for rd := nd.m.round; rd >= 0; rd-- {
		if s, _ := nd.m.get(rt{rd, 0}); s != nil && s.maj >= 0 {
			wr, wb = rd, int(s.maj)
			break
		}
	}
	var gr int
	var gb types.BlockID
	if rec := vk.Catch(func() { gr, gb = nd.hvs.POLInfo() }); rec != nil {
		r.Violation(ctx+" => POLInfo panicked", map[string]any{"panic": fmt.Sprint(rec), "state": renderHVS(v, nd.hvs)})
		return
	}
	if gr != wr || (wr >= 0 && blkIndex(gb) != wb) || (wr < 0 && !gb.IsZero()) {
		r.Violation(ctx+fmt.Sprintf(" => POLInfo=(%d,%s) want (%d,%s)", gr, blkName(blkIndex(gb)), wr, blkName(wb)), map[string]any{"state": renderHVS(v, nd.hvs)})
	}
	if wr >= 0 {
		ls.hist["hvs:polinfo:found"]++
	} else {
		ls.hist["hvs:polinfo:none"]++
	}
	for rd := 0; rd < maxRnd; rd++ {
		_, known := nd.m.get(rt{rd, 0})
		if (nd.hvs.Prevotes(rd) != nil) != known || (nd.hvs.Precommits(rd) != nil) != known {
			r.Violation(ctx+fmt.Sprintf(" => Prevotes/Precommits(%d) presence differs from the model", rd), nil)
		}
	}
	if nd.hvs.Height() != H {
		r.Violation(ctx+" => Height() wrong", nil)
	}
}

func (v *valset) runHVS(depth int, thorough bool) (int64, []int, bool) {
	ops := v.hvsOps(thorough)
	hm := &hmodel{}
	hm.addRound(0)
	root := &hnode{hvs: cstypes.NewHeightVoteSet(chainID, H, v.vs), m: hm}
	root.key = dumpHVS(v, root.hvs)
	keyOf := func(n *hnode) string { return n.key }
	if keyOf(root) != hm.dump(v) {
		r.Violation("HeightVoteSet powers="+v.name+" initial state differs from model", map[string]any{"impl": keyOf(root), "model": hm.render(v)})
	}
	return bfs(root, keyOf(root), depth,
		func(nd *hnode, ls *lstat) []kc[*hnode] {
			var out []kc[*hnode]
			for oi := range ops {
				if c := v.hstep(nd, &ops[oi], ls); c != nil {
					out = append(out, kc[*hnode]{keyOf(c), c})
				}
				if ls.corrupt {
					return out
				}
			}
			if dumpHVS(v, nd.hvs) != nd.key {
				r.HarnessError("clone aliasing: parent height vote set changed")
			}
			return out
		},
		func(nd *hnode, ls *lstat) { v.checkHVS(nd, ls) }, "HVS"+v.name)
}

func main() {
	r = vk.New("model_checking")
	if r.ReplayIn != "" {
		fmt.Printf("replay %s: the exploration is deterministic and exhaustive; re-running the quick tier re-reports the recorded violation key if it still occurs\n", r.ReplayIn)
	}
	r.SetBudget(85*time.Second, 20*time.Minute)
	debug.SetGCPercent(400)
	if pf := os.Getenv("VERIF_PROF"); pf != "" {
		f, _ := os.Create(pf)
		pprof.StartCPUProfile(f)
	}
	for i := 0; i < 6; i++ {
		p := ed25519.GenPrivKeyFromSecret([]byte(fmt.Sprintf("verif-c35-validator-%d", i)))
		pub := p.PubKey().(ed25519.PubKeyEd25519)
		pool = append(pool, key{p, pub, pub.Address()})
	}
	sort.Slice(pool, func(a, b int) bool { return bytes.Compare(pool[a].addr[:], pool[b].addr[:]) < 0 })

	type cfg struct {
		powers []int64
		t      int
		depth  int
	}
	var cfgs []cfg
	if r.Quick() {
		cfgs = []cfg{
			{[]int64{1}, 1, 4},
			{[]int64{2, 2, 1}, 1, 8},
			{[]int64{2, 2, 1}, 0, 5},
			{[]int64{3, 1, 1, 1}, 1, 6},
			{[]int64{1, 1, 1, 1}, 1, 6},
			{[]int64{5, 3, 1, 1}, 1, 6},
		}
	} else {
		cfgs = []cfg{
			{[]int64{1}, 1, 4},
			{[]int64{1, 1}, 1, 6},
			{[]int64{2, 2, 1}, 1, 8},
			{[]int64{2, 2, 1}, 0, 8},
			{[]int64{1, 1, 1}, 1, 8},
			{[]int64{3, 1, 1, 1}, 1, 8},
			{[]int64{1, 1, 1, 1}, 1, 8},
			{[]int64{5, 3, 1, 1}, 1, 8},
			{[]int64{2, 2, 1, 1, 1}, 1, 6},
		}
	}
	complete := true
	var summary []map[string]any
	maxDepth := 0
	for _, c := range cfgs {
		v := mkValset(c.powers)
		st, lv, ok := v.runVoteSet(c.t, c.depth, r.Thorough())
		nStates.Add(st)
		complete = complete && ok
		if c.depth > maxDepth {
			maxDepth = c.depth
		}
		summary = append(summary, map[string]any{"voteset_powers": v.name, "type": fmt.Sprint(typeOf[c.t]), "depth": c.depth, "states": st, "states_per_level": lv, "completed": ok})
	}
	hdepth := 4
	if r.Thorough() {
		hdepth = 5
	}
	{
		v := mkValset([]int64{2, 1, 1})
		st, lv, ok := v.runHVS(hdepth, r.Thorough())
		nStates.Add(st)
		complete = complete && ok
		summary = append(summary, map[string]any{"heightvoteset_powers": v.name, "depth": hdepth, "states": st, "states_per_level": lv, "completed": ok})
	}
	r.Sample(map[string]any{"explorations": summary})
	r.Sample(map[string]any{"example_trace": "powers=[3 1 1 1] (quorum 5 of 6): v1B, p1:A, v1A (conflict reported; counted because p1 claimed A), v0A (4 of 6: no majority), v2A (5 of 6: +2/3 for A, canonical vote of v1 switches from B to A)"})
	r.Assumptions = []string{
		"the complete internal state of VoteSet/HeightVoteSet is read (and deep-copied for branching) through an overlay-added read-only file; no logic of the packages is changed",
		"depth is bounded per validator set (see samples); all sequences up to that depth are covered through state de-duplication",
		"MakeCommit keeps, by design, precommits of validators that voted for another block or nil under their own block id (VerifyCommit does not tally them); the check demands that everything attributed to the majority block is a genuine counted or replacement vote for it",
	}
	pprof.StopCPUProfile()
	r.Finish("BFS with dedup on (implementation internal state, oracle history) over vote / peer-claim sequences on VoteSet for several power vectors, all rejected-input probes at every state; BFS over HeightVoteSet ops (rounds 0..3, catch-up limit, POLInfo)",
		complete, map[string]any{"states": nStates.Load(), "transitions": nTrans.Load(), "traces_validated_against_impl": nTrans.Load(), "depth": maxDepth, "hvs_depth": hdepth})
}
