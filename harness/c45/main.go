// C45: bech32 addresses round-trip and malformed strings are rejected.
//
// Bounded exhaustive enumeration against an independent BIP-173 reference decoder written here:
//  A. encode/decode round trip for every (prefix, payload) with payloads = all byte strings of length <= 2 plus
//     patterned payloads of lengths 0..64;
//  B. every single-character substitution (every position x 47 replacement characters) of valid strings: all rejected;
//  C. every single deletion, insertion, adjacent swap and per-character case flip, whole-string case variants:
//     implementation accepts <=> reference accepts (same output), never panics;
//  D. every string of length <= 3 over charset+'1'; every checksum differing from the right one in <= 3 (quick) /
//     <= 4 (thorough) positions; the bech32m-checksummed sibling of every encoded string: all rejected;
//     thorough: all 32^6 checksums of one base string (budget-capped);
//  E. every 5-bit symbol sequence of length <= 3 (4) with a correct checksum: accepted <=> padding rule holds;
//  F. crypto.AddressFromBech32: accepts exactly 20-byte payloads under the address prefix;
//  G. history independence (history.go): the single-edit families of address, public-key and generic strings are
//     decoded cold, immediately after their canonical valid string and after other valid strings, through every public
//     decoding entry point (sequentially, in worker subprocesses); in this process every base string is decoded first
//     (and again last) in its family, and every valid encoding is decoded a second time in reverse order.
package main

import (
	"bytes"
	"encoding/json"
	"flag"
	"fmt"
	"os"
	"runtime/pprof"
	"sort"
	"strings"
	"sync"
	"sync/atomic"
	"time"

	"github.com/gnolang/gno/tm2/pkg/bech32"
	"github.com/gnolang/gno/tm2/pkg/crypto"
	"verif/engine/vk"
)

var r *vk.Run

// ---- independent reference (BIP-173) ---------------------------------------------------------------------------

const charset = "qpzry9x8gf2tvdw0s3jn54khce6mua7l"

var rev = func() [256]int8 {
	var t [256]int8
	for i := range t {
		t[i] = -1
	}
	for i := 0; i < len(charset); i++ {
		t[charset[i]] = int8(i)
	}
	return t
}()

func polymod(v []byte) uint32 {
	gen := [5]uint32{0x3b6a57b2, 0x26508e6d, 0x1ea119fa, 0x3d4233dd, 0x2a1462b3}
	chk := uint32(1)
	for _, x := range v {
		b := chk >> 25
		chk = (chk&0x1ffffff)<<5 ^ uint32(x)
		for i := 0; i < 5; i++ {
			if (b>>uint(i))&1 == 1 {
				chk ^= gen[i]
			}
		}
	}
	return chk
}

func hrpExpand(h string) []byte {
	o := make([]byte, 0, 2*len(h)+1)
	for i := 0; i < len(h); i++ {
		o = append(o, h[i]>>5)
	}
	o = append(o, 0)
	for i := 0; i < len(h); i++ {
		o = append(o, h[i]&31)
	}
	return o
}

// refEncode5 encodes 5-bit symbols with the checksum constant k (1 = bech32, 0x2bc830a3 = bech32m).
func refEncode5(hrp string, d5 []byte, k uint32) string {
	v := append(hrpExpand(hrp), d5...)
	v = append(v, 0, 0, 0, 0, 0, 0)
	pm := polymod(v) ^ k
	var b strings.Builder
	b.WriteString(hrp)
	b.WriteByte('1')
	for _, x := range d5 {
		b.WriteByte(charset[x])
	}
	for i := 0; i < 6; i++ {
		b.WriteByte(charset[(pm>>uint(5*(5-i)))&31])
	}
	return b.String()
}

func to5(d []byte) []byte {
	var o []byte
	acc, bits := uint32(0), 0
	for _, b := range d {
		acc = acc<<8 | uint32(b)
		bits += 8
		for bits >= 5 {
			bits -= 5
			o = append(o, byte(acc>>uint(bits))&31)
		}
	}
	if bits > 0 {
		o = append(o, byte(acc<<uint(5-bits))&31)
	}
	return o
}

// refDecode: the string is a valid bech32 (constant 1) encoding of hrp/payload. No upper length limit
// (the repository deliberately uses the no-limit decoder for long public keys).
func refDecode(s string) (hrp string, payload []byte, ok bool) {
	if len(s) < 8 {
		return
	}
	lower, upper := false, false
	for i := 0; i < len(s); i++ {
		c := s[i]
		if c < 33 || c > 126 {
			return
		}
		if c >= 'a' && c <= 'z' {
			lower = true
		}
		if c >= 'A' && c <= 'Z' {
			upper = true
		}
	}
	if lower && upper {
		return
	}
	s = strings.ToLower(s)
	one := strings.LastIndexByte(s, '1')
	if one < 1 || one+7 > len(s) {
		return
	}
	h := s[:one]
	var d5 []byte
	for i := one + 1; i < len(s); i++ {
		v := rev[s[i]]
		if v < 0 {
			return
		}
		d5 = append(d5, byte(v))
	}
	if polymod(append(hrpExpand(h), d5...)) != 1 {
		return
	}
	d5 = d5[:len(d5)-6]
	acc, bits := uint32(0), 0
	out := []byte{}
	for _, x := range d5 {
		acc = (acc<<5 | uint32(x)) & 0xfff
		bits += 5
		if bits >= 8 {
			bits -= 8
			out = append(out, byte(acc>>uint(bits)))
		}
	}
	if bits >= 5 || acc&(1<<uint(bits)-1) != 0 {
		return
	}
	return h, out, true
}

// ---- failure bookkeeping -----------------------------------------------------------------------------------------

type frec struct {
	input, detail string
	n             int64
}

var (
	fmu   sync.Mutex
	fails = map[string]*frec{}
)

func fail(class, input, detail string) {
	fmu.Lock()
	f := fails[class]
	if f == nil {
		fails[class] = &frec{input, detail, 1}
	} else {
		f.n++
		if len(input) < len(f.input) || (len(input) == len(f.input) && input < f.input) {
			f.input, f.detail = input, detail
		}
	}
	fmu.Unlock()
}

type tally struct {
	mu       sync.Mutex
	acc, rej int64
}

// agree decodes s with the implementation and the reference; class is the enumeration family.
// mustReject: the property demands rejection regardless of the reference.
func agree(class, s string, mustReject bool, t *tally) {
	var hrp string
	var data []byte
	var err error
	rec := vk.Catch(func() { hrp, data, err = bech32.Decode(s) })
	r.Eval()
	if rec != nil {
		fail("panic:"+class, s, fmt.Sprint(rec))
		return
	}
	rh, rd, rok := refDecode(s)
	switch {
	case err == nil && mustReject:
		fail("accepted:"+class, s, fmt.Sprintf("decoded to hrp=%q payload=%x", hrp, data))
	case err == nil && !rok:
		fail("accepted-but-reference-rejects:"+class, s, fmt.Sprintf("decoded to hrp=%q payload=%x", hrp, data))
	case err != nil && rok:
		fail("rejected-but-reference-accepts:"+class, s, err.Error())
	case err == nil && (hrp != rh || !bytes.Equal(data, rd)):
		fail("decoded-differently:"+class, s, fmt.Sprintf("impl hrp=%q payload=%x reference hrp=%q payload=%x", hrp, data, rh, rd))
	}
	if t != nil {
		if err == nil {
			t.acc++
		} else {
			t.rej++
		}
	}
}

func pattern(kind, n int) []byte {
	b := make([]byte, n)
	for i := range b {
		switch kind {
		case 0:
			b[i] = 0
		case 1:
			b[i] = 0xff
		case 2:
			b[i] = byte(i + 1)
		default:
			b[i] = 0x55
		}
	}
	return b
}

var replChars = func() []byte {
	c := []byte(charset)
	c = append(c, '1', 'b', 'i', 'o', 'Q', 'P', 'Z', 'G', 'L', ' ', '!', '~', 0x7f, 0x80, 0)
	return c
}()

func main() {
	worker := flag.String("worker", "", "internal: history worker <kind>:<k>/<n>")
	r = vk.New("exploration")
	r.SetBudget(80*time.Second, 20*time.Minute)
	if *worker != "" {
		b, _ := json.Marshal(runHistoryWorker(*worker))
		fmt.Println("RESULT " + string(b))
		return
	}
	if pf := os.Getenv("C45_PPROF"); pf != "" {
		f, _ := os.Create(pf)
		pprof.StartCPUProfile(f)
	}
	joinHistory := startHistoryWorkers()
	prefixes := []string{"g", "gpub", "a", "1", "g1x", "x-_~!", "0", "g9", strings.Repeat("a", 83)}

	// payload universe
	var payloads [][]byte
	payloads = append(payloads, []byte{})
	for a := 0; a < 256; a++ {
		payloads = append(payloads, []byte{byte(a)})
	}
	small := len(payloads) // <= 1 byte
	for a := 0; a < 256; a++ {
		for b := 0; b < 256; b++ {
			payloads = append(payloads, []byte{byte(a), byte(b)})
		}
	}
	upto2 := len(payloads)
	for _, n := range []int{3, 4, 5, 19, 20, 21, 32, 33, 64} {
		for k := 0; k < 4; k++ {
			payloads = append(payloads, pattern(k, n))
		}
	}
	_ = upto2

	// ---- A. round trip ---------------------------------------------------------------------------------------
	var rt, again atomic.Int64
	r.ParFor(len(prefixes)*len(payloads), func(i int) {
		p, d := prefixes[i/len(payloads)], payloads[i%len(payloads)]
		var enc, hrp string
		var got []byte
		var err error
		in := func() string { return fmt.Sprintf("%s/%x", p, d) } // only built when a failure is reported
		if rec := vk.Catch(func() { enc, err = bech32.Encode(p, d) }); rec != nil || err != nil {
			fail("encode-failed", in(), fmt.Sprintf("panic=%v err=%v", rec, err))
			return
		}
		if rec := vk.Catch(func() { hrp, got, err = bech32.Decode(enc) }); rec != nil || err != nil {
			fail("roundtrip:decode-of-own-encoding-failed", in(), fmt.Sprintf("%s: panic=%v err=%v", enc, rec, err))
			return
		}
		if hrp != p || !bytes.Equal(got, d) {
			fail("roundtrip:differs", in(), fmt.Sprintf("%s decoded to %s/%x", enc, hrp, got))
		}
		if want := refEncode5(p, to5(d), 1); want != enc {
			fail("roundtrip:encoding-differs-from-reference", in(), fmt.Sprintf("impl %s reference %s", enc, want))
		}
		// D(sibling): the same data under the bech32m checksum constant is NOT a valid bech32 string
		agree("bech32m-checksum", refEncode5(p, to5(d), 0x2bc830a3), true, nil)
		r.EvalN(2)
		r.Distinct("rt:" + enc)
		rt.Add(1)
	})
	r.OutcomeN("roundtrip_pairs", rt.Load())
	// second decoding of every valid encoding, in the reverse order (the result may not depend on what was decoded before)
	nenc := len(prefixes) * len(payloads)
	r.ParFor(nenc, func(j int) {
		i := nenc - 1 - j
		p, d := prefixes[i/len(payloads)], payloads[i%len(payloads)]
		enc, eerr := bech32.Encode(p, d) // deterministic and checked against the reference in the first pass
		if eerr != nil {
			return
		}
		var hrp string
		var got []byte
		var err error
		rec := vk.Catch(func() { hrp, got, err = bech32.DecodeAndConvert(enc) })
		r.Eval()
		if rec != nil || err != nil || hrp != p || !bytes.Equal(got, d) {
			fail("history-dependent:bech32.DecodeAndConvert:valid-string-second-decode-differs(reverse order)", enc, fmt.Sprintf("panic=%v err=%v decoded to %s/%x, encoded from %s/%x", rec, err, hrp, got, p, d))
			return
		}
		again.Add(1)
	})
	r.OutcomeN("valid_encodings_decoded_a_second_time_in_reverse_order", again.Load())

	// base strings for the mutation families
	var bases []string
	nb := small
	if r.Thorough() {
		nb = small + 4096 // + a slice of the 2-byte payloads
	}
	for _, p := range prefixes[:8] {
		for _, d := range payloads[:nb] {
			s, _ := bech32.Encode(p, d)
			bases = append(bases, s)
		}
		for _, d := range payloads[upto2:] {
			s, _ := bech32.Encode(p, d)
			bases = append(bases, s)
		}
	}
	s83, _ := bech32.Encode(prefixes[8], []byte{1, 2, 3})
	bases = append(bases, s83, strings.ToUpper(bases[5]), strings.ToUpper(bases[300]))

	// ---- B. single substitutions: every one must be rejected --------------------------------------------------
	var sub, other tally
	r.ParFor(len(bases), func(i int) {
		s := bases[i]
		var t, o tally
		// the canonical string first (and again last): every variant below is decoded after its valid string
		warm := func(ctx string) {
			agree("identity("+ctx+")", s, false, &o)
			rh, rd, _ := refDecode(s)
			h2, d2, err2 := bech32.DecodeAndConvert(s)
			d3, err3 := crypto.GetFromBech32(s, rh)
			r.EvalN(2)
			if err2 != nil || err3 != nil || h2 != rh || !bytes.Equal(d2, rd) || !bytes.Equal(d3, rd) {
				fail("valid-string:DecodeAndConvert/GetFromBech32-disagree-with-reference("+ctx+")", s, fmt.Sprintf("DecodeAndConvert: %q %x %v; GetFromBech32: %x %v; reference %q %x", h2, d2, err2, d3, err3, rh, rd))
			}
		}
		warm("before its variants")
		warm("twice in a row")
		forVariants(s, 40, func(class, v string, mustReject bool) {
			if mustReject {
				agree(class, v, true, &t)
				return
			}
			agree(class, v, false, &o)
			if class == "case-flip" || class == "upper" || class == "lower" {
				// the spellings a normalising cache would confuse also go through the other two entry points
				_, rd, rok := refDecode(v)
				rh, _, _ := refDecode(s)
				_, d2, err2 := bech32.DecodeAndConvert(v)
				d3, err3 := crypto.GetFromBech32(v, rh)
				r.EvalN(2)
				if (err2 == nil) != rok || (err3 == nil) != rok || (rok && (!bytes.Equal(d2, rd) || !bytes.Equal(d3, rd))) {
					fail("case-variant-after-canonical:DecodeAndConvert/GetFromBech32-disagree-with-reference:"+class, v, fmt.Sprintf("DecodeAndConvert: %x %v; GetFromBech32: %x %v; reference ok=%v %x", d2, err2, d3, err3, rok, rd))
				}
			}
		})
		warm("after its variants")
		r.Distinct("base:" + s)
		sub.mu.Lock()
		sub.acc += t.acc
		sub.rej += t.rej
		other.acc += o.acc
		other.rej += o.rej
		sub.mu.Unlock()
	})
	r.OutcomeN("single_substitution_rejected", sub.rej)
	r.OutcomeN("single_substitution_accepted", sub.acc)
	r.OutcomeN("edit_variants_accepted(reference agrees)", other.acc)
	r.OutcomeN("edit_variants_rejected(reference agrees)", other.rej)

	// ---- D. short strings and checksum neighbourhoods -----------------------------------------------------------
	alpha := []byte(charset + "1")
	var short tally
	for l := 0; l <= 3; l++ {
		total := 1
		for i := 0; i < l; i++ {
			total *= len(alpha)
		}
		for x := 0; x < total; x++ {
			b := make([]byte, l)
			y := x
			for k := 0; k < l; k++ {
				b[k] = alpha[y%len(alpha)]
				y /= len(alpha)
			}
			agree("short-string", string(b), true, &short)
		}
	}
	r.OutcomeN("short_strings_rejected", short.rej)

	maxDiff := 3
	if r.Thorough() {
		maxDiff = 4
	}
	var near tally
	nearBases := []string{bases[0], bases[len(bases)-4]}
	if r.Thorough() {
		nearBases = append(nearBases, bases[300], bases[700])
	}
	for _, bs := range nearBases {
		n := len(bs)
		// all ways to change k <= maxDiff of the 6 checksum characters
		var masks []int
		for m := 1; m < 64; m++ {
			c := 0
			for i := 0; i < 6; i++ {
				c += (m >> i) & 1
			}
			if c <= maxDiff {
				masks = append(masks, m)
			}
		}
		r.ParFor(len(masks), func(mi int) {
			m := masks[mi]
			var pos []int
			for i := 0; i < 6; i++ {
				if (m>>i)&1 == 1 {
					pos = append(pos, n-6+i)
				}
			}
			var t tally
			total := 1
			for range pos {
				total *= 31
			}
			b := []byte(bs)
			for x := 0; x < total; x++ {
				y := x
				for _, p := range pos {
					o := int(rev[bs[p]])
					b[p] = charset[(o+1+y%31)%32]
					y /= 31
				}
				agree("checksum-changed", string(b), true, &t)
			}
			near.mu.Lock()
			near.rej += t.rej
			near.acc += t.acc
			near.mu.Unlock()
		})
	}
	r.OutcomeN("checksum_neighbourhood_rejected", near.rej)
	r.OutcomeN("checksum_neighbourhood_accepted", near.acc)

	// ---- E. all 5-bit symbol sequences with a correct checksum ----------------------------------------------------
	maxSym := 3
	if r.Thorough() {
		maxSym = 4
	}
	var sym tally
	for l := 0; l <= maxSym; l++ {
		total := 1 << uint(5*l)
		r.ParFor(total, func(x int) {
			d5 := make([]byte, l)
			for k := 0; k < l; k++ {
				d5[k] = byte(x>>uint(5*k)) & 31
			}
			var t tally
			agree("valid-checksum-any-symbols", refEncode5("g", d5, 1), false, &t)
			sym.mu.Lock()
			sym.acc += t.acc
			sym.rej += t.rej
			sym.mu.Unlock()
		})
	}
	r.OutcomeN("symbol_sequences_accepted(padding ok)", sym.acc)
	r.OutcomeN("symbol_sequences_rejected(bad padding)", sym.rej)

	// ---- F. addresses ----------------------------------------------------------------------------------------------
	ap := crypto.Bech32AddrPrefix()
	for n := 0; n <= 40; n++ {
		for k := 0; k < 4; k++ {
			d := pattern(k, n)
			for _, p := range []string{ap, "gpub", "a", ap + "1"} {
				s, _ := bech32.Encode(p, d)
				var addr crypto.Address
				var err error
				rec := vk.Catch(func() { addr, err = crypto.AddressFromBech32(s) })
				r.Eval()
				want := p == ap && n == crypto.AddressSize
				switch {
				case rec != nil:
					fail("panic:AddressFromBech32", s, fmt.Sprint(rec))
				case (err == nil) != want:
					fail("address:accept-mismatch", s, fmt.Sprintf("prefix=%s len=%d err=%v", p, n, err))
				case err == nil && (!bytes.Equal(addr[:], d) || crypto.AddressToBech32(addr) != s):
					fail("address:roundtrip-differs", s, fmt.Sprintf("%x", addr[:]))
				}
				if want {
					r.Outcome("address_accepted")
				} else {
					r.Outcome("address_rejected")
				}
			}
		}
	}
	if _, err := crypto.AddressFromBech32(""); err == nil {
		fail("address:accept-mismatch", "", "empty string accepted")
	}

	// (last, because it is the only part that may hit the budget cap)
	fullDone := false
	if r.Thorough() {
		// all 32^6 checksums of the shortest base string: exactly one may be accepted
		bs := bases[0]
		n := len(bs)
		var full tally
		r.ParFor(1<<15, func(hi int) {
			if r.Expired() {
				return
			}
			b := []byte(bs)
			var t tally
			for k := 0; k < 3; k++ {
				b[n-6+k] = charset[(hi>>uint(5*k))&31]
			}
			for lo := 0; lo < 1<<15; lo++ {
				for k := 0; k < 3; k++ {
					b[n-3+k] = charset[(lo>>uint(5*k))&31]
				}
				s := string(b)
				agree("any-checksum", s, s != bs, &t)
			}
			full.mu.Lock()
			full.acc += t.acc
			full.rej += t.rej
			full.mu.Unlock()
		})
		fullDone = !r.Capped()
		r.OutcomeN("all_checksums_accepted", full.acc)
		r.OutcomeN("all_checksums_rejected", full.rej)
	}

	histCov := joinHistory()
	var names []string
	for c := range fails {
		names = append(names, c)
	}
	sort.Strings(names)
	for _, c := range names {
		f := fails[c]
		r.Violation(c+":"+f.input, map[string]any{"class": c, "minimal_input": f.input, "detail": f.detail, "cases_in_class": f.n})
	}
	r.Sample(map[string]any{"valid": bases[0], "single_substitution_example": "g1kn66gq", "expect": "rejected"})
	r.Sample(map[string]any{"prefixes": prefixes[:8], "payloads": "all byte strings of length <= 2 + patterns of length 3..64"})
	r.Sample(map[string]any{"replacement_characters": string(replChars[:len(replChars)-3]) + "\\x7f\\x80\\x00"})
	r.Assumptions = []string{
		"reference: an independent BIP-173 decoder (checksum constant 1, case rule, separator rule, strict 5->8 bit padding) without the 90-character limit, which the repository deliberately does not apply",
		"valid prefixes are non-empty lower-case strings over ASCII 33..126 (an upper-case prefix is lower-cased by the encoder)",
		"'every string' is bounded: all strings of length <= 3, all single edits of ~2,300 valid strings, checksum neighbourhoods, all short symbol sequences",
	}
	pprof.StopCPUProfile()
	r.Finish("9 prefixes x (all payloads of length <= 2 + patterns) round trip; every single substitution (47 replacement chars) / deletion / insertion / adjacent swap / case flip of every base string; all strings of length <= 3; all <=3(4)-position checksum changes of 2(4) base strings; bech32m sibling of every encoding; all 5-bit symbol sequences of length <= 3(4); address length/prefix matrix; thorough: all 32^6 checksums of one string (budget-capped); distinct = distinct valid encodings and base strings",
		true, map[string]any{"bases": len(bases), "prefixes": len(prefixes), "payloads": len(payloads), "history_independence": histCov, "all_32^6_checksums_of_one_string": map[bool]string{true: map[bool]string{true: "completed", false: "budget-capped"}[fullDone], false: "not run in quick"}[r.Thorough()]})
}
