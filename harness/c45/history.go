package main

// Part G: decoding is history-independent.
//
// The verdict on a string must not depend on what the process decoded before (a memo of successful decodings that is
// keyed by a normalised spelling, or that is consulted before validation, breaks exactly this). The protocol below
// runs SEQUENTIALLY in worker subprocesses (one goroutine, GOMAXPROCS=1, a fresh process = genuinely cold state), one
// per family kind, so that "right after" really is adjacent:
//
//	step 0  cold     every variant through every entry point before anything valid was decoded in the process
//	step 1  valid    every canonical string through every entry point twice in a row, then all of them in forward and in
//	                 reverse order, then interleaved with its all-upper/all-lower spelling
//	step 2  adjacent for every (variant, entry point): entry(canonical) immediately followed by entry(variant)
//	step 3  warm     every canonical string of the worker decoded through every entry point, then every variant once
//	                 more (the most recent valid string is now a DIFFERENT one)
//	step 4  valid    every canonical string again after all the malformed ones
//
// Every verdict is compared with the independent reference decoder (refDecode) each time.

import (
	"bytes"
	"encoding/json"
	"fmt"
	"os"
	"os/exec"
	"sort"
	"strings"

	"github.com/gnolang/gno/tm2/pkg/amino"
	"github.com/gnolang/gno/tm2/pkg/bech32"
	"github.com/gnolang/gno/tm2/pkg/crypto"
	"github.com/gnolang/gno/tm2/pkg/crypto/ed25519"
	"github.com/gnolang/gno/tm2/pkg/crypto/secp256k1"
	"verif/engine/vk"
)

type family struct {
	kind    string // address | pubkey | generic
	s       string // canonical valid string
	hrp     string // its (lower-case) prefix
	entries []*entry
	vars    []variant
	coldOK  [][]bool // [variant][entry]
	insMax  int
}

type variant struct {
	class      string
	s          string
	mustReject bool
}

type entry struct {
	name      string
	noHRP     bool // the entry point does not return the prefix
	noData    bool // ... nor the payload
	printable bool // only for strings that can be put into a JSON string literal unchanged
	run       func(f *family, s string) (ok bool, hrp string, data []byte)
	want      func(f *family, rh string, rd []byte, rok bool) (ok bool, data []byte)
}

func wantAny(_ *family, _ string, rd []byte, rok bool) (bool, []byte) { return rok, rd }
func wantFamPrefix(f *family, rh string, rd []byte, rok bool) (bool, []byte) {
	return rok && rh == f.hrp, rd
}
func wantAddr(_ *family, rh string, rd []byte, rok bool) (bool, []byte) {
	return rok && rh == crypto.Bech32AddrPrefix() && len(rd) == crypto.AddressSize, rd
}
func wantPub(_ *family, rh string, rd []byte, rok bool) (bool, []byte) {
	if !rok || rh != crypto.Bech32PubKeyPrefix() {
		return false, nil
	}
	var pk crypto.PubKey
	var err error
	if rec := vk.Catch(func() { err = amino.Unmarshal(rd, &pk) }); rec != nil || err != nil { // amino is trusted
		return false, nil
	}
	if pk == nil {
		return true, nil
	}
	return true, pk.Bytes()
}

var (
	eDecode = &entry{name: "bech32.Decode", want: wantAny, run: func(_ *family, s string) (bool, string, []byte) {
		h, d, err := bech32.Decode(s)
		return err == nil, h, d
	}}
	eDecodeAndConvert = &entry{name: "bech32.DecodeAndConvert", want: wantAny, run: func(_ *family, s string) (bool, string, []byte) {
		h, d, err := bech32.DecodeAndConvert(s)
		return err == nil, h, d
	}}
	eGetFrom = &entry{name: "crypto.GetFromBech32", noHRP: true, want: wantFamPrefix, run: func(f *family, s string) (bool, string, []byte) {
		d, err := crypto.GetFromBech32(s, f.hrp)
		return err == nil, "", d
	}}
	eAddrFromBech32 = &entry{name: "crypto.AddressFromBech32", noHRP: true, want: wantAddr, run: func(_ *family, s string) (bool, string, []byte) {
		a, err := crypto.AddressFromBech32(s)
		return err == nil, "", a[:]
	}}
	eAddrFromString = &entry{name: "crypto.AddressFromString(Address.DecodeString)", noHRP: true, want: wantAddr, run: func(_ *family, s string) (bool, string, []byte) {
		a, err := crypto.AddressFromString(s)
		return err == nil, "", a[:]
	}}
	eUnmarshalAmino = &entry{name: "Address.UnmarshalAmino", noHRP: true, want: wantAddr, run: func(_ *family, s string) (bool, string, []byte) {
		var a crypto.Address
		err := a.UnmarshalAmino(s)
		return err == nil, "", a[:]
	}}
	eUnmarshalJSON = &entry{name: "Address.UnmarshalJSON", noHRP: true, printable: true, want: wantAddr, run: func(_ *family, s string) (bool, string, []byte) {
		var a crypto.Address
		err := a.UnmarshalJSON([]byte(`"` + s + `"`))
		return err == nil, "", a[:]
	}}
	eIDValidate = &entry{name: "crypto.ID.Validate(Address.DecodeID)", noHRP: true, noData: true, want: wantAddr, run: func(_ *family, s string) (bool, string, []byte) {
		return crypto.ID(s).Validate() == nil, "", nil
	}}
	ePubKeyFromBech32 = &entry{name: "crypto.PubKeyFromBech32", noHRP: true, want: wantPub, run: func(_ *family, s string) (bool, string, []byte) {
		pk, err := crypto.PubKeyFromBech32(s)
		if err != nil || pk == nil {
			return err == nil, "", nil
		}
		return true, "", pk.Bytes()
	}}

	entriesByKind = map[string][]*entry{
		"address": {eDecode, eDecodeAndConvert, eGetFrom, eAddrFromBech32, eAddrFromString, eUnmarshalAmino, eUnmarshalJSON, eIDValidate, ePubKeyFromBech32},
		"pubkey":  {eDecode, eDecodeAndConvert, eGetFrom, ePubKeyFromBech32, eAddrFromBech32},
		"generic": {eDecode, eDecodeAndConvert, eGetFrom, eAddrFromBech32},
	}
)

func jsonSafe(s string) bool {
	for i := 0; i < len(s); i++ {
		if c := s[i]; c < 0x20 || c > 0x7e || c == '"' || c == '\\' {
			return false
		}
	}
	return true
}

// forVariants enumerates the single-edit neighbourhood of a valid string s: every single substitution (must all be
// rejected), every deletion, adjacent swap, per-character case flip, insertion (strings shorter than insMax) and the
// whole-string case variants (implementation <=> reference).
func forVariants(s string, insMax int, f func(class, v string, mustReject bool)) {
	forVariantsOver(s, func(byte) []byte { return replChars }, replChars[:33], insMax, f) // insertions: charset + '1'
}

// workerRepl is the replacement alphabet of the sequential history protocol (the full 47-character alphabet is
// applied to ~2,300 strings in the main process): the other-case spelling of the character, 8 charset symbols, the
// separator, a non-charset letter, a non-ASCII byte and NUL.
func workerRepl(orig byte) []byte {
	out := []byte{'q', 'p', 'z', 'r', 'y', '9', 'x', '8', '1', 'b', 0x80, 0}
	if c := orig | 0x20; c >= 'a' && c <= 'z' {
		out = append(out, orig^0x20)
	}
	return out
}

func forVariantsOver(s string, repl func(orig byte) []byte, insChars []byte, insMax int, f func(class, v string, mustReject bool)) {
	b := []byte(s)
	for pos := 0; pos < len(b); pos++ {
		orig := b[pos]
		for _, c := range repl(orig) {
			if c == orig {
				continue
			}
			b[pos] = c
			f("single-substitution", string(b), true)
		}
		b[pos] = orig
	}
	for pos := 0; pos < len(s); pos++ {
		f("deletion", s[:pos]+s[pos+1:], false)
		if pos+1 < len(s) && s[pos] != s[pos+1] {
			x := []byte(s)
			x[pos], x[pos+1] = x[pos+1], x[pos]
			f("adjacent-swap", string(x), false)
		}
		if c := s[pos]; (c >= 'a' && c <= 'z') || (c >= 'A' && c <= 'Z') {
			x := []byte(s)
			x[pos] ^= 0x20
			// a single flipped letter makes the string mixed-case unless it is the only letter
			f("case-flip", string(x), false)
		}
	}
	if len(s) < insMax {
		for pos := 0; pos <= len(s); pos++ {
			for _, c := range insChars {
				f("insertion", s[:pos]+string(c)+s[pos:], false)
			}
		}
	}
	f("upper", strings.ToUpper(s), false)
	f("lower", strings.ToLower(s), false)
	f("identity", s, false)
}

func newFamily(kind, s string, insMax int) *family {
	h, _, ok := refDecode(s)
	if !ok {
		panic("harness: canonical string rejected by the reference: " + s)
	}
	return &family{kind: kind, s: s, hrp: h, entries: entriesByKind[kind], insMax: insMax}
}

// build enumerates the variants of the family (only the worker that owns the family needs them).
func (f *family) build() {
	s := f.s
	forVariantsOver(s, workerRepl, []byte{'q', 'l', '1', 'Q'}, f.insMax, func(class, v string, must bool) { f.vars = append(f.vars, variant{class, v, must}) })
	// every two-letter case flip of the first letters too (mixed case with more than one upper-case letter)
	var letters []int
	for i := 0; i < len(s) && len(letters) < 6; i++ {
		if c := s[i] | 0x20; c >= 'a' && c <= 'z' {
			letters = append(letters, i)
		}
	}
	for a := 0; a < len(letters); a++ {
		for b := a + 1; b < len(letters); b++ {
			x := []byte(s)
			x[letters[a]] ^= 0x20
			x[letters[b]] ^= 0x20
			f.vars = append(f.vars, variant{"case-flip", string(x), false})
		}
	}
}

func historyFamilies(kind string, thorough bool) []*family {
	var out []*family
	switch kind {
	case "address":
		var addrs []crypto.Address
		for k := 0; k < 3; k++ {
			a, _ := crypto.AddressFromBytes(pattern(k, crypto.AddressSize))
			addrs = append(addrs, a)
		}
		n := 1
		if thorough {
			n = 24
		}
		for i := 0; i < n; i++ {
			addrs = append(addrs, crypto.AddressFromPreimage([]byte(fmt.Sprintf("c45-address-%d", i))))
		}
		for _, a := range addrs {
			out = append(out, newFamily(kind, crypto.AddressToBech32(a), 64))
		}
		out = append(out, newFamily(kind, strings.ToUpper(out[2].s), 64), newFamily(kind, strings.ToUpper(out[3].s), 64))
	case "pubkey":
		out = append(out,
			newFamily(kind, crypto.PubKeyToBech32(ed25519.GenPrivKeyFromSecret([]byte("c45-ed25519")).PubKey()), 200),
			newFamily(kind, crypto.PubKeyToBech32(secp256k1.GenPrivKeySecp256k1([]byte("c45-secp256k1")).PubKey()), 200),
		)
		out = append(out, newFamily(kind, strings.ToUpper(out[0].s), 200))
		if thorough {
			for i := 0; i < 6; i++ {
				out = append(out, newFamily(kind, crypto.PubKeyToBech32(secp256k1.GenPrivKeySecp256k1([]byte(fmt.Sprintf("c45-secp256k1-%d", i))).PubKey()), 200))
			}
		}
	case "generic":
		for _, p := range []string{"g", "gpub", "a", "1", "g1x", "x-_~!", "0", "g9", strings.Repeat("a", 83)} {
			pays := [][]byte{pattern(2, 3)}
			if p == "g" || thorough {
				pays = append(pays, []byte{}, pattern(1, 21))
			}
			for _, d := range pays {
				s, err := bech32.Encode(p, d)
				if err != nil {
					panic(err)
				}
				out = append(out, newFamily(kind, s, 60))
			}
		}
		out = append(out, newFamily(kind, strings.ToUpper(out[0].s), 60))
	}
	return out
}

// probe runs entry e on string s and compares with the reference. what == "" means agreement.
func probe(e *entry, f *family, s string, mustReject bool) (what, detail string, accepted bool) {
	var ok bool
	var hrp string
	var data []byte
	rec := vk.Catch(func() { ok, hrp, data = e.run(f, s) })
	r.Eval()
	if rec != nil {
		return "panic", fmt.Sprint(rec), false
	}
	rh, rd, rok := refDecode(s)
	wok, wdata := e.want(f, rh, rd, rok)
	switch {
	case ok && mustReject:
		return "accepted", fmt.Sprintf("decoded to hrp=%q payload=%x", hrp, data), ok
	case ok && !wok:
		return "accepted-but-reference-rejects", fmt.Sprintf("decoded to hrp=%q payload=%x", hrp, data), ok
	case !ok && wok:
		return "rejected-but-reference-accepts", "", ok
	case ok && ((!e.noHRP && hrp != rh) || (!e.noData && !bytes.Equal(data, wdata))):
		return "decoded-differently", fmt.Sprintf("impl hrp=%q payload=%x reference hrp=%q payload=%x", hrp, data, rh, wdata), ok
	}
	return "", "", ok
}

type histResult struct {
	Kind       string           `json:"kind"`
	Fails      []histFail       `json:"fails"`
	Evals      int64            `json:"evals"`
	Outcomes   map[string]int64 `json:"outcomes"`
	Families   []string         `json:"families"`
	Variants   int              `json:"variants"`
	OtherValid int              `json:"other_valid"`
	Entries    []string         `json:"entries"`
}

type histFail struct {
	Class, Input, Detail string
	N                    int64
}

// runHistoryWorker is the body of a worker subprocess.
// spec = "<kind>:<k>/<n>": the worker enumerates the variants of the families with index = k mod n; the canonical
// strings of the other families of the kind are further "other valid strings" of steps 1, 3 and 4.
func runHistoryWorker(spec string) histResult {
	var k, n int
	kind, is, _ := strings.Cut(spec, ":")
	fmt.Sscanf(is, "%d/%d", &k, &n)
	fams := historyFamilies(kind, r.Thorough())
	for i, f := range fams {
		if n > 0 && i%n == k {
			f.build()
		}
	}
	res := histResult{Kind: kind, Outcomes: map[string]int64{}}
	applies := func(e *entry, s string) bool { return !e.printable || jsonSafe(s) }
	firstValid := map[string]string{} // entry|string -> disagreement ("" = none) of the first decoding in this process

	// step 0: cold. Malformed variants of every family first, the valid spellings last.
	for pass := 0; pass < 2; pass++ {
		for _, f := range fams {
			if pass == 0 {
				f.coldOK = make([][]bool, len(f.vars))
			}
			for vi, v := range f.vars {
				_, _, valid := refDecode(v.s)
				if valid != (pass == 1) {
					continue
				}
				f.coldOK[vi] = make([]bool, len(f.entries))
				for ei, e := range f.entries {
					if !applies(e, v.s) {
						continue
					}
					what, detail, acc := probe(e, f, v.s, v.mustReject)
					f.coldOK[vi][ei] = what == ""
					if valid {
						if _, seen := firstValid[e.name+"|"+v.s]; !seen {
							firstValid[e.name+"|"+v.s] = what
						}
					}
					if what != "" {
						fail("cold:"+e.name+":"+what+":"+v.class, v.s, detail)
					} else if acc {
						res.Outcomes["cold_variant_accepted(reference agrees)"]++
					} else {
						res.Outcomes["cold_variant_rejected(reference agrees)"]++
					}
				}
			}
		}
	}
	// the first decoding of a valid string in this process is judged as such; every later decoding of the same string
	// by the same entry point must give the same result (a different one is history dependence)
	checkValid := func(ctx string, e *entry, f *family, s string) {
		what, detail, _ := probe(e, f, s, false)
		k := e.name + "|" + s
		first, seen := firstValid[k]
		switch {
		case !seen:
			firstValid[k] = what
			if what != "" {
				fail("valid-string:"+e.name+":"+what, s, detail)
			}
		case what != first && what != "":
			fail("history-dependent:"+e.name+":valid-string-"+what, s, detail+" ("+ctx+"; the first decoding of this string in the process agreed with the reference)")
		case what != first:
			fail("history-dependent:"+e.name+":valid-string-verdict-changed", s, "first decoding: "+first+"; "+ctx+": agrees with the reference")
		case what == "":
			res.Outcomes["valid_string_decoded_again_same_result"]++
		}
	}
	valid := func(ctx string, f *family, s string) {
		for _, e := range f.entries {
			checkValid(ctx, e, f, s)
		}
	}
	// step 1
	for _, f := range fams {
		for _, e := range f.entries {
			checkValid("first-decode", e, f, f.s)
			checkValid("second-decode-in-a-row", e, f, f.s)
		}
	}
	for i := range fams {
		valid("forward-order", fams[i], fams[i].s)
	}
	for i := len(fams) - 1; i >= 0; i-- {
		valid("reverse-order", fams[i], fams[i].s)
	}
	for _, f := range fams {
		valid("other-case-spelling", f, strings.ToUpper(f.s))
		valid("after-upper-case-spelling", f, f.s)
		valid("other-case-spelling", f, strings.ToLower(f.s))
		valid("after-lower-case-spelling", f, f.s)
	}
	// step 2 and step 3
	judge := func(ctx string, f *family, vi, ei int) {
		v, e := f.vars[vi], f.entries[ei]
		what, detail, acc := probe(e, f, v.s, v.mustReject)
		switch {
		case what != "" && f.coldOK[vi][ei]:
			fail("history-dependent:"+e.name+":"+what+":"+v.class, v.s, detail+" ("+ctx+"; the same call gave the reference's verdict in the cold process; canonical string "+f.s+")")
		case what != "":
			// already reported as cold:...
		case !f.coldOK[vi][ei]:
			fail("history-dependent:"+e.name+":verdict-changed:"+v.class, v.s, ctx+": agrees with the reference, the cold process did not; canonical string "+f.s)
		case acc:
			res.Outcomes["probe_"+ctx+"_accepted(reference agrees)"]++
		default:
			res.Outcomes["probe_"+ctx+"_rejected(reference agrees)"]++
		}
	}
	for _, f := range fams {
		for vi, v := range f.vars {
			for ei, e := range f.entries {
				if !applies(e, v.s) {
					continue
				}
				checkValid("between-malformed-variants", e, f, f.s)
				judge("right-after-canonical", f, vi, ei)
			}
		}
	}
	for _, f := range fams {
		valid("warm-up", f, f.s)
	}
	for i := len(fams) - 1; i >= 0; i-- {
		f := fams[i]
		for vi, v := range f.vars {
			for ei, e := range f.entries {
				if applies(e, v.s) {
					judge("after-other-valid-strings", f, vi, ei)
				}
			}
		}
	}
	// step 4
	for i := len(fams) - 1; i >= 0; i-- {
		valid("after-all-malformed-variants", fams[i], fams[i].s)
	}

	for _, f := range fams {
		if len(f.vars) > 0 {
			res.Families = append(res.Families, f.s)
			res.Variants += len(f.vars)
		}
	}
	res.OtherValid = len(fams) - 1
	for _, e := range entriesByKind[kind] {
		res.Entries = append(res.Entries, e.name)
	}
	var names []string
	for c := range fails {
		names = append(names, c)
	}
	sort.Strings(names)
	for _, c := range names {
		res.Fails = append(res.Fails, histFail{c, fails[c].input, fails[c].detail, fails[c].n})
	}
	res.Evals = r.Evals()
	return res
}

var historyKinds = []string{"address", "pubkey", "generic"}

// startHistoryWorkers launches the sequential protocol in subprocesses (three per kind, six at a time); the returned
// function joins them and folds their results into this run.
func startHistoryWorkers() (join func() map[string]any) {
	var specs []string
	for _, kind := range historyKinds {
		n := 3 // worker processes per kind
		if r.Thorough() {
			n = 6
		}
		if nf := len(historyFamilies(kind, r.Thorough())); nf < n {
			n = nf
		}
		for k := 0; k < n; k++ {
			specs = append(specs, fmt.Sprintf("%s:%d/%d", kind, k, n))
		}
	}
	results := make([]histResult, len(specs))
	errs := make([]string, len(specs))
	done := make(chan int, len(specs))
	sem := make(chan struct{}, 6)
	for i, spec := range specs {
		go func(i int, spec string) {
			sem <- struct{}{}
			defer func() { <-sem; done <- i }()
			cmd := exec.Command(os.Args[0], "-id", r.ID, "-tier", r.Tier, "-worker", spec)
			cmd.Env = append(os.Environ(), "GOMAXPROCS=1")
			out, err := cmd.CombinedOutput()
			ok := false
			for _, line := range strings.Split(string(out), "\n") {
				if strings.HasPrefix(line, "RESULT ") {
					ok = json.Unmarshal([]byte(line[7:]), &results[i]) == nil
				}
			}
			if !ok {
				o := string(out)
				if len(o) > 1500 {
					o = o[len(o)-1500:]
				}
				errs[i] = fmt.Sprintf("history worker %s failed: %v: %s", spec, err, o)
			}
		}(i, spec)
	}
	return func() map[string]any {
		for range specs {
			<-done
		}
		type kcov struct {
			fams, variants, other int
			evals                 int64
			entries               []string
		}
		per := map[string]*kcov{}
		for i, res := range results {
			if errs[i] != "" {
				r.HarnessError("%s", errs[i])
			}
			r.EvalN(res.Evals)
			var oc []string
			for o := range res.Outcomes {
				oc = append(oc, o)
			}
			sort.Strings(oc)
			for _, o := range oc {
				r.OutcomeN("history:"+o, res.Outcomes[o])
			}
			for _, s := range res.Families {
				r.Distinct("history-family:" + s)
			}
			for _, f := range res.Fails {
				fmu.Lock()
				if old := fails[f.Class]; old == nil {
					fails[f.Class] = &frec{f.Input, f.Detail, f.N}
				} else {
					old.n += f.N
					if len(f.Input) < len(old.input) || (len(f.Input) == len(old.input) && f.Input < old.input) {
						old.input, old.detail = f.Input, f.Detail
					}
				}
				fmu.Unlock()
			}
			k := per[res.Kind]
			if k == nil {
				k = &kcov{}
				per[res.Kind] = k
			}
			k.fams += len(res.Families)
			k.variants += res.Variants
			k.other = res.OtherValid
			k.evals += res.Evals
			k.entries = res.Entries
		}
		cov := map[string]any{"worker_processes": len(specs)}
		for kind, k := range per {
			cov[kind] = map[string]any{"canonical_strings": k.fams, "variants": k.variants, "valid_strings_per_worker": k.other + 1, "entry_points": k.entries, "decodings": k.evals}
		}
		return cov
	}
}
