package main

// The type universe is collected at run time from these amino Package objects (and, recursively, their
// declared dependencies): a type newly registered in one of these packages is picked up without editing the harness.
// A package newly calling amino.RegisterPackage must be added to this list (the Go linker only includes imported packages).

import (
	gnoland "github.com/gnolang/gno/gno.land/pkg/gnoland"
	vm "github.com/gnolang/gno/gno.land/pkg/sdk/vm"
	gnolang "github.com/gnolang/gno/gnovm/pkg/gnolang"
	chain "github.com/gnolang/gno/gnovm/stdlibs/chain"
	"github.com/gnolang/gno/tm2/pkg/amino"
	amtests "github.com/gnolang/gno/tm2/pkg/amino/tests"
	abci "github.com/gnolang/gno/tm2/pkg/bft/abci/types"
	"github.com/gnolang/gno/tm2/pkg/bft/blockchain"
	"github.com/gnolang/gno/tm2/pkg/bft/consensus"
	cstypes "github.com/gnolang/gno/tm2/pkg/bft/consensus/types"
	"github.com/gnolang/gno/tm2/pkg/bft/mempool"
	"github.com/gnolang/gno/tm2/pkg/bft/privval/signer/remote"
	bft "github.com/gnolang/gno/tm2/pkg/bft/types"
	"github.com/gnolang/gno/tm2/pkg/bitarray"
	"github.com/gnolang/gno/tm2/pkg/crypto/ed25519"
	"github.com/gnolang/gno/tm2/pkg/crypto/hd"
	"github.com/gnolang/gno/tm2/pkg/crypto/keys"
	"github.com/gnolang/gno/tm2/pkg/crypto/merkle"
	"github.com/gnolang/gno/tm2/pkg/crypto/mock"
	"github.com/gnolang/gno/tm2/pkg/crypto/multisig"
	"github.com/gnolang/gno/tm2/pkg/crypto/secp256k1"
	"github.com/gnolang/gno/tm2/pkg/p2p/conn"
	"github.com/gnolang/gno/tm2/pkg/p2p/discovery"
	"github.com/gnolang/gno/tm2/pkg/sdk"
	"github.com/gnolang/gno/tm2/pkg/sdk/auth"
	"github.com/gnolang/gno/tm2/pkg/sdk/bank"
	"github.com/gnolang/gno/tm2/pkg/sdk/params"
	"github.com/gnolang/gno/tm2/pkg/sdk/testutils"
	"github.com/gnolang/gno/tm2/pkg/std"
)

// production packages: every amino.RegisterPackage call site in tm2, gnovm and gno.land (non-main, non-test packages).
var prodPackages = []*amino.Package{
	gnoland.Package, vm.Package,
	gnolang.Package, chain.Package,
	abci.Package, blockchain.Package, consensus.Package, cstypes.Package, mempool.Package, remote.Package, bft.Package,
	bitarray.Package, ed25519.Package, hd.Package, keys.Package, merkle.Package, mock.Package, multisig.Package,
	secp256k1.Package, conn.Package, discovery.Package, sdk.Package, auth.Package, bank.Package, params.Package,
	testutils.Package, std.Package,
}

// extra: amino's own fixture package (not globally registered; shapes written to stress the two codecs).
var extraPackages = []*amino.Package{amtests.Package}
