package main

// Oracles. Everything here runs inside a worker subprocess (memory-capped); every codec call runs under recover.

import (
	"bytes"
	"encoding/hex"
	"fmt"
	"hash/fnv"
	"os"
	"reflect"
	"regexp"
	"runtime/debug"
	"sort"
	"strings"
	"time"
	"unicode/utf8"

	"github.com/gnolang/gno/tm2/pkg/amino"
)

type viol struct {
	Class  string `json:"class"`
	Sig    string `json:"sig"` // normalised cause (error text without numbers/hex/quoted strings/type names)
	Type   string `json:"type"`
	Input  string `json:"input"`           // witness: hex of the input bytes (byte string fed to the decoders / canonical encoding of the offending value); "value(<description>)" only when the value has no encoding at all
	Len    int    `json:"len"`             // number of input bytes (description length when Desc)
	Desc   bool   `json:"desc,omitempty"`  // Input is a value description, not bytes (ordered after all byte witnesses)
	Value  string `json:"value,omitempty"` // value description for value-level checks
	Detail string `json:"detail"`
}

// less is the witness order: byte witnesses before descriptions, shorter input first, then type name, then input.
// The smallest witness of a (class, cause) pair is part of the violation key.
func (v *viol) less(w *viol) bool {
	if v.Desc != w.Desc {
		return !v.Desc
	}
	if v.Len != w.Len {
		return v.Len < w.Len
	}
	if v.Type != w.Type {
		return v.Type < w.Type
	}
	return v.Input < w.Input
}

type result struct {
	Op        string              `json:"op"`
	Type      int                 `json:"type"`
	Evals     int64               `json:"evals"`
	Decodes   int64               `json:"decodes"`
	Values    int                 `json:"values"`         // generated values (plan) / values checked (values)
	Distinct  int                 `json:"distinct"`       // distinct valid encodings
	EncH      []uint64            `json:"ench,omitempty"` // their 64-bit hashes (parent: exact count of distinct (type, encoding) pairs across tasks and phases)
	Weight    int64               `json:"weight"`
	Strings   int64               `json:"strings"` // distinct byte strings tried
	Outcomes  map[string]int64    `json:"outcomes"`
	Viols     []viol              `json:"viols"`
	Samples   []any               `json:"samples,omitempty"`
	Err       string              `json:"err,omitempty"`
	StructDif []string            `json:"structdif,omitempty"`
	Notes     map[string][]string `json:"notes,omitempty"` // informational: examples per non-violation class
	// depth-guard ladders (ladder.go)
	Ladders     int64 `json:"ladders,omitempty"`      // rungs checked
	LadderPaths int   `json:"ladder_paths,omitempty"` // (type, interface location) pairs with a ladder
	HandChecked int64 `json:"hand_checked,omitempty"` // rungs whose hand-made encoding was compared with the encoders' output
}

type checker struct {
	cdc   *amino.Codec
	g     *gen
	reg   regType
	res   *result
	vmap  map[string]*viol // class -> smallest
	trace *os.File
	// ladder mode: violations carry this witness (a description) instead of the input bytes
	witness    string
	witnessLen int
}

func (c *checker) out(class string) { c.res.Outcomes[class]++ }

func (c *checker) violation(class, input string, ilen int, detail string) {
	if c.witness != "" {
		// one cause per defect: the wrappers the reflect decoder adds per list level on the way out are dropped
		detail = strings.ReplaceAll(detail, "error reading slice contents: ", "")
		detail = strings.ReplaceAll(detail, "error reading array contents: ", "")
		c.record(&viol{Class: class, Type: c.reg.name, Input: c.witness, Len: c.witnessLen, Desc: true, Detail: detail})
		return
	}
	c.record(&viol{Class: class, Type: c.reg.name, Input: input, Len: ilen, Detail: detail})
}

// vviolation reports a value-level violation; the witness is the canonical encoding of the value when it has one.
func (c *checker) vviolation(class string, m mv, enc []byte, detail string) {
	if enc != nil {
		c.record(&viol{Class: class, Type: c.reg.name, Input: hx(enc), Len: len(enc), Value: m.d, Detail: detail})
		return
	}
	c.record(&viol{Class: class, Type: c.reg.name, Input: "value(" + m.d + ")", Len: len(m.d), Desc: true, Value: m.d, Detail: detail})
}

func (c *checker) record(n *viol) {
	c.out("VIOLATION:" + n.Class)
	n.Sig = signature(n.Detail)
	k := n.Class + "|" + n.Sig
	if v := c.vmap[k]; v == nil || n.less(v) {
		if len(n.Detail) > 600 {
			n.Detail = n.Detail[:600] + "…"
		}
		c.vmap[k] = n
	}
}

// rtCause: cause tag of a round-trip value difference (none when the re-encoding itself failed: the error is the cause).
func (c *checker) rtCause(re callRes, orig, back reflect.Value) string {
	if re.failed() {
		return ""
	}
	return c.valueCause("value differs after round trip", orig.Elem(), back.Elem())
}

// valueCause names what differs between two values that should be equal: the leaf of the first amino-relevant
// difference, without the path, so that one defect seen through many holder types is one cause.
func (c *checker) valueCause(what string, a, b reflect.Value) string {
	d := "?"
	if rec := catch(func() { d = c.aminoDiff(a, b, 0) }); rec != nil {
		d = "diff panics"
	}
	return "[[" + what + ": " + d + "]] "
}

func catch(f func()) (rec any) {
	defer func() { rec = recover() }()
	f()
	return nil
}

// encAny: concrete type + canonical amino bytes of an arbitrary (sub)value (pointers and interfaces stripped, a nil
// pointer standing for the zero value), or the failure text without the stack.
func (c *checker) encAny(v reflect.Value) string {
	v, ok := derefAll(v)
	if !ok {
		return "nil interface"
	}
	r := guard(func() ([]byte, error) {
		p := reflect.New(v.Type())
		p.Elem().Set(v)
		return c.cdc.MarshalReflect(p.Interface())
	})
	if r.failed() {
		w := r.why()
		if i := strings.Index(w, " @ "); i >= 0 {
			w = w[:i]
		}
		return v.Type().String() + "!" + w
	}
	return v.Type().String() + "=" + string(r.bz)
}

// derefAll strips interfaces and pointers; a nil pointer stands for the zero value of its element type (amino encodes
// both alike); ok=false for a nil interface.
func derefAll(v reflect.Value) (reflect.Value, bool) {
	for {
		switch v.Kind() {
		case reflect.Interface:
			if v.IsNil() {
				return v, false
			}
			v = v.Elem()
		case reflect.Pointer:
			if v.IsNil() {
				v = reflect.Zero(v.Type().Elem())
			} else {
				v = v.Elem()
			}
		default:
			return v, true
		}
	}
}

// aminoDiff descends into the first component whose amino encoding differs (so differences amino does not see --
// nil vs empty, *T vs T inside an interface, unexported state -- are never reported) and describes the leaf.
func (c *checker) aminoDiff(a, b reflect.Value, depth int) string {
	if depth > 40 {
		return "too deep"
	}
	a, aok := derefAll(a)
	b, bok := derefAll(b)
	if !aok || !bok {
		if aok == bok {
			return "nil interfaces"
		}
		return "nil interface vs non-nil"
	}
	if a.Type() != b.Type() {
		return fmt.Sprintf("concrete type %v vs %v", a.Type(), b.Type())
	}
	rt := a.Type()
	if rt == timeType {
		return "time differs"
	}
	var info *amino.TypeInfo
	catch(func() { info, _ = c.cdc.GetTypeInfo(rt) })
	if info != nil && info.IsAminoMarshaler {
		repr := func(v reflect.Value) (reflect.Value, bool) {
			p := reflect.New(rt)
			p.Elem().Set(v)
			outs := p.MethodByName("MarshalAmino").Call(nil)
			return outs[0], outs[1].IsNil()
		}
		ra, oka := repr(a)
		rb, okb := repr(b)
		if !oka || !okb {
			return "MarshalAmino fails"
		}
		return c.aminoDiff(ra, rb, depth+1)
	}
	switch rt.Kind() {
	case reflect.Struct:
		if info == nil {
			return "struct differs"
		}
		for _, f := range info.Fields {
			fa, fb := a.Field(f.Index), b.Field(f.Index)
			if c.encAny(fa) != c.encAny(fb) {
				return c.aminoDiff(fa, fb, depth+1)
			}
		}
		return "struct differs only as a whole"
	case reflect.Slice, reflect.Array:
		if rt.Elem().Kind() == reflect.Uint8 {
			return "bytes differ"
		}
		if a.Len() != b.Len() {
			return fmt.Sprintf("list length %d vs %d", a.Len(), b.Len())
		}
		for i := 0; i < a.Len(); i++ {
			if c.encAny(a.Index(i)) != c.encAny(b.Index(i)) {
				return c.aminoDiff(a.Index(i), b.Index(i), depth+1)
			}
		}
		return "list differs only as a whole"
	case reflect.String:
		if va, vb := utf8.ValidString(a.String()), utf8.ValidString(b.String()); va != vb {
			return "string differs: malformed unicode on one side"
		}
		return "string differs"
	case reflect.Bool:
		return "bool differs"
	case reflect.Float32, reflect.Float64:
		return "float differs"
	default:
		return rt.Kind().String() + " differs"
	}
}

func (c *checker) note(class, s string) {
	if c.res.Notes == nil {
		c.res.Notes = map[string][]string{}
	}
	if len(c.res.Notes[class]) < 2 {
		if len(s) > 400 {
			s = s[:400]
		}
		c.res.Notes[class] = append(c.res.Notes[class], c.reg.name+" "+s)
	}
}

var (
	reCause  = regexp.MustCompile(`(?s)failed after \d+ bytes \((.*)\): [0-9A-F]*$`)
	reQuoted = regexp.MustCompile(`"[^"]*"`)
	reType   = regexp.MustCompile(`\*?\b[a-z][a-z0-9]*\.[A-Za-z_][A-Za-z0-9_]*`)
	reHex    = regexp.MustCompile(`\b[0-9a-fA-F]{6,}\b`)
	reNum    = regexp.MustCompile(`\d+`)
	reErr    = regexp.MustCompile(`(?s)(error: |PANIC: )(.*)$`)
)

// signature normalises the cause of a violation so that the same defect hitting many types/inputs gets one key.
func signature(detail string) string {
	d := detail
	if strings.HasPrefix(d, "[[") { // explicit cause given by the oracle
		if i := strings.Index(d, "]] "); i >= 0 {
			d = d[2:i]
			d = reQuoted.ReplaceAllString(d, "Q")
			d = reType.ReplaceAllString(d, "T")
			d = reNum.ReplaceAllString(d, "N")
			return strings.Join(strings.Fields(d), " ")
		}
	}
	if m := reErr.FindStringSubmatch(d); m != nil {
		d = m[1] + m[2]
	} else if strings.Contains(d, "bytes=") || strings.Contains(d, "-decoded=") || strings.Contains(d, "reflect=") {
		return "" // pure value/bytes difference, no error text
	}
	if i := strings.Index(d, " @ "); i >= 0 { // drop stack
		d = d[:i]
	}
	if m := reCause.FindStringSubmatch(d); m != nil {
		d = m[1]
	}
	d = reQuoted.ReplaceAllString(d, "Q")
	d = reType.ReplaceAllString(d, "T")
	d = reHex.ReplaceAllString(d, "H")
	d = reNum.ReplaceAllString(d, "N")
	d = strings.Join(strings.Fields(d), " ")
	if len(d) > 100 {
		d = d[:100]
	}
	return d
}

func (c *checker) finish() {
	var keys []string
	for k := range c.vmap {
		keys = append(keys, k)
	}
	sort.Strings(keys)
	for _, k := range keys {
		c.res.Viols = append(c.res.Viols, *c.vmap[k])
	}
}

type callRes struct {
	bz  []byte
	err error
	pan string
}

func (r callRes) failed() bool { return r.err != nil || r.pan != "" }
func (r callRes) why() string {
	if r.pan != "" {
		return "PANIC: " + r.pan
	}
	if r.err != nil {
		return "error: " + r.err.Error()
	}
	return "ok"
}

func guard(f func() ([]byte, error)) (r callRes) {
	defer func() {
		if x := recover(); x != nil {
			st := string(debug.Stack())
			// keep the frames below the panic
			if i := strings.Index(st, "panic("); i >= 0 {
				st = st[i:]
			}
			if len(st) > 700 {
				st = st[:700]
			}
			r.pan = fmt.Sprint(x) + " @ " + st
		}
	}()
	r.bz, r.err = f()
	return
}

func (c *checker) encR(p reflect.Value) callRes {
	return guard(func() ([]byte, error) { return c.cdc.MarshalReflect(p.Interface()) })
}

func (c *checker) encG(p reflect.Value) callRes {
	return guard(func() ([]byte, error) {
		return c.cdc.MarshalBinary2(p.Elem().Interface().(amino.PBMarshaler2))
	})
}

func (c *checker) sizeG(p reflect.Value) (n int, r callRes) {
	r = guard(func() ([]byte, error) {
		var err error
		n, err = p.Elem().Interface().(amino.PBMarshaler2).SizeBinary2(c.cdc)
		return nil, err
	})
	return
}

func (c *checker) decR(bs []byte) (reflect.Value, callRes) {
	p := reflect.New(c.reg.rt)
	in := append([]byte(nil), bs...)
	r := guard(func() ([]byte, error) { return nil, c.cdc.UnmarshalReflect(in, p.Interface()) })
	if !bytes.Equal(in, bs) {
		c.violation("decoder-mutated-input/reflect", hex.EncodeToString(bs), len(bs), "")
	}
	c.res.Decodes++
	return p, r
}

func (c *checker) decG(bs []byte) (reflect.Value, callRes) {
	p := reflect.New(c.reg.rt)
	in := append([]byte(nil), bs...)
	r := guard(func() ([]byte, error) { return nil, p.Interface().(amino.PBMessager2).UnmarshalBinary2(c.cdc, in, 0) })
	if !bytes.Equal(in, bs) {
		c.violation("decoder-mutated-input/genproto2", hex.EncodeToString(bs), len(bs), "")
	}
	c.res.Decodes++
	return p, r
}

func hx(b []byte) string { return hex.EncodeToString(b) }

var crashOn = os.Getenv("C20_CRASH_ON")

func (c *checker) traceCase(kind, s string) {
	if c.trace != nil {
		rec := fmt.Sprintf("%s|%s|%s", kind, c.reg.name, s)
		if len(rec) > 4000 {
			rec = rec[:4000]
		}
		rec += strings.Repeat(" ", 4096-len(rec))
		c.trace.WriteAt([]byte(rec), 0)
	}
}

// checkValue: encoder parity, size, both decoders round-trip (amino.DeepEqual semantics = equal canonical bytes),
// JSON round-trip. Returns the canonical encoding (ok=false if the value is not encodable).
func (c *checker) checkValue(m mv) (enc []byte, ok bool) {
	c.res.Evals++
	c.traceCase("value", m.d)
	p := reflect.New(c.reg.rt)
	p.Elem().Set(m.v)
	eR := c.encR(p)
	if !eR.failed() && eR.bz == nil {
		eR.bz = []byte{} // an empty encoding is still an encoding (witness of value-level violations)
	}
	if c.reg.native {
		eG := c.encG(p)
		if !eG.failed() && eG.bz == nil {
			eG.bz = []byte{}
		}
		if eR.failed() != eG.failed() {
			good := eR.bz // the encoding produced by the encoder that did not fail
			if eR.failed() {
				good = eG.bz
			}
			if good == nil {
				good = []byte{}
			}
			c.vviolation("encoders-disagree-on-failure", m, good, "reflect: "+eR.why()+" | genproto2: "+eG.why())
			return nil, false
		}
		if eR.failed() {
			if eR.pan != "" || eG.pan != "" {
				c.out("value_unencodable_panic_both")
				c.note("value_unencodable_panic_both", m.d+": reflect "+eR.why()+" | genproto2 "+eG.why())
			} else {
				c.out("value_unencodable_both")
				c.note("value_unencodable_both", m.d+": reflect "+eR.why()+" | genproto2 "+eG.why())
			}
			return nil, false
		}
		if !bytes.Equal(eR.bz, eG.bz) {
			c.vviolation("encoder-bytes-differ", m, eR.bz, "reflect="+hx(eR.bz)+" genproto2="+hx(eG.bz))
			return nil, false
		}
		n, sr := c.sizeG(p)
		if sr.failed() || n != len(eG.bz) {
			c.vviolation("size-mismatch", m, eG.bz, fmt.Sprintf("SizeBinary2=%d (%s) len=%d bytes=%s", n, sr.why(), len(eG.bz), hx(eG.bz)))
		}
	} else if eR.failed() {
		c.out("value_unencodable_reflect_only")
		c.note("value_unencodable_reflect_only", m.d+": "+eR.why())
		return nil, false
	}
	enc = eR.bz
	// decode with both
	dR, rR := c.decR(enc)
	if rR.failed() && rR.pan == "" && c.reprBroken(p.Elem(), 0) {
		// the value holds an AminoMarshaler whose own MarshalAmino output is rejected by its UnmarshalAmino
		// (e.g. Coins{{},{}}, a nil *big.Int): outside the type's domain, not a codec disagreement.
		c.out("value_outside_domain(repr not re-parseable)")
		c.note("value_outside_domain", m.d+": "+rR.why())
		return enc, false
	}
	if rR.failed() && rR.pan == "" && strings.Contains(rR.err.Error(), "is not assignable to interface") {
		// encode-only form (only the non-preferred *T/T form of a registered type implements the interface):
		// both decoders must reject alike.
		if c.reg.native {
			if _, rG := c.decG(enc); !rG.failed() || rG.pan != "" || !strings.Contains(rG.err.Error(), "is not assignable to") {
				c.vviolation("encode-only-form/decoders-disagree", m, enc, "bytes="+hx(enc)+" reflect "+rR.why()+" | genproto2 "+rG.why())
				return enc, true
			}
		}
		c.out("value_encode_only_form(both decoders reject: not assignable)")
		return enc, true
	}
	if rR.failed() {
		c.vviolation("roundtrip-decode-fails/reflect", m, enc, "bytes="+hx(enc)+" "+rR.why())
		return enc, true
	}
	re := c.encR(dR)
	if re.failed() || !bytes.Equal(re.bz, enc) {
		c.vviolation("roundtrip-value-differs/reflect", m, enc, c.rtCause(re, p, dR)+"bytes="+hx(enc)+" reencoded="+hx(re.bz)+" "+re.why())
	}
	if c.reg.native {
		dG, rG := c.decG(enc)
		if rG.failed() {
			c.vviolation("roundtrip-decode-fails/genproto2", m, enc, "bytes="+hx(enc)+" "+rG.why())
			return enc, true
		}
		re := c.encR(dG)
		if re.failed() || !bytes.Equal(re.bz, enc) {
			c.vviolation("roundtrip-value-differs/genproto2", m, enc, c.rtCause(re, p, dG)+"bytes="+hx(enc)+" reencoded="+hx(re.bz)+" "+re.why())
		}
		if d := structDiff(dR.Elem(), dG.Elem(), c.reg.rt.Name(), 0); d != "" {
			c.out("decoders_structurally_differ(amino-equal)")
			if len(c.res.StructDif) < 3 {
				c.res.StructDif = append(c.res.StructDif, c.reg.name+" "+m.d+": "+d)
			}
		}
	}
	// JSON
	js := guard(func() ([]byte, error) { return c.cdc.JSONMarshal(p.Elem().Interface()) })
	if js.failed() {
		if js.pan != "" {
			c.vviolation("json-encode-panics", m, enc, js.why())
		} else {
			c.vviolation("json-encode-fails", m, enc, js.why())
		}
		return enc, true
	}
	q := reflect.New(c.reg.rt)
	jd := guard(func() ([]byte, error) { return nil, c.cdc.JSONUnmarshal(js.bz, q.Interface()) })
	if jd.failed() {
		cl := "json-roundtrip-decode-fails"
		if jd.pan != "" {
			cl = "json-decode-panics"
		}
		c.vviolation(cl, m, enc, "json="+string(js.bz)+" "+jd.why())
		return enc, true
	}
	rj := c.encR(q)
	if rj.failed() || !bytes.Equal(rj.bz, enc) {
		c.vviolation("json-roundtrip-value-differs", m, enc, c.rtCause(rj, p, q)+"json="+string(js.bz)+" binary="+hx(enc)+" after="+hx(rj.bz)+" "+rj.why())
		return enc, true
	}
	c.out("value_ok")
	return enc, true
}

// checkBytes: both decoders agree on accept/reject and on the value; no panic; the accepted value re-encodes to bytes
// that decode to the same value (with both codecs).
func (c *checker) checkBytes(bs []byte) {
	c.res.Evals++
	if c.trace != nil {
		c.traceCase("bytes", hx(bs))
	}
	if crashOn != "" && crashOn == c.reg.name+":"+hx(bs) {
		// self-test of the isolation (C20_CRASH_ON=type:hex): exhaust memory like a runaway decoder would.
		var hog [][]byte
		for {
			hog = append(hog, make([]byte, 1<<30))
			hog[len(hog)-1][0] = 1
		}
	}
	dR, rR := c.decR(bs)
	if rR.pan != "" {
		c.violation("decode-panics/reflect", hx(bs), len(bs), rR.pan)
	}
	var dG reflect.Value
	var rG callRes
	if c.reg.native {
		dG, rG = c.decG(bs)
		if rG.pan != "" {
			c.violation("decode-panics/genproto2", hx(bs), len(bs), rG.pan)
		}
		if rR.pan != "" || rG.pan != "" {
			return
		}
		if rR.failed() != rG.failed() {
			if rR.failed() {
				c.violation("accept-disagree/genproto2-accepts-reflect-rejects", hx(bs), len(bs), "reflect "+rR.why())
			} else {
				c.violation("accept-disagree/reflect-accepts-genproto2-rejects", hx(bs), len(bs), "genproto2 "+rG.why())
			}
			return
		}
	} else if rR.pan != "" {
		return
	}
	if rR.failed() {
		c.out("bytes_rejected")
		return
	}
	// accepted: canonical re-encoding
	e1 := c.encR(dR)
	if e1.failed() {
		c.violation("accepted-value-unencodable/reflect", hx(bs), len(bs), e1.why())
		return
	}
	if c.reg.native {
		e2 := c.encR(dG)
		if e2.failed() || !bytes.Equal(e1.bz, e2.bz) {
			cause := ""
			if !e2.failed() {
				cause = c.valueCause("decoders disagree on value", dR.Elem(), dG.Elem())
			}
			c.violation("decoders-disagree-on-value", hx(bs), len(bs), cause+"reflect-decoded="+hx(e1.bz)+" genproto2-decoded="+hx(e2.bz)+" "+e2.why())
			return
		}
		// encoder parity on the decoded values too (values reachable only through decoding)
		g1 := c.encG(dG)
		if g1.failed() || !bytes.Equal(g1.bz, e1.bz) {
			c.violation("encoder-bytes-differ-on-decoded-value", hx(bs), len(bs), "reflect="+hx(e1.bz)+" genproto2="+hx(g1.bz)+" "+g1.why())
			return
		}
		if d := structDiff(dR.Elem(), dG.Elem(), c.reg.rt.Name(), 0); d != "" {
			c.out("decoders_structurally_differ(amino-equal)")
			if len(c.res.StructDif) < 3 {
				c.res.StructDif = append(c.res.StructDif, c.reg.name+" "+hx(bs)+": "+d)
			}
		}
	}
	if !bytes.Equal(e1.bz, bs) {
		// non-canonical accepted input: the re-encoding must decode to the same value
		d2, r2 := c.decR(e1.bz)
		if r2.failed() {
			c.violation("reencoding-rejected/reflect", hx(bs), len(bs), "reencoded="+hx(e1.bz)+" "+r2.why())
			return
		}
		e3 := c.encR(d2)
		if e3.failed() || !bytes.Equal(e3.bz, e1.bz) {
			c.violation("reencoding-unstable/reflect", hx(bs), len(bs), "reencoded="+hx(e1.bz)+" again="+hx(e3.bz))
			return
		}
		if c.reg.native {
			d3, r3 := c.decG(e1.bz)
			if r3.failed() {
				c.violation("reencoding-rejected/genproto2", hx(bs), len(bs), "reencoded="+hx(e1.bz)+" "+r3.why())
				return
			}
			e4 := c.encR(d3)
			if e4.failed() || !bytes.Equal(e4.bz, e1.bz) {
				c.violation("reencoding-unstable/genproto2", hx(bs), len(bs), "reencoded="+hx(e1.bz)+" again="+hx(e4.bz))
				return
			}
		}
		c.out("bytes_accepted_noncanonical")
		return
	}
	c.out("bytes_accepted_canonical")
}

func h64(b []byte) uint64 {
	h := fnv.New64a()
	h.Write(b)
	return h.Sum64()
}

// mutations of a valid encoding: every truncation, every single-byte substitution from {0x00,0xff,^b,b+1,b-1},
// every rotation, and the self-concatenation.
// Inside a run of >= 8 equal bytes (string padding) only the first two and last two positions are used.
func mutate(enc []byte, emit func([]byte)) {
	skip := make([]bool, len(enc)+1)
	for i := 0; i < len(enc); {
		j := i
		for j < len(enc) && enc[j] == enc[i] {
			j++
		}
		if j-i >= 8 {
			for k := i + 2; k < j-2; k++ {
				skip[k] = true
			}
		}
		i = j
	}
	for i := 0; i < len(enc); i++ {
		if !skip[i] {
			emit(enc[:i])
		}
	}
	buf := make([]byte, len(enc))
	for i := 0; i < len(enc); i++ {
		if skip[i] {
			continue
		}
		b := enc[i]
		for _, nb := range [5]byte{0x00, 0xff, ^b, b + 1, b - 1} {
			if nb == b {
				continue
			}
			copy(buf, enc)
			buf[i] = nb
			emit(buf)
		}
	}
	// every rotation enc[i:]+enc[:i] (a split on a field boundary permutes the field order: out-of-order and
	// repeated-field inputs) and the self-concatenation enc+enc (every field repeated).
	for i := 1; i < len(enc); i++ {
		if skip[i] {
			continue
		}
		copy(buf, enc[i:])
		copy(buf[len(enc)-i:], enc[:i])
		emit(buf)
	}
	if len(enc) > 0 && len(enc) <= 64 {
		emit(append(append(make([]byte, 0, 2*len(enc)), enc...), enc...))
	}
}

// structDiff: structural comparison of two decoded values over amino-visible (exported) fields; nil and empty
// slices are considered equal. Informational only (amino.DeepEqual = canonical bytes decides).
func structDiff(a, b reflect.Value, path string, depth int) string {
	if depth > 40 {
		return ""
	}
	if a.Type() != b.Type() {
		return fmt.Sprintf("%s: type %v vs %v", path, a.Type(), b.Type())
	}
	switch a.Kind() {
	case reflect.Pointer, reflect.Interface:
		if a.IsNil() != b.IsNil() {
			return fmt.Sprintf("%s: nil=%v vs nil=%v", path, a.IsNil(), b.IsNil())
		}
		if a.IsNil() {
			return ""
		}
		return structDiff(a.Elem(), b.Elem(), path, depth+1)
	case reflect.Struct:
		if a.Type() == timeType {
			if a.CanInterface() && b.CanInterface() && !a.Interface().(time.Time).Equal(b.Interface().(time.Time)) {
				return path + ": time differs"
			}
			return ""
		}
		for i := 0; i < a.NumField(); i++ {
			f := a.Type().Field(i)
			if f.PkgPath != "" {
				continue
			}
			if d := structDiff(a.Field(i), b.Field(i), path+"."+f.Name, depth+1); d != "" {
				return d
			}
		}
		return ""
	case reflect.Slice:
		if a.Len() != b.Len() {
			return fmt.Sprintf("%s: len %d vs %d", path, a.Len(), b.Len())
		}
		for i := 0; i < a.Len(); i++ {
			if d := structDiff(a.Index(i), b.Index(i), fmt.Sprintf("%s[%d]", path, i), depth+1); d != "" {
				return d
			}
		}
		return ""
	case reflect.Array:
		for i := 0; i < a.Len(); i++ {
			if d := structDiff(a.Index(i), b.Index(i), fmt.Sprintf("%s[%d]", path, i), depth+1); d != "" {
				return d
			}
		}
		return ""
	case reflect.Bool:
		if a.Bool() != b.Bool() {
			return path + ": bool differs"
		}
	case reflect.Int, reflect.Int8, reflect.Int16, reflect.Int32, reflect.Int64:
		if a.Int() != b.Int() {
			return fmt.Sprintf("%s: %d vs %d", path, a.Int(), b.Int())
		}
	case reflect.Uint, reflect.Uint8, reflect.Uint16, reflect.Uint32, reflect.Uint64, reflect.Uintptr:
		if a.Uint() != b.Uint() {
			return fmt.Sprintf("%s: %d vs %d", path, a.Uint(), b.Uint())
		}
	case reflect.String:
		if a.String() != b.String() {
			return fmt.Sprintf("%s: %q vs %q", path, a.String(), b.String())
		}
	case reflect.Float32, reflect.Float64:
		if a.Float() != b.Float() && !(a.Float() != a.Float() && b.Float() != b.Float()) {
			return path + ": float differs"
		}
	}
	return ""
}

// reprBroken reports whether v contains (through amino-visible fields) an AminoMarshaler value whose MarshalAmino
// output is not accepted by its own UnmarshalAmino.
func (c *checker) reprBroken(v reflect.Value, depth int) (broken bool) {
	if depth > 12 || !v.IsValid() {
		return false
	}
	defer func() {
		if recover() != nil {
			broken = true
		}
	}()
	switch v.Kind() {
	case reflect.Pointer, reflect.Interface:
		if v.IsNil() {
			return false
		}
		return c.reprBroken(v.Elem(), depth+1)
	}
	info := c.g.info(v.Type())
	if info == nil {
		return false
	}
	if info.IsAminoMarshaler {
		a := reflect.New(v.Type())
		a.Elem().Set(v)
		outs := a.MethodByName("MarshalAmino").Call(nil)
		if !outs[1].IsNil() {
			return true
		}
		b := reflect.New(v.Type())
		res := b.MethodByName("UnmarshalAmino").Call([]reflect.Value{outs[0]})
		if !res[0].IsNil() {
			return true
		}
		return c.reprBroken(outs[0], depth+1)
	}
	switch v.Kind() {
	case reflect.Struct:
		for _, f := range info.Fields {
			if c.reprBroken(v.Field(f.Index), depth+1) {
				return true
			}
		}
	case reflect.Slice, reflect.Array:
		if v.Type().Elem().Kind() == reflect.Uint8 {
			return false
		}
		for i := 0; i < v.Len(); i++ {
			if c.reprBroken(v.Index(i), depth+1) {
				return true
			}
		}
	}
	return false
}
