package main

// Boundary ladders for the depth guards of the codec (tm2/pkg/amino: maxAnyDepth, checked by the reflect binary
// decoder, by the genproto2 Any decoder and by the JSON decoder; no other depth/size limit constant exists in the
// package — the time/duration range limits are covered by the value menus).
//
// For every registered type T and every interface-typed location p reachable inside a T value without crossing another
// interface (struct fields, pointers, first element of slices/arrays): a chain of w nested Any values is hung at p, for
// every w in the ladder {1..4, 61..69} (plus +-3 around the depth at which the reflect decoder starts rejecting, found
// at run time, so a changed limit moves the ladder with it; thorough/extended phase: every w up to limit+6).
// The chain is made of T itself at p on every level when T can nest itself through p (self-nesting), otherwise of the
// first registered implementer that can nest without bound (it continues through its own first self-nesting location).
// The innermost value is (a) all-default (its Any envelope carries a type URL and no Value) and (b) non-default (first
// menu value with a non-empty encoding).  Oracle at every rung: both encoders produce the same bytes and size; both
// binary decoders agree on accept/reject and on the value (checkBytes); an accepted chain re-encodes to the same bytes;
// an accepted chain round-trips through JSON; nothing panics.  Chains the decoders reject alike are outside the domain
// (the encoders have no depth limit) and are counted as ladder_rejected_by_both.
//
// Witness naming: ladder violations carry the witness "ladder(<location>;depth=<w>;inner=<default|nondefault>)" instead
// of the (several KB long) byte string; they order after all byte-string witnesses, then by depth, type and location, so
// keys of defects that also have a byte-string witness do not change.

import (
	"bytes"
	"encoding/binary"
	"fmt"
	"reflect"
	"sort"
	"strconv"
	"strings"
)

type ifPath struct {
	desc string
	it   reflect.Type                           // the interface type at the location
	set  func(root, x reflect.Value)            // root: addressable struct value of the holder type
	get  func(root reflect.Value) reflect.Value // addressable interface location (allocating pointers / 1-element slices on the way)
}

// ifacePaths: every interface-typed location inside a value of rt that is reachable without crossing an interface.
func (g *gen) ifacePaths(rt reflect.Type) []ifPath {
	if c, ok := g.paths[rt]; ok {
		return c
	}
	var out []ifPath
	g.walkPaths(rt, "", func(root reflect.Value) reflect.Value { return root }, 0, map[reflect.Type]bool{}, &out)
	if g.paths == nil {
		g.paths = map[reflect.Type][]ifPath{}
	}
	g.paths[rt] = out
	return out
}

func (g *gen) walkPaths(rt reflect.Type, desc string, get func(reflect.Value) reflect.Value, structs int, onPath map[reflect.Type]bool, out *[]ifPath) {
	switch rt.Kind() {
	case reflect.Interface:
		*out = append(*out, ifPath{desc: desc, it: rt, get: get, set: func(root, x reflect.Value) { get(root).Set(x) }})
	case reflect.Pointer:
		et := rt.Elem()
		if et.Kind() == reflect.Pointer {
			return
		}
		g.walkPaths(et, desc, func(root reflect.Value) reflect.Value {
			loc := get(root)
			if loc.IsNil() {
				loc.Set(reflect.New(et))
			}
			return loc.Elem()
		}, structs, onPath, out)
	case reflect.Slice:
		if rt.Elem().Kind() == reflect.Uint8 {
			return
		}
		g.walkPaths(rt.Elem(), desc+"[0]", func(root reflect.Value) reflect.Value {
			loc := get(root)
			if loc.Len() == 0 {
				loc.Set(reflect.MakeSlice(rt, 1, 1))
			}
			return loc.Index(0)
		}, structs, onPath, out)
	case reflect.Array:
		if rt.Elem().Kind() == reflect.Uint8 || rt.Len() == 0 {
			return
		}
		g.walkPaths(rt.Elem(), desc+"[0]", func(root reflect.Value) reflect.Value { return get(root).Index(0) }, structs, onPath, out)
	case reflect.Struct:
		if rt == timeType || onPath[rt] || structs >= 3 {
			return
		}
		info := g.info(rt)
		if info == nil || info.IsAminoMarshaler {
			return
		}
		onPath[rt] = true
		for _, f := range info.Fields {
			idx := f.Index
			g.walkPaths(f.Type, desc+"."+f.Name, func(root reflect.Value) reflect.Value { return get(root).Field(idx) }, structs+1, onPath, out)
		}
		delete(onPath, rt)
	}
}

// ladderHolder: registered types whose values can hold interface values directly (not through a repr type).
func ladderHolder(g *gen, rt reflect.Type) bool {
	switch rt.Kind() {
	case reflect.Struct, reflect.Slice, reflect.Array:
		info := g.info(rt)
		return info != nil && !info.IsAminoMarshaler
	}
	return false
}

// pref: the form (T or *T) amino decodes a registered type to.
func pref(r regType) reflect.Type {
	if r.ptr {
		return reflect.PointerTo(r.rt)
	}
	return r.rt
}

type ladderGraph struct {
	unbounded map[reflect.Type]bool // registered types (by rt) that can nest Any values without bound
	next      map[reflect.Type]ladderStep
	byRT      map[reflect.Type]regType
}

type ladderStep struct {
	path ifPath
	to   regType
}

// graph: edges T -(location p)-> U for every registered U whose preferred form is assignable to the interface at p.
func (g *gen) ladderGraph() *ladderGraph {
	if g.lg != nil {
		return g.lg
	}
	lg := &ladderGraph{unbounded: map[reflect.Type]bool{}, next: map[reflect.Type]ladderStep{}, byRT: map[reflect.Type]regType{}}
	type edge struct {
		p  ifPath
		to regType
	}
	edges := map[reflect.Type][]edge{}
	for _, r := range g.regs {
		lg.byRT[r.rt] = r
		if !ladderHolder(g, r.rt) {
			continue
		}
		for _, p := range g.ifacePaths(r.rt) {
			for _, u := range g.regs {
				if pref(u).Implements(p.it) {
					edges[r.rt] = append(edges[r.rt], edge{p, u})
				}
			}
		}
		if len(edges[r.rt]) > 0 {
			lg.unbounded[r.rt] = true
		}
	}
	for changed := true; changed; { // drop types all of whose edges lead out of the set
		changed = false
		for _, r := range g.regs {
			if !lg.unbounded[r.rt] {
				continue
			}
			ok := false
			for _, e := range edges[r.rt] {
				if lg.unbounded[e.to.rt] {
					ok = true
					break
				}
			}
			if !ok {
				delete(lg.unbounded, r.rt)
				changed = true
			}
		}
	}
	for _, r := range g.regs { // canonical continuation: first self-nesting location, else first edge into the set
		if !lg.unbounded[r.rt] {
			continue
		}
		var pick *edge
		for i := range edges[r.rt] {
			e := &edges[r.rt][i]
			if e.to.rt == r.rt {
				pick = e
				break
			}
		}
		if pick == nil {
			for i := range edges[r.rt] {
				if e := &edges[r.rt][i]; lg.unbounded[e.to.rt] {
					pick = e
					break
				}
			}
		}
		lg.next[r.rt] = ladderStep{pick.p, pick.to}
	}
	g.lg = lg
	return lg
}

// asPref returns the struct value held in the addressable pointer p (type *T) in T's preferred form.
func asPref(r regType, p reflect.Value) reflect.Value {
	if r.ptr {
		return p
	}
	return p.Elem()
}

// innermost value of registered type r: all-default, or the first menu value with a non-empty valid encoding.
func (c *checker) innermost(r regType, nondefault bool) (reflect.Value, bool) {
	if !nondefault {
		return asPref(r, reflect.New(r.rt)), true
	}
	if v, ok := c.g.nondef[r.rt]; ok {
		return v, v.IsValid()
	}
	var found reflect.Value
	cands := c.g.menu(r.rt, 1)
	if len(cands) < 40 {
		cands = append(append([]mv{}, cands...), first(c.g.menu(r.rt, 2), 200)...) // types whose fields are all composite
	}
	for _, m := range cands {
		p := reflect.New(r.rt)
		p.Elem().Set(m.v)
		e := c.encR(p)
		if e.failed() || len(e.bz) == 0 {
			continue
		}
		q := reflect.New(r.rt)
		if rr := guard(func() ([]byte, error) { return nil, c.cdc.UnmarshalReflect(e.bz, q.Interface()) }); rr.failed() {
			continue
		}
		found = asPref(r, p)
		break
	}
	if c.g.nondef == nil {
		c.g.nondef = map[reflect.Type]reflect.Value{}
	}
	c.g.nondef[r.rt] = found
	return found, found.IsValid()
}

// chain: a value of r (preferred form) with n further Any levels below it along the canonical continuation.
func (c *checker) chain(lg *ladderGraph, r regType, n int, nondefault bool) (reflect.Value, bool) {
	// iterative, bottom-up: find the sequence of types first
	seq := []regType{r}
	for i := 0; i < n; i++ {
		st, ok := lg.next[seq[len(seq)-1].rt]
		if !ok {
			return reflect.Value{}, false
		}
		seq = append(seq, st.to)
	}
	v, ok := c.innermost(seq[n], nondefault)
	if !ok {
		return reflect.Value{}, false
	}
	for i := n - 1; i >= 0; i-- {
		p := reflect.New(seq[i].rt)
		lg.next[seq[i].rt].path.set(p.Elem(), v)
		v = asPref(seq[i], p)
	}
	return v, true
}

// selfChain: holder type r nested in itself through location p, n levels below the top value; returned as bare T value.
func (c *checker) ladderValue(lg *ladderGraph, r regType, p ifPath, w int, nondefault bool) (reflect.Value, string, bool) {
	top := reflect.New(r.rt)
	if pref(r).Implements(p.it) { // self-nesting: T at p on every level
		v, ok := c.innermost(r, nondefault)
		if !ok {
			return reflect.Value{}, "", false
		}
		for i := 1; i < w; i++ {
			q := reflect.New(r.rt)
			p.set(q.Elem(), v)
			v = asPref(r, q)
		}
		p.set(top.Elem(), v)
		return top, "self", true
	}
	var cand []regType
	for _, u := range c.g.regs {
		if lg.unbounded[u.rt] && pref(u).Implements(p.it) {
			cand = append(cand, u)
		}
	}
	if len(cand) == 0 {
		return reflect.Value{}, "", false
	}
	sort.Slice(cand, func(i, j int) bool { return cand[i].name < cand[j].name })
	v, ok := c.chain(lg, cand[0], w-1, nondefault)
	if !ok {
		return reflect.Value{}, "", false
	}
	p.set(top.Elem(), v)
	return top, "via " + cand[0].name, true
}

func ladderDepths(limit int, all bool) []int {
	set := map[int]bool{}
	for _, d := range []int{1, 2, 3, 4, 61, 62, 63, 64, 65, 66, 67, 68, 69} {
		set[d] = true
	}
	if limit > 0 {
		for d := limit - 3; d <= limit+3; d++ {
			if d >= 1 {
				set[d] = true
			}
		}
		if all {
			for d := 1; d <= limit+6; d++ {
				set[d] = true
			}
		}
	} else if all {
		for d := 1; d <= 75; d++ {
			set[d] = true
		}
	}
	var out []int
	for d := range set {
		out = append(out, d)
	}
	sort.Ints(out)
	return out
}

// depthLimit: the smallest ladder depth the reflect decoder rejects on this chain (0 if none up to 200).
func (c *checker) depthLimit(lg *ladderGraph, r regType, p ifPath) int {
	if c.g.limit != 0 {
		return max(c.g.limit, 0)
	}
	c.g.limit = -1
	for w := 1; w <= 200; w++ {
		top, _, ok := c.ladderValue(lg, r, p, w, false)
		if !ok {
			return 0
		}
		e := c.encR(top)
		if e.failed() {
			return 0
		}
		q := reflect.New(r.rt)
		if rr := guard(func() ([]byte, error) { return nil, c.cdc.UnmarshalReflect(e.bz, q.Interface()) }); rr.failed() {
			c.g.limit = w
			return w
		}
	}
	return 0
}

func ladderWitness(p ifPath, how string, w int, nondefault bool) string {
	in := "default"
	if nondefault {
		in = "nondefault"
	}
	return fmt.Sprintf("ladder(%s;%s;depth=%d;inner=%s)", p.desc, how, w, in)
}

// runLadders: all ladders of the checker's type.
func (c *checker) runLadders(all bool) {
	if !ladderHolder(c.g, c.reg.rt) {
		return
	}
	lg := c.g.ladderGraph()
	paths := c.g.ifacePaths(c.reg.rt)
	for _, p := range paths {
		if _, _, ok := c.ladderValue(lg, c.reg, p, 1, false); !ok {
			c.out("ladder_location_without_unbounded_implementer")
			continue
		}
		c.res.LadderPaths++
		limit := c.depthLimit(lg, c.reg, p)
		if limit == 0 {
			c.out("ladder_no_depth_limit_found")
		}
		for _, w := range ladderDepths(limit, all) {
			for _, nd := range []bool{false, true} {
				top, how, ok := c.ladderValue(lg, c.reg, p, w, nd)
				if !ok {
					c.out("ladder_no_nondefault_innermost")
					continue
				}
				c.checkLadder(top, ladderWitness(p, how, w, nd), w, c.handLadder(p, w, nd))
			}
		}
	}
}

// checkLadder: one rung. top is a *T.
func (c *checker) checkLadder(top reflect.Value, witness string, w int, hand []byte) {
	c.res.Evals++
	c.res.Ladders++
	c.traceCase("ladder", witness)
	c.witness, c.witnessLen = witness, w
	defer func() { c.witness, c.witnessLen = "", 0 }()
	eR := c.encR(top)
	var enc []byte
	if c.reg.native {
		eG := c.encG(top)
		if eR.failed() != eG.failed() {
			c.violation("encoders-disagree-on-failure", "", 0, "reflect: "+eR.why()+" | genproto2: "+eG.why())
			return
		}
		if !eR.failed() {
			if !bytes.Equal(eR.bz, eG.bz) {
				c.violation("encoder-bytes-differ", "", 0, "reflect="+strconv.Itoa(len(eR.bz))+" bytes genproto2="+strconv.Itoa(len(eG.bz))+" bytes")
				return
			}
			if n, sr := c.sizeG(top); sr.failed() || n != len(eG.bz) {
				c.violation("size-mismatch", "", 0, fmt.Sprintf("SizeBinary2=%d (%s) len=%d", n, sr.why(), len(eG.bz)))
			}
		}
	}
	if eR.failed() {
		if eR.pan != "" {
			c.violation("encode-panics", "", 0, eR.why())
		}
		// the encoders refuse the chain: feed the decoders the hand-made encoding where there is one
		if hand == nil {
			c.out("ladder_unencodable_both(no hand encoding)")
			c.note("ladder_unencodable_both", witness+": "+eR.why())
			return
		}
		c.out("ladder_hand_encoded(encoders refuse)")
		enc = hand
	} else {
		enc = eR.bz
		if hand != nil { // cross-check of the hand encoder that is used where the encoders refuse
			c.res.HandChecked++
			if !bytes.Equal(hand, enc) {
				c.violation("ladder-hand-encoding-differs-from-encoders", "", 0, fmt.Sprintf("hand=%d bytes encoder=%d bytes", len(hand), len(enc)))
			}
		}
	}
	// decoders: parity on accept/reject, value, re-encoding (checkBytes reports under the ladder witness)
	c.res.Evals-- // checkBytes counts the evaluation itself
	c.checkBytes(enc)
	dR, rR := c.decR(enc)
	if rR.failed() {
		if rR.pan == "" {
			c.out("ladder_rejected_by_reflect(depth limit or domain)")
		}
		return
	}
	c.out("ladder_accepted")
	re := c.encR(dR)
	if re.failed() || !bytes.Equal(re.bz, enc) {
		c.violation("roundtrip-value-differs/reflect", "", 0, c.rtCause(re, top, dR)+fmt.Sprintf("reencoded %d bytes vs %d %s", len(re.bz), len(enc), re.why()))
		return
	}
	// JSON round trip of an accepted chain
	js := guard(func() ([]byte, error) { return c.cdc.JSONMarshal(top.Elem().Interface()) })
	if js.failed() {
		cl := "json-encode-fails"
		if js.pan != "" {
			cl = "json-encode-panics"
		}
		c.violation(cl, "", 0, js.why())
		return
	}
	q := reflect.New(c.reg.rt)
	jd := guard(func() ([]byte, error) { return nil, c.cdc.JSONUnmarshal(js.bz, q.Interface()) })
	if jd.failed() {
		cl := "json-roundtrip-decode-fails"
		if jd.pan != "" {
			cl = "json-decode-panics"
		}
		c.violation(cl, "", 0, jd.why())
		return
	}
	rj := c.encR(q)
	if rj.failed() || !bytes.Equal(rj.bz, enc) {
		c.violation("json-roundtrip-value-differs", "", 0, c.rtCause(rj, top, q)+fmt.Sprintf("after json: %d bytes vs %d %s", len(rj.bz), len(enc), rj.why()))
		return
	}
	c.out("ladder_ok")
}

func uvarint(u uint64) []byte { return binary.AppendUvarint(nil, u) }

// handLadder builds the encoding of a self-nesting chain without the encoders (protobuf wire format by hand): only for
// a location that is a direct interface-typed struct field of a type that can nest itself there.  nil if not applicable.
// level(x)  = key(field, ByteLength) len(any) any      any(x) = 0x0a len(url) url [0x12 len(x) x]   (Value omitted when empty)
func (c *checker) handLadder(p ifPath, w int, nondefault bool) []byte {
	if !pref(c.reg).Implements(p.it) || strings.Count(p.desc, ".") != 1 || strings.Contains(p.desc, "[") {
		return nil
	}
	info := c.g.info(c.reg.rt)
	if info == nil || info.TypeURL == "" {
		return nil
	}
	var fnum uint32
	for _, f := range info.Fields {
		if "."+f.Name == p.desc && f.Type.Kind() == reflect.Interface {
			fnum = f.BinFieldNum
		}
	}
	if fnum == 0 {
		return nil
	}
	// only for types whose all-default value encodes to nothing (no field such as a Go-zero time.Time that amino encodes),
	// so that a level consists of the nesting field alone
	if z := c.encR(reflect.New(c.reg.rt)); z.failed() || len(z.bz) != 0 {
		return nil
	}
	// innermost level: its bare struct bytes come from the encoder (one level, no nesting); every nesting level is hand-made
	v, ok := c.innermost(c.reg, nondefault)
	if !ok {
		return nil
	}
	q := reflect.New(c.reg.rt)
	if c.reg.ptr {
		q = v
	} else {
		q.Elem().Set(v)
	}
	e := c.encR(q)
	if e.failed() {
		return nil
	}
	cur := e.bz
	for i := 0; i < w; i++ {
		any := append([]byte{0x0a}, uvarint(uint64(len(info.TypeURL)))...)
		any = append(any, info.TypeURL...)
		if len(cur) > 0 {
			any = append(any, 0x12)
			any = append(any, uvarint(uint64(len(cur)))...)
			any = append(any, cur...)
		}
		lvl := uvarint(uint64(fnum)<<3 | 2)
		lvl = append(lvl, uvarint(uint64(len(any)))...)
		cur = append(lvl, any...)
	}
	return cur
}

// parseLadder parses a ladder witness (debug replay): location, depth, innermost kind.
func parseLadder(s string) (loc string, w int, nd bool, ok bool) {
	if !strings.HasPrefix(s, "ladder(") || !strings.HasSuffix(s, ")") {
		return
	}
	parts := strings.Split(s[len("ladder("):len(s)-1], ";")
	if len(parts) != 4 {
		return
	}
	loc = parts[0]
	w, err := strconv.Atoi(strings.TrimPrefix(parts[2], "depth="))
	if err != nil {
		return
	}
	return loc, w, parts[3] == "inner=nondefault", true
}
