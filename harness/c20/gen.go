package main

// Bounded-exhaustive value generator: for a registered type T, every value in which at most k amino-visible fields
// deviate from the zero value, each deviating field drawn from the boundary menu of its Go type.  Menus are built by
// reflection from the codec's own TypeInfo (so exactly the fields amino sees are varied).

import (
	"fmt"
	"math"
	"os"
	"reflect"
	"sort"
	"strings"
	"time"

	"github.com/gnolang/gno/tm2/pkg/amino"
)

type mv struct {
	v reflect.Value
	d string // human-readable description (path=value)
}

type regType struct {
	rt     reflect.Type
	pkg    string
	name   string // pkgname.TypeName
	ptr    bool   // pointer preferred
	native bool   // has native genproto2 methods
	extra  bool   // from the amino fixture package
}

type menuKey struct {
	rt    reflect.Type
	depth int
}

type gen struct {
	cdc      *amino.Codec
	regs     []regType
	thorough bool
	cache    map[menuKey][]mv
	busy     map[menuKey]bool
	impls    map[reflect.Type][]reflect.Type
	// registered types whose only form assignable to some interface is the non-preferred one
	encodeOnly map[string]bool
	// ladder.go caches
	paths  map[reflect.Type][]ifPath
	lg     *ladderGraph
	nondef map[reflect.Type]reflect.Value
	limit  int // depth at which the reflect decoder starts rejecting a chain (0 unknown, -1 none found)
}

var (
	timeType     = reflect.TypeFor[time.Time]()
	durationType = reflect.TypeFor[time.Duration]()
)

func collectTypes() []regType {
	seen := map[*amino.Package]bool{}
	seenT := map[reflect.Type]bool{}
	var out []regType
	var walk func(p *amino.Package, extra bool)
	walk = func(p *amino.Package, extra bool) {
		if p == nil || seen[p] {
			return
		}
		seen[p] = true
		for _, d := range p.Dependencies {
			walk(d, extra)
		}
		for _, t := range p.Types {
			if seenT[t.Type] {
				continue
			}
			seenT[t.Type] = true
			out = append(out, regType{rt: t.Type, pkg: p.GoPkgPath, name: p.GoPkgName + "." + t.Type.Name(), ptr: t.PointerPreferred,
				native: amino.HasNativeGenproto2(t.Type), extra: extra})
		}
	}
	for _, p := range prodPackages {
		walk(p, false)
	}
	if withExtras() {
		for _, p := range extraPackages {
			walk(p, true)
		}
	}
	sort.Slice(out, func(i, j int) bool {
		if out[i].pkg != out[j].pkg {
			return out[i].pkg < out[j].pkg
		}
		return out[i].name < out[j].name
	})
	return out
}

// withExtras: C20_EXTRA=1 adds amino's own fixture package (tm2/pkg/amino/tests) to the universe, in a codec of its
// own so that fixture types never show up as implementers of production interface fields.
func withExtras() bool { return os.Getenv("C20_EXTRA") == "1" }

func newCodec(extra bool) *amino.Codec {
	cdc := amino.NewCodec()
	if extra {
		for _, p := range extraPackages {
			cdc.RegisterPackage(p)
		}
	} else {
		for _, p := range prodPackages {
			cdc.RegisterPackage(p)
		}
	}
	cdc.Seal()
	return cdc
}

func newGen(cdc *amino.Codec, all []regType, extra, thorough bool) *gen {
	var regs []regType
	for _, r := range all {
		if r.extra == extra {
			regs = append(regs, r)
		}
	}
	return &gen{cdc: cdc, regs: regs, thorough: thorough, cache: map[menuKey][]mv{}, busy: map[menuKey]bool{}, impls: map[reflect.Type][]reflect.Type{}, encodeOnly: map[string]bool{}}
}

func (g *gen) info(rt reflect.Type) (info *amino.TypeInfo) {
	defer func() {
		if recover() != nil {
			info = nil
		}
	}()
	i, err := g.cdc.GetTypeInfo(rt)
	if err != nil {
		return nil
	}
	return i
}

// implementers of an interface type: registered concrete types in their preferred form (T or *T), then the other form.
func (g *gen) implsOf(it reflect.Type) []reflect.Type {
	if c, ok := g.impls[it]; ok {
		return c
	}
	var pref, other []reflect.Type
	for _, r := range g.regs {
		a, b := r.rt, reflect.PointerTo(r.rt)
		if r.ptr {
			a, b = b, a
		}
		if a.Implements(it) {
			pref = append(pref, a)
		}
		// amino always decodes to the preferred form, so a value whose only assignable form is the non-preferred one
		// can be encoded but never decoded (e.g. gnolang nodes are registered by value but only *Node implements
		// Expr/Stmt): explored for encoder parity / decoder agreement; the expected "not assignable" reject is
		// classified separately in checkValue.
		if it.NumMethod() > 0 && b.Implements(it) { // for the empty interface only the preferred form
			other = append(other, b)
			if !a.Implements(it) {
				g.encodeOnly[b.String()+" in "+it.String()] = true
			}
		}
	}
	out := append(pref, other...)
	g.impls[it] = out
	return out
}

func (g *gen) menu(rt reflect.Type, depth int) []mv {
	key := menuKey{rt, depth}
	if c, ok := g.cache[key]; ok {
		return c
	}
	if g.busy[key] {
		return nil
	}
	g.busy[key] = true
	out := g.menu0(rt, depth)
	delete(g.busy, key)
	g.cache[key] = out
	return out
}

func first(m []mv, n int) []mv {
	if len(m) > n {
		return m[:n]
	}
	return m
}

func (g *gen) width() int {
	if g.thorough {
		return 6
	}
	return 2
}

func setv(rt reflect.Type, f func(v reflect.Value)) reflect.Value {
	v := reflect.New(rt).Elem()
	f(v)
	return v
}

func longStr() string { return strings.Repeat("x", 130) }

func (g *gen) menu0(rt reflect.Type, depth int) (out []mv) {
	add := func(v reflect.Value, d string) { out = append(out, mv{v, d}) }
	switch rt {
	case timeType:
		for _, t := range []time.Time{
			time.Unix(0, 0).UTC(), time.Unix(1, 1).UTC(), time.Unix(-1, 0).UTC(),
			time.Date(9999, 12, 31, 23, 59, 59, 999999999, time.UTC), time.Date(1, 1, 1, 0, 0, 0, 1, time.UTC),
			time.Unix(1<<31, 500).UTC(), time.Date(10000, 1, 1, 0, 0, 0, 0, time.UTC),
		} {
			add(reflect.ValueOf(t), "time:"+t.Format(time.RFC3339Nano))
		}
		return
	case durationType:
		for _, d := range []time.Duration{1, time.Second, -time.Second, time.Second + 1, -time.Second - 1, math.MaxInt64, math.MinInt64} {
			add(reflect.ValueOf(d), fmt.Sprintf("dur:%d", int64(d)))
		}
		return
	}
	info := g.info(rt)
	if rt.Kind() != reflect.Pointer && info == nil {
		return nil
	}
	// AminoMarshaler: build values through the repr type (UnmarshalAmino), then also raw values by kind.
	if rt.Kind() != reflect.Pointer && info.IsAminoMarshaler {
		reprs := append([]mv{{reflect.Zero(info.ReprType.Type), "0"}}, g.menu(info.ReprType.Type, depth)...)
		for _, r := range reprs {
			p := reflect.New(rt)
			ok := func() (ok bool) {
				defer func() {
					if recover() != nil {
						ok = false
					}
				}()
				res := p.MethodByName("UnmarshalAmino").Call([]reflect.Value{r.v})
				return res[0].IsNil()
			}()
			if ok {
				add(p.Elem(), "repr("+r.d+")")
			}
		}
	}
	switch rt.Kind() {
	case reflect.Bool:
		add(setv(rt, func(v reflect.Value) { v.SetBool(true) }), "true")
	case reflect.Int, reflect.Int8, reflect.Int16, reflect.Int32, reflect.Int64:
		bits := rt.Bits()
		mn := int64(-1) << (bits - 1)
		mx := -(mn + 1)
		for _, x := range []int64{1, -1, mx, mn, 64, -65} {
			if x > mx || x < mn {
				continue
			}
			x := x
			add(setv(rt, func(v reflect.Value) { v.SetInt(x) }), fmt.Sprint(x))
		}
	case reflect.Uint, reflect.Uint8, reflect.Uint16, reflect.Uint32, reflect.Uint64, reflect.Uintptr:
		bits := rt.Bits()
		mx := uint64(math.MaxUint64) >> (64 - bits)
		for _, x := range []uint64{1, mx, 128, 127} {
			if x > mx {
				continue
			}
			x := x
			add(setv(rt, func(v reflect.Value) { v.SetUint(x) }), fmt.Sprint(x))
		}
	case reflect.Float32, reflect.Float64:
		for _, x := range []float64{1.5, -2} {
			x := x
			add(setv(rt, func(v reflect.Value) { v.SetFloat(x) }), fmt.Sprint(x))
		}
	case reflect.String:
		strs := []string{"a", "\x00", longStr()}
		if g.thorough {
			strs = append(strs, "\xff", "é\"\\", "1")
		}
		for _, s := range strs {
			s := s
			d := fmt.Sprintf("%q", s)
			if len(s) > 20 {
				d = fmt.Sprintf("%d*x", len(s))
			}
			add(setv(rt, func(v reflect.Value) { v.SetString(s) }), d)
		}
	case reflect.Slice:
		et := rt.Elem()
		if et.Kind() == reflect.Uint8 {
			for _, b := range [][]byte{{}, {0}, {255, 0}, {1}} {
				b := b
				add(setv(rt, func(v reflect.Value) { v.SetBytes(append(make([]byte, 0, len(b)), b...)) }), fmt.Sprintf("bytes:%x", b))
			}
			break
		}
		mk := func(d string, els ...reflect.Value) {
			s := reflect.MakeSlice(rt, len(els), len(els))
			for i, e := range els {
				s.Index(i).Set(e)
			}
			add(s, d)
		}
		mk("[]")
		if depth == 0 {
			break
		}
		z := reflect.Zero(et)
		mk("[0]", z)
		em := g.menu(et, depth-1)
		for _, e := range em {
			mk("["+e.d+"]", e.v)
		}
		mk("[0,0]", z, z)
		if len(em) > 0 {
			mk("[0,"+em[0].d+"]", z, em[0].v)
			mk("["+em[0].d+",0]", em[0].v, z)
			last := em[len(em)-1]
			mk("["+em[0].d+","+last.d+"]", em[0].v, last.v)
		}
	case reflect.Array:
		et := rt.Elem()
		n := rt.Len()
		if n == 0 {
			break
		}
		if et.Kind() == reflect.Uint8 {
			add(setv(rt, func(v reflect.Value) {
				for i := 0; i < n; i++ {
					v.Index(i).SetUint(255)
				}
			}), "ff..")
			add(setv(rt, func(v reflect.Value) { v.Index(0).SetUint(1) }), "[0]=1")
			add(setv(rt, func(v reflect.Value) { v.Index(n - 1).SetUint(1) }), "[last]=1")
			break
		}
		if depth == 0 {
			break
		}
		em := first(g.menu(et, depth-1), g.width())
		idx := []int{0}
		if n > 1 {
			idx = append(idx, n-1)
		}
		for _, i := range idx {
			for _, e := range em {
				i, e := i, e
				add(setv(rt, func(v reflect.Value) { v.Index(i).Set(e.v) }), fmt.Sprintf("[%d]=%s", i, e.d))
			}
		}
	case reflect.Pointer:
		et := rt.Elem()
		if et.Kind() == reflect.Pointer {
			break
		}
		p := reflect.New(et)
		add(p, "&0")
		for _, e := range g.menu(et, depth) {
			p := reflect.New(et)
			p.Elem().Set(e.v)
			add(p, "&"+e.d)
		}
	case reflect.Interface:
		if depth == 0 {
			break
		}
		w := 1
		if g.thorough {
			w = 3
		}
		for _, ft := range g.implsOf(rt) {
			name := ft.String()
			if ft.Kind() == reflect.Pointer {
				add(setv(rt, func(v reflect.Value) { v.Set(reflect.New(ft.Elem())) }), name+"{}")
			} else {
				add(setv(rt, func(v reflect.Value) { v.Set(reflect.Zero(ft)) }), name+"{}")
			}
		}
		for _, ft := range g.implsOf(rt) {
			name := ft.String()
			for _, e := range first(g.menu(ft, depth-1), w+1) {
				if e.d == "&0" {
					continue
				}
				e := e
				add(setv(rt, func(v reflect.Value) { v.Set(e.v) }), name+"{"+e.d+"}")
			}
		}
	case reflect.Struct:
		if depth == 0 || info.IsAminoMarshaler && len(out) > 0 {
			// AminoMarshaler structs with a working repr path: raw field tweaks usually touch unexported state; skip.
			break
		}
		for _, f := range info.Fields {
			for _, e := range first(g.menu(f.Type, depth-1), g.width()) {
				f, e := f, e
				add(setv(rt, func(v reflect.Value) { v.Field(f.Index).Set(e.v) }), f.Name+"="+e.d)
			}
		}
	}
	return out
}

// values enumerates the top-level values of registered type rt: zero, all single-field deviations with the full
// menu, all field pairs with the first A menu entries each (k>=2) and triples with the first entry (k>=3).
func (g *gen) values(rt reflect.Type, depth, k int) []mv {
	out := []mv{{reflect.New(rt).Elem(), "zero"}}
	info := g.info(rt)
	if info == nil {
		return out
	}
	if rt.Kind() != reflect.Struct || info.IsAminoMarshaler {
		for _, m := range g.menu(rt, depth) {
			v := reflect.New(rt).Elem()
			v.Set(m.v)
			out = append(out, mv{v, m.d})
		}
		return out
	}
	fields := info.Fields
	menus := make([][]mv, len(fields))
	for i, f := range fields {
		menus[i] = g.menu(f.Type, depth)
	}
	mk := func(idx []int, ms []mv) {
		v := reflect.New(rt).Elem()
		var d []string
		for j, i := range idx {
			v.Field(fields[i].Index).Set(ms[j].v)
			d = append(d, fields[i].Name+"="+ms[j].d)
		}
		out = append(out, mv{v, strings.Join(d, ";")})
	}
	for i := range fields {
		for _, m := range menus[i] {
			mk([]int{i}, []mv{m})
		}
	}
	A, A3 := 2, 1
	if g.thorough {
		A, A3 = 6, 2
	}
	pick := first
	if k >= 2 {
		for i := range fields {
			for j := i + 1; j < len(fields); j++ {
				for _, a := range pick(menus[i], A) {
					for _, b := range pick(menus[j], A) {
						mk([]int{i, j}, []mv{a, b})
					}
				}
			}
		}
	}
	if k >= 3 {
		for i := range fields {
			for j := i + 1; j < len(fields); j++ {
				for l := j + 1; l < len(fields); l++ {
					for _, a := range pick(menus[i], A3) {
						for _, b := range pick(menus[j], A3) {
							for _, c := range pick(menus[l], A3) {
								mk([]int{i, j, l}, []mv{a, b, c})
							}
						}
					}
				}
			}
		}
	}
	return out
}
