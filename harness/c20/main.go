// C20: amino encoding is consistent, round-trips and rejects bad input safely.
//
// Type universe: every concrete type registered in the amino Package objects of tm2, gnovm and gno.land (collected at
// run time).  For each type: (values) every value with <= k fields deviating from zero, each from a boundary menu;
// (bytes) every byte string of length <= 2, length 3 over a 24-byte menu, and every truncation and single-byte
// substitution of every valid encoding; (ladders, ladder.go) for every interface-typed location of every type, chains of
// nested Any values of every depth around the codec's nesting limit with an all-default / non-default innermost value.  Oracle: generated genproto2 codec vs reflection codec (bytes, size, accept/
// reject, decoded value by amino.DeepEqual semantics, no panic), binary and JSON round-trips.
//
// Violation keys: <class>|<normalised cause>|min=<type>:<hex input>, one per (class, cause); min = smallest witness
// (shortest input, then type name, then input).  The thorough tier runs the complete quick enumeration first ("core"
// phase) and takes min from it, so both tiers report the same key for the same defect (see mutants/NOTES.md).
//
// All codec calls run in worker subprocesses (same binary, env C20_WORKER=1) under an address-space cap; the parent
// only schedules tasks and aggregates results, so a decoder that exhausts memory or the stack cannot kill the check.
package main

import (
	"bufio"
	"encoding/hex"
	"encoding/json"
	"fmt"
	"os"
	"os/exec"
	"path/filepath"
	"reflect"
	"runtime"
	"runtime/debug"
	"sort"
	"strconv"
	"strings"
	"sync"
	"syscall"
	"time"

	"github.com/gnolang/gno/tm2/pkg/amino"
	"verif/engine/vk"
)

type task struct {
	Op       string `json:"op"` // plan | values | bytes | ladder
	Type     int    `json:"type"`
	P        int    `json:"p"`
	NP       int    `json:"np"`
	Thorough bool   `json:"thorough"`
}

const (
	workerMemCap = 3 << 30 // RLIMIT_AS per worker
)

// length-3 strings: quick = menu3^3 (24^3), thorough = (menu3+menu3x)^3 (48^3)
var menu3x = []byte{0x03, 0x04, 0x06, 0x07, 0x0e, 0x11, 0x13, 0x14, 0x16, 0x19, 0x1b, 0x20, 0x21, 0x28, 0x32, 0x3a, 0x40, 0x42, 0x4a, 0x52, 0x7e, 0x82, 0xc0, 0xfd}
var menu3 = []byte{0x00, 0x01, 0x02, 0x08, 0x09, 0x0a, 0x0b, 0x0c, 0x0d, 0x0f, 0x10, 0x12, 0x18, 0x1a, 0x22, 0x2a, 0x7f, 0x80, 0x81, 0xfe, 0xff, 0x05, 0x15, 0x1d}

func tierParams(thorough bool) (depth, k int) {
	if thorough {
		return 3, 3
	}
	return 2, 2
}

// ---------------------------------------------------------------- worker

func workerMain() {
	// memory / stack caps: a runaway allocation kills this worker, not the check.
	lim := syscall.Rlimit{Cur: workerMemCap, Max: workerMemCap}
	_ = syscall.Setrlimit(syscall.RLIMIT_AS, &lim)
	debug.SetMemoryLimit(workerMemCap / 2)
	debug.SetMaxStack(256 << 20)
	debug.SetGCPercent(1000) // tiny live heap: avoid a GC cycle every few MB
	runtime.GOMAXPROCS(2)
	cdcs := map[bool]*amino.Codec{false: newCodec(false)}
	if withExtras() {
		cdcs[true] = newCodec(true)
	}
	regs := collectTypes()
	var trace *os.File
	if tp := os.Getenv("C20_TRACE"); tp != "" {
		trace, _ = os.OpenFile(tp, os.O_CREATE|os.O_RDWR|os.O_TRUNC, 0o644)
	}
	gens := map[[2]bool]*gen{}
	in := bufio.NewScanner(os.Stdin)
	in.Buffer(make([]byte, 1<<20), 1<<20)
	out := bufio.NewWriter(os.Stdout)
	for in.Scan() {
		var t task
		if err := json.Unmarshal(in.Bytes(), &t); err != nil {
			fmt.Fprintln(os.Stderr, "bad task:", err)
			os.Exit(3)
		}
		if t.Type < 0 || t.Type >= len(regs) {
			fmt.Fprintln(os.Stderr, "bad type index")
			os.Exit(3)
		}
		gk := [2]bool{regs[t.Type].extra, t.Thorough}
		g := gens[gk]
		if g == nil {
			g = newGen(cdcs[gk[0]], regs, gk[0], t.Thorough)
			gens[gk] = g
		}
		res := runTask(g, regs, t, trace)
		b, _ := json.Marshal(res)
		out.Write(b)
		out.WriteByte('\n')
		out.Flush()
	}
}

func runTask(g *gen, regs []regType, t task, trace *os.File) *result {
	res := &result{Op: t.Op, Type: t.Type, Outcomes: map[string]int64{}}
	reg := regs[t.Type]
	c := &checker{cdc: g.cdc, g: g, reg: reg, res: res, vmap: map[string]*viol{}, trace: trace}
	defer c.finish()
	depth, k := tierParams(t.Thorough)
	switch t.Op {
	case "plan", "values":
		vals := g.values(reg.rt, depth, k)
		res.Values = len(vals)
		// partition by hash of the reflect encoding so that equal encodings land in the same part (exact dedupe)
		seenEnc := map[string]bool{}
		seenStr := map[uint64]struct{}{}
		for i, m := range vals {
			p := reflect.New(reg.rt)
			p.Elem().Set(m.v)
			e := c.encR(p)
			var part int
			if e.failed() {
				part = i % t.NP
			} else {
				part = int(h64(e.bz) % uint64(t.NP))
			}
			if t.Op == "plan" {
				if !e.failed() && !seenEnc[string(e.bz)] {
					seenEnc[string(e.bz)] = true
					res.Distinct++
					res.Weight += 40 + int64(6*len(e.bz))*int64(4+len(e.bz)/8)
				}
				continue
			}
			if part != t.P {
				continue
			}
			enc, ok := c.checkValue(m)
			if !ok {
				continue
			}
			if seenEnc[string(enc)] {
				continue
			}
			seenEnc[string(enc)] = true
			res.Distinct++
			res.EncH = append(res.EncH, h64(enc))
			if len(res.Samples) < 2 && len(enc) > 0 && len(enc) < 40 {
				res.Samples = append(res.Samples, map[string]any{"type": reg.name, "value": m.d, "encoding": hx(enc)})
			}
			mutate(enc, func(b []byte) {
				h := h64(b)
				if _, dup := seenStr[h]; dup {
					return
				}
				seenStr[h] = struct{}{}
				res.Strings++
				c.checkBytes(b)
			})
		}
	case "ladder":
		c.runLadders(t.Thorough)
	case "bytes":
		var buf [3]byte
		c.checkBytes(buf[:0])
		res.Strings++
		for a := 0; a < 256; a++ {
			buf[0] = byte(a)
			c.checkBytes(buf[:1])
			res.Strings++
			for b := 0; b < 256; b++ {
				buf[1] = byte(b)
				c.checkBytes(buf[:2])
				res.Strings++
			}
		}
		m3 := menu3
		if t.Thorough {
			m3 = append(append([]byte{}, menu3...), menu3x...)
		}
		for _, a := range m3 {
			for _, b := range m3 {
				for _, d := range m3 {
					buf[0], buf[1], buf[2] = a, b, d
					c.checkBytes(buf[:3])
					res.Strings++
				}
			}
		}
	}
	return res
}

// ---------------------------------------------------------------- parent

type worker struct {
	cmd    *exec.Cmd
	stdin  *bufio.Writer
	stdout *bufio.Scanner
	stderr *tailBuf
}

type tailBuf struct {
	mu sync.Mutex
	b  []byte
}

func (t *tailBuf) Write(p []byte) (int, error) {
	t.mu.Lock()
	if len(t.b) < 3000 { // keep the head: the fatal error line comes first, goroutine dumps follow
		t.b = append(t.b, p...)
	}
	t.mu.Unlock()
	return len(p), nil
}
func (t *tailBuf) String() string { t.mu.Lock(); defer t.mu.Unlock(); return string(t.b) }

func spawn(tracePath string) (*worker, error) {
	exe, err := os.Executable()
	if err != nil {
		return nil, err
	}
	cmd := exec.Command(exe)
	cmd.Env = append(os.Environ(), "C20_WORKER=1")
	if tracePath != "" {
		cmd.Env = append(cmd.Env, "C20_TRACE="+tracePath)
	}
	in, _ := cmd.StdinPipe()
	outp, _ := cmd.StdoutPipe()
	tb := &tailBuf{}
	cmd.Stderr = tb
	if err := cmd.Start(); err != nil {
		return nil, err
	}
	sc := bufio.NewScanner(outp)
	sc.Buffer(make([]byte, 1<<20), 1<<28)
	return &worker{cmd: cmd, stdin: bufio.NewWriter(in), stdout: sc, stderr: tb}, nil
}

// do runs one task; ok=false means the worker died or hung (it is killed).
func (w *worker) do(t task, timeout time.Duration) (res *result, ok bool) {
	b, _ := json.Marshal(t)
	w.stdin.Write(b)
	w.stdin.WriteByte('\n')
	if err := w.stdin.Flush(); err != nil {
		return nil, false
	}
	timer := time.AfterFunc(timeout, func() { w.cmd.Process.Kill() })
	defer timer.Stop()
	if !w.stdout.Scan() {
		w.cmd.Process.Kill()
		w.cmd.Wait()
		return nil, false
	}
	res = &result{}
	if err := json.Unmarshal(w.stdout.Bytes(), res); err != nil {
		w.cmd.Process.Kill()
		w.cmd.Wait()
		return nil, false
	}
	return res, true
}

func (w *worker) close() {
	w.cmd.Process.Kill()
	w.cmd.Wait()
}

var r *vk.Run

func main() {
	if os.Getenv("C20_WORKER") != "" {
		workerMain()
		return
	}
	if d := os.Getenv("C20_DEBUG"); d != "" { // C20_DEBUG=pkg.Type:hexbytes — print what each decoder does
		debugMain(d)
		return
	}
	r = vk.New("exploration")
	r.SetBudget(240*time.Second, 25*time.Minute) // caps, not targets: quick takes ~45 s (thorough ~3-5 min) on an idle 16-core machine
	regs := collectTypes()
	if len(regs) < 50 {
		r.HarnessError("type universe too small: %d", len(regs))
	}
	thorough := r.Thorough()
	nw := runtime.GOMAXPROCS(0)
	scratch := filepath.Join(vk.Root, ".work", "c20")
	os.MkdirAll(scratch, 0o755)

	type job struct {
		t       task
		res     *result
		bad     string // worker death description
		culprit string
	}
	runAll := func(jobs []*job, timeout time.Duration) {
		ch := make(chan *job)
		var wg sync.WaitGroup
		for i := 0; i < nw; i++ {
			wg.Add(1)
			go func(i int) {
				defer wg.Done()
				var w *worker
				defer func() {
					if w != nil {
						w.close()
					}
				}()
				for j := range ch {
					if w == nil {
						var err error
						if w, err = spawn(""); err != nil {
							r.HarnessError("cannot spawn worker: %v", err)
						}
					}
					res, ok := w.do(j.t, timeout)
					if ok {
						j.res = res
						continue
					}
					// worker died: re-run the task in trace mode to pin the exact case.
					tail := w.stderr.String()
					w = nil
					tp := filepath.Join(scratch, fmt.Sprintf("trace-%d", i))
					os.Remove(tp)
					tw, err := spawn(tp)
					culprit := ""
					if err == nil {
						if res2, ok2 := tw.do(j.t, 4*timeout); ok2 {
							j.res = res2 // not reproducible: keep the result, still report the death
						}
						tw.close()
						if b, err := os.ReadFile(tp); err == nil {
							culprit = strings.TrimSpace(string(b))
						}
					}
					if len(tail) > 1500 {
						tail = tail[:1500]
					}
					j.culprit = culprit
					j.bad = fmt.Sprintf("case=%s stderr=%s", culprit, tail)
				}
			}(i)
		}
		for _, j := range jobs {
			if r.Expired() {
				break
			}
			ch <- j
		}
		close(ch)
		wg.Wait()
	}

	type vkey struct{ class, sig string }
	type vagg struct {
		min   viol
		types map[string]bool
	}
	only := os.Getenv("C20_ONLY") // debugging aid: restrict to types whose name contains this (run is then not exhaustive)
	planLost := 0
	// explore runs one enumeration phase and returns its tasks in deterministic (type, op, part) order.
	explore := func(th bool) []*job {
		// 1. plan: number of values / weight per type
		var plan []*job
		for i := range regs {
			if only != "" && !strings.Contains(regs[i].name, only) {
				continue
			}
			plan = append(plan, &job{t: task{Op: "plan", Type: i, NP: 1, Thorough: th}})
		}
		runAll(plan, 10*time.Minute)

		// 2. value+mutation tasks (split heavy types) and short-byte-string tasks; heaviest first
		var jobs []*job
		weights := map[*job]int64{}
		target := int64(3_000_000)
		if th {
			target = 30_000_000
		}
		for _, pj := range plan {
			i := pj.t.Type
			if pj.res == nil {
				if pj.bad != "" {
					jobs = append(jobs, pj) // report below
				} else {
					planLost++ // budget expired before this type was planned
				}
				continue
			}
			np := int(pj.res.Weight/target) + 1
			if np > 256 {
				np = 256
			}
			for p := 0; p < np; p++ {
				j := &job{t: task{Op: "values", Type: i, P: p, NP: np, Thorough: th}}
				weights[j] = pj.res.Weight / int64(np)
				jobs = append(jobs, j)
			}
			lj := &job{t: task{Op: "ladder", Type: i, NP: 1, Thorough: th}}
			weights[lj] = target / 2
			jobs = append(jobs, lj)
			bj := &job{t: task{Op: "bytes", Type: i, NP: 1, Thorough: th}}
			weights[bj] = target // interleaved with the value tasks so that a capped run has covered both kinds
			jobs = append(jobs, bj)
		}
		sort.SliceStable(jobs, func(a, b int) bool { return weights[jobs[a]] > weights[jobs[b]] })
		runAll(jobs, 10*time.Minute)
		sort.SliceStable(jobs, func(a, b int) bool {
			x, y := jobs[a].t, jobs[b].t
			if x.Type != y.Type {
				return x.Type < y.Type
			}
			if x.Op != y.Op {
				return x.Op < y.Op
			}
			return x.P < y.P
		})
		return jobs
	}

	// Phases.  "core" is the quick-tier enumeration and runs first in BOTH tiers; "extended" (thorough tier only) is the
	// wider enumeration.  The minimal witness that is part of a violation key is taken from the core phase whenever the
	// (class, cause) pair shows up there, so quick and thorough (even budget-capped) report identical keys for it; the
	// extended phase contributes keys only for (class, cause) pairs the core phase does not see.
	type phase struct {
		name     string
		thorough bool
		jobs     []*job
		best     map[vkey]*vagg
		done     int
		skipped  int
		distinct int64
		evals    int64
	}
	phases := []*phase{{name: "core"}}
	if thorough {
		phases = append(phases, &phase{name: "extended", thorough: true})
	}
	for _, ph := range phases {
		ph.jobs = explore(ph.thorough)
	}

	// 3. aggregate deterministically (phase order, then task order)
	notes := map[string][]string{}
	var totalValues, totalStrings, totalDecodes, totalLadders, totalHand int64
	ladderPaths, ladderTypes := 0, map[int]bool{}
	typesDone := map[int]bool{}
	native, done, skipped := 0, 0, 0
	var structDifs []string
	perPkg := map[string]int{}
	for _, ph := range phases {
		ph.best = map[vkey]*vagg{}
		for _, j := range ph.jobs {
			reg := regs[j.t.Type]
			if j.bad != "" {
				k := j.culprit
				if k == "" {
					k = reg.name + "|" + j.t.Op
				}
				r.Violation("worker-died|"+k, map[string]any{"task": j.t, "phase": ph.name, "info": j.bad})
			}
			if j.res == nil {
				ph.skipped++
				continue
			}
			ph.done++
			res := j.res
			r.EvalN(res.Evals)
			ph.evals += res.Evals
			totalDecodes += res.Decodes
			totalStrings += res.Strings
			if res.Op == "ladder" && ph.name == "core" {
				totalLadders += res.Ladders
				totalHand += res.HandChecked
				ladderPaths += res.LadderPaths
				if res.LadderPaths > 0 {
					ladderTypes[j.t.Type] = true
				}
			}
			if res.Op == "values" {
				totalValues += res.Evals - res.Strings
				// distinct non-trivial cases = distinct (type, canonical valid encoding) pairs, exact across tasks and phases
				for _, h := range res.EncH {
					if r.Distinct(reg.name + "|" + strconv.FormatUint(h, 16)) {
						ph.distinct++
					}
				}
			}
			for k, n := range res.Outcomes {
				if strings.HasPrefix(k, "VIOLATION:") {
					continue
				}
				r.OutcomeN(k, n)
			}
			for _, s := range res.Samples {
				r.Sample(s)
			}
			for k, v := range res.Notes {
				if len(notes[k]) < 12 {
					notes[k] = append(notes[k], v...)
				}
			}
			structDifs = append(structDifs, res.StructDif...)
			for i := range res.Viols {
				v := res.Viols[i]
				key := vkey{v.Class, v.Sig}
				a := ph.best[key]
				if a == nil {
					a = &vagg{min: v, types: map[string]bool{}}
					ph.best[key] = a
				}
				a.types[v.Type] = true
				if v.less(&a.min) {
					a.min = v
				}
			}
			if !typesDone[j.t.Type] {
				typesDone[j.t.Type] = true
				perPkg[reg.pkg]++
				if reg.native {
					native++
				}
			}
		}
		done += ph.done
		skipped += ph.skipped
	}
	skipped += planLost

	// 4. violation keys: <class>|<normalised cause>|min=<type>:<hex input>, one per (class, cause); min is the smallest
	// witness (shortest input, then type name, then input) seen by the first phase in which the pair shows up.
	type finding struct {
		k     vkey
		phase string
		min   viol
		types map[string]bool
		other map[string]viol // smallest witness per phase (informational)
	}
	found := map[vkey]*finding{}
	for _, ph := range phases {
		for k, a := range ph.best {
			f := found[k]
			if f == nil {
				f = &finding{k: k, phase: ph.name, min: a.min, types: map[string]bool{}, other: map[string]viol{}}
				found[k] = f
			}
			f.other[ph.name] = a.min
			for t := range a.types {
				f.types[t] = true
			}
		}
	}
	var vkeys []vkey
	for k := range found {
		vkeys = append(vkeys, k)
	}
	sort.Slice(vkeys, func(a, b int) bool {
		if vkeys[a].class != vkeys[b].class {
			return vkeys[a].class < vkeys[b].class
		}
		return vkeys[a].sig < vkeys[b].sig
	})
	var allKeys []string
	var dump []map[string]any
	for _, k := range vkeys {
		f := found[k]
		var ts []string
		for t := range f.types {
			ts = append(ts, t)
		}
		sort.Strings(ts)
		key := fmt.Sprintf("%s|%s|min=%s:%s", k.class, k.sig, f.min.Type, f.min.Input)
		allKeys = append(allKeys, key)
		dump = append(dump, map[string]any{"key": key, "class": k.class, "sig": k.sig, "phase": f.phase, "min": f.min, "min_per_phase": f.other, "types": ts})
		if len(ts) > 40 {
			ts = append(ts[:40:40], "…")
		}
		r.Violation(key, map[string]any{"minimal": f.min, "found_in_phase": f.phase, "min_per_phase": f.other, "n_affected_types": len(f.types), "affected_types": ts,
			"replay": "C20_DEBUG=" + f.min.Type + ":" + f.min.Input + " /verif/.work/bin/c20"})
	}
	{
		b, _ := json.MarshalIndent(map[string]any{"violations": dump, "notes": notes}, "", " ")
		os.WriteFile(filepath.Join(scratch, "violations-"+r.Tier+".json"), b, 0o644)
	}
	if len(structDifs) > 8 {
		structDifs = structDifs[:8]
	}
	exhaustive := skipped == 0 && !r.Capped() && only == ""
	var phaseInfo []map[string]any
	for _, ph := range phases {
		phaseInfo = append(phaseInfo, map[string]any{"name": ph.name, "tasks": ph.done, "tasks_skipped_budget": ph.skipped, "evaluations": ph.evals,
			"new_distinct_valid_encodings": ph.distinct, "violation_causes": len(ph.best)})
	}
	depth, k := tierParams(thorough)
	r.Assumptions = []string{
		"values compared with amino.DeepEqual semantics (equal canonical reflect encoding); nil vs empty slice, unexported fields and time zones are therefore not distinguished",
		"value space is the bounded menu described in rule, not all values; byte strings beyond length 3 only as single-byte mutations/truncations of valid encodings",
		"types without native genproto2 methods get the reflect-only round-trip, JSON and no-panic checks",
	}
	r.Finish(fmt.Sprintf("per registered type: all values with <=%d deviating fields (menu depth %d) x {encoder parity, size, 2 decoders round-trip, JSON round-trip}; all byte strings of length<=2 (65793), %d^3 length-3 strings, every truncation, 5 single-byte substitutions per position, every rotation and the self-concatenation of every distinct valid encoding x {accept/reject parity, value parity, no panic, re-encode stability}; per (type, interface-typed location): chains of w nested Any values, w in {1..4, 61..69} and +-3 around the observed depth limit (thorough: every w up to limit+6) x innermost {all-default, non-default} x {encoder parity, size, decoder accept/reject and value parity, re-encoding, JSON round-trip of accepted chains, hand-made wire encoding == encoders}; distinct = distinct (type, canonical valid encoding) pairs%s", k, depth, map[bool]int{false: len(menu3), true: len(menu3) + len(menu3x)}[thorough],
		map[bool]string{false: "", true: "; preceded by the complete quick-tier enumeration (core phase, k=2, depth 2, 24^3), which fixes the minimal witnesses used in violation keys"}[thorough]),
		exhaustive, map[string]any{
			"types": len(typesDone), "types_native_genproto2": native, "types_per_package": perPkg,
			"values_checked": totalValues, "distinct_valid_encodings": r.NDistinct(), "byte_strings_checked": totalStrings,
			"phases": phaseInfo, "violation_keys": allKeys,
			"depth_ladder_rungs_core": totalLadders, "depth_ladder_locations": ladderPaths, "depth_ladder_types": len(ladderTypes), "depth_ladder_hand_encodings_crosschecked": totalHand,
			"decoder_calls": totalDecodes, "tasks": done, "tasks_skipped_budget": skipped, "workers": nw, "worker_mem_cap_bytes": workerMemCap,
			"structural_differences_between_decoders_sample": structDifs,
		})
}

func debugMain(spec string) {
	i := strings.LastIndex(spec, ":")
	name, hexs := spec[:i], spec[i+1:]
	regs := collectTypes()
	if loc, w, nd, ok := parseLadder(hexs); ok { // C20_DEBUG='pkg.Type:ladder(<location>;<how>;depth=<w>;inner=<kind>)'
		for _, reg := range regs {
			if reg.name != name {
				continue
			}
			cdc := newCodec(reg.extra)
			res := &result{Outcomes: map[string]int64{}}
			c := &checker{cdc: cdc, g: newGen(cdc, regs, reg.extra, false), reg: reg, res: res, vmap: map[string]*viol{}}
			for _, p := range c.g.ifacePaths(reg.rt) {
				if p.desc != loc {
					continue
				}
				top, how, ok := c.ladderValue(c.g.ladderGraph(), reg, p, w, nd)
				if !ok {
					fmt.Println("no ladder value")
					return
				}
				e := c.encR(top)
				fmt.Printf("ladder %s %s depth=%d: %d bytes (%s)\n", loc, how, w, len(e.bz), e.why())
				_, rR := c.decR(e.bz)
				fmt.Printf("reflect:   %s\n", rR.why())
				if reg.native {
					_, rG := c.decG(e.bz)
					fmt.Printf("genproto2: %s\n", rG.why())
				}
				c.checkLadder(top, ladderWitness(p, how, w, nd), w, c.handLadder(p, w, nd))
			}
			c.finish()
			for _, v := range res.Viols {
				fmt.Printf("VIOLATION %s: %s\n", v.Class, v.Detail)
			}
			fmt.Println("outcomes:", res.Outcomes)
			return
		}
		fmt.Println("type not found:", name)
		return
	}
	bs, err := hex.DecodeString(hexs)
	if err != nil {
		fmt.Println("bad hex:", err)
		return
	}
	for _, reg := range regs {
		if reg.name != name {
			continue
		}
		cdc := newCodec(reg.extra)
		res := &result{Outcomes: map[string]int64{}}
		c := &checker{cdc: cdc, reg: reg, res: res, vmap: map[string]*viol{}}
		dR, rR := c.decR(bs)
		fmt.Printf("reflect:   %s\n   value=%+v\n", rR.why(), dR.Elem().Interface())
		if !rR.failed() {
			e := c.encR(dR)
			fmt.Printf("   reencoded(reflect)=%x %s\n", e.bz, e.why())
		}
		if reg.native {
			dG, rG := c.decG(bs)
			fmt.Printf("genproto2: %s\n   value=%+v\n", rG.why(), dG.Elem().Interface())
			if !rG.failed() {
				e := c.encR(dG)
				fmt.Printf("   reencoded(reflect)=%x %s\n", e.bz, e.why())
				e = c.encG(dG)
				fmt.Printf("   reencoded(genproto2)=%x %s\n", e.bz, e.why())
			}
		}
		c.checkBytes(bs)
		c.finish()
		for _, v := range res.Viols {
			fmt.Printf("VIOLATION %s: %s\n", v.Class, v.Detail)
		}
		return
	}
	fmt.Println("type not found:", name)
}
