// C25 unscaled child (real B=32 code and real BptreeSpec).
package main

import "verif/harness/c23/bpx"

func main() { bpx.ChildMain(bpx.ChildC25) }
