// C25: Merkle proofs are sound and complete (parent: B=4 build; spawns the unscaled B=32 child).
package main

import "verif/harness/c23/bpx"

func main() { bpx.MainC25() }
