// C24 unscaled child (real B=32 code, no parameter-scaling overlay).
package main

import "verif/harness/c23/bpx"

func main() { bpx.ChildMain(bpx.ChildC24) }
