// C24: B+ tree hashes depend only on the operation history (parent: B=4 build; spawns the unscaled B=32 child).
package main

import "verif/harness/c23/bpx"

func main() { bpx.MainC24() }
